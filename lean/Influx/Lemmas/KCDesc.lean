/-
  Lemmas.KCDesc — the descending cursor: invariant `InvD` of the read marks relative to a
  watermark `W` (everything at or above `W` has been delivered, nothing below it), and the
  effect of one Read…Block.  Mirror image of Lemmas.KCAsc, except for the shape of `current`
  (nextDescending appends seeks[pos] twice).
-/
import Influx.Lemmas.KCAsc

namespace Influx.KC
open Influx.Generated.KeyCursor

variable {V : Type} {n : Nat}

/-- shape of `current` of a descending cursor: after the first element, strictly descending
    `seeks` indices, none above the first (the first may be repeated once) -/
def ShapeD : List (Fin n) → Prop
  | [] => True
  | f :: rest => rest.Pairwise (· > ·) ∧ ∀ b ∈ rest, b ≤ f

/-- descending invariant: marks are `[readMin, +∞)` with `W ≤ readMin`; every live point `≥ W`
    of every location is marked read; locations with unread values are in `current` -/
structure InvD (B : Vector (Block V) n) (rd : Marks n) (W : Int) (cur : List (Fin n)) : Prop where
  rmax : ∀ i : Fin n, rd[i].2 = maxI64
  rmin : ∀ i : Fin n, W ≤ rd[i].1
  done : ∀ i : Fin n, ∀ p ∈ live B[i], W ≤ p.1 → rd[i].1 ≤ p.1
  cover : ∀ i : Fin n, curVals B rd i ≠ [] → i ∈ cur
  shape : ShapeD cur

theorem InvD.mem_unread {B : Vector (Block V) n} {rd : Marks n} {W : Int} {cur : List (Fin n)}
    (inv : InvD B rd W cur) (hwf : ∀ i : Fin n, BlockWF B[i]) {i : Fin n} {p : Int × V} :
    p ∈ curVals B rd i ↔ p ∈ live B[i] ∧ p.1 < W := by
  rw [mem_curVals]
  have h1 := inv.rmax i
  have h2 := inv.rmin i
  constructor
  · rintro ⟨hl, hn⟩
    refine ⟨hl, ?_⟩
    have h3 := inv.done i p hl
    have h4 := (hwf i).live_inEntry hl
    have h5 := (hwf i).hi
    omega
  · rintro ⟨hl, hw⟩
    exact ⟨hl, by omega⟩

theorem ShapeD.tail {f : Fin n} {rest : List (Fin n)} (h : ShapeD (f :: rest)) : ShapeD rest := by
  cases rest with
  | nil => trivial
  | cons r rs =>
    obtain ⟨h1, _⟩ := h
    obtain ⟨h2, h3⟩ := List.pairwise_cons.1 h1
    exact ⟨h3, fun b hb => Fin.le_of_lt (h2 b hb)⟩

theorem InvD.drop {B : Vector (Block V) n} {rd : Marks n} {W : Int} {f : Fin n} {rest : List (Fin n)}
    (inv : InvD B rd W (f :: rest)) (he : curVals B rd f = []) : InvD B rd W rest :=
  { rmax := inv.rmax, rmin := inv.rmin, done := inv.done
    cover := by
      intro i hi
      rcases List.mem_cons.1 (inv.cover i hi) with rfl | h
      · exact absurd he hi
      · exact h
    shape := inv.shape.tail }

/-- Read…Block with `current = f :: rest` (also for `rest = []`), descending -/
theorem readMulti_desc {B : Vector (Block V) n} (hwf : ∀ i : Fin n, BlockWF B[i]) (hord : OrderOKv B)
    {rd : Marks n} {W : Int} {f : Fin n} {rest : List (Fin n)} (inv : InvD B rd W (f :: rest))
    (hne : curVals B rd f ≠ []) :
    ∃ W', W' < W ∧ InvD B (readMulti false B rd f rest (curVals B rd f)).1 W' (f :: rest) ∧
      SortedV (readMulti false B rd f rest (curVals B rd f)).2 ∧
      (readMulti false B rd f rest (curVals B rd f)).2 ≠ [] ∧
      ∀ p, p ∈ (readMulti false B rd f rest (curVals B rd f)).2 ↔ IsWinner B p ∧ W' ≤ p.1 ∧ p.1 < W := by
  have hsv : SortedV (curVals B rd f) := curVals_sorted hwf rd f
  obtain ⟨lo, hlo⟩ := minTime?_isSome hne
  obtain ⟨hi, hhi⟩ := maxTime?_isSome hne
  obtain ⟨hlok, hlo_le⟩ := minTime?_le hsv hlo
  obtain ⟨hhik, hhi_le⟩ := le_maxTime? hsv hhi
  obtain ⟨hdecr, hlef⟩ : rest.Pairwise (· > ·) ∧ ∀ b ∈ rest, b ≤ f := inv.shape
  obtain ⟨vhi, hvhi⟩ := mem_keys.1 hhik
  have hWhi : hi < W := ((inv.mem_unread hwf).1 hvhi).2
  have hlohi : lo ≤ hi := hlo_le _ hvhi
  have hhi64 : hi ≤ maxI64 := by
    have := (hwf f).live_inEntry ((inv.mem_unread hwf).1 hvhi).1
    have := (hwf f).hi
    simp only at *; omega
  -- the window
  let maxT := growMax B rd rest hi
  have hmaxT_hi : hi ≤ maxT := growMax_ge_init B rd rest hi
  have hmaxT_64 : maxT ≤ maxI64 := growMax_le B rd rest hi maxI64 hhi64 (fun i => (hwf i).hi)
  have hmaxT_entry : ∀ i ∈ rest, isRead B rd i = false → B[i].entry.MaxTime ≤ maxT :=
    fun i hi' hr => growMax_ge_entry B rd rest hi hi' hr
  have hmaxT_unread : ∀ i ∈ f :: rest, ∀ p ∈ curVals B rd i, p.1 ≤ maxT := by
    intro i hi' p hp
    rcases List.mem_cons.1 hi' with rfl | hi'
    · have := hhi_le p hp; omega
    · have hr : isRead B rd i = false := by
        cases h : isRead B rd i with
        | false => rfl
        | true => rw [curVals_nil_of_isRead hwf h] at hp; cases hp
      have := hmaxT_entry i hi' hr
      have := (hwf i).live_inEntry (mem_curVals.1 hp).1
      omega
  have hunf : ∃ minT, minT ≤ lo ∧
      readMulti false B rd f rest (curVals B rd f) =
        (markAt (mergeLoop false B minT maxT rest rd (curVals B rd f)).1 f minT maxT,
         (mergeLoop false B minT maxT rest rd (curVals B rd f)).2) := by
    unfold readMulti windowInit
    simp only [hlo, hhi, Bool.false_eq_true, if_false]
    cases hfo : firstOverlap B rd rest lo (growMax B rd rest hi) with
    | none => exact ⟨lo, Int.le_refl _, rfl⟩
    | some i =>
      refine ⟨if B[i].entry.MinTime < lo then B[i].entry.MinTime else lo, by split <;> omega, ?_⟩
      dsimp only
      rw [include_eq_self]
      intro p hp
      have h1 := hlo_le p hp
      have h2 := hhi_le p hp
      constructor
      · split <;> omega
      · show p.1 ≤ growMax B rd rest hi; omega
  obtain ⟨minT, hminT, heq⟩ := hunf
  rw [heq]
  simp only
  have hnd : rest.Nodup := hdecr.imp (fun h => Fin.ne_of_gt h)
  obtain ⟨hmarks, hfold⟩ := mergeLoop_spec false hwf minT maxT rest rd rd (curVals B rd f) hnd (fun _ _ => rfl)
  let U : Fin n → Vals V := windowed B rd minT maxT
  have hUs : ∀ i, SortedV (U i) := windowed_sorted hwf rd minT maxT
  have hUf : U f = curVals B rd f := by
    show include_ (curVals B rd f) minT maxT = _
    apply include_eq_self
    intro p hp
    have h1 := hlo_le p hp
    have h2 := hhi_le p hp
    omega
  have won0 : Won U (fun i => B[i].file) (fun x => x = f) (curVals B rd f) := by
    have := Won.single U (fun i : Fin n => B[i].file) f (hUs f)
    rwa [hUf] at this
  have won : Won U (fun i => B[i].file) (fun x => x = f ∨ x ∈ rest)
      (mergeLoop false B minT maxT rest rd (curVals B rd f)).2 := by
    rw [hfold]
    apply Won.fold_desc hUs rest _ _ won0
    · intro i hi'
      by_cases e : i = f
      · exact Or.inl e
      · right
        rintro k rfl ts hk hi''
        obtain ⟨o1, o2⟩ := shared_overlap hwf hi'' hk
        have hlt : i < k := by
          have h1 : i.val ≤ k.val := hlef i hi'
          have h2 : i.val ≠ k.val := fun e' => e (Fin.ext e')
          exact Fin.lt_def.2 (by omega)
        exact hord i k hlt o1 o2
    · refine hdecr.imp ?_
      intro a b hab ts ha hb
      obtain ⟨o1, o2⟩ := shared_overlap hwf hb ha
      exact hord b a hab o1 o2
  have hU : ∀ i ∈ f :: rest, ∀ p, p ∈ U i ↔ p ∈ live B[i] ∧ p.1 < W ∧ minT ≤ p.1 := by
    intro i hi' p
    show p ∈ windowed B rd minT maxT i ↔ _
    rw [mem_windowed, inv.mem_unread hwf]
    constructor
    · rintro ⟨⟨h1, h2⟩, h3, _⟩; exact ⟨h1, h2, h3⟩
    · rintro ⟨h1, h2, h3⟩
      exact ⟨⟨h1, h2⟩, h3, hmaxT_unread i hi' p ((inv.mem_unread hwf).2 ⟨h1, h2⟩)⟩
  have hout : ∀ i : Fin n, i ∉ f :: rest → ∀ p ∈ live B[i], ¬ p.1 < W := by
    intro i hi' p hp hw
    have : curVals B rd i ≠ [] := by
      intro e
      have := (inv.mem_unread hwf).2 ⟨hp, hw⟩
      rw [e] at this; cases this
    exact hi' (inv.cover i this)
  have hWmin : minT < W := by omega
  refine ⟨minT, hWmin, ?_, won.sorted, ?_, ?_⟩
  · have hnew : ∀ j : Fin n,
        (markAt (mergeLoop false B minT maxT rest rd (curVals B rd f)).1 f minT maxT)[j] =
          if j ∈ f :: rest then markRead rd[j] minT maxT else rd[j] := by
      intro j
      rw [markAt_get]
      by_cases hjf : f = j
      · subst hjf
        simp only [if_true, List.mem_cons, true_or]
        rw [hmarks f]
        split
        · exact markRead_idem _ _ _
        · rfl
      · have : ¬ j = f := fun e => hjf e.symm
        simp only [hjf, if_false, List.mem_cons, this, false_or]
        exact hmarks j
    have hsnd : ∀ j : Fin n, (markAt (mergeLoop false B minT maxT rest rd (curVals B rd f)).1 f minT maxT)[j].2 = maxI64 := by
      intro j
      rw [hnew j]
      have := inv.rmax j
      split
      · rw [markRead_snd]; split <;> omega
      · exact this
    have hfst : ∀ j : Fin n, (markAt (mergeLoop false B minT maxT rest rd (curVals B rd f)).1 f minT maxT)[j].1 =
        if j ∈ f :: rest then minT else rd[j].1 := by
      intro j
      rw [hnew j]
      have := inv.rmin j
      split
      · rw [markRead_fst]; split <;> omega
      · rfl
    refine { rmax := hsnd, rmin := ?_, done := ?_, cover := ?_, shape := inv.shape }
    · intro j
      rw [hfst j]
      have := inv.rmin j
      split <;> omega
    · intro j p hp hpw
      rw [hfst j]
      split
      · exact hpw
      · rename_i hj
        by_cases hw : p.1 < W
        · exact absurd hw (hout j hj p hp)
        · exact inv.done j p hp (by omega)
    · intro j hj
      apply inv.cover j
      intro e
      apply hj
      apply List.eq_nil_iff_forall_not_mem.2
      intro p hp
      have : p ∈ curVals B rd j := by
        refine curVals_mono ?_ ?_ hp
        · rw [hfst j]
          have := inv.rmin j
          split <;> omega
        · rw [hsnd j, inv.rmax j]; exact Int.le_refl _
      rw [e] at this; cases this
  · intro e
    have hk : hi ∈ keys (mergeLoop false B minT maxT rest rd (curVals B rd f)).2 :=
      (won.kmem hi).2 ⟨f, Or.inl rfl, by rw [hUf]; exact hhik⟩
    rw [e] at hk; cases hk
  · intro p
    rw [won.mem p]
    constructor
    · rintro ⟨i, hi', hpi, hmax⟩
      have hi'' : i ∈ f :: rest := by
        rcases hi' with rfl | hi'
        · exact List.mem_cons_self ..
        · exact List.mem_cons_of_mem _ hi'
      obtain ⟨hl, hw, hm⟩ := (hU i hi'' p).1 hpi
      refine ⟨⟨i, hl, ?_⟩, hm, hw⟩
      intro k hk
      obtain ⟨v, hv⟩ := mem_keys.1 hk
      by_cases hk' : k ∈ f :: rest
      · apply hmax k (by
          rcases List.mem_cons.1 hk' with rfl | h
          · exact Or.inl rfl
          · exact Or.inr h)
        exact mem_keys_of_mem (p := (p.1, v)) ((hU k hk' (p.1, v)).2 ⟨hv, hw, hm⟩)
      · exact absurd hw (hout k hk' (p.1, v) hv)
    · rintro ⟨⟨i, hl, hmax⟩, hm, hw⟩
      have hi' : i ∈ f :: rest := by
        apply Classical.byContradiction
        intro h
        exact hout i h p hl hw
      refine ⟨i, by
        rcases List.mem_cons.1 hi' with rfl | h
        · exact Or.inl rfl
        · exact Or.inr h, (hU i hi' p).2 ⟨hl, hw, hm⟩, ?_⟩
      intro k hk hkk
      apply hmax k
      obtain ⟨v, hv⟩ := mem_keys.1 hkk
      have hk' : k ∈ f :: rest := by
        rcases hk with rfl | h
        · exact List.mem_cons_self ..
        · exact List.mem_cons_of_mem _ h
      exact mem_keys_of_mem (p := (p.1, v)) ((hU k hk' (p.1, v)).1 hv).1

end Influx.KC
