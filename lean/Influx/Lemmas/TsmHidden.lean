/-
  Lemmas.TsmHidden — what `Delete` / `DeleteRange` hide.  `H` is the list of
  (key, lo, hi) requests applied to the index so far.  The invariant `TInv ix H`
  is established by `mkIndex` and kept by every `delete` / `deleteRange`; from it:
    * `ContainsValue k t`  ⇔  some block of k contains t  ∧  no request for k covers t;
    * a key missing from the index has its whole span covered by requests for it.
-/
import Influx.Lemmas.TsmDeleteRange
import Influx.Lemmas.TsmWindow

namespace Influx.Tsm
open Influx.Generated.TsmLayout

abbrev Hist := List (Key × Int × Int)

def coveredH (H : Hist) (k : Key) (t : Int) : Prop := ∃ r ∈ H, r.1 = k ∧ r.2.1 ≤ t ∧ t ≤ r.2.2

def spanIn (ke : KeyEntry) (t : Int) : Prop := ∃ mn mx, spanKE ke = some (mn, mx) ∧ mn ≤ t ∧ t ≤ mx

/-- the entries of a key: at least one, each inside the key's span (first min … last max),
    the span inside int64 -/
structure WFKE (ke : KeyEntry) : Prop where
  within : ∀ e ∈ ke.entries, ∀ t, e.MinTime ≤ t → t ≤ e.MaxTime → spanIn ke t
  int64 : ∀ t, spanIn ke t → minInt64 ≤ t ∧ t ≤ maxInt64

structure TInv (ix : Index) (H : Hist) : Prop where
  inv : IndexInv ix
  wf : ∀ ke ∈ ix.all, WFKE ke
  range : ∀ ke ∈ ix.all, ∀ t, spanIn ke t → ix.minTime ≤ t ∧ t ≤ ix.maxTime
  sound : ∀ k r, r ∈ tombRange ix k → (k, r.Min, r.Max) ∈ H
  absent : ∀ ke ∈ ix.all, ke ∉ ix.live → ∀ t, spanIn ke t → coveredH H ke.key t
  recorded : ∀ ke ∈ ix.live, ∀ r ∈ H, r.1 = ke.key → ∀ t, r.2.1 ≤ t → t ≤ r.2.2 → spanIn ke t →
    coveredTR (tombRange ix ke.key) t
  sortedTR : ∀ k, MinSorted (tombRange ix k)

def reqs (keys : List Key) (lo hi : Int) : Hist := keys.map fun k => (k, lo, hi)

theorem mem_reqs {keys : List Key} {lo hi : Int} {r : Key × Int × Int} :
    r ∈ reqs keys lo hi ↔ r.1 ∈ keys ∧ r.2.1 = lo ∧ r.2.2 = hi := by
  obtain ⟨k, a, b⟩ := r
  simp only [reqs, List.mem_map, Prod.mk.injEq]
  constructor
  · rintro ⟨x, hx, rfl, rfl, rfl⟩; exact ⟨hx, rfl, rfl⟩
  · rintro ⟨h1, rfl, rfl⟩; exact ⟨k, h1, rfl, rfl, rfl⟩

theorem coveredH_mono {H H' : Hist} (h : ∀ r ∈ H, r ∈ H') {k : Key} {t : Int} (hc : coveredH H k t) :
    coveredH H' k t := by
  obtain ⟨r, hr, h1⟩ := hc; exact ⟨r, h r hr, h1⟩

/-! ### Delete -/

theorem TInv_delete (ix : Index) (H : Hist) (h : TInv ix H) (keys : List Key) :
    TInv (delete ix keys) (H ++ reqs keys minInt64 maxInt64) := by
  obtain ⟨d1, d2, d3, d4, d5, d6⟩ := delete_fields ix keys
  have hl := delete_live ix h.inv keys
  have htr : ∀ k, tombRange (delete ix keys) k = tombRange ix k := by intro k; simp [tombRange, d1]
  have hsub : (delete ix keys).live.Sublist ix.live := by rw [hl]; exact List.filter_sublist
  refine ⟨⟨by rw [d2]; exact h.inv.sortedAll, by rw [d2]; exact hsub.trans h.inv.sub, by rw [d3, d2]; exact h.inv.minK,
      by rw [d4, d2]; exact h.inv.maxK⟩, by rw [d2]; exact h.wf, ?_, ?_, ?_, ?_, ?_⟩
  · rw [d2, d5, d6]; exact h.range
  · intro k r hr; rw [htr] at hr; exact List.mem_append_left _ (h.sound k r hr)
  · rw [d2]
    intro ke hke hnl t ht
    by_cases hlive : ke ∈ ix.live
    · -- removed now: its key is in `keys`, and the full range covers every int64 time
      have hin : ke.key ∈ keys := by
        by_cases hc : ke.key ∈ keys
        · exact hc
        · exfalso; apply hnl; rw [hl]
          exact List.mem_filter.mpr ⟨hlive, by simp [hc]⟩
      have := (h.wf ke hke).int64 t ht
      exact ⟨(ke.key, minInt64, maxInt64), List.mem_append_right _ (mem_reqs.mpr ⟨hin, rfl, rfl⟩), rfl, this.1, this.2⟩
    · exact coveredH_mono (fun r hr => List.mem_append_left _ hr) (h.absent ke hke hlive t ht)
  · intro ke hke r hr hrk t h1 h2 hs
    rw [hl] at hke
    obtain ⟨hlive, hnk⟩ := List.mem_filter.mp hke
    have hnk' : ¬ ke.key ∈ keys := by simpa using hnk
    rw [htr]
    rcases List.mem_append.mp hr with hr | hr
    · exact h.recorded ke hlive r hr hrk t h1 h2 hs
    · exact absurd (hrk ▸ (mem_reqs.mp hr).1) hnk'
  · intro k; rw [htr]; exact h.sortedTR k

/-! ### DeleteRange -/

theorem recList_nodup (ix : Index) (lo hi : Int) (T : List KeyEntry) (hs : SortedKE T) :
    ((recList ix lo hi T).map (·.1)).Nodup := by
  induction T with
  | nil => simp [recList]
  | cons ke rest ih =>
    have hx := List.pairwise_cons.mp hs
    have hsub : ∀ k ∈ (recList ix lo hi rest).map (·.1), ∃ x ∈ rest, x.key = k := by
      intro k hk
      simp only [recList, List.mem_map, List.mem_filterMap] at hk
      obtain ⟨p, ⟨x, hx', hp⟩, rfl⟩ := hk
      cases hr : (outcome ix lo hi x).recorded with
      | none => simp [hr] at hp
      | some ts => simp [hr] at hp; exact ⟨x, hx', by rw [← hp]⟩
    simp only [recList, List.filterMap_cons]
    cases hr : (outcome ix lo hi ke).recorded with
    | none => simpa [hr, recList] using ih hx.2
    | some ts =>
      simp only [hr, Option.map_some, List.map_cons, List.nodup_cons]
      refine ⟨?_, ih hx.2⟩
      intro hmem
      obtain ⟨x, hx', hk⟩ := hsub ke.key hmem
      have := hx.1 x hx'
      rw [hk] at this
      simp [klt_irrefl] at this

theorem lk_recList (ix : Index) (lo hi : Int) (T : List KeyEntry) (hs : SortedKE T) (k : Key) :
    lk (recList ix lo hi T) k =
      match T.find? (fun ke => ke.key = k) with
      | some ke => (outcome ix lo hi ke).recorded
      | none => none := by
  induction T with
  | nil => rfl
  | cons ke rest ih =>
    have hx := List.pairwise_cons.mp hs
    simp only [recList, List.filterMap_cons, List.find?_cons]
    by_cases hk : ke.key = k
    · simp only [hk, decide_true]
      cases hr : (outcome ix lo hi ke).recorded with
      | none =>
        simp only [Option.map_none]
        have := ih hx.2
        simp only [recList] at this
        rw [this]
        have : rest.find? (fun x => decide (x.key = k)) = none := by
          apply List.find?_eq_none.mpr
          intro x hx'
          have := klt_ne (hx.1 x hx')
          simp only [decide_eq_true_eq]
          rw [← hk]; exact fun e => this e.symm
        rw [this]
      | some ts => simp [lk, hk]
    · simp only [hk, decide_false]
      cases hr : (outcome ix lo hi ke).recorded with
      | none => simpa [recList] using ih hx.2
      | some ts =>
        simp only [Option.map_some, lk, List.find?_cons, hk, decide_false]
        have := ih hx.2
        simpa [lk, recList] using this


theorem find_of_mem_sorted {l : List KeyEntry} (hs : SortedKE l) {ke : KeyEntry} (h : ke ∈ l) :
    l.find? (fun x => x.key = ke.key) = some ke := by
  induction l with
  | nil => cases h
  | cons x l ih =>
    have hx := List.pairwise_cons.mp hs
    simp only [List.find?_cons]
    rcases List.mem_cons.mp h with rfl | h'
    · simp
    · have : ¬ x.key = ke.key := klt_ne (hx.1 ke h')
      simp only [this, decide_false]
      exact ih hx.2 h'

section
variable (ix : Index) (H : Hist) (h : TInv ix H) (keys : List Key) (lo hi : Int)

/-- the keys visited by the loop -/
def targets : List KeyEntry := ix.live.filter fun ke => decide (ke.key ∈ keys)

theorem mem_targets {ke : KeyEntry} : ke ∈ targets ix keys ↔ ke ∈ ix.live ∧ ke.key ∈ keys := by
  simp [targets, List.mem_filter]

include h in
theorem targets_sorted : SortedKE (targets ix keys) :=
  List.Pairwise.sublist List.filter_sublist h.inv.sortedLive

include h in
theorem gone_iff {ke : KeyEntry} (hke : ke ∈ ix.live) :
    ke.key ∈ goneKeys ix lo hi (targets ix keys) ↔ ke.key ∈ keys ∧ (outcome ix lo hi ke).gone = true := by
  simp only [goneKeys, List.mem_map, List.mem_filter]
  constructor
  · rintro ⟨x, ⟨hxT, hg⟩, hk⟩
    have hxl := ((mem_targets ix keys).mp hxT)
    have : x = ke := sorted_key_inj h.inv.sortedLive hxl.1 hke hk
    subst this
    exact ⟨hxl.2, hg⟩
  · rintro ⟨hk, hg⟩
    exact ⟨ke, ⟨(mem_targets ix keys).mpr ⟨hke, hk⟩, hg⟩, rfl⟩

include h in
theorem lk_rec_live {ke : KeyEntry} (hke : ke ∈ ix.live) :
    lk (recList ix lo hi (targets ix keys)) ke.key =
      if ke.key ∈ keys then (outcome ix lo hi ke).recorded else none := by
  rw [lk_recList ix lo hi _ (targets_sorted ix H h keys)]
  by_cases hk : ke.key ∈ keys
  · rw [find_of_mem_sorted (targets_sorted ix H h keys) ((mem_targets ix keys).mpr ⟨hke, hk⟩)]
    simp [hk]
  · have : (targets ix keys).find? (fun x => decide (x.key = ke.key)) = none := by
      apply List.find?_eq_none.mpr
      intro x hx
      simp only [decide_eq_true_eq]
      intro e
      exact hk (e ▸ ((mem_targets ix keys).mp hx).2)
    rw [this]; simp [hk]

theorem lk_rec_nonlive {k : Key} (hk : ∀ ke ∈ ix.live, ke.key ≠ k) :
    lk (recList ix lo hi (targets ix keys)) k = none := by
  simp only [lk, Option.map_eq_none_iff, List.find?_eq_none]
  intro p hp
  simp only [recList, List.mem_filterMap] at hp
  obtain ⟨x, hx, hp⟩ := hp
  cases hr : (outcome ix lo hi x).recorded with
  | none => simp [hr] at hp
  | some ts =>
    simp [hr] at hp
    simp only [decide_eq_true_eq]
    rw [← hp]
    exact hk x ((mem_targets ix keys).mp hx).1

end


theorem TInv_congr {ix : Index} {H H' : Hist} (hm : ∀ r, r ∈ H ↔ r ∈ H') (h : TInv ix H) : TInv ix H' :=
  ⟨h.inv, h.wf, h.range, fun k r hr => (hm _).mp (h.sound k r hr),
   fun ke hke hnl t ht => coveredH_mono (fun r hr => (hm r).mp hr) (h.absent ke hke hnl t ht),
   fun ke hke r hr => h.recorded ke hke r ((hm r).mpr hr), h.sortedTR⟩

theorem outcome_full {ix : Index} {lo hi : Int} {ke : KeyEntry} (h : outcome ix lo hi ke = .full) :
    ∃ mn mx, spanKE ke = some (mn, mx) ∧ lo ≤ mn ∧ mx ≤ hi := by
  unfold outcome at h
  cases hs : spanKE ke with
  | none => simp [hs] at h
  | some p =>
    obtain ⟨mn, mx⟩ := p
    simp only [hs] at h
    split at h
    · cases h
    · split at h
      · next hc => simp only [Bool.and_eq_true, decide_eq_true_eq] at hc; exact ⟨mn, mx, rfl, hc.1, hc.2⟩
      · cases h

theorem outcome_recd {ix : Index} {lo hi : Int} {ke : KeyEntry} {ts : List TimeRange} {g : Bool}
    (h : outcome ix lo hi ke = .recd ts g) :
    ∃ mn mx, spanKE ke = some (mn, mx) ∧ ts = sortTR (tombRange ix ke.key ++ [⟨lo, hi⟩]) ∧
      (g = true → (window ts).1 ≤ mn ∧ mx ≤ (window ts).2) := by
  unfold outcome at h
  cases hs : spanKE ke with
  | none => simp [hs] at h
  | some p =>
    obtain ⟨mn, mx⟩ := p
    simp only [hs] at h
    split at h
    · cases h
    · split at h
      · cases h
      · simp only [Outcome.recd.injEq] at h
        refine ⟨mn, mx, rfl, h.1.symm, ?_⟩
        intro hg
        rw [← h.1, ← h.2] at *
        simp only [Bool.and_eq_true, decide_eq_true_eq] at hg
        exact ⟨hg.1, hg.2⟩

theorem outcome_skip {ix : Index} {lo hi : Int} {ke : KeyEntry} (h : outcome ix lo hi ke = .skip) :
    ∀ t, spanIn ke t → ¬ (lo ≤ t ∧ t ≤ hi) := by
  intro t ⟨mn, mx, hs, h1, h2⟩ ⟨h3, h4⟩
  unfold outcome at h
  simp only [hs] at h
  split at h
  · next hc => simp only [Bool.or_eq_true, decide_eq_true_eq] at hc; omega
  · split at h <;> cases h

/-- **DeleteRange keeps the invariant**, with the requests (k, lo, hi), k ∈ keys, added. -/
theorem TInv_deleteRange (ix : Index) (H : Hist) (h : TInv ix H) (keys : List Key) (lo hi : Int) :
    TInv (deleteRange ix keys lo hi) (H ++ reqs keys lo hi) := by
  by_cases hk : keys = []
  · subst hk; simpa [deleteRange, reqs] using h
  by_cases hfull : lo = minInt64 ∧ hi = maxInt64
  · have : deleteRange ix keys lo hi = delete ix (sortKeys keys) := by
      unfold deleteRange
      have e1 : keys.isEmpty = false := by cases keys <;> simp_all
      simp [e1, hfull.1, hfull.2]
    rw [this, hfull.1, hfull.2]
    apply TInv_congr _ (TInv_delete ix H h (sortKeys keys))
    intro r
    simp only [List.mem_append, mem_reqs, mem_sortKeys]
  by_cases hout : lo > ix.maxTime ∨ hi < ix.minTime
  · have : deleteRange ix keys lo hi = ix := by
      unfold deleteRange
      have e1 : keys.isEmpty = false := by cases keys <;> simp_all
      have e2 : (decide (lo = minInt64) && decide (hi = maxInt64)) = false := by
        simp only [Bool.and_eq_false_iff, decide_eq_false_iff_not]
        by_cases h1 : lo = minInt64
        · right; intro h2; exact hfull ⟨h1, h2⟩
        · left; exact h1
      have e3 : (decide (lo > ix.maxTime) || decide (hi < ix.minTime)) = true := by
        simp only [Bool.or_eq_true, decide_eq_true_eq]; exact hout
      simp [e1, e2, e3]
    rw [this]
    refine ⟨h.inv, h.wf, h.range, fun k r hr => List.mem_append_left _ (h.sound k r hr),
      fun ke hke hnl t ht => coveredH_mono (fun r hr => List.mem_append_left _ hr) (h.absent ke hke hnl t ht),
      ?_, h.sortedTR⟩
    intro ke hke r hr hrk t h1 h2 hs
    rcases List.mem_append.mp hr with hr | hr
    · exact h.recorded ke hke r hr hrk t h1 h2 hs
    · exfalso
      obtain ⟨_, hlo, hhi⟩ := mem_reqs.mp hr
      have := h.range ke (h.inv.sub.subset hke) t hs
      omega
  -- the main branch
  obtain ⟨hlive, htombs, hall, hmink, hmaxk, hmint, hmaxt⟩ := deleteRange_main ix h.inv keys lo hi hk hfull hout
  generalize deleteRange ix keys lo hi = ix' at *
  have hT : (ix.live.filter fun ke => decide (ke.key ∈ keys)) = targets ix keys := rfl
  rw [hT] at hlive htombs
  have hnd := recList_nodup ix lo hi (targets ix keys) (targets_sorted ix H h keys)
  have htr : ∀ k, tombRange ix' k =
      ((lk (recList ix lo hi (targets ix keys)) k).orElse fun _ => lk ix.tombs k).getD [] := by
    intro k
    rw [tombRange_eq_lk, htombs, lk_foldl_mapSet _ hnd]
  have htr_live : ∀ ke ∈ ix.live, tombRange ix' ke.key =
      if ke.key ∈ keys then ((outcome ix lo hi ke).recorded).getD (tombRange ix ke.key) else tombRange ix ke.key := by
    intro ke hke
    rw [htr, lk_rec_live ix H h keys lo hi hke, tombRange_eq_lk]
    by_cases hkk : ke.key ∈ keys
    · simp only [hkk, if_true]
      cases (outcome ix lo hi ke).recorded <;> simp
    · simp [hkk]
  have htr_non : ∀ k, (∀ ke ∈ ix.live, ke.key ≠ k) → tombRange ix' k = tombRange ix k := by
    intro k hk'
    rw [htr, lk_rec_nonlive ix keys lo hi hk', tombRange_eq_lk]; simp
  have hmemlive : ∀ ke, ke ∈ ix'.live ↔ ke ∈ ix.live ∧ ¬ (ke.key ∈ keys ∧ (outcome ix lo hi ke).gone = true) := by
    intro ke
    rw [hlive, List.mem_filter]
    constructor
    · rintro ⟨h1, h2⟩
      refine ⟨h1, ?_⟩
      rw [← gone_iff ix H h keys lo hi h1]
      simpa using h2
    · rintro ⟨h1, h2⟩
      refine ⟨h1, ?_⟩
      rw [← gone_iff ix H h keys lo hi h1] at h2
      simpa using h2
  -- every range of the new lists is an old one or the new request
  have hsound' : ∀ k r, r ∈ tombRange ix' k → r ∈ tombRange ix k ∨ (k ∈ keys ∧ r = ⟨lo, hi⟩) := by
    intro k r hr
    by_cases hex : ∃ ke ∈ ix.live, ke.key = k
    · obtain ⟨ke, hke, rfl⟩ := hex
      rw [htr_live ke hke] at hr
      by_cases hkk : ke.key ∈ keys
      · simp only [hkk, if_true] at hr
        cases ho : outcome ix lo hi ke with
        | skip => simp [ho, Outcome.recorded] at hr; exact Or.inl hr
        | full => simp [ho, Outcome.recorded] at hr; exact Or.inl hr
        | recd ts g =>
          obtain ⟨mn, mx, _, hts, _⟩ := outcome_recd ho
          simp only [ho, Outcome.recorded, Option.getD_some] at hr
          rw [hts, mem_sortTR] at hr
          rcases List.mem_append.mp hr with hr | hr
          · exact Or.inl hr
          · right; exact ⟨hkk, by simpa using hr⟩
      · simp only [hkk, if_false] at hr; exact Or.inl hr
    · rw [htr_non k (fun ke hke e => hex ⟨ke, hke, e⟩)] at hr
      exact Or.inl hr
  refine ⟨⟨by rw [hall]; exact h.inv.sortedAll, ?_, by rw [hmink, hall]; exact h.inv.minK,
      by rw [hmaxk, hall]; exact h.inv.maxK⟩, by rw [hall]; exact h.wf, ?_, ?_, ?_, ?_, ?_⟩
  · rw [hall, hlive]; exact List.filter_sublist.trans h.inv.sub
  · rw [hall, hmint, hmaxt]; exact h.range
  · -- sound
    intro k r hr
    rcases hsound' k r hr with h1 | ⟨h1, h2⟩
    · exact List.mem_append_left _ (h.sound k r h1)
    · subst h2; exact List.mem_append_right _ (mem_reqs.mpr ⟨h1, rfl, rfl⟩)
  · -- absent
    rw [hall]
    intro ke hke hnl t ht
    by_cases hl : ke ∈ ix.live
    · have hg : ke.key ∈ keys ∧ (outcome ix lo hi ke).gone = true := by
        by_cases hc : ke.key ∈ keys ∧ (outcome ix lo hi ke).gone = true
        · exact hc
        · exact absurd ((hmemlive ke).mpr ⟨hl, hc⟩) hnl
      cases ho : outcome ix lo hi ke with
      | skip => simp [ho, Outcome.gone] at hg
      | full =>
        obtain ⟨mn, mx, hs, h1, h2⟩ := outcome_full ho
        obtain ⟨mn', mx', hs', h3, h4⟩ := ht
        rw [hs] at hs'; cases hs'
        exact ⟨(ke.key, lo, hi), List.mem_append_right _ (mem_reqs.mpr ⟨hg.1, rfl, rfl⟩), rfl, by simp; omega, by simp; omega⟩
      | recd ts g =>
        obtain ⟨mn, mx, hs, hts, hw⟩ := outcome_recd ho
        have hgt : g = true := by simpa [ho, Outcome.gone] using hg.2
        obtain ⟨hw1, hw2⟩ := hw hgt
        obtain ⟨mn', mx', hs', h3, h4⟩ := ht
        rw [hs] at hs'; cases hs'
        have hsorted : MinSorted ts := by rw [hts]; exact minSorted_sortTR _
        obtain ⟨r, hr, hr1, hr2⟩ := window_covered ts hsorted _ _ rfl mn mx hw1 hw2 t h3 h4
        rw [hts, mem_sortTR] at hr
        rcases List.mem_append.mp hr with hr | hr
        · exact ⟨(ke.key, r.Min, r.Max), List.mem_append_left _ (h.sound ke.key r hr), rfl, hr1, hr2⟩
        · have : r = ⟨lo, hi⟩ := by simpa using hr
          subst this
          exact ⟨(ke.key, lo, hi), List.mem_append_right _ (mem_reqs.mpr ⟨hg.1, rfl, rfl⟩), rfl, hr1, hr2⟩
    · exact coveredH_mono (fun r hr => List.mem_append_left _ hr) (h.absent ke hke hl t ht)
  · -- recorded
    intro ke hke r hr hrk t h1 h2 hs
    obtain ⟨hl, hng⟩ := (hmemlive ke).mp hke
    rw [htr_live ke hl]
    rcases List.mem_append.mp hr with hr | hr
    · obtain ⟨x, hx, hx1, hx2⟩ := h.recorded ke hl r hr hrk t h1 h2 hs
      by_cases hkk : ke.key ∈ keys
      · simp only [hkk, if_true]
        cases ho : outcome ix lo hi ke with
        | skip => exact ⟨x, by simpa [Outcome.recorded] using hx, hx1, hx2⟩
        | full => exact ⟨x, by simpa [Outcome.recorded] using hx, hx1, hx2⟩
        | recd ts g =>
          obtain ⟨_, _, _, hts, _⟩ := outcome_recd ho
          refine ⟨x, ?_, hx1, hx2⟩
          simp only [Outcome.recorded, Option.getD_some]
          rw [hts, mem_sortTR]; exact List.mem_append_left _ hx
      · simp only [hkk, if_false]; exact ⟨x, hx, hx1, hx2⟩
    · obtain ⟨hkk, hlo, hhi⟩ := mem_reqs.mp hr
      rw [hrk] at hkk
      simp only [hkk, if_true]
      cases ho : outcome ix lo hi ke with
      | skip => exact absurd ⟨by omega, by omega⟩ (outcome_skip ho t hs)
      | full => exact absurd ⟨hkk, by simp [ho, Outcome.gone]⟩ hng
      | recd ts g =>
        obtain ⟨_, _, _, hts, _⟩ := outcome_recd ho
        refine ⟨⟨lo, hi⟩, ?_, by simp; omega, by simp; omega⟩
        simp only [Outcome.recorded, Option.getD_some]
        rw [hts, mem_sortTR]; simp
  · -- sorted
    intro k
    by_cases hex : ∃ ke ∈ ix.live, ke.key = k
    · obtain ⟨ke, hke, rfl⟩ := hex
      rw [htr_live ke hke]
      by_cases hkk : ke.key ∈ keys
      · simp only [hkk, if_true]
        cases ho : outcome ix lo hi ke with
        | skip => simpa [Outcome.recorded] using h.sortedTR ke.key
        | full => simpa [Outcome.recorded] using h.sortedTR ke.key
        | recd ts g =>
          obtain ⟨_, _, _, hts, _⟩ := outcome_recd ho
          simp only [Outcome.recorded, Option.getD_some]
          rw [hts]; exact minSorted_sortTR _
      · simp only [hkk, if_false]; exact h.sortedTR ke.key
    · rw [htr_non k (fun ke hke e => hex ⟨ke, hke, e⟩)]; exact h.sortedTR k

end Influx.Tsm
