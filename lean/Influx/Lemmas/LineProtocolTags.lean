/-
  `point.Tags()` of an accepted point: the scanned tags in key order, with pairwise distinct keys.
-/
import Influx.Lemmas.LineProtocolInj
import Influx.Lemmas.LineProtocolOrder

namespace Influx.LP
open Influx.Generated.LineProto

/-! ### walkTags on a key made of scanned components -/

def kvText (kv : Bytes × Bytes) : Bytes := kv.1 ++ cEq :: kv.2
def kvsText (kvs : List (Bytes × Bytes)) : Bytes := kvs.flatMap fun kv => cComma :: kvText kv

structure KVShape (kv : Bytes × Bytes) : Prop where
  k_nb : NoBare isTagSpecial false kv.1
  k_tb : lastIsBS false kv.1 = false
  k_ne : kv.1 ≠ []
  v_ne : kv.2 ≠ []
  v_nb : NoBare isMeasSpecial false kv.2
  v_tb : lastIsBS false kv.2 = false

theorem kvsText_cons (kv : Bytes × Bytes) (kvs : List (Bytes × Bytes)) :
    kvsText (kv :: kvs) = cComma :: kvText kv ++ kvsText kvs := by simp [kvsText]

def mkTag (he : Bool) (kv : Bytes × Bytes) : Tag :=
  if he then ⟨unescapeTag kv.1, unescapeTag kv.2⟩ else ⟨kv.1, kv.2⟩

theorem noBare_eq_of_tag (pbs : Bool) (s : Bytes) (h : NoBare isTagSpecial pbs s) : NoBare (· == cEq) pbs s :=
  NoBare_mono _ _ (by intro b hb; simp at hb; simp [isTagSpecial, hb]) _ _ h

theorem noBare_comma_of_meas (pbs : Bool) (s : Bytes) (h : NoBare isMeasSpecial pbs s) : NoBare (· == cComma) pbs s :=
  NoBare_mono _ _ (by intro b hb; simp at hb; simp [isMeasSpecial, hb]) _ _ h

theorem walkTagsLoop_kvs (he : Bool) (kvs : List (Bytes × Bytes)) (fuel : Nat) (hf : kvs.length ≤ fuel)
    (hs : ∀ kv ∈ kvs, KVShape kv) :
    walkTagsLoop he fuel ((kvsText kvs).drop 1) = kvs.map (mkTag he) := by
  induction kvs generalizing fuel with
  | nil => simp [kvsText, walkTagsLoop_nil]
  | cons kv kvs ih =>
    obtain ⟨f, rfl⟩ : ∃ f, fuel = f + 1 := ⟨fuel - 1, by simp at hf; omega⟩
    have sh := hs kv (by simp)
    rw [kvsText_cons]
    simp only [List.cons_append, List.drop_succ_cons, List.drop_zero]
    have hne : kvText kv ++ kvsText kvs ≠ [] := by simp [kvText]
    rw [walkTagsLoop_succ _ _ _ hne]
    have hs1 : scanTo cEq false (kvText kv ++ kvsText kvs) = (kv.1, cEq :: (kv.2 ++ kvsText kvs)) := by
      have := scanTo_noBare cEq false kv.1 (kv.2 ++ kvsText kvs) (noBare_eq_of_tag _ _ sh.k_nb) sh.k_tb
      simpa [kvText] using this
    have hs2 : scanTagValue false (kv.2 ++ kvsText kvs) = (kv.2, kvsText kvs) := by
      rw [scanTagValue_eq]
      cases kvs with
      | nil => simpa [kvsText] using scanTo_noBare_end cComma false kv.2 (noBare_comma_of_meas _ _ sh.v_nb)
      | cons u us =>
        rw [kvsText_cons]
        exact scanTo_noBare cComma false kv.2 _ (noBare_comma_of_meas _ _ sh.v_nb) sh.v_tb
    have hne2 : kv.2.isEmpty = false := by
      cases h : kv.2 with
      | nil => exact absurd h sh.v_ne
      | cons _ _ => rfl
    simp only [hs1, List.drop_succ_cons, List.drop_zero, hs2, hne2, Bool.false_eq_true, if_false]
    rw [ih f (by simp at hf; omega) (fun u hu => hs u (by simp [hu]))]
    simp only [List.map_cons, mkTag]

/-- `walkTags` on `name,k1=v1,…` made of scanned components -/
theorem walkTags_kvs (name : Bytes) (kvs : List (Bytes × Bytes)) (hne : name ≠ [])
    (hnb : NoBare (· == cComma) false name) (htb : kvs ≠ [] → lastIsBS false name = false)
    (hs : ∀ kv ∈ kvs, KVShape kv) :
    walkTags (name ++ kvsText kvs) = kvs.map (mkTag ((name ++ kvsText kvs).contains cBS)) := by
  unfold walkTags
  have hemp : (name ++ kvsText kvs).isEmpty = false := by
    cases h : name with
    | nil => exact absurd h hne
    | cons _ _ => rfl
  have hemp2 : name.isEmpty = false := by
    cases h : name with
    | nil => exact absurd h hne
    | cons _ _ => rfl
  simp only [hemp, Bool.false_eq_true, if_false]
  cases kvs with
  | nil =>
    simp only [kvsText, List.flatMap_nil, List.append_nil]
    rw [scanTo_noBare_end cComma false name hnb]
    simp [hemp2, walkTagsLoop_nil]
  | cons kv kvs' =>
    have hsc : scanTo cComma false (name ++ kvsText (kv :: kvs')) = (name, kvsText (kv :: kvs')) := by
      rw [kvsText_cons, List.cons_append]
      exact scanTo_noBare cComma false name _ hnb (htb (by simp))
    rw [hsc]
    simp only [hemp2, Bool.false_eq_true, if_false]
    apply walkTagsLoop_kvs _ _ _ _ hs
    have : (kv :: kvs').length ≤ (kvsText (kv :: kvs')).length := by
      clear hs hsc htb hemp
      induction kvs' generalizing kv with
      | nil => simp [kvsText]
      | cons u us ih =>
        have h1 := ih u
        rw [kvsText_cons]
        simp only [List.length_cons, List.cons_append, List.length_append] at h1 ⊢
        omega
    simp only [List.length_append]
    omega

/-! ### what `scanTags` returns -/

def joinRaw : List Bytes → Bytes
  | [] => []
  | [a] => a
  | a :: b :: l => a ++ cComma :: joinRaw (b :: l)

theorem scanTags_shape (fuel : Nat) (buf : Bytes) (raws : List Bytes) (rest : Bytes)
    (h : scanTags fuel buf = .ok (raws, rest)) :
    ∃ kvs : List (Bytes × Bytes), raws = kvs.map kvText ∧ kvs ≠ [] ∧ (∀ kv ∈ kvs, KVShape kv) ∧
      rest.head? = some cSpace ∧ buf = joinRaw raws ++ rest := by
  induction fuel generalizing buf raws rest with
  | zero => simp [scanTags] at h
  | succ n ih =>
    rw [scanTags] at h
    cases hk : scanTagsKey buf with
    | error e => rw [hk] at h; cases h
    | ok p =>
      obtain ⟨k, r1⟩ := p
      rw [hk] at h
      simp only at h
      obtain ⟨k1, k2, k3, k4⟩ := scanTagsKey_shape buf k r1 hk
      cases hv : scanTagsValue r1 with
      | error e => rw [hv] at h; cases h
      | ok q =>
        obtain ⟨v, e⟩ := q
        rw [hv] at h
        obtain ⟨v1, v2, v3, v4, v5⟩ := scanTagsValue_shape r1 v e hv
        have hshape : KVShape (k, v) := ⟨k2, k3, k1, v1, v2, v3⟩
        cases e with
        | fields r2 =>
          simp only [Except.ok.injEq, Prod.mk.injEq] at h
          obtain ⟨rfl, rfl⟩ := h
          obtain ⟨e1, e2⟩ := v5 r2 rfl
          refine ⟨[(k, v)], rfl, by simp, ?_, e2, ?_⟩
          · intro kv hkv; simp at hkv; subst hkv; exact hshape
          · simp only [joinRaw]
            rw [k4, e1]; simp
        | key r2 =>
          simp only at h
          cases hrec : scanTags n r2 with
          | error e' => rw [hrec] at h; cases h
          | ok pr =>
            obtain ⟨ts, r⟩ := pr
            rw [hrec] at h
            simp only [Except.ok.injEq, Prod.mk.injEq] at h
            obtain ⟨rfl, rfl⟩ := h
            obtain ⟨kvs, i1, i2, i3, i4, i5⟩ := ih r2 ts r hrec
            refine ⟨(k, v) :: kvs, by simp [i1, kvText], by simp, ?_, i4, ?_⟩
            · intro kv hkv
              rcases List.mem_cons.mp hkv with rfl | hkv
              · exact hshape
              · exact i3 kv hkv
            · have e1 := v4 r2 rfl
              cases hts : ts with
              | nil =>
                exfalso; rw [hts] at i1
                exact i2 (List.map_eq_nil_iff.mp i1.symm)
              | cons t ts' =>
                simp only [joinRaw]
                rw [k4, e1, i5, hts]
                simp

theorem rawTagKey_kvText (kv : Bytes × Bytes) (h : KVShape kv) : rawTagKey (kvText kv) = kv.1 := by
  unfold rawTagKey kvText
  rw [scanTo_noBare cEq false kv.1 kv.2 (noBare_eq_of_tag _ _ h.k_nb) h.k_tb]

/-! ### strictly increasing keys are pairwise distinct -/

theorem checkSorted_pairwise (keys : List Bytes) (h : checkSorted keys = .ok true) :
    keys.Pairwise (fun a b => cmpBytes a b = .lt) := by
  induction keys with
  | nil => exact List.Pairwise.nil
  | cons a rest ih =>
    cases rest with
    | nil => exact List.pairwise_singleton _ _
    | cons b r =>
      rw [checkSorted] at h
      cases hc : cmpBytes a b with
      | lt =>
        rw [hc] at h
        have ht := ih h
        apply List.pairwise_cons.mpr
        refine ⟨?_, ht⟩
        intro w hw
        rcases List.mem_cons.mp hw with rfl | hw
        · exact hc
        · exact cmpBytes_lt_trans _ _ _ hc ((List.pairwise_cons.mp ht).1 w hw)
      | eq => rw [hc] at h; cases h
      | gt => rw [hc] at h; cases h

theorem pairwise_lt_ne (keys : List Bytes) (h : keys.Pairwise (fun a b => cmpBytes a b = .lt)) :
    keys.Pairwise (· ≠ ·) := by
  apply List.Pairwise.imp _ h
  intro a b hab e
  subst e
  rw [cmpBytes_refl] at hab; cases hab

theorem distinct_of_pairwise (l : List Bytes) (h : l.Pairwise (· ≠ ·)) : Spec.C12.distinct l = true := by
  induction l with
  | nil => rfl
  | cons a rest ih =>
    have hp := List.pairwise_cons.mp h
    simp only [Spec.C12.distinct, Bool.and_eq_true, Bool.not_eq_true', List.contains_eq_mem,
      decide_eq_false_iff_not]
    exact ⟨fun hm => hp.1 a hm rfl, ih hp.2⟩

/-- the tag keys `Tags()` reports for a key built from scanned components with distinct raw keys -/
theorem distinct_tags_of_kvs (name : Bytes) (kvs : List (Bytes × Bytes)) (hne : name ≠ [])
    (hnb : NoBare (· == cComma) false name) (htb : kvs ≠ [] → lastIsBS false name = false)
    (hs : ∀ kv ∈ kvs, KVShape kv) (hd : (kvs.map (·.1)).Pairwise (· ≠ ·)) :
    Spec.C12.distinct ((walkTags (name ++ kvsText kvs)).map (·.key)) = true := by
  rw [walkTags_kvs name kvs hne hnb htb hs]
  apply distinct_of_pairwise
  rw [List.map_map]
  cases hhe : (name ++ kvsText kvs).contains cBS with
  | false =>
    have : ((fun t : Tag => t.key) ∘ mkTag false) = fun kv => kv.1 := by funext kv; simp [mkTag]
    rw [this]; exact hd
  | true =>
    have : ((fun t : Tag => t.key) ∘ mkTag true) = fun kv => unescapeTag kv.1 := by funext kv; simp [mkTag]
    rw [this]
    rw [List.pairwise_map] at hd ⊢
    apply List.Pairwise.imp_of_mem _ hd
    intro a b ha hb hab e
    exact hab (unescapeTag_injective _ _ (hs a ha).k_nb (hs b hb).k_nb e)

end Influx.LP
