/-
  Lemmas.KCBlocks — vocabulary and basic facts for the C06 proofs: well-formed blocks, live and
  unread values of a location, `isRead`, marks, the window-growing loops, and the merge loop of
  Read…Block as a fold.
-/
import Influx.Lemmas.KCAlgebra

namespace Influx.KC
open Influx.Generated.KeyCursor

variable {V : Type} {n : Nat}

/-- what the TSM writer guarantees of a block and its index entry: timestamps strictly
    ascending, inside the entry's bounds, bounds are int64 values -/
structure BlockWF (b : Block V) : Prop where
  sorted : SortedV b.vals
  inEntry : ∀ p ∈ b.vals, b.entry.MinTime ≤ p.1 ∧ p.1 ≤ b.entry.MaxTime
  lo : minI64 ≤ b.entry.MinTime
  hi : b.entry.MaxTime ≤ maxI64

/-- the points of a location that its file's tombstones leave -/
def live (b : Block V) : Vals V := excludeTombs b.tombs b.vals

theorem mem_live {b : Block V} {p : Int × V} : p ∈ live b ↔ p ∈ b.vals ∧ ¬ covered b.tombs p.1 :=
  mem_excludeTombs

theorem BlockWF.live_sorted {b : Block V} (h : BlockWF b) : SortedV (live b) := h.sorted.excludeTombs _

theorem BlockWF.live_inEntry {b : Block V} (h : BlockWF b) {p : Int × V} (hp : p ∈ live b) :
    b.entry.MinTime ≤ p.1 ∧ p.1 ≤ b.entry.MaxTime := h.inEntry p (mem_live.1 hp).1

/-- OrderOK on the vector of `seeks`: entries that overlap in time come older file first -/
def OrderOKv (B : Vector (Block V) n) : Prop :=
  ∀ i j : Fin n, i < j →
    B[i].entry.MinTime ≤ B[j].entry.MaxTime → B[j].entry.MinTime ≤ B[i].entry.MaxTime →
    B[i].file < B[j].file

/-- the point delivered for a timestamp by "newest file wins" over the locations in `seeks` -/
def IsWinner (B : Vector (Block V) n) (p : Int × V) : Prop :=
  ∃ i : Fin n, p ∈ live B[i] ∧ ∀ k : Fin n, p.1 ∈ keys (live B[k]) → B[k].file ≤ B[i].file

/-! ### read marks -/

theorem isRead_iff {B : Vector (Block V) n} {rd : Marks n} {i : Fin n} :
    isRead B rd i = true ↔ rd[i].1 ≤ B[i].entry.MinTime ∧ B[i].entry.MaxTime ≤ rd[i].2 := by
  show (decide (rd[i].1 ≤ B[i].entry.MinTime) && decide (rd[i].2 ≥ B[i].entry.MaxTime)) = true ↔ _
  simp only [Bool.and_eq_true, decide_eq_true_eq, ge_iff_le]

theorem mem_curVals {B : Vector (Block V) n} {rd : Marks n} {i : Fin n} {p : Int × V} :
    p ∈ curVals B rd i ↔ p ∈ live B[i] ∧ ¬ (rd[i].1 ≤ p.1 ∧ p.1 ≤ rd[i].2) := by
  simp only [curVals, mem_exclude, live]

theorem mem_firstVals {B : Vector (Block V) n} {rd : Marks n} {i : Fin n} {p : Int × V} :
    p ∈ firstVals B rd i ↔ p ∈ live B[i] ∧ ¬ (rd[i].1 ≤ p.1 ∧ p.1 ≤ rd[i].2) := by
  simp only [firstVals, mem_excludeTombs, mem_exclude, live]
  constructor
  · rintro ⟨⟨h1, h2⟩, h3⟩; exact ⟨⟨h1, h3⟩, h2⟩
  · rintro ⟨⟨h1, h3⟩, h2⟩; exact ⟨⟨h1, h2⟩, h3⟩

theorem curVals_sorted {B : Vector (Block V) n} (hwf : ∀ i : Fin n, BlockWF B[i]) (rd : Marks n) (i : Fin n) :
    SortedV (curVals B rd i) := ((hwf i).sorted.excludeTombs _).exclude _ _

theorem firstVals_sorted {B : Vector (Block V) n} (hwf : ∀ i : Fin n, BlockWF B[i]) (rd : Marks n) (i : Fin n) :
    SortedV (firstVals B rd i) := ((hwf i).sorted.exclude _ _).excludeTombs _

/-- "Remove values we already read; remove tombstones" in either order is the same list -/
theorem firstVals_eq_curVals {B : Vector (Block V) n} (hwf : ∀ i : Fin n, BlockWF B[i]) (rd : Marks n) (i : Fin n) :
    firstVals B rd i = curVals B rd i :=
  sorted_ext (firstVals_sorted hwf rd i) (curVals_sorted hwf rd i) fun _ => by
    rw [mem_firstVals, mem_curVals]

/-- a location that `read()` reports as read has nothing unread -/
theorem curVals_nil_of_isRead {B : Vector (Block V) n} (hwf : ∀ i : Fin n, BlockWF B[i]) {rd : Marks n}
    {i : Fin n} (h : isRead B rd i = true) : curVals B rd i = [] := by
  apply List.eq_nil_iff_forall_not_mem.2
  intro p hp
  obtain ⟨hl, hn⟩ := mem_curVals.1 hp
  have := (hwf i).live_inEntry hl
  have := isRead_iff.1 h
  omega

theorem markRead_fst (r : Int × Int) (lo hi : Int) : (markRead r lo hi).1 = if lo < r.1 then lo else r.1 := rfl
theorem markRead_snd (r : Int × Int) (lo hi : Int) : (markRead r lo hi).2 = if hi > r.2 then hi else r.2 := rfl

theorem markRead_idem (r : Int × Int) (lo hi : Int) : markRead (markRead r lo hi) lo hi = markRead r lo hi := by
  unfold markRead
  ext <;> simp <;> split <;> omega

theorem markAt_get (rd : Marks n) (i j : Fin n) (lo hi : Int) :
    (markAt rd i lo hi)[j] = if i = j then markRead rd[i] lo hi else rd[j] := by
  unfold markAt
  rw [Fin.getElem_fin, Vector.getElem_set]
  by_cases h : i = j
  · subst h; simp
  · have : i.val ≠ j.val := fun e => h (Fin.ext e)
    simp [h, this]

/-- marking more read leaves fewer unread values -/
theorem curVals_mono {B : Vector (Block V) n} {rd rd' : Marks n} {i : Fin n}
    (h1 : rd'[i].1 ≤ rd[i].1) (h2 : rd[i].2 ≤ rd'[i].2) {p : Int × V} (hp : p ∈ curVals B rd' i) :
    p ∈ curVals B rd i := by
  rw [mem_curVals] at hp ⊢
  exact ⟨hp.1, by omega⟩

/-! ### the window loops -/

theorem growMin_le_init (B : Vector (Block V) n) (rd : Marks n) (rest : List (Fin n)) (m : Int) :
    growMin B rd rest m ≤ m := by
  unfold growMin
  induction rest generalizing m with
  | nil => simp
  | cons i is ih =>
    simp only [List.foldl_cons]
    refine Int.le_trans (ih _) ?_
    split <;> simp_all <;> omega

theorem growMin_le_entry (B : Vector (Block V) n) (rd : Marks n) (rest : List (Fin n)) (m : Int)
    {i : Fin n} (hi : i ∈ rest) (hr : isRead B rd i = false) : growMin B rd rest m ≤ B[i].entry.MinTime := by
  unfold growMin
  induction rest generalizing m with
  | nil => cases hi
  | cons j js ih =>
    simp only [List.foldl_cons]
    rcases List.mem_cons.1 hi with rfl | hi'
    · refine Int.le_trans (growMin_le_init B rd js _) ?_
      split <;> simp_all <;> omega
    · exact ih _ hi'

theorem growMin_ge (B : Vector (Block V) n) (rd : Marks n) (rest : List (Fin n)) (m b : Int)
    (hm : b ≤ m) (hB : ∀ i : Fin n, b ≤ B[i].entry.MinTime) : b ≤ growMin B rd rest m := by
  unfold growMin
  induction rest generalizing m with
  | nil => simpa using hm
  | cons j js ih =>
    simp only [List.foldl_cons]
    refine ih _ ?_ hB
    split
    · exact hB j
    · exact hm

theorem growMax_ge_init (B : Vector (Block V) n) (rd : Marks n) (rest : List (Fin n)) (m : Int) :
    m ≤ growMax B rd rest m := by
  unfold growMax
  induction rest generalizing m with
  | nil => simp
  | cons i is ih =>
    simp only [List.foldl_cons]
    refine Int.le_trans ?_ (ih _)
    split <;> simp_all <;> omega

theorem growMax_ge_entry (B : Vector (Block V) n) (rd : Marks n) (rest : List (Fin n)) (m : Int)
    {i : Fin n} (hi : i ∈ rest) (hr : isRead B rd i = false) : B[i].entry.MaxTime ≤ growMax B rd rest m := by
  unfold growMax
  induction rest generalizing m with
  | nil => cases hi
  | cons j js ih =>
    simp only [List.foldl_cons]
    rcases List.mem_cons.1 hi with rfl | hi'
    · refine Int.le_trans ?_ (growMax_ge_init B rd js _)
      split <;> simp_all <;> omega
    · exact ih _ hi'

theorem growMax_le (B : Vector (Block V) n) (rd : Marks n) (rest : List (Fin n)) (m b : Int)
    (hm : m ≤ b) (hB : ∀ i : Fin n, B[i].entry.MaxTime ≤ b) : growMax B rd rest m ≤ b := by
  unfold growMax
  induction rest generalizing m with
  | nil => simpa using hm
  | cons j js ih =>
    simp only [List.foldl_cons]
    refine ih _ ?_ hB
    split
    · exact hB j
    · exact hm

/-! ### the merge loop as a fold -/

/-- `values.Merge(v)` ascending, `v.Merge(values)` descending -/
def mergeDir (asc : Bool) (acc v : Vals V) : Vals V := if asc then merge acc v else merge v acc

theorem mergeDir_nil (asc : Bool) (acc : Vals V) : mergeDir asc acc [] = acc := by
  unfold mergeDir; split <;> simp

/-- the part of a location's unread values inside the window -/
def windowed (B : Vector (Block V) n) (rd : Marks n) (minT maxT : Int) (i : Fin n) : Vals V :=
  include_ (curVals B rd i) minT maxT

theorem mem_windowed {B : Vector (Block V) n} {rd : Marks n} {minT maxT : Int} {i : Fin n} {p : Int × V} :
    p ∈ windowed B rd minT maxT i ↔ p ∈ curVals B rd i ∧ minT ≤ p.1 ∧ p.1 ≤ maxT := mem_include

theorem windowed_sorted {B : Vector (Block V) n} (hwf : ∀ i : Fin n, BlockWF B[i]) (rd : Marks n) (minT maxT : Int)
    (i : Fin n) : SortedV (windowed B rd minT maxT i) := (curVals_sorted hwf rd i).include _ _

theorem windowed_nil_of_skip {B : Vector (Block V) n} (hwf : ∀ i : Fin n, BlockWF B[i]) {rd : Marks n}
    {minT maxT : Int} {i : Fin n}
    (h : (!OverlapsTimeRange B[i].entry minT maxT || isRead B rd i) = true) :
    windowed B rd minT maxT i = [] := by
  apply List.eq_nil_iff_forall_not_mem.2
  intro p hp
  obtain ⟨hc, h1, h2⟩ := mem_windowed.1 hp
  rcases Bool.or_eq_true_iff.1 h with h | h
  · have := (hwf i).live_inEntry (mem_curVals.1 hc).1
    simp [OverlapsTimeRange] at h
    simp only [Fin.getElem_fin] at *
    omega
  · rw [curVals_nil_of_isRead hwf h] at hc; cases hc

/-- marks after the loop: every visited location is marked with the window; the block is the
    fold of the windowed unread values (taken with the marks at loop entry: a location's own
    marks change only when it is visited, and no location is visited twice) -/
theorem mergeLoop_spec (asc : Bool) {B : Vector (Block V) n} (hwf : ∀ i : Fin n, BlockWF B[i]) (minT maxT : Int) :
    ∀ (is : List (Fin n)) (rd rd0 : Marks n) (acc : Vals V), is.Nodup → (∀ j ∈ is, rd[j] = rd0[j]) →
      (∀ j : Fin n, (mergeLoop asc B minT maxT is rd acc).1[j] =
          if j ∈ is then markRead rd[j] minT maxT else rd[j]) ∧
      (mergeLoop asc B minT maxT is rd acc).2 =
          is.foldl (fun a i => mergeDir asc a (windowed B rd0 minT maxT i)) acc := by
  intro is
  induction is with
  | nil => intro rd rd0 acc _ _; simp [mergeLoop]
  | cons i is ih =>
    intro rd rd0 acc hnd hrd
    obtain ⟨hni, hnd'⟩ := List.nodup_cons.1 hnd
    have hi0 : rd[i] = rd0[i] := hrd i (List.mem_cons_self ..)
    have hrd' : ∀ j ∈ is, (markAt rd i minT maxT)[j] = rd0[j] := by
      intro j hj
      rw [markAt_get]
      have : i ≠ j := fun e => hni (e ▸ hj)
      simp [this, hrd j (List.mem_cons_of_mem _ hj)]
    have hw : windowed B rd minT maxT i = windowed B rd0 minT maxT i := by
      unfold windowed curVals; rw [hi0]
    have marks : ∀ (acc' : Vals V) (j : Fin n),
        (mergeLoop asc B minT maxT is (markAt rd i minT maxT) acc').1[j] =
          if j ∈ i :: is then markRead rd[j] minT maxT else rd[j] := by
      intro acc' j
      rw [(ih (markAt rd i minT maxT) rd0 acc' hnd' hrd').1 j, markAt_get]
      by_cases hj : j ∈ is
      · have : i ≠ j := fun e => hni (e ▸ hj)
        simp [hj, this]
      · by_cases e : i = j
        · subst e; simp [hj]
        · have : ¬ j = i := fun e' => e e'.symm
          simp [hj, e, this]
    simp only [mergeLoop, List.foldl_cons]
    split
    · rename_i hskip
      refine ⟨marks _, ?_⟩
      rw [(ih (markAt rd i minT maxT) rd0 acc hnd' hrd').2, ← hw, windowed_nil_of_skip hwf hskip, mergeDir_nil]
    · refine ⟨marks _, ?_⟩
      rw [(ih (markAt rd i minT maxT) rd0 _ hnd' hrd').2]
      congr 1
      rw [← hw]
      by_cases he : (curVals B rd i).isEmpty = true
      · have : curVals B rd i = [] := List.isEmpty_iff.1 he
        simp [he, windowed, this, include_, mergeDir_nil]
      · simp only [he]
        cases asc <;> simp [mergeDir, windowed]

end Influx.KC
