/-
  Lemmas.CompactValues — the values algebra used by the compaction proofs:
  ascending point lists as finite maps `Time → Option V`.
-/
import Influx.Model.CompactIter

namespace Influx.Model.Compact

variable {V : Type}

/-- strictly ascending timestamps -/
def Asc (l : Pts V) : Prop := l.Pairwise (fun p q => p.1 < q.1)

/-- the list as a map -/
def lookup (l : Pts V) (t : Int) : Option V := (l.find? (fun p => p.1 == t)).map (·.2)

@[simp] theorem lookup_nil (t : Int) : lookup ([] : Pts V) t = none := rfl

theorem lookup_cons (p : Int × V) (l : Pts V) (t : Int) :
    lookup (p :: l) t = if p.1 = t then some p.2 else lookup l t := by
  unfold lookup
  by_cases h : p.1 = t
  · simp [List.find?, h]
  · have : (p.1 == t) = false := by simp [h]
    simp [List.find?, this, h]

theorem lookup_eq_none {l : Pts V} {t : Int} : lookup l t = none ↔ ∀ p ∈ l, p.1 ≠ t := by
  induction l with
  | nil => simp
  | cons p l ih =>
    rw [lookup_cons]
    by_cases h : p.1 = t
    · simp [h]
    · simp [h, ih]

theorem lookup_some_mem {l : Pts V} {t : Int} {v : V} (h : lookup l t = some v) : (t, v) ∈ l := by
  induction l with
  | nil => simp at h
  | cons p l ih =>
    rw [lookup_cons] at h
    by_cases hp : p.1 = t
    · simp [hp] at h
      have : p = (t, v) := by cases p; simp_all
      simp [this]
    · simp [hp] at h
      exact List.mem_cons_of_mem _ (ih h)

theorem lookup_append (a b : Pts V) (t : Int) :
    lookup (a ++ b) t = (lookup a t).or (lookup b t) := by
  induction a with
  | nil => simp
  | cons p a ih =>
    simp only [List.cons_append, lookup_cons]
    by_cases h : p.1 = t <;> simp [h, ih]

theorem asc_cons {p : Int × V} {l : Pts V} : Asc (p :: l) ↔ (∀ q ∈ l, p.1 < q.1) ∧ Asc l := by
  simp [Asc, List.pairwise_cons]

theorem asc_nil : Asc ([] : Pts V) := List.Pairwise.nil

theorem asc_append {a b : Pts V} : Asc (a ++ b) ↔ Asc a ∧ Asc b ∧ ∀ p ∈ a, ∀ q ∈ b, p.1 < q.1 := by
  simp [Asc, List.pairwise_append]

theorem Asc.sublist {a b : Pts V} (h : Asc b) (hs : a.Sublist b) : Asc a := List.Pairwise.sublist hs h

theorem Asc.filter {l : Pts V} (h : Asc l) (f : Int × V → Bool) : Asc (l.filter f) :=
  h.sublist List.filter_sublist

theorem Asc.take {l : Pts V} (h : Asc l) (n : Nat) : Asc (l.take n) := h.sublist (List.take_sublist n l)
theorem Asc.drop {l : Pts V} (h : Asc l) (n : Nat) : Asc (l.drop n) := h.sublist (List.drop_sublist n l)

theorem lookup_of_mem_asc {l : Pts V} (h : Asc l) {p : Int × V} (hp : p ∈ l) : lookup l p.1 = some p.2 := by
  induction l with
  | nil => simp at hp
  | cons q l ih =>
    rw [lookup_cons]
    rw [asc_cons] at h
    rcases List.mem_cons.mp hp with rfl | hm
    · simp
    · have := h.1 p hm
      have hne : q.1 ≠ p.1 := by omega
      simp [hne, ih h.2 hm]

/-- ascending lists are determined by their map -/
theorem asc_ext {a b : Pts V} (ha : Asc a) (hb : Asc b) (h : ∀ t, lookup a t = lookup b t) : a = b := by
  induction a generalizing b with
  | nil =>
    cases b with
    | nil => rfl
    | cons y b => have := h y.1; simp [lookup_cons] at this
  | cons x a ih =>
    cases b with
    | nil => have := h x.1; simp [lookup_cons] at this
    | cons y b =>
      rw [asc_cons] at ha hb
      have hx := h x.1
      have hy := h y.1
      simp only [lookup_cons, if_true] at hx hy
      have hxy : x.1 = y.1 := by
        by_cases h1 : y.1 = x.1
        · exact h1.symm
        · simp [h1] at hx
          have hm := lookup_some_mem hx.symm
          have := hb.1 _ hm
          by_cases h2 : x.1 = y.1
          · exact h2
          · simp [h2] at hy
            have hm2 := lookup_some_mem hy
            have := ha.1 _ hm2
            simp at *
            omega
      have hv : x.2 = y.2 := by simp [hxy] at hx; exact hx
      have hxe : x = y := by cases x; cases y; simp_all
      subst hxe
      congr 1
      apply ih ha.2 hb.2
      intro t
      have ht := h t
      simp only [lookup_cons] at ht
      by_cases h3 : x.1 = t
      · subst h3
        have h1 : lookup a x.1 = none := lookup_eq_none.mpr (fun q hq => by have := ha.1 q hq; omega)
        have h2 : lookup b x.1 = none := lookup_eq_none.mpr (fun q hq => by have := hb.1 q hq; omega)
        rw [h1, h2]
      · simpa [h3] using ht

/-! ### vMerge -/

theorem vMerge_nil_left (b : Pts V) : vMerge [] b = b := by simp [vMerge]

theorem vMerge_nil_right (a : Pts V) : vMerge a [] = a := by
  cases a <;> simp [vMerge, mergeInner]

theorem vMerge_cons (x : Int × V) (a : Pts V) (y : Int × V) (b : Pts V) :
    vMerge (x :: a) (y :: b) =
      if x.1 < y.1 then x :: vMerge a (y :: b)
      else if x.1 = y.1 then y :: vMerge a b
      else y :: vMerge (x :: a) b := by
  simp [vMerge, mergeInner]

theorem mem_vMerge {a b : Pts V} {p : Int × V} (h : p ∈ vMerge a b) : p ∈ a ∨ p ∈ b := by
  induction a generalizing b with
  | nil => simp [vMerge_nil_left] at h; exact Or.inr h
  | cons x a iha =>
    induction b with
    | nil => simp [vMerge_nil_right] at h; exact Or.inl (by simpa using h)
    | cons y b ihb =>
      rw [vMerge_cons] at h
      split at h
      · rcases List.mem_cons.mp h with rfl | h'
        · simp
        · rcases iha h' with h1 | h1
          · exact Or.inl (List.mem_cons_of_mem _ h1)
          · exact Or.inr h1
      · split at h
        · rcases List.mem_cons.mp h with rfl | h'
          · simp
          · rcases iha h' with h1 | h1
            · exact Or.inl (List.mem_cons_of_mem _ h1)
            · exact Or.inr (List.mem_cons_of_mem _ h1)
        · rcases List.mem_cons.mp h with rfl | h'
          · simp
          · rcases ihb h' with h1 | h1
            · exact Or.inl h1
            · exact Or.inr (List.mem_cons_of_mem _ h1)

theorem asc_vMerge {a b : Pts V} (ha : Asc a) (hb : Asc b) : Asc (vMerge a b) := by
  induction a generalizing b with
  | nil => simpa [vMerge_nil_left] using hb
  | cons x a iha =>
    induction b with
    | nil => simpa [vMerge_nil_right] using ha
    | cons y b ihb =>
      rw [vMerge_cons]
      have ha' := asc_cons.mp ha
      have hb' := asc_cons.mp hb
      split
      · next hlt =>
        rw [asc_cons]
        refine ⟨?_, iha ha'.2 hb⟩
        intro q hq
        rcases mem_vMerge hq with h1 | h1
        · exact ha'.1 q h1
        · rcases List.mem_cons.mp h1 with rfl | h2
          · exact hlt
          · have := hb'.1 q h2; omega
      · split
        · next hnlt heq =>
          rw [asc_cons]
          refine ⟨?_, iha ha'.2 hb'.2⟩
          intro q hq
          rcases mem_vMerge hq with h1 | h1
          · have := ha'.1 q h1; omega
          · exact hb'.1 q h1
        · next hnlt hne =>
          rw [asc_cons]
          refine ⟨?_, ihb hb'.2⟩
          intro q hq
          rcases mem_vMerge hq with h1 | h1
          · rcases List.mem_cons.mp h1 with rfl | h2
            · omega
            · have := ha'.1 q h2; omega
          · exact hb'.1 q h1

/-- `b` wins -/
theorem lookup_vMerge {a b : Pts V} (ha : Asc a) (hb : Asc b) (t : Int) :
    lookup (vMerge a b) t = (lookup b t).or (lookup a t) := by
  induction a generalizing b with
  | nil => simp [vMerge_nil_left]
  | cons x a iha =>
    induction b with
    | nil => simp [vMerge_nil_right]
    | cons y b ihb =>
      rw [vMerge_cons]
      have ha' := asc_cons.mp ha
      have hb' := asc_cons.mp hb
      split
      · next hlt =>
        rw [lookup_cons, iha ha'.2 hb]
        by_cases h1 : x.1 = t
        · subst h1
          have : lookup (y :: b) x.1 = none := lookup_eq_none.mpr (fun q hq => by
            rcases List.mem_cons.mp hq with rfl | h2
            · omega
            · have := hb'.1 q h2; omega)
          simp [this, lookup_cons]
        · simp [h1, lookup_cons (p := x)]
      · split
        · next hnlt heq =>
          rw [lookup_cons, iha ha'.2 hb'.2]
          by_cases h1 : y.1 = t
          · simp [h1, lookup_cons]
          · have h2 : x.1 ≠ t := by omega
            simp [h1, h2, lookup_cons]
        · next hnlt hne =>
          rw [lookup_cons, ihb hb'.2]
          by_cases h1 : y.1 = t
          · simp [h1, lookup_cons]
          · simp [h1, lookup_cons (p := y)]

/-! ### filters by time -/

theorem lookup_filter_time (f : Int → Bool) (l : Pts V) (t : Int) :
    lookup (l.filter (fun p => f p.1)) t = if f t then lookup l t else none := by
  induction l with
  | nil => simp
  | cons p l ih =>
    by_cases hp : f p.1
    · simp only [List.filter_cons, hp, if_true, lookup_cons, ih]
      by_cases h1 : p.1 = t
      · subst h1; simp [hp]
      · simp [h1]
    · have hp' : f p.1 = false := by simpa using hp
      simp only [List.filter_cons, hp', lookup_cons]
      by_cases h1 : p.1 = t
      · subst h1; simp [hp', ih]
      · simp [h1, ih]

theorem lookup_vExclude (lo hi : Int) (l : Pts V) (t : Int) :
    lookup (vExclude lo hi l) t = if lo ≤ t ∧ t ≤ hi then none else lookup l t := by
  unfold vExclude
  rw [lookup_filter_time (fun t => !(decide (lo ≤ t) && decide (t ≤ hi)))]
  by_cases h : lo ≤ t ∧ t ≤ hi
  · simp [h]
  · simp only [h, if_false]
    have : (!(decide (lo ≤ t) && decide (t ≤ hi))) = true := by
      simp only [Bool.not_eq_true', Bool.and_eq_false_iff, decide_eq_false_iff_not]
      by_cases h1 : lo ≤ t
      · right; intro h2; exact h ⟨h1, h2⟩
      · left; exact h1
    simp [this]

theorem lookup_vInclude (lo hi : Int) (l : Pts V) (t : Int) :
    lookup (vInclude lo hi l) t = if lo ≤ t ∧ t ≤ hi then lookup l t else none := by
  unfold vInclude
  rw [lookup_filter_time (fun t => (decide (lo ≤ t) && decide (t ≤ hi)))]
  by_cases h : lo ≤ t ∧ t ≤ hi
  · simp [h]
  · simp only [h, if_false]
    have : (decide (lo ≤ t) && decide (t ≤ hi)) = false := by
      simp only [Bool.and_eq_false_iff, decide_eq_false_iff_not]
      by_cases h1 : lo ≤ t
      · right; intro h2; exact h ⟨h1, h2⟩
      · left; exact h1
    simp [this]

theorem asc_vExclude {l : Pts V} (h : Asc l) (lo hi : Int) : Asc (vExclude lo hi l) := h.filter _
theorem asc_vInclude {l : Pts V} (h : Asc l) (lo hi : Int) : Asc (vInclude lo hi l) := h.filter _

theorem mem_vExclude {l : Pts V} {lo hi : Int} {p : Int × V} :
    p ∈ vExclude lo hi l ↔ p ∈ l ∧ ¬ (lo ≤ p.1 ∧ p.1 ≤ hi) := by
  simp only [vExclude, List.mem_filter, Bool.not_eq_true', Bool.and_eq_false_iff, decide_eq_false_iff_not]
  constructor
  · rintro ⟨h1, h2⟩; exact ⟨h1, by omega⟩
  · rintro ⟨h1, h2⟩; exact ⟨h1, by omega⟩

theorem mem_vInclude {l : Pts V} {lo hi : Int} {p : Int × V} :
    p ∈ vInclude lo hi l ↔ p ∈ l ∧ (lo ≤ p.1 ∧ p.1 ≤ hi) := by
  simp [vInclude, List.mem_filter]

/-- is `t` inside one of the ranges? -/
def inTombs (ts : List (Int × Int)) (t : Int) : Bool := ts.any fun r => decide (r.1 ≤ t) && decide (t ≤ r.2)

theorem applyTombs_eq_filter (ts : List (Int × Int)) (l : Pts V) :
    applyTombs ts l = l.filter (fun p => !inTombs ts p.1) := by
  unfold applyTombs
  induction ts generalizing l with
  | nil =>
    simp only [List.foldl_nil, inTombs, List.any_nil, Bool.not_false]
    exact (List.filter_eq_self.mpr (fun _ _ => rfl)).symm
  | cons r ts ih =>
    simp only [List.foldl_cons]
    rw [ih]
    simp only [vExclude, List.filter_filter, inTombs, List.any_cons]
    congr 1
    funext p
    simp [Bool.and_comm]

theorem asc_applyTombs {l : Pts V} (h : Asc l) (ts : List (Int × Int)) : Asc (applyTombs ts l) := by
  rw [applyTombs_eq_filter]; exact h.filter _

theorem lookup_applyTombs (ts : List (Int × Int)) (l : Pts V) (t : Int) :
    lookup (applyTombs ts l) t = if inTombs ts t then none else lookup l t := by
  rw [applyTombs_eq_filter, lookup_filter_time (fun t => !inTombs ts t)]
  cases inTombs ts t <;> simp

theorem mem_applyTombs {ts : List (Int × Int)} {l : Pts V} {p : Int × V} :
    p ∈ applyTombs ts l ↔ p ∈ l ∧ inTombs ts p.1 = false := by
  rw [applyTombs_eq_filter]; simp [List.mem_filter]

/-- merging something entirely later is appending -/
theorem vMerge_eq_append {a b : Pts V} (ha : Asc a) (hb : Asc b) (h : ∀ p ∈ a, ∀ q ∈ b, p.1 < q.1) :
    vMerge a b = a ++ b := by
  apply asc_ext (asc_vMerge ha hb) (asc_append.mpr ⟨ha, hb, h⟩)
  intro t
  rw [lookup_vMerge ha hb, lookup_append]
  cases hb' : lookup b t with
  | none => simp
  | some v =>
    have hm := lookup_some_mem hb'
    have : lookup a t = none := lookup_eq_none.mpr (fun p hp => by have := h p hp _ hm; simp at this; omega)
    simp [this]

end Influx.Model.Compact
