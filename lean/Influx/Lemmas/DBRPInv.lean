/-
  Lemmas.DBRPInv — the consistency invariant of the four kv buckets of `dbrp.Service`,
  preserved by create / update / delete of stored mappings and by bucket changes.
-/
import Influx.Lemmas.DBRP

namespace Influx.DBRP

/-! ### records in key order -/

def Sorted (l : List Mapping) : Prop := l.Pairwise (fun a b => a.ID < b.ID)

theorem mem_insertRec {m x : Mapping} {l : List Mapping} (hs : Sorted l) :
    x ∈ insertRec m l ↔ x = m ∨ (x ∈ l ∧ x.ID ≠ m.ID) := by
  induction l with
  | nil => simp [insertRec]
  | cons y ys ih =>
    have hs' := List.pairwise_cons.mp hs
    simp only [insertRec]
    split
    · next hlt =>
      simp only [List.mem_cons]
      constructor
      · rintro (h | h | h)
        · exact Or.inl h
        · subst h; exact Or.inr ⟨Or.inl rfl, by omega⟩
        · have := hs'.1 x h; exact Or.inr ⟨Or.inr h, by omega⟩
      · rintro (h | ⟨h | h, _⟩)
        · exact Or.inl h
        · exact Or.inr (Or.inl h)
        · exact Or.inr (Or.inr h)
    · next hnlt =>
      split
      · next heq =>
        simp only [beq_iff_eq] at heq
        simp only [List.mem_cons]
        constructor
        · rintro (h | h)
          · exact Or.inl h
          · have := hs'.1 x h; exact Or.inr ⟨Or.inr h, by omega⟩
        · rintro (h | ⟨h | h, hne⟩)
          · exact Or.inl h
          · subst h; exact absurd heq.symm hne
          · exact Or.inr h
      · next hne =>
        simp only [beq_iff_eq] at hne
        simp only [List.mem_cons, ih hs'.2]
        constructor
        · rintro (h | h | ⟨h, hn⟩)
          · subst h; exact Or.inr ⟨Or.inl rfl, fun h => hne h.symm⟩
          · exact Or.inl h
          · exact Or.inr ⟨Or.inr h, hn⟩
        · rintro (h | ⟨h | h, hn⟩)
          · exact Or.inr (Or.inl h)
          · exact Or.inl h
          · exact Or.inr (Or.inr ⟨h, hn⟩)

theorem sorted_insertRec {m : Mapping} {l : List Mapping} (hs : Sorted l) : Sorted (insertRec m l) := by
  induction l with
  | nil => simp [insertRec, Sorted]
  | cons y ys ih =>
    have hs' := List.pairwise_cons.mp hs
    simp only [insertRec]
    split
    · next hlt =>
      refine List.pairwise_cons.mpr ⟨?_, hs⟩
      intro x hx
      rcases List.mem_cons.mp hx with rfl | hx
      · exact hlt
      · have := hs'.1 x hx; omega
    · split
      · next hnlt heq =>
        simp only [beq_iff_eq] at heq
        refine List.pairwise_cons.mpr ⟨?_, hs'.2⟩
        intro x hx; have := hs'.1 x hx; omega
      · next hnlt hne =>
        simp only [beq_iff_eq] at hne
        refine List.pairwise_cons.mpr ⟨?_, ih hs'.2⟩
        intro x hx
        rcases (mem_insertRec hs'.2).mp hx with rfl | ⟨hx, _⟩
        · omega
        · exact hs'.1 x hx

theorem sorted_filter {l : List Mapping} (hs : Sorted l) (p : Mapping → Bool) : Sorted (l.filter p) :=
  List.Pairwise.filter p hs

/-- in a sorted list ids are unique -/
theorem sorted_id_inj {l : List Mapping} (hs : Sorted l) {a b : Mapping} (ha : a ∈ l) (hb : b ∈ l)
    (h : a.ID = b.ID) : a = b := by
  induction l with
  | nil => simp at ha
  | cons y ys ih =>
    have hs' := List.pairwise_cons.mp hs
    rcases List.mem_cons.mp ha with h1 | h1
    · rcases List.mem_cons.mp hb with h2 | h2
      · rw [h1, h2]
      · subst h1; have := hs'.1 b h2; omega
    · rcases List.mem_cons.mp hb with h2 | h2
      · subst h2; have := hs'.1 a h1; omega
      · exact ih hs'.2 h1 h2

theorem find_id_iff {l : List Mapping} (hs : Sorted l) {id : Nat} {m : Mapping} :
    l.find? (·.ID == id) = some m ↔ m ∈ l ∧ m.ID = id := by
  constructor
  · intro h
    exact ⟨List.mem_of_find?_eq_some h, by simpa using List.find?_some h⟩
  · rintro ⟨hm, hid⟩
    cases hf : l.find? (·.ID == id) with
    | none => have := List.find?_eq_none.mp hf m hm; simp [hid] at this
    | some m' =>
      have h1 := List.mem_of_find?_eq_some hf
      have h2 : m'.ID = id := by simpa using List.find?_some hf
      rw [sorted_id_inj hs h1 hm (by rw [h2, hid])]

/-! ### `sortIds` is a permutation -/

theorem perm_sortIds_ins (x : Nat) (l : List Nat) : (sortIds.ins x l).Perm (x :: l) := by
  induction l with
  | nil => simp [sortIds.ins]
  | cons y ys ih =>
    simp only [sortIds.ins]
    split
    · exact List.Perm.refl _
    · exact (List.Perm.cons y ih).trans (List.Perm.swap x y ys)

theorem perm_sortIds_aux (l acc : List Nat) :
    (l.foldl (fun acc x => sortIds.ins x acc) acc).Perm (l ++ acc) := by
  induction l generalizing acc with
  | nil => simp
  | cons y ys ih =>
    simp only [List.foldl_cons]
    refine (ih (sortIds.ins y acc)).trans ?_
    refine (List.Perm.append_left ys (perm_sortIds_ins y acc)).trans ?_
    simp

theorem perm_sortIds (l : List Nat) : (sortIds l).Perm l := by
  unfold sortIds
  simpa using perm_sortIds_aux l []

theorem mem_sortIds {l : List Nat} {x : Nat} : x ∈ sortIds l ↔ x ∈ l := (perm_sortIds l).mem_iff

theorem nodup_sortIds {l : List Nat} (h : l.Nodup) : (sortIds l).Nodup := (perm_sortIds l).nodup_iff.mpr h

end Influx.DBRP

namespace Influx.DBRP

/-! ### the invariant -/

structure Inv (s : St) : Prop where
  sorted : Sorted s.recs
  recOK : ∀ m ∈ s.recs, m.ID % 2 = 1 ∧ m.ID < s.nextID ∧ m.Virtual = false
  idx : ∀ o db id, (o, db, id) ∈ s.idx ↔ ∃ m ∈ s.recs, m.ID = id ∧ m.OrganizationID = o ∧ m.Database = db
  idxND : s.idx.Pairwise (· ≠ ·)
  byOrg : ∀ o id, (o, id) ∈ s.byOrg ↔ ∃ m ∈ s.recs, m.ID = id ∧ m.OrganizationID = o
  byOrgND : s.byOrg.Pairwise (· ≠ ·)
  defSome : ∀ o db id, getDefault s o db = some id →
    ∃ m ∈ s.recs, m.ID = id ∧ m.OrganizationID = o ∧ m.Database = db
  defEx : ∀ m ∈ s.recs, (getDefault s m.OrganizationID m.Database).isSome = true
  uniq : ∀ m ∈ s.recs, ∀ m' ∈ s.recs, m.OrganizationID = m'.OrganizationID → m.Database = m'.Database →
    m.RetentionPolicy = m'.RetentionPolicy → m = m'
  nextOdd : s.nextID % 2 = 1
  bucketsEven : ∀ b ∈ s.buckets, b.ID % 2 = 0

theorem Inv.init : Inv St.init :=
  ⟨by simp [St.init, Sorted], by simp [St.init], by simp [St.init], by simp [St.init], by simp [St.init],
   by simp [St.init], by simp [St.init, getDefault], by simp [St.init], by simp [St.init], by simp [St.init],
   by simp [St.init]⟩

theorem getRec_iff {s : St} (h : Inv s) {id : Nat} {m : Mapping} : getRec s id = some m ↔ m ∈ s.recs ∧ m.ID = id :=
  find_id_iff h.sorted

theorem getRec_none_iff {s : St} {id : Nat} : getRec s id = none ↔ ∀ m ∈ s.recs, m.ID ≠ id := by
  unfold getRec
  rw [List.find?_eq_none]
  simp

/-- the records reached through a list of distinct ids -/
theorem mem_filterMap_getRec {s : St} (h : Inv s) {ids : List Nat} {x : Mapping} :
    x ∈ ids.filterMap (getRec s) ↔ x ∈ s.recs ∧ x.ID ∈ ids := by
  simp only [List.mem_filterMap]
  constructor
  · rintro ⟨id, hid, hx⟩
    have := (getRec_iff h).mp hx
    exact ⟨this.1, by rw [this.2]; exact hid⟩
  · rintro ⟨hx, hid⟩
    exact ⟨x.ID, hid, (getRec_iff h).mpr ⟨hx, rfl⟩⟩

theorem pairwise_filterMap_getRec {s : St} (h : Inv s) {ids : List Nat} (hnd : ids.Pairwise (· ≠ ·)) :
    (ids.filterMap (getRec s)).Pairwise (fun a b => a.ID ≠ b.ID) := by
  refine List.Pairwise.filterMap _ ?_ hnd
  intro a a' hne b hb b' hb'
  rw [((getRec_iff h).mp hb).2, ((getRec_iff h).mp hb').2]
  exact hne

theorem pairwise_ne_perm {l l' : List Nat} (h : l.Pairwise (· ≠ ·)) (hp : l.Perm l') : l'.Pairwise (· ≠ ·) :=
  h.perm hp (fun h => h.symm)

theorem walk_mem {s : St} (h : Inv s) {o : Nat} {db : String} {x : Mapping} :
    x ∈ walk s o db ↔ x ∈ s.recs ∧ x.OrganizationID = o ∧ x.Database = db := by
  unfold walk
  rw [mem_filterMap_getRec h, mem_sortIds]
  simp only [List.mem_map, List.mem_filter, Bool.and_eq_true, beq_iff_eq]
  constructor
  · rintro ⟨hx, ⟨o', db', id⟩, ⟨hmem, ho, hdb⟩, hid⟩
    simp only at ho hdb hid
    subst ho hdb hid
    obtain ⟨m, hm, hmid, hmo, hmdb⟩ := (h.idx _ _ _).mp hmem
    have := sorted_id_inj h.sorted hm hx hmid
    subst this
    exact ⟨hx, hmo, hmdb⟩
  · rintro ⟨hx, ho, hdb⟩
    exact ⟨hx, (o, db, x.ID), ⟨(h.idx o db x.ID).mpr ⟨x, hx, rfl, ho, hdb⟩, rfl, rfl⟩, rfl⟩

theorem walk_nodup {s : St} (h : Inv s) (o : Nat) (db : String) :
    (walk s o db).Pairwise (fun a b => a.ID ≠ b.ID) := by
  unfold walk
  apply pairwise_filterMap_getRec h
  apply pairwise_ne_perm _ (perm_sortIds _).symm
  rw [List.pairwise_map]
  refine List.Pairwise.imp_of_mem ?_ (h.idxND.filter _)
  intro a b ha hb hne
  simp only [List.mem_filter, Bool.and_eq_true, beq_iff_eq] at ha hb
  intro hid
  apply hne
  obtain ⟨a1, a2, a3⟩ := a
  obtain ⟨b1, b2, b3⟩ := b
  simp only at ha hb hid
  rw [ha.2.1, ha.2.2, hb.2.1, hb.2.2, hid]

theorem walkOrg_mem {s : St} (h : Inv s) {o : Nat} {x : Mapping} :
    x ∈ walkOrg s o ↔ x ∈ s.recs ∧ x.OrganizationID = o := by
  unfold walkOrg
  rw [mem_filterMap_getRec h, mem_sortIds]
  simp only [List.mem_map, List.mem_filter, beq_iff_eq]
  constructor
  · rintro ⟨hx, ⟨o', id⟩, ⟨hmem, ho⟩, hid⟩
    simp only at ho hid
    subst ho hid
    obtain ⟨m, hm, hmid, hmo⟩ := (h.byOrg _ _).mp hmem
    have := sorted_id_inj h.sorted hm hx hmid
    subst this
    exact ⟨hx, hmo⟩
  · rintro ⟨hx, ho⟩
    exact ⟨hx, (o, x.ID), ⟨(h.byOrg o x.ID).mpr ⟨x, hx, rfl, ho⟩, rfl⟩, rfl⟩

theorem walkOrg_nodup {s : St} (h : Inv s) (o : Nat) : (walkOrg s o).Pairwise (fun a b => a.ID ≠ b.ID) := by
  unfold walkOrg
  apply pairwise_filterMap_getRec h
  apply pairwise_ne_perm _ (perm_sortIds _).symm
  rw [List.pairwise_map]
  refine List.Pairwise.imp_of_mem ?_ (h.byOrgND.filter _)
  intro a b ha hb hne
  simp only [List.mem_filter, beq_iff_eq] at ha hb
  intro hid
  apply hne
  obtain ⟨a1, a2⟩ := a
  obtain ⟨b1, b2⟩ := b
  simp only at ha hb hid
  rw [ha.2, hb.2, hid]

theorem findBucket_odd {s : St} (h : Inv s) {id : Nat} (hodd : id % 2 = 1) : findBucketByID s id = none := by
  unfold findBucketByID
  rw [List.find?_eq_none]
  intro b hb
  have := h.bucketsEven b hb
  simp only [beq_iff_eq]
  omega

/-- `FindByID` of an odd id: the stored mapping of that organization with its default flag, or not found -/
theorem findByID_odd {s : St} (h : Inv s) {org id : Nat} (hodd : id % 2 = 1) :
    (∃ m ∈ s.recs, m.ID = id ∧ m.OrganizationID = org ∧
      findByID s org id = .ok { m with Default := getDefault s m.OrganizationID m.Database == some id }) ∨
    ((∀ m ∈ s.recs, m.ID = id → m.OrganizationID ≠ org) ∧ findByID s org id = .error .notFound) := by
  have hne : (id == 0) = false := by simp; omega
  unfold findByID
  simp only [hne, Bool.false_eq_true, ↓reduceIte, findBucket_odd h hodd]
  cases hr : getRec s id with
  | none =>
    right
    exact ⟨fun m hm hid => absurd hid (getRec_none_iff.mp hr m hm), rfl⟩
  | some m =>
    have hm := (getRec_iff h).mp hr
    by_cases ho : m.OrganizationID = org
    · left
      refine ⟨m, hm.1, hm.2, ho, ?_⟩
      simp [ho]
    · right
      refine ⟨?_, by simp [ho]⟩
      intro m' hm' hid'
      have := sorted_id_inj h.sorted hm' hm.1 (by rw [hid', hm.2])
      rw [this]; exact ho

end Influx.DBRP

namespace Influx.DBRP

/-! ### the defaults bucket -/

theorem find_filter_keep {α : Type} (p q : α → Bool) (l : List α) (h : ∀ x, p x = true → q x = true) :
    (l.filter q).find? p = l.find? p := by
  induction l with
  | nil => rfl
  | cons e es ih =>
    by_cases hq : q e = true
    · simp only [List.filter_cons, hq, ↓reduceIte, List.find?_cons, ih]
    · have hp : p e = false := by
        cases hpe : p e with
        | false => rfl
        | true => exact absurd (h e hpe) hq
      simp only [List.filter_cons, hq, Bool.false_eq_true, ↓reduceIte, List.find?_cons, hp, ih]

theorem getDefault_setDefault (s : St) (o : Nat) (db : String) (id : Nat) (o' : Nat) (db' : String) :
    getDefault (setDefault s o db id) o' db' = if o' = o ∧ db' = db then some id else getDefault s o' db' := by
  unfold getDefault setDefault
  simp only
  by_cases h : o' = o ∧ db' = db
  · obtain ⟨rfl, rfl⟩ := h
    simp
  · simp only [h, ↓reduceIte]
    have h1 : ((o == o') && (db == db')) = false := by
      simp only [Bool.and_eq_false_iff, beq_eq_false_iff_ne, ne_eq]
      by_cases ho : o = o'
      · right; intro hd; exact h ⟨ho.symm, hd.symm⟩
      · left; exact ho
    simp only [List.find?_cons, h1]
    congr 1
    apply find_filter_keep
    intro e he
    simp only [Bool.and_eq_true, beq_iff_eq, Bool.not_eq_true', Bool.and_eq_false_iff, beq_eq_false_iff_ne] at he ⊢
    by_cases ho : e.1 = o
    · right; intro hd; exact h ⟨by rw [← he.1, ho], by rw [← he.2, hd]⟩
    · left; exact ho

theorem getDefault_unsetDefault (s : St) (o : Nat) (db : String) (o' : Nat) (db' : String) :
    getDefault (unsetDefault s o db) o' db' = if o' = o ∧ db' = db then none else getDefault s o' db' := by
  unfold getDefault unsetDefault
  simp only
  by_cases h : o' = o ∧ db' = db
  · obtain ⟨rfl, rfl⟩ := h
    simp only [and_self, ↓reduceIte, Option.map_eq_none_iff]
    rw [List.find?_eq_none]
    intro e he
    have := (List.mem_filter.mp he).2
    simp only [Bool.not_eq_true', Bool.and_eq_false_iff, beq_eq_false_iff_ne] at this
    simp only [Bool.and_eq_true, beq_iff_eq]
    rintro ⟨h1, h2⟩
    rcases this with h | h
    · exact h h1
    · exact h h2
  · simp only [h, ↓reduceIte]
    congr 1
    apply find_filter_keep
    intro e he
    simp only [Bool.and_eq_true, beq_iff_eq, Bool.not_eq_true', Bool.and_eq_false_iff, beq_eq_false_iff_ne] at he ⊢
    by_cases ho : e.1 = o
    · right; intro hd; exact h ⟨by rw [← he.1, ho], by rw [← he.2, hd]⟩
    · left; exact ho

/-- `getFirstBut`: the id of another stored mapping of the database, if there is one
    (needs only the key order of the records and the index correspondence) -/
theorem getFirstBut_some {s : St} (hs : Sorted s.recs)
    (hidx : ∀ o db id, (o, db, id) ∈ s.idx ↔ ∃ m ∈ s.recs, m.ID = id ∧ m.OrganizationID = o ∧ m.Database = db)
    {o : Nat} {db : String} {skip f : Nat} (hf : getFirstBut s o db skip = some f) :
    f ≠ skip ∧ ∃ x ∈ s.recs, x.ID = f ∧ x.OrganizationID = o ∧ x.Database = db := by
  unfold getFirstBut at hf
  have hmem := List.mem_of_head? hf
  simp only [List.mem_filter, mem_sortIds, List.mem_map, Bool.and_eq_true, bne_iff_ne, ne_eq, beq_iff_eq] at hmem
  obtain ⟨⟨⟨o', db', id⟩, ⟨hm, ho, hdb⟩, hid⟩, _, hne⟩ := hmem
  simp only at ho hdb hid
  subst ho hdb hid
  obtain ⟨x, hx, h1, h2, h3⟩ := (hidx _ _ _).mp hm
  exact ⟨hne, x, hx, h1, h2, h3⟩

theorem getFirstBut_none {s : St} (hs : Sorted s.recs)
    (hidx : ∀ o db id, (o, db, id) ∈ s.idx ↔ ∃ m ∈ s.recs, m.ID = id ∧ m.OrganizationID = o ∧ m.Database = db)
    {o : Nat} {db : String} {skip : Nat} (hf : getFirstBut s o db skip = none) :
    ∀ x ∈ s.recs, x.OrganizationID = o → x.Database = db → x.ID = skip := by
  unfold getFirstBut at hf
  rw [List.head?_eq_none_iff] at hf
  intro x hx ho hdb
  have hidx' := (hidx o db x.ID).mpr ⟨x, hx, rfl, ho, hdb⟩
  have hin : x.ID ∈ sortIds ((s.idx.filter fun e => e.1 == o && e.2.1 == db).map (·.2.2)) := by
    rw [mem_sortIds]
    simp only [List.mem_map, List.mem_filter, Bool.and_eq_true, beq_iff_eq]
    exact ⟨(o, db, x.ID), ⟨hidx', rfl, rfl⟩, rfl⟩
  have := List.filter_eq_nil_iff.mp hf x.ID hin
  simp only [Bool.and_eq_true, bne_iff_ne, ne_eq, not_and, Decidable.not_not] at this
  exact this (by unfold getRec; rw [(find_id_iff hs).mpr ⟨hx, rfl⟩]; rfl)

end Influx.DBRP

namespace Influx.DBRP

/-! ### `Create` keeps the invariant -/

theorem inv_bump {s : St} (h : Inv s) : Inv { s with nextID := s.nextID + 2 } :=
  ⟨h.sorted, fun m hm => ⟨(h.recOK m hm).1, by have := (h.recOK m hm).2.1; simp only; omega, (h.recOK m hm).2.2⟩,
   h.idx, h.idxND, h.byOrg, h.byOrgND, h.defSome, h.defEx, h.uniq, by have := h.nextOdd; simp only; omega, h.bucketsEven⟩

theorem getDefault_congr {s s' : St} (h : s'.defs = s.defs) (o : Nat) (db : String) :
    getDefault s' o db = getDefault s o db := by
  unfold getDefault; rw [h]

/-- the state after a successful `Create` of a mapping with the fresh id `n` -/
theorem inv_add {s : St} (h : Inv s) (m : Mapping) (hn : m.ID = s.nextID) (hv : m.Virtual = false)
    (huniq : ∀ v ∈ s.recs, v.OrganizationID = m.OrganizationID → v.Database = m.Database →
      v.RetentionPolicy ≠ m.RetentionPolicy)
    (s' : St) (hrecs : s'.recs = insertRec m s.recs)
    (hidx : s'.idx = s.idx ++ [(m.OrganizationID, m.Database, m.ID)])
    (hby : s'.byOrg = s.byOrg ++ [(m.OrganizationID, m.ID)])
    (hbk : s'.buckets = s.buckets) (hnx : s'.nextID = s.nextID + 2)
    (hdefs : (s'.defs = s.defs ∧ (getDefault s m.OrganizationID m.Database).isSome = true) ∨
      s'.defs = (setDefault s m.OrganizationID m.Database m.ID).defs) :
    Inv s' := by
  have hfresh : ∀ x ∈ s.recs, x.ID ≠ m.ID := by
    intro x hx; have := (h.recOK x hx).2.1; omega
  have hmem : ∀ x, x ∈ s'.recs ↔ x = m ∨ x ∈ s.recs := by
    intro x
    rw [hrecs, mem_insertRec h.sorted]
    constructor
    · rintro (h1 | ⟨h1, _⟩); exact Or.inl h1; exact Or.inr h1
    · rintro (h1 | h1); exact Or.inl h1; exact Or.inr ⟨h1, hfresh x h1⟩
  -- the default lookups of the new state
  have hgd : ∀ o db, getDefault s' o db =
      (if s'.defs = s.defs then getDefault s o db else getDefault (setDefault s m.OrganizationID m.Database m.ID) o db) := by
    intro o db
    by_cases hc : s'.defs = s.defs
    · simp only [hc, ↓reduceIte]; exact getDefault_congr hc o db
    · simp only [hc, ↓reduceIte]
      rcases hdefs with ⟨hd, _⟩ | hd
      · exact absurd hd hc
      · exact getDefault_congr hd o db
  refine ⟨by rw [hrecs]; exact sorted_insertRec h.sorted, ?_, ?_, ?_, ?_, ?_, ?_, ?_, ?_, ?_, by rw [hbk]; exact h.bucketsEven⟩
  · intro x hx
    rcases (hmem x).mp hx with rfl | hx
    · exact ⟨by rw [hn]; exact h.nextOdd, by rw [hnx]; omega, hv⟩
    · have := h.recOK x hx; exact ⟨this.1, by rw [hnx]; omega, this.2.2⟩
  · intro o db id
    rw [hidx]
    simp only [List.mem_append, List.mem_singleton, Prod.mk.injEq]
    constructor
    · rintro (h1 | ⟨rfl, rfl, rfl⟩)
      · obtain ⟨x, hx, hh⟩ := (h.idx o db id).mp h1
        exact ⟨x, (hmem x).mpr (Or.inr hx), hh⟩
      · exact ⟨m, (hmem m).mpr (Or.inl rfl), rfl, rfl, rfl⟩
    · rintro ⟨x, hx, h1, h2, h3⟩
      rcases (hmem x).mp hx with rfl | hx
      · exact Or.inr ⟨h2.symm, h3.symm, h1.symm⟩
      · exact Or.inl ((h.idx o db id).mpr ⟨x, hx, h1, h2, h3⟩)
  · rw [hidx, List.pairwise_append]
    refine ⟨h.idxND, by simp, ?_⟩
    intro a ha b hb
    simp only [List.mem_singleton] at hb
    subst hb
    intro hab; subst hab
    obtain ⟨x, hx, h1, _⟩ := (h.idx _ _ _).mp ha
    exact hfresh x hx h1
  · intro o id
    rw [hby]
    simp only [List.mem_append, List.mem_singleton, Prod.mk.injEq]
    constructor
    · rintro (h1 | ⟨rfl, rfl⟩)
      · obtain ⟨x, hx, hh⟩ := (h.byOrg o id).mp h1
        exact ⟨x, (hmem x).mpr (Or.inr hx), hh⟩
      · exact ⟨m, (hmem m).mpr (Or.inl rfl), rfl, rfl⟩
    · rintro ⟨x, hx, h1, h2⟩
      rcases (hmem x).mp hx with rfl | hx
      · exact Or.inr ⟨h2.symm, h1.symm⟩
      · exact Or.inl ((h.byOrg o id).mpr ⟨x, hx, h1, h2⟩)
  · rw [hby, List.pairwise_append]
    refine ⟨h.byOrgND, by simp, ?_⟩
    intro a ha b hb
    simp only [List.mem_singleton] at hb
    subst hb
    intro hab; subst hab
    obtain ⟨x, hx, h1, _⟩ := (h.byOrg _ _).mp ha
    exact hfresh x hx h1
  · intro o db id hg
    rw [hgd] at hg
    split at hg
    · obtain ⟨x, hx, hh⟩ := h.defSome o db id hg
      exact ⟨x, (hmem x).mpr (Or.inr hx), hh⟩
    · rw [getDefault_setDefault] at hg
      split at hg
      · next hc =>
        simp only [Option.some.injEq] at hg
        exact ⟨m, (hmem m).mpr (Or.inl rfl), hg, hc.1.symm, hc.2.symm⟩
      · obtain ⟨x, hx, hh⟩ := h.defSome o db id hg
        exact ⟨x, (hmem x).mpr (Or.inr hx), hh⟩
  · intro x hx
    rw [hgd]
    split
    · next hc =>
      rcases (hmem x).mp hx with rfl | hx
      · rcases hdefs with ⟨_, hd⟩ | hd
        · exact hd
        · -- `defs' = s.defs` and `defs'` is the result of `setDefault`: the entry is there
          have := getDefault_setDefault s x.OrganizationID x.Database x.ID x.OrganizationID x.Database
          simp only [and_self, ↓reduceIte] at this
          have h2 : getDefault s x.OrganizationID x.Database =
              getDefault (setDefault s x.OrganizationID x.Database x.ID) x.OrganizationID x.Database := by
            unfold getDefault; rw [← hd, hc]
          rw [h2, this]; rfl
      · exact h.defEx x hx
    · rw [getDefault_setDefault]
      split
      · rfl
      · rcases (hmem x).mp hx with rfl | hx
        · next hc => exact absurd ⟨rfl, rfl⟩ hc
        · exact h.defEx x hx
  · intro a ha b hb h1 h2 h3
    rcases (hmem a).mp ha with rfl | ha
    · rcases (hmem b).mp hb with rfl | hb
      · rfl
      · exact absurd h3.symm (huniq b hb h1.symm h2.symm)
    · rcases (hmem b).mp hb with rfl | hb
      · exact absurd h3 (huniq a ha h1 h2)
      · exact h.uniq a ha b hb h1 h2 h3
  · have := h.nextOdd; rw [hnx]; omega

end Influx.DBRP

namespace Influx.DBRP

theorem create_inv {s : St} (h : Inv s) (m0 : Mapping) (h0 : m0.ID = 0) (hv : m0.Virtual = false) :
    Inv (create s m0).1 := by
  have hb := inv_bump h
  have hodd : s.nextID % 2 = 1 := h.nextOdd
  have hfresh : ∀ x ∈ s.recs, x.ID ≠ s.nextID := by
    intro x hx; have := (h.recOK x hx).2.1; omega
  have hfind : findByID { s with nextID := s.nextID + 2 } m0.OrganizationID s.nextID = .error .notFound := by
    rcases findByID_odd hb (org := m0.OrganizationID) hodd with ⟨x, hx, hid, _⟩ | ⟨_, hf⟩
    · exact absurd hid (hfresh x hx)
    · exact hf
  unfold create
  simp only [h0, beq_self_eq_true, ↓reduceIte, hfind, Bool.false_eq_true]
  split
  · exact hb
  · split
    · exact hb
    · split
      · exact hb
      · next hval hbk huq =>
        have huq : isDBRPUnique { s with nextID := s.nextID + 2 } { m0 with ID := s.nextID } = true := by simpa using huq
        -- no stored mapping of this database has the retention policy
        have huniq : ∀ v ∈ s.recs, v.OrganizationID = m0.OrganizationID → v.Database = m0.Database →
            v.RetentionPolicy ≠ m0.RetentionPolicy := by
          intro v hvm ho hdb
          simp only [isDBRPUnique, List.all_eq_true, Bool.or_eq_true, beq_iff_eq, bne_iff_ne, ne_eq] at huq
          have := huq v ((walk_mem hb).mpr ⟨hvm, ho, hdb⟩)
          rcases this with h1 | h1
          · exact absurd h1 (hfresh v hvm)
          · exact h1
        have hnotidx : (s.idx.contains (m0.OrganizationID, m0.Database, s.nextID)) = false := by
          simp only [List.contains_eq_mem, decide_eq_false_iff_not]
          intro hc
          obtain ⟨x, hx, hid, _⟩ := (h.idx _ _ _).mp hc
          exact hfresh x hx hid
        have hnotby : (s.byOrg.contains (m0.OrganizationID, s.nextID)) = false := by
          simp only [List.contains_eq_mem, decide_eq_false_iff_not]
          intro hc
          obtain ⟨x, hx, hid, _⟩ := (h.byOrg _ _).mp hc
          exact hfresh x hx hid
        simp only [idxInsert, hnotidx, Bool.false_eq_true, ↓reduceIte, byOrgInsert, hnotby]
        have e := getDefault_congr (s := s) (s' := ⟨s.recs, s.idx ++ [(m0.OrganizationID, m0.Database, s.nextID)], s.byOrg ++ [(m0.OrganizationID, s.nextID)], s.defs, s.buckets, s.nextID + 2⟩) rfl m0.OrganizationID m0.Database
        rw [e]
        by_cases hdef : (getDefault s m0.OrganizationID m0.Database).isNone = true
        · simp only [hdef, ↓reduceIte]
          exact inv_add h { m0 with ID := s.nextID, Default := true } rfl hv huniq _ rfl rfl rfl rfl rfl (Or.inr rfl)
        · simp only [hdef, Bool.false_eq_true, ↓reduceIte]
          by_cases hmd : m0.Default = true
          · simp only [hmd, ↓reduceIte]
            exact inv_add h { m0 with ID := s.nextID, Default := true } rfl hv huniq _ rfl rfl rfl rfl rfl (Or.inr rfl)
          · simp only [hmd, Bool.false_eq_true, ↓reduceIte]
            refine inv_add h { m0 with ID := s.nextID, Default := false } rfl hv huniq _ rfl rfl rfl rfl rfl (Or.inl ⟨rfl, ?_⟩)
            simpa [Option.isSome_iff_ne_none, Option.isNone_iff_eq_none] using hdef

end Influx.DBRP

namespace Influx.DBRP

/-! ### `Update` keeps the invariant -/

/-- replacing the record `r` by `m'` (same id, organization, database) -/
theorem inv_replace {s : St} (h : Inv s) {r m' : Mapping} (hr : r ∈ s.recs) (hid : m'.ID = r.ID)
    (ho : m'.OrganizationID = r.OrganizationID) (hdb : m'.Database = r.Database) (hv : m'.Virtual = false)
    (huniq : ∀ v ∈ s.recs, v.ID ≠ r.ID → v.OrganizationID = r.OrganizationID → v.Database = r.Database →
      v.RetentionPolicy ≠ m'.RetentionPolicy)
    (s' : St) (hrecs : s'.recs = insertRec m' s.recs) (hidx : s'.idx = s.idx) (hby : s'.byOrg = s.byOrg)
    (hbk : s'.buckets = s.buckets) (hnx : s'.nextID = s.nextID)
    (hdefs : s'.defs = s.defs ∨ ∃ f, s'.defs = (setDefault s r.OrganizationID r.Database f).defs ∧
      ∃ x ∈ s'.recs, x.ID = f ∧ x.OrganizationID = r.OrganizationID ∧ x.Database = r.Database) :
    Inv s' := by
  have hmem : ∀ x, x ∈ s'.recs ↔ x = m' ∨ (x ∈ s.recs ∧ x.ID ≠ r.ID) := by
    intro x; rw [hrecs, mem_insertRec h.sorted, hid]
  -- every old record has a successor with the same id, organization and database
  have hsucc : ∀ x ∈ s.recs, ∃ y ∈ s'.recs, y.ID = x.ID ∧ y.OrganizationID = x.OrganizationID ∧ y.Database = x.Database := by
    intro x hx
    by_cases hxr : x.ID = r.ID
    · have := sorted_id_inj h.sorted hx hr hxr
      subst this
      exact ⟨m', (hmem m').mpr (Or.inl rfl), hid, ho, hdb⟩
    · exact ⟨x, (hmem x).mpr (Or.inr ⟨hx, hxr⟩), rfl, rfl, rfl⟩
  have hpred : ∀ y ∈ s'.recs, ∃ x ∈ s.recs, y.ID = x.ID ∧ y.OrganizationID = x.OrganizationID ∧ y.Database = x.Database := by
    intro y hy
    rcases (hmem y).mp hy with rfl | ⟨hy, _⟩
    · exact ⟨r, hr, hid, ho, hdb⟩
    · exact ⟨y, hy, rfl, rfl, rfl⟩
  have hgd : ∀ o db, getDefault s' o db = getDefault s o db ∨
      ∃ f, getDefault s' o db = (if o = r.OrganizationID ∧ db = r.Database then some f else getDefault s o db) ∧
        ∃ x ∈ s'.recs, x.ID = f ∧ x.OrganizationID = r.OrganizationID ∧ x.Database = r.Database := by
    intro o db
    rcases hdefs with hd | ⟨f, hd, hx⟩
    · exact Or.inl (getDefault_congr hd o db)
    · exact Or.inr ⟨f, by rw [getDefault_congr hd o db, getDefault_setDefault], hx⟩
  refine ⟨by rw [hrecs]; exact sorted_insertRec h.sorted, ?_, ?_, by rw [hidx]; exact h.idxND, ?_, by rw [hby]; exact h.byOrgND,
    ?_, ?_, ?_, by rw [hnx]; exact h.nextOdd, by rw [hbk]; exact h.bucketsEven⟩
  · intro x hx
    rcases (hmem x).mp hx with rfl | ⟨hx, _⟩
    · have := h.recOK r hr; rw [hnx, hid]; exact ⟨this.1, this.2.1, hv⟩
    · rw [hnx]; exact h.recOK x hx
  · intro o db id
    rw [hidx, h.idx]
    constructor
    · rintro ⟨x, hx, h1, h2, h3⟩
      obtain ⟨y, hy, e1, e2, e3⟩ := hsucc x hx
      exact ⟨y, hy, by rw [e1, h1], by rw [e2, h2], by rw [e3, h3]⟩
    · rintro ⟨y, hy, h1, h2, h3⟩
      obtain ⟨x, hx, e1, e2, e3⟩ := hpred y hy
      exact ⟨x, hx, by rw [← e1, h1], by rw [← e2, h2], by rw [← e3, h3]⟩
  · intro o id
    rw [hby, h.byOrg]
    constructor
    · rintro ⟨x, hx, h1, h2⟩
      obtain ⟨y, hy, e1, e2, _⟩ := hsucc x hx
      exact ⟨y, hy, by rw [e1, h1], by rw [e2, h2]⟩
    · rintro ⟨y, hy, h1, h2⟩
      obtain ⟨x, hx, e1, e2, _⟩ := hpred y hy
      exact ⟨x, hx, by rw [← e1, h1], by rw [← e2, h2]⟩
  · intro o db id hg
    rcases hgd o db with hh | ⟨f, hh, x, hx, h1, h2, h3⟩
    · rw [hh] at hg
      obtain ⟨x, hx, e1, e2, e3⟩ := h.defSome o db id hg
      obtain ⟨y, hy, f1, f2, f3⟩ := hsucc x hx
      exact ⟨y, hy, by rw [f1, e1], by rw [f2, e2], by rw [f3, e3]⟩
    · rw [hh] at hg
      split at hg
      · next hc =>
        simp only [Option.some.injEq] at hg
        exact ⟨x, hx, by rw [h1, hg], by rw [h2, hc.1], by rw [h3, hc.2]⟩
      · obtain ⟨x0, hx0, e1, e2, e3⟩ := h.defSome o db id hg
        obtain ⟨y, hy, f1, f2, f3⟩ := hsucc x0 hx0
        exact ⟨y, hy, by rw [f1, e1], by rw [f2, e2], by rw [f3, e3]⟩
  · intro y hy
    obtain ⟨x, hx, e1, e2, e3⟩ := hpred y hy
    have hold := h.defEx x hx
    rcases hgd y.OrganizationID y.Database with hh | ⟨f, hh, _⟩
    · rw [hh, e2, e3]; exact hold
    · rw [hh]; split
      · rfl
      · rw [e2, e3]; exact hold
  · intro a ha b hb h1 h2 h3
    rcases (hmem a).mp ha with rfl | ⟨ha, hane⟩
    · rcases (hmem b).mp hb with rfl | ⟨hb, hbne⟩
      · rfl
      · exact absurd h3.symm (huniq b hb hbne (by rw [← h1, ho]) (by rw [← h2, hdb]))
    · rcases (hmem b).mp hb with rfl | ⟨hb, hbne⟩
      · exact absurd h3 (huniq a ha hane (by rw [h1, ho]) (by rw [h2, hdb]))
      · exact h.uniq a ha b hb h1 h2 h3

/-- removing the record `r` -/
theorem inv_remove {s : St} (h : Inv s) {r : Mapping} (hr : r ∈ s.recs)
    (s' : St) (hrecs : s'.recs = s.recs.filter (·.ID != r.ID))
    (hidx : s'.idx = s.idx.filter (· != (r.OrganizationID, r.Database, r.ID)))
    (hby : s'.byOrg = s.byOrg.filter (· != (r.OrganizationID, r.ID)))
    (hbk : s'.buckets = s.buckets) (hnx : s'.nextID = s.nextID)
    (hdefs : (s'.defs = s.defs ∧ getDefault s r.OrganizationID r.Database ≠ some r.ID) ∨
      (∃ f, s'.defs = (setDefault s r.OrganizationID r.Database f).defs ∧
        ∃ x ∈ s'.recs, x.ID = f ∧ x.OrganizationID = r.OrganizationID ∧ x.Database = r.Database) ∨
      (s'.defs = (unsetDefault s r.OrganizationID r.Database).defs ∧
        ∀ x ∈ s'.recs, ¬(x.OrganizationID = r.OrganizationID ∧ x.Database = r.Database))) :
    Inv s' := by
  have hmem : ∀ x, x ∈ s'.recs ↔ x ∈ s.recs ∧ x.ID ≠ r.ID := by
    intro x; rw [hrecs]; simp [List.mem_filter]
  have hrid : ∀ x ∈ s.recs, x.ID = r.ID → x = r := fun x hx hxr => sorted_id_inj h.sorted hx hr hxr
  refine ⟨by rw [hrecs]; exact sorted_filter h.sorted _, ?_, ?_, by rw [hidx]; exact h.idxND.filter _, ?_,
    by rw [hby]; exact h.byOrgND.filter _, ?_, ?_, ?_, by rw [hnx]; exact h.nextOdd, by rw [hbk]; exact h.bucketsEven⟩
  · intro x hx; rw [hnx]; exact h.recOK x ((hmem x).mp hx).1
  · intro o db id
    rw [hidx]
    simp only [List.mem_filter, bne_iff_ne, ne_eq, h.idx]
    constructor
    · rintro ⟨⟨x, hx, h1, h2, h3⟩, hne⟩
      refine ⟨x, (hmem x).mpr ⟨hx, ?_⟩, h1, h2, h3⟩
      intro hxr
      have := hrid x hx hxr
      subst this
      exact hne (by rw [← h1, ← h2, ← h3])
    · rintro ⟨x, hx, h1, h2, h3⟩
      have := (hmem x).mp hx
      refine ⟨⟨x, this.1, h1, h2, h3⟩, ?_⟩
      intro hc
      simp only [Prod.mk.injEq] at hc
      exact this.2 (by rw [h1, hc.2.2])
  · intro o id
    rw [hby]
    simp only [List.mem_filter, bne_iff_ne, ne_eq, h.byOrg]
    constructor
    · rintro ⟨⟨x, hx, h1, h2⟩, hne⟩
      refine ⟨x, (hmem x).mpr ⟨hx, ?_⟩, h1, h2⟩
      intro hxr
      have := hrid x hx hxr
      subst this
      exact hne (by rw [← h1, ← h2])
    · rintro ⟨x, hx, h1, h2⟩
      have := (hmem x).mp hx
      refine ⟨⟨x, this.1, h1, h2⟩, ?_⟩
      intro hc
      simp only [Prod.mk.injEq] at hc
      exact this.2 (by rw [h1, hc.2])
  · intro o db id hg
    rcases hdefs with ⟨hd, hne⟩ | ⟨f, hd, x, hx, h1, h2, h3⟩ | ⟨hd, _⟩
    · rw [getDefault_congr hd] at hg
      obtain ⟨x, hx, e1, e2, e3⟩ := h.defSome o db id hg
      refine ⟨x, (hmem x).mpr ⟨hx, ?_⟩, e1, e2, e3⟩
      intro hxr
      have := hrid x hx hxr
      subst this
      apply hne; rw [e2, e3, hg, e1]
    · rw [getDefault_congr hd, getDefault_setDefault] at hg
      split at hg
      · next hc =>
        simp only [Option.some.injEq] at hg
        exact ⟨x, hx, by rw [h1, hg], by rw [h2, hc.1], by rw [h3, hc.2]⟩
      · next hc =>
        obtain ⟨x0, hx0, e1, e2, e3⟩ := h.defSome o db id hg
        refine ⟨x0, (hmem x0).mpr ⟨hx0, ?_⟩, e1, e2, e3⟩
        intro hxr
        have := hrid x0 hx0 hxr
        subst this
        exact hc ⟨e2.symm, e3.symm⟩
    · rw [getDefault_congr hd, getDefault_unsetDefault] at hg
      split at hg
      · cases hg
      · next hc =>
        obtain ⟨x0, hx0, e1, e2, e3⟩ := h.defSome o db id hg
        refine ⟨x0, (hmem x0).mpr ⟨hx0, ?_⟩, e1, e2, e3⟩
        intro hxr
        have := hrid x0 hx0 hxr
        subst this
        exact hc ⟨e2.symm, e3.symm⟩
  · intro y hy
    have hy' := (hmem y).mp hy
    have hold := h.defEx y hy'.1
    rcases hdefs with ⟨hd, _⟩ | ⟨f, hd, _⟩ | ⟨hd, hnone⟩
    · rw [getDefault_congr hd]; exact hold
    · rw [getDefault_congr hd, getDefault_setDefault]; split; rfl; exact hold
    · rw [getDefault_congr hd, getDefault_unsetDefault]
      split
      · next hc => exact absurd hc (hnone y hy)
      · exact hold
  · intro a ha b hb
    exact h.uniq a ((hmem a).mp ha).1 b ((hmem b).mp hb).1

end Influx.DBRP

namespace Influx.DBRP

theorem remove_idx {s : St} (h : Inv s) {r : Mapping} (hr : r ∈ s.recs) (s' : St)
    (hrecs : s'.recs = s.recs.filter (·.ID != r.ID))
    (hidx : s'.idx = s.idx.filter (· != (r.OrganizationID, r.Database, r.ID))) :
    ∀ o db id, (o, db, id) ∈ s'.idx ↔ ∃ m ∈ s'.recs, m.ID = id ∧ m.OrganizationID = o ∧ m.Database = db := by
  have hmem : ∀ x, x ∈ s'.recs ↔ x ∈ s.recs ∧ x.ID ≠ r.ID := by
    intro x; rw [hrecs]; simp [List.mem_filter]
  have hrid : ∀ x ∈ s.recs, x.ID = r.ID → x = r := fun x hx hxr => sorted_id_inj h.sorted hx hr hxr
  intro o db id
  rw [hidx]
  simp only [List.mem_filter, bne_iff_ne, ne_eq, h.idx]
  constructor
  · rintro ⟨⟨x, hx, h1, h2, h3⟩, hne⟩
    refine ⟨x, (hmem x).mpr ⟨hx, ?_⟩, h1, h2, h3⟩
    intro hxr
    have := hrid x hx hxr
    subst this
    exact hne (by rw [← h1, ← h2, ← h3])
  · rintro ⟨x, hx, h1, h2, h3⟩
    have := (hmem x).mp hx
    refine ⟨⟨x, this.1, h1, h2, h3⟩, ?_⟩
    intro hc
    simp only [Prod.mk.injEq] at hc
    exact this.2 (by rw [h1, hc.2.2])

/-- the record `Update` writes: the caller's mapping with the immutable fields of the stored one -/
def updRec (m r : Mapping) : Mapping :=
  { m with ID := r.ID, OrganizationID := r.OrganizationID, BucketID := r.BucketID, Database := r.Database }

/-- **`Update` of a stored mapping (odd id) keeps the invariant** -/
theorem update_inv {s : St} (h : Inv s) (m : Mapping) (hodd : m.ID % 2 = 1) (hv : m.Virtual = false) :
    Inv (update s m).1 := by
  unfold update
  split
  · exact h
  · rcases findByID_odd h (org := m.OrganizationID) hodd with ⟨r, hr, hid, horg, hf⟩ | ⟨_, hf⟩
    · simp only [hf]
      change Inv (if (!isDBRPUnique s (updRec m r)) = true then (s, Except.error Err.exists_) else _).1
      split
      · exact h
      · next huq =>
        have huq : isDBRPUnique s (updRec m r) = true := by simpa using huq
        have huniq : ∀ v ∈ s.recs, v.ID ≠ r.ID → v.OrganizationID = r.OrganizationID → v.Database = r.Database →
            v.RetentionPolicy ≠ (updRec m r).RetentionPolicy := by
          intro v hvm hne ho hdb
          simp only [isDBRPUnique, List.all_eq_true, Bool.or_eq_true, beq_iff_eq, bne_iff_ne, ne_eq] at huq
          rcases huq v ((walk_mem h).mpr ⟨hvm, ho, hdb⟩) with h1 | h1
          · exact absurd h1 hne
          · exact h1
        -- the state with the record replaced and the defaults untouched
        have h1 : Inv (putRec s (updRec m r)) :=
          inv_replace (m' := updRec m r) h hr rfl rfl rfl hv huniq _ rfl rfl rfl rfl rfl (Or.inl rfl)
        have hmemm : updRec m r ∈ (putRec s (updRec m r)).recs := by
          simp only [putRec]; exact (mem_insertRec h.sorted).mpr (Or.inl rfl)
        simp only
        split
        · exact inv_replace (m' := updRec m r) h hr rfl rfl rfl hv huniq _ rfl rfl rfl rfl rfl
            (Or.inr ⟨r.ID, rfl, _, hmemm, rfl, rfl, rfl⟩)
        · split
          · split
            · next f hfb =>
              obtain ⟨_, x, hx, e1, e2, e3⟩ := getFirstBut_some (s := putRec s (updRec m r)) h1.sorted h1.idx hfb
              exact inv_replace (m' := updRec m r) h hr rfl rfl rfl hv huniq _ rfl rfl rfl rfl rfl
                (Or.inr ⟨f, rfl, x, hx, e1, e2, e3⟩)
            · exact h1
          · exact h1
    · simp only [hf]; exact h

/-- **`Delete` of a stored mapping (odd id) keeps the invariant** -/
theorem delete_inv {s : St} (h : Inv s) (org id : Nat) (hodd : id % 2 = 1) : Inv (delete s org id).1 := by
  unfold delete
  rcases findByID_odd h (org := org) hodd with ⟨r, hr, hid, horg, hf⟩ | ⟨_, hf⟩
  · simp only [hf]
    split
    · exact h
    · subst hid horg
      simp only
      -- records and index after the removal
      have hidx3 := remove_idx h hr (byOrgDelete (idxDelete (delRec s r.ID) r.OrganizationID r.Database r.ID) r.OrganizationID r.ID) rfl rfl
      have hs3 : Sorted (byOrgDelete (idxDelete (delRec s r.ID) r.OrganizationID r.Database r.ID) r.OrganizationID r.ID).recs :=
        sorted_filter h.sorted _
      by_cases hd : getDefault s r.OrganizationID r.Database = some r.ID
      · simp only [hd, beq_self_eq_true, ↓reduceIte]
        split
        · next f hfb =>
          obtain ⟨_, x, hx, e1, e2, e3⟩ := getFirstBut_some hs3 hidx3 hfb
          exact inv_remove h hr _ rfl rfl rfl rfl rfl (Or.inr (Or.inl ⟨f, rfl, x, hx, e1, e2, e3⟩))
        · next hfb =>
          refine inv_remove h hr _ rfl rfl rfl rfl rfl (Or.inr (Or.inr ⟨rfl, ?_⟩))
          intro x hx hc
          have := getFirstBut_none hs3 hidx3 hfb x hx hc.1 hc.2
          have hx' : x ∈ s.recs.filter (·.ID != r.ID) := hx
          simp only [List.mem_filter, bne_iff_ne, ne_eq] at hx'
          exact hx'.2 this
      · have hd' : (getDefault s r.OrganizationID r.Database == some r.ID) = false := by simpa using hd
        simp only [hd', Bool.false_eq_true, ↓reduceIte]
        exact inv_remove h hr _ rfl rfl rfl rfl rfl (Or.inl ⟨rfl, hd⟩)
  · simp only [hf]; exact h

end Influx.DBRP
