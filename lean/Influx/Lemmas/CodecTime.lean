/-
  Lemmas.CodecTime — the timestamp codec (scalar streaming encoder and batch encoder) decodes what it encodes.
-/
import Influx.Lemmas.CodecInt
namespace Influx.Codec
open Influx.Generated.Codec

/-! ### timestamps: format lemmas -/

theorem timeDecode_rle_fmt (k first q n : Nat) (hk : k < 16) (hf : first < W) (hq : q < W) (hn : n < W) :
    timeDecode ((timeCompressedRLE * 16 + k) :: (putU64 first ++ putUvarint q ++ putUvarint n)) =
      some (rleTimes first (q * 10 ^ k % W) n) := by
  unfold timeDecode
  have hh : (timeCompressedRLE * 16 + k) / 16 = 2 := by
    have : timeCompressedRLE = 2 := rfl
    rw [this]; omega
  have hm : (timeCompressedRLE * 16 + k) % 16 = k := by
    have : timeCompressedRLE = 2 := rfl
    rw [this]; omega
  have c0 : ¬ (2 = timeUncompressed) := by decide
  have c1 : ¬ (2 = timeCompressedPackedSimple) := by decide
  have c2 : 2 = timeCompressedRLE := by decide
  simp only [hh, hm, if_neg c0, if_neg c1, if_pos c2]
  rw [List.append_assoc, getU64_putU64 _ hf]
  simp only
  rw [getUvarint_put _ hq]
  simp only
  have : putUvarint n = putUvarint n ++ [] := by simp
  rw [this, getUvarint_put _ hn]

theorem timeDecode_raw_fmt (w : Nat) (rest : List Nat) (h : ∀ x ∈ w :: rest, x < W) :
    timeDecode ((timeUncompressed * 16) :: (w :: rest).flatMap putU64) = some (w :: unTsDeltas 1 w rest) := by
  unfold timeDecode
  have hh : timeUncompressed * 16 / 16 = 0 := by decide
  have c0 : 0 = timeUncompressed := by decide
  simp only [hh, if_pos c0]
  rw [words_flatMap_putU64 _ h]

theorem timeDecode_packed_fmt (k first : Nat) (ws : List Nat) (hk : k < 16) (hf : first < W) (h : ∀ w ∈ ws, w < W) :
    timeDecode ((timeCompressedPackedSimple * 16 + k) :: (putU64 first ++ wordsToBytes ws)) =
      some (first :: unTsDeltas (10 ^ k) first (decodeWords ws)) := by
  unfold timeDecode
  have hh : (timeCompressedPackedSimple * 16 + k) / 16 = 1 := by
    have : timeCompressedPackedSimple = 1 := rfl
    rw [this]; omega
  have hm : (timeCompressedPackedSimple * 16 + k) % 16 = k := by
    have : timeCompressedPackedSimple = 1 := rfl
    rw [this]; omega
  have c0 : ¬ (1 = timeUncompressed) := by decide
  have c1 : 1 = timeCompressedPackedSimple := by decide
  simp only [hh, hm, if_neg c0, if_pos c1]
  rw [getU64_putU64 _ hf]
  simp only
  rw [words_wordsToBytes ws h]

/-! ### deltas -/

theorem tsGo_lt (prev : Nat) (xs : List Nat) : ∀ d ∈ tsDeltas.go prev xs, d < W := by
  induction xs generalizing prev with
  | nil => simp [tsDeltas.go]
  | cons x xs ih =>
    intro d hd
    simp only [tsDeltas.go, List.mem_cons] at hd
    rcases hd with rfl | hd
    · exact Nat.mod_lt _ (by decide)
    · exact ih x d hd

theorem tsGo_length (prev : Nat) (xs : List Nat) : (tsDeltas.go prev xs).length = xs.length := by
  induction xs generalizing prev with
  | nil => rfl
  | cons x xs ih => simp [tsDeltas.go, ih]

theorem unTs_go (prev : Nat) (xs : List Nat) (hp : prev < W) (hx : ∀ x ∈ xs, x < W) :
    unTsDeltas 1 prev (tsDeltas.go prev xs) = xs := by
  induction xs generalizing prev with
  | nil => rfl
  | cons x xs ih =>
    have hxx := hx x List.mem_cons_self
    simp only [tsDeltas.go, unTsDeltas]
    have hW : W = 18446744073709551616 := rfl
    have e : (prev + (x + W - prev) % W * 1 % W) % W = x := by rw [hW] at hp hxx ⊢; omega
    rw [e, ih x hxx (fun y hy => hx y (List.mem_cons_of_mem _ hy))]

/-- dividing by a common divisor and multiplying back -/
theorem unTs_div (div last : Nat) (ds : List Nat) (hdiv : ∀ d ∈ ds, div ∣ d) :
    unTsDeltas div last (ds.map (· / div)) = unTsDeltas 1 last ds := by
  induction ds generalizing last with
  | nil => rfl
  | cons d ds ih =>
    simp only [List.map_cons, unTsDeltas]
    have : d / div * div = d := Nat.div_mul_cancel (hdiv d List.mem_cons_self)
    rw [this, Nat.mul_one, ih _ (fun x hx => hdiv x (List.mem_cons_of_mem _ hx))]

/-! ### the divisor -/

theorem reduceDiv_spec (d v : Nat) : ∀ k, d = 10 ^ k → ∃ k', k' ≤ k ∧ reduceDiv d v = 10 ^ k' ∧ 10 ^ k' ∣ v := by
  fun_induction reduceDiv d v with
  | case1 d hc ih =>
    intro k hk
    have hk1 : 1 ≤ k := by
      rcases Nat.eq_zero_or_pos k with h0 | h0
      · subst h0; simp at hk; omega
      · exact h0
    have : d / 10 = 10 ^ (k - 1) := by
      rw [hk]
      have : k = (k - 1) + 1 := by omega
      rw [this, Nat.pow_succ, Nat.mul_div_cancel _ (by decide)]
      simp
    obtain ⟨k', h1, h2, h3⟩ := ih (k - 1) this
    exact ⟨k', by omega, h2, h3⟩
  | case2 d hc =>
    intro k hk
    refine ⟨k, Nat.le_refl _, hk, ?_⟩
    rw [← hk]
    rcases Nat.lt_or_ge 1 d with h1 | h1
    · have : v % d = 0 := by
        apply Classical.byContradiction; intro hne; exact hc ⟨h1, hne⟩
      exact Nat.dvd_of_mod_eq_zero this
    · have hpos : 0 < d := by rw [hk]; exact Nat.pow_pos (by decide)
      have : d = 1 := by omega
      rw [this]; exact Nat.one_dvd _

theorem pow10_dvd_of_le {a b : Nat} (h : a ≤ b) : 10 ^ a ∣ 10 ^ b := Nat.pow_dvd_pow 10 h

theorem foldl_reduceDiv_spec (ds : List Nat) : ∀ k, ∃ k', k' ≤ k ∧ ds.foldl reduceDiv (10 ^ k) = 10 ^ k' ∧ ∀ d ∈ ds, 10 ^ k' ∣ d := by
  induction ds with
  | nil => intro k; exact ⟨k, Nat.le_refl _, rfl, by simp⟩
  | cons d ds ih =>
    intro k
    obtain ⟨k1, h1, h2, h3⟩ := reduceDiv_spec (10 ^ k) d k rfl
    obtain ⟨k2, g1, g2, g3⟩ := ih k1
    refine ⟨k2, by omega, by rw [List.foldl_cons, h2, g2], ?_⟩
    intro x hx
    rcases List.mem_cons.mp hx with rfl | hx'
    · exact Nat.dvd_trans (pow10_dvd_of_le g1) h3
    · exact g3 x hx'

theorem log10_pow (k : Nat) : log10 (10 ^ k) = k := by
  induction k with
  | zero => unfold log10; simp
  | succ k ih =>
    unfold log10
    have hge : 10 ^ (k + 1) ≥ 10 := by
      have : 10 ^ (k + 1) = 10 ^ k * 10 := Nat.pow_succ 10 k
      have : 0 < 10 ^ k := Nat.pow_pos (by decide)
      omega
    rw [dif_pos hge, Nat.pow_succ, Nat.mul_div_cancel _ (by decide), ih]

theorem e12 : (1000000000000 : Nat) = 10 ^ 12 := by decide

theorem listMax_le (l : List Nat) : ∀ (init : Nat), init ≤ l.foldl max init ∧ ∀ x ∈ l, x ≤ l.foldl max init := by
  induction l with
  | nil => intro init; exact ⟨Nat.le_refl _, by simp⟩
  | cons a l ih =>
    intro init
    obtain ⟨h1, h2⟩ := ih (max init a)
    refine ⟨by simp only [List.foldl_cons]; omega, ?_⟩
    intro x hx
    simp only [List.foldl_cons]
    rcases List.mem_cons.mp hx with rfl | hx'
    · omega
    · exact h2 x hx'

/-! ### run-length form -/

theorem rleTimes_go (d : Nat) (_hd : d < W) : ∀ (xs : List Nat) (prev : Nat), prev < W → (∀ x ∈ xs, x < W) →
    (∀ e ∈ tsDeltas.go prev xs, e = d) → rleTimes ((prev + d) % W) d xs.length = xs := by
  intro xs
  induction xs with
  | nil => intros; rfl
  | cons x xs ih =>
    intro prev hp hx he
    have hxx := hx x List.mem_cons_self
    simp only [tsDeltas.go, List.mem_cons, forall_eq_or_imp] at he
    have hW : W = 18446744073709551616 := rfl
    have e : (prev + d) % W = x := by rw [← he.1]; rw [hW] at hp hxx ⊢; omega
    simp only [List.length_cons, rleTimes]
    rw [e, ih x hxx (fun y hy => hx y (List.mem_cons_of_mem _ hy)) he.2]

theorem allEqTail'_spec (e0 e1 : Nat) (rest : List Nat) (h : allEqTail' (e0 :: e1 :: rest) = true) :
    ∀ e ∈ e1 :: rest, e = e1 := by
  intro e he
  rcases List.mem_cons.mp he with rfl | he'
  · rfl
  · have := List.all_eq_true.mp h e he'
    simpa using this


theorem div_mul_mod (d k : Nat) (hdvd : 10 ^ k ∣ d) (hd : d < W) : d / 10 ^ k * 10 ^ k % W = d := by
  rw [Nat.div_mul_cancel hdvd, Nat.mod_eq_of_lt hd]

/-- the three layouts decode back, given a divisor `10^k` of all deltas -/
theorem time_rle_case (t0 : Nat) (rest : List Nat) (d1 : Nat) (ds' : List Nat) (k : Nat)
    (ht0 : t0 < W) (hrest : ∀ x ∈ rest, x < W) (hlen : rest.length + 1 < W)
    (hds : tsDeltas.go t0 rest = d1 :: ds') (hk : k ≤ 12) (hdvd : 10 ^ k ∣ d1)
    (hrle : allEqTail' (t0 :: d1 :: ds') = true) :
    timeDecode (timeRleBytes t0 d1 (10 ^ k) ((d1 :: ds').length + 1)) = some (t0 :: rest) := by
  have hdW : d1 < W := tsGo_lt t0 rest d1 (by rw [hds]; exact List.mem_cons_self)
  have hl : (d1 :: ds').length = rest.length := by rw [← hds, tsGo_length]
  unfold timeRleBytes
  rw [log10_pow, timeDecode_rle_fmt k t0 (d1 / 10 ^ k) _ (by omega) ht0
    (Nat.lt_of_le_of_lt (Nat.div_le_self _ _) hdW) (by rw [hl]; exact hlen)]
  rw [div_mul_mod d1 k hdvd hdW, hl]
  have hall := allEqTail'_spec _ _ _ hrle
  have := rleTimes_go d1 hdW rest t0 ht0 hrest (by rw [hds]; exact hall)
  simp only [rleTimes]
  rw [this]

theorem time_raw_case (t0 : Nat) (rest : List Nat) (ht0 : t0 < W) (hrest : ∀ x ∈ rest, x < W) :
    timeDecode (timeRawBytes (t0 :: tsDeltas.go t0 rest)) = some (t0 :: rest) := by
  unfold timeRawBytes
  rw [timeDecode_raw_fmt t0 _ (by
    intro x hx
    rcases List.mem_cons.mp hx with rfl | hx'
    · exact ht0
    · exact tsGo_lt t0 rest x hx'), unTs_go t0 rest ht0 hrest]

theorem time_packed_case (t0 : Nat) (rest ws : List Nat) (k : Nat) (ht0 : t0 < W) (hrest : ∀ x ∈ rest, x < W)
    (hk : k ≤ 12) (hdvd : ∀ d ∈ tsDeltas.go t0 rest, 10 ^ k ∣ d) (hws : ∀ w ∈ ws, w < W)
    (hdec : decodeWords ws = (if 10 ^ k > 1 then (tsDeltas.go t0 rest).map (· / 10 ^ k) else tsDeltas.go t0 rest)) :
    timeDecode (timePackedBytes (10 ^ k) t0 ws) = some (t0 :: rest) := by
  unfold timePackedBytes
  rw [log10_pow, timeDecode_packed_fmt k t0 ws (by omega) ht0 hws, hdec]
  split
  · rw [unTs_div _ _ _ hdvd, unTs_go t0 rest ht0 hrest]
  · next h1 =>
    have hpos : 0 < 10 ^ k := Nat.pow_pos (by decide)
    have : 10 ^ k = 1 := by omega
    rw [this, unTs_go t0 rest ht0 hrest]

theorem packed_vals_good (ds : List Nat) (k : Nat) (hmx : ¬ listMax ds > MaxValue) :
    ∀ v ∈ (if 10 ^ k > 1 then ds.map (· / 10 ^ k) else ds), v ≤ MaxValue := by
  have hmax := (listMax_le ds 0).2
  have hle : ∀ d ∈ ds, d ≤ MaxValue := fun d hd => by have := hmax d hd; unfold listMax at hmx; omega
  split
  · intro v hv
    obtain ⟨d, hd, rfl⟩ := List.mem_map.mp hv
    exact Nat.le_trans (Nat.div_le_self _ _) (hle d hd)
  · exact hle

/-- **timestamp codec, scalar encoder** -/
theorem timeEncodeS_roundtrip (ts : List Nat) (hv : ∀ v ∈ ts, v < W) (hlen : ts.length < W) :
    ∃ b, timeEncodeS ts = some b ∧ timeDecode b = some ts := by
  cases ts with
  | nil => exact ⟨[], rfl, rfl⟩
  | cons t0 rest =>
    have ht0 := hv t0 List.mem_cons_self
    have hrest : ∀ x ∈ rest, x < W := fun x hx => hv x (List.mem_cons_of_mem _ hx)
    have hlen' : rest.length + 1 < W := by simpa using hlen
    unfold timeEncodeS
    have htd : tsDeltas (t0 :: rest) = t0 :: tsDeltas.go t0 rest := rfl
    rw [htd]
    simp only
    obtain ⟨k, hk, hdiv, hdvd⟩ := foldl_reduceDiv_spec (tsDeltas.go t0 rest).reverse 12
    rw [e12, hdiv]
    have hdvd' : ∀ d ∈ tsDeltas.go t0 rest, 10 ^ k ∣ d := fun d hd => hdvd d (List.mem_reverse.mpr hd)
    cases hds : tsDeltas.go t0 rest with
    | nil =>
      have hr : rest = [] := List.length_eq_zero_iff.mp (by rw [← tsGo_length t0 rest, hds]; rfl)
      subst hr
      refine ⟨_, rfl, ?_⟩
      have := time_packed_case t0 [] [] k ht0 (by simp) hk (by simp [tsDeltas.go]) (by simp) (by simp [decodeWords, tsDeltas.go])
      exact this
    | cons d1 ds' =>
      simp only
      split
      · next hrle =>
        refine ⟨_, rfl, ?_⟩
        exact time_rle_case t0 rest d1 ds' k ht0 hrest hlen' hds hk (hdvd' d1 (by rw [hds]; exact List.mem_cons_self)) hrle
      · split
        · refine ⟨_, rfl, ?_⟩
          rw [← hds]; exact time_raw_case t0 rest ht0 hrest
        · next hmx =>
          obtain ⟨ws, e1, e2, e3⟩ := encodeStream_ok _ (packed_vals_good (d1 :: ds') k hmx)
          simp only [e1]
          refine ⟨_, rfl, ?_⟩
          exact time_packed_case t0 rest ws k ht0 hrest hk hdvd' e3 (by rw [e2, hds])

/-- **timestamp codec, batch encoder** -/
theorem timeEncodeB_roundtrip (ts : List Nat) (hv : ∀ v ∈ ts, v < W) (hlen : ts.length < W) :
    ∃ b, timeEncodeB ts = some b ∧ timeDecode b = some ts := by
  cases ts with
  | nil => exact ⟨[], rfl, rfl⟩
  | cons t0 rest =>
    have ht0 := hv t0 List.mem_cons_self
    have hrest : ∀ x ∈ rest, x < W := fun x hx => hv x (List.mem_cons_of_mem _ hx)
    have hlen' : rest.length + 1 < W := by simpa using hlen
    unfold timeEncodeB
    have htd : tsDeltas (t0 :: rest) = t0 :: tsDeltas.go t0 rest := rfl
    rw [htd]
    simp only
    cases hds : tsDeltas.go t0 rest with
    | nil =>
      have hr : rest = [] := List.length_eq_zero_iff.mp (by rw [← tsGo_length t0 rest, hds]; rfl)
      subst hr
      have he : encodeAllI 0 [] = some [] := rfl
      simp only [he]
      refine ⟨_, rfl, ?_⟩
      rw [e12]
      exact time_packed_case t0 [] [] 12 ht0 (by simp) (Nat.le_refl _) (by simp [tsDeltas.go]) (by simp) (by simp [decodeWords, tsDeltas.go])
    | cons d1 ds' =>
      simp only
      split
      · next hrle =>
        obtain ⟨k, hk, hdiv, hdvd⟩ := reduceDiv_spec (10 ^ 12) d1 12 rfl
        rw [e12, hdiv]
        refine ⟨_, rfl, ?_⟩
        exact time_rle_case t0 rest d1 ds' k ht0 hrest hlen' hds hk hdvd hrle
      · split
        · refine ⟨_, rfl, ?_⟩
          rw [← hds]; exact time_raw_case t0 rest ht0 hrest
        · next hmx =>
          obtain ⟨k, hk, hdiv, hdvd⟩ := foldl_reduceDiv_spec (d1 :: ds') 12
          rw [e12, hdiv]
          have hgood := packed_vals_good (d1 :: ds') k hmx
          obtain ⟨ws, e1, e2, e3⟩ := encodeAllI_ok _ hgood
          have hl : (if 10 ^ k > 1 then (d1 :: ds').map (· / 10 ^ k) else d1 :: ds').length = (d1 :: ds').length := by
            split <;> simp
          rw [hl] at e1
          simp only [e1]
          refine ⟨_, rfl, ?_⟩
          exact time_packed_case t0 rest ws k ht0 hrest hk (by rw [hds]; exact hdvd) e3 (by rw [e2, hds])

end Influx.Codec
