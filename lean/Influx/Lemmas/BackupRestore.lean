/-
  Lemmas.BackupRestore — what Restore / Import make of a Backup archive, file by
  file: the same blocks under the same (Restore) or fresh ascending (Import)
  names, without any tombstone.
-/
import Influx.Lemmas.BackupLookup

namespace Influx.Backup

/-- file-name order: (generation, sequence) lexicographic -/
def nameLt (a b : TFile) : Prop := a.gen < b.gen ∨ (a.gen = b.gen ∧ a.seq < b.seq)

/-- the FileStore keeps its files sorted by name, names distinct -/
def SortedFiles (fs : List TFile) : Prop := fs.Pairwise nameLt

/-- a restored / imported file: same blocks, no tombstone, written now -/
def strip (f : TFile) : TFile := { f with mtime := .fresh, tombs := [], tombM := none }

@[simp] theorem strip_gen (f : TFile) : (strip f).gen = f.gen := rfl
@[simp] theorem strip_seq (f : TFile) : (strip f).seq = f.seq := rfl
@[simp] theorem strip_blocks (f : TFile) : (strip f).blocks = f.blocks := rfl
@[simp] theorem strip_tombs (f : TFile) : (strip f).tombs = [] := rfl

theorem nameLt_strip_left {a b : TFile} : nameLt (strip a) b ↔ nameLt a b := Iff.rfl
theorem nameLt_strip_right {a b : TFile} : nameLt a (strip b) ↔ nameLt a b := Iff.rfl

/-! ### files-only view of restore / import -/

def restoreFiles : List TFile → Archive → List TFile
  | fs, [] => fs
  | fs, .tomb _ _ :: rest => restoreFiles fs rest
  | fs, .tsm g q bs :: rest =>
    restoreFiles (insertFile { gen := g, seq := q, mtime := .fresh, blocks := bs, tombs := [], tombM := none } fs) rest

theorem restore_files (s : Shard) (a : Archive) : (s.restore a).files = restoreFiles s.files a := by
  induction a generalizing s with
  | nil => rfl
  | cons e rest ih =>
    cases e with
    | tomb g q => simp [Shard.restore, restoreFiles, ih]
    | tsm g q bs => simp [Shard.restore, restoreFiles, ih]

theorem restore_cache (s : Shard) (a : Archive) : (s.restore a).cache = s.cache := by
  induction a generalizing s with
  | nil => rfl
  | cons e rest ih =>
    cases e with
    | tomb g q => simp [Shard.restore, ih]
    | tsm g q bs => simp [Shard.restore, ih]

theorem restoreFiles_append (fs : List TFile) (a b : Archive) :
    restoreFiles fs (a ++ b) = restoreFiles (restoreFiles fs a) b := by
  induction a generalizing fs with
  | nil => rfl
  | cons e rest ih =>
    cases e with
    | tomb g q => simp [restoreFiles, ih]
    | tsm g q bs => simp [restoreFiles, ih]

theorem insertFile_last (f : TFile) (l : List TFile) (h : ∀ g ∈ l, nameLt g f) :
    insertFile f l = l ++ [f] := by
  induction l with
  | nil => rfl
  | cons g l ih =>
    have hg : nameLt g f := h g (by simp)
    have hl : ∀ x ∈ l, nameLt x f := fun x hx => h x (by simp [hx])
    unfold insertFile
    have h1 : ¬ (f.gen < g.gen ∨ (f.gen = g.gen ∧ f.seq < g.seq)) := by
      unfold nameLt at hg; omega
    have h2 : ¬ (f.gen = g.gen ∧ f.seq = g.seq) := by
      unfold nameLt at hg; omega
    simp only [Bool.or_eq_true, decide_eq_true_eq, Bool.and_eq_true, beq_iff_eq, h1, h2, if_false]
    rw [ih hl]; rfl

theorem backupEntries_cons (since : Option Int) (f : TFile) (rest : List TFile) :
    backupEntries since (f :: rest) =
      (match f.tombM with
        | some m => if m.after since then [Entry.tomb f.gen f.seq] else []
        | none => []) ++
      (if f.mtime.after since then [Entry.tsm f.gen f.seq f.blocks] else []) ++
      backupEntries since rest := rfl

/-- Restore of a full backup (since = zero time) of sorted files appends them all,
    stripped of their tombstones. -/
theorem restoreFiles_backup_none (acc fs : List TFile) (h : SortedFiles (acc ++ fs)) :
    restoreFiles acc (backupEntries none fs) = acc ++ fs.map strip := by
  induction fs generalizing acc with
  | nil => simp [backupEntries, restoreFiles]
  | cons f fs ih =>
    have hacc : ∀ g ∈ acc, nameLt g f := by
      intro g hg
      have := List.pairwise_append.mp h
      exact this.2.2 g hg f (by simp)
    have hsorted : SortedFiles ((acc ++ [strip f]) ++ fs) := by
      unfold SortedFiles at *
      rw [List.append_assoc]
      simp only [List.cons_append, List.nil_append]
      rw [List.pairwise_append] at h ⊢
      refine ⟨h.1, ?_, ?_⟩
      · have := h.2.1
        rw [List.pairwise_cons] at this ⊢
        exact ⟨fun x hx => this.1 x hx, this.2⟩
      · intro a ha b hb
        rcases List.mem_cons.mp hb with rfl | hb
        · exact h.2.2 a ha f (by simp)
        · exact h.2.2 a ha b (by simp [hb])
    have hstep : restoreFiles acc (backupEntries none (f :: fs)) =
        restoreFiles (insertFile (strip f) acc) (backupEntries none fs) := by
      rw [backupEntries_cons]
      cases hm : f.tombM <;> simp [MTime.after, restoreFiles, strip]
    rw [hstep, insertFile_last _ _ (by intro g hg; exact hacc g hg), ih _ hsorted]
    simp

/-! ### reading stripped files -/

theorem lookup_strip (f : TFile) (k : Key) (t : TS) : (strip f).lookup k t = f.lookupRaw k t := by
  simp [TFile.lookup, TFile.lookupRaw, TFile.tombstoned]

theorem filesLookup_map_strip (fs : List TFile) (k : Key) (t : TS) :
    filesLookup (fs.map strip) k t = filesLookupRaw fs k t := by
  induction fs with
  | nil => rfl
  | cons f fs ih => simp [filesLookup, filesLookupRaw, ih, lookup_strip]

theorem lookup_eq_raw_of_no_tombs (f : TFile) (h : f.tombs = []) (k : Key) (t : TS) :
    f.lookup k t = f.lookupRaw k t := by
  simp [TFile.lookup, TFile.lookupRaw, TFile.tombstoned, h]

theorem filesLookup_eq_raw_of_no_tombs (fs : List TFile) (h : ∀ f ∈ fs, f.tombs = []) (k : Key) (t : TS) :
    filesLookup fs k t = filesLookupRaw fs k t := by
  induction fs with
  | nil => rfl
  | cons f fs ih =>
    simp only [filesLookup, filesLookupRaw]
    rw [ih (fun g hg => h g (by simp [hg])), lookup_eq_raw_of_no_tombs f (h f (by simp))]

/-- a tombstone only ever hides points -/
theorem lookup_some_raw {f : TFile} {k : Key} {t : TS} {v : Val} (h : f.lookup k t = some v) :
    f.lookupRaw k t = some v := by
  unfold TFile.lookup at h
  split at h
  · simp at h
  · exact h

/-! ### files-only view of import -/

def importFiles : List TFile → Nat → Archive → List TFile
  | fs, _, [] => fs
  | fs, n, .tomb _ _ :: rest => importFiles fs n rest
  | fs, n, .tsm _ _ bs :: rest =>
    importFiles (fs ++ [{ gen := n, seq := 1, mtime := .fresh, blocks := bs, tombs := [], tombM := none }]) (n + 1) rest

theorem import_files (s : Shard) (a : Archive) : (s.importA a).files = importFiles s.files s.nextGen a := by
  induction a generalizing s with
  | nil => rfl
  | cons e rest ih =>
    cases e with
    | tomb g q => simp [Shard.importA, importFiles, ih]
    | tsm g q bs => simp [Shard.importA, importFiles, ih]

theorem import_cache (s : Shard) (a : Archive) : (s.importA a).cache = s.cache := by
  induction a generalizing s with
  | nil => rfl
  | cons e rest ih =>
    cases e with
    | tomb g q => simp [Shard.importA, ih]
    | tsm g q bs => simp [Shard.importA, ih]

/-- the block lists of the `.tsm` entries of an archive, in order -/
def archiveBlocks : Archive → List (List Block)
  | [] => []
  | .tomb _ _ :: rest => archiveBlocks rest
  | .tsm _ _ bs :: rest => bs :: archiveBlocks rest

/-- Import keeps the archive's order: the imported files carry, in order, the
    block lists of the `.tsm` entries -/
theorem importFiles_blocks (fs : List TFile) (n : Nat) (a : Archive) :
    (importFiles fs n a).map (·.blocks) = fs.map (·.blocks) ++ archiveBlocks a := by
  induction a generalizing fs n with
  | nil => simp [importFiles, archiveBlocks]
  | cons e rest ih =>
    cases e with
    | tomb g q => simp [importFiles, archiveBlocks, ih]
    | tsm g q bs => simp [importFiles, archiveBlocks, ih]

theorem importFiles_tombs (fs : List TFile) (n : Nat) (a : Archive) (h : ∀ f ∈ fs, f.tombs = []) :
    ∀ f ∈ importFiles fs n a, f.tombs = [] := by
  induction a generalizing fs n with
  | nil => simpa [importFiles] using h
  | cons e rest ih =>
    cases e with
    | tomb g q => simpa [importFiles] using ih fs n h
    | tsm g q bs =>
      simp only [importFiles]
      apply ih
      intro f hf
      rcases List.mem_append.mp hf with hf | hf
      · exact h f hf
      · simp at hf; subst hf; rfl

/-- reading depends on the files only through their block lists when there are no tombstones -/
theorem filesLookupRaw_congr (fs gs : List TFile) (h : fs.map (·.blocks) = gs.map (·.blocks)) (k : Key) (t : TS) :
    filesLookupRaw fs k t = filesLookupRaw gs k t := by
  induction fs generalizing gs with
  | nil => cases gs <;> simp_all [filesLookupRaw]
  | cons f fs ih =>
    cases gs with
    | nil => simp at h
    | cons g gs =>
      simp at h
      simp [filesLookupRaw, TFile.lookupRaw, h.1, ih gs h.2]

theorem archiveBlocks_backup_none (fs : List TFile) :
    archiveBlocks (backupEntries none fs) = fs.map (·.blocks) := by
  induction fs with
  | nil => rfl
  | cons f fs ih =>
    rw [backupEntries_cons]
    cases hm : f.tombM <;> simp [MTime.after, archiveBlocks, ih]

end Influx.Backup
