/-
  Lemmas.TenantInv — the invariant of the tenant store model and its preservation
  by every operation (helper lemmas for Props.C30).
-/
import Influx.Lemmas.TenantKV

namespace Influx.Tenant
open KV

/-- an index bucket `idx` (key ↦ id) agrees with a record bucket `recs` (id ↦ record) under the
    key function `key`: every entry points to a record with that key, every record is entered -/
structure IdxOK {κ ρ : Type} [DecidableEq κ] (key : ρ → κ) (recs : List (Nat × ρ)) (idx : List (κ × Nat)) : Prop where
  sound : ∀ k id, get idx k = some id → ∃ r, get recs id = some r ∧ key r = k
  complete : ∀ id r, get recs id = some r → get idx (key r) = some id

variable {κ ρ : Type} [DecidableEq κ] {key : ρ → κ} {recs : List (Nat × ρ)} {idx : List (κ × Nat)}

/-- keys are unique among records -/
theorem IdxOK.unique (h : IdxOK key recs idx) {i j : Nat} {r r' : ρ}
    (hi : get recs i = some r) (hj : get recs j = some r') (e : key r = key r') : i = j := by
  have a := h.complete i r hi
  have b := h.complete j r' hj
  rw [e] at a; rw [a] at b; exact Option.some.inj b

theorem IdxOK.insert (h : IdxOK key recs idx) {id : Nat} {r : ρ}
    (fresh : get recs id = none) (free : get idx (key r) = none) :
    IdxOK key (put recs id r) (put idx (key r) id) := by
  constructor
  · intro k i hk
    rw [get_put] at hk
    by_cases e : key r = k
    · simp [e] at hk; subst hk; exact ⟨r, by simp, e⟩
    · simp [e] at hk
      obtain ⟨r', hr', hk'⟩ := h.sound k i hk
      have : id ≠ i := by intro c; subst c; rw [fresh] at hr'; cases hr'
      exact ⟨r', by rw [get_put_ne _ _ this]; exact hr', hk'⟩
  · intro i r' hr'
    rw [get_put] at hr'
    by_cases e : id = i
    · simp [e] at hr'; subst hr'; subst e; simp
    · simp [e] at hr'
      have hc := h.complete i r' hr'
      have : key r ≠ key r' := by intro c; rw [c] at free; rw [free] at hc; cases hc
      rw [get_put_ne _ _ this]; exact hc

theorem IdxOK.remove (h : IdxOK key recs idx) {id : Nat} {r : ρ} (hr : get recs id = some r) :
    IdxOK key (del recs id) (del idx (key r)) := by
  constructor
  · intro k i hk
    rw [get_del] at hk
    by_cases e : key r = k
    · simp [e] at hk
    · simp [e] at hk
      obtain ⟨r', hr', hk'⟩ := h.sound k i hk
      have : id ≠ i := by intro c; subst c; rw [hr] at hr'; cases hr'; exact e hk'
      exact ⟨r', by rw [get_del_ne _ this]; exact hr', hk'⟩
  · intro i r' hr'
    rw [get_del] at hr'
    by_cases e : id = i
    · simp [e] at hr'
    · simp [e] at hr'
      have : key r ≠ key r' := fun c => e (h.unique hr hr' c)
      rw [get_del_ne _ this]; exact h.complete i r' hr'

theorem IdxOK.rekey (h : IdxOK key recs idx) {id : Nat} {old new : ρ} (hr : get recs id = some old)
    (free : get idx (key new) = none) :
    IdxOK key (put recs id new) (put (del idx (key old)) (key new) id) := by
  have h1 := h.remove hr
  have fresh : get (del recs id) id = none := by simp
  have free' : get (del idx (key old)) (key new) = none := by
    rw [get_del]; split <;> simp [free]
  have h2 := h1.insert (r := new) fresh free'
  constructor
  · intro k i hk
    obtain ⟨r, hr', hk'⟩ := h2.sound k i hk
    refine ⟨r, ?_, hk'⟩
    rw [get_put] at hr' ⊢; rw [get_del] at hr'; split <;> simp_all
  · intro i r hr'
    apply h2.complete
    rw [get_put] at hr' ⊢; rw [get_del]; split <;> simp_all

/-- The invariant: the three name indexes agree with their record buckets and no kv bucket
    holds a key twice. -/
structure Inv (s : State) : Prop where
  org : IdxOK orgKey s.orgs s.orgIdx
  user : IdxOK (fun n : String => n) s.users s.userIdx
  bkt : IdxOK (fun b : BucketRec => (b.org, b.name)) s.bkts s.bktIdx
  wfOrgs : WF s.orgs
  wfOrgIdx : WF s.orgIdx
  wfBkts : WF s.bkts
  wfBktIdx : WF s.bktIdx
  wfUsers : WF s.users
  wfUserIdx : WF s.userIdx
  wfUrms : WF s.urms
  wfUrmIdx : WF s.urmIdx

theorem init_inv : Inv init := by
  constructor <;> first | exact wf_nil | (constructor <;> intro _ _ h <;> simp [init] at h)

/-- two states with the same tenant name tables -/
def SameNames (s t : State) : Prop :=
  t.orgs = s.orgs ∧ t.orgIdx = s.orgIdx ∧ t.bkts = s.bkts ∧ t.bktIdx = s.bktIdx ∧
  t.users = s.users ∧ t.userIdx = s.userIdx

theorem Inv.of_same {s t : State} (h : Inv s) (e : SameNames s t) (w1 : WF t.urms) (w2 : WF t.urmIdx) : Inv t := by
  obtain ⟨e1, e2, e3, e4, e5, e6⟩ := e
  constructor
  · rw [e1, e2]; exact h.org
  · rw [e5, e6]; exact h.user
  · rw [e3, e4]; exact h.bkt
  · rw [e1]; exact h.wfOrgs
  · rw [e2]; exact h.wfOrgIdx
  · rw [e3]; exact h.wfBkts
  · rw [e4]; exact h.wfBktIdx
  · rw [e5]; exact h.wfUsers
  · rw [e6]; exact h.wfUserIdx
  · exact w1
  · exact w2

theorem deleteURMRaw_inv {s : State} (h : Inv s) (k : Nat × Nat) : Inv (deleteURMRaw s k) :=
  h.of_same ⟨rfl, rfl, rfl, rfl, rfl, rfl⟩ (wf_del h.wfUrms _) (wf_del h.wfUrmIdx _)

theorem foldl_deleteURMRaw_inv (l : List (Nat × Nat)) {s : State} (h : Inv s) : Inv (l.foldl deleteURMRaw s) := by
  induction l generalizing s with
  | nil => exact h
  | cons k l ih => exact ih (deleteURMRaw_inv h k)

theorem removeResourceRelations_inv {s : State} (h : Inv s) (r : Nat) : Inv (removeResourceRelations s r) :=
  foldl_deleteURMRaw_inv _ h

theorem createURM_inv {s : State} (h : Inv s) (res user : Nat) (r : UrmRec) : Inv (createURM s res user r).1 := by
  unfold createURM
  repeat' split
  all_goals first
    | exact h
    | exact h.of_same ⟨rfl, rfl, rfl, rfl, rfl, rfl⟩ (wf_put h.wfUrms _ _) (wf_put h.wfUrmIdx _ _)

theorem deleteURM_inv {s : State} (h : Inv s) (res user : Nat) : Inv (deleteURM s res user).1 := by
  unfold deleteURM
  repeat' split
  all_goals first
    | exact h
    | exact deleteURMRaw_inv h _


theorem genSafe_ok {used : Nat → Bool} {fuel next id n' : Nat}
    (h : genSafe used fuel next = (.ok id, n')) : used id = false ∧ id ≠ 0 := by
  induction fuel generalizing next with
  | zero => simp [genSafe] at h
  | succ f ih =>
    unfold genSafe at h
    split at h
    · simp at h
    · split at h
      · exact ih h
      · rename_i h0 hu
        simp only [Prod.mk.injEq, Except.ok.injEq] at h
        obtain ⟨rfl, _⟩ := h
        exact ⟨by simpa using hu, h0⟩

theorem has_false_iff {κ ν : Type} [DecidableEq κ] (m : List (κ × ν)) (k : κ) : has m k = false ↔ get m k = none := by
  simp [has_eq]

theorem createOrgStore_inv {s : State} (h : Inv s) (name : String) : Inv (createOrgStore s name).1 := by
  unfold createOrgStore
  have hs : Inv { s with nextOrg := (genSafe (has s.orgs) maxIDGenerationN s.nextOrg).2 } :=
    { h with }
  generalize hg : genSafe (has s.orgs) maxIDGenerationN s.nextOrg = g at hs ⊢
  obtain ⟨r, n'⟩ := g
  cases r with
  | error e => exact hs
  | ok id =>
    have ⟨hu, _⟩ := genSafe_ok hg
    simp only
    split
    · exact hs
    · split
      · exact hs
      · rename_i hk hfree
        exact { hs with
          org := h.org.insert ((has_false_iff _ _).mp hu) ((has_false_iff _ _).mp (by simpa using hfree))
          wfOrgs := wf_put h.wfOrgs _ _
          wfOrgIdx := wf_put h.wfOrgIdx _ _ }

theorem createBucketStore_inv {s : State} (h : Inv s) (org : Nat) (name : String) (sys : Bool) :
    Inv (createBucketStore s org name sys).1 := by
  unfold createBucketStore
  have hs : Inv { s with nextBkt := (genSafe (has s.bkts) maxIDGenerationN s.nextBkt).2 } :=
    { h with }
  generalize hg : genSafe (has s.bkts) maxIDGenerationN s.nextBkt = g at hs ⊢
  obtain ⟨r, n'⟩ := g
  cases r with
  | error e => exact hs
  | ok id =>
    have ⟨hu, _⟩ := genSafe_ok hg
    simp only
    split
    · exact hs
    · rename_i hfree
      exact { hs with
        bkt := h.bkt.insert (r := ⟨org, name, sys⟩) ((has_false_iff _ _).mp hu)
          ((has_false_iff _ _).mp (by simpa using hfree))
        wfBkts := wf_put h.wfBkts _ _
        wfBktIdx := wf_put h.wfBktIdx _ _ }

theorem createBucket_inv {s : State} (h : Inv s) (org : Nat) (name : String) (sys : Bool) :
    Inv (createBucket s org name sys).1 := by
  unfold createBucket
  repeat' split
  all_goals first
    | exact h
    | exact createBucketStore_inv h _ _ _

theorem createOrganization_inv {s : State} (h : Inv s) (name : String) (u : Nat) :
    Inv (createOrganization s name u).1 := by
  unfold createOrganization
  have h1 := createOrgStore_inv h name
  split
  · rename_i s1 e he; rw [he] at h1; exact h1
  · rename_i s1 id he; rw [he] at h1
    have h2 := createBucket_inv h1 id "_tasks" true
    split
    · rename_i s2 e he2; rw [he2] at h2; exact h2
    · rename_i s2 x he2; rw [he2] at h2
      have h3 := createBucket_inv h2 id "_monitoring" true
      split
      · rename_i s3 e he3; rw [he3] at h3; exact h3
      · rename_i s3 y he3; rw [he3] at h3
        split
        · exact h3
        · have h4 := createURM_inv h3 id u ⟨true, true⟩
          split
          · rename_i s4 e he4; rw [he4] at h4; exact h4
          · rename_i s4 z he4; rw [he4] at h4; exact h4

theorem updateOrganization_inv {s : State} (h : Inv s) (id : Nat) (name : Option String) :
    Inv (updateOrganization s id name).1 := by
  unfold updateOrganization
  repeat' split
  all_goals first
    | exact h
    | skip
  rename_i old hold _ n _ _ hfree
  exact { h with
    org := h.org.rekey hold ((has_false_iff _ _).mp (by simpa using hfree))
    wfOrgs := wf_put h.wfOrgs _ _
    wfOrgIdx := wf_put (wf_del h.wfOrgIdx _) _ _ }

theorem deleteOrgStore_inv {s : State} (h : Inv s) (id : Nat) : Inv (deleteOrgStore s id).1 := by
  unfold deleteOrgStore
  split
  · exact h
  · rename_i n hn
    exact { h with org := h.org.remove hn, wfOrgs := wf_del h.wfOrgs _, wfOrgIdx := wf_del h.wfOrgIdx _ }

theorem deleteBucket_inv {s : State} (h : Inv s) (id : Nat) (internal : Bool) :
    Inv (deleteBucket s id internal).1 := by
  unfold deleteBucket
  repeat' split
  all_goals first
    | exact h
    | skip
  rename_i b hb _
  apply removeResourceRelations_inv
  exact { h with bkt := h.bkt.remove hb, wfBkts := wf_del h.wfBkts _, wfBktIdx := wf_del h.wfBktIdx _ }

theorem updateBucket_inv {s : State} (h : Inv s) (id : Nat) (name : Option String) :
    Inv (updateBucket s id name).1 := by
  unfold updateBucket
  repeat' split
  all_goals first
    | exact h
    | skip
  rename_i b hb _ n _ _ _ hfree
  exact { h with
    bkt := h.bkt.rekey (new := { b with name := n }) hb ((has_false_iff _ _).mp (by simpa using hfree))
    wfBkts := wf_put h.wfBkts _ _
    wfBktIdx := wf_put (wf_del h.wfBktIdx _) _ _ }

theorem deleteBuckets_inv (l : List Nat) {s : State} (h : Inv s) : Inv (deleteBuckets s l).1 := by
  induction l generalizing s with
  | nil => exact h
  | cons b bs ih =>
    unfold deleteBuckets
    have h1 := deleteBucket_inv h b true
    split
    · rename_i s1 e he; rw [he] at h1; exact h1
    · rename_i s1 x he; rw [he] at h1; exact ih h1

theorem deleteOrganization_inv {s : State} (h : Inv s) (id : Nat) : Inv (deleteOrganization s id).1 := by
  unfold deleteOrganization
  split
  · exact h
  · simp only
    split
    · exact h
    · have h1 := deleteBuckets_inv (bucketIdsOfOrg s id) h
      split
      · rename_i s1 e he; rw [he] at h1; exact h1
      · rename_i s1 x he; rw [he] at h1
        have h2 := deleteOrgStore_inv h1 id
        split
        · rename_i s2 e he2; rw [he2] at h2; exact h2
        · rename_i s2 y he2; rw [he2] at h2
          exact removeResourceRelations_inv h2 id

theorem createUser_inv {s : State} (h : Inv s) (name : String) (id : Nat) : Inv (createUser s name id).1 := by
  unfold createUser
  split
  rename_i id' s' hp
  have hs : Inv s' ∧ s'.users = s.users ∧ s'.userIdx = s.userIdx := by
    split at hp <;> simp only [Prod.mk.injEq] at hp <;> obtain ⟨_, rfl⟩ := hp
    · exact ⟨{ h with }, rfl, rfl⟩
    · exact ⟨h, rfl, rfl⟩
  obtain ⟨hs, _, _⟩ := hs
  repeat' split
  all_goals first
    | exact hs
    | skip
  rename_i _ hn hi
  exact { hs with
    user := hs.user.insert (key := fun n : String => n) ((has_false_iff _ _).mp (by simpa using hi))
      ((has_false_iff _ _).mp (by simpa using hn))
    wfUsers := wf_put hs.wfUsers _ _
    wfUserIdx := wf_put hs.wfUserIdx _ _ }

theorem updateUser_inv {s : State} (h : Inv s) (id : Nat) (name : Option String) :
    Inv (updateUser s id name).1 := by
  unfold updateUser
  repeat' split
  all_goals first
    | exact h
    | skip
  rename_i old hold _ n _ hfree
  exact { h with
    user := h.user.rekey (key := fun n : String => n) hold ((has_false_iff _ _).mp (by simpa using hfree))
    wfUsers := wf_put h.wfUsers _ _
    wfUserIdx := wf_put (wf_del h.wfUserIdx _) _ _ }

theorem deleteUser_inv {s : State} (h : Inv s) (id : Nat) : Inv (deleteUser s id).1 := by
  unfold deleteUser
  repeat' split
  all_goals first
    | exact h
    | skip
  rename_i n hn
  apply foldl_deleteURMRaw_inv
  exact { h with user := h.user.remove (key := fun n : String => n) hn,
                 wfUsers := wf_del h.wfUsers _, wfUserIdx := wf_del h.wfUserIdx _ }

theorem step_inv {s : State} (h : Inv s) (op : Op) : Inv (step s op).1 := by
  cases op with
  | co n u => exact createOrganization_inv h n u
  | uo id n => exact updateOrganization_inv h id n
  | dO id => exact deleteOrganization_inv h id
  | cb o n sys => exact createBucket_inv h o n sys
  | ub id n => exact updateBucket_inv h id n
  | db id => exact deleteBucket_inv h id false
  | cu n id => exact createUser_inv h n id
  | uu id n => exact updateUser_inv h id n
  | du id => exact deleteUser_inv h id
  | cm r u a b => exact createURM_inv h r u _
  | dm r u => exact deleteURM_inv h r u
  | fo n => exact h
  | fb o n => exact h
  | fu n => exact h
  | lb o => exact h
  | idgen g n => cases g <;> exact { h with }
  | dump => exact h

theorem exec_inv (ops : List Op) {s : State} (h : Inv s) : Inv (exec s ops) := by
  induction ops generalizing s with
  | nil => exact h
  | cons op ops ih => exact ih (step_inv h op)


end Influx.Tenant
