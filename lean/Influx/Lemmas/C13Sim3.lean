/-
  Lemmas.C13Sim3 — the step simulation for create / delete / lookup / reopen / index
  compaction histories, and its lift to traces.
-/
import Influx.Lemmas.C13Sim2

namespace Influx.C13
open Influx.SF Influx.Spec.C13

structure Rel (pf : Bytes → Nat) (ess : Nat → List Entry) (s : SFile) (sp : SpecState) : Prop where
  parts : PartsInv ess s.parts
  r0 : Rel0 pf ess sp
  seen : ∀ k ∈ s.seen, KeyOK pf k

/-- the ops covered: keys arrive with the partition their hash selects; crash ops and the
    offline segment compaction are excluded (see `C13_crash_segment`, findings) -/
def Op.WF (pf : Bytes → Nat) : Op → Prop
  | .create keys => ∀ k ∈ keys, KeyOK pf k
  | .delKey k => KeyOK pf k
  | .id k => KeyOK pf k
  | .torn .. => False
  | .tornDel .. => False
  | .segCompact => False
  | .smallSeg _ => False
  | .hdrSeg _ => False
  | _ => True

/-- ids stay far below 2^64 (the id sequence is a uint64 in the code) -/
def Obs.small : Obs → Prop
  | .ids xs => ∀ x ∈ xs, x < 2 ^ 63
  | _ => True

theorem see_ok (pf : Bytes → Nat) (s : SFile) (ks : List (Bytes × Nat)) (hs : ∀ k ∈ s.seen, KeyOK pf k)
    (hk : ∀ k ∈ ks, KeyOK pf k) : ∀ k ∈ (s.see ks).seen, KeyOK pf k := by
  unfold SFile.see
  simp only
  generalize s.seen = acc at hs
  induction ks generalizing acc with
  | nil => exact hs
  | cons x xs ih =>
    simp only [List.foldl_cons]
    refine ih (fun k hk' => hk k (by simp [hk'])) _ ?_
    intro k hk'
    by_cases hc : (acc.any fun y => y.1 == x.1) = true
    · rw [if_pos hc] at hk'; exact hs k hk'
    · rw [if_neg hc] at hk'
      rcases List.mem_append.mp hk' with h1 | h1
      · exact hs k h1
      · have : k = x := by simpa using h1
        subst this; exact hk k (by simp)

theorem delete_seen (s : SFile) (id : Nat) : (s.delete id).seen = s.seen := by
  unfold SFile.delete SFile.modPart
  cases s.parts[SFile.idPart id]? <;> rfl

theorem rel0_delete {pf : Bytes → Nat} {ess ess' : Nat → List Entry} {sp : SpecState} {l : List (Bytes × Nat)}
    (hr : Rel0 pf ess sp) (id : Nat)
    (hlive : ∀ k' id', GLive pf ess' k' id' ↔ GLive pf ess k' id' ∧ id' ≠ id)
    (hiss : ∀ x, GIssued ess x → GIssued ess' x)
    (hl : ∀ k' id', (k', id') ∈ l ↔ (k', id') ∈ sp.live ∧ id' ≠ id) :
    Rel0 pf ess' { sp with live := l } :=
  ⟨fun k' id' => by simp only; rw [hl, hlive, hr.live], fun x hx => hiss x (hr.used x hx), hr.c1, hr.c2, hr.c3, hr.c4⟩

theorem step_sim (pf : Bytes → Nat) (ess : Nat → List Entry) (s : SFile) (sp : SpecState) (op : Op)
    (hR : Rel pf ess s sp) (hwf : Op.WF pf op) (hsm : Obs.small (step s op).2) :
    ∃ ess', (check sp op (step s op).2).2 = none ∧
      Rel pf ess' (step s op).1 (check sp op (step s op).2).1 := by
  have h := hR.parts
  have hr := hR.r0
  cases op with
  | create keys =>
    simp only [Op.WF] at hwf
    simp only [step, SFile.create, SFile.createRaw] at hsm ⊢
    simp only [Obs.small] at hsm
    obtain ⟨ess', sp', h', ho, hr', hlen⟩ := createKeys_sim keys s.parts ess sp h hr hwf hsm
    refine ⟨ess', ?_, ?_⟩
    · simp [check, hlen, ho]
    · simp only [check, hlen, ne_eq, not_true_eq_false, if_false, ho]
      refine ⟨?_, hr', ?_⟩
      · exact partsInv_zipWith h.len h'
      · exact see_ok pf _ keys hR.seen hwf
  | delete id =>
    obtain ⟨ess', h', hlive, hiss⟩ := delete_parts (pf := pf) h id
    refine ⟨ess', by simp [step, check], ?_⟩
    simp only [step, check]
    refine ⟨by rw [delete_eq_parts]; exact h', ?_, by rw [delete_seen]; exact hR.seen⟩
    apply rel0_delete hr id hlive hiss
    intro k' id'
    simp [List.mem_filter]
  | delKey k =>
    simp only [Op.WF] at hwf
    obtain ⟨p, hp, _, _, _⟩ := h.get hwf.lt
    have hfind : s.findID k = p.findID k.1 := by simp [SFile.findID, hp]
    have hobs := observe_lookup h hr hwf hp
    obtain ⟨h1, h2⟩ := findID_global h hwf hp
    simp only [step, check, hfind, hobs]
    by_cases h0 : p.findID k.1 = 0
    · -- nothing to delete
      refine ⟨ess, trivial, ?_⟩
      simp only [h0, ne_eq, not_true_eq_false, if_false]
      refine ⟨h, ?_, hR.seen⟩
      refine ⟨?_, hr.used, hr.c1, hr.c2, hr.c3, hr.c4⟩
      intro k' id'
      simp only [List.mem_filter, ne_eq, decide_not, Bool.not_eq_eq_eq_not, Bool.not_true,
        decide_eq_false_iff_not]
      rw [hr.live]
      constructor
      · exact fun hh => hh.1
      · intro hg
        refine ⟨hg, fun hk' => ?_⟩
        subst hk'
        exact h2 h0 id' hg
    · obtain ⟨ess', h', hlive, hiss⟩ := delete_parts (pf := pf) h (p.findID k.1)
      refine ⟨ess', trivial, ?_⟩
      simp only [h0, ne_eq, not_false_eq_true, if_true]
      refine ⟨by rw [delete_eq_parts]; exact h', ?_, by rw [delete_seen]; exact hR.seen⟩
      apply rel0_delete hr (p.findID k.1) hlive hiss
      intro k' id'
      simp only [List.mem_filter, ne_eq, decide_not, Bool.not_eq_eq_eq_not, Bool.not_true,
        decide_eq_false_iff_not]
      have hg := h1 h0
      constructor
      · rintro ⟨hm, hne⟩
        refine ⟨hm, fun hid => ?_⟩
        subst hid
        exact hne (glive_unique_key h ((hr.live k' _).mp hm) hg)
      · rintro ⟨hm, hne⟩
        refine ⟨hm, fun hk' => ?_⟩
        subst hk'
        exact hne (glive_unique_id h ((hr.live _ id').mp hm) hg)
  | id k =>
    simp only [Op.WF] at hwf
    obtain ⟨p, hp, _, _, _⟩ := h.get hwf.lt
    have hfind : s.findID k = p.findID k.1 := by simp [SFile.findID, hp]
    have hobs := observe_lookup h hr hwf hp
    refine ⟨ess, ?_, ?_⟩
    · simp only [step, check, hfind, hobs]
    · simp only [step, check, hfind, hobs]; exact hR
  | key id =>
    refine ⟨ess, ?_, ?_⟩
    · simp only [step, check, SFile.seriesKey]
      exact observeKey_ok h hr id
    · simp only [step, check]; exact hR
  | reopen =>
    refine ⟨ess, by simp [step, check], ?_⟩
    simp only [step, check, SFile.reopen]
    exact ⟨reopen_parts h _, hr, hR.seen⟩
  | compact i =>
    refine ⟨ess, by simp [step, check], ?_⟩
    simp only [step, check, SFile.compact, SFile.modPart]
    have := compact_parts h i
    cases hp : s.parts[i]? with
    | none => simp only [hp] at this ⊢; exact hR
    | some p => simp only [hp] at this ⊢; exact ⟨this, hr, hR.seen⟩
  | threshold n =>
    refine ⟨ess, by simp [step, check], ?_⟩
    simp only [step, check, SFile.setThreshold]
    exact ⟨threshold_parts h n, hr, hR.seen⟩
  | segCompact => cases hwf
  | torn k cut => cases hwf
  | tornDel id cut => cases hwf
  | smallSeg id => cases hwf
  | hdrSeg i => cases hwf
  | allIDs =>
    have := observeAll_lookups s h hr s.seen hR.seen
    refine ⟨ess, ?_, ?_⟩
    · simp only [step, check]; rw [this]
    · simp only [step, check]; rw [this]; exact hR
  | allKeys =>
    refine ⟨ess, ?_, ?_⟩
    · simp only [step, check]
      have : (List.filterMap (fun x : Nat × Option Bytes => observeKey sp x.1 x.2)
          (s.issued.map fun id => (id, s.seriesKey id))) = [] := by
        rw [List.filterMap_eq_nil_iff]
        intro x hx
        obtain ⟨id, _, rfl⟩ := List.mem_map.mp hx
        simp only [SFile.seriesKey]
        exact observeKey_ok h hr id
      simp [this]
    · simp only [step, check]; exact hR
  | state i =>
    refine ⟨ess, ?_, ?_⟩
    · simp only [step]; split <;> simp [check]
    · simp only [step]; split <;> (simp only [check]; exact hR)
  | dump i =>
    refine ⟨ess, ?_, ?_⟩
    · simp only [step]; split <;> simp [check]
    · simp only [step]; split <;> (simp only [check]; exact hR)

end Influx.C13
