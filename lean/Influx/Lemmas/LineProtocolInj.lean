/-
  `unescapeTag` is injective on scanned tag keys: re-escaping gives the key back.
-/
import Influx.Lemmas.LineProtocolShape

namespace Influx.LP

def isC (c : Nat) : Nat → Bool := fun b => b == c

theorem NoBare_false_cons (D : Nat → Bool) (a : Nat) (r : Bytes) (h : NoBare D false (a :: r)) : D a = false := by
  cases hd : D a with
  | false => rfl
  | true => have := h.1 hd; cases this

/-- `NoBare` with an irrelevant look-behind: the first byte is not in `D` -/
theorem NoBare_any_pbs (D : Nat → Bool) (pbs pbs' : Bool) (b : Nat) (r : Bytes) (hb : D b = false)
    (h : NoBare D pbs (b :: r)) : NoBare D pbs' (b :: r) :=
  ⟨fun hd => by (rw [hb] at hd; cases hd), h.2⟩

/-- one un-escaping pass is undone by escaping that byte again -/
theorem escBy_replace21 (c : Nat) (hc : c ≠ cBS) (k : Bytes) (h : NoBare (isC c) false k) :
    escBy (isC c) (replace21 cBS c c k) = k := by
  fun_induction replace21 cBS c c k with
  | case1 => rfl
  | case2 b =>
    have := NoBare_false_cons _ _ _ h
    simp [escBy_cons, this]
  | case3 a b rest hab ih =>
    obtain ⟨rfl, rfl⟩ := hab
    have hrest : NoBare (isC b) false rest := by
      have h2 := h.2.2
      have : (b == cBS) = false := by simpa using hc
      rw [this] at h2; exact h2
    have hbb : isC b b = true := by simp [isC]
    have h92 : isC b cBS = false := by simp [isC]; exact fun e => hc e.symm
    simp only [escBy_cons, hbb, h92, if_true, Bool.false_eq_true, if_false]
    rw [ih hrest]
  | case4 a b rest hab ih =>
    have ha := NoBare_false_cons _ _ _ h
    have hbr : NoBare (isC c) false (b :: rest) := by
      by_cases ha92 : a = cBS
      · have hb : isC c b = false := by
          simp only [isC, beq_eq_false_iff_ne]
          intro e; exact hab ⟨ha92, e⟩
        exact NoBare_any_pbs _ _ _ _ _ hb h.2
      · have : (a == cBS) = false := by simpa using ha92
        have h2 := h.2
        rw [this] at h2; exact h2
    simp only [escBy_cons, ha, Bool.false_eq_true, if_false]
    rw [ih hbr]

/-- …and keeps the other delimiters escaped -/
theorem NoBare_replace21 (c c' : Nat) (hcc : c' ≠ c) (k : Bytes) (pbs : Bool)
    (h : NoBare (isC c') pbs k) : NoBare (isC c') pbs (replace21 cBS c c k) := by
  fun_induction replace21 cBS c c k generalizing pbs with
  | case1 => trivial
  | case2 b => exact h
  | case3 a b rest hab ih =>
    obtain ⟨rfl, rfl⟩ := hab
    have hb : isC c' b = false := by simp [isC]; exact fun e => hcc e.symm
    refine ⟨fun hd => by (rw [hb] at hd; cases hd), ?_⟩
    exact ih _ h.2.2
  | case4 a b rest hab ih =>
    exact ⟨h.1, ih _ h.2⟩

theorem escBy_isC_eq (c : Nat) (hc : c ≠ cBS) (s : Bytes) : escBy (isC c) s = replace12 c cBS c s := by
  have h := replace12_escBy (fun _ => false) c hc rfl s
  rw [escBy_false] at h
  rw [h]
  apply escBy_congr
  intro b; simp [isC]

theorem NoBare_split (k : Bytes) (pbs : Bool) (h : NoBare isTagSpecial pbs k) :
    NoBare (isC cComma) pbs k ∧ NoBare (isC cSpace) pbs k ∧ NoBare (isC cEq) pbs k :=
  ⟨NoBare_mono _ _ (by intro b hb; simp [isC] at hb; simp [isTagSpecial, hb]) _ _ h,
   NoBare_mono _ _ (by intro b hb; simp [isC] at hb; simp [isTagSpecial, hb]) _ _ h,
   NoBare_mono _ _ (by intro b hb; simp [isC] at hb; simp [isTagSpecial, hb]) _ _ h⟩

theorem noBare_no_bs (D : Nat → Bool) (k : Bytes) (h : NoBare D false k) (hno : cBS ∉ k) :
    ∀ b ∈ k, D b = false := by
  induction k with
  | nil => intro b hb; cases hb
  | cons a r ih =>
    have ha92 : a ≠ cBS := fun e => hno (by simp [e])
    have h2 := h.2
    have : (a == cBS) = false := by simpa using ha92
    rw [this] at h2
    intro b hb
    rcases List.mem_cons.mp hb with rfl | hb'
    · exact NoBare_false_cons _ _ _ h
    · exact ih h2 (fun hm => hno (by simp [hm])) b hb'

/-- re-escaping an un-escaped scanned key gives the key back -/
theorem escBy_unescapeTag (k : Bytes) (h : NoBare isTagSpecial false k) :
    escBy isTagSpecial (unescapeTag k) = k := by
  obtain ⟨h1, h2, h3⟩ := NoBare_split k false h
  unfold unescapeTag unescapeWith
  split
  · next hno =>
    -- no backslash: no delimiter either
    exact escBy_id _ _ (noBare_no_bs isTagSpecial k h (by simpa using hno))
  · unfold tagEscapeCodes
    simp only [List.foldl_cons, List.foldl_nil, replace21_guard]
    -- three passes
    have e1 := escBy_replace21 cComma (by decide) k h1
    have n2 := NoBare_replace21 cComma cSpace (by decide) k false h2
    have n3 := NoBare_replace21 cComma cEq (by decide) k false h3
    have e2 := escBy_replace21 cSpace (by decide) _ n2
    have n3' := NoBare_replace21 cSpace cEq (by decide) _ false n3
    have e3 := escBy_replace21 cEq (by decide) _ n3'
    generalize replace21 cBS cEq cEq (replace21 cBS cSpace cSpace (replace21 cBS cComma cComma k)) = k3 at e3 ⊢
    rw [← e1, ← e2, ← e3]
    rw [escBy_isC_eq cSpace (by decide), escBy_isC_eq cComma (by decide)]
    rw [replace12_escBy (isC cEq) cSpace (by decide) (by decide),
      replace12_escBy _ cComma (by decide) (by decide)]
    apply escBy_congr
    intro b
    simp only [isTagSpecial, isC]
    cases (b == cSpace) <;> cases (b == cComma) <;> cases (b == cEq) <;> rfl

theorem unescapeTag_injective (k1 k2 : Bytes) (h1 : NoBare isTagSpecial false k1)
    (h2 : NoBare isTagSpecial false k2) (h : unescapeTag k1 = unescapeTag k2) : k1 = k2 := by
  rw [← escBy_unescapeTag k1 h1, ← escBy_unescapeTag k2 h2, h]

end Influx.LP
