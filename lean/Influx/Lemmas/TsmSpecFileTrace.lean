/-
  Lemmas.TsmSpecFileTrace — the statement checker accepts the whole model trace of
  writing a well-formed file, `WriteIndex`, `open`, and any sequence of index lookups.
-/
import Influx.Lemmas.TsmSpecLookup2

namespace Influx.Tsm
open Influx.Spec.C08 Influx.Generated.TsmLayout

def fileOps (kbs : List (Key × List Blk)) (qs : List Op) : List Op :=
  (flatWrites kbs).map wOp ++ ([.wi, .open_] ++ qs)

theorem runFrom_append (sp : SS) (i : Nat) (a b : List (Op × Ans)) :
    runFrom sp i (a ++ b) = runFrom (runFrom sp i a) (i + a.length) b := by
  induction a generalizing sp i with
  | nil => simp [runFrom]
  | cons x a ih =>
    obtain ⟨op, ans⟩ := x
    simp only [List.cons_append, runFrom_cons, ih, List.length_cons]
    congr 1; omega

theorem lookups_trace (c : List SKey) (kes : List KeyEntry) (hc : LCtx c kes) (qs : List Op)
    (hq : ∀ q ∈ qs, isLookup q = true) : ∀ (s : State) (sp : SS) (i : Nat) (r : Reader),
    s.rdr = some r → r.ix = mkIndex kes → SSt sp c → runFrom sp i (traceFrom s qs) = sp := by
  induction qs with
  | nil => intro s sp i r _ _ _; rfl
  | cons q qs ih =>
    intro s sp i r hr hix hs
    obtain ⟨h1, h2⟩ := lookup_step s sp i q (hq q List.mem_cons_self) c kes hc r hr hix hs
    simp only [traceFrom, runFrom_cons]
    rw [h1, h2]
    exact ih (fun x hx => hq x (List.mem_cons_of_mem _ hx)) s sp (i + 1) r hr hix hs

theorem flat_ok (kbs : List (Key × List Blk)) (h : WFW kbs) :
    ∀ p ∈ flatWrites kbs, p.1.length ≤ 65535 ∧ ∃ b0 rest, p.2.data = b0 :: rest ∧ b0 ≤ 4 := by
  intro p hp
  simp only [flatWrites, List.mem_flatMap, List.mem_map] at hp
  obtain ⟨kb, hkb, b, hb, rfl⟩ := hp
  have hw := (h.blks kb hkb).2.2 b hb
  refine ⟨(h.kne kb hkb).2, ?_⟩
  cases hd : b.data with
  | nil => exact absurd hd hw.ne
  | cons b0 rest => exact ⟨b0, rest, rfl, hw.typ b0 (by rw [hd]; rfl)⟩

theorem flatWrites_ne (kbs : List (Key × List Blk)) (hne : kbs ≠ []) (h : WFW kbs) : flatWrites kbs ≠ [] := by
  cases kbs with
  | nil => exact absurd rfl hne
  | cons kb kbs =>
    have := (h.blks kb List.mem_cons_self).1
    cases hb : kb.2 with
    | nil => exact absurd hb this
    | cons b bs => simp [flatWrites, hb]

theorem scontent_ne (pos : Nat) (kbs : List (Key × List Blk)) (hne : kbs ≠ []) : scontent pos kbs ≠ [] := by
  cases kbs with
  | nil => exact absurd rfl hne
  | cons kb kbs => obtain ⟨k, bs⟩ := kb; simp [scontent]

def spW (kbs : List (Key × List Blk)) : SS := { writes := ((flatWrites kbs).map toWrite).reverse }
def spI (kbs : List (Key × List Blk)) : SS :=
  { spW kbs with wdone := true, content := some (scontent 5 kbs),
                 emptyKey := (scontent 5 kbs).any (·.key.isEmpty), nontrivial := true }
def spO (kbs : List (Key × List Blk)) : SS := { spI kbs with opened := true }

/-- **the checker accepts the model** on: the writes of a file in the domain, WriteIndex,
    open, and any sequence of index lookups -/
theorem file_trace (crc : Bytes → Nat) (kbs : List (Key × List Blk)) (h : DOM kbs) (qs : List Op)
    (hq : ∀ q ∈ qs, isLookup q = true) : holdsOn (traceOf crc (fileOps kbs qs)) = true := by
  have hne := h.wff.ne
  obtain ⟨hansok, hwi⟩ := writeAll_serialise crc kbs h.wfw hne
  obtain ⟨hw1, hw2⟩ := writeAll_flat crc kbs
  -- the model through the writes
  have hm := model_writes (flatWrites kbs) (State.init crc) rfl (by
    intro a ha
    have : a ∈ (writeAll crc kbs).2 := by rw [hw2]; exact ha
    exact hansok a this)
  obtain ⟨hrun, htr⟩ := hm
  simp only [State.init] at hrun htr
  unfold holdsOn traceOf fileOps
  rw [run_eq_runFrom, traceFrom_append, runFrom_append]
  simp only [State.init]
  rw [htr, hrun, spec_writes (flatWrites kbs) (flat_ok kbs h.wfw) {} 0 rfl]
  rw [← hw1]
  -- WriteIndex
  generalize hn : (0 + ((flatWrites kbs).map fun p => (wOp p, Ans.ok)).length) = n
  have hstepwi : step { crc := crc, w := (writeAll crc kbs).1 } Op.wi =
      ({ crc := crc, w := (writeAll crc kbs).1, wdead := true, disk := some (serialise crc kbs) }, Ans.ok) := by
    simp [step, hwi, WAns.toAns]
  have hcontent : mkContent ((flatWrites kbs).map toWrite) = scontent 5 kbs :=
    mkContent_flat kbs (fun kb hkb => (h.wfw.blks kb hkb).1) h.wfw.keys_ne h.wfw.sorted
  have hwne : ((flatWrites kbs).map toWrite) ≠ [] := by
    intro e
    exact flatWrites_ne kbs hne h.wfw (List.map_eq_nil_iff.mp e)
  simp only [List.cons_append, List.nil_append, traceFrom, hstepwi, runFrom_cons]
  have hspwi : stepS { writes := ((flatWrites kbs).map toWrite).reverse ++ ([] : List Write) } n Op.wi Ans.ok = spI kbs := by
    simp only [stepS, List.append_nil, Bool.false_eq_true, if_false, List.reverse_reverse]
    have : ((flatWrites kbs).map toWrite).reverse.isEmpty = false := by
      cases hx : ((flatWrites kbs).map toWrite).reverse with
      | nil => exact absurd (List.reverse_eq_nil_iff.mp hx) hwne
      | cons a l => rfl
    simp only [this, Bool.false_eq_true, if_false, hcontent, domain_ok kbs h]
    rfl
  rw [hspwi]
  -- open
  have hparse : parseFile (serialise crc kbs) = .ok (layout 5 kbs) := parseFile_serialise crc kbs h.wff
  have hopen : step { crc := crc, w := (writeAll crc kbs).1, wdead := true, disk := some (serialise crc kbs) } Op.open_ =
      ({ crc := crc, w := (writeAll crc kbs).1, wdead := true, disk := some (serialise crc kbs),
         rdr := some (openReader none (layout 5 kbs)) }, Ans.ok) := by
    simp [step, doOpen, hparse]
  rw [hopen]
  simp only
  have hspopen : stepS (spI kbs) (n + 1) Op.open_ Ans.ok = spO kbs := by
    simp [stepS, Spec.C08.S.need, spI, spO, spW]
  rw [hspopen]
  -- the lookups
  have hctx : LCtx (scontent 5 kbs) (layout 5 kbs) :=
    ⟨scontent_layout 5 kbs, scontent_keys_sorted 5 kbs h.wfw.keys, by
      intro sk hsk
      obtain ⟨kb, hkb, p, _, hb⟩ := scontent_mem _ _ sk hsk
      rw [hb]
      have := (h.wfw.blks kb hkb).1
      cases hbs : kb.2 with
      | nil => exact absurd hbs this
      | cons b bs => simp [sblocks], scontent_ne 5 kbs hne, ?_⟩
  · have hix : (openReader none (layout 5 kbs)).ix = mkIndex (layout 5 kbs) := by
      simp [openReader, applyTombstones, tWalk]
    rw [lookups_trace (scontent 5 kbs) (layout 5 kbs) hctx qs hq _ _ _ _ rfl hix ⟨rfl, rfl, rfl, rfl, rfl⟩]
    rfl
  · -- the time side conditions of the domain
    refine ⟨?_, ?_, ?_, ?_⟩
    · intro sk hsk
      obtain ⟨kb, hkb, p, _, hb⟩ := scontent_mem _ _ sk hsk
      rw [hb]
      have := (h.wfw.blks kb hkb).1
      cases hbs : kb.2 with
      | nil => exact absurd hbs this
      | cons b bs => simp [sblocks]
    · intro sk hsk
      obtain ⟨kb, hkb, p, _, hb⟩ := scontent_mem _ _ sk hsk
      rw [hb]; exact sblocks_sorted p kb.2 (h.wfw.sorted kb hkb)
    · intro sk hsk
      obtain ⟨kb, hkb, p, _, hb⟩ := scontent_mem _ _ sk hsk
      rw [hb]
      apply List.Pairwise.imp _ (sblocks_maxmono p kb.2 (h.mono kb hkb))
      intro a b hab; simpa using hab
    · intro sk hsk sb hsb
      obtain ⟨kb, hkb, p, _, hb⟩ := scontent_mem _ _ sk hsk
      rw [hb] at hsb
      obtain ⟨b, hbm, h1, h2⟩ := sblocks_mem _ _ sb hsb
      have := (h.wff.kb kb hkb).blks b hbm
      unfold WFBlk inInt64 at this
      rw [h1, h2]
      exact ⟨this.1.1, this.1.2, this.2.1.1, this.2.1.2⟩

end Influx.Tsm
