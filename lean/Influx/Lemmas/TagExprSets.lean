/-
  Lemmas.TagExprSets — the two-pointer iterators of tsdb/index.go compute set
  union / intersection / difference on strictly ascending id lists, and keep
  them strictly ascending.
-/
import Influx.Model.TagExpr

namespace Influx.Model.TagExpr

/-- strictly ascending (what a `SeriesIDIterator` delivers). -/
abbrev Asc (l : List Nat) : Prop := List.Pairwise (· < ·) l

theorem ids_none : Itr.ids (none : Itr) = [] := rfl
theorem ids_some (l : List Nat) : Itr.ids (some l : Itr) = l := rfl

theorem Asc.head_lt {a : Nat} {l : List Nat} (h : Asc (a :: l)) : ∀ x ∈ l, a < x :=
  (List.pairwise_cons.mp h).1

theorem Asc.tail {a : Nat} {l : List Nat} (h : Asc (a :: l)) : Asc l :=
  (List.pairwise_cons.mp h).2

/-! #### union -/

theorem mem_union (a b : List Nat) (x : Nat) : x ∈ union a b ↔ x ∈ a ∨ x ∈ b := by
  fun_induction union a b with
  | case1 l => simp
  | case2 a as => simp
  | case3 a as b bs h ih => simp [ih]; grind
  | case4 a as b bs h1 h2 ih => simp [ih]; grind
  | case5 a as b bs h1 h2 ih =>
    have : a = b := by omega
    simp [ih]; grind

theorem asc_union {a b : List Nat} (ha : Asc a) (hb : Asc b) : Asc (union a b) := by
  fun_induction union a b with
  | case1 l => exact hb
  | case2 a as => exact ha
  | case3 a as b bs h ih =>
    refine List.pairwise_cons.mpr ⟨?_, ih ha.tail hb⟩
    intro x hx
    rcases (mem_union _ _ _).mp hx with hx | hx
    · exact ha.head_lt x hx
    · rcases List.mem_cons.mp hx with rfl | hx
      · exact h
      · exact Nat.lt_trans h (hb.head_lt x hx)
  | case4 a as b bs h1 h2 ih =>
    refine List.pairwise_cons.mpr ⟨?_, ih ha hb.tail⟩
    intro x hx
    rcases (mem_union _ _ _).mp hx with hx | hx
    · rcases List.mem_cons.mp hx with rfl | hx
      · exact h2
      · exact Nat.lt_trans h2 (ha.head_lt x hx)
    · exact hb.head_lt x hx
  | case5 a as b bs h1 h2 ih =>
    have hab : a = b := by omega
    refine List.pairwise_cons.mpr ⟨?_, ih ha.tail hb.tail⟩
    intro x hx
    rcases (mem_union _ _ _).mp hx with hx | hx
    · exact ha.head_lt x hx
    · exact hab ▸ hb.head_lt x hx

/-! #### intersection -/

theorem inter_sublist (a b : List Nat) : List.Sublist (inter a b) a := by
  fun_induction inter a b with
  | case1 => simp
  | case2 => simp
  | case3 a as b bs h ih => exact List.Sublist.cons _ ih
  | case4 a as b bs h1 h2 ih => exact ih
  | case5 a as b bs h1 h2 ih => exact List.Sublist.cons_cons _ ih

theorem asc_inter {a b : List Nat} (ha : Asc a) : Asc (inter a b) :=
  List.Pairwise.sublist (inter_sublist a b) ha

theorem mem_inter {a b : List Nat} (ha : Asc a) (hb : Asc b) (x : Nat) :
    x ∈ inter a b ↔ x ∈ a ∧ x ∈ b := by
  fun_induction inter a b with
  | case1 => simp
  | case2 => simp
  | case3 a as b bs h ih =>
    rw [ih ha.tail hb]
    have h1 := ha.head_lt
    have h2 := hb.head_lt
    constructor
    · rintro ⟨h3, h4⟩; exact ⟨List.mem_cons_of_mem _ h3, h4⟩
    · rintro ⟨h3, h4⟩
      rcases List.mem_cons.mp h3 with rfl | h3
      · rcases List.mem_cons.mp h4 with rfl | h4
        · omega
        · have := h2 _ h4; omega
      · exact ⟨h3, h4⟩
  | case4 a as b bs h1' h2' ih =>
    rw [ih ha hb.tail]
    have h1 := ha.head_lt
    have h2 := hb.head_lt
    constructor
    · rintro ⟨h3, h4⟩; exact ⟨h3, List.mem_cons_of_mem _ h4⟩
    · rintro ⟨h3, h4⟩
      rcases List.mem_cons.mp h4 with rfl | h4
      · rcases List.mem_cons.mp h3 with rfl | h3
        · omega
        · have := h1 _ h3; omega
      · exact ⟨h3, h4⟩
  | case5 a as b bs h1' h2' ih =>
    have hab : a = b := by omega
    subst hab
    have h1 := ha.head_lt
    have h2 := hb.head_lt
    simp only [List.mem_cons, ih ha.tail hb.tail]
    constructor
    · rintro (rfl | ⟨h3, h4⟩)
      · exact ⟨Or.inl rfl, Or.inl rfl⟩
      · exact ⟨Or.inr h3, Or.inr h4⟩
    · rintro ⟨h3 | h3, h4 | h4⟩
      · exact Or.inl h3
      · exact Or.inl h3
      · exact Or.inl h4
      · exact Or.inr ⟨h3, h4⟩

/-! #### difference -/

theorem diff_sublist (a b : List Nat) : List.Sublist (diff a b) a := by
  fun_induction diff a b with
  | case1 => simp
  | case2 => simp
  | case3 a as b bs h ih => exact List.Sublist.cons_cons _ ih
  | case4 a as b bs h1 h2 ih => exact ih
  | case5 a as b bs h1 h2 ih => exact List.Sublist.cons _ ih

theorem asc_diff {a b : List Nat} (ha : Asc a) : Asc (diff a b) :=
  List.Pairwise.sublist (diff_sublist a b) ha

theorem mem_diff {a b : List Nat} (ha : Asc a) (hb : Asc b) (x : Nat) :
    x ∈ diff a b ↔ x ∈ a ∧ x ∉ b := by
  fun_induction diff a b with
  | case1 => simp
  | case2 => simp
  | case3 a as b bs h ih =>
    have h1 := ha.head_lt
    have h2 := hb.head_lt
    simp only [List.mem_cons, ih ha.tail hb]
    constructor
    · rintro (rfl | ⟨h3, h4⟩)
      · refine ⟨Or.inl rfl, ?_⟩
        rintro (h5 | h5)
        · omega
        · have := h2 _ h5; omega
      · exact ⟨Or.inr h3, by simpa using h4⟩
    · rintro ⟨h3 | h3, h4⟩
      · exact Or.inl h3
      · exact Or.inr ⟨h3, by simpa using h4⟩
  | case4 a as b bs h1' h2' ih =>
    have h1 := ha.head_lt
    have h2 := hb.head_lt
    rw [ih ha hb.tail]
    constructor
    · rintro ⟨h3, h4⟩
      refine ⟨h3, ?_⟩
      intro h5
      rcases List.mem_cons.mp h5 with rfl | h5
      · rcases List.mem_cons.mp h3 with rfl | h3
        · omega
        · have := h1 _ h3; omega
      · exact h4 h5
    · rintro ⟨h3, h4⟩
      exact ⟨h3, fun h5 => h4 (List.mem_cons_of_mem _ h5)⟩
  | case5 a as b bs h1' h2' ih =>
    have hab : a = b := by omega
    subst hab
    have h1 := ha.head_lt
    have h2 := hb.head_lt
    rw [ih ha.tail hb.tail]
    constructor
    · rintro ⟨h3, h4⟩
      refine ⟨List.mem_cons_of_mem _ h3, ?_⟩
      intro h5
      rcases List.mem_cons.mp h5 with rfl | h5
      · have := h1 _ h3; omega
      · exact h4 h5
    · rintro ⟨h3, h4⟩
      rcases List.mem_cons.mp h3 with rfl | h3
      · exact absurd (List.mem_cons_self) h4
      · exact ⟨h3, fun h5 => h4 (List.mem_cons_of_mem _ h5)⟩

/-! #### idSet -/

theorem mem_insertId (x y : Nat) (l : List Nat) : y ∈ insertId x l ↔ y = x ∨ y ∈ l := by
  induction l with
  | nil => simp [insertId]
  | cons z zs ih =>
    unfold insertId
    split
    · simp
    · split
      · simp [ih]; grind
      · have : x = z := by omega
        subst this; simp

theorem asc_insertId (x : Nat) {l : List Nat} (h : Asc l) : Asc (insertId x l) := by
  induction l with
  | nil => simp [insertId]
  | cons z zs ih =>
    unfold insertId
    split
    · next hlt =>
      refine List.pairwise_cons.mpr ⟨?_, h⟩
      intro y hy
      rcases List.mem_cons.mp hy with rfl | hy
      · exact hlt
      · exact Nat.lt_trans hlt (h.head_lt y hy)
    · split
      · next h1 h2 =>
        refine List.pairwise_cons.mpr ⟨?_, ih h.tail⟩
        intro y hy
        rcases (mem_insertId _ _ _).mp hy with rfl | hy
        · exact h2
        · exact h.head_lt y hy
      · exact h

theorem mem_idSet (l : List Nat) (y : Nat) : y ∈ idSet l ↔ y ∈ l := by
  induction l with
  | nil => simp [idSet]
  | cons x xs ih =>
    have : idSet (x :: xs) = insertId x (idSet xs) := rfl
    rw [this, mem_insertId, ih]; simp

theorem asc_idSet (l : List Nat) : Asc (idSet l) := by
  induction l with
  | nil => simp [idSet]
  | cons x xs ih =>
    have : idSet (x :: xs) = insertId x (idSet xs) := rfl
    rw [this]; exact asc_insertId x ih

/-! #### merges -/

theorem mem_foldl_union (xs : List (List Nat)) (acc : List Nat) (x : Nat) :
    x ∈ xs.foldl union acc ↔ x ∈ acc ∨ ∃ l ∈ xs, x ∈ l := by
  induction xs generalizing acc with
  | nil => simp
  | cons l ls ih =>
    simp only [List.foldl_cons, ih, mem_union, List.mem_cons, exists_eq_or_imp]
    grind

theorem asc_foldl_union (xs : List (List Nat)) (acc : List Nat) (hacc : Asc acc)
    (hxs : ∀ l ∈ xs, Asc l) : Asc (xs.foldl union acc) := by
  induction xs generalizing acc with
  | nil => exact hacc
  | cons l ls ih =>
    simp only [List.foldl_cons]
    exact ih _ (asc_union hacc (hxs l List.mem_cons_self))
      (fun l' hl' => hxs l' (List.mem_cons_of_mem _ hl'))

theorem mem_mergeNonNil (xs : List (List Nat)) (x : Nat) :
    x ∈ (mergeNonNil xs).ids ↔ ∃ l ∈ xs, x ∈ l := by
  match xs with
  | [] => simp [mergeNonNil, Itr.ids]
  | [a] => simp [mergeNonNil, Itr.ids]
  | a :: b :: rest =>
    simp only [mergeNonNil, Itr.ids, mem_foldl_union]
    simp

theorem asc_mergeNonNil (xs : List (List Nat)) (hxs : ∀ l ∈ xs, Asc l) :
    Asc (mergeNonNil xs).ids := by
  match xs with
  | [] => simp [mergeNonNil, Itr.ids]
  | [a] => simpa [mergeNonNil, Itr.ids] using hxs a (by simp)
  | a :: b :: rest =>
    simp only [mergeNonNil, Itr.ids]
    exact asc_foldl_union _ _ (by simp) hxs

theorem mem_nonNil (its : List Itr) (l : List Nat) : l ∈ nonNil its ↔ some l ∈ its := by
  simp [nonNil]

/-- membership in the merge of the non-nil iterators of a list. -/
theorem mem_mergeNonNil_nonNil (its : List Itr) (x : Nat) :
    x ∈ (mergeNonNil (nonNil its)).ids ↔ ∃ it ∈ its, x ∈ it.ids := by
  rw [mem_mergeNonNil]
  constructor
  · rintro ⟨l, hl, hx⟩
    exact ⟨some l, (mem_nonNil _ _).mp hl, hx⟩
  · rintro ⟨it, hit, hx⟩
    match it, hit, hx with
    | some l, hit, hx => exact ⟨l, (mem_nonNil _ _).mpr hit, hx⟩
    | none, _, hx => simp [Itr.ids] at hx

theorem asc_mergeNonNil_nonNil (its : List Itr) (h : ∀ it ∈ its, Asc it.ids) :
    Asc (mergeNonNil (nonNil its)).ids :=
  asc_mergeNonNil _ (fun l hl => h (some l) ((mem_nonNil _ _).mp hl))

/-! #### the nil-aware operators -/

theorem mem_intersectItr {a b : Itr} (ha : Asc a.ids) (hb : Asc b.ids) (x : Nat) :
    x ∈ (intersectItr a b).ids ↔ x ∈ a.ids ∧ x ∈ b.ids := by
  match a, b with
  | some a, some b => exact mem_inter ha hb x
  | none, _ => simp [intersectItr, Itr.ids]
  | some a, none => simp [intersectItr, Itr.ids]

theorem asc_intersectItr {a b : Itr} (ha : Asc a.ids) : Asc (intersectItr a b).ids := by
  match a, b with
  | some a, some b => exact asc_inter ha
  | none, _ => simp [intersectItr, Itr.ids]
  | some a, none => simp [intersectItr, Itr.ids]

theorem mem_unionItr (a b : Itr) (x : Nat) :
    x ∈ (unionItr a b).ids ↔ x ∈ a.ids ∨ x ∈ b.ids := by
  match a, b with
  | some a, some b => exact mem_union a b x
  | none, b => simp [unionItr, Itr.ids]
  | some a, none => simp [unionItr, Itr.ids]

theorem asc_unionItr {a b : Itr} (ha : Asc a.ids) (hb : Asc b.ids) : Asc (unionItr a b).ids := by
  match a, b with
  | some a, some b => exact asc_union ha hb
  | none, b => simpa [unionItr] using hb
  | some a, none => simpa [unionItr] using ha

theorem mem_differenceItr {a b : Itr} (ha : Asc a.ids) (hb : Asc b.ids) (x : Nat) :
    x ∈ (differenceItr a b).ids ↔ x ∈ a.ids ∧ x ∉ b.ids := by
  match a, b with
  | some a, some b => exact mem_diff ha hb x
  | none, _ => simp [differenceItr, Itr.ids]
  | some a, none => simp [differenceItr, Itr.ids]

theorem asc_differenceItr {a b : Itr} (ha : Asc a.ids) : Asc (differenceItr a b).ids := by
  match a, b with
  | some a, some b => exact asc_diff ha
  | none, _ => simp [differenceItr, Itr.ids]
  | some a, none => simpa [differenceItr] using ha

end Influx.Model.TagExpr
