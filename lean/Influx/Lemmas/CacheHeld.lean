/-
  Lemmas.CacheHeld — the model's store seen as the statement checker's "held values",
  and the accounting lemmas for it.
-/
import Influx.Lemmas.CacheDedup

namespace Influx.Cache
open Influx.Spec.C09

def toHeld (s : Store) : Held := s.map fun x => (x.1, x.2.values)

/-- what every entry of a store satisfies: it holds values, all of the entry's one type -/
structure EntryOK (e : Entry) : Prop where
  ne : e.values ≠ []
  ty0 : e.vtype ≠ 0
  all : ∀ v ∈ e.values, v.ty = e.vtype

def StoreOK (s : Store) : Prop := (s.map (·.1)).Nodup ∧ ∀ x ∈ s, EntryOK x.2

theorem StoreOK.nil : StoreOK [] := ⟨by simp, by simp⟩

@[simp] theorem toHeld_nil : toHeld [] = [] := rfl

theorem toHeld_keys (s : Store) : (toHeld s).map (·.1) = s.map (·.1) := by
  simp [toHeld]

theorem toHeld_lookup (s : Store) (k : Key) : (toHeld s).lookup k = (s.lookup k).map (·.values) := by
  induction s with
  | nil => rfl
  | cons x rest ih =>
    obtain ⟨k', e⟩ := x
    simp only [toHeld, List.map_cons, List.lookup_cons] at ih ⊢
    split
    · rfl
    · exact ih

theorem toHeld_get (s : Store) (k : Key) : (toHeld s).get k = ((s.lookup k).map (·.values)).getD [] := by
  simp [Held.get, toHeld_lookup]

theorem toHeld_set (s : Store) (k : Key) (e : Entry) : toHeld (s.set k e) = (toHeld s).set k e.values := by
  induction s with
  | nil => rfl
  | cons x rest ih =>
    obtain ⟨k', e'⟩ := x
    simp only [Store.set, toHeld, List.map_cons, Held.set] at ih ⊢
    split
    · rfl
    · simp only [List.map_cons, ih]

theorem toHeld_remove (s : Store) (k : Key) : toHeld (s.remove k) = (toHeld s).remove k := by
  simp [toHeld, Store.remove, Held.remove, List.filter_map, Function.comp_def]

theorem count_eq (s : Store) : s.count = liveKeys (toHeld s) := by
  simp [Store.count, liveKeys, toHeld, List.filter_map, Function.comp_def]

/-! ### lookup / set / remove on stores -/

theorem lookup_none_iff {s : Store} {k : Key} : s.lookup k = none ↔ k ∉ s.map (·.1) := by
  induction s with
  | nil => simp
  | cons x rest ih =>
    obtain ⟨k', e⟩ := x
    simp only [List.lookup_cons, List.map_cons, List.mem_cons, not_or]
    by_cases h : k = k'
    · subst h; simp
    · have : (k == k') = false := by simpa using h
      simp [this, ih, h]

theorem lookup_mem {s : Store} {k : Key} {e : Entry} (h : s.lookup k = some e) : (k, e) ∈ s := by
  induction s with
  | nil => simp at h
  | cons x rest ih =>
    obtain ⟨k', e'⟩ := x
    simp only [List.lookup_cons] at h
    split at h
    · rename_i hk
      have : k = k' := by simpa using hk
      simp only [Option.some.injEq] at h
      subst this; subst h; simp
    · exact List.mem_cons_of_mem _ (ih h)

theorem set_keys_old {s : Store} {k : Key} (e : Entry) (h : k ∈ s.map (·.1)) :
    (s.set k e).map (·.1) = s.map (·.1) := by
  induction s with
  | nil => simp at h
  | cons x rest ih =>
    obtain ⟨k', e'⟩ := x
    simp only [Store.set]
    split
    · rename_i hk; simp [hk]
    · rename_i hk
      simp only [List.map_cons, List.mem_cons] at h
      rcases h with h | h
      · exact absurd h.symm hk
      · simp [ih h]

theorem set_keys_new {s : Store} {k : Key} (e : Entry) (h : k ∉ s.map (·.1)) :
    (s.set k e).map (·.1) = s.map (·.1) ++ [k] := by
  induction s with
  | nil => rfl
  | cons x rest ih =>
    obtain ⟨k', e'⟩ := x
    simp only [List.map_cons, List.mem_cons, not_or] at h
    simp only [Store.set]
    split
    · rename_i hk; exact absurd hk.symm h.1
    · simp [ih h.2]

theorem mem_set {s : Store} {k : Key} {e : Entry} {x : Key × Entry} (h : x ∈ s.set k e) : x = (k, e) ∨ x ∈ s := by
  induction s with
  | nil => simp [Store.set] at h; exact Or.inl h
  | cons y rest ih =>
    obtain ⟨k', e'⟩ := y
    simp only [Store.set] at h
    split at h
    · rcases List.mem_cons.mp h with h | h
      · exact Or.inl h
      · exact Or.inr (List.mem_cons_of_mem _ h)
    · rcases List.mem_cons.mp h with h | h
      · exact Or.inr (by simp [h])
      · rcases ih h with h | h
        · exact Or.inl h
        · exact Or.inr (List.mem_cons_of_mem _ h)

theorem StoreOK.set {s : Store} (ok : StoreOK s) (k : Key) {e : Entry} (he : EntryOK e) : StoreOK (s.set k e) := by
  refine ⟨?_, ?_⟩
  · by_cases h : k ∈ s.map (·.1)
    · rw [set_keys_old e h]; exact ok.1
    · rw [set_keys_new e h]
      rw [List.nodup_append]
      refine ⟨ok.1, by simp, ?_⟩
      intro a ha b hb hab
      simp only [List.mem_singleton] at hb
      subst hb; subst hab; exact h ha
  · intro x hx
    rcases mem_set hx with rfl | hx
    · exact he
    · exact ok.2 x hx

theorem StoreOK.remove {s : Store} (ok : StoreOK s) (k : Key) : StoreOK (s.remove k) := by
  refine ⟨?_, ?_⟩
  · exact List.Nodup.sublist (List.Sublist.map _ List.filter_sublist) ok.1
  · intro x hx
    exact ok.2 x (List.mem_filter.mp hx).1

/-! ### accounting -/

theorem acct_cons (k : Key) (vs : List Value) (h : Held) : acct ((k, vs) :: h) = k.length + valuesSize vs + acct h := by
  simp [acct]

theorem valuesSize_append (a b : List Value) : valuesSize (a ++ b) = valuesSize a + valuesSize b := by
  simp [valuesSize]

theorem held_lookup_none {h : Held} {k : Key} : h.lookup k = none ↔ k ∉ h.map (·.1) := by
  induction h with
  | nil => simp
  | cons x rest ih =>
    obtain ⟨k', e⟩ := x
    simp only [List.lookup_cons, List.map_cons, List.mem_cons, not_or]
    by_cases hk : k = k'
    · subst hk; simp
    · have : (k == k') = false := by simpa using hk
      simp [this, ih, hk]

theorem acct_set_new {h : Held} {k : Key} (vs : List Value) (hk : h.lookup k = none) :
    acct (h.set k vs) = acct h + k.length + valuesSize vs := by
  induction h with
  | nil => simp [Held.set, acct]
  | cons x rest ih =>
    obtain ⟨k', e⟩ := x
    simp only [List.lookup_cons] at hk
    split at hk
    · simp at hk
    · rename_i hne
      have hne' : ¬ k' = k := by intro e; subst e; simp at hne
      simp only [Held.set, hne', if_false, acct_cons, ih hk]
      omega

theorem acct_set_old {h : Held} {k : Key} {old : List Value} (vs : List Value) (hk : h.lookup k = some old)
    (nd : (h.map (·.1)).Nodup) : acct (h.set k vs) + valuesSize old = acct h + valuesSize vs := by
  induction h with
  | nil => simp at hk
  | cons x rest ih =>
    obtain ⟨k', e⟩ := x
    simp only [List.lookup_cons] at hk
    split at hk
    · rename_i heq
      have : k = k' := by simpa using heq
      subst this
      simp only [Option.some.injEq] at hk
      subst hk
      simp only [Held.set, if_true, acct_cons]
      omega
    · rename_i hne
      have hne' : ¬ k' = k := by intro e; subst e; simp at hne
      simp only [List.map_cons, List.nodup_cons] at nd
      simp only [Held.set, hne', if_false, acct_cons]
      have := ih hk nd.2
      omega

theorem acct_remove {h : Held} {k : Key} {old : List Value} (hk : h.lookup k = some old)
    (nd : (h.map (·.1)).Nodup) : acct (h.remove k) + k.length + valuesSize old = acct h := by
  induction h with
  | nil => simp at hk
  | cons x rest ih =>
    obtain ⟨k', e⟩ := x
    simp only [List.map_cons, List.nodup_cons] at nd
    simp only [List.lookup_cons] at hk
    split at hk
    · rename_i heq
      have : k = k' := by simpa using heq
      subst this
      simp only [Option.some.injEq] at hk
      subst hk
      have hnot : rest.lookup k = none := held_lookup_none.mpr nd.1
      have hrest : rest.filter (fun x => x.1 ≠ k) = rest := by
        rw [List.filter_eq_self]
        intro x hx
        have : x.1 ≠ k := by
          intro e; apply nd.1; rw [← e]; exact List.mem_map_of_mem hx
        simpa using this
      simp only [Held.remove, List.filter_cons, ne_eq, not_true_eq_false, decide_false,
        Bool.false_eq_true, if_false, acct_cons]
      simp only [ne_eq] at hrest
      rw [hrest]; omega
    · rename_i hne
      have hne' : ¬ k' = k := by intro e; subst e; simp at hne
      have := ih hk nd.2
      simp only [Held.remove, List.filter_cons, ne_eq, hne', not_false_eq_true, decide_true, if_true,
        acct_cons] at this ⊢
      omega

theorem acct_le_of_lookup {h : Held} {k : Key} {old : List Value} (hk : h.lookup k = some old) :
    k.length + valuesSize old ≤ acct h := by
  induction h with
  | nil => simp at hk
  | cons x rest ih =>
    obtain ⟨k', e⟩ := x
    simp only [List.lookup_cons] at hk
    split at hk
    · rename_i heq
      have : k = k' := by simpa using heq
      subst this
      simp only [Option.some.injEq] at hk
      subst hk
      rw [acct_cons]; omega
    · rw [acct_cons]; have := ih hk; omega

end Influx.Cache
