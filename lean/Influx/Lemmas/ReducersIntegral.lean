/-
  Lemmas.ReducersIntegral — integral without GROUP BY time: the reducer's sum is the
  sum of the trapezia (any arithmetic).
-/
import Influx.Model.Reducers
import Influx.Spec.C23
open Influx.Reducers Influx.Spec.C23

namespace Influx.Reducers.Lemmas
variable {V F : Type}

/-- the sum after the segments of `c :: xs`, starting from `acc` -/
def trapFrom (A : Arith V F) (unit : Int) (acc : F) (c : Pt V) (xs : List (Pt V)) : F :=
  (segments (c :: xs)).foldl (fun s (ab : Pt V × Pt V) =>
    A.fo.add s (trapezium A unit ab.1.t (A.vo.toF ab.1.v) ab.2.t (A.vo.toF ab.2.v))) acc

theorem segments_cons2 (a b : Pt V) (l : List (Pt V)) :
    segments (a :: b :: l) = (if a.t ≠ b.t then [(a, b)] else []) ++ segments (b :: l) := by
  simp only [segments, adj, List.tail_cons, List.zip_cons_cons, List.filter_cons]
  by_cases h : a.t = b.t <;> simp [h]

/-- no point of the series reaches the end of the (single) window -/
def noCross (isInt : Bool) (o : WinOpt) (wend : Int) (xs : List (Pt V)) : Prop :=
  ∀ p ∈ xs, ((isInt || decide (o.dur ≠ 0)) && ((o.asc && decide (p.t ≥ wend)) || (!o.asc && decide (p.t ≤ wend)))) = false

theorem igRun_noCross (A : Arith V F) (isInt : Bool) (unit : Int) (o : WinOpt) (xs : List (Pt V)) :
    ∀ (c : Pt V) (sum : F) (ws we : Int), noCross isInt o we xs →
      igRun A.vo A.fo isInt unit o
        { sum := sum, prev := some (c.t, A.vo.toF c.v), wstart := ws, wend := we, pending := none } xs =
      (let lastT := ((c :: xs).getLast?.map (·.t)).getD c.t
       if lastT ≠ ws then [⟨ws, trapFrom A unit sum c xs⟩] else []) := by
  induction xs with
  | nil =>
    intro c sum ws we _
    simp [igRun, igClose, igEmit, trapFrom, segments, adj]
  | cons p ps ih =>
    intro c sum ws we hnc
    have hp := hnc p (by simp)
    have hps : noCross isInt o we ps := fun q hq => hnc q (by simp [hq])
    obtain ⟨lst, hl⟩ : ∃ l, (p :: ps).getLast? = some l := by
      cases h : (p :: ps).getLast? with
      | none => simp at h
      | some l => exact ⟨l, rfl⟩
    by_cases hct : c.t = p.t
    · have hagg : igAgg A.vo A.fo isInt unit o
          { sum := sum, prev := some (c.t, A.vo.toF c.v), wstart := ws, wend := we, pending := none } p =
          { sum := sum, prev := some (p.t, A.vo.toF p.v), wstart := ws, wend := we, pending := none } := by
        simp [igAgg, hct]
      simp only [igRun, hagg, igEmit, List.nil_append]
      rw [ih p sum ws we hps]
      simp only [trapFrom, segments_cons2, hct, ne_eq, not_true_eq_false, if_false, List.nil_append]
      simp [List.getLast?_cons_cons, hl]
    · have hagg : igAgg A.vo A.fo isInt unit o
          { sum := sum, prev := some (c.t, A.vo.toF c.v), wstart := ws, wend := we, pending := none } p =
          { sum := A.fo.add sum (trapezium A unit c.t (A.vo.toF c.v) p.t (A.vo.toF p.v)),
            prev := some (p.t, A.vo.toF p.v), wstart := ws, wend := we, pending := none } := by
        simp only [igAgg, hct, if_false, hp, Bool.false_eq_true, trapezium]
      simp only [igRun, hagg, igEmit, List.nil_append]
      rw [ih p _ ws we hps]
      simp only [trapFrom, segments_cons2, hct, ne_eq, not_false_eq_true, if_true, List.cons_append,
        List.nil_append, List.foldl_cons]
      simp [List.getLast?_cons_cons, hl]


theorem trapFrom_zero (A : Arith V F) (unit : Int) (c : Pt V) (xs : List (Pt V)) :
    trapFrom A unit (A.fo.ofInt 0) c xs = trapezia A unit (c :: xs) := by
  unfold trapFrom trapezia
  rfl

/-- what the statement expects of integral without GROUP BY time over an ascending series
    inside the statement's time range -/
def integralPlain (A : Arith V F) (isInt : Bool) (unit st : Int) (xs : List (Pt V)) : List (Pt F) :=
  let t0 := if isInt then (if st = -9223372036854775806 then 0 else st) else 0
  match xs.getLast? with
  | none => []
  | some lastp => if lastp.t = t0 then [] else [⟨t0, trapezia A unit xs⟩]

/-- **integral** without GROUP BY time, any arithmetic: one row at the statement's start
    time carrying the sum of the trapezia between consecutive points -/
theorem integral_plain (A : Arith V F) (isInt : Bool) (unit off st en : Int) (xs : List (Pt V))
    (hin : ∀ p ∈ xs, p.t ≤ en) :
    integral A.vo A.fo isInt unit ⟨0, off, st, en, true⟩ xs = integralPlain A isInt unit st xs := by
  cases xs with
  | nil => simp [integral, igRun, igClose, igEmit, integralPlain]
  | cons c rest =>
    have hrest : ∀ p ∈ rest, p.t ≤ en := fun p hp => hin p (by simp [hp])
    obtain ⟨lst, hl⟩ : ∃ l, (c :: rest).getLast? = some l := by
      cases h : (c :: rest).getLast? with
      | none => simp at h
      | some l => exact ⟨l, rfl⟩
    cases isInt with
    | false =>
      have hnc : noCross false (⟨0, off, st, en, true⟩ : WinOpt) 0 rest := by intro p _; simp
      have h1 : igAgg A.vo A.fo false unit ⟨0, off, st, en, true⟩ ({ sum := A.fo.ofInt 0 } : IgSt F) c =
          { sum := A.fo.ofInt 0, prev := some (c.t, A.vo.toF c.v), wstart := 0, wend := 0, pending := none } := by
        simp [igAgg]
      simp only [integral, igRun, h1, igEmit, List.nil_append]
      rw [igRun_noCross A false unit _ rest c _ 0 0 hnc, trapFrom_zero]
      simp only [integralPlain, hl, Option.map_some, Option.getD_some, Bool.false_eq_true, if_false]
      by_cases h0 : lst.t = 0 <;> simp [h0]
    | true =>
      have hnc : noCross true (⟨0, off, st, en, true⟩ : WinOpt) (en + 1) rest := by
        intro p hp
        have := hrest p hp
        simp; omega
      by_cases hmin : st = minTime
      · have h1 : igAgg A.vo A.fo true unit ⟨0, off, st, en, true⟩ ({ sum := A.fo.ofInt 0 } : IgSt F) c =
            { sum := A.fo.ofInt 0, prev := some (c.t, A.vo.toF c.v), wstart := 0, wend := en + 1, pending := none } := by
          simp [igAgg, igSetWindow, window, hmin]
        simp only [integral, igRun, h1, igEmit, List.nil_append]
        rw [igRun_noCross A true unit _ rest c _ 0 (en + 1) hnc, trapFrom_zero]
        have hmin' : st = -9223372036854775806 := hmin
        simp only [integralPlain, hl, Option.map_some, Option.getD_some, if_true, hmin']
        by_cases h0 : lst.t = 0 <;> simp [h0]
      · have h1 : igAgg A.vo A.fo true unit ⟨0, off, st, en, true⟩ ({ sum := A.fo.ofInt 0 } : IgSt F) c =
            { sum := A.fo.ofInt 0, prev := some (c.t, A.vo.toF c.v), wstart := st, wend := en + 1, pending := none } := by
          simp [igAgg, igSetWindow, window, hmin]
        simp only [integral, igRun, h1, igEmit, List.nil_append]
        rw [igRun_noCross A true unit _ rest c _ st (en + 1) hnc, trapFrom_zero]
        have hmin' : ¬ st = -9223372036854775806 := hmin
        simp only [integralPlain, hl, Option.map_some, Option.getD_some, if_true, hmin', if_false]
        by_cases h0 : lst.t = st <;> simp [h0]

end Influx.Reducers.Lemmas
