/-
  Lemmas.DurableQueueQ — queue-level well-formedness (`QWF`) and its preservation
  by `Current`, `Advance`, `Append`, the scanner, and `Open` (also on torn files).
-/
import Influx.Lemmas.DurableQueueScan
import Influx.Spec.C26
namespace Influx.DQ
open Influx.Spec.C26

/-- non-head segments: nothing consumed, at least one record -/
def TailWF : List Seg → List (List Bytes) → Prop
  | [], [] => True
  | x :: xs, r :: rs => SegWF x [] r ∧ r ≠ [] ∧ TailWF xs rs
  | _, _ => False

/-- The queue (segment list `segs`, configured segment size `g`) holds: consumed
    records `done` of the head segment (still on disk), then the unconsumed records
    `r` of the head and `rs` of the later segments.  `B`: bytes the remaining
    operations may still add. -/
structure QWF (segs : List Seg) (g : Nat) (done r : List Bytes) (rs : List (List Bytes)) (B : Nat) : Prop where
  shape : ∃ h t, segs = h :: t ∧ SegWF h done r ∧ TailWF t rs ∧ (r = [] → rs = [] ∧ h.size ≤ h.maxSize)
  maxSeg8 : 8 ≤ g
  room : ∀ x ∈ segs, x.size + B < 2^63

theorem TailWF.length_eq : ∀ {t : List Seg} {rs : List (List Bytes)}, TailWF t rs → t.length = rs.length
  | [], [], _ => rfl
  | _ :: xs, _ :: rs, h => by simp [TailWF.length_eq h.2.2]
  | [], _ :: _, h => by cases h
  | _ :: _, [], h => by cases h

theorem TailWF.nil_iff {t : List Seg} (h : TailWF t []) : t = [] := by
  cases t with
  | nil => rfl
  | cons x xs => cases h

theorem SegWF.empty_iff {s : Seg} {done r} (h : SegWF s done r) : s.empty = true ↔ r = [] := by
  have hs := h.size_eq; have hp := h.pos_eq
  simp only [Seg.empty, beq_iff_eq]
  constructor
  · intro he
    cases r with
    | nil => rfl
    | cons x t => simp at hs; omega
  · intro hr; subst hr; simp at hs; omega

def freshS (g : Nat) : Seg := ⟨be64 0, 0, g⟩

theorem fresh_wf (g : Nat) : SegWF (freshS g) [] [] := by
  refine ⟨by simp [freshS], by simp [freshS], by simp, by simp [freshS, be64_length]⟩

theorem trimHead_single (q : Q) (h : Seg) (hs : q.segs = [h]) :
    (q.trimHead false).segs = (if h.full then [freshS q.maxSeg] else [h]) ∧
    (q.trimHead false).maxSeg = q.maxSeg ∧ (q.trimHead false).maxSize = q.maxSize := by
  unfold Q.trimHead
  simp only [hs]
  by_cases hf : h.full = true
  · simp [hf, Q.addSegment, hs, freshS]
  · simp [hf, hs]

theorem trimHead_multi (q : Q) (h h2 : Seg) (t : List Seg) (hs : q.segs = h :: h2 :: t) :
    (q.trimHead false).segs = h2 :: t ∧
    (q.trimHead false).maxSeg = q.maxSeg ∧ (q.trimHead false).maxSize = q.maxSize := by
  unfold Q.trimHead
  simp [hs]

theorem qwf_fresh (g B : Nat) (h8 : 8 ≤ g) (hB : 8 + B < 2^63) : QWF [freshS g] g [] [] [] B := by
  refine ⟨⟨freshS g, [], rfl, fresh_wf g, trivial, fun _ => ⟨rfl, by simp [freshS, Seg.size, be64_length]; exact h8⟩⟩, h8, ?_⟩
  intro x hx; simp at hx; subst hx; simp [freshS, Seg.size, be64_length]; omega

theorem QWF.room8 {segs g done r rs B} (h : QWF segs g done r rs B) : 8 + B < 2^63 := by
  obtain ⟨hd, t, hsegs, hwf, _, _⟩ := h.shape
  have := h.room hd (by simp [hsegs])
  have := hwf.size_eq
  omega

/-- `Queue.Current` -/
theorem qwf_current_cons {q : Q} {done x r rs B} (h : QWF q.segs q.maxSeg done (x :: r) rs B) :
    q.current = .ok x := by
  obtain ⟨hd, t, hsegs, hwf, _, _⟩ := h.shape
  simp [Q.current, hsegs, current_wf_cons hwf]

theorem qwf_current_nil {q : Q} {done rs B} (h : QWF q.segs q.maxSeg done [] rs B) :
    q.current = .error .eof := by
  obtain ⟨hd, t, hsegs, hwf, _, _⟩ := h.shape
  simp [Q.current, hsegs, current_wf_nil hwf]

/-- `Queue.Advance` on an empty queue changes nothing observable -/
theorem qwf_advance_nil {q : Q} {done rs B} (h : QWF q.segs q.maxSeg done [] rs B) :
    ∃ done', QWF q.advance.segs q.advance.maxSeg done' [] [] B ∧ q.advance.maxSize = q.maxSize ∧
      q.advance.maxSeg = q.maxSeg ∧ (done' = done ∨ done' = []) := by
  obtain ⟨hd, t, hsegs, hwf, htail, hemp⟩ := h.shape
  obtain ⟨hrs, hsz⟩ := hemp rfl
  subst hrs
  have ht : t = [] := htail.nil_iff
  subst ht
  have hadv := advance_wf_nil hwf
  have hq : q.advance = ({ q with segs := [hd] } : Q).trimHead false := by
    simp [Q.advance, hsegs, hadv]
  obtain ⟨h1, h2, h3⟩ := trimHead_single ({ q with segs := [hd] } : Q) hd rfl
  rw [hq, h1, h2, h3]
  by_cases hfull : hd.full = true
  · rw [if_pos hfull]
    exact ⟨[], qwf_fresh _ _ h.maxSeg8 h.room8, rfl, rfl, Or.inr rfl⟩
  · rw [if_neg hfull]
    refine ⟨done, ⟨⟨hd, [], rfl, hwf, trivial, fun _ => ⟨rfl, hsz⟩⟩, h.maxSeg8, ?_⟩, rfl, rfl, Or.inl rfl⟩
    intro x hx
    exact h.room x (by rw [hsegs]; exact hx)


/-- The head segment has been moved to `(done2, r2)` (by an advance or a scanner
    advance that returned `io.EOF` exactly when `r2 = []`), then `trimHead(false)`
    if it is exhausted: the queue is well-formed again and holds the same
    unconsumed records. -/
theorem qwf_after_head {q : Q} {h' : Seg} {t : List Seg} {done2 r2 : List Bytes} {rs : List (List Bytes)} {B : Nat}
    (hwf' : SegWF h' done2 r2) (htail : TailWF t rs) (h8 : 8 ≤ q.maxSeg)
    (hroom : ∀ x ∈ h' :: t, x.size + B < 2^63) :
    let q' : Q := if r2 = [] then ({ q with segs := h' :: t } : Q).trimHead false else { q with segs := h' :: t }
    q'.maxSeg = q.maxSeg ∧ q'.maxSize = q.maxSize ∧
    ∃ done' r' rs', QWF q'.segs q.maxSeg done' r' rs' B ∧ r' ++ rs'.flatten = r2 ++ rs.flatten ∧
      ∃ p, done2 = p ++ done' := by
  have hB : 8 + B < 2^63 := by
    have := hroom h' (by simp); have := hwf'.size_eq; omega
  by_cases hr2 : r2 = []
  · simp only [hr2, if_true]
    cases t with
    | nil =>
      have hrs : rs = [] := by cases rs with
        | nil => rfl
        | cons _ _ => cases htail
      obtain ⟨h1, h2, h3⟩ := trimHead_single ({ q with segs := [h'] } : Q) h' rfl
      refine ⟨h2, h3, ?_⟩
      rw [h1]
      by_cases hfull : h'.full = true
      · rw [if_pos hfull]
        exact ⟨[], [], [], qwf_fresh _ _ h8 hB, by simp [hrs], done2, by simp⟩
      · rw [if_neg hfull]
        refine ⟨done2, [], [], ⟨⟨h', [], rfl, by rw [← hr2]; exact hwf', trivial, fun _ => ⟨rfl, ?_⟩⟩, h8, hroom⟩,
          by simp [hrs], [], by simp⟩
        simp [Seg.full] at hfull; omega
    | cons h2 t' =>
      cases rs with
      | nil => cases htail
      | cons r2' rs' =>
        obtain ⟨hw2, hne2, htail'⟩ := htail
        obtain ⟨h1, hh2, h3⟩ := trimHead_multi ({ q with segs := h' :: h2 :: t' } : Q) h' h2 t' rfl
        refine ⟨hh2, h3, ?_⟩
        rw [h1]
        refine ⟨[], r2', rs', ⟨⟨h2, t', rfl, hw2, htail', fun he => absurd he hne2⟩, h8, ?_⟩, by simp, done2, by simp⟩
        intro x hx; exact hroom x (by simp at hx ⊢; right; exact hx)
  · simp only [hr2, if_false]
    refine ⟨trivial, trivial, done2, r2, rs, ⟨⟨h', t, rfl, hwf', htail, fun he => absurd he hr2⟩, h8, hroom⟩, rfl, [], by simp⟩

/-- `Queue.Advance` with a record at the head -/
theorem qwf_advance_cons {q : Q} {done x r rs B} (h : QWF q.segs q.maxSeg done (x :: r) rs B) :
    q.advance.maxSeg = q.maxSeg ∧ q.advance.maxSize = q.maxSize ∧
    ∃ done' r' rs', QWF q.advance.segs q.maxSeg done' r' rs' B ∧ r' ++ rs'.flatten = r ++ rs.flatten ∧
      ∃ p, done ++ [x] = p ++ done' := by
  obtain ⟨hd, t, hsegs, hwf, htail, _⟩ := h.shape
  obtain ⟨hwf', hms, he⟩ := advance_wf_cons hwf
  have hq : q.advance = (if r = [] then ({ q with segs := hd.advance.1 :: t } : Q).trimHead false
      else { q with segs := hd.advance.1 :: t }) := by
    simp only [Q.advance, hsegs]
    rw [show hd.advance = (hd.advance.1, hd.advance.2) from rfl]
    simp only [he]
    by_cases hr : r = [] <;> simp [hr]
  have hroom : ∀ y ∈ hd.advance.1 :: t, y.size + B < 2^63 := by
    intro y hy
    rcases List.mem_cons.mp hy with rfl | hy
    · have h1 := h.room hd (by simp [hsegs])
      have := hwf.size_eq; have := hwf'.size_eq
      simp [encRecs_append] at *; omega
    · exact h.room y (by simp [hsegs, hy])
  have := qwf_after_head (q := q) hwf' htail h.maxSeg8 hroom
  rw [hq]
  exact this

theorem TailWF_append : ∀ (a : List Seg) (ra : List (List Bytes)) (b : List Seg) (rb : List (List Bytes)),
    a.length = ra.length → (TailWF (a ++ b) (ra ++ rb) ↔ TailWF a ra ∧ TailWF b rb)
  | [], [], b, rb, _ => by simp [TailWF]
  | x :: a, r :: ra, b, rb, h => by
    simp only [List.cons_append, TailWF]
    rw [TailWF_append a ra b rb (by simpa using h)]
    constructor
    · rintro ⟨h1, h2, h3, h4⟩; exact ⟨⟨h1, h2, h3⟩, h4⟩
    · rintro ⟨⟨h1, h2, h3⟩, h4⟩; exact ⟨h1, h2, h3, h4⟩
  | [], _ :: _, _, _, h => by simp at h
  | _ :: _, [], _, _, h => by simp at h

/-- a non-empty tail list ends in a last segment -/
theorem TailWF.split_last {t : List Seg} {rs : List (List Bytes)} (h : TailWF t rs) (hne : t ≠ []) :
    ∃ ti tl rsi rl, t = ti ++ [tl] ∧ rs = rsi ++ [rl] ∧ TailWF ti rsi ∧ SegWF tl [] rl ∧ rl ≠ [] ∧
      ti.length = rsi.length := by
  induction t generalizing rs with
  | nil => exact absurd rfl hne
  | cons x xs ih =>
    cases rs with
    | nil => cases h
    | cons r rs' =>
      obtain ⟨hx, hr, hxs⟩ := h
      by_cases hxe : xs = []
      · subst hxe
        have : rs' = [] := by cases rs' with
          | nil => rfl
          | cons _ _ => cases hxs
        subst this
        exact ⟨[], x, [], r, rfl, rfl, trivial, hx, hr, rfl⟩
      · obtain ⟨ti, tl, rsi, rl, h1, h2, h3, h4, h5, h6⟩ := ih hxs hxe
        exact ⟨x :: ti, tl, r :: rsi, rl, by simp [h1], by simp [h2], ⟨hx, hr, h3⟩, h4, h5, by simp [h6]⟩

theorem getLast?_append_one {α} (a : List α) (x : α) : (a ++ [x]).getLast? = some x := by simp

theorem setLast_append_one (a : List Seg) (x y : Seg) : setLast (a ++ [x]) y = a ++ [y] := by
  simp [setLast]

theorem append_fresh (g : Nat) (b : Bytes) (h8 : 8 ≤ g) (hb : b.length + 16 < 2^63) :
    ∃ f, (freshS g).append b = .ok f ∧ SegWF f [] [b] ∧ f.size = 16 + b.length := by
  have hnf : ¬ (freshS g).size > (freshS g).maxSize := by simp [freshS, Seg.size, be64_length]; omega
  obtain ⟨f, hf, hwf, _⟩ := append_wf (fresh_wf g) b hnf (by simp [freshS, Seg.size, be64_length]; omega)
  refine ⟨f, hf, by simpa using hwf, ?_⟩
  have := hwf.size_eq
  simp at this; omega

/-- `Queue.Append`: rejected without any change, or the entry is added at the end. -/
theorem qwf_append {q : Q} {done r rs B} (h : QWF q.segs q.maxSeg done r rs B) (b : Bytes)
    (hB : b.length + 16 ≤ B) :
    ((q.append b).2 = .full ∧ (q.append b).1 = q) ∨
    ((q.append b).2 = .ok ∧ (q.append b).1.maxSeg = q.maxSeg ∧ (q.append b).1.maxSize = q.maxSize ∧
      ∃ r' rs', QWF (q.append b).1.segs q.maxSeg done r' rs' (B - (b.length + 16)) ∧
        r' ++ rs'.flatten = r ++ rs.flatten ++ [b]) := by
  obtain ⟨hd, t, hsegs, hwf, htail, hemp⟩ := h.shape
  have h8 := h.maxSeg8
  have hB8 := h.room8
  unfold Q.append
  by_cases hfull : q.total + b.length > q.maxSize
  · left; simp [hfull]
  · right
    rw [if_neg hfull]
    by_cases ht : t = []
    · -- the head is the tail
      subst ht
      have hrs : rs = [] := by cases rs with
        | nil => rfl
        | cons _ _ => cases htail
      subst hrs
      have hroom := h.room hd (by simp [hsegs])
      simp only [hsegs, List.getLast?_singleton]
      by_cases hsf : hd.size > hd.maxSize
      · -- rollover into a new segment (the head is not exhausted then)
        have hrne : r ≠ [] := by intro hr; have := (hemp hr).2; omega
        have happ : hd.append b = .error .segFull := by simp [Seg.append, hsf]
        obtain ⟨f, hf, hfw, hfs⟩ := append_fresh q.maxSeg b h8 (by omega)
        simp only [happ]
        rw [show (⟨be64 0, 0, q.maxSeg⟩ : Seg) = freshS q.maxSeg from rfl, hf]
        simp only [Q.addSegment, hsegs]
        refine ⟨by first | rfl | trivial, by first | rfl | trivial, by first | rfl | trivial, r, [[b]], ⟨⟨hd, [f], ?_, hwf, ⟨hfw, by simp, trivial⟩, fun he => absurd he hrne⟩, h8, ?_⟩, by simp⟩
        · simp [setLast]
        · intro x hx
          simp [setLast] at hx
          rcases hx with rfl | rfl
          · omega
          · omega
      · obtain ⟨hd', happ, hwf', _⟩ := append_wf hwf b hsf (by omega)
        simp only [happ]
        refine ⟨by first | rfl | trivial, by first | rfl | trivial, by first | rfl | trivial, r ++ [b], [], ⟨⟨hd', [], by simp [setLast], hwf', trivial, fun he => by simp at he⟩, h8, ?_⟩, by simp⟩
        intro x hx
        simp [setLast] at hx
        subst hx
        have := hwf'.size_eq; have := hwf.size_eq
        simp [encRecs_append] at *; omega
    · -- a later segment is the tail
      obtain ⟨ti, tl, rsi, rl, ht', hrs', hti, htl, hrl, hlen⟩ := htail.split_last ht
      subst ht' hrs'
      have hroomtl := h.room tl (by simp [hsegs])
      have hlast : q.segs.getLast? = some tl := by
        rw [hsegs, show hd :: (ti ++ [tl]) = (hd :: ti) ++ [tl] by simp]; exact getLast?_append_one _ _
      simp only [hlast]
      by_cases hsf : tl.size > tl.maxSize
      · have happ : tl.append b = .error .segFull := by simp [Seg.append, hsf]
        obtain ⟨f, hf, hfw, hfs⟩ := append_fresh q.maxSeg b h8 (by omega)
        simp only [happ]
        rw [show (⟨be64 0, 0, q.maxSeg⟩ : Seg) = freshS q.maxSeg from rfl, hf]
        simp only [Q.addSegment, hsegs]
        have hset : setLast (hd :: (ti ++ [tl]) ++ [(⟨be64 0, 0, q.maxSeg⟩ : Seg)]) f = hd :: (ti ++ [tl] ++ [f]) := by
          rw [setLast_append_one]; simp
        refine ⟨by first | rfl | trivial, by first | rfl | trivial, by first | rfl | trivial, r, rsi ++ [rl] ++ [[b]], ⟨⟨hd, ti ++ [tl] ++ [f], ?_, hwf, ?_, ?_⟩, h8, ?_⟩, by simp⟩
        · exact hset
        · rw [TailWF_append _ _ _ _ (by simp [hlen])]
          exact ⟨htail, hfw, by simp, trivial⟩
        · intro he; have := (hemp he).1; simp at this
        · intro x hx
          rw [hset] at hx
          simp at hx
          rcases hx with rfl | hx | rfl | rfl
          · have := h.room x (by simp [hsegs]); omega
          · have := h.room x (by simp [hsegs, hx]); omega
          · omega
          · omega
      · obtain ⟨tl', happ, hwf', _⟩ := append_wf htl b hsf (by omega)
        simp only [happ]
        have hset : setLast q.segs tl' = hd :: (ti ++ [tl']) := by
          rw [hsegs, show hd :: (ti ++ [tl]) = (hd :: ti) ++ [tl] by simp, setLast_append_one]; simp
        refine ⟨by first | rfl | trivial, by first | rfl | trivial, by first | rfl | trivial, r, rsi ++ [rl ++ [b]], ⟨⟨hd, ti ++ [tl'], hset, hwf, ?_, ?_⟩, h8, ?_⟩, by simp⟩
        · rw [TailWF_append _ _ _ _ hlen]
          exact ⟨hti, hwf', by simp, trivial⟩
        · intro he; have := (hemp he).1; simp at this
        · intro x hx
          rw [hset] at hx
          simp at hx
          rcases hx with rfl | hx | rfl
          · have := h.room x (by simp [hsegs]); omega
          · have := h.room x (by simp [hsegs, hx]); omega
          · have := hwf'.size_eq; have := htl.size_eq
            simp [encRecs_append] at *; omega


theorem qwf_scan_nil {q : Q} {done rs B} (h : QWF q.segs q.maxSeg done [] rs B) (n : Nat) :
    q.scan n = (q, .eof) := by
  obtain ⟨hd, t, hsegs, hwf, _, _⟩ := h.shape
  have := (hwf.empty_iff).mpr rfl
  simp only [Seg.empty, beq_iff_eq] at this
  simp [Q.scan, hsegs, this]

/-- a scanner pass: delivers the next `n` records of the head segment, then advances past them -/
theorem qwf_scan_cons {q : Q} {done x r rs B} (h : QWF q.segs q.maxSeg done (x :: r) rs B) (n : Nat)
    (hne : ∀ y ∈ x :: r, y ≠ []) :
    (q.scan n).2 = .got ((x :: r).take n) true ∧
    (q.scan n).1.maxSeg = q.maxSeg ∧ (q.scan n).1.maxSize = q.maxSize ∧
    ∃ done' r' rs', QWF (q.scan n).1.segs q.maxSeg done' r' rs' B ∧
      r' ++ rs'.flatten = (x :: r).drop n ++ rs.flatten ∧ ∃ p, done ++ (x :: r).take n = p ++ done' := by
  obtain ⟨hd, t, hsegs, hwf, htail, _⟩ := h.shape
  have hnemp : ¬ hd.pos = hd.size - 8 := by
    intro hc
    have : hd.empty = true := by simp [Seg.empty, hc]
    have := (hwf.empty_iff).mp this
    simp at this
  have hsplit : SegWF hd done ([] ++ (x :: r)) := by simpa using hwf
  obtain ⟨sc, hsc, hpos, herr⟩ := scanMany_wf n [] (x :: r) hsplit hne
  simp only [encRecs_nil, List.length_nil, Nat.add_zero, List.nil_append] at hsc hpos
  have hwf2 : SegWF hd done ((x :: r).take n ++ (x :: r).drop n) := by simpa using hwf
  obtain ⟨hw1, hm1, he1⟩ := advanceTo_wf hwf2
  have hsa : hd.scanAdvance sc = hd.advanceTo ((hd.pos + (encRecs ((x :: r).take n)).length : Nat) : Int) := by
    simp [Seg.scanAdvance, herr, hpos]
  generalize hh1 : hd.advanceTo ((hd.pos + (encRecs ((x :: r).take n)).length : Nat) : Int) = res1 at *
  obtain ⟨h1, e1⟩ := res1
  simp only at hw1 hm1 he1
  have hroom1 : ∀ y ∈ h1 :: t, y.size + B < 2^63 := by
    intro y hy
    rcases List.mem_cons.mp hy with rfl | hy
    · have := h.room hd (by simp [hsegs])
      have := hwf.size_eq; have := hw1.size_eq
      have hl : (encRecs (done ++ List.take n (x :: r))).length + (encRecs (List.drop n (x :: r))).length
          = (encRecs done).length + (encRecs (x :: r)).length := by
        rw [encRecs_append, List.length_append, Nat.add_assoc, ← List.length_append, ← encRecs_append,
          List.take_append_drop]
      omega
    · exact h.room y (by simp [hsegs, hy])
  by_cases hdn : (x :: r).drop n = []
  · -- the whole head segment was scanned: EOF, retried, trimmed
    rw [hdn] at hw1 he1
    simp only [if_true] at he1
    have hw1' : SegWF h1 (done ++ List.take n (x :: r)) ([] ++ []) := by simpa using hw1
    obtain ⟨hw2, hm2, he2⟩ := advanceTo_wf hw1'
    simp only [encRecs_nil, List.length_nil, Nat.add_zero, if_true] at hw2 he2
    have hp1 : h1.pos = hd.pos + (encRecs ((x :: r).take n)).length := by
      have := hw1.pos_eq; have := hwf.pos_eq
      simp [encRecs_append] at *; omega
    have hsa2 : h1.scanAdvance sc = h1.advanceTo ((h1.pos : Nat) : Int) := by
      simp [Seg.scanAdvance, herr, hpos, hp1]
    generalize hh2 : h1.advanceTo ((h1.pos : Nat) : Int) = res2 at *
    obtain ⟨h2, e2⟩ := res2
    simp only at hw2 hm2 he2
    have hroom2 : ∀ y ∈ h2 :: t, y.size + B < 2^63 := by
      intro y hy
      rcases List.mem_cons.mp hy with rfl | hy
      · have := hroom1 h1 (by simp)
        have := hw1.size_eq; have := hw2.size_eq
        simp at *; omega
      · exact hroom1 y (by simp [hy])
    have hq : q.scan n = (({ q with segs := h2 :: t } : Q).trimHead false, .got ((x :: r).take n) true) := by
      simp only [Q.scan, hsegs, if_neg hnemp, hsc, hsa, he1, hsa2, he2]
    have := qwf_after_head (q := q) (done2 := done ++ List.take n (x :: r)) (r2 := [])
      (by simpa using hw2) htail h.maxSeg8 hroom2
    simp only [if_true] at this
    rw [hq]
    simp only [hdn]
    obtain ⟨t1, t2, t3⟩ := this
    exact ⟨by first | rfl | trivial, t1, t2, t3⟩
  · simp only [hdn, if_false] at he1
    have hq : q.scan n = (({ q with segs := h1 :: t } : Q), .got ((x :: r).take n) true) := by
      simp only [Q.scan, hsegs, if_neg hnemp, hsc, hsa, he1]
    have := qwf_after_head (q := q) hw1 htail h.maxSeg8 hroom1
    simp only [hdn, if_false] at this
    rw [hq]
    obtain ⟨_, _, t3⟩ := this
    exact ⟨rfl, rfl, rfl, t3⟩


/-- non-head segments right after `newSegment`: nothing consumed; may be empty -/
def TailWF0 : List Seg → List (List Bytes) → Prop
  | [], [] => True
  | x :: xs, r :: rs => SegWF x [] r ∧ TailWF0 xs rs
  | _, _ => False

theorem TailWF.toTailWF0 : ∀ {t : List Seg} {rs : List (List Bytes)}, TailWF t rs → TailWF0 t rs
  | [], [], _ => trivial
  | _ :: _, _ :: _, h => ⟨h.1, TailWF.toTailWF0 h.2.2⟩
  | [], _ :: _, h => by cases h
  | _ :: _, [], h => by cases h

/-- `loadSegments` drops the empty segments -/
theorem filter_tail : ∀ (ts : List Seg) (rsT : List (List Bytes)), TailWF0 ts rsT →
    ∃ rs', TailWF (ts.filter (fun s => !s.empty)) rs' ∧ rs'.flatten = rsT.flatten
  | [], [], _ => ⟨[], trivial, rfl⟩
  | x :: xs, r :: rs, h => by
    obtain ⟨rs', h1, h2⟩ := filter_tail xs rs h.2
    by_cases hr : r = []
    · have : x.empty = true := (h.1.empty_iff).mpr hr
      exact ⟨rs', by simp [List.filter, this]; exact h1, by simp [hr, h2]⟩
    · have : x.empty = false := by
        cases he : x.empty with
        | false => rfl
        | true => exact absurd ((h.1.empty_iff).mp he) hr
      exact ⟨r :: rs', by simp [List.filter, this]; exact ⟨h.1, hr, h1⟩, by simp [h2]⟩
  | [], _ :: _, h => by cases h
  | _ :: _, [], h => by cases h

theorem filter_sub (ts : List Seg) : ∀ x ∈ ts.filter (fun s => !s.empty), x ∈ ts := by
  intro x hx; exact (List.mem_filter.mp hx).1

/-- `Queue.Open` once every segment file has been opened (`newSegment`) into a
    well-formed segment: empty segments are dropped, a new one is added if none is
    left; the unconsumed records are kept, in order. -/
theorem qOpen_core (m g B : Nat) (files : List Bytes) (h0 : Seg) (ts : List Seg)
    (d0 r0 : List Bytes) (rsT : List (List Bytes))
    (hmap : files.mapM (newSeg verifyAll g) = some (h0 :: ts))
    (hw0 : SegWF h0 d0 r0) (htl : TailWF0 ts rsT) (h8 : 8 ≤ g) (hm : ¬ m < 2 * g)
    (hroom : ∀ x ∈ h0 :: ts, x.size + B < 2^63) :
    ∃ q', qOpen verifyAll m g files = some q' ∧ q'.maxSeg = g ∧ q'.maxSize = m ∧
      ∃ done' r' rs', QWF q'.segs g done' r' rs' B ∧ r' ++ rs'.flatten = r0 ++ rsT.flatten ∧
        (done' = d0 ∨ (done' = [] ∧ r0 = [])) := by
  obtain ⟨rs', htw, hfl⟩ := filter_tail ts rsT htl
  have hB : 8 + B < 2^63 := by
    have := hroom h0 (by simp); have := hw0.size_eq; omega
  unfold qOpen
  rw [if_neg hm, hmap]
  simp only []
  by_cases hr0 : r0 = []
  · -- the head segment is exhausted: dropped
    have he0 : h0.empty = true := (hw0.empty_iff).mpr hr0
    have hfil : (h0 :: ts).filter (fun s => !s.empty) = ts.filter (fun s => !s.empty) := by
      simp [List.filter, he0]
    rw [hfil]
    cases hts : ts.filter (fun s => !s.empty) with
    | nil =>
      rw [hts] at htw
      have hrs' : rs' = [] := by cases rs' with
        | nil => rfl
        | cons _ _ => cases htw
      simp only [List.isEmpty_nil, if_true, Q.addSegment, List.nil_append]
      have hcur : (⟨be64 0, 0, g⟩ : Seg).current = .error .eof := current_wf_nil (fresh_wf g)
      simp only [hcur]
      obtain ⟨t1, t2, t3⟩ := trimHead_single
        ({ segs := [⟨be64 0, 0, g⟩], maxSize := m, maxSeg := g, total := 0 } : Q) ⟨be64 0, 0, g⟩ rfl
      refine ⟨_, rfl, t2, t3, [], [], [], ?_, by simp [hr0, ← hfl, hrs'], Or.inr ⟨rfl, hr0⟩⟩
      rw [t1]
      by_cases hf : (⟨be64 0, 0, g⟩ : Seg).full = true
      · rw [if_pos hf]; exact qwf_fresh g B h8 hB
      · rw [if_neg hf]; exact qwf_fresh g B h8 hB
    | cons h2 t2 =>
      rw [hts] at htw
      cases rs' with
      | nil => cases htw
      | cons r2 rs2 =>
        obtain ⟨hw2, hne2, htw2⟩ := htw
        simp only [List.isEmpty_cons, Bool.false_eq_true, if_false]
        have hcur : ∃ y, h2.current = .ok y := by
          cases r2 with
          | nil => exact absurd rfl hne2
          | cons y r2' => exact ⟨y, current_wf_cons hw2⟩
        obtain ⟨y, hy⟩ := hcur
        simp only [hy]
        refine ⟨_, rfl, rfl, rfl, [], r2, rs2, ⟨⟨h2, t2, rfl, hw2, htw2, fun he => absurd he hne2⟩, h8, ?_⟩,
          by simp [hr0, ← hfl], Or.inr ⟨rfl, hr0⟩⟩
        intro x hx
        have : x ∈ ts := filter_sub ts x (by rw [hts]; exact hx)
        exact hroom x (by simp [this])
  · have he0 : h0.empty = false := by
      cases he : h0.empty with
      | false => rfl
      | true => exact absurd ((hw0.empty_iff).mp he) hr0
    have hfil : (h0 :: ts).filter (fun s => !s.empty) = h0 :: ts.filter (fun s => !s.empty) := by
      simp [List.filter, he0]
    rw [hfil]
    simp only [List.isEmpty_cons, Bool.false_eq_true, if_false]
    have hcur : ∃ y, h0.current = .ok y := by
      cases r0 with
      | nil => exact absurd rfl hr0
      | cons y r' => exact ⟨y, current_wf_cons hw0⟩
    obtain ⟨y, hy⟩ := hcur
    simp only [hy]
    refine ⟨_, rfl, rfl, rfl, d0, r0, rs', ⟨⟨h0, _, rfl, hw0, htw, fun he => absurd he hr0⟩, h8, ?_⟩,
      by simp [hfl], Or.inl rfl⟩
    intro x hx
    rcases List.mem_cons.mp hx with rfl | hx
    · exact hroom x (by simp)
    · exact hroom x (by simp [filter_sub ts x hx])


/-- what `newSegment` makes of an intact segment: same file and head, `maxSize` re-derived -/
def reseat (g : Nat) (s : Seg) : Seg := ⟨s.file, s.pos, max g s.file.length⟩

theorem reseat_size (g : Nat) (s : Seg) : (reseat g s).size = s.size := rfl

theorem reseat_wf (g : Nat) {s : Seg} {d r} (h : SegWF s d r) : SegWF (reseat g s) d r := by
  refine ⟨h.file_eq, h.pos_eq, ?_, h.small⟩
  intro x hx
  have := mem_encRecs_length hx
  have := h.size_eq
  show x.length ≤ max g s.file.length
  have hsz : s.file.length = s.size := rfl
  omega

theorem newSeg_reseat (g : Nat) {s : Seg} {d r} (h : SegWF s d r) :
    newSeg verifyAll g s.file = some (reseat g s) := newSeg_wf g h

theorem mapM_newSeg_tail (g : Nat) : ∀ (ts : List Seg) (rs : List (List Bytes)), TailWF0 ts rs →
    (ts.map Seg.file).mapM (newSeg verifyAll g) = some (ts.map (reseat g)) ∧ TailWF0 (ts.map (reseat g)) rs
  | [], [], _ => ⟨rfl, trivial⟩
  | x :: xs, r :: rs, h => by
    obtain ⟨h1, h2⟩ := mapM_newSeg_tail g xs rs h.2
    refine ⟨?_, reseat_wf g h.1, h2⟩
    simp only [List.map_cons, List.mapM_cons, newSeg_reseat g h.1, h1]
    rfl
  | [], _ :: _, h => by cases h
  | _ :: _, [], h => by cases h

theorem TailWF0_append : ∀ (a : List Seg) (ra : List (List Bytes)) (b : List Seg) (rb : List (List Bytes)),
    a.length = ra.length → (TailWF0 (a ++ b) (ra ++ rb) ↔ TailWF0 a ra ∧ TailWF0 b rb)
  | [], [], b, rb, _ => by simp [TailWF0]
  | x :: a, r :: ra, b, rb, h => by
    simp only [List.cons_append, TailWF0]
    rw [TailWF0_append a ra b rb (by simpa using h)]
    constructor
    · rintro ⟨h1, h3, h4⟩; exact ⟨⟨h1, h3⟩, h4⟩
    · rintro ⟨⟨h1, h3⟩, h4⟩; exact ⟨h1, h3, h4⟩
  | [], _ :: _, _, _, h => by simp at h
  | _ :: _, [], _, _, h => by simp at h

theorem mapM_append_some {α β} (f : α → Option β) (a b : List α) (a' b' : List β)
    (ha : a.mapM f = some a') (hb : b.mapM f = some b') : (a ++ b).mapM f = some (a' ++ b') := by
  induction a generalizing a' with
  | nil => simp at ha; subst ha; simpa using hb
  | cons x xs ih =>
    simp only [List.mapM_cons] at ha
    cases hx : f x with
    | none => simp [hx] at ha
    | some y =>
      cases hxs : xs.mapM f with
      | none => simp [hx, hxs] at ha
      | some ys =>
        simp [hx, hxs] at ha
        subst ha
        simp [List.mapM_cons, hx, ih ys hxs]

/-- **Clean reopen**: `Close` + `Open` keeps every unconsumed record, in order. -/
theorem qwf_reopen {q : Q} {done r rs B} (h : QWF q.segs q.maxSeg done r rs B) (hm : ¬ q.maxSize < 2 * q.maxSeg) :
    ∃ q', qOpen verifyAll q.maxSize q.maxSeg q.files = some q' ∧ q'.maxSeg = q.maxSeg ∧ q'.maxSize = q.maxSize ∧
      ∃ done' r' rs', QWF q'.segs q.maxSeg done' r' rs' B ∧ r' ++ rs'.flatten = r ++ rs.flatten ∧
        (done' = done ∨ (done' = [] ∧ r = [])) := by
  obtain ⟨hd, t, hsegs, hwf, htail, _⟩ := h.shape
  obtain ⟨hmap, htl⟩ := mapM_newSeg_tail q.maxSeg t rs htail.toTailWF0
  have hfiles : q.files.mapM (newSeg verifyAll q.maxSeg) = some (reseat q.maxSeg hd :: t.map (reseat q.maxSeg)) := by
    simp only [Q.files, hsegs, List.map_cons, List.mapM_cons, newSeg_reseat _ hwf, hmap]
    rfl
  refine qOpen_core q.maxSize q.maxSeg B q.files _ _ done r rs hfiles (reseat_wf _ hwf) htl h.maxSeg8 hm ?_
  intro x hx
  rcases List.mem_cons.mp hx with rfl | hx
  · exact h.room hd (by simp [hsegs])
  · obtain ⟨y, hy, rfl⟩ := List.mem_map.mp hx
    exact h.room y (by simp [hsegs, hy])



theorem QWF.mono {segs g done r rs B B'} (h : QWF segs g done r rs B) (hB : B' ≤ B) : QWF segs g done r rs B' :=
  ⟨h.shape, h.maxSeg8, fun x hx => by have := h.room x hx; omega⟩

/-- the three outcomes of `Recovered`, as a shape -/
theorem Recovered.shape {t : Seg} {done rest : List Bytes} {b : Bytes} (h : Recovered t done rest [b]) :
    ∃ d0 r0, SegWF t d0 r0 ∧
      ((d0 = done ∧ r0 = rest) ∨ (d0 = done ∧ r0 = rest ++ [b]) ∨ (d0 = [] ∧ r0 = done ++ rest)) := by
  cases h with
  | absent h => exact ⟨done, rest, h, Or.inl ⟨rfl, rfl⟩⟩
  | complete h => exact ⟨done, rest ++ [b], h, Or.inr (Or.inl ⟨rfl, rfl⟩)⟩
  | replay h => exact ⟨[], done ++ rest, h, Or.inr (Or.inr ⟨rfl, rfl⟩)⟩

theorem shape_size {t s : Seg} {done rest d0 r0 : List Bytes} {b : Bytes} (hs : SegWF s done rest) (ht : SegWF t d0 r0)
    (hc : (d0 = done ∧ r0 = rest) ∨ (d0 = done ∧ r0 = rest ++ [b]) ∨ (d0 = [] ∧ r0 = done ++ rest)) :
    t.size ≤ s.size + 8 + b.length := by
  have h1 := hs.size_eq; have h2 := ht.size_eq
  rcases hc with ⟨rfl, rfl⟩ | ⟨rfl, rfl⟩ | ⟨rfl, rfl⟩ <;> simp [encRecs_append] at * <;> omega


/-- `Open` when the head and the segments `tp` are intact and the LAST file has been
    recovered into `t'` (holding `r0'`, possibly nothing) -/
theorem qOpen_tail_recovered (m g B : Nat) (hd : Seg) (tp : List Seg) (t' : Seg) (torn : Bytes)
    (done r : List Bytes) (rsp : List (List Bytes)) (r0' : List Bytes)
    (hwf : SegWF hd done r) (htp : TailWF tp rsp) (ht' : SegWF t' [] r0')
    (hnew : newSeg verifyAll g torn = some t') (h8 : 8 ≤ g) (hm : ¬ m < 2 * g)
    (hroom : ∀ x ∈ hd :: (tp ++ [t']), x.size + B < 2^63) :
    ∃ q', qOpen verifyAll m g (hd.file :: (tp.map Seg.file ++ [torn])) = some q' ∧ q'.maxSeg = g ∧ q'.maxSize = m ∧
      ∃ done' r' rs', QWF q'.segs g done' r' rs' B ∧ r' ++ rs'.flatten = r ++ rsp.flatten ++ r0' ∧
        (done' = done ∨ (done' = [] ∧ r = [])) := by
  obtain ⟨hmap, htl⟩ := mapM_newSeg_tail g tp rsp htp.toTailWF0
  have hlast : [torn].mapM (newSeg verifyAll g) = some [t'] := by
    simp only [List.mapM_cons, List.mapM_nil, hnew]; rfl
  have hmap2 := mapM_append_some _ _ _ _ _ hmap hlast
  have hfiles : (hd.file :: (tp.map Seg.file ++ [torn])).mapM (newSeg verifyAll g)
      = some (reseat g hd :: (tp.map (reseat g) ++ [t'])) := by
    simp only [List.mapM_cons, newSeg_reseat g hwf, hmap2]; rfl
  have htl2 : TailWF0 (tp.map (reseat g) ++ [t']) (rsp ++ [r0']) := by
    rw [TailWF0_append _ _ _ _ (by simp [htp.length_eq])]
    exact ⟨htl, ht', trivial⟩
  obtain ⟨q', h1, h2, h3, done', r', rs', h4, h5, h6⟩ :=
    qOpen_core m g B _ _ _ done r (rsp ++ [r0']) hfiles (reseat_wf g hwf) htl2 h8 hm (by
      intro x hx
      rcases List.mem_cons.mp hx with rfl | hx
      · exact hroom hd (by simp)
      · rcases List.mem_append.mp hx with hx | hx
        · obtain ⟨y, hy, rfl⟩ := List.mem_map.mp hx
          exact hroom y (by simp [hy])
        · simp at hx; subst hx; exact hroom x (by simp))
  exact ⟨q', h1, h2, h3, done', r', rs', h4, by rw [h5]; simp, h6⟩


/-- What a reopen after a crash may do to the abstract content `done ++ R` (consumed
    records still on disk, then the unconsumed ones): the in-flight entry is there
    (`extra = [b]`) or not, and the queue resumes at some position `j` of
    `done ++ R ++ extra` with `done'` counted as consumed — never beyond the old head
    position plus `slack` (1 for a crash inside an advance), so nothing unconsumed is lost. -/
def CrashOutcome (done R : List Bytes) (b : Bytes) (slack : Nat) (done' Rm : List Bytes) : Prop :=
  ∃ j extra, (extra = [] ∨ extra = [b]) ∧ j + done'.length ≤ done.length + slack ∧
    done' ++ Rm = (done ++ R ++ extra).drop j

theorem outcome_of_core {done R : List Bytes} {b : Bytes} {done' Rm d0 r0 rest0 extra : List Bytes}
    (hex : extra = [] ∨ extra = [b])
    (hd : done' = d0 ∨ (done' = [] ∧ r0 = []))
    (hRm : Rm = r0 ++ rest0)
    (hcase : (d0 = done ∧ r0 ++ rest0 = R ++ extra) ∨ (d0 = [] ∧ r0 ++ rest0 = done ++ R ∧ extra = [])) :
    CrashOutcome done R b 0 done' Rm := by
  rcases hcase with ⟨rfl, hR⟩ | ⟨rfl, hR, rfl⟩
  · rcases hd with rfl | ⟨rfl, hr0⟩
    · exact ⟨0, extra, hex, by simp, by rw [hRm, hR]; simp⟩
    · exact ⟨d0.length, extra, hex, by simp, by rw [hRm, hR]; simp⟩
  · have : done' = [] := by rcases hd with h | ⟨h, _⟩ <;> exact h
    subst this
    exact ⟨0, [], Or.inl rfl, by simp, by rw [hRm, hR]; simp⟩


theorem setLastB_append_one (a : List Bytes) (x y : Bytes) : setLastB (a ++ [x]) y = a ++ [y] := by
  simp [setLastB]

/-- **Crash inside `Queue.Append`, then reopen** — every cut that is not footer-like. -/
theorem qwf_crashAppend {q : Q} {done r rs B} (h : QWF q.segs q.maxSeg done r rs B)
    (hm : ¬ q.maxSize < 2 * q.maxSeg) (b : Bytes) (k : Nat) (hB : b.length + 16 ≤ B)
    (hgood : ∀ o, (q.crashAppendFiles b k).2 = some o → o.footerLike = false) :
    ∃ q', qOpen verifyAll q.maxSize q.maxSeg (q.crashAppendFiles b k).1 = some q' ∧
      q'.maxSeg = q.maxSeg ∧ q'.maxSize = q.maxSize ∧
      ∃ done' r' rs', QWF q'.segs q.maxSeg done' r' rs' (B - (b.length + 16)) ∧
        CrashOutcome done (r ++ rs.flatten) b 0 done' (r' ++ rs'.flatten) := by
  obtain ⟨hd, t, hsegs, hwf, htail, hemp⟩ := h.shape
  have h8 := h.maxSeg8
  have hB8 := h.room8
  have hmono := h.mono (Nat.sub_le B (b.length + 16))
  -- no write: a plain reopen
  have plain : ∀ files, files = q.files →
      ∃ q', qOpen verifyAll q.maxSize q.maxSeg files = some q' ∧
        q'.maxSeg = q.maxSeg ∧ q'.maxSize = q.maxSize ∧
        ∃ done' r' rs', QWF q'.segs q.maxSeg done' r' rs' (B - (b.length + 16)) ∧
          CrashOutcome done (r ++ rs.flatten) b 0 done' (r' ++ rs'.flatten) := by
    intro files hf
    rw [hf]
    obtain ⟨q', h1, h2, h3, done', r', rs', h4, h5, h6⟩ := qwf_reopen hmono hm
    refine ⟨q', h1, h2, h3, done', r', rs', h4, ?_⟩
    exact outcome_of_core (d0 := done) (r0 := r) (rest0 := rs.flatten) (extra := []) (Or.inl rfl) h6 (by rw [h5])
      (Or.inl ⟨rfl, by simp⟩)
  unfold Q.crashAppendFiles at hgood ⊢
  by_cases hfull : q.total + b.length > q.maxSize
  · simp only [hfull, if_true]; exact plain _ rfl
  · simp only [hfull, if_false] at hgood ⊢
    clear plain
    by_cases ht : t = []
    · -- single segment
      subst ht
      have hrs : rs = [] := by cases rs with
        | nil => rfl
        | cons _ _ => cases htail
      subst hrs
      have hroom := h.room hd (by simp [hsegs])
      simp only [hsegs, List.getLast?_singleton] at hgood ⊢
      by_cases hsf : hd.size > hd.maxSize
      · -- rollover: the torn write is in a fresh segment file
        have hrne : r ≠ [] := by intro hr; have := (hemp hr).2; omega
        have happ : hd.append b = .error .segFull := by simp [Seg.append, hsf]
        obtain ⟨f, hf, hfw, hfs⟩ := append_fresh q.maxSeg b h8 (by omega)
        have hf' : (⟨be64 0, 0, q.maxSeg⟩ : Seg).append b = .ok f := hf
        simp only [happ, hf'] at hgood ⊢
        have hnf := hgood _ rfl
        obtain ⟨t', hnew, hrec⟩ := torn_append_recovers q.maxSeg (fresh_wf q.maxSeg) b hf
          (by simp [freshS, Seg.size, be64_length]; omega) k hnf
        obtain ⟨d0, r0, hw0, hc⟩ := hrec.shape
        have hd0 : d0 = [] := by rcases hc with ⟨h1, _⟩ | ⟨h1, _⟩ | ⟨h1, _⟩ <;> exact h1
        subst hd0
        have hsz := shape_size (b := b) (fresh_wf q.maxSeg) hw0 hc
        have hfsz : (freshS q.maxSeg).size = 8 := by simp [freshS, Seg.size, be64_length]
        rw [hfsz] at hsz
        obtain ⟨q', h1, h2, h3, done', r', rs', h4, h5, h6⟩ :=
          qOpen_tail_recovered q.maxSize q.maxSeg (B - (b.length + 16)) hd [] t' _ done r [] r0 hwf trivial hw0
            hnew h8 hm (by
              intro x hx
              simp at hx
              rcases hx with rfl | rfl
              · omega
              · omega)
        refine ⟨q', by simpa [Q.files, hsegs, freshS] using h1, h2, h3, done', r', rs', h4, ?_⟩
        have hex : r0 = [] ∨ r0 = [b] := by
          rcases hc with ⟨_, h2⟩ | ⟨_, h2⟩ | ⟨_, h2⟩ <;> simp [h2]
        exact outcome_of_core (d0 := done) (r0 := r) (rest0 := r0) (extra := r0) hex h6 (by rw [h5]; simp)
          (Or.inl ⟨rfl, by simp⟩)
      · obtain ⟨hd', happ, hwf', _⟩ := append_wf hwf b hsf (by omega)
        simp only [happ] at hgood ⊢
        have hnf := hgood _ rfl
        obtain ⟨t', hnew, hrec⟩ := torn_append_recovers q.maxSeg hwf b happ (by omega) k hnf
        obtain ⟨d0, r0, hw0, hc⟩ := hrec.shape
        have hsz := shape_size (b := b) hwf hw0 hc
        have hfiles : [tornWrite hd.file hd'.file k].mapM (newSeg verifyAll q.maxSeg) = some [t'] := by
          simp only [List.mapM_cons, List.mapM_nil, hnew]; rfl
        obtain ⟨q', h1, h2, h3, done', r', rs', h4, h5, h6⟩ :=
          qOpen_core q.maxSize q.maxSeg (B - (b.length + 16)) _ t' [] d0 r0 [] hfiles hw0 trivial h8 hm (by
            intro x hx; simp at hx; subst hx; omega)
        refine ⟨q', by simpa [Q.files, hsegs, setLastB] using h1, h2, h3, done', r', rs', h4, ?_⟩
        rcases hc with ⟨rfl, rfl⟩ | ⟨rfl, rfl⟩ | ⟨rfl, rfl⟩
        · exact outcome_of_core (d0 := d0) (r0 := r0) (rest0 := []) (extra := []) (Or.inl rfl) h6 (by rw [h5]; simp)
            (Or.inl ⟨rfl, by simp⟩)
        · exact outcome_of_core (d0 := d0) (r0 := r ++ [b]) (rest0 := []) (extra := [b]) (Or.inr rfl) h6
            (by rw [h5]; simp) (Or.inl ⟨rfl, by simp⟩)
        · exact outcome_of_core (d0 := []) (r0 := done ++ r) (rest0 := []) (extra := []) (Or.inl rfl) h6
            (by rw [h5]; simp) (Or.inr ⟨rfl, by simp, rfl⟩)
    · -- several segments: the last one is written
      obtain ⟨ti, tl, rsi, rl, ht', hrs', hti, htl, hrl, hlen⟩ := htail.split_last ht
      subst ht' hrs'
      have hroomtl := h.room tl (by simp [hsegs])
      have hrne : r ≠ [] := by intro hr; have := (hemp hr).1; simp at this
      have hlast : q.segs.getLast? = some tl := by
        rw [hsegs, show hd :: (ti ++ [tl]) = (hd :: ti) ++ [tl] by simp]; exact getLast?_append_one _ _
      have hfilesq : q.files = hd.file :: (ti.map Seg.file ++ [tl.file]) := by simp [Q.files, hsegs]
      simp only [hlast] at hgood ⊢
      by_cases hsf : tl.size > tl.maxSize
      · have happ : tl.append b = .error .segFull := by simp [Seg.append, hsf]
        obtain ⟨f, hf, hfw, hfs⟩ := append_fresh q.maxSeg b h8 (by omega)
        have hf' : (⟨be64 0, 0, q.maxSeg⟩ : Seg).append b = .ok f := hf
        simp only [happ, hf'] at hgood ⊢
        have hnf := hgood _ rfl
        obtain ⟨t', hnew, hrec⟩ := torn_append_recovers q.maxSeg (fresh_wf q.maxSeg) b hf
          (by simp [freshS, Seg.size, be64_length]; omega) k hnf
        obtain ⟨d0, r0, hw0, hc⟩ := hrec.shape
        have hd0 : d0 = [] := by rcases hc with ⟨h1, _⟩ | ⟨h1, _⟩ | ⟨h1, _⟩ <;> exact h1
        subst hd0
        have hsz := shape_size (b := b) (fresh_wf q.maxSeg) hw0 hc
        have hfsz : (freshS q.maxSeg).size = 8 := by simp [freshS, Seg.size, be64_length]
        rw [hfsz] at hsz
        obtain ⟨q', h1, h2, h3, done', r', rs', h4, h5, h6⟩ :=
          qOpen_tail_recovered q.maxSize q.maxSeg (B - (b.length + 16)) hd (ti ++ [tl]) t' _ done r (rsi ++ [rl]) r0
            hwf htail hw0 hnew h8 hm (by
              intro x hx
              simp at hx
              rcases hx with rfl | hx | rfl | rfl
              · have := h.room x (by simp [hsegs]); omega
              · have := h.room x (by simp [hsegs, hx]); omega
              · omega
              · omega)
        refine ⟨q', by simpa [hfilesq, freshS] using h1, h2, h3, done', r', rs', h4, ?_⟩
        have hex : r0 = [] ∨ r0 = [b] := by
          rcases hc with ⟨_, h2⟩ | ⟨_, h2⟩ | ⟨_, h2⟩ <;> simp [h2]
        exact outcome_of_core (d0 := done) (r0 := r) (rest0 := (rsi ++ [rl]).flatten ++ r0) (extra := r0) hex h6
          (by rw [h5]; simp) (Or.inl ⟨rfl, by simp⟩)
      · obtain ⟨tl', happ, hwf', _⟩ := append_wf htl b hsf (by omega)
        simp only [happ] at hgood ⊢
        have hnf := hgood _ rfl
        obtain ⟨t', hnew, hrec⟩ := torn_append_recovers q.maxSeg htl b happ (by omega) k hnf
        obtain ⟨d0, r0, hw0, hc⟩ := hrec.shape
        have hd0 : d0 = [] := by rcases hc with ⟨h1, _⟩ | ⟨h1, _⟩ | ⟨h1, _⟩ <;> exact h1
        subst hd0
        have hsz := shape_size (b := b) htl hw0 hc
        obtain ⟨q', h1, h2, h3, done', r', rs', h4, h5, h6⟩ :=
          qOpen_tail_recovered q.maxSize q.maxSeg (B - (b.length + 16)) hd ti t' _ done r rsi r0
            hwf hti hw0 hnew h8 hm (by
              intro x hx
              simp at hx
              rcases hx with rfl | hx | rfl
              · have := h.room x (by simp [hsegs]); omega
              · have := h.room x (by simp [hsegs, hx]); omega
              · omega)
        have hfl : setLastB q.files (tornWrite tl.file tl'.file k)
            = hd.file :: (ti.map Seg.file ++ [tornWrite tl.file tl'.file k]) := by
          rw [hfilesq, show hd.file :: (ti.map Seg.file ++ [tl.file]) = (hd.file :: ti.map Seg.file) ++ [tl.file] by simp,
            setLastB_append_one]; simp
        refine ⟨q', by rw [hfl]; exact h1, h2, h3, done', r', rs', h4, ?_⟩
        rcases hc with ⟨_, hr0⟩ | ⟨_, hr0⟩ | ⟨_, hr0⟩
        · exact outcome_of_core (d0 := done) (r0 := r) (rest0 := rsi.flatten ++ rl) (extra := []) (Or.inl rfl) h6
            (by rw [h5, hr0]; simp) (Or.inl ⟨rfl, by simp⟩)
        · exact outcome_of_core (d0 := done) (r0 := r) (rest0 := rsi.flatten ++ (rl ++ [b])) (extra := [b]) (Or.inr rfl) h6
            (by rw [h5, hr0]; simp) (Or.inl ⟨rfl, by simp⟩)
        · exact outcome_of_core (d0 := done) (r0 := r) (rest0 := rsi.flatten ++ rl) (extra := []) (Or.inl rfl) h6
            (by rw [h5, hr0]; simp) (Or.inl ⟨rfl, by simp⟩)


theorem tornWrite_self (f : Bytes) (k : Nat) : tornWrite f f k = f := by
  simp [tornWrite]

theorem RecoveredAdv.shape {t : Seg} {done : List Bytes} {x : Bytes} {r : List Bytes} (h : RecoveredAdv t done x r) :
    ∃ d0 r0, SegWF t d0 r0 ∧
      ((d0 = done ∧ r0 = x :: r) ∨ (d0 = done ++ [x] ∧ r0 = r) ∨ (d0 = [] ∧ r0 = done ++ x :: r)) := by
  cases h with
  | absent h => exact ⟨_, _, h, Or.inl ⟨rfl, rfl⟩⟩
  | complete h => exact ⟨_, _, h, Or.inr (Or.inl ⟨rfl, rfl⟩)⟩
  | replay h => exact ⟨_, _, h, Or.inr (Or.inr ⟨rfl, rfl⟩)⟩

/-- **Crash inside `Queue.Advance` (footer rewrite), then reopen** — every cut that
    is not footer-like. -/
theorem qwf_crashAdv {q : Q} {done r rs B} (h : QWF q.segs q.maxSeg done r rs B)
    (hm : ¬ q.maxSize < 2 * q.maxSeg) (k : Nat)
    (hgood : ∀ o, (q.crashAdvFiles verifyAll k).2 = some o → o.footerLike = false) :
    ∃ q', qOpen verifyAll q.maxSize q.maxSeg (q.crashAdvFiles verifyAll k).1 = some q' ∧
      q'.maxSeg = q.maxSeg ∧ q'.maxSize = q.maxSize ∧
      ∃ done' r' rs', QWF q'.segs q.maxSeg done' r' rs' B ∧
        ∃ j, j + done'.length ≤ done.length + 1 ∧
          done' ++ (r' ++ rs'.flatten) = (done ++ (r ++ rs.flatten)).drop j := by
  obtain ⟨hd, t, hsegs, hwf, htail, hemp⟩ := h.shape
  have h8 := h.maxSeg8
  have hnew := newSeg_reseat q.maxSeg hwf
  have hws := reseat_wf q.maxSeg hwf
  unfold Q.crashAdvFiles at hgood ⊢
  simp only [hsegs, hnew] at hgood ⊢
  cases r with
  | nil =>
    -- nothing to advance past: no write
    have hadv := advance_wf_nil hws
    have hsame : tornWrite hd.file (reseat q.maxSeg hd).advance.1.file k = hd.file := by
      rw [hadv]; exact tornWrite_self _ _
    rw [hsame]
    have hf : setHead q.files hd.file = q.files := by simp [Q.files, hsegs, setHead]
    rw [hf]
    obtain ⟨q', h1, h2, h3, done', r', rs', h4, h5, h6⟩ := qwf_reopen h hm
    refine ⟨q', h1, h2, h3, done', r', rs', h4, ?_⟩
    rcases h6 with rfl | ⟨rfl, _⟩
    · exact ⟨0, by simp, by rw [h5]; simp⟩
    · exact ⟨done.length, by simp, by rw [h5]; simp⟩
  | cons x r' =>
    have hnf := hgood _ rfl
    have hfile : (reseat q.maxSeg hd).file = hd.file := rfl
    obtain ⟨t', hnewt, hrec⟩ := torn_advance_recovers q.maxSeg hws k (by rw [hfile]; exact hnf)
    rw [hfile] at hnewt
    obtain ⟨d0, r0, hw0, hc⟩ := hrec.shape
    obtain ⟨hmap, htl⟩ := mapM_newSeg_tail q.maxSeg t rs htail.toTailWF0
    have hfiles : (setHead q.files (tornWrite hd.file (reseat q.maxSeg hd).advance.1.file k)).mapM
        (newSeg verifyAll q.maxSeg) = some (t' :: t.map (reseat q.maxSeg)) := by
      simp only [Q.files, hsegs, List.map_cons, setHead, List.mapM_cons, hnewt, hmap]; rfl
    have hsz : t'.size ≤ hd.size := by
      have h1 := hwf.size_eq; have h2 := hw0.size_eq
      rcases hc with ⟨rfl, rfl⟩ | ⟨rfl, rfl⟩ | ⟨rfl, rfl⟩ <;> simp [encRecs_append] at * <;> omega
    obtain ⟨q', h1, h2, h3, done', r'', rs', h4, h5, h6⟩ :=
      qOpen_core q.maxSize q.maxSeg B _ t' _ d0 r0 rs hfiles hw0 htl h8 hm (by
        intro y hy
        rcases List.mem_cons.mp hy with rfl | hy
        · have := h.room hd (by simp [hsegs]); omega
        · obtain ⟨z, hz, rfl⟩ := List.mem_map.mp hy
          exact h.room z (by simp [hsegs, hz]))
    refine ⟨q', h1, h2, h3, done', r'', rs', h4, ?_⟩
    rcases hc with ⟨rfl, rfl⟩ | ⟨rfl, rfl⟩ | ⟨rfl, rfl⟩
    · rcases h6 with rfl | ⟨_, hr0⟩
      · exact ⟨0, by simp, by rw [h5]; simp⟩
      · simp at hr0
    · rcases h6 with rfl | ⟨rfl, rfl⟩
      · exact ⟨0, by simp, by rw [h5]; simp⟩
      · exact ⟨done.length + 1, by simp, by rw [h5]; simp [List.drop_append]⟩
    · have : done' = [] := by rcases h6 with h | ⟨h, _⟩ <;> exact h
      subst this
      exact ⟨0, by simp, by rw [h5]; simp⟩


theorem newSeg_nil (g : Nat) : newSeg verifyAll g [] = some (freshS g) := by
  simp [newSeg, freshS]

/-- **Crash while `addSegment` creates the new segment file** (before the entry is
    written), when the file is left empty or with its complete footer. -/
theorem qwf_crashSeg {q : Q} {done r rs B} (h : QWF q.segs q.maxSeg done r rs B)
    (hm : ¬ q.maxSize < 2 * q.maxSeg) (b : Bytes) (k : Nat)
    (hgood : ∀ o, (q.crashSegFiles b k).2 = some o → o.same ≠ 0) :
    ∃ q', qOpen verifyAll q.maxSize q.maxSeg (q.crashSegFiles b k).1 = some q' ∧
      q'.maxSeg = q.maxSeg ∧ q'.maxSize = q.maxSize ∧
      ∃ done' r' rs', QWF q'.segs q.maxSeg done' r' rs' B ∧ r' ++ rs'.flatten = r ++ rs.flatten ∧
        (done' = done ∨ (done' = [] ∧ r = [])) := by
  obtain ⟨hd, t, hsegs, hwf, htail, hemp⟩ := h.shape
  have h8 := h.maxSeg8
  have hB8 := h.room8
  have plain := qwf_reopen h hm
  unfold Q.crashSegFiles at hgood ⊢
  by_cases hfull : q.total + b.length > q.maxSize
  · simp only [hfull, if_true]; exact plain
  · simp only [hfull, if_false] at hgood ⊢
    have hne : q.segs ≠ [] := by rw [hsegs]; simp
    obtain ⟨tl, htl⟩ : ∃ tl, q.segs.getLast? = some tl := by
      cases hs : q.segs.getLast? with
      | none => exact absurd (List.getLast?_eq_none_iff.mp hs) hne
      | some tl => exact ⟨tl, rfl⟩
    simp only [htl] at hgood ⊢
    cases happ : tl.append b with
    | ok t' => exact plain
    | error e =>
      cases e
      simp only [happ] at hgood ⊢
      have hk := hgood _ rfl
      simp only at hk
      -- the new file: empty, or a complete zero footer
      have hnew : ∃ t', newSeg verifyAll q.maxSeg ((be64 0).take k) = some t' ∧ SegWF t' [] [] ∧ t'.size = 8 := by
        by_cases hk0 : k = 0
        · subst hk0
          exact ⟨freshS q.maxSeg, by simpa using newSeg_nil q.maxSeg, fresh_wf _, by simp [freshS, Seg.size, be64_length]⟩
        · have hk8 : k ≥ 8 := by
            apply Classical.byContradiction; intro hc; simp [hk0, hc] at hk
          have : (be64 0).take k = (freshS q.maxSeg).file := by
            rw [List.take_of_length_le (by simp [be64_length]; omega)]; rfl
          rw [this]
          exact ⟨reseat q.maxSeg (freshS q.maxSeg), newSeg_reseat _ (fresh_wf _), reseat_wf _ (fresh_wf _),
            by simp [reseat, freshS, Seg.size, be64_length]⟩
      obtain ⟨t', hnt, hwt, hst⟩ := hnew
      obtain ⟨q', h1, h2, h3, done', r', rs', h4, h5, h6⟩ :=
        qOpen_tail_recovered q.maxSize q.maxSeg B hd t t' _ done r rs [] hwf htail hwt hnt h8 hm (by
          intro x hx
          simp at hx
          rcases hx with rfl | hx | rfl
          · exact h.room x (by simp [hsegs])
          · exact h.room x (by simp [hsegs, hx])
          · omega)
      have hf : q.files ++ [(be64 0).take k] = hd.file :: (t.map Seg.file ++ [(be64 0).take k]) := by
        simp [Q.files, hsegs]
      refine ⟨q', by rw [hf]; exact h1, h2, h3, done', r', rs', h4, by rw [h5]; simp, h6⟩


end Influx.DQ
