/-
  Lemmas.SchedLog — the log invariants of the TreeScheduler model: every run continues its task's
  cron sequence (used by Props.C24).
-/
import Influx.Lemmas.Sched
set_option linter.unusedSimpArgs false
set_option linter.unusedVariables false
namespace Influx.Lemmas.Sched
open Influx.Model.Sched

/-! ### the log: what each task is scheduled with, and where its run sequence stands -/

/-- For a task id, looking back through the log (newest first): the cron and offset it was last
    scheduled with and the last scheduled time (LastScheduled, then the latest run); `none` once released. -/
def cursor (id : Nat) : List LogEv → Option (Cron × Int × Nat)
  | [] => none
  | .scheduled id' c off last :: rest => if id' = id then some (c, off, last) else cursor id rest
  | .released id' :: rest => if id' = id then none else cursor id rest
  | .took _ r _ :: rest => if r.id = id then (cursor id rest).map (fun x => (x.1, x.2.1, r.sf)) else cursor id rest
  | .finished _ _ :: rest => cursor id rest

/-- every run in the log is for exactly the cron's next time after the task's previous scheduled time,
    runs at that time plus the offset, and was not dispatched early -/
def WellOrdered : List LogEv → Prop
  | [] => True
  | .took _ r now :: rest =>
    (∃ c off t, cursor r.id rest = some (c, off, t) ∧ c t = some r.sf ∧
        r.runAt = 1000 * (r.sf : Int) + off ∧ r.runAt ≤ now) ∧ WellOrdered rest
  | _ :: rest => WellOrdered rest

def tooks (now : Int) (rs : List (Nat × Run)) : List LogEv := (rs.map (fun wr => LogEv.took wr.1 wr.2 now)).reverse

theorem tooks_cons (now : Int) (wr : Nat × Run) (rs : List (Nat × Run)) (log : List LogEv) :
    tooks now (wr :: rs) ++ log = tooks now rs ++ (LogEv.took wr.1 wr.2 now :: log) := by
  simp [tooks]

theorem cursor_tooks_other (now : Int) (id : Nat) (rs : List (Nat × Run)) (log : List LogEv)
    (h : id ∉ runIds rs) : cursor id (tooks now rs ++ log) = cursor id log := by
  induction rs generalizing log with
  | nil => simp [tooks]
  | cons wr rs ih =>
    rw [tooks_cons]
    have h1 : id ∉ runIds rs := fun hh => h (by simp [runIds] at hh ⊢; exact Or.inr hh)
    have h2 : wr.2.id ≠ id := fun hh => h (by simp [runIds]; exact Or.inl hh.symm)
    rw [ih _ h1]
    simp [cursor, h2]

theorem cursor_tooks_mem (now : Int) (wr : Nat × Run) (rs : List (Nat × Run)) (log : List LogEv)
    (hn : (runIds rs).Nodup) (hm : wr ∈ rs) :
    cursor wr.2.id (tooks now rs ++ log) = (cursor wr.2.id log).map (fun x => (x.1, x.2.1, wr.2.sf)) := by
  induction rs generalizing log with
  | nil => simp at hm
  | cons a rs ih =>
    rw [tooks_cons]
    have hn' : (runIds rs).Nodup := by simp [runIds] at hn ⊢; exact hn.2
    rcases List.mem_cons.mp hm with rfl | hm'
    · have : wr.2.id ∉ runIds rs := by simp [runIds] at hn ⊢; exact hn.1
      rw [cursor_tooks_other now _ rs _ this]
      simp [cursor]
    · have hne : a.2.id ≠ wr.2.id := by
        intro hh
        have hmem : a.2.id ∈ runIds rs := by rw [hh]; exact List.mem_map.mpr ⟨wr, hm', rfl⟩
        have hnd : a.2.id ∉ runIds rs := (List.nodup_cons.mp (by simpa [runIds] using hn)).1
        exact hnd hmem
      rw [ih _ hn' hm']
      simp [cursor, hne]


def RunOK (now : Int) (log : List LogEv) (r : Run) : Prop :=
  ∃ c off t, cursor r.id log = some (c, off, t) ∧ c t = some r.sf ∧
    r.runAt = 1000 * (r.sf : Int) + off ∧ r.runAt ≤ now

theorem wellOrdered_tooks (now : Int) (rs : List (Nat × Run)) (log : List LogEv)
    (hw : WellOrdered log) (hn : (runIds rs).Nodup) (hr : ∀ wr ∈ rs, RunOK now log wr.2) :
    WellOrdered (tooks now rs ++ log) := by
  induction rs generalizing log with
  | nil => simpa [tooks] using hw
  | cons a rs ih =>
    rw [tooks_cons]
    have hnd : a.2.id ∉ runIds rs := (List.nodup_cons.mp (by simpa [runIds] using hn)).1
    have hn' : (runIds rs).Nodup := (List.nodup_cons.mp (by simpa [runIds] using hn)).2
    apply ih
    · exact ⟨hr a (by simp), hw⟩
    · exact hn'
    · intro wr hwr
      have hne : a.2.id ≠ wr.2.id := by
        intro hh
        exact hnd (by rw [hh]; exact List.mem_map.mpr ⟨wr, hwr, rfl⟩)
      obtain ⟨c, off, t, h1, h2⟩ := hr wr (List.mem_cons_of_mem _ hwr)
      exact ⟨c, off, t, by simp [cursor, hne, h1], h2⟩

/-- every queued item continues the run sequence of its task: its `next` is the cron's next time after
    the cursor, with the cron and offset the task was last scheduled with -/
def InvC (s : State) : Prop :=
  ∀ it ∈ s.queue, ∃ c off t, cursor it.id s.log = some (c, off, t) ∧ it.cron = c ∧ it.offset = off ∧
    c t = some it.next

structure InvL (s : State) : Prop where
  u : InvU s
  c : InvC s
  w : WellOrdered s.log

theorem invL_init : InvL init := ⟨invU_init, by simp [InvC, init], by simp [init, WellOrdered]⟩

theorem mem_removeId_ne {id : Nat} {q : List Item} {x : Item} (h : x ∈ removeId id q) : x.id ≠ id := by
  unfold removeId at h
  simpa using (List.mem_filter.mp h).2

theorem invL_processStep (cfg : Cfg) {s : State} (hI : InvL s) :
    InvC (processStep cfg s) ∧ WellOrdered (processStep cfg s).log := by
  have hids := dispatch_ids cfg s.now s.queue s.busy hI.u.uniq
  have hruns := dispatch_runs cfg s.now s.queue s.busy
  have hins := dispatch_ins cfg s.now s.queue s.busy
  have hsub := dispatch_kept_sublist cfg s.now s.queue s.busy
  have hrn : (runIds (dispatch cfg s.now s.queue s.busy).runs).Nodup :=
    (List.nodup_append.mp hids.2).2.1
  have hlog : (processStep cfg s).log = tooks s.now (dispatch cfg s.now s.queue s.busy).runs ++ s.log := rfl
  have hq : (processStep cfg s).queue =
      reinsert (dispatch cfg s.now s.queue s.busy).ins (dispatch cfg s.now s.queue s.busy).kept := rfl
  refine ⟨?_, ?_⟩
  · intro x hx
    rw [hq, mem_reinsert] at hx
    rw [hlog]
    rcases hx with hx | hx
    · obtain ⟨y, hy, n, hn, rfl, hmem⟩ := hins x hx
      obtain ⟨c, off, t, h1, h2, h3, h4⟩ := hI.c y hy
      have := cursor_tooks_mem s.now _ _ s.log hrn hmem
      simp only [] at this
      refine ⟨c, off, y.next, ?_, h2, h3, ?_⟩
      · rw [this, h1]; rfl
      · rw [← h2]; exact hn
    · have hxq : x ∈ s.queue := hsub.subset hx
      have hnot : x.id ∉ runIds (dispatch cfg s.now s.queue s.busy).runs := by
        intro hmem
        have hd := (List.nodup_append.mp hids.2).2.2
        exact hd x.id (List.mem_map.mpr ⟨x, hx, rfl⟩) x.id hmem rfl
      rw [cursor_tooks_other s.now _ _ s.log hnot]
      exact hI.c x hxq
  · rw [hlog]
    apply wellOrdered_tooks s.now _ s.log hI.w hrn
    intro wr hwr
    obtain ⟨y, hy, rfl, hdue⟩ := hruns wr hwr
    obtain ⟨c, off, t, h1, h2, h3, h4⟩ := hI.c y hy
    refine ⟨c, off, t, h1, h4, ?_, hdue⟩
    simp only [Item.when, h3]

theorem invL_step (r : Bool) (cfg : Cfg) {s : State} (hI : InvL s) (e : Ev) : InvL (stepEv r cfg s e) := by
  refine ⟨invU_step r cfg hI.u e, ?_, ?_⟩
  · -- InvC
    cases e with
    | schedule id c off last =>
      simp only [stepEv]
      cases h : schedule s id c off last with
      | none => simpa using hI.c
      | some s' =>
        simp only [Option.getD_some]
        obtain ⟨nt, hc, rfl⟩ := schedule_some h
        intro x hx
        simp only [] at hx ⊢
        rcases mem_insertItem.mp hx with rfl | hx
        · exact ⟨c, off, last, by simp [cursor], rfl, rfl, hc⟩
        · have hne := mem_removeId_ne hx
          obtain ⟨c', off', t, h1, h2⟩ := hI.c x (mem_removeId hx)
          exact ⟨c', off', t, by simp [cursor, Ne.symm hne, h1], h2⟩
    | release id =>
      intro x hx
      have hne := mem_removeId_ne hx
      obtain ⟨c', off', t, h1, h2⟩ := hI.c x (mem_removeId hx)
      exact ⟨c', off', t, by simp [stepEv, release, cursor, Ne.symm hne, h1], h2⟩
    | advance d => exact hI.c
    | timerFire => simp only [stepEv]; split <;> exact hI.c
    | wake => simp only [stepEv]; split <;> exact hI.c
    | iter =>
      simp only [stepEv]
      unfold iter
      split
      · exact hI.c
      · split
        · exact hI.c
        · split
          · intro x hx
            rw [(notDue_queue r s _).1] at hx
            rw [(notDue_queue r s _).2]
            exact hI.c x hx
          · intro x hx
            rw [afterProcess_queue] at hx
            rw [afterProcess_log]
            exact (invL_processStep cfg hI).1 x hx
    | done w =>
      simp only [stepEv]
      split
      · exact hI.c
      · intro x hx
        obtain ⟨c', off', t, h1, h2⟩ := hI.c x hx
        exact ⟨c', off', t, by simp [cursor, h1], h2⟩
  · -- WellOrdered
    cases e with
    | schedule id c off last =>
      simp only [stepEv]
      cases h : schedule s id c off last with
      | none => simpa using hI.w
      | some s' =>
        simp only [Option.getD_some]
        obtain ⟨nt, hc, rfl⟩ := schedule_some h
        exact hI.w
    | release id => exact hI.w
    | advance d => exact hI.w
    | timerFire => simp only [stepEv]; split <;> exact hI.w
    | wake => simp only [stepEv]; split <;> exact hI.w
    | iter =>
      simp only [stepEv]
      unfold iter
      split
      · exact hI.w
      · split
        · exact hI.w
        · split
          · rw [(notDue_queue r s _).2]; exact hI.w
          · rw [afterProcess_log]; exact (invL_processStep cfg hI).2
    | done w =>
      simp only [stepEv]
      split
      · exact hI.w
      · exact hI.w

theorem invL_run (r : Bool) (cfg : Cfg) (evs : List Ev) {s : State} (hI : InvL s) : InvL (runEvs r cfg s evs) := by
  induction evs generalizing s with
  | nil => exact hI
  | cons e rest ih => exact ih (invL_step r cfg hI e)

/-! ### release -/

def countTook (id : Nat) : List LogEv → Nat
  | [] => 0
  | .took _ r _ :: rest => (if r.id = id then 1 else 0) + countTook id rest
  | _ :: rest => countTook id rest

theorem countTook_tooks (now : Int) (id : Nat) (rs : List (Nat × Run)) (log : List LogEv)
    (h : id ∉ runIds rs) : countTook id (tooks now rs ++ log) = countTook id log := by
  induction rs generalizing log with
  | nil => simp [tooks]
  | cons a rs ih =>
    rw [tooks_cons]
    have h1 : id ∉ runIds rs := fun hh => h (by simp [runIds] at hh ⊢; exact Or.inr hh)
    have h2 : a.2.id ≠ id := fun hh => h (by simp [runIds]; exact Or.inl hh.symm)
    rw [ih _ h1]
    simp [countTook, h2]

def isScheduleOf (id : Nat) : Ev → Bool
  | .schedule id' _ _ _ => id' == id
  | _ => false

/-- while a task is not in the queue, no event other than scheduling it puts it there or runs it -/
theorem absent_step (r : Bool) (cfg : Cfg) {s : State} (id : Nat) (hu : (ids s.queue).Nodup)
    (habs : id ∉ ids s.queue) (e : Ev) (he : isScheduleOf id e = false) :
    id ∉ ids (stepEv r cfg s e).queue ∧ countTook id (stepEv r cfg s e).log = countTook id s.log := by
  cases e with
  | schedule id' c off last =>
    have hne : id' ≠ id := by simpa [isScheduleOf] using he
    simp only [stepEv]
    cases h : schedule s id' c off last with
    | none => simpa using habs
    | some s' =>
      simp only [Option.getD_some]
      obtain ⟨nt, _, rfl⟩ := schedule_some h
      refine ⟨?_, by simp [countTook]⟩
      simp only []
      intro hmem
      have := (ids_insertItem_perm _ _).mem_iff.mp hmem
      rcases List.mem_cons.mp this with h1 | h1
      · exact hne h1.symm
      · exact habs ((ids_removeId_sublist id' s.queue).subset h1)
  | release id' =>
    exact ⟨fun hmem => habs ((ids_removeId_sublist id' s.queue).subset hmem), by simp [stepEv, release, countTook]⟩
  | advance d => exact ⟨habs, rfl⟩
  | timerFire => simp only [stepEv]; split <;> exact ⟨habs, rfl⟩
  | wake => simp only [stepEv]; split <;> exact ⟨habs, rfl⟩
  | iter =>
    simp only [stepEv]
    unfold iter
    split
    · exact ⟨habs, rfl⟩
    · split
      · exact ⟨habs, rfl⟩
      · split
        · rw [(notDue_queue r s _).1, (notDue_queue r s _).2]; exact ⟨habs, rfl⟩
        · rw [afterProcess_queue, afterProcess_log]
          have hids := dispatch_ids cfg s.now s.queue s.busy hu
          have hsub := dispatch_ins_sublist cfg s.now s.queue s.busy
          have hnr : id ∉ runIds (dispatch cfg s.now s.queue s.busy).runs :=
            fun hm => habs (hids.1 id (List.mem_append_right _ hm))
          refine ⟨?_, ?_⟩
          · intro hmem
            have hq : (processStep cfg s).queue =
              reinsert (dispatch cfg s.now s.queue s.busy).ins (dispatch cfg s.now s.queue s.busy).kept := rfl
            rw [hq] at hmem
            have := (ids_reinsert_perm _ _).mem_iff.mp hmem
            rcases List.mem_append.mp this with h1 | h1
            · exact hnr (hsub.subset h1)
            · exact habs (hids.1 id (List.mem_append_left _ h1))
          · have hlog : (processStep cfg s).log = tooks s.now (dispatch cfg s.now s.queue s.busy).runs ++ s.log := rfl
            rw [hlog, countTook_tooks _ _ _ _ hnr]
  | done w =>
    simp only [stepEv]
    split
    · exact ⟨habs, rfl⟩
    · exact ⟨habs, by simp [countTook]⟩

theorem absent_run (r : Bool) (cfg : Cfg) (id : Nat) (evs : List Ev) {s : State} (hu : InvU s)
    (habs : id ∉ ids s.queue) (he : ∀ e ∈ evs, isScheduleOf id e = false) :
    countTook id (runEvs r cfg s evs).log = countTook id s.log := by
  induction evs generalizing s with
  | nil => rfl
  | cons e rest ih =>
    have h1 := absent_step r cfg id hu.uniq habs e (he e (by simp))
    have := ih (invU_step r cfg hu e) h1.1 (fun e' he' => he e' (by simp [he']))
    simp only [runEvs, List.foldl_cons] at this ⊢
    rw [this, h1.2]

/-! ### a cursor always comes from a Schedule call -/

theorem cursor_scheduled {id : Nat} {log : List LogEv} {c : Cron} {off : Int} {t : Nat}
    (h : cursor id log = some (c, off, t)) : ∃ last, LogEv.scheduled id c off last ∈ log := by
  induction log generalizing t with
  | nil => simp [cursor] at h
  | cons e rest ih =>
    cases e with
    | scheduled id' c' off' last' =>
      simp only [cursor] at h
      split at h
      · next heq =>
        simp at h
        obtain ⟨rfl, rfl, rfl⟩ := h
        subst heq
        exact ⟨last', by simp⟩
      · obtain ⟨l, hl⟩ := ih h
        exact ⟨l, by simp [hl]⟩
    | released id' =>
      simp only [cursor] at h
      split at h
      · simp at h
      · obtain ⟨l, hl⟩ := ih h
        exact ⟨l, by simp [hl]⟩
    | took w r now =>
      simp only [cursor] at h
      split at h
      · cases hc : cursor id rest with
        | none => simp [hc] at h
        | some x =>
          obtain ⟨c0, off0, t0⟩ := x
          simp [hc] at h
          obtain ⟨rfl, rfl, _⟩ := h
          obtain ⟨l, hl⟩ := ih hc
          exact ⟨l, by simp [hl]⟩
      · obtain ⟨l, hl⟩ := ih h
        exact ⟨l, by simp [hl]⟩
    | finished w r =>
      simp only [cursor] at h
      obtain ⟨l, hl⟩ := ih h
      exact ⟨l, by simp [hl]⟩


/-! ### case analysis of one loop pass -/

theorem iter_cases (r : Bool) (cfg : Cfg) (s : State) (hl : s.mode = .looping) :
    (s.queue = [] ∧ iter r cfg s = { s with when_ := none, mode := .idle }) ∨
    (∃ it rest, s.queue = it :: rest ∧ it.when > s.now ∧ iter r cfg s = notDue r s it) ∨
    (∃ it rest, s.queue = it :: rest ∧ it.when ≤ s.now ∧ iter r cfg s = afterProcess (processStep cfg s)) := by
  unfold iter
  simp only [hl, ne_eq, not_true_eq_false, if_false]
  cases hq : s.queue with
  | nil => exact Or.inl ⟨rfl, rfl⟩
  | cons it rest =>
    by_cases hdue : it.when > s.now
    · exact Or.inr (Or.inl ⟨it, rest, rfl, hdue, by simp [hdue]⟩)
    · exact Or.inr (Or.inr ⟨it, rest, rfl, by omega, by simp [hdue]⟩)

theorem afterProcess_cases (s : State) :
    (s.queue = [] ∧ afterProcess s = { s with when_ := none, mode := .idle }) ∨
    (∃ m q, s.queue = m :: q ∧ m.when > s.now ∧
        afterProcess s = { s with when_ := some m.when, timer := some m.when, mode := .idle }) ∨
    (∃ m q, s.queue = m :: q ∧ m.when ≤ s.now ∧ afterProcess s = { s with when_ := some m.when }) := by
  unfold afterProcess
  cases hq : s.queue with
  | nil => exact Or.inl ⟨rfl, rfl⟩
  | cons m q =>
    by_cases h : m.when > s.now
    · exact Or.inr (Or.inl ⟨m, q, rfl, h, by simp [h]⟩)
    · exact Or.inr (Or.inr ⟨m, q, rfl, by omega, by simp [h]⟩)

end Influx.Lemmas.Sched
