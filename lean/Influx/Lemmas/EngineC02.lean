/-
  Lemmas.EngineC02 — crash images of in-flight operations (torn WAL record of a write / of a
  delete, delete interrupted after its tombstones, compaction interrupted inside
  FileStore.replace) and the link to the possible-worlds checker of `Spec.C02`.
-/
import Influx.Lemmas.EngineCrash
import Influx.Spec.C02

namespace Influx.Model.Engine
open Influx.Spec.C03 Influx.Spec.C02

structure Good (s : State) : Prop where
  inv : Inv s
  wal : WalInv s

theorem good_init : Good init := ⟨inv_init, walinv_init⟩

/-! ### Good is preserved by every step -/

theorem walinv_touch {s : State} (h : WalInv s) : WalInv s.touch :=
  h.congr rfl rfl rfl rfl rfl rfl rfl rfl

theorem good_snapBegin {s : State} (h : Good s) (hrc : RetryClean s) : Good (stepSnapBegin s).1 :=
  ⟨inv_stepSnapBegin h.inv, walinv_stepSnapBegin h.inv h.wal hrc⟩

theorem good_snapFail {s : State} (h : Good s) (hrc : RetryClean s) : Good (stepSnapFail s).1 :=
  ⟨inv_stepSnapFail h.inv, walinv_stepSnapFail h.inv h.wal hrc⟩

theorem lastRec_snapFail (s : State) : (stepSnapFail s).1.lastRec = false := by
  rcases stepSnapFail_cases s with he | ⟨he, _, hp⟩ | ⟨he, hp⟩
  · rw [he]; rfl
  · rw [he]; exact lastRec_stepSnapBegin' hp
  · rw [he]; exact lastRec_stepSnapBegin' hp

/-- what a history must avoid for the crash theorems: a delete that covers a point of the
    in-flight (or failed, pending) snapshot store — F1 —, and a retry of a failed snapshot
    attempt after further writes — the retry's WAL removal loses them (F18) -/
def opSafe (s : State) : Op → Bool
  | .delete ss lo hi => decide (SnapClear s ss lo hi)
  | .snapBegin | .snapFail => decide (RetryClean s)
  | _ => true

theorem good_snapStep {s : State} (h : Good s) : Good (stepSnapStep s).touch :=
  ⟨inv_touch (inv_stepSnapStep h.inv), walinv_touch (walinv_stepSnapStep h.inv h.wal)⟩

theorem good_snapTo {s : State} (h : Good s) (p : Phase) : Good (stepSnapTo s p).touch :=
  ⟨inv_touch (inv_stepSnapTo h.inv p), walinv_touch (walinv_stepSnapTo h.inv h.wal p)⟩

theorem good_compact {s : State} (h : Good s) {i j : Nat} (hv : validGroup s.files i j = true) :
    Good ({ s with files := compactFiles s.files i j, lastRec := false } : State) :=
  ⟨inv_compact h.inv i j (validGroup_le hv),
    walinv_files h.wal _ (get_filesLog_compact _ _ _ (validGroup_le hv))⟩

theorem good_write {s : State} (h : Good s) (es : Log) : Good (stepWrite s es) :=
  ⟨inv_stepWrite h.inv es, walinv_stepWrite h.wal es⟩

theorem good_delete {s : State} (h : Good s) {ss : List Nat} {lo hi : Int}
    (hc : SnapClear s ss lo hi) (hl : commitLocked s.phase = false) : Good (stepDelete s ss lo hi) := by
  have hp : s.phase ≠ .replaced := by intro h'; rw [h'] at hl; cases hl
  exact ⟨inv_stepDelete h.inv _ _ _ hp, walinv_stepDelete h.wal hc hl⟩

theorem good_touch {s : State} (h : Good s) : Good s.touch :=
  ⟨inv_touch h.inv, h.wal.congr rfl rfl rfl rfl rfl rfl rfl rfl⟩

theorem lastRec_snapBegin (s : State) : (stepSnapBegin s).1.lastRec = false := by
  unfold stepSnapBegin; cases s.phase <;> rfl

/-! ### ids of a torn image -/

theorem ids_dropLastRec (closed : List Segment) (cur : Option Segment) :
    (closed ++ (dropLastRec cur).toList).map (·.id) = (closed ++ cur.toList).map (·.id) := by
  cases cur <;> simp [dropLastRec]

theorem walinv_openWith_torn {s : State} (h : WalInv s) (fs : List TsmFile) (cur' : Option Segment)
    (hc : cur' = s.walCur ∨ cur' = dropLastRec s.walCur) :
    WalInv (openWith s fs (s.walClosed ++ cur'.toList)) := by
  apply walinv_openWith
  · rcases hc with rfl | rfl
    · exact h.ids
    · rw [ids_dropLastRec]; exact h.ids
  · intro g hg
    have hid : g.id ∈ (s.walClosed ++ cur'.toList).map (·.id) := List.mem_map.mpr ⟨g, hg, rfl⟩
    have hid' : g.id ∈ s.wal.map (·.id) := by
      rcases hc with rfl | rfl
      · exact hid
      · rw [ids_dropLastRec] at hid; exact hid
    obtain ⟨g', hg', he⟩ := List.mem_map.mp hid'
    rw [← he]; exact h.ids_lt g' hg'

theorem good_openWith_torn {s : State} (h : WalInv s) (fs : List TsmFile) (cur' : Option Segment)
    (hc : cur' = s.walCur ∨ cur' = dropLastRec s.walCur) :
    Good (openWith s fs (s.walClosed ++ cur'.toList)) :=
  ⟨inv_openWith _ _ _, walinv_openWith_torn h fs cur' hc⟩

theorem good_stepCrash {s : State} (h : WalInv s) (tear : Bool) : Good (stepCrash s tear) := by
  unfold stepCrash
  apply good_openWith_torn h
  by_cases ht : (tear && s.lastRec) = true
  · right; simp [ht]
  · left; simp [ht]

/-! ### torn record of the last write / delete -/

theorem segRecs_dropLast_appendCur (closed : List Segment) (cur : Option Segment) (n : Nat) (r : WalEntry) :
    segRecs (closed ++ (dropLastRec (some (appendCur cur n r).1)).toList) = segRecs (closed ++ cur.toList) := by
  cases cur <;> simp [dropLastRec, appendCur, segRecs]

theorem abs_openWith_recs (s s' : State) (fs : List TsmFile) (segs segs' : List Segment)
    (h : segRecs segs = segRecs segs') (k : Key) (t : Int) :
    (openWith s fs segs).abs k t = (openWith s' fs segs').abs k t := by
  rw [abs_openWith, abs_openWith, h]

/-- **A torn last record of a write is as if the write had not happened.** -/
theorem abs_tornWrite {s : State} (h : Good s) (es : Log) (k : Key) (t : Int) :
    (stepCrash (stepWrite s es) true).abs k t = s.abs k t := by
  rw [← abs_openWith_same h.inv h.wal s.files (fun _ _ => rfl) k t]
  unfold stepCrash
  have : (stepWrite s es).lastRec = true := rfl
  simp only [this, Bool.and_self, if_true]
  exact abs_openWith_recs _ _ _ _ _ (segRecs_dropLast_appendCur _ _ _ _) k t

/-- the image of a delete whose WAL record is torn = the image of a delete interrupted after
    its tombstones -/
theorem abs_tornDelete {s : State} {ss : List Nat} {lo hi : Int}
    (hk : (hotKeys s.hot ss).isEmpty = false) (k : Key) (t : Int) :
    (stepCrash (stepDelete s ss lo hi) true).abs k t =
      (openWith s (s.files.map (addTomb ss lo hi)) s.wal).abs k t := by
  rw [stepDelete_eq_keys hk]
  unfold stepCrash
  simp only [Bool.and_self, if_true]
  exact abs_openWith_recs _ _ _ _ _ (segRecs_dropLast_appendCur _ _ _ _) k t

/-- **A delete interrupted after its tombstones**: every cell is as before the delete, or
    (only inside the deleted range) empty. -/
theorem abs_deleteCrash {s : State} (h : Good s) {ss : List Nat} {lo hi : Int}
    (hl : commitLocked s.phase = false) (k : Key) (t : Int) :
    (openWith s (s.files.map (addTomb ss lo hi)) s.wal).abs k t = s.abs k t ∨
    (covered ss lo hi k t = true ∧ (openWith s (s.files.map (addTomb ss lo hi)) s.wal).abs k t = none) := by
  obtain ⟨pre, mid, S, hs⟩ := h.wal.split
  rw [abs_openWith, hs.replay_all, Log.get_append, filesLog_addTomb, get_filter_covered, State.abs_eq]
  have hSs : S = s.snap := by
    cases hp : s.phase
    · have := hs.pre_idle hp
      rw [h.inv.idle_snap hp, ← hs.pre_S, this]; rfl
    · exact hs.S_snap (Or.inl hp)
    · exact hs.S_snap (Or.inr (Or.inl hp))
    · rw [hp] at hl; cases hl
    · rw [hp] at hl; cases hl
    · exact hs.S_snap (Or.inr (Or.inr (Or.inr hp)))
  rw [hSs]
  by_cases hc : covered ss lo hi k t = true
  · simp only [hc, if_true]
    cases hh : Log.get s.hot k t with
    | some v => left; simp
    | none =>
      cases hsn : Log.get s.snap k t with
      | some v => left; simp
      | none => right; simp
  · left
    simp only [hc, Bool.false_eq_true, if_false, Option.or_or_assoc]

theorem good_deleteCrash {s : State} (h : Good s) (fs : List TsmFile) : Good (openWith s fs s.wal) :=
  good_openWith_torn h.wal fs s.walCur (Or.inl rfl)

/-! ### compaction interrupted inside FileStore.replace -/

theorem or_absorb (a b : Option Int) : (a.or b).or a = a.or b := by
  cases a <;> cases b <;> rfl

theorem get_filesLog_drop_le (grp : List TsmFile) (n : Nat) (k : Key) (t : Int) :
    (Log.get (filesLog grp) k t).or (Log.get (filesLog (grp.drop n)) k t) = Log.get (filesLog grp) k t := by
  conv => lhs; arg 1; rw [← List.take_append_drop n grp]
  conv => rhs; rw [← List.take_append_drop n grp]
  rw [filesLog_append, Log.get_append]
  exact or_absorb _ _

theorem get_compactCrashFiles (fs : List TsmFile) (i j : Nat) (hij : i ≤ j) (pt : CPoint) (n : Nat)
    (k : Key) (t : Int) :
    Log.get (filesLog (compactCrashFiles fs i j pt n)) k t = Log.get (filesLog fs) k t := by
  have hsplit : fs = fs.take i ++ groupOf fs i j ++ fs.drop (j + 1) := by
    rcases split_group fs i j with h | h
    · exact h
    · exact absurd hij h
  unfold compactCrashFiles
  cases pt
  · simp only; split
    · rfl
    · exact get_filesLog_compact fs i j hij k t
  · simp only; split
    · conv => rhs; rw [hsplit]
      simp only [filesLog_append, Log.get_append, get_compactOut]
      cases Log.get (filesLog (fs.drop (j + 1))) k t <;> cases Log.get (filesLog (groupOf fs i j)) k t <;> simp
    · exact get_filesLog_compact fs i j hij k t
  · simp only; split
    · conv => rhs; rw [hsplit]
      simp only [filesLog_append, Log.get_append, get_compactOut]
      rw [← Option.or_or_assoc (Log.get (filesLog (groupOf fs i j)) k t), get_filesLog_drop_le]
    · exact get_filesLog_compact fs i j hij k t

/-! ### the possible-worlds checker -/

/-- every cell of the state is what SOME possible history says -/
def Approx (s : State) (ws : Worlds) : Prop := ∀ k t, ∃ w ∈ ws, s.abs k t = cell w k t

theorem Approx.mono {s : State} {ws ws' : Worlds} (h : Approx s ws) (hsub : ∀ w ∈ ws, w ∈ ws') : Approx s ws' :=
  fun k t => let ⟨w, hw, he⟩ := h k t; ⟨w, hsub w hw, he⟩

theorem Approx.congr {s s' : State} {ws : Worlds} (h : Approx s ws) (he : ∀ k t, s'.abs k t = s.abs k t) :
    Approx s' ws := fun k t => by rw [he]; exact h k t

theorem rowsOK2_read {s : State} {ws : Worlds} (ha : Approx s ws) (k : Key) (lo hi : Int) (asc : Bool) :
    Spec.C02.rowsOK ws k lo hi asc (s.read k lo hi asc) = true := by
  simp only [Spec.C02.rowsOK, Bool.and_eq_true]
  refine ⟨⟨ordered3_read s k lo hi asc, ?_⟩, ?_⟩
  · simp only [Spec.C02.rowsSound, List.all_eq_true, Bool.and_eq_true, decide_eq_true_eq, List.any_eq_true,
      beq_iff_eq]
    intro p hp
    have := (s.mem_read k lo hi asc p).mp hp
    obtain ⟨w, hw, he⟩ := ha k p.1
    exact ⟨this.1, w, hw, by rw [← he]; exact this.2⟩
  · simp only [Spec.C02.rowsComplete, List.all_eq_true]
    intro h0 _ ev _
    cases ev with
    | del => rfl
    | put e =>
      simp only [Bool.or_eq_true, Bool.not_eq_true', List.any_eq_true, beq_iff_eq]
      by_cases hc : (decide (e.key = k) && decide (lo ≤ e.ts) && decide (e.ts ≤ hi) &&
          ws.all fun h => (cell h k e.ts).isSome) = true
      · right
        simp only [Bool.and_eq_true, decide_eq_true_eq, List.all_eq_true] at hc
        obtain ⟨⟨⟨_, hlo⟩, hhi⟩, hall⟩ := hc
        obtain ⟨w, hw, he⟩ := ha k e.ts
        obtain ⟨v, hv⟩ := Option.isSome_iff_exists.mp (hall w hw)
        refine ⟨(e.ts, v), ?_, rfl⟩
        rw [s.mem_read]
        exact ⟨⟨hlo, hhi⟩, by rw [he]; exact hv⟩
      · left
        simpa using hc

end Influx.Model.Engine
