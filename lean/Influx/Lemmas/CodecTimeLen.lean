/-
  Lemmas.CodecTimeLen — the encoded timestamp section of n timestamps is at most 30 + 8 n bytes
  (so its length fits the uvarint of the block framing).
-/
import Influx.Lemmas.CodecTime
namespace Influx.Codec
open Influx.Generated.Codec

/-! ### size of the encoded timestamp section -/

theorem stepOk_ne {src : List Nat} {w n : Nat} (h : StepOk src w n) : unpackWord w ≠ [] := by
  obtain ⟨h1, h2, _, h4, _⟩ := h
  rw [h4]
  intro hnil
  have h5 := List.length_take (i := n) (l := src)
  rw [hnil] at h5
  simp only [List.length_nil] at h5
  omega

theorem encodeAllWith_ne (step : List Nat → Option (Nat × Nat)) (hs : StepSpec step) :
    ∀ (fuel : Nat) (src ws : List Nat), encodeAllWith step fuel src = some ws → ∀ w ∈ ws, unpackWord w ≠ [] := by
  intro fuel
  induction fuel with
  | zero =>
    intro src ws h
    unfold encodeAllWith at h
    split at h
    · simp at h; subst h; simp
    · simp at h
  | succ f ih =>
    intro src ws h
    unfold encodeAllWith at h
    split at h
    · simp at h; subst h; simp
    · cases hst : step src with
      | none => rw [hst] at h; simp at h
      | some p =>
        obtain ⟨w, n⟩ := p
        rw [hst] at h
        simp only at h
        cases hrec : encodeAllWith step f (src.drop n) with
        | none => rw [hrec] at h; simp at h
        | some ws' =>
          rw [hrec] at h
          simp only [Option.some.injEq] at h
          subst h
          intro x hx
          rcases List.mem_cons.mp hx with rfl | hx'
          · exact stepOk_ne (hs.ok _ _ _ hst)
          · exact ih _ _ hrec x hx'

theorem words_le_values (ws : List Nat) (h : ∀ w ∈ ws, unpackWord w ≠ []) : ws.length ≤ (decodeWords ws).length := by
  induction ws with
  | nil => simp
  | cons w ws ih =>
    rw [decodeWords_cons, List.length_append, List.length_cons]
    have h1 : 1 ≤ (unpackWord w).length := by
      cases hu : unpackWord w with
      | nil => exact absurd hu (h w List.mem_cons_self)
      | cons a b => simp
    have := ih (fun x hx => h x (List.mem_cons_of_mem _ hx))
    omega

def Stream.OutNe (s : Stream) : Prop := ∀ w ∈ s.out, unpackWord w ≠ []

theorem Stream.write_ne (s s' : Stream) (v : Nat) (h : s.OutNe) (hw : s.write v = some s') : s'.OutNe := by
  unfold Stream.write at hw
  split at hw
  · cases he : encodeOne s.pending with
    | none => rw [he] at hw; simp at hw
    | some p =>
      obtain ⟨w, n⟩ := p
      rw [he] at hw
      simp only [Option.some.injEq] at hw
      subst hw
      intro x hx
      rcases List.mem_append.mp hx with h1 | h1
      · exact h x h1
      · simp at h1; rw [h1]; exact stepOk_ne (encodeOne_spec.ok _ _ _ he)
  · simp only [Option.some.injEq] at hw
    subst hw
    exact h

theorem Stream.fold_ne (vs : List Nat) : ∀ (s s' : Stream), s.OutNe → vs.foldlM Stream.write s = some s' → s'.OutNe := by
  induction vs with
  | nil => intro s s' h hf; simp at hf; subst hf; exact h
  | cons v rest ih =>
    intro s s' h hf
    rw [List.foldlM_cons] at hf
    cases hw : s.write v with
    | none => rw [hw] at hf; simp at hf
    | some s1 =>
      rw [hw] at hf
      exact ih s1 s' (Stream.write_ne s s1 v h hw) hf

theorem Stream.drain_ne : ∀ (fuel : Nat) (s : Stream) (ws : List Nat), s.OutNe → s.drain fuel = some ws →
    ∀ w ∈ ws, unpackWord w ≠ [] := by
  intro fuel
  induction fuel with
  | zero =>
    intro s ws h hd
    unfold Stream.drain at hd
    split at hd
    · simp at hd; subst hd; exact h
    · simp at hd
  | succ f ih =>
    intro s ws h hd
    unfold Stream.drain at hd
    split at hd
    · simp at hd; subst hd; exact h
    · cases he : encodeOne s.pending with
      | none => rw [he] at hd; simp at hd
      | some p =>
        obtain ⟨w, n⟩ := p
        rw [he] at hd
        simp only at hd
        apply ih _ ws _ hd
        intro x hx
        rcases List.mem_append.mp hx with h1 | h1
        · exact h x h1
        · simp at h1; rw [h1]; exact stepOk_ne (encodeOne_spec.ok _ _ _ he)

theorem encodeStream_ne (vs ws : List Nat) (h : encodeStream vs = some ws) : ∀ w ∈ ws, unpackWord w ≠ [] := by
  unfold encodeStream at h
  cases hf : vs.foldlM Stream.write ({} : Stream) with
  | none => rw [hf] at h; simp at h
  | some s =>
    rw [hf] at h
    exact Stream.drain_ne _ s ws (Stream.fold_ne vs {} s (by intro w hw; simp at hw) hf) h

theorem putUvarint_length_aux (v : Nat) : ∀ k, v < 2 ^ (7 * k) → 1 ≤ k → (putUvarint v).length ≤ k := by
  fun_induction putUvarint v with
  | case1 v hlt => intro k _ hk; simp; exact hk
  | case2 v hge ih =>
    intro k hv hk
    have hk2 : 2 ≤ k := by
      rcases Nat.lt_or_ge k 2 with h | h
      · have : k = 1 := by omega
        subst this; simp at hv; omega
      · exact h
    have : v / 128 < 2 ^ (7 * (k - 1)) := by
      have e : 2 ^ (7 * k) = 128 * 2 ^ (7 * (k - 1)) := by
        have : 7 * k = 7 + 7 * (k - 1) := by omega
        rw [this, Nat.pow_add]
      rw [e] at hv
      exact Nat.div_lt_of_lt_mul hv
    have := ih (k - 1) this (by omega)
    simp only [List.length_cons]
    omega

theorem putUvarint_length (v : Nat) (h : v < W) : (putUvarint v).length ≤ 10 :=
  putUvarint_length_aux v 10 (Nat.lt_of_lt_of_le h (by decide)) (by decide)

theorem wordsToBytes_length (ws : List Nat) : (wordsToBytes ws).length = 8 * ws.length := flatMap_putU64_length ws

theorem tsDeltas_length (ts : List Nat) : (tsDeltas ts).length = ts.length := by
  cases ts with
  | nil => rfl
  | cons t rest => simp [tsDeltas, tsGo_length]

theorem rleBytes_length (first delta div n : Nat) (hd : delta < W) (hn : n < W) :
    (timeRleBytes first delta div n).length ≤ 29 := by
  unfold timeRleBytes
  have h1 := putUvarint_length (delta / div) (Nat.lt_of_le_of_lt (Nat.div_le_self _ _) hd)
  have h2 := putUvarint_length n hn
  simp only [List.length_cons, List.length_append, putU64_length]
  omega

theorem packedBytes_length (div first : Nat) (ws : List Nat) : (timePackedBytes div first ws).length = 9 + 8 * ws.length := by
  unfold timePackedBytes
  simp only [List.length_cons, List.length_append, putU64_length, wordsToBytes_length]
  omega

theorem map_div_if_length (c : Prop) [Decidable c] (ds : List Nat) (k : Nat) :
    (if c then ds.map (· / k) else ds).length = ds.length := by split <;> simp

/-- the encoded timestamp section is at most `30 + 8 * n` bytes -/
theorem timeEncode_length (ts tb : List Nat) (hv : ∀ t ∈ ts, t < W) (hlen : ts.length < W)
    (h : timeEncodeS ts = some tb ∨ timeEncodeB ts = some tb) : tb.length ≤ 30 + 8 * ts.length := by
  cases ts with
  | nil =>
    rcases h with h | h <;> (simp [timeEncodeS, timeEncodeB, tsDeltas] at h; subst h; simp)
  | cons t0 rest =>
    have htd : tsDeltas (t0 :: rest) = t0 :: tsDeltas.go t0 rest := rfl
    have hgl := tsGo_length t0 rest
    have hglt := tsGo_lt t0 rest
    have hlen' : rest.length + 1 < W := by simpa using hlen
    rcases h with h | h
    · unfold timeEncodeS at h
      rw [htd] at h
      simp only at h
      generalize tsDeltas.go t0 rest = ds at *
      cases ds with
      | nil =>
        simp only [Option.some.injEq] at h
        subst h
        rw [packedBytes_length]; simp only [List.length_nil, List.length_cons]; omega
      | cons d1 ds' =>
        simp only at h
        generalize (d1 :: ds').reverse.foldl reduceDiv 1000000000000 = div at h
        split at h
        · simp only [Option.some.injEq] at h; subst h
          have := rleBytes_length t0 d1 div ((d1 :: ds').length + 1)
            (hglt d1 List.mem_cons_self) (by rw [hgl]; exact hlen')
          simp only [List.length_cons] at this ⊢; omega
        · split at h
          · simp only [Option.some.injEq] at h; subst h
            simp only [timeRawBytes, List.length_cons, flatMap_putU64_length] at hgl ⊢
            omega
          · next hmx =>
            cases he : encodeStream (if div > 1 then (d1 :: ds').map (· / div) else d1 :: ds') with
            | none => rw [he] at h; simp at h
            | some ws =>
              rw [he] at h
              simp only [Option.some.injEq] at h; subst h
              have hle := words_le_values ws (encodeStream_ne _ ws he)
              have hgood : ∀ v ∈ (if div > 1 then (d1 :: ds').map (· / div) else d1 :: ds'), v ≤ MaxValue := by
                have hmax := (listMax_le (d1 :: ds') 0).2
                have hle' : ∀ d ∈ d1 :: ds', d ≤ MaxValue := fun d hd => by
                  have := hmax d hd; unfold listMax at hmx; omega
                split
                · intro v hv'
                  obtain ⟨d, hd, rfl⟩ := List.mem_map.mp hv'
                  exact Nat.le_trans (Nat.div_le_self _ _) (hle' d hd)
                · exact hle'
              obtain ⟨ws2, e1, e2, _⟩ := encodeStream_ok _ hgood
              rw [he] at e1
              simp only [Option.some.injEq] at e1
              subst e1
              rw [e2, map_div_if_length] at hle
              rw [packedBytes_length]
              simp only [List.length_cons] at hle hgl ⊢; omega
    · unfold timeEncodeB at h
      rw [htd] at h
      simp only at h
      generalize tsDeltas.go t0 rest = ds at *
      cases ds with
      | nil =>
        have he : encodeAllI 0 [] = some [] := rfl
        simp only [he, Option.some.injEq] at h
        subst h
        rw [packedBytes_length]; simp only [List.length_nil, List.length_cons]; omega
      | cons d1 ds' =>
        simp only at h
        split at h
        · simp only [Option.some.injEq] at h; subst h
          have := rleBytes_length t0 d1 (reduceDiv 1000000000000 d1) ((d1 :: ds').length + 1)
            (hglt d1 List.mem_cons_self) (by rw [hgl]; exact hlen')
          simp only [List.length_cons] at this ⊢; omega
        · split at h
          · simp only [Option.some.injEq] at h; subst h
            simp only [timeRawBytes, List.length_cons, flatMap_putU64_length] at hgl ⊢
            omega
          · next hmx =>
            generalize (d1 :: ds').foldl reduceDiv 1000000000000 = div at h
            cases he : encodeAllI (d1 :: ds').length (if div > 1 then (d1 :: ds').map (· / div) else d1 :: ds') with
            | none => rw [he] at h; simp at h
            | some ws =>
              rw [he] at h
              simp only [Option.some.injEq] at h; subst h
              have hne := encodeAllWith_ne encodeStepI encodeStepI_spec _ _ ws he
              have hle := words_le_values ws hne
              have hgood : ∀ v ∈ (if div > 1 then (d1 :: ds').map (· / div) else d1 :: ds'), v ≤ MaxValue := by
                have hmax := (listMax_le (d1 :: ds') 0).2
                have hle' : ∀ d ∈ d1 :: ds', d ≤ MaxValue := fun d hd => by
                  have := hmax d hd; unfold listMax at hmx; omega
                split
                · intro v hv'
                  obtain ⟨d, hd, rfl⟩ := List.mem_map.mp hv'
                  exact Nat.le_trans (Nat.div_le_self _ _) (hle' d hd)
                · exact hle'
              obtain ⟨ws2, e1, e2, _⟩ := encodeAllWith_ok encodeStepI encodeStepI_spec (d1 :: ds').length _
                (by rw [map_div_if_length]; exact Nat.le_refl _) hgood
              unfold encodeAllI at he
              rw [he] at e1
              simp only [Option.some.injEq] at e1
              subst e1
              rw [e2, map_div_if_length] at hle
              rw [packedBytes_length]
              simp only [List.length_cons] at hle hgl ⊢; omega

end Influx.Codec
