/-
  Soundness of the parser model: what holds of every point `parsePoint` accepts.
-/
import Influx.Lemmas.LineProtocolErrors
import Influx.Lemmas.LineProtocolKey

namespace Influx.LP
open Influx.Generated.LineProto Influx.Spec.C12

/-! ### inversion of `parsePoint` -/

/-- how the time of an accepted point was obtained -/
def timeClause (rest2 : Bytes) (dt : Int) (prec : String) (t : Int) : Prop :=
  ∃ ts rest3, scanTime rest2 = .ok (ts, rest3) ∧
    ((ts = [] ∧ t = truncTime dt prec) ∨
     (ts ≠ [] ∧ ∃ v, parseIntGo ts = .ok v ∧ safeCalcTime v prec = .ok t))

theorem parsePoint_ok_inv (line : Bytes) (dt : Int) (prec : String) (p : Point)
    (h : parsePoint line dt prec = .ok p) :
    ∃ rest rest2, scanKey line = .ok (p.key, rest) ∧ p.key ≠ [] ∧ p.key.length ≤ MaxKeyLength ∧
      scanFields ((skipWhitespace line).take ((skipWhitespace line).length - rest.length)) rest = .ok (p.fields, rest2) ∧
      p.fields ≠ [] ∧ walkFieldsCheck p.key.length (p.fields.length + 1) p.fields = .ok () ∧
      timeClause rest2 dt prec p.time := by
  unfold parsePoint at h
  split at h
  · cases h
  · next key rest hk =>
    split at h
    · cases h
    · next hne =>
      split at h
      · cases h
      · next hlen =>
        simp only at h
        split at h
        · cases h
        · next fields rest2 hf =>
          split at h
          · cases h
          · next hfne =>
            split at h
            · cases h
            · next hw =>
              split at h
              · cases h
              · next ts rest3 hts =>
                split at h
                · next htse =>
                  cases h
                  refine ⟨rest, rest2, hk, by simpa using hne, by simpa using hlen, hf, by simpa using hfne, ?_, ?_⟩
                  · exact hw
                  · exact ⟨ts, rest3, hts, Or.inl ⟨by simpa using htse, rfl⟩⟩
                · next htse =>
                  split at h
                  · cases h
                  · next v hv =>
                    split at h
                    · cases h
                    · next t ht =>
                      split at h
                      · cases h
                        refine ⟨rest, rest2, hk, by simpa using hne, by simpa using hlen, hf, by simpa using hfne, ?_, ?_⟩
                        · exact hw
                        · exact ⟨ts, rest3, hts, Or.inr ⟨by simpa using htse, v, hv, ht⟩⟩
                      · cases h

/-! ### non-empty measurement -/

theorem scanMeasurement_head (buf n : Bytes) (e : MeasEnd) (h : scanMeasurement buf = (n, e))
    (he : e ≠ .noname) : ∃ b t, n = b :: t ∧ b ≠ cComma := by
  cases buf with
  | nil => simp [scanMeasurement] at h; exact absurd h.2.symm he
  | cons b rest =>
    by_cases hb : b = cComma
    · simp [scanMeasurement, hb] at h; exact absurd h.2.symm he
    · rw [scanMeasurement, if_neg hb] at h
      obtain ⟨h1, _⟩ := Prod.mk.inj h
      exact ⟨b, _, h1.symm, hb⟩

theorem scanKeySort_head (name : Bytes) (raws : List Bytes) (rest key r : Bytes) (b : Nat) (t : Bytes)
    (hn : name = b :: t) (h : scanKeySort name raws rest = .ok (key, r)) : ∃ t', key = b :: t' := by
  unfold scanKeySort at h
  split at h
  · cases h
  · split at h
    · cases h
    · cases h; subst hn; exact ⟨_, rfl⟩

theorem scanKeyTags_head (name r0 key r : Bytes) (b : Nat) (t : Bytes)
    (hn : name = b :: t) (h : scanKeyTags name r0 = .ok (key, r)) : ∃ t', key = b :: t' := by
  unfold scanKeyTags at h
  split at h
  · cases h
  · split at h
    · cases h
    · split at h
      · cases h
      · cases h; subst hn; exact ⟨_, rfl⟩
      · exact scanKeySort_head _ _ _ _ _ _ _ hn h

theorem scanKey_head (buf key rest : Bytes) (h : scanKey buf = .ok (key, rest)) :
    ∃ b t, key = b :: t ∧ b ≠ cComma := by
  unfold scanKey at h
  split at h
  · cases h
  · cases h
  · next name r hm =>
    obtain ⟨b, t, hn, hb⟩ := scanMeasurement_head _ _ _ hm (by simp)
    cases h; exact ⟨b, t, hn, hb⟩
  · next name r0 hm =>
    obtain ⟨b, t, hn, hb⟩ := scanMeasurement_head _ _ _ hm (by simp)
    obtain ⟨t', ht'⟩ := scanKeyTags_head _ _ _ _ _ _ hn h
    exact ⟨b, t', ht', hb⟩

theorem unescape_ne_nil (s : Bytes) (h : s ≠ []) : unescape s ≠ [] := by
  match s, h with
  | [b], _ => simp [unescape]
  | a :: b :: rest, _ =>
    unfold unescape
    split <;> simp

theorem pointName_ne_nil (key : Bytes) (b : Nat) (t : Bytes) (hk : key = b :: t) (hb : b ≠ cComma) :
    pointName key ≠ [] := by
  subst hk
  unfold pointName
  apply unescape_ne_nil
  simp [scanTo, hb]

/-! ### at least one field -/

theorem iterFields_ne_nil (fields : Bytes) (h : fields ≠ []) :
    iterFields (fields.length + 1) fields ≠ [] := by
  cases fields with
  | nil => exact absurd rfl h
  | cons b r => simp [iterFields]

/-! ### series key + field key within the maximum -/

theorem unescape_length_le (s : Bytes) : (unescape s).length ≤ s.length := by
  fun_induction unescape s with
  | case1 => simp
  | case2 => simp
  | case3 a b rest h ih => simp only [List.length_cons]; omega
  | case4 a b rest h ih => simp only [List.length_cons] at ih ⊢; omega

theorem walkFieldsCheck_bound (keyLen fuel : Nat) (fields : Bytes)
    (h : walkFieldsCheck keyLen fuel fields = .ok ()) :
    ∀ f ∈ iterFields fuel fields, keyLen + 4 + f.key.length ≤ MaxKeyLength ∧
      (f.typ = .string → 2 ≤ f.valueBuf.length) := by
  induction fuel generalizing fields with
  | zero => intro f hf; simp [iterFields] at hf
  | succ n ih =>
    cases fields with
    | nil => intro f hf; simp [iterFields] at hf
    | cons b r =>
      unfold walkFieldsCheck at h
      simp only at h
      split at h
      · cases h
      · split at h
        · cases h
        · split at h
          · cases h
          · next h1 h2 h3 =>
            intro f hf
            simp only [iterFields, List.mem_cons] at hf
            rcases hf with rfl | hf
            · simp only
              have hle : keyLen + 4 + (scanTo cEq false (b :: r)).1.length ≤ MaxKeyLength := by omega
              constructor
              · split
                · have := unescape_length_le (scanTo cEq false (b :: r)).1; omega
                · exact hle
              · intro htyp
                generalize hvb : (scanFieldValue false false ((scanTo cEq false (b :: r)).2.drop 1)).1 = vb at h3 htyp ⊢
                unfold classifyValue at htyp ⊢
                cases vb with
                | nil => simp at htyp
                | cons c t =>
                  simp only at htyp ⊢
                  split at htyp
                  · next hc =>
                    simp only [if_pos hc]
                    cases t with
                    | nil => subst hc; exact absurd rfl h3
                    | cons d t' => simp
                  · split at htyp
                    · split at htyp
                      · cases htyp
                      · split at htyp <;> cases htyp
                    · cases htyp
            · exact ih _ h f hf

/-! ### representable timestamp -/

theorem safeCalcTime_range (v : Int) (prec : String) (t : Int) (h : safeCalcTime v prec = .ok t) :
    MinNanoTime ≤ t ∧ t ≤ MaxNanoTime := by
  unfold safeCalcTime at h
  split at h
  · split at h
    · cases h
    · next hr => cases h; omega
  · cases h

theorem truncTime_range (dt : Int) (prec : String) (h : dtSane dt = true) :
    MinNanoTime ≤ truncTime dt prec ∧ truncTime dt prec ≤ MaxNanoTime := by
  simp only [dtSane, Bool.and_eq_true] at h
  have hlo := of_decide_eq_true h.1
  have hhi := of_decide_eq_true h.2
  simp only [MinNanoTime, MaxNanoTime] at hlo hhi
  have key : ∀ d : Int, 0 < d → d ≤ 3600000000000 →
      MinNanoTime ≤ wrap64 (dt - dt % d) ∧ wrap64 (dt - dt % d) ≤ MaxNanoTime := by
    intro d hd hd'
    have h1 : 0 ≤ dt % d := Int.emod_nonneg _ (by omega)
    have h2 : dt % d < d := Int.emod_lt_of_pos _ hd
    unfold wrap64
    simp only [MinNanoTime, MaxNanoTime]
    omega
  unfold truncTime truncDuration
  split
  · exact key _ (by decide) (by decide)
  · split
    · exact key _ (by decide) (by decide)
    · split
      · exact key _ (by decide) (by decide)
      · split
        · exact key _ (by decide) (by decide)
        · split
          · exact key _ (by decide) (by decide)
          · exact key _ (by decide) (by decide)

theorem time_range (rest2 : Bytes) (dt : Int) (prec : String) (t : Int)
    (h : timeClause rest2 dt prec t) (hdt : dtSane dt = true) : MinNanoTime ≤ t ∧ t ≤ MaxNanoTime := by
  obtain ⟨ts, rest3, _, h | h⟩ := h
  · rw [h.2]; exact truncTime_range dt prec hdt
  · obtain ⟨_, v, _, hs⟩ := h; exact safeCalcTime_range v prec t hs

/-! ### `parseTags` never indexes out of range, on any key -/

theorem scanTo_partition (stop : Nat) (pbs : Bool) (s : Bytes) :
    (scanTo stop pbs s).1 ++ (scanTo stop pbs s).2 = s := by
  induction s generalizing pbs with
  | nil => rfl
  | cons b r ih =>
    rw [scanTo]
    split
    · rfl
    · simp [ih]

theorem scanTo_rest (stop : Nat) (pbs : Bool) (s : Bytes) :
    (scanTo stop pbs s).2 = [] ∨ ∃ r, (scanTo stop pbs s).2 = stop :: r := by
  induction s generalizing pbs with
  | nil => left; rfl
  | cons b r ih =>
    rw [scanTo]
    split
    · next h => right; exact ⟨r, by rw [h.1]⟩
    · exact ih _

theorem count_scanTo_rest (stop : Nat) (pbs : Bool) (s : Bytes) (x : Nat) :
    (scanTo stop pbs s).2.count x ≤ s.count x := by
  have h := scanTo_partition stop pbs s
  calc (scanTo stop pbs s).2.count x ≤ ((scanTo stop pbs s).1 ++ (scanTo stop pbs s).2).count x := by
        rw [List.count_append]; omega
    _ = s.count x := by rw [h]

theorem count_drop_le (l : Bytes) (x : Nat) : (l.drop 1).count x ≤ l.count x := by
  cases l with
  | nil => simp
  | cons a r => simp only [List.drop_succ_cons, List.drop_zero, List.count_cons]; split <;> omega

theorem walkTagsLoop_length (he : Bool) (fuel : Nat) (buf : Bytes) :
    (walkTagsLoop he fuel buf).length ≤ buf.count cComma + 1 := by
  induction fuel generalizing buf with
  | zero => simp [walkTagsLoop]
  | succ n ih =>
    cases buf with
    | nil => simp [walkTagsLoop]
    | cons b r =>
      rw [walkTagsLoop]
      have h1 := count_scanTo_rest cEq false (b :: r) cComma
      have h1' := count_drop_le (scanTo cEq false (b :: r)).2 cComma
      rw [scanTagValue_eq]
      have h2 := count_scanTo_rest cComma false ((scanTo cEq false (b :: r)).2.drop 1) cComma
      split
      · have := ih (scanTo cComma false ((scanTo cEq false (b :: r)).2.drop 1)).2
        omega
      · simp only [List.length_cons]
        rcases scanTo_rest cComma false ((scanTo cEq false (b :: r)).2.drop 1) with h | ⟨r', h⟩
        · rw [h]; simp [walkTagsLoop_nil]
        · rw [h] at h2 ⊢
          simp only [List.drop_succ_cons, List.drop_zero, List.count_cons_self] at h2 ⊢
          have := ih r'
          omega

theorem walkTags_length (buf : Bytes) : (walkTags buf).length ≤ buf.count cComma := by
  unfold walkTags
  split
  · simp
  · simp only
    split
    · simp
    · have h1 := count_scanTo_rest cComma false buf cComma
      rcases scanTo_rest cComma false buf with h | ⟨r, h⟩
      · rw [h]; simp [walkTagsLoop_nil]
      · rw [h] at h1 ⊢
        simp only [List.drop_succ_cons, List.drop_zero, List.count_cons_self] at h1 ⊢
        have := walkTagsLoop_length (buf.contains cBS) buf.length r
        omega

/-- `parseTags` (hence `point.Tags()`) returns on every byte string -/
theorem parseTags_isSome (buf : Bytes) : parseTags buf = some (walkTags buf) := by
  unfold parseTags
  simp [walkTags_length buf]

/-- `ParseKeyBytes` returns on every byte string -/
theorem parseKeyBytes_isSome (buf : Bytes) : (parseKeyBytes buf).isSome = true := by
  unfold parseKeyBytes
  split
  · rw [parseTags_isSome]; rfl
  · rfl

end Influx.LP
