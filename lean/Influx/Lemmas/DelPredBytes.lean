/-
  Lemmas.DelPredBytes — byte-level facts behind C16: escaping (`models`) and the
  two tag-popping routines of tsm1/predicate.go are inverse to each other on the
  domain `KeyOK`.
-/
import Influx.Model.DelPred

namespace Influx.Model.DelPred

/-! ### escaping as one pass -/

/-- escape every byte of the class `S` by a preceding backslash -/
def esc (S : Nat → Bool) (s : Bytes) : Bytes :=
  s.flatMap fun b => if S b then [92, b] else [b]

def tagSpecial (b : Nat) : Bool := b == 44 || b == 32 || b == 61
def measSpecial (b : Nat) : Bool := b == 44 || b == 32

@[simp] theorem esc_nil (S) : esc S [] = [] := rfl
theorem esc_cons (S b s) : esc S (b :: s) = (if S b then [92, b] else [b]) ++ esc S s := by
  simp [esc, List.flatMap_cons]

theorem escByte_eq_esc (c : Nat) (s : Bytes) : escByte c s = esc (fun b => b == c) s := by
  induction s with
  | nil => rfl
  | cons b s ih =>
    simp only [escByte, List.flatMap_cons, esc] at *
    rw [ih]
    by_cases h : b = c <;> simp [h]

theorem escByte_esc (c : Nat) (S : Nat → Bool) (hc : c ≠ 92) (hS : S c = false) (s : Bytes) :
    escByte c (esc S s) = esc (fun b => S b || b == c) s := by
  induction s with
  | nil => rfl
  | cons b s ih =>
    rw [esc_cons, esc_cons]
    have happ : ∀ x y : Bytes, escByte c (x ++ y) = escByte c x ++ escByte c y := by
      intro x y; simp [escByte, List.flatMap_append]
    rw [happ, ih]
    congr 1
    by_cases hb : S b = true
    · have hbc : b ≠ c := by intro h; rw [h, hS] at hb; cases hb
      have h92 : (92 : Nat) ≠ c := fun h => hc h.symm
      simp [hb, escByte, hbc, h92]
    · have hb' : S b = false := by simpa using hb
      by_cases hbc : b = c
      · subst hbc; simp [hS, escByte]
      · simp [hb', hbc, escByte]

theorem escapeTag_eq (s : Bytes) : escapeTag s = esc tagSpecial s := by
  unfold escapeTag
  rw [escByte_eq_esc 44 s, escByte_esc 32 _ (by decide) (by decide), escByte_esc 61 _ (by decide) (by decide)]
  rfl

theorem escapeMeasurement_eq (s : Bytes) : escapeMeasurement s = esc measSpecial s := by
  unfold escapeMeasurement
  rw [escByte_eq_esc 44 s, escByte_esc 32 _ (by decide) (by decide)]
  rfl

/-! ### last byte -/

/-- "the byte before the next position is a backslash", after scanning `s` starting with `pb` -/
def endBs (pb : Bool) (s : Bytes) : Bool :=
  match s.getLast? with
  | none => pb
  | some b => b == 92

theorem endBs_nil (pb) : endBs pb [] = pb := rfl
theorem endBs_cons (pb b s) : endBs pb (b :: s) = endBs (b == 92) s := by
  cases s with
  | nil => rfl
  | cons c s =>
    unfold endBs
    rw [List.getLast?_cons_cons]
    cases h : (c :: s).getLast? with
    | none => simp at h
    | some x => rfl

/-- no trailing backslash -/
def noTrailBs (s : Bytes) : Bool := s.getLast? != some 92

theorem endBs_false_of_noTrailBs {s : Bytes} (h : noTrailBs s = true) : endBs false s = false := by
  unfold noTrailBs at h
  unfold endBs
  cases hl : s.getLast? with
  | none => rfl
  | some b =>
    rw [hl] at h
    by_cases hb : b = 92
    · subst hb; simp at h
    · simp [hb]

/-! ### scanning an escaped string finds no unescaped separator -/

theorem splitUnesc_esc (S : Nat → Bool) (c : Nat) (hSc : S c = true) (hS92 : S 92 = false)
    (s t : Bytes) (pb : Bool) :
    splitUnesc c pb (esc S s ++ t) =
      match splitUnesc c (endBs pb s) t with
      | some (x, y) => some (esc S s ++ x, y)
      | none => none := by
  have hc92 : c ≠ 92 := by intro h; rw [h, hS92] at hSc; cases hSc
  induction s generalizing pb with
  | nil =>
    simp only [esc_nil, List.nil_append, endBs_nil]
    cases splitUnesc c pb t with
    | none => rfl
    | some v => cases v; rfl
  | cons b s ih =>
    rw [esc_cons, endBs_cons]
    by_cases hb : S b = true
    · have hb92 : b ≠ 92 := by intro h; rw [h, hS92] at hb; cases hb
      have h92c : (92 : Nat) ≠ c := fun h => hc92 h.symm
      simp only [hb, if_true, List.cons_append, List.nil_append]
      rw [splitUnesc]
      simp only [h92c, false_and, if_false]
      rw [splitUnesc]
      have : ((92 : Nat) == 92) = true := rfl
      simp only [this, Bool.true_eq_false, and_false, if_false]
      rw [ih]
      have hbf : (b == 92) = false := by simp [hb92]
      rw [hbf]
      cases splitUnesc c (endBs false s) t with
      | none => simp
      | some v => cases v; simp
    · have hb' : S b = false := by simpa using hb
      have hbc : b ≠ c := by intro h; rw [h, hSc] at hb'; cases hb'
      simp only [hb', Bool.false_eq_true, if_false, List.cons_append, List.nil_append]
      rw [splitUnesc]
      simp only [hbc, false_and, if_false]
      rw [ih]
      cases splitUnesc c (endBs (b == 92) s) t with
      | none => simp
      | some v => cases v; simp

theorem splitUnesc_none_of_not_mem (c : Nat) (s : Bytes) (h : c ∉ s) (pb : Bool) :
    splitUnesc c pb s = none := by
  induction s generalizing pb with
  | nil => rfl
  | cons b s ih =>
    have hb : b ≠ c := fun e => h (by simp [e])
    have hs : c ∉ s := fun e => h (by simp [e])
    rw [splitUnesc]
    simp [hb, ih hs]

/-! ### unescaping -/

theorem unescLoop_cons (b : Nat) (X : Bytes)
    (h : b ≠ 92 ∨ ∀ x, X.head? = some x → tagSpecial x = false) :
    unescLoop (b :: X) = b :: unescLoop X := by
  cases X with
  | nil => simp [unescLoop]
  | cons x X' =>
    rw [unescLoop]
    rcases h with h | h
    · simp [h]
    · have hx := h x rfl
      simp [tagSpecial] at hx
      simp [hx]

theorem head_esc_not_special (s : Bytes) : ∀ x, (esc tagSpecial s).head? = some x → tagSpecial x = false := by
  intro x hx
  cases s with
  | nil => simp at hx
  | cons b s =>
    rw [esc_cons] at hx
    by_cases hb : tagSpecial b = true
    · simp [hb] at hx; subst hx; rfl
    · simp [hb] at hx; subst hx; simpa using hb

theorem unescLoop_esc (s : Bytes) : unescLoop (esc tagSpecial s) = s := by
  induction s with
  | nil => rfl
  | cons b s ih =>
    rw [esc_cons]
    by_cases hb : tagSpecial b = true
    · have hb92 : b ≠ 92 := by intro h; rw [h] at hb; cases hb
      simp only [hb, if_true, List.cons_append, List.nil_append]
      have hsp : b = 44 ∨ b = 32 ∨ b = 61 := by
        simp only [tagSpecial, Bool.or_eq_true, beq_iff_eq] at hb
        rcases hb with (h | h) | h <;> simp [h]
      rw [unescLoop]
      simp only [hsp, and_self, if_true]
      rw [unescLoop_cons b _ (Or.inl hb92), ih]
    · simp only [hb, Bool.false_eq_true, if_false, List.cons_append, List.nil_append]
      rw [unescLoop_cons b _ (Or.inr (head_esc_not_special s)), ih]

theorem unescLoop_id (s : Bytes) (h : 92 ∉ s) : unescLoop s = s := by
  induction s with
  | nil => rfl
  | cons b s ih =>
    have hb : b ≠ 92 := fun e => h (by simp [e])
    have hs : 92 ∉ s := fun e => h (by simp [e])
    rw [unescLoop_cons b s (Or.inl hb), ih hs]

theorem unescIfBs_esc (s : Bytes) : unescIfBs (esc tagSpecial s) = s := by
  unfold unescIfBs
  by_cases h : (esc tagSpecial s).contains 92 = true
  · rw [if_pos h]; exact unescLoop_esc s
  · rw [if_neg h]
    have h' : 92 ∉ esc tagSpecial s := by simpa using h
    rw [← unescLoop_id _ h', unescLoop_esc]

/-! ### membership / last byte through escaping and unescaping -/

theorem mem_esc {S : Nat → Bool} {s : Bytes} {x : Nat} (h : x ∈ esc S s) : x = 92 ∨ x ∈ s := by
  induction s with
  | nil => simp at h
  | cons b s ih =>
    rw [esc_cons] at h
    by_cases hb : S b = true
    · simp only [hb, if_true, List.cons_append, List.nil_append, List.mem_cons] at h
      rcases h with h | h | h
      · exact Or.inl h
      · exact Or.inr (by simp [h])
      · rcases ih h with h | h
        · exact Or.inl h
        · exact Or.inr (by simp [h])
    · simp only [hb, Bool.false_eq_true, if_false, List.cons_append, List.nil_append, List.mem_cons] at h
      rcases h with h | h
      · exact Or.inr (by simp [h])
      · rcases ih h with h | h
        · exact Or.inl h
        · exact Or.inr (by simp [h])

theorem getLast?_cons_ne_none (a : Nat) (l : Bytes) : (a :: l).getLast? ≠ none := by
  simp [List.getLast?_eq_none_iff]

theorem esc_append (S : Nat → Bool) (x y : Bytes) : esc S (x ++ y) = esc S x ++ esc S y := by
  simp [esc, List.flatMap_append]

theorem getLast?_esc (S : Nat → Bool) (s : Bytes) : (esc S s).getLast? = s.getLast? := by
  rcases List.eq_nil_or_concat s with rfl | ⟨s', b, rfl⟩
  · rfl
  · rw [List.concat_eq_append, esc_append, esc_cons]
    by_cases hb : S b = true <;> simp [hb, List.getLast?_append]

theorem noTrailBs_esc (S : Nat → Bool) (s : Bytes) : noTrailBs (esc S s) = noTrailBs s := by
  simp [noTrailBs, getLast?_esc]

theorem mem_unescByte {c : Nat} {s : Bytes} {x : Nat} (h : x ∈ unescByte c s) : x ∈ s := by
  fun_induction unescByte c s with
  | case1 => exact h
  | case2 b => exact h
  | case3 a b rest hc ih =>
    simp only [List.mem_cons] at h ⊢
    rcases h with h | h
    · exact Or.inr (Or.inl (by rw [h, hc.2]))
    · exact Or.inr (Or.inr (ih h))
  | case4 a b rest hc ih =>
    simp only [List.mem_cons] at h ⊢
    rcases h with h | h
    · exact Or.inl h
    · have := ih h
      exact Or.inr (by simpa using this)

theorem getLast?_unescByte (c : Nat) (s : Bytes) : (unescByte c s).getLast? = s.getLast? := by
  fun_induction unescByte c s with
  | case1 => rfl
  | case2 b => rfl
  | case3 a b rest hc ih =>
    cases rest with
    | nil => simp [unescByte, hc.2]
    | cons r rest =>
      rw [List.getLast?_cons_cons, List.getLast?_cons_cons]
      cases hu : unescByte c (r :: rest) with
      | nil =>
        rw [hu] at ih; exact absurd ih.symm (getLast?_cons_ne_none _ _)
      | cons u us =>
        rw [List.getLast?_cons_cons, ← hu, ih]
  | case4 a b rest hc ih =>
    rw [List.getLast?_cons_cons]
    cases hu : unescByte c (b :: rest) with
    | nil => rw [hu] at ih; exact absurd ih.symm (getLast?_cons_ne_none _ _)
    | cons u us => rw [List.getLast?_cons_cons, ← hu, ih]

theorem noTrailBs_unescapeMeasurement (s : Bytes) : noTrailBs (unescapeMeasurement s) = noTrailBs s := by
  unfold unescapeMeasurement
  split
  · simp [noTrailBs, getLast?_unescByte]
  · rfl

theorem not_mem_unescapeMeasurement {x : Nat} {s : Bytes} (h : x ∉ s) : x ∉ unescapeMeasurement s := by
  unfold unescapeMeasurement
  split
  · exact fun hx => h (mem_unescByte (mem_unescByte hx))
  · exact h

/-! ### popping one `k=v` pair and the leading measurement name -/

/-- what follows a pair in a key: nothing, or a comma and more -/
def TailOK (T : Bytes) : Prop := T = [] ∨ ∃ T', T = 44 :: T'

theorem tailOK_appendHashKey (ts : List (Bytes × Bytes)) : TailOK (appendHashKey ts) := by
  induction ts with
  | nil => exact Or.inl rfl
  | cons t ts ih =>
    obtain ⟨k, v⟩ := t
    unfold appendHashKey
    split
    · exact ih
    · exact Or.inr ⟨_, rfl⟩

theorem splitUnesc_comma_tail {T : Bytes} (hT : TailOK T) :
    splitUnesc 44 false T = if T = [] then none else some ([], T.tail) := by
  rcases hT with rfl | ⟨T', rfl⟩
  · rfl
  · simp [splitUnesc]

theorem popTagEscape_pair (k v T : Bytes) (hk : noTrailBs k = true) (hv : noTrailBs v = true)
    (hT : TailOK T) :
    popTagEscape (esc tagSpecial k ++ 61 :: (esc tagSpecial v ++ T)) = (some k, some v, T.tail) := by
  have h44 : splitUnesc 44 false (esc tagSpecial k ++ 61 :: (esc tagSpecial v ++ T)) =
      if T = [] then none else some (esc tagSpecial k ++ 61 :: esc tagSpecial v, T.tail) := by
    rw [splitUnesc_esc tagSpecial 44 rfl rfl, endBs_false_of_noTrailBs hk, splitUnesc]
    simp only [show ¬((61 : Nat) = 44) by decide, false_and, if_false, show ((61 : Nat) == 92) = false by rfl]
    rw [splitUnesc_esc tagSpecial 44 rfl rfl, endBs_false_of_noTrailBs hv, splitUnesc_comma_tail hT]
    by_cases hTe : T = [] <;> simp [hTe]
  have h61 : splitUnesc 61 false (esc tagSpecial k ++ 61 :: esc tagSpecial v) =
      some (esc tagSpecial k, esc tagSpecial v) := by
    rw [splitUnesc_esc tagSpecial 61 rfl rfl, endBs_false_of_noTrailBs hk, splitUnesc]
    simp
  unfold popTagEscape
  rw [h44]
  by_cases hTe : T = []
  · subst hTe
    simp only [if_true, List.append_nil]
    rw [h61]
    simp [unescIfBs_esc]
  · simp only [hTe, if_false]
    rw [h61]
    simp [unescIfBs_esc]

theorem popTagEscape_name (u T : Bytes) (hu : noTrailBs u = true) (h61 : 61 ∉ u) (hT : TailOK T) :
    popTagEscape (esc measSpecial u ++ T) = (none, none, T.tail) := by
  have hm : 61 ∉ esc measSpecial u := by
    intro h; rcases mem_esc h with h | h
    · cases h
    · exact h61 h
  have h44 : splitUnesc 44 false (esc measSpecial u ++ T) =
      if T = [] then none else some (esc measSpecial u, T.tail) := by
    rw [splitUnesc_esc measSpecial 44 rfl rfl, endBs_false_of_noTrailBs hu, splitUnesc_comma_tail hT]
    by_cases hTe : T = [] <;> simp [hTe]
  unfold popTagEscape
  rw [h44]
  by_cases hTe : T = []
  · subst hTe
    simp only [if_true, List.append_nil]
    rw [splitUnesc_none_of_not_mem 61 _ hm]
    rfl
  · simp only [hTe, if_false]
    rw [splitUnesc_none_of_not_mem 61 _ hm]

/-! ### the fast path: without any backslash `predicatePopTag` pops the same pair -/

theorem splitUnesc_eq_cut (c : Nat) (s : Bytes) (h : 92 ∉ s) :
    splitUnesc c false s = match cut c s with
      | (a, some b) => some (a, b)
      | (_, none) => none := by
  induction s with
  | nil => rfl
  | cons b s ih =>
    have hb : b ≠ 92 := fun e => h (by simp [e])
    have hs : 92 ∉ s := fun e => h (by simp [e])
    rw [splitUnesc, cut]
    by_cases hbc : b = c
    · simp [hbc]
    · have hbf : (b == 92) = false := by simp [hb]
      simp only [hbc, false_and, if_false, hbf]
      rw [ih hs]
      rcases hcs : cut c s with ⟨a, _ | y⟩ <;> simp

theorem cut_fst_of_none (c : Nat) (s : Bytes) (h : (cut c s).2 = none) : (cut c s).1 = s := by
  induction s with
  | nil => rfl
  | cons b s ih =>
    rw [cut] at h ⊢
    by_cases hbc : b = c
    · simp [hbc] at h
    · simp only [hbc, if_false] at h ⊢
      rw [ih h]

theorem mem_cut_fst {c : Nat} {s : Bytes} {x : Nat} (h : x ∈ (cut c s).1) : x ∈ s := by
  induction s with
  | nil => simp [cut] at h
  | cons b s ih =>
    rw [cut] at h
    by_cases hbc : b = c
    · simp [hbc] at h
    · simp only [hbc, if_false, List.mem_cons] at h
      rcases h with h | h
      · simp [h]
      · simp [ih h]

theorem mem_cut_snd {c : Nat} {s y : Bytes} {x : Nat} (hy : (cut c s).2 = some y) (h : x ∈ y) : x ∈ s := by
  induction s with
  | nil => simp [cut] at hy
  | cons b s ih =>
    rw [cut] at hy
    by_cases hbc : b = c
    · simp [hbc] at hy; subst hy; simp [h]
    · simp only [hbc, if_false] at hy
      simp [ih hy]

/-- On a backslash-free key `predicatePopTag` returns what `predicatePopTagEscape` returns,
    except that a segment without `=` comes back as a tag with a nil value instead of nil/nil. -/
theorem popTag_eq_escape (s : Bytes) (h : 92 ∉ s) :
    popTag s = match popTagEscape s with
      | (none, _, rest) => (some (cut 44 s).1, none, rest)
      | (some t, v, rest) => (some t, v, rest) := by
  unfold popTag popTagEscape
  rw [splitUnesc_eq_cut 44 s h]
  have h1 : 92 ∉ (cut 44 s).1 := fun e => h (mem_cut_fst e)
  have hfst := cut_fst_of_none 44 s
  rcases hc : cut 44 s with ⟨a, _ | r⟩
  · rw [hc] at h1 hfst
    have ha : a = s := hfst rfl
    subst ha
    simp only [Option.getD_none]
    rw [splitUnesc_eq_cut 61 a h]
    rcases hc3 : cut 61 a with ⟨t, _ | y⟩
    · have : t = a := by
        have := cut_fst_of_none 61 a (by rw [hc3])
        rw [hc3] at this; exact this
      simp [this]
    · have ht : 92 ∉ t := fun e => h (mem_cut_fst (c := 61) (s := a) (by rw [hc3]; exact e))
      have hy : 92 ∉ y := fun e => h (mem_cut_snd (c := 61) (s := a) (y := y) (by rw [hc3]) e)
      simp [unescIfBs, ht, hy]
  · rw [hc] at h1
    simp only at h1
    simp only [Option.getD_some]
    rw [splitUnesc_eq_cut 61 a h1]
    rcases hc3 : cut 61 a with ⟨t, _ | y⟩
    · have : t = a := by
        have := cut_fst_of_none 61 a (by rw [hc3])
        rw [hc3] at this; exact this
      simp [this]
    · have ht : 92 ∉ t := fun e => h1 (mem_cut_fst (c := 61) (s := a) (by rw [hc3]; exact e))
      have hy : 92 ∉ y := fun e => h1 (mem_cut_snd (c := 61) (s := a) (y := y) (by rw [hc3]) e)
      simp [unescIfBs, ht, hy]

/-! ### the field separator -/

def hasSep : Bytes → Bool
  | [] => false
  | b :: bs => fieldSep.isPrefixOf (b :: bs) || hasSep bs

theorem cutFieldSep_of_not_hasSep (s : Bytes) (h : hasSep s = false) : cutFieldSep s = s := by
  induction s with
  | nil => rfl
  | cons b s ih =>
    simp only [hasSep, Bool.or_eq_false_iff] at h
    rw [cutFieldSep]
    simp [h.1, ih h.2]

/-- with a field appended: the first separator is the appended one -/
theorem cutFieldSep_composite (s f : Bytes) (h : hasSep (s ++ [35, 33, 126]) = false) :
    cutFieldSep (compositeKey s f) = s := by
  unfold compositeKey
  induction s with
  | nil => simp [cutFieldSep, fieldSep]
  | cons b s ih =>
    simp only [List.cons_append, hasSep, Bool.or_eq_false_iff] at h
    simp only [List.cons_append, List.append_assoc]
    rw [cutFieldSep]
    have hp : fieldSep.isPrefixOf (b :: (s ++ (fieldSep ++ f))) = false := by
      have h1 := h.1
      -- a prefix match of length 4 lies within s ++ "#!~" ++ "#..." : compare the first four bytes
      unfold fieldSep at h1 ⊢
      rcases s with _ | ⟨c, _ | ⟨d, _ | ⟨e, s⟩⟩⟩ <;>
        simp_all [List.isPrefixOf]
    rw [hp]
    simp only [Bool.false_eq_true, if_false]
    have := ih h.2
    simp only [List.append_assoc] at this
    rw [this]

end Influx.Model.DelPred
