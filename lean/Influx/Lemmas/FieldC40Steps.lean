/-
  Lemmas.FieldC40Steps — invariant of the C40 model state; every operation is
  accepted by the statement checker of C40; used by Props.C40.
-/
import Influx.Lemmas.FieldC40
import Influx.Lemmas.FieldVerdicts

namespace Influx.Fields.C40Steps
open Influx.Fields Influx.Spec.C40

/-- invariant of the model state: stored keys are pairwise different and no
    stored datum belongs to a field named `time` -/
def Inv (st : State) : Prop :=
  (st.data.map (·.1)).Nodup ∧ ∀ e ∈ st.data, e.1.2.2.1 ≠ timeName

theorem inv_init : Inv {} := by
  refine ⟨?_, ?_⟩
  · show ([] : List EKey).Nodup
    exact List.nodup_nil
  · intro e he; cases he

theorem pointEntries_not_time (p : Point) (e : EKey × Val) (he : e ∈ pointEntries p) :
    e.1.2.2.1 ≠ timeName := by
  unfold pointEntries at he
  obtain ⟨f, hf, rfl⟩ := List.mem_map.1 he
  have := (List.mem_filter.1 hf).2
  simpa using this

theorem inv_write (st : State) (batch : List Point) (h : Inv st) : Inv (writePoints st batch).1 := by
  obtain ⟨hd, _⟩ := writePoints_state st batch
  refine ⟨?_, ?_⟩
  · rw [hd]; exact nodup_foldl_upsert _ _ h.1
  · rw [hd]; intro e he
    rcases mem_foldl_upsert _ _ e he with h1 | h1
    · unfold accE at h1
      obtain ⟨pv, _, hpe⟩ := List.mem_flatMap.1 h1
      exact pointEntries_not_time pv.1 e hpe
    · exact h.2 e h1

/-- The statement checker accepts what the model stores for a batch of which it
    refused `countDropped V` points. -/
theorem judge_model (st : State) (batch : List Point) (h : Inv st) :
    judge st.data batch (countDropped (verdicts st.sch batch).2.2) (writePoints st batch).1.data = none := by
  have hAn := (inv_write st batch h).1
  have hA : (writePoints st batch).1.data = (accE (verdicts st.sch batch).2.2).foldl upsert st.data :=
    (writePoints_state st batch).1
  have hmap := verdicts_map_fst st.sch batch
  have hne := accepted_nonempty st.sch batch
  generalize (verdicts st.sch batch).2.2 = V at hA hmap hne
  generalize (writePoints st batch).1.data = A at hA hAn
  unfold judge
  by_cases hdist : distinctBatch batch = true
  case neg => simp [hdist]
  simp only [hdist, Bool.not_true, Bool.false_eq_true, if_false]
  have hK : (batchKeys batch).Nodup := by simpa [distinctBatch] using hdist
  have hK' : ((allE V).map (·.1)).Nodup := by rw [← batchKeys_eq, hmap]; exact hK
  have hfun : functional A = true := by simpa [functional] using hAn
  simp only [hfun, Bool.not_true, Bool.false_eq_true, if_false]
  -- classification of every point
  have hacc : ∀ pv ∈ V, pv.2.accepted = true →
      classify st.data A pv.1 = .acc ∨ classify st.data A pv.1 = .amb := by
    intro pv hpv ha
    rw [hA]
    exact classify_acc V st.data h.1 hK' pv.1 pv.2 hpv ha (hne pv.1 pv.2 hpv ha)
  have hrej : ∀ pv ∈ V, pv.2.accepted = false →
      classify st.data A pv.1 = .rej ∨ classify st.data A pv.1 = .amb := by
    intro pv hpv hr
    rw [hA]
    exact classify_rej V st.data h.1 hK' pv.1 pv.2 hpv hr
  have hbad : batch.any (fun p => classify st.data A p == .bad) = false := by
    rw [List.any_eq_false]
    intro p hp
    rw [← hmap] at hp
    obtain ⟨pv, hpv, rfl⟩ := List.mem_map.1 hp
    cases hacc' : pv.2.accepted with
    | true => rcases hacc pv hpv hacc' with h1 | h1 <;> simp [h1]
    | false => rcases hrej pv hpv hacc' with h1 | h1 <;> simp [h1]
  simp only [hbad, Bool.false_eq_true, if_false]
  have hc1 : batch.countP (fun p => classify st.data A p == .rej) ≤ countDropped V := by
    rw [← hmap, List.countP_map]
    unfold countDropped
    apply List.countP_mono_left
    intro pv hpv hc
    cases hacc' : pv.2.accepted with
    | true =>
      rcases hacc pv hpv hacc' with h1 | h1 <;> simp [Function.comp, h1] at hc
    | false => rfl
  have hc2 : countDropped V ≤
      batch.countP (fun p => classify st.data A p == .rej || classify st.data A p == .amb) := by
    rw [← hmap, List.countP_map]
    unfold countDropped
    apply List.countP_mono_left
    intro pv hpv hc
    have hr : pv.2.accepted = false := by simpa using hc
    rcases hrej pv hpv hr with h1 | h1 <;> simp [Function.comp, h1]
  have hcc : (decide (batch.countP (fun p => classify st.data A p == .rej) ≤ countDropped V) &&
      decide (countDropped V ≤
        batch.countP (fun p => classify st.data A p == .rej || classify st.data A p == .amb))) = true := by
    simp [hc1, hc2]
  simp only [hcc, Bool.not_true, Bool.false_eq_true, if_false]
  -- frame
  have hother : ∀ k, k ∉ batchKeys batch → A.lookup k = st.data.lookup k := by
    intro k hk
    rw [hA]; apply lookup_after_other V st.data h.1 hK'
    rw [← batchKeys_eq, hmap]; exact hk
  have hf1 : A.all (fun e => (batchKeys batch).contains e.1 || st.data.lookup e.1 == some e.2) = true := by
    rw [List.all_eq_true]; intro e he
    by_cases hk : e.1 ∈ batchKeys batch
    · simp [hk]
    · have h1 : A.lookup e.1 = some e.2 := mem_lookup_of_nodup A hAn e he
      rw [← hother _ hk, h1]; simp
  have hf2 : st.data.all (fun e => (batchKeys batch).contains e.1 || A.lookup e.1 == some e.2) = true := by
    rw [List.all_eq_true]; intro e he
    by_cases hk : e.1 ∈ batchKeys batch
    · simp [hk]
    · have h1 : st.data.lookup e.1 = some e.2 := mem_lookup_of_nodup st.data h.1 e he
      rw [hother _ hk, h1]; simp
  simp only [hf1, hf2, Bool.and_self, Bool.not_true, Bool.false_eq_true, if_false]

/-- The statement checker accepts the model's write (any batch, any state
    satisfying the invariant). -/
theorem writeFails_model (st : State) (batch : List Point) (h : Inv st) :
    writeFails st.data batch (writePoints st batch).2 (writePoints st batch).1.data = none := by
  have hj := judge_model st batch h
  rcases writePoints_res st batch with ⟨h1, h2⟩ | ⟨r, h1⟩
  · rw [h1]; unfold writeFails; simp only; rw [← h2]; exact hj
  · rw [h1]; unfold writeFails; exact hj

theorem sameStore_self' (d : Store) (hn : (d.map (·.1)).Nodup) : sameStore d d = true := by
  have : d.all (fun e => d.lookup e.1 == some e.2) = true := by
    rw [List.all_eq_true]; intro e he
    rw [mem_lookup_of_nodup d hn e he]; simp
  simp [sameStore, this]

theorem no_time_data (st : State) (h : Inv st) :
    (rawKeys st.data).any (fun k => k.1.2.2 == timeName) = false := by
  rw [List.any_eq_false]
  intro k hk
  unfold rawKeys at hk
  rw [List.mem_eraseDups] at hk
  obtain ⟨e, he, rfl⟩ := List.mem_map.1 hk
  have := h.2 e he
  simpa using this

theorem inv_step (st : State) (op : Op40) (h : Inv st) : Inv (step40 st op).1 := by
  cases op with
  | write b => exact inv_write st b h
  | _ => exact h

theorem firstFailure_trace (st : State) (h : Inv st) (ops : List Op40) :
    firstFailure st.data (trace40 st ops) = none := by
  induction ops generalizing st with
  | nil => rfl
  | cons op ops ih =>
    have hi := inv_step st op h
    have := ih _ hi
    cases op with
    | write b =>
      simp only [trace40, step40, firstFailure, stepFails] at this ⊢
      rw [writeFails_model st b h]
      exact this
    | read =>
      simp only [trace40, step40, firstFailure, stepFails, sameStore_self' st.data h.1, if_true] at this ⊢
      exact this
    | keys =>
      simp only [trace40, step40, firstFailure, stepFails, no_time_data st h] at this ⊢
      exact this
    | schema => simp only [trace40, step40, firstFailure, stepFails] at this ⊢; exact this
    | snap => simp only [trace40, step40, firstFailure, stepFails] at this ⊢; exact this
    | reopen => simp only [trace40, step40, firstFailure, stepFails] at this ⊢; exact this

/-- the model state after a sequence of operations -/
def run : State → List Op40 → State
  | st, [] => st
  | st, o :: os => run (step40 st o).1 os

theorem run_inv (st : State) (h : Inv st) (ops : List Op40) : Inv (run st ops) := by
  induction ops generalizing st with
  | nil => exact h
  | cons o os ih => exact ih _ (inv_step st o h)

end Influx.Fields.C40Steps
