/-
  Lemmas.WindowAggLast — the `last` window cursor: chunking / block independence and
  equality with "last point of every window".
-/
import Influx.Lemmas.WindowAggSpec

namespace Influx.WindowAgg.Last
open Influx.Spec.C20
variable {α : Type}

/-- one pass, no arrays, no blocks; `out` is the result so far, its last entry the running
    candidate of the current window; `none` = the index panic of the Go code -/
def seqL (w : Win) : List (Pt α) → Option Int → List (Pt α) → Option (List (Pt α))
  | [], _, out => some out
  | p :: ps, we, out =>
    if atOrAfter p.1 we then seqL w ps (some (w.stop p.1)) (out ++ [p])
    else if out.isEmpty then none
      else seqL w ps (some (w.stop p.1)) (out.dropLast ++ [p])

/-- only the last entry of `out` is ever touched -/
theorem seqL_prefix (w : Win) (o1 : List (Pt α)) :
    ∀ (l : List (Pt α)) (we : Option Int) (o2 : List (Pt α)), o2 ≠ [] →
    seqL w l we (o1 ++ o2) = (seqL w l we o2).map (o1 ++ ·) := by
  intro l
  induction l with
  | nil => intro we o2 _; simp [seqL]
  | cons p ps ih =>
    intro we o2 h2
    have h12 : o1 ++ o2 ≠ [] := by simp [h2]
    unfold seqL
    by_cases ha : atOrAfter p.1 we = true
    · simp only [ha, ↓reduceIte]
      rw [List.append_assoc]
      exact ih _ _ (by simp)
    · simp only [ha, Bool.false_eq_true, ↓reduceIte]
      have e1 : (o1 ++ o2).isEmpty = false := by
        cases h : o1 ++ o2 with
        | nil => exact absurd h h12
        | cons => rfl
      have e2 : o2.isEmpty = false := by
        cases h : o2 with
        | nil => exact absurd h h2
        | cons => rfl
      simp only [e1, e2, Bool.false_eq_true, ↓reduceIte]
      rw [List.dropLast_append_of_ne_nil h2, List.append_assoc]
      exact ih _ _ (by simp)

/-- a row that starts a new window does not care about what is in `out` -/
theorem seqL_fresh (w : Win) (o : List (Pt α)) (p : Pt α) (l : List (Pt α)) (we : Option Int)
    (ha : atOrAfter p.1 we = true) :
    seqL w (p :: l) we o = (seqL w (p :: l) we []).map (o ++ ·) := by
  simp only [seqL, ha, ↓reduceIte, List.nil_append]
  exact seqL_prefix w o l _ [p] (by simp)

theorem scan_spec (B : Nat) (w : Win) (rest : List (Pt α)) :
    ∀ (a : List (Pt α)) (we : Option Int) (out : List (Pt α)),
    match scan B w a we out with
    | .more o we' => seqL w (a ++ rest) we out = seqL w rest we' o
    | .full o r we' => seqL w (a ++ rest) we out = seqL w (r ++ rest) we' o ∧ o.length = B ∧
        r.length ≤ a.length ∧ (out.length < B → r.length < a.length) ∧
        (∃ p ps, r = p :: ps ∧ atOrAfter p.1 we' = true)
    | .panic => seqL w (a ++ rest) we out = none := by
  intro a
  induction a with
  | nil => intro we out; simp [scan]
  | cons p ps ih =>
    intro we out
    unfold scan
    by_cases ha : atOrAfter p.1 we = true
    · simp only [ha, ↓reduceIte]
      by_cases hfull : out.length = B
      · rw [if_pos hfull]
        exact ⟨rfl, hfull, Nat.le_refl _, fun h => by omega, p, ps, rfl, ha⟩
      · rw [if_neg hfull]
        have := ih (some (w.stop p.1)) (out ++ [p])
        split at this
        · simpa [seqL, ha] using this
        · refine ⟨by simpa [seqL, ha] using this.1, this.2.1, ?_, ?_, this.2.2.2.2⟩
          · have := this.2.2.1; simp only [List.length_cons]; omega
          · intro _; have := this.2.2.1; simp only [List.length_cons]; omega
        · simpa [seqL, ha] using this
    · simp only [ha, Bool.false_eq_true, ↓reduceIte]
      cases out with
      | nil => simp [seqL, ha]
      | cons x xs =>
        simp only
        have := ih (some (w.stop p.1)) ((x :: xs).dropLast ++ [p])
        have hlen : ((x :: xs).dropLast ++ [p]).length = (x :: xs).length := by simp
        split at this
        · simpa [seqL, ha] using this
        · refine ⟨by simpa [seqL, ha] using this.1, this.2.1, ?_, ?_, this.2.2.2.2⟩
          · have := this.2.2.1; simp only [List.length_cons] at this ⊢; omega
          · intro _; have := this.2.2.1; simp only [List.length_cons] at this ⊢; omega
        · simpa [seqL, ha] using this

/-- the `NEXT:` loop from one array on -/
theorem run_spec (B : Nat) (w : Win) :
    ∀ (inp : List (List (Pt α))) (a : List (Pt α)) (we : Option Int) (out : List (Pt α)),
    Fold.NonEmptyChunks inp →
    match run B w a inp we out with
    | none => seqL w (a ++ inp.flatten) we out = none
    | some (s', o) =>
      seqL w (a ++ inp.flatten) we out = (seqL w s'.st.rest s'.windowEnd []).map (o ++ ·) ∧
      (s'.st.rest = [] ∨ o.length = B) ∧
      s'.st.rest.length ≤ (a ++ inp.flatten).length ∧
      (out.length < B → a ≠ [] → s'.st.rest.length < (a ++ inp.flatten).length) ∧
      Fold.NonEmptyChunks s'.st.inp := by
  intro inp
  induction inp with
  | nil =>
    intro a we out _
    have hs := scan_spec B w [] a we out
    unfold run
    split at hs
    · next o we' heq =>
      simp only [heq, St.rest, List.flatten_nil, List.append_nil, seqL, Option.map_some, List.length_nil,
        Nat.zero_le, true_and]
      refine ⟨by simpa [seqL] using hs, by simp, ?_, by intro c hc; cases hc⟩
      intro _ ha
      cases a with
      | nil => exact absurd rfl ha
      | cons => simp
    · next o r we' heq =>
      simp only [heq, St.rest, List.flatten_nil, List.append_nil]
      obtain ⟨p, ps, hr, hat⟩ := hs.2.2.2.2
      refine ⟨?_, Or.inr hs.2.1, hs.2.2.1, fun h _ => hs.2.2.2.1 h, by intro c hc; cases hc⟩
      have := hs.1
      simp only [List.append_nil] at this
      rw [this, hr]
      exact seqL_fresh w o p ps we' hat
    · next heq =>
      simp only [heq]
      simpa using hs
  | cons c cs ih =>
    intro a we out hne
    have hc : c ≠ [] := hne c (by simp)
    have hcs : Fold.NonEmptyChunks cs := fun x hx => hne x (by simp [hx])
    have hs := scan_spec B w (c ++ cs.flatten) a we out
    unfold run
    split at hs
    · next o we' heq =>
      have hce : c.isEmpty = false := by cases c with | nil => exact absurd rfl hc | cons => rfl
      simp only [heq, hce, Bool.false_eq_true, ↓reduceIte, List.flatten_cons]
      have ih' := ih c we' o hcs
      have hcl : 0 < c.length := List.length_pos_iff.mpr hc
      -- `o` may be as long as B here only if nothing more is appended; handle both
      split at ih'
      · next hrun => rw [hs]; exact ih'
      · next s' o' hrun =>
        refine ⟨by rw [hs]; exact ih'.1, ih'.2.1, ?_, ?_, ih'.2.2.2.2⟩
        · have := ih'.2.2.1; simp only [List.length_append] at this ⊢; omega
        · intro _ ha
          have hal : 0 < a.length := List.length_pos_iff.mpr ha
          have := ih'.2.2.1; simp only [List.length_append] at this ⊢; omega
    · next o r we' heq =>
      simp only [heq, St.rest, List.flatten_cons]
      obtain ⟨p, ps, hr, hat⟩ := hs.2.2.2.2
      refine ⟨?_, Or.inr hs.2.1, ?_, ?_, hne⟩
      · rw [hs.1, hr]
        exact seqL_fresh w o p (ps ++ (c ++ cs.flatten)) we' hat
      · have := hs.2.2.1; simp only [List.length_append]; omega
      · intro h _; have := hs.2.2.2.1 h; simp only [List.length_append]; omega
    · next heq =>
      simp only [heq]
      exact hs

theorem next_spec (B : Nat) (hB : 1 ≤ B) (w : Win) (s : State α) (hne : Fold.NonEmptyChunks s.st.inp) :
    match next B w s with
    | none => seqL w s.st.rest s.windowEnd [] = none
    | some (s', o) =>
      seqL w s.st.rest s.windowEnd [] = (seqL w s'.st.rest s'.windowEnd []).map (o ++ ·) ∧
      (s'.st.rest = [] ∨ o.length = B) ∧
      (s.st.rest ≠ [] → s'.st.rest.length < s.st.rest.length) ∧
      (s.st.rest = [] → s'.st.rest = [] ∧ o = []) ∧
      Fold.NonEmptyChunks s'.st.inp := by
  obtain ⟨⟨tmp, inp⟩, we⟩ := s
  unfold next
  cases tmp with
  | nil =>
    cases inp with
    | nil => simp [pop, St.rest, seqL, Fold.NonEmptyChunks]
    | cons c cs =>
      have hc : c ≠ [] := hne c (by simp)
      have hcs : Fold.NonEmptyChunks cs := fun x hx => hne x (by simp [hx])
      have hce : c.isEmpty = false := by cases c with | nil => exact absurd rfl hc | cons => rfl
      have hr := run_spec B w cs c we [] hcs
      simp only [List.isEmpty_nil, ↓reduceIte, pop, hce, Bool.false_eq_true]
      split at hr
      · next hrun => simpa [St.rest] using hr
      · next s' o hrun =>
        refine ⟨by simpa [St.rest] using hr.1, hr.2.1, ?_, ?_, hr.2.2.2.2⟩
        · intro _; simpa [St.rest] using hr.2.2.2.1 (by simp; omega) hc
        · intro h; simp [St.rest, hc] at h
  | cons p ps =>
    have hr := run_spec B w inp (p :: ps) we [] hne
    simp only [List.isEmpty_cons, Bool.false_eq_true, ↓reduceIte]
    split at hr
    · next hrun => exact hr
    · next s' o hrun =>
      refine ⟨hr.1, hr.2.1, ?_, ?_, hr.2.2.2.2⟩
      · intro _; exact hr.2.2.2.1 (by simp; omega) (by simp)
      · intro h; simp [St.rest] at h

/-- chunking / block independence of the `last` cursor (when the Go code does not panic) -/
theorem drain_spec (B : Nat) (hB : 1 ≤ B) (w : Win) :
    ∀ (fuel : Nat) (s : State α) (res : List (Pt α)), Fold.NonEmptyChunks s.st.inp → s.st.rest.length < fuel →
    seqL w s.st.rest s.windowEnd [] = some res →
    ∃ arrs, drain (next B w) fuel s = some arrs ∧ arrs.flatten = res ∧ (∀ a ∈ arrs, a ≠ []) := by
  intro fuel
  induction fuel with
  | zero => intro s _ _ h; omega
  | succ n ih =>
    intro s res hne hlen hres
    have hn := next_spec B hB w s hne
    simp only [drain]
    split at hn
    · next hnx => rw [hn] at hres; cases hres
    · next s' o hnx =>
      simp only [hnx]
      by_cases ho : o.isEmpty = true
      · simp only [ho, ↓reduceIte]
        have ho' : o = [] := List.isEmpty_iff.mp ho
        refine ⟨[], rfl, ?_, by simp⟩
        rcases hn.2.1 with h | h
        · rw [hn.1, h, ho'] at hres
          simp [seqL] at hres
          simp [hres]
        · rw [ho'] at h; simp at h; omega
      · simp only [ho, Bool.false_eq_true, ↓reduceIte]
        have hrest : s.st.rest ≠ [] := by
          intro h; have := (hn.2.2.2.1 h).2; simp [this] at ho
        have hlt := hn.2.2.1 hrest
        rw [hn.1] at hres
        cases hsub : seqL w s'.st.rest s'.windowEnd [] with
        | none => rw [hsub] at hres; cases hres
        | some res' =>
          rw [hsub] at hres
          simp only [Option.map_some, Option.some.injEq] at hres
          obtain ⟨arrs, h1, h2, h3⟩ := ih s' res' hn.2.2.2.2 (by omega) hsub
          refine ⟨o :: arrs, by simp [h1], by simp [h2, hres], ?_⟩
          intro a ha
          rcases List.mem_cons.mp ha with rfl | ha
          · intro h; simp [h] at ho
          · exact h3 a ha

/-- rows of the running window overwrite the candidate; the first row of a later window closes it -/
theorem seqL_window (w : Win) (we : Int)
    (ps : List (Pt α))
    (hmono : ps.Pairwise (fun a b => atOrAfter a.1 (some we) = true → atOrAfter b.1 (some we) = true))
    (hsame : ∀ q ∈ ps, atOrAfter q.1 (some we) = false → w.stop q.1 = we) :
    ∀ c : Pt α, seqL w ps (some we) [c] =
      (seqL w (ps.filter fun q => atOrAfter q.1 (some we)) none []).map
        ([(c :: ps.filter fun q => !atOrAfter q.1 (some we)).getLast (List.cons_ne_nil _ _)] ++ ·) := by
  induction ps with
  | nil => intro c; simp [seqL]
  | cons q qs ih =>
    intro c
    rw [List.pairwise_cons] at hmono
    by_cases ha : atOrAfter q.1 (some we) = true
    · have hall : ∀ b ∈ qs, atOrAfter b.1 (some we) = true := fun b hb => hmono.1 b hb ha
      have hf1 : (q :: qs).filter (fun q => atOrAfter q.1 (some we)) = q :: qs := by
        rw [List.filter_eq_self]
        intro b hb
        rcases List.mem_cons.mp hb with rfl | hb
        · exact ha
        · exact hall b hb
      have hf2 : (q :: qs).filter (fun q => !atOrAfter q.1 (some we)) = [] := by
        rw [List.filter_eq_nil_iff]
        intro b hb
        rcases List.mem_cons.mp hb with rfl | hb
        · simp [ha]
        · simp [hall b hb]
      simp only [hf1, hf2, List.getLast_singleton]
      have e1 : seqL w (q :: qs) (some we) [c] = seqL w qs (some (w.stop q.1)) ([c] ++ [q]) := by
        simp only [seqL, ha, ↓reduceIte]
      have e2 : seqL w (q :: qs) none [] = seqL w qs (some (w.stop q.1)) [q] := by
        simp only [seqL, atOrAfter, ↓reduceIte, List.nil_append]
      rw [e1, e2]
      exact seqL_prefix w [c] qs _ [q] (by simp)
    · have ha' : atOrAfter q.1 (some we) = false := by simpa using ha
      have hst := hsame q (by simp) ha'
      have e1 : seqL w (q :: qs) (some we) [c] = seqL w qs (some we) [q] := by
        simp only [seqL, ha', Bool.false_eq_true, ↓reduceIte, hst]
        rfl
      rw [e1, ih hmono.2 (fun b hb => hsame b (by simp [hb])) q]
      simp [ha', List.getLast_cons]

/-- **last cursor = last point of every window** on time-ordered input -/
theorem seqL_eq_aggSpec (o : Ops α) (w : Win) (hw : w.OK) (hz : w.isZero = false) :
    ∀ pts : List (Pt α), Sorted pts → seqL w pts none [] = some (aggSpec o .last w.stop pts) := by
  intro pts
  fun_induction aggSpec o .last w.stop pts with
  | case1 => intro _; rfl
  | case2 p ps s ih =>
    intro hs
    unfold Sorted at hs
    rw [List.pairwise_cons] at hs
    have han : ∀ t we, atOrAfter t (some we) = w.newWindow t we := by
      intro t we
      simp only [atOrAfter, Win.newWindow, hz, Bool.not_false, Bool.true_and]
    have hmono : ps.Pairwise (fun a b => atOrAfter a.1 (some (w.stop p.1)) = true → atOrAfter b.1 (some (w.stop p.1)) = true) := by
      refine hs.2.imp ?_
      intro a b hab
      simp only [atOrAfter, decide_eq_true_eq]
      omega
    have hnw : ∀ q ∈ ps, (w.newWindow q.1 (w.stop p.1) = false ↔ w.stop q.1 = w.stop p.1) :=
      fun q hq => hw.2 p.1 q.1 (hs.1 q hq)
    have hsame : ∀ q ∈ ps, atOrAfter q.1 (some (w.stop p.1)) = false → w.stop q.1 = w.stop p.1 := by
      intro q hq h; rw [han] at h; exact (hnw q hq).mp h
    have hin : ∀ q ∈ ps, atOrAfter q.1 (some (w.stop p.1)) = !(w.stop q.1 == s) := by
      intro q hq
      rw [han]
      by_cases h : w.newWindow q.1 (w.stop p.1) = true
      · have hne : ¬ w.stop q.1 = w.stop p.1 := fun he => by simp [(hnw q hq).mpr he] at h
        simp [h, s, hne]
      · have h' : w.newWindow q.1 (w.stop p.1) = false := by simpa using h
        simp [h', s, (hnw q hq).mp h']
    have hf1 : ps.filter (fun q => atOrAfter q.1 (some (w.stop p.1))) = ps.filter (fun q => !(w.stop q.1 == s)) :=
      List.filter_congr hin
    have hf2 : ps.filter (fun q => !atOrAfter q.1 (some (w.stop p.1))) = ps.filter (fun q => w.stop q.1 == s) :=
      List.filter_congr (fun q hq => by rw [hin q hq]; simp)
    have e0 : seqL w (p :: ps) none [] = seqL w ps (some (w.stop p.1)) [p] := by
      simp only [seqL, atOrAfter, ↓reduceIte, List.nil_append]
    rw [e0, seqL_window w _ ps hmono hsame p, hf1, hf2, ih (hs.2.sublist List.filter_sublist)]
    simp [aggregate]

end Influx.WindowAgg.Last
