/-
  Lemmas.Check — helper lemmas about Model/Check.lean: the aggregation loop,
  the sort being a permutation, firstFailureMessage.
-/
import Influx.Model.Check
import Influx.Spec.C33
namespace Influx.CheckM
open Influx.Spec.C33

theorem pass_ne_fail : pass ≠ fail := by decide

theorem overall_foldl_fail_iff (rs : List Res) (o : Status) :
    rs.foldl (fun o r => if r.status ≠ pass ∧ o ≠ fail then r.status else o) o = fail ↔
      (o = fail ∨ ∃ r ∈ rs, r.status = fail) := by
  induction rs generalizing o with
  | nil => simp
  | cons r rs ih =>
    simp only [List.foldl_cons, ih, List.mem_cons, exists_eq_or_imp]
    by_cases ho : o = fail
    · simp [ho]
    · by_cases hr : r.status = pass
      · have : r.status ≠ fail := by rw [hr]; exact pass_ne_fail
        simp [ho, hr, pass_ne_fail]
      · simp [ho, hr]

/-- the repaired aggregation: "fail" exactly when some check fails -/
theorem overall_fail_iff (rs : List Res) : overall rs = fail ↔ ∃ r ∈ rs, r.status = fail := by
  unfold overall
  rw [overall_foldl_fail_iff]
  simp [pass_ne_fail]

theorem insertRes_perm (x : Res) (l : List Res) : (insertRes x l).Perm (x :: l) := by
  induction l with
  | nil => exact List.Perm.refl _
  | cons y ys ih =>
    unfold insertRes
    split
    · exact List.Perm.refl _
    · exact (List.Perm.cons y ih).trans (List.Perm.swap x y ys)

theorem sortRes_foldl_perm (rs acc : List Res) :
    (rs.foldl (fun acc r => insertRes r acc) acc).Perm (acc ++ rs) := by
  induction rs generalizing acc with
  | nil => simp
  | cons r rs ih =>
    simp only [List.foldl_cons]
    refine (ih _).trans ?_
    refine (List.Perm.append_right rs (insertRes_perm r acc)).trans ?_
    simp only [List.cons_append]
    exact (List.perm_middle).symm

/-- the reported list holds exactly the answers of the registered checks -/
theorem sortRes_perm (rs : List Res) : (sortRes rs).Perm rs := by
  have := sortRes_foldl_perm rs []
  simpa [sortRes] using this

theorem firstFailing_eq (l : List Res) (h : ∃ r ∈ l, r.status = fail) :
    firstFailing l = some (firstFailureMessage l) := by
  induction l with
  | nil => simp at h
  | cons r rs ih =>
    unfold firstFailing firstFailureMessage
    by_cases hr : r.status = fail
    · by_cases hm : r.msg = "" <;> simp [hr, hm, fail, Influx.Generated.CheckConsts.StatusFail]
    · have : ∃ r ∈ rs, r.status = fail := by
        obtain ⟨x, hx, hxs⟩ := h
        cases hx with
        | head => exact absurd hxs hr
        | tail _ h' => exact ⟨x, h', hxs⟩
      simp [hr, ih this]
end Influx.CheckM
