/-
  Lemmas.PlannerStruct — shape of the generation groups the planner builds:
  every planning function returns sub-lists of its `generations` argument that
  do not overlap (`Sub`), and — except on the full path — each is a block of
  consecutive generations (`Contig`).
-/
import Influx.Model.Planner

namespace Influx.Planner
open Influx.Generated.Planner

/-! ### list helpers -/

theorem flatten_sublist_of_sublist {α} {l₁ l₂ : List (List α)} (h : l₁.Sublist l₂) :
    l₁.flatten.Sublist l₂.flatten := by
  induction h with
  | slnil => simp
  | cons a _ ih => simpa using ih.trans (List.sublist_append_right _ _)
  | cons_cons a _ ih => simpa using List.Sublist.append (List.Sublist.refl a) ih

theorem flatMap_sublist_of_sublist {α β} (f : α → List β) {l₁ l₂ : List α} (h : l₁.Sublist l₂) :
    (l₁.flatMap f).Sublist (l₂.flatMap f) := by
  induction h with
  | slnil => simp
  | cons a _ ih => simpa using ih.trans (List.sublist_append_right _ _)
  | cons_cons a _ ih => simpa using List.Sublist.append (List.Sublist.refl (f a)) ih

theorem infix_append_right {α} {a l : List α} (r : List α) (h : a <:+: l) : a <:+: l ++ r := by
  obtain ⟨s, t, rfl⟩ := h
  exact ⟨s, t ++ r, by simp⟩

theorem infix_cons_of_infix {α} {a l : List α} (x : α) (h : a <:+: l) : a <:+: x :: l := by
  obtain ⟨s, t, rfl⟩ := h
  exact ⟨x :: s, t, by simp⟩

/-- the generation groups are non-overlapping sub-lists of `gens`, in order -/
def Sub (gens : List Gen) (gss : List (List Gen)) : Prop := gss.flatten.Sublist gens
/-- every generation group is a block of consecutive generations of `gens` -/
def Contig (gens : List Gen) (gss : List (List Gen)) : Prop := ∀ gs ∈ gss, gs <:+: gens

theorem Sub.filter {gens gss} (p : List Gen → Bool) (h : Sub gens gss) : Sub gens (gss.filter p) :=
  (flatten_sublist_of_sublist List.filter_sublist).trans h

theorem Contig.filter {gens gss} (p : List Gen → Bool) (h : Contig gens gss) : Contig gens (gss.filter p) :=
  fun gs hgs => h gs (List.mem_filter.mp hgs).1

/-! ### groupAdjacentGenerations -/

theorem flush_flatten (cur : List Gen) (groups : List (List Gen)) :
    (flush cur groups).flatten = groups.flatten ++ cur := by
  unfold flush
  cases cur <;> simp

theorem mem_flush {cur : List Gen} {groups : List (List Gen)} {grp} (h : grp ∈ flush cur groups) :
    grp ∈ groups ∨ grp = cur := by
  unfold flush at h
  split at h
  · exact Or.inl h
  · simpa using h

theorem gaLoop_infix (inUse : List String) (test : Int → Int → Bool) (rest : List Gen) :
    ∀ (cur : List Gen) (groups : List (List Gen)) (done : List Gen),
      cur <:+ done → (∀ grp ∈ groups, grp <:+: done) →
      ∀ grp ∈ gaLoop inUse test rest cur groups, grp <:+: done ++ rest := by
  induction rest with
  | nil =>
    intro cur groups done hcur hg grp hmem
    simp only [gaLoop] at hmem
    rcases mem_flush hmem with h | rfl
    · simpa using hg grp h
    · simpa using hcur.isInfix
  | cons g rest ih =>
    intro cur groups done hcur hg grp hmem
    have hflush : ∀ grp ∈ flush cur groups, grp <:+: done ++ [g] := by
      intro grp h
      rcases mem_flush h with h | rfl
      · exact infix_append_right _ (hg grp h)
      · exact infix_append_right _ hcur.isInfix
    have e : done ++ g :: rest = (done ++ [g]) ++ rest := by simp
    rw [e]
    simp only [gaLoop] at hmem
    split at hmem
    · exact ih [] _ (done ++ [g]) (List.nil_suffix) hflush grp hmem
    · split at hmem
      · refine ih (cur ++ [g]) groups (done ++ [g]) ?_ ?_ grp hmem
        · obtain ⟨t, rfl⟩ := hcur
          exact ⟨t, by simp⟩
        · intro grp h; exact infix_append_right _ (hg grp h)
      · exact ih [g] _ (done ++ [g]) ⟨done, rfl⟩ hflush grp hmem

theorem gaLoop_sub (inUse : List String) (test : Int → Int → Bool) (rest : List Gen) :
    ∀ (cur : List Gen) (groups : List (List Gen)) (done : List Gen),
      (groups.flatten ++ cur).Sublist done →
      (gaLoop inUse test rest cur groups).flatten.Sublist (done ++ rest) := by
  induction rest with
  | nil =>
    intro cur groups done h
    simpa [gaLoop, flush_flatten] using h
  | cons g rest ih =>
    intro cur groups done h
    have e : done ++ g :: rest = (done ++ [g]) ++ rest := by simp
    rw [e]
    simp only [gaLoop]
    split
    · apply ih
      simpa [flush_flatten] using h.trans (List.sublist_append_left _ _)
    · split
      · apply ih
        simpa [← List.append_assoc] using List.Sublist.append h (List.Sublist.refl [g])
      · apply ih
        simpa [flush_flatten] using List.Sublist.append h (List.Sublist.refl [g])

theorem groupAdjacent_contig (inUse test gens) : Contig gens (groupAdjacent inUse test gens) := by
  intro gs h
  simpa using gaLoop_infix inUse test gens [] [] [] (List.nil_suffix) (by simp) gs h

theorem groupAdjacent_sub (inUse test gens) : Sub gens (groupAdjacent inUse test gens) := by
  simpa [Sub, groupAdjacent] using gaLoop_sub inUse test gens [] [] [] (by simp)

/-! ### chunk -/

theorem chunkAux_flatten (k : Nat) (l : List Gen) : ∀ s, (chunkAux k s l).flatten = l.drop s := by
  induction l with
  | nil => intro s; cases s <;> simp [chunkAux]
  | cons g rest ih =>
    intro s
    cases s with
    | zero =>
      simp only [chunkAux, List.flatten_cons, ih, List.drop_zero]
      conv => rhs; rw [← List.take_append_drop (k + 1) (g :: rest)]
      simp
    | succ s => simp [chunkAux, ih]

theorem chunk_flatten (k : Nat) (l : List Gen) : (chunk k l).flatten = l := by
  simp [chunk, chunkAux_flatten]

/-! ### PlanLevel -/

theorem levelWalk_sub (lvl : Int) (k : Nat) (groups : List (List Gen)) :
    (levelWalk lvl k groups).flatten.Sublist groups.flatten := by
  induction groups with
  | nil => simp [levelWalk]
  | cons g later ih =>
    simp only [levelWalk, List.flatten_append, List.flatten_cons]
    refine List.Sublist.append ?_ ih
    split
    · have := flatten_sublist_of_sublist
        (List.filter_sublist (l := chunk k g) (p := fun c =>
          if c.length < k + 1 && !gensHasTombstones c then laterHigher lvl later else true))
      rw [chunk_flatten] at this
      exact this
    · simp

theorem levelWalk_mem (lvl : Int) (k : Nat) (groups : List (List Gen)) :
    ∀ gs ∈ levelWalk lvl k groups, ∃ g ∈ groups, gs <:+: g := by
  induction groups with
  | nil => simp [levelWalk]
  | cons g later ih =>
    intro gs h
    simp only [levelWalk, List.mem_append] at h
    rcases h with h | h
    · split at h
      · refine ⟨g, by simp, ?_⟩
        have hm : gs ∈ chunk k g := (List.mem_filter.mp h).1
        have := List.infix_of_mem_flatten hm
        rwa [chunk_flatten] at this
      · simp at h
    · obtain ⟨g', hg', hi⟩ := ih gs h
      exact ⟨g', by simp [hg'], hi⟩

theorem levelGens_sub (inUse gens lvl) : Sub gens (levelGens inUse gens lvl) :=
  (levelWalk_sub _ _ _).trans (groupAdjacent_sub inUse _ gens)

theorem levelGens_contig (inUse gens lvl) : Contig gens (levelGens inUse gens lvl) := by
  intro gs h
  obtain ⟨g, hg, hi⟩ := levelWalk_mem _ _ _ gs h
  exact hi.trans (groupAdjacent_contig inUse _ gens g hg)

/-! ### PlanOptimize -/

theorem optGens_sub (inUse gens) : Sub gens (optGens inUse gens) :=
  Sub.filter _ (groupAdjacent_sub inUse _ gens)

theorem optGens_contig (inUse gens) : Contig gens (optGens inUse gens) :=
  Contig.filter _ (groupAdjacent_contig inUse _ gens)

/-! ### Plan, level-4 path -/

theorem l4GroupAux_infix (inUse : List String) (l : List Gen) :
    ∀ s, ∀ grp ∈ l4GroupAux inUse s l, grp <:+: l := by
  induction l with
  | nil => intro s grp h; cases s <;> simp [l4GroupAux] at h
  | cons g rest ih =>
    intro s grp h
    cases s with
    | succ s =>
      simp only [l4GroupAux] at h
      exact infix_cons_of_infix g (ih s grp h)
    | zero =>
      simp only [l4GroupAux] at h
      split at h
      · exact infix_cons_of_infix g (ih 0 grp h)
      · rcases List.mem_cons.mp h with rfl | h
        · exact ((List.takeWhile_prefix _).trans (List.take_prefix _ _)).isInfix
        · exact infix_cons_of_infix g (ih _ grp h)

theorem l4GroupAux_sub (inUse : List String) (l : List Gen) :
    ∀ s, (l4GroupAux inUse s l).flatten.Sublist (l.drop s) := by
  induction l with
  | nil => intro s; cases s <;> simp [l4GroupAux]
  | cons g rest ih =>
    intro s
    cases s with
    | succ s => simpa [l4GroupAux] using ih s
    | zero =>
      simp only [l4GroupAux, List.drop_zero]
      split
      · exact (ih 0).trans (by simp)
      · rename_i hne
        generalize hcur : List.takeWhile (l4Ok inUse) (List.take 4 (g :: rest)) = cur at hne
        have hp : cur <+: g :: rest := by
          rw [← hcur]; exact (List.takeWhile_prefix _).trans (List.take_prefix _ _)
        obtain ⟨t, ht⟩ := hp
        have hlen : cur.length ≠ 0 := by
          intro h0; apply hne; simp [List.length_eq_zero_iff.mp h0]
        have hd : rest.drop (cur.length - 1) = t := by
          have : (g :: rest).drop cur.length = t := by
            rw [← ht]; simp
          rw [← this]
          cases hc : cur.length with
          | zero => exact absurd hc hlen
          | succ n => simp
        rw [List.flatten_cons, ← ht]
        refine List.Sublist.append (List.Sublist.refl _) ?_
        rw [← hd]
        exact ih _

theorem l4Gens_sub (inUse gens) : Sub gens (l4Gens inUse gens) := by
  refine Sub.filter _ ?_
  have := l4GroupAux_sub inUse ((gens.take (l4End gens)).drop
    (l4Start 0 none (gens.take (l4End gens)) 0 false)) 0
  simp only [List.drop_zero] at this
  exact this.trans ((List.drop_sublist _ _).trans (List.take_sublist _ _))

theorem l4Gens_contig (inUse gens) : Contig gens (l4Gens inUse gens) := by
  refine Contig.filter _ ?_
  intro gs h
  refine (l4GroupAux_infix inUse _ 0 gs h).trans ?_
  exact (List.drop_suffix _ _).isInfix.trans (List.take_prefix _ _).isInfix

/-! ### Plan, full path: non-overlapping, but NOT contiguous (see Props.C05) -/

theorem fullLoop_sublist (inUse : List String) (n : Nat) (l : List Gen) : (fullLoop inUse n l).Sublist l := by
  induction l with
  | nil => simp [fullLoop]
  | cons g rest ih =>
    simp only [fullLoop]
    split
    · exact ih.trans (by simp)
    · split
      · exact ih.trans (by simp)
      · exact ih.cons_cons g

theorem fullGens_sub (inUse gens) : Sub gens (fullGens inUse gens) := by
  unfold Sub fullGens
  simp only
  split
  · simp
  · simpa using fullLoop_sublist inUse gens.length gens

end Influx.Planner
