/-
  Lemmas.CheckLin — lemmas about the concurrent statement checker's `lastDone` / `mayBe`.
-/
import Influx.Spec.C33
namespace Influx.Props.C33
open Influx.CheckM Influx.Spec.C33

theorem lastDone_foldl_ge (ws : List W) (rinv m0 : Nat) :
    m0 ≤ ws.foldl (fun m w => if w.res < rinv then max m w.inv else m) m0 := by
  induction ws generalizing m0 with
  | nil => exact Nat.le_refl _
  | cons w ws ih =>
    simp only [List.foldl_cons]
    split
    · exact Nat.le_trans (Nat.le_max_left _ _) (ih _)
    · exact ih _

theorem lastDone_foldl_mem (ws : List W) (rinv m0 : Nat) (w' : W) (hw : w' ∈ ws) (hr : w'.res < rinv) :
    w'.inv ≤ ws.foldl (fun m w => if w.res < rinv then max m w.inv else m) m0 := by
  induction ws generalizing m0 with
  | nil => cases hw
  | cons w ws ih =>
    simp only [List.foldl_cons]
    cases hw with
    | head => rw [if_pos hr]; exact Nat.le_trans (Nat.le_max_right _ _) (lastDone_foldl_ge _ _ _)
    | tail _ h => exact ih _ h

/-- every write that was over before `rinv` started no later than `lastDone` -/
theorem lastDone_ge (ws : List W) (rinv : Nat) (w' : W) (hw : w' ∈ ws) (hr : w'.res < rinv) :
    w'.inv ≤ lastDone ws rinv := lastDone_foldl_mem ws rinv 0 w' hw hr

theorem lastDone_foldl_witness (ws : List W) (rinv m0 : Nat) :
    ws.foldl (fun m w => if w.res < rinv then max m w.inv else m) m0 = m0 ∨
    ∃ w' ∈ ws, w'.res < rinv ∧ ws.foldl (fun m w => if w.res < rinv then max m w.inv else m) m0 = w'.inv := by
  induction ws generalizing m0 with
  | nil => left; rfl
  | cons w ws ih =>
    simp only [List.foldl_cons]
    split
    · next hr =>
      rcases ih (max m0 w.inv) with h | ⟨w', hw', hr', h⟩
      · rw [h]
        rcases Nat.le_total m0 w.inv with hle | hle
        · right; exact ⟨w, List.mem_cons_self, hr, by rw [Nat.max_eq_right hle]⟩
        · left; exact Nat.max_eq_left hle
      · right; exact ⟨w', List.mem_cons_of_mem _ hw', hr', h⟩
    · rcases ih m0 with h | ⟨w', hw', hr', h⟩
      · left; exact h
      · right; exact ⟨w', List.mem_cons_of_mem _ hw', hr', h⟩

/-- `lastDone` is 0 or the start of a write that was over before `rinv` -/
theorem lastDone_witness (ws : List W) (rinv : Nat) :
    lastDone ws rinv = 0 ∨ ∃ w' ∈ ws, w'.res < rinv ∧ lastDone ws rinv = w'.inv :=
  lastDone_foldl_witness ws rinv 0

/-- a write of `v` that began before the interval ended and that no other write,
    itself over before the interval began, started after — justifies reading `v` -/
theorem mayBe_of (ws : List W) (rinv rres : Nat) (v : Bool) (w : W) (hw : w ∈ ws) (hv : w.val = v)
    (hi : w.inv < rres) (hlast : ∀ w' ∈ ws, w'.res < rinv → ¬ w.res < w'.inv) :
    mayBe ws rinv rres v = true := by
  unfold mayBe
  simp only [List.any_eq_true, Bool.and_eq_true, beq_iff_eq, decide_eq_true_eq, Bool.not_eq_true',
    decide_eq_false_iff_not]
  refine ⟨w, hw, ⟨hv, hi⟩, ?_⟩
  rcases lastDone_witness ws rinv with h0 | ⟨w', hw', hr', h⟩
  · rw [h0]; exact Nat.not_lt_zero _
  · rw [h]; exact hlast w' hw' hr'
end Influx.Props.C33
