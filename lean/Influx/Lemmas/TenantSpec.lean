/-
  Lemmas.TenantSpec — single-step facts about the tenant model (system buckets,
  cascade, lookups) and the bridge from the invariant to the statement checker
  of Spec.C30 (helper lemmas for Props.C30).
-/
import Influx.Lemmas.TenantInv
import Influx.Spec.C30

namespace Influx.Tenant
open KV

theorem isSp_eq (c : Char) : Spec.C30.isSp c = isSpace c := by
  have e (d : Char) : (c = d) ↔ c.toNat = d.toNat := Char.toNat_inj.symm
  have e1 : (c = ' ') ↔ c.toNat = 32 := e ' '
  have e2 : (c = '\t') ↔ c.toNat = 9 := e '\t'
  have e3 : (c = '\n') ↔ c.toNat = 10 := e '\n'
  have e4 : (c = '\r') ↔ c.toNat = 13 := e '\r'
  simp only [Spec.C30.isSp, isSpace, e1, e2, e3, e4]
  generalize c.toNat = n
  rw [Bool.eq_iff_iff]
  simp only [Bool.or_eq_true, Bool.and_eq_true, decide_eq_true_eq]
  omega

theorem trim_eq (s : String) : Spec.C30.trim s = orgKey s := by
  have : Spec.C30.isSp = isSpace := funext isSp_eq
  simp [Spec.C30.trim, orgKey, trimSpace, this]

/-! frame: URM deletions do not touch the name tables -/
theorem foldl_deleteURMRaw_same (l : List (Nat × Nat)) (s : State) : SameNames s (l.foldl deleteURMRaw s) := by
  induction l generalizing s with
  | nil => exact ⟨rfl, rfl, rfl, rfl, rfl, rfl⟩
  | cons k l ih =>
    obtain ⟨a, b, c, d, e, f⟩ := ih (deleteURMRaw s k)
    exact ⟨a, b, c, d, e, f⟩

theorem removeResourceRelations_bkts (s : State) (r : Nat) : (removeResourceRelations s r).bkts = s.bkts :=
  (foldl_deleteURMRaw_same _ s).2.2.1

theorem foldl_deleteURMRaw_urms (l : List (Nat × Nat)) (s : State) (k : Nat × Nat) :
    get (l.foldl deleteURMRaw s).urms k = if k ∈ l then none else get s.urms k := by
  induction l generalizing s with
  | nil => simp
  | cons k' l ih =>
    rw [List.foldl_cons, ih]
    by_cases h : k ∈ l
    · simp [h]
    · simp only [h, ↓reduceIte, List.mem_cons, or_false]
      simp only [deleteURMRaw, get_del]
      by_cases e : k' = k
      · simp [e]
      · have : ¬ k = k' := fun c => e c.symm
        simp [e, this]

/-- after `removeResourceRelations s r` no mapping on resource `r` is left -/
theorem removeResourceRelations_none (s : State) (r : Nat) (k : Nat × Nat) (hk : k.1 = r) :
    get (removeResourceRelations s r).urms k = none := by
  unfold removeResourceRelations
  rw [foldl_deleteURMRaw_urms]
  split
  · rfl
  · rename_i hn
    cases e : get s.urms k with
    | none => rfl
    | some v =>
      exfalso; apply hn
      exact List.mem_map.mpr ⟨(k, v), List.mem_filter.mpr ⟨mem_of_get e, by simp [hk]⟩, rfl⟩

theorem removeResourceRelations_urms_mono (s : State) (r : Nat) (k : Nat × Nat) (v : UrmRec)
    (h : get (removeResourceRelations s r).urms k = some v) : get s.urms k = some v := by
  unfold removeResourceRelations at h
  rw [foldl_deleteURMRaw_urms] at h
  split at h
  · cases h
  · exact h


/-! ### what each operation does to the bucket records -/

theorem createBucketStore_bkts {s : State} {org : Nat} {name : String} {sys : Bool} {id : Nat} {b : BucketRec}
    (h : get s.bkts id = some b) : get (createBucketStore s org name sys).1.bkts id = some b := by
  unfold createBucketStore
  generalize hg : genSafe (has s.bkts) maxIDGenerationN s.nextBkt = g
  obtain ⟨r, n'⟩ := g
  cases r with
  | error e => exact h
  | ok id' =>
    have ⟨hu, _⟩ := genSafe_ok hg
    simp only
    split
    · exact h
    · simp only
      have : id' ≠ id := by
        intro c; subst c
        rw [has_false_iff] at hu; rw [hu] at h; cases h
      rw [get_put_ne _ _ this]; exact h

theorem createBucket_bkts {s : State} {org : Nat} {name : String} {sys : Bool} {id : Nat} {b : BucketRec}
    (h : get s.bkts id = some b) : get (createBucket s org name sys).1.bkts id = some b := by
  unfold createBucket
  repeat' split
  all_goals first
    | exact h
    | exact createBucketStore_bkts h

theorem createOrgStore_bkts (s : State) (name : String) : (createOrgStore s name).1.bkts = s.bkts := by
  unfold createOrgStore
  generalize genSafe (has s.orgs) maxIDGenerationN s.nextOrg = g
  obtain ⟨r, n'⟩ := g
  cases r with
  | error e => rfl
  | ok id => simp only; (repeat' split) <;> rfl

theorem createURM_bkts (s : State) (res user : Nat) (r : UrmRec) : (createURM s res user r).1.bkts = s.bkts := by
  unfold createURM
  (repeat' split) <;> rfl

theorem createOrganization_bkts {s : State} {name : String} {u : Nat} {id : Nat} {b : BucketRec}
    (h : get s.bkts id = some b) : get (createOrganization s name u).1.bkts id = some b := by
  unfold createOrganization
  have h1 : get (createOrgStore s name).1.bkts id = some b := by rw [createOrgStore_bkts]; exact h
  split
  · rename_i s1 e he; rw [he] at h1; exact h1
  · rename_i s1 oid he; rw [he] at h1
    have h2 := createBucket_bkts (org := oid) (name := "_tasks") (sys := true) h1
    split
    · rename_i s2 e he2; rw [he2] at h2; exact h2
    · rename_i s2 x he2; rw [he2] at h2
      have h3 := createBucket_bkts (org := oid) (name := "_monitoring") (sys := true) h2
      split
      · rename_i s3 e he3; rw [he3] at h3; exact h3
      · rename_i s3 y he3; rw [he3] at h3
        split
        · exact h3
        · have h4 : get (createURM s3 oid u ⟨true, true⟩).1.bkts id = some b := by rw [createURM_bkts]; exact h3
          split
          · rename_i s4 e he4; rw [he4] at h4; exact h4
          · rename_i s4 z he4; rw [he4] at h4; exact h4

/-- deleting bucket `x` leaves every other bucket record alone -/
theorem deleteBucket_bkts_ne (s : State) (x : Nat) (internal : Bool) {id : Nat} (hne : x ≠ id) :
    get (deleteBucket s x internal).1.bkts id = get s.bkts id := by
  unfold deleteBucket
  repeat' split
  all_goals first
    | rfl
    | skip
  simp only [removeResourceRelations_bkts]
  exact get_del_ne _ hne

/-- deleting never creates bucket records -/
theorem deleteBucket_bkts_mono (s : State) (x : Nat) (internal : Bool) {id : Nat} {b : BucketRec}
    (h : get (deleteBucket s x internal).1.bkts id = some b) : get s.bkts id = some b := by
  by_cases e : x = id
  · subst e
    unfold deleteBucket at h
    repeat' split at h
    all_goals first
      | exact h
      | skip
    simp [removeResourceRelations_bkts] at h
  · rw [deleteBucket_bkts_ne s x internal e] at h; exact h

/-- a successful delete removes the record -/
theorem deleteBucket_ok_gone (s : State) (x : Nat) (internal : Bool) {s' : State} {u : Unit}
    (h : deleteBucket s x internal = (s', .ok u)) : get s'.bkts x = none := by
  unfold deleteBucket at h
  repeat' split at h
  all_goals first
    | (simp only [Prod.mk.injEq, reduceCtorEq, and_false] at h; done)
    | skip
  simp only [Prod.mk.injEq] at h
  obtain ⟨rfl, _⟩ := h
  simp [removeResourceRelations_bkts]

/-- the system-bucket guard of `DeleteBucket` -/
theorem deleteBucket_system (s : State) (x : Nat) {id : Nat} {b : BucketRec}
    (h : get s.bkts id = some b) (hs : b.sys = true) : get (deleteBucket s x false).1.bkts id = some b := by
  by_cases e : x = id
  · subst e
    unfold deleteBucket
    split
    · exact h
    · rw [h]; simp [hs, h]
  · rw [deleteBucket_bkts_ne s x false e]; exact h

theorem deleteBuckets_bkts_ne (l : List Nat) (s : State) {id : Nat} (hne : ∀ x ∈ l, x ≠ id) :
    get (deleteBuckets s l).1.bkts id = get s.bkts id := by
  induction l generalizing s with
  | nil => rfl
  | cons x l ih =>
    unfold deleteBuckets
    have h1 := deleteBucket_bkts_ne s x true (hne x (by simp))
    split
    · rename_i s1 e he; rw [he] at h1; exact h1
    · rename_i s1 u he; rw [he] at h1
      rw [ih s1 (fun y hy => hne y (by simp [hy]))]; exact h1

theorem deleteBuckets_bkts_mono (l : List Nat) (s : State) {id : Nat} {b : BucketRec}
    (h : get (deleteBuckets s l).1.bkts id = some b) : get s.bkts id = some b := by
  induction l generalizing s with
  | nil => exact h
  | cons x l ih =>
    unfold deleteBuckets at h
    split at h
    · rename_i s1 e he
      have := deleteBucket_bkts_mono s x true (id := id) (b := b)
      rw [he] at this; exact this h
    · rename_i s1 u he
      have := deleteBucket_bkts_mono s x true (id := id) (b := b)
      rw [he] at this; exact this (ih s1 h)

theorem deleteBuckets_ok_gone (l : List Nat) (s : State) {s' : State} {u : Unit}
    (h : deleteBuckets s l = (s', .ok u)) : ∀ x ∈ l, get s'.bkts x = none := by
  induction l generalizing s with
  | nil => intro x hx; cases hx
  | cons y l ih =>
    unfold deleteBuckets at h
    split at h
    · simp at h
    · rename_i s1 u1 he
      intro x hx
      rcases List.mem_cons.mp hx with rfl | hx
      · have g := deleteBucket_ok_gone s x true he
        cases e : get s'.bkts x with
        | none => rfl
        | some b =>
          have := deleteBuckets_bkts_mono l s1 (id := x) (b := b) (by rw [h]; exact e)
          rw [g] at this; cases this
      · exact ih s1 h x hx

theorem deleteOrgStore_bkts (s : State) (id : Nat) : (deleteOrgStore s id).1.bkts = s.bkts := by
  unfold deleteOrgStore; split <;> rfl

/-- ids listed for an organization are ids of buckets of that organization -/
theorem mem_bucketIdsOfOrg {s : State} (h : Inv s) {org x : Nat} (hx : x ∈ bucketIdsOfOrg s org) :
    ∃ b, get s.bkts x = some b ∧ b.org = org := by
  obtain ⟨⟨⟨o, n⟩, x'⟩, hm, rfl⟩ := List.mem_map.mp hx
  obtain ⟨hm, ho⟩ := List.mem_filter.mp hm
  simp only [decide_eq_true_eq] at ho
  obtain ⟨b, hb, hk⟩ := h.bkt.sound (o, n) x' (get_of_mem h.wfBktIdx hm)
  simp only [Prod.mk.injEq] at hk
  exact ⟨b, hb, hk.1.trans ho⟩

theorem bucketIdsOfOrg_complete {s : State} (h : Inv s) {x : Nat} {b : BucketRec} (hb : get s.bkts x = some b) :
    x ∈ bucketIdsOfOrg s b.org := by
  have := mem_of_get (h.bkt.complete x b hb)
  exact List.mem_map.mpr ⟨((b.org, b.name), x), List.mem_filter.mpr ⟨this, by simp⟩, rfl⟩

/-- `DeleteOrganization org` leaves the buckets of every other organization alone -/
theorem deleteOrganization_bkts_other {s : State} (h : Inv s) (org : Nat) {id : Nat} {b : BucketRec}
    (hb : get s.bkts id = some b) (hne : b.org ≠ org) :
    get (deleteOrganization s org).1.bkts id = some b := by
  unfold deleteOrganization
  split
  · exact hb
  · simp only
    split
    · exact hb
    · have hnot : ∀ x ∈ bucketIdsOfOrg s org, x ≠ id := by
        intro x hx c; subst c
        obtain ⟨b', hb', ho⟩ := mem_bucketIdsOfOrg h hx
        rw [hb] at hb'; cases hb'; exact hne ho
      have h1 := deleteBuckets_bkts_ne (bucketIdsOfOrg s org) s hnot
      rw [hb] at h1
      split
      · rename_i s1 e he; rw [he] at h1; exact h1
      · rename_i s1 x he; rw [he] at h1
        have h2 : get (deleteOrgStore s1 org).1.bkts id = some b := by rw [deleteOrgStore_bkts]; exact h1
        split
        · rename_i s2 e he2; rw [he2] at h2; exact h2
        · rename_i s2 y he2; rw [he2] at h2
          simp only [removeResourceRelations_bkts]; exact h2

/-- **cascade**: after a successful `DeleteOrganization org` no bucket of `org` and no
    membership on `org` is left -/
theorem deleteOrganization_cascade {s : State} (h : Inv s) (org : Nat) {s' : State} {r : Nat}
    (hr : deleteOrganization s org = (s', .ok r)) :
    (∀ id b, get s'.bkts id = some b → b.org ≠ org) ∧ (∀ k, k.1 = org → get s'.urms k = none) := by
  unfold deleteOrganization at hr
  split at hr
  · simp at hr
  · simp only at hr
    split at hr
    · simp at hr
    · split at hr
      · simp at hr
      · rename_i s1 x he
        split at hr
        · simp at hr
        · rename_i s2 y he2
          simp only [Prod.mk.injEq, Except.ok.injEq] at hr
          obtain ⟨rfl, _⟩ := hr
          constructor
          · intro id b hb hc
            rw [removeResourceRelations_bkts] at hb
            have hb1 : get s1.bkts id = some b := by
              have := deleteOrgStore_bkts s1 org; rw [he2] at this; simp only at this; rw [← this]; exact hb
            have hb0 := deleteBuckets_bkts_mono (bucketIdsOfOrg s org) s (id := id) (b := b) (by rw [he]; exact hb1)
            have hm := bucketIdsOfOrg_complete h hb0
            rw [hc] at hm
            have := deleteBuckets_ok_gone _ s he id hm
            rw [this] at hb1; cases hb1
          · intro k hk
            exact removeResourceRelations_none s2 org k hk


theorem updateBucket_system (s : State) (x : Nat) (name : Option String) {id : Nat} {b : BucketRec}
    (h : get s.bkts id = some b) (hs : b.sys = true) : get (updateBucket s x name).1.bkts id = some b := by
  unfold updateBucket
  repeat' split
  all_goals first
    | exact h
    | skip
  rename_i b' hb' _ n _ hsys _ _
  simp only
  have : x ≠ id := by
    intro c; subst c; rw [h] at hb'; cases hb'; exact hsys hs
  rw [get_put_ne _ _ this]; exact h

theorem updateOrganization_bkts (s : State) (id : Nat) (name : Option String) :
    (updateOrganization s id name).1.bkts = s.bkts := by
  unfold updateOrganization
  (repeat' split) <;> rfl

theorem deleteURM_bkts (s : State) (res user : Nat) : (deleteURM s res user).1.bkts = s.bkts := by
  unfold deleteURM
  (repeat' split) <;> rfl

theorem createUser_bkts (s : State) (name : String) (id : Nat) : (createUser s name id).1.bkts = s.bkts := by
  unfold createUser
  split
  rename_i id' s' hp
  have : s'.bkts = s.bkts := by
    split at hp <;> simp only [Prod.mk.injEq] at hp <;> obtain ⟨_, rfl⟩ := hp <;> rfl
  (repeat' split) <;> exact this

theorem updateUser_bkts (s : State) (id : Nat) (name : Option String) : (updateUser s id name).1.bkts = s.bkts := by
  unfold updateUser
  (repeat' split) <;> rfl

theorem deleteUser_bkts (s : State) (id : Nat) : (deleteUser s id).1.bkts = s.bkts := by
  unfold deleteUser
  repeat' split
  all_goals first
    | rfl
    | skip
  exact (foldl_deleteURMRaw_same _ _).2.2.1

/-- **system buckets**: no operation other than deleting its organization removes or renames
    a system bucket -/
theorem step_system {s : State} (h : Inv s) (op : Op) {id : Nat} {b : BucketRec}
    (hb : get s.bkts id = some b) (hs : b.sys = true)
    (hop : Spec.C30.isDeleteOrgOf b.org (op, (step s op).2) = false) :
    get (step s op).1.bkts id = some b := by
  cases op with
  | co n u => exact createOrganization_bkts hb
  | uo x n => simp only [step]; rw [updateOrganization_bkts]; exact hb
  | dO x =>
    simp only [Spec.C30.isDeleteOrgOf, decide_eq_false_iff_not] at hop
    exact deleteOrganization_bkts_other h x hb (fun c => hop c.symm)
  | cb o n sys => exact createBucket_bkts hb
  | ub x n => exact updateBucket_system s x n hb hs
  | db x => exact deleteBucket_system s x hb hs
  | cu n x => simp only [step]; rw [createUser_bkts]; exact hb
  | uu x n => simp only [step]; rw [updateUser_bkts]; exact hb
  | du x => simp only [step]; rw [deleteUser_bkts]; exact hb
  | cm r u a c => simp only [step]; rw [createURM_bkts]; exact hb
  | dm r u => simp only [step]; rw [deleteURM_bkts]; exact hb
  | fo n => exact hb
  | fb o n => exact hb
  | fu n => exact hb
  | lb o => exact hb
  | idgen g n => cases g <;> exact hb
  | dump => exact hb

/-- lookups leave the state alone -/
theorem step_lookup (s : State) (op : Op) (h : Spec.C30.isLookup op = true) : (step s op).1 = s := by
  cases op <;> simp [Spec.C30.isLookup] at h <;> rfl


end Influx.Tenant
