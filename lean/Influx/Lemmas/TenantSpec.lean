/-
  Lemmas.TenantSpec — single-step facts about the tenant model (system buckets,
  cascade, lookups) and the bridge from the invariant to the statement checker
  of Spec.C30 (helper lemmas for Props.C30).
-/
import Influx.Lemmas.TenantInv
import Influx.Spec.C30

namespace Influx.Tenant
open KV Spec.C30

theorem isSp_eq (c : Char) : Spec.C30.isSp c = isSpace c := by
  have e (d : Char) : (c = d) ↔ c.toNat = d.toNat := Char.toNat_inj.symm
  have e1 : (c = ' ') ↔ c.toNat = 32 := e ' '
  have e2 : (c = '\t') ↔ c.toNat = 9 := e '\t'
  have e3 : (c = '\n') ↔ c.toNat = 10 := e '\n'
  have e4 : (c = '\r') ↔ c.toNat = 13 := e '\r'
  simp only [Spec.C30.isSp, isSpace, e1, e2, e3, e4]
  generalize c.toNat = n
  rw [Bool.eq_iff_iff]
  simp only [Bool.or_eq_true, Bool.and_eq_true, decide_eq_true_eq]
  omega

theorem trim_eq (s : String) : Spec.C30.trim s = orgKey s := by
  have : Spec.C30.isSp = isSpace := funext isSp_eq
  simp [Spec.C30.trim, orgKey, trimSpace, this]

/-! frame: URM deletions do not touch the name tables -/
theorem foldl_deleteURMRaw_same (l : List (Nat × Nat)) (s : State) : SameNames s (l.foldl deleteURMRaw s) := by
  induction l generalizing s with
  | nil => exact ⟨rfl, rfl, rfl, rfl, rfl, rfl⟩
  | cons k l ih =>
    obtain ⟨a, b, c, d, e, f⟩ := ih (deleteURMRaw s k)
    exact ⟨a, b, c, d, e, f⟩

theorem removeResourceRelations_bkts (s : State) (r : Nat) : (removeResourceRelations s r).bkts = s.bkts :=
  (foldl_deleteURMRaw_same _ s).2.2.1

theorem foldl_deleteURMRaw_urms (l : List (Nat × Nat)) (s : State) (k : Nat × Nat) :
    get (l.foldl deleteURMRaw s).urms k = if k ∈ l then none else get s.urms k := by
  induction l generalizing s with
  | nil => simp
  | cons k' l ih =>
    rw [List.foldl_cons, ih]
    by_cases h : k ∈ l
    · simp [h]
    · simp only [h, ↓reduceIte, List.mem_cons, or_false]
      simp only [deleteURMRaw, get_del]
      by_cases e : k' = k
      · simp [e]
      · have : ¬ k = k' := fun c => e c.symm
        simp [e, this]

/-- after `removeResourceRelations s r` no mapping on resource `r` is left -/
theorem removeResourceRelations_none (s : State) (r : Nat) (k : Nat × Nat) (hk : k.1 = r) :
    get (removeResourceRelations s r).urms k = none := by
  unfold removeResourceRelations
  rw [foldl_deleteURMRaw_urms]
  split
  · rfl
  · rename_i hn
    cases e : get s.urms k with
    | none => rfl
    | some v =>
      exfalso; apply hn
      exact List.mem_map.mpr ⟨(k, v), List.mem_filter.mpr ⟨mem_of_get e, by simp [hk]⟩, rfl⟩

theorem removeResourceRelations_urms_mono (s : State) (r : Nat) (k : Nat × Nat) (v : UrmRec)
    (h : get (removeResourceRelations s r).urms k = some v) : get s.urms k = some v := by
  unfold removeResourceRelations at h
  rw [foldl_deleteURMRaw_urms] at h
  split at h
  · cases h
  · exact h


/-! ### what each operation does to the bucket records -/

theorem createBucketStore_bkts {s : State} {org : Nat} {name : String} {sys : Bool} {id : Nat} {b : BucketRec}
    (h : get s.bkts id = some b) : get (createBucketStore s org name sys).1.bkts id = some b := by
  unfold createBucketStore
  generalize hg : genSafe (has s.bkts) maxIDGenerationN s.nextBkt = g
  obtain ⟨r, n'⟩ := g
  cases r with
  | error e => exact h
  | ok id' =>
    have ⟨hu, _⟩ := genSafe_ok hg
    simp only
    split
    · exact h
    · simp only
      have : id' ≠ id := by
        intro c; subst c
        rw [has_false_iff] at hu; rw [hu] at h; cases h
      rw [get_put_ne _ _ this]; exact h

theorem createBucket_bkts {s : State} {org : Nat} {name : String} {sys : Bool} {id : Nat} {b : BucketRec}
    (h : get s.bkts id = some b) : get (createBucket s org name sys).1.bkts id = some b := by
  unfold createBucket
  repeat' split
  all_goals first
    | exact h
    | exact createBucketStore_bkts h

theorem createOrgStore_bkts (s : State) (name : String) : (createOrgStore s name).1.bkts = s.bkts := by
  unfold createOrgStore
  generalize genSafe (has s.orgs) maxIDGenerationN s.nextOrg = g
  obtain ⟨r, n'⟩ := g
  cases r with
  | error e => rfl
  | ok id => simp only; (repeat' split) <;> rfl

theorem createURM_bkts (s : State) (res user : Nat) (r : UrmRec) : (createURM s res user r).1.bkts = s.bkts := by
  unfold createURM
  (repeat' split) <;> rfl

theorem createOrganization_bkts {s : State} {name : String} {u : Nat} {id : Nat} {b : BucketRec}
    (h : get s.bkts id = some b) : get (createOrganization s name u).1.bkts id = some b := by
  unfold createOrganization
  have h1 : get (createOrgStore s name).1.bkts id = some b := by rw [createOrgStore_bkts]; exact h
  split
  · rename_i s1 e he; rw [he] at h1; exact h1
  · rename_i s1 oid he; rw [he] at h1
    have h2 := createBucket_bkts (org := oid) (name := "_tasks") (sys := true) h1
    split
    · rename_i s2 e he2; rw [he2] at h2; exact h2
    · rename_i s2 x he2; rw [he2] at h2
      have h3 := createBucket_bkts (org := oid) (name := "_monitoring") (sys := true) h2
      split
      · rename_i s3 e he3; rw [he3] at h3; exact h3
      · rename_i s3 y he3; rw [he3] at h3
        split
        · exact h3
        · have h4 : get (createURM s3 oid u ⟨true, true⟩).1.bkts id = some b := by rw [createURM_bkts]; exact h3
          split
          · rename_i s4 e he4; rw [he4] at h4; exact h4
          · rename_i s4 z he4; rw [he4] at h4; exact h4

/-- deleting bucket `x` leaves every other bucket record alone -/
theorem deleteBucket_bkts_ne (s : State) (x : Nat) (internal : Bool) {id : Nat} (hne : x ≠ id) :
    get (deleteBucket s x internal).1.bkts id = get s.bkts id := by
  unfold deleteBucket
  repeat' split
  all_goals first
    | rfl
    | skip
  simp only [removeResourceRelations_bkts]
  exact get_del_ne _ hne

/-- deleting never creates bucket records -/
theorem deleteBucket_bkts_mono (s : State) (x : Nat) (internal : Bool) {id : Nat} {b : BucketRec}
    (h : get (deleteBucket s x internal).1.bkts id = some b) : get s.bkts id = some b := by
  by_cases e : x = id
  · subst e
    unfold deleteBucket at h
    repeat' split at h
    all_goals first
      | exact h
      | skip
    simp [removeResourceRelations_bkts] at h
  · rw [deleteBucket_bkts_ne s x internal e] at h; exact h

/-- a successful delete removes the record -/
theorem deleteBucket_ok_gone (s : State) (x : Nat) (internal : Bool) {s' : State} {u : Unit}
    (h : deleteBucket s x internal = (s', .ok u)) : get s'.bkts x = none := by
  unfold deleteBucket at h
  repeat' split at h
  all_goals first
    | (simp only [Prod.mk.injEq, reduceCtorEq, and_false] at h; done)
    | skip
  simp only [Prod.mk.injEq] at h
  obtain ⟨rfl, _⟩ := h
  simp [removeResourceRelations_bkts]

/-- the system-bucket guard of `DeleteBucket` -/
theorem deleteBucket_system (s : State) (x : Nat) {id : Nat} {b : BucketRec}
    (h : get s.bkts id = some b) (hs : b.sys = true) : get (deleteBucket s x false).1.bkts id = some b := by
  by_cases e : x = id
  · subst e
    unfold deleteBucket
    split
    · exact h
    · rw [h]; simp [hs, h]
  · rw [deleteBucket_bkts_ne s x false e]; exact h

theorem deleteBuckets_bkts_ne (l : List Nat) (s : State) {id : Nat} (hne : ∀ x ∈ l, x ≠ id) :
    get (deleteBuckets s l).1.bkts id = get s.bkts id := by
  induction l generalizing s with
  | nil => rfl
  | cons x l ih =>
    unfold deleteBuckets
    have h1 := deleteBucket_bkts_ne s x true (hne x (by simp))
    split
    · rename_i s1 e he; rw [he] at h1; exact h1
    · rename_i s1 u he; rw [he] at h1
      rw [ih s1 (fun y hy => hne y (by simp [hy]))]; exact h1

theorem deleteBuckets_bkts_mono (l : List Nat) (s : State) {id : Nat} {b : BucketRec}
    (h : get (deleteBuckets s l).1.bkts id = some b) : get s.bkts id = some b := by
  induction l generalizing s with
  | nil => exact h
  | cons x l ih =>
    unfold deleteBuckets at h
    split at h
    · rename_i s1 e he
      have := deleteBucket_bkts_mono s x true (id := id) (b := b)
      rw [he] at this; exact this h
    · rename_i s1 u he
      have := deleteBucket_bkts_mono s x true (id := id) (b := b)
      rw [he] at this; exact this (ih s1 h)

theorem deleteBuckets_ok_gone (l : List Nat) (s : State) {s' : State} {u : Unit}
    (h : deleteBuckets s l = (s', .ok u)) : ∀ x ∈ l, get s'.bkts x = none := by
  induction l generalizing s with
  | nil => intro x hx; cases hx
  | cons y l ih =>
    unfold deleteBuckets at h
    split at h
    · simp at h
    · rename_i s1 u1 he
      intro x hx
      rcases List.mem_cons.mp hx with rfl | hx
      · have g := deleteBucket_ok_gone s x true he
        cases e : get s'.bkts x with
        | none => rfl
        | some b =>
          have := deleteBuckets_bkts_mono l s1 (id := x) (b := b) (by rw [h]; exact e)
          rw [g] at this; cases this
      · exact ih s1 h x hx

theorem deleteOrgStore_bkts (s : State) (id : Nat) : (deleteOrgStore s id).1.bkts = s.bkts := by
  unfold deleteOrgStore; split <;> rfl

/-- ids listed for an organization are ids of buckets of that organization -/
theorem mem_bucketIdsOfOrg {s : State} (h : Inv s) {org x : Nat} (hx : x ∈ bucketIdsOfOrg s org) :
    ∃ b, get s.bkts x = some b ∧ b.org = org := by
  obtain ⟨⟨⟨o, n⟩, x'⟩, hm, rfl⟩ := List.mem_map.mp hx
  obtain ⟨hm, ho⟩ := List.mem_filter.mp hm
  simp only [decide_eq_true_eq] at ho
  obtain ⟨b, hb, hk⟩ := h.bkt.sound (o, n) x' (get_of_mem h.wfBktIdx hm)
  simp only [Prod.mk.injEq] at hk
  exact ⟨b, hb, hk.1.trans ho⟩

theorem bucketIdsOfOrg_complete {s : State} (h : Inv s) {x : Nat} {b : BucketRec} (hb : get s.bkts x = some b) :
    x ∈ bucketIdsOfOrg s b.org := by
  have := mem_of_get (h.bkt.complete x b hb)
  exact List.mem_map.mpr ⟨((b.org, b.name), x), List.mem_filter.mpr ⟨this, by simp⟩, rfl⟩

/-- `DeleteOrganization org` leaves the buckets of every other organization alone -/
theorem deleteOrganization_bkts_other {s : State} (h : Inv s) (org : Nat) {id : Nat} {b : BucketRec}
    (hb : get s.bkts id = some b) (hne : b.org ≠ org) :
    get (deleteOrganization s org).1.bkts id = some b := by
  unfold deleteOrganization
  split
  · exact hb
  · simp only
    split
    · exact hb
    · have hnot : ∀ x ∈ bucketIdsOfOrg s org, x ≠ id := by
        intro x hx c; subst c
        obtain ⟨b', hb', ho⟩ := mem_bucketIdsOfOrg h hx
        rw [hb] at hb'; cases hb'; exact hne ho
      have h1 := deleteBuckets_bkts_ne (bucketIdsOfOrg s org) s hnot
      rw [hb] at h1
      split
      · rename_i s1 e he; rw [he] at h1; exact h1
      · rename_i s1 x he; rw [he] at h1
        have h2 : get (deleteOrgStore s1 org).1.bkts id = some b := by rw [deleteOrgStore_bkts]; exact h1
        split
        · rename_i s2 e he2; rw [he2] at h2; exact h2
        · rename_i s2 y he2; rw [he2] at h2
          simp only [removeResourceRelations_bkts]; exact h2

/-- **cascade**: after a successful `DeleteOrganization org` no bucket of `org` and no
    membership on `org` is left -/
theorem deleteOrganization_cascade {s : State} (h : Inv s) (org : Nat) {s' : State} {r : Nat}
    (hr : deleteOrganization s org = (s', .ok r)) :
    (∀ id b, get s'.bkts id = some b → b.org ≠ org) ∧ (∀ k, k.1 = org → get s'.urms k = none) := by
  unfold deleteOrganization at hr
  split at hr
  · simp at hr
  · simp only at hr
    split at hr
    · simp at hr
    · split at hr
      · simp at hr
      · rename_i s1 x he
        split at hr
        · simp at hr
        · rename_i s2 y he2
          simp only [Prod.mk.injEq, Except.ok.injEq] at hr
          obtain ⟨rfl, _⟩ := hr
          constructor
          · intro id b hb hc
            rw [removeResourceRelations_bkts] at hb
            have hb1 : get s1.bkts id = some b := by
              have := deleteOrgStore_bkts s1 org; rw [he2] at this; simp only at this; rw [← this]; exact hb
            have hb0 := deleteBuckets_bkts_mono (bucketIdsOfOrg s org) s (id := id) (b := b) (by rw [he]; exact hb1)
            have hm := bucketIdsOfOrg_complete h hb0
            rw [hc] at hm
            have := deleteBuckets_ok_gone _ s he id hm
            rw [this] at hb1; cases hb1
          · intro k hk
            exact removeResourceRelations_none s2 org k hk


theorem updateBucket_system (s : State) (x : Nat) (name : Option String) {id : Nat} {b : BucketRec}
    (h : get s.bkts id = some b) (hs : b.sys = true) : get (updateBucket s x name).1.bkts id = some b := by
  unfold updateBucket
  repeat' split
  all_goals first
    | exact h
    | skip
  rename_i b' hb' _ n _ hsys _ _
  simp only
  have : x ≠ id := by
    intro c; subst c; rw [h] at hb'; cases hb'; exact hsys hs
  rw [get_put_ne _ _ this]; exact h

theorem updateOrganization_bkts (s : State) (id : Nat) (name : Option String) :
    (updateOrganization s id name).1.bkts = s.bkts := by
  unfold updateOrganization
  (repeat' split) <;> rfl

theorem deleteURM_bkts (s : State) (res user : Nat) : (deleteURM s res user).1.bkts = s.bkts := by
  unfold deleteURM
  (repeat' split) <;> rfl

theorem createUser_bkts (s : State) (name : String) (id : Nat) : (createUser s name id).1.bkts = s.bkts := by
  unfold createUser
  split
  rename_i id' s' hp
  have : s'.bkts = s.bkts := by
    split at hp <;> simp only [Prod.mk.injEq] at hp <;> obtain ⟨_, rfl⟩ := hp <;> rfl
  (repeat' split) <;> exact this

theorem updateUser_bkts (s : State) (id : Nat) (name : Option String) : (updateUser s id name).1.bkts = s.bkts := by
  unfold updateUser
  (repeat' split) <;> rfl

theorem deleteUser_bkts (s : State) (id : Nat) : (deleteUser s id).1.bkts = s.bkts := by
  unfold deleteUser
  repeat' split
  all_goals first
    | rfl
    | skip
  exact (foldl_deleteURMRaw_same _ _).2.2.1

/-- **system buckets**: no operation other than deleting its organization removes or renames
    a system bucket -/
theorem step_system {s : State} (h : Inv s) (op : Op) {id : Nat} {b : BucketRec}
    (hb : get s.bkts id = some b) (hs : b.sys = true)
    (hop : Spec.C30.isDeleteOrgOf b.org (op, (step s op).2) = false) :
    get (step s op).1.bkts id = some b := by
  cases op with
  | co n u => exact createOrganization_bkts hb
  | uo x n => simp only [step]; rw [updateOrganization_bkts]; exact hb
  | dO x =>
    simp only [Spec.C30.isDeleteOrgOf, decide_eq_false_iff_not] at hop
    exact deleteOrganization_bkts_other h x hb (fun c => hop c.symm)
  | cb o n sys => exact createBucket_bkts hb
  | ub x n => exact updateBucket_system s x n hb hs
  | db x => exact deleteBucket_system s x hb hs
  | cu n x => simp only [step]; rw [createUser_bkts]; exact hb
  | uu x n => simp only [step]; rw [updateUser_bkts]; exact hb
  | du x => simp only [step]; rw [deleteUser_bkts]; exact hb
  | cm r u a c => simp only [step]; rw [createURM_bkts]; exact hb
  | dm r u => simp only [step]; rw [deleteURM_bkts]; exact hb
  | fo n => exact hb
  | fb o n => exact hb
  | fu n => exact hb
  | lb o => exact hb
  | idgen g n => cases g <;> exact hb
  | dump => exact hb

/-- lookups leave the state alone -/
theorem step_lookup (s : State) (op : Op) (h : Spec.C30.isLookup op = true) : (step s op).1 = s := by
  cases op <;> simp [Spec.C30.isLookup] at h <;> rfl


/-! ### from the invariant to the dump checks -/

theorem uniqueBy_of_pairwise {α β : Type} [DecidableEq β] (f : α → β) (l : List α)
    (h : l.Pairwise (fun a b => f a ≠ f b)) : uniqueBy f l = true := by
  induction l with
  | nil => rfl
  | cons x xs ih =>
    rw [List.pairwise_cons] at h
    simp only [uniqueBy, Bool.and_eq_true, List.all_eq_true, decide_eq_true_eq]
    exact ⟨fun y hy => h.1 y hy, ih h.2⟩

/-- records of a well-formed bucket whose index agrees carry pairwise different keys -/
theorem pairwise_keys {κ ρ : Type} [DecidableEq κ] {key : ρ → κ} {recs : List (Nat × ρ)} {idx : List (κ × Nat)}
    (h : IdxOK key recs idx) (wf : WF recs) : recs.Pairwise (fun a b => key a.2 ≠ key b.2) := by
  have nd : recs.Pairwise (fun a b => a.1 ≠ b.1) := by
    have := wf; unfold WF at this
    rw [List.Nodup, List.pairwise_map] at this; exact this
  refine List.Pairwise.imp_of_mem ?_ nd
  intro a b ha hb hne hk
  exact hne (h.unique (get_of_mem wf (k := a.1) (v := a.2) ha) (get_of_mem wf (k := b.1) (v := b.2) hb) hk)

theorem namesUnique_dumpOf {s : State} (h : Inv s) : namesUnique (dumpOf s) = true := by
  simp only [namesUnique, dumpOf, Bool.and_eq_true]
  refine ⟨⟨?_, ?_⟩, ?_⟩
  · apply uniqueBy_of_pairwise
    rw [List.pairwise_map]
    refine (pairwise_keys h.org h.wfOrgs).imp ?_
    intro a b hne c; exact hne (by simpa using congrArg orgKey c)
  · apply uniqueBy_of_pairwise
    rw [List.pairwise_map]
    exact (pairwise_keys h.user h.wfUsers).imp (fun hne c => hne c)
  · apply uniqueBy_of_pairwise
    rw [List.pairwise_map]
    exact (pairwise_keys h.bkt h.wfBkts).imp (fun hne c => hne c)

theorem keysAgree_dumpOf (s : State) : keysAgree (dumpOf s) = true := by
  simp [keysAgree, dumpOf]

theorem indexesAgree_dumpOf {s : State} (h : Inv s) : indexesAgree (dumpOf s) = true := by
  simp only [indexesAgree, dumpOf, Bool.and_eq_true, List.all_eq_true, List.any_eq_true, List.mem_map,
    decide_eq_true_eq, Prod.exists, Prod.forall]
  refine ⟨⟨⟨⟨⟨?_, ?_⟩, ?_⟩, ?_⟩, ?_⟩, ?_⟩
  · intro k id hm
    obtain ⟨n, hn, hk⟩ := h.org.sound k id (get_of_mem h.wfOrgIdx hm)
    exact ⟨id, id, n, ⟨id, n, mem_of_get hn, rfl⟩, rfl, by rw [trim_eq]; exact hk⟩
  · rintro k i n ⟨k', n', hm, he⟩
    simp only [Prod.mk.injEq] at he
    obtain ⟨rfl, rfl, rfl⟩ := he
    exact ⟨_, _, mem_of_get (h.org.complete k' n' (get_of_mem h.wfOrgs hm)), by rw [trim_eq], rfl⟩
  · intro k id hm
    obtain ⟨n, hn, hk⟩ := h.user.sound k id (get_of_mem h.wfUserIdx hm)
    exact ⟨id, id, n, ⟨id, n, mem_of_get hn, rfl⟩, rfl, hk⟩
  · rintro k i n ⟨k', n', hm, he⟩
    simp only [Prod.mk.injEq] at he
    obtain ⟨rfl, rfl, rfl⟩ := he
    exact ⟨_, _, mem_of_get (h.user.complete k' n' (get_of_mem h.wfUsers hm)), rfl, rfl⟩
  · intro o n id hm
    obtain ⟨b, hb, hk⟩ := h.bkt.sound (o, n) id (get_of_mem h.wfBktIdx hm)
    simp only [Prod.mk.injEq] at hk
    exact ⟨id, id, b, ⟨id, b, mem_of_get hb, rfl⟩, ⟨rfl, hk.1⟩, hk.2⟩
  · rintro k i b ⟨k', b', hm, he⟩
    simp only [Prod.mk.injEq] at he
    obtain ⟨rfl, rfl, rfl⟩ := he
    exact ⟨_, _, _, mem_of_get (h.bkt.complete k' b' (get_of_mem h.wfBkts hm)), rfl, rfl⟩

theorem dumpOK_dumpOf {s : State} (h : Inv s) : dumpOK (dumpOf s) = true := by
  simp [dumpOK, keysAgree_dumpOf, namesUnique_dumpOf h, indexesAgree_dumpOf h]


/-! ### lookups through the API agree with the dumped records -/

theorem lookupOK_step {s : State} (h : Inv s) (op : Op) : lookupOK (dumpOf s) op (step s op).2 = true := by
  cases op with
  | fo n =>
    simp only [step, findOrg]
    cases hi : get s.orgIdx (orgKey n) with
    | none =>
      simp only [lookupOK, dumpOf, List.all_eq_true, List.mem_map, decide_eq_true_eq, Prod.exists]
      rintro e ⟨k, n', hm, rfl⟩ c
      simp only at c; subst c
      have := h.org.complete k n' (get_of_mem h.wfOrgs hm)
      rw [hi] at this; cases this
    | some id =>
      obtain ⟨nm, hn, hk⟩ := h.org.sound _ id hi
      simp only [hn, lookupOK, dumpOf, Bool.and_eq_true, List.any_eq_true, List.mem_map, decide_eq_true_eq,
        Prod.exists]
      exact ⟨⟨id, id, nm, ⟨id, nm, mem_of_get hn, rfl⟩, rfl, rfl⟩, by rw [trim_eq, trim_eq]; exact hk⟩
  | fu n =>
    simp only [step, findUser]
    cases hi : get s.userIdx n with
    | none =>
      simp only [lookupOK, dumpOf, List.all_eq_true, List.mem_map, decide_eq_true_eq, Prod.exists]
      rintro e ⟨k, n', hm, rfl⟩ c
      simp only at c; subst c
      have := h.user.complete k n' (get_of_mem h.wfUsers hm)
      rw [hi] at this; cases this
    | some id =>
      obtain ⟨nm, hn, hk⟩ := h.user.sound _ id hi
      simp only [hn, lookupOK, dumpOf, Bool.and_eq_true, List.any_eq_true, List.mem_map, decide_eq_true_eq,
        Prod.exists]
      exact ⟨⟨id, id, nm, ⟨id, nm, mem_of_get hn, rfl⟩, rfl, rfl⟩, hk⟩
  | fb o n =>
    simp only [step, findBucket]
    by_cases h0 : o = 0
    · simp [lookupOK, h0]
    · simp only [h0, ↓reduceIte]
      cases hi : get s.bktIdx (o, n) with
      | none =>
        simp only [lookupOK, dumpOf, List.all_eq_true, List.mem_map, Prod.exists]
        rintro e ⟨k, b, hm, rfl⟩
        simp only [Bool.not_eq_eq_eq_not, Bool.not_true, Bool.and_eq_false_imp, decide_eq_true_eq,
          decide_eq_false_iff_not]
        intro ho hn
        have := h.bkt.complete k b (get_of_mem h.wfBkts hm)
        simp only [ho, hn] at this
        rw [hi] at this; cases this
      | some id =>
        obtain ⟨b, hb, hk⟩ := h.bkt.sound _ id hi
        simp only [Prod.mk.injEq] at hk
        simp only [hb, lookupOK, dumpOf, Bool.and_eq_true, List.any_eq_true, List.mem_map, decide_eq_true_eq,
          Prod.exists]
        exact ⟨⟨⟨id, id, b, ⟨id, b, mem_of_get hb, rfl⟩, ⟨rfl, rfl⟩, rfl⟩, hk.1⟩, hk.2⟩
  | _ => simp [lookupOK]


/-! ### the scan of Spec.C30 over a trace of the model -/

/-- no bucket of `org`, no membership on `org` -/
def Casc (s : State) (org : Nat) : Prop :=
  (∀ id b, get s.bkts id = some b → b.org ≠ org) ∧ (∀ k, k.1 = org → get s.urms k = none)

theorem cascaded_dumpOf {s : State} (h : Inv s) {org : Nat} (c : Casc s org) : cascaded (dumpOf s) org = true := by
  simp only [cascaded, dumpOf, Bool.and_eq_true, List.all_eq_true, List.mem_map, decide_eq_true_eq, Prod.exists]
  constructor
  · rintro e ⟨k, b, hm, rfl⟩
    exact c.1 k b (get_of_mem h.wfBkts hm)
  · rintro e ⟨k1, k2, r, hm, rfl⟩
    have : k1 ≠ org := by
      intro e
      have := c.2 (k1, k2) e
      rw [get_of_mem h.wfUrms hm] at this; cases this
    exact ⟨this, this⟩

/-- system buckets of `sL` survive into `s` unless their organization was deleted in between -/
def Kept (sL s : State) (since : List (Op × Ans)) : Prop :=
  ∀ id b, get sL.bkts id = some b → b.sys = true → since.any (isDeleteOrgOf b.org) = false →
    get s.bkts id = some b

theorem systemKept_dumpOf {sL s : State} (hL : Inv sL) {since : List (Op × Ans)} (k : Kept sL s since) :
    systemKept (dumpOf sL) (dumpOf s) since = true := by
  simp only [systemKept, dumpOf, List.all_eq_true, List.mem_map, Prod.exists]
  rintro e ⟨id, b, hm, rfl⟩
  simp only [Bool.or_eq_true, Bool.not_eq_eq_eq_not, Bool.not_true, List.contains_eq_mem, List.mem_map,
    Prod.exists, decide_eq_true_eq]
  by_cases hs : b.sys = true
  · by_cases ha : since.any (isDeleteOrgOf b.org) = true
    · exact Or.inl (Or.inr ha)
    · refine Or.inr ⟨id, b, mem_of_get (k id b (get_of_mem hL.wfBkts hm) hs (by simpa using ha)), rfl⟩
  · exact Or.inl (Or.inl (by simpa using hs))

structure Rel (sc : Scan) (s : State) : Prop where
  ok : sc.ok = true
  inv : Inv s
  casc : ∀ id x rest, sc.since = (.dO id, .okId x) :: rest → Casc s id
  last : ∀ d, sc.last = some d → ∃ sL, d = dumpOf sL ∧ Inv sL ∧ Kept sL s sc.since ∧
    (sc.since.all (fun p => isLookup p.1) = true → s = sL)

theorem rel_init : Rel {} init :=
  ⟨rfl, init_inv, fun _ _ _ h => (by simp at h), fun _ h => (by simp at h)⟩

theorem scanStep_dump {sc : Scan} {s : State} (r : Rel sc s) :
    scanStep sc (.dump, .dump (dumpOf s)) = { sc with last := some (dumpOf s), since := [] } := by
  have e1 : checkDump sc (dumpOf s) = sc := by simp [checkDump, dumpOK_dumpOf r.inv]
  have e2 : checkCascade sc (dumpOf s) = sc := by
    unfold checkCascade
    split
    · rename_i id x rest he
      rw [cascaded_dumpOf r.inv (r.casc id x rest he)]; rfl
    · rfl
  have e3 : checkSystem sc (dumpOf s) = sc := by
    unfold checkSystem
    split
    · rename_i b hb
      obtain ⟨sL, rfl, hL, hk, _⟩ := r.last b hb
      rw [systemKept_dumpOf hL hk]; rfl
    · rfl
  simp only [scanStep, e1, e2, e3]

theorem scanStep_other (sc : Scan) (op : Op) (a : Ans) (hop : op ≠ .dump) :
    scanStep sc (op, a) = { checkLookup sc op a with since := (op, a) :: sc.since } := by
  cases op <;> first | rfl | exact absurd rfl hop

theorem step_ans_dO {s : State} {id x : Nat} (h : (step s (.dO id)).2 = .okId x) :
    ∃ r, deleteOrganization s id = ((step s (.dO id)).1, .ok r) := by
  simp only [step] at h ⊢
  cases e : (deleteOrganization s id).2 with
  | error er => rw [e] at h; cases h
  | ok r => exact ⟨r, by rw [← e]⟩

theorem rel_step {sc : Scan} {s : State} (r : Rel sc s) (op : Op) :
    Rel (scanStep sc (op, (step s op).2)) (step s op).1 := by
  by_cases hop : op = .dump
  · subst hop
    show Rel (scanStep sc (.dump, .dump (dumpOf s))) s
    rw [scanStep_dump r]
    refine ⟨r.ok, r.inv, fun _ _ _ h => (by simp at h), ?_⟩
    intro d hd
    simp only [Option.some.injEq] at hd
    exact ⟨s, hd.symm, r.inv, fun id b hb _ _ => hb, fun _ => rfl⟩
  · rw [scanStep_other sc op _ hop]
    have inner : checkLookup sc op (step s op).2 = sc := by
      unfold checkLookup
      split
      · rename_i d hd
        obtain ⟨sL, rfl, _, _, hl⟩ := r.last d hd
        by_cases ha : sc.since.all (fun p => isLookup p.1) = true
        · have := hl ha; subst this
          simp [lookupOK_step r.inv op]
        · simp [ha]
      · rfl
    rw [inner]
    refine ⟨r.ok, step_inv r.inv op, ?_, ?_⟩
    · intro id x rest he
      simp only [List.cons.injEq, Prod.mk.injEq] at he
      obtain ⟨⟨rfl, ha⟩, _⟩ := he
      obtain ⟨rr, hr⟩ := step_ans_dO ha
      exact deleteOrganization_cascade r.inv id hr
    · intro d hd
      obtain ⟨sL, rfl, hL, hk, hl⟩ := r.last d hd
      refine ⟨sL, rfl, hL, ?_, ?_⟩
      · intro id b hb hs hany
        simp only [List.any_cons, Bool.or_eq_false_iff] at hany
        exact step_system r.inv op (hk id b hb hs hany.2) hs hany.1
      · intro hall
        simp only [List.all_cons, Bool.and_eq_true] at hall
        rw [step_lookup s op hall.1]; exact hl hall.2

theorem scan_run (ops : List Op) {sc : Scan} {s : State} (r : Rel sc s) :
    ((run s ops).foldl scanStep sc).ok = true := by
  induction ops generalizing sc s with
  | nil => exact r.ok
  | cons op ops ih =>
    simp only [run, List.foldl_cons]
    exact ih (rel_step r op)


/-! ### no orphan buckets: every bucket's organization exists -/

def OrphanFree (s : State) : Prop := ∀ id b, get s.bkts id = some b → has s.orgs b.org = true

theorem has_put {κ ν : Type} [DecidableEq κ] (m : List (κ × ν)) (k k' : κ) (v : ν) :
    has (put m k v) k' = (decide (k = k') || has m k') := by
  simp only [has_eq, get_put]
  by_cases h : k = k' <;> simp [h]

theorem has_del_ne {κ ν : Type} [DecidableEq κ] (m : List (κ × ν)) {k k' : κ} (h : k ≠ k') :
    has (del m k) k' = has m k' := by
  simp only [has_eq, get_del_ne m h]

/-- a step that keeps every organization and adds/changes buckets only inside existing organizations -/
theorem orphanFree_of {s s' : State} (h : OrphanFree s)
    (horgs : ∀ o, has s.orgs o = true → has s'.orgs o = true)
    (hb : ∀ id b, get s'.bkts id = some b → get s.bkts id = some b ∨ has s'.orgs b.org = true) : OrphanFree s' := by
  intro id b hg
  rcases hb id b hg with h1 | h1
  · exact horgs _ (h id b h1)
  · exact h1

theorem createOrgStore_orgs_grow (s : State) (name : String) (o : Nat) (h : has s.orgs o = true) :
    has (createOrgStore s name).1.orgs o = true := by
  unfold createOrgStore
  generalize genSafe (has s.orgs) maxIDGenerationN s.nextOrg = g
  obtain ⟨r, n'⟩ := g
  cases r with
  | error e => exact h
  | ok id =>
    simp only
    repeat' split
    all_goals first
      | exact h
      | (simp only [has_put, h, Bool.or_true])

theorem createBucketStore_orgs (s : State) (org : Nat) (name : String) (sys : Bool) :
    (createBucketStore s org name sys).1.orgs = s.orgs := by
  unfold createBucketStore
  generalize genSafe (has s.bkts) maxIDGenerationN s.nextBkt = g
  obtain ⟨r, n'⟩ := g
  cases r with
  | error e => rfl
  | ok id => simp only; split <;> rfl

theorem createBucket_orgs (s : State) (org : Nat) (name : String) (sys : Bool) :
    (createBucket s org name sys).1.orgs = s.orgs := by
  unfold createBucket
  repeat' split
  all_goals first
    | rfl
    | exact createBucketStore_orgs s org name sys

/-- a bucket record after `CreateBucket` is an old one or lies in an existing organization -/
theorem createBucket_new (s : State) (org : Nat) (name : String) (sys : Bool) (id : Nat) (b : BucketRec)
    (h : get (createBucket s org name sys).1.bkts id = some b) :
    get s.bkts id = some b ∨ has s.orgs b.org = true := by
  unfold createBucket at h
  split at h
  · exact Or.inl h
  · split at h
    · exact Or.inl h
    · split at h
      · exact Or.inl h
      · rename_i horg
        unfold createBucketStore at h
        generalize genSafe (has s.bkts) maxIDGenerationN s.nextBkt = g at h
        obtain ⟨r, n'⟩ := g
        cases r with
        | error e => exact Or.inl h
        | ok id' =>
          simp only at h
          split at h
          · exact Or.inl h
          · simp only [get_put] at h
            split at h
            · simp only [Option.some.injEq] at h; subst h; right; simpa using horg
            · exact Or.inl h

theorem createBucket_orphanFree {s : State} (h : OrphanFree s) (org : Nat) (name : String) (sys : Bool) :
    OrphanFree (createBucket s org name sys).1 :=
  orphanFree_of h (fun o ho => by rw [createBucket_orgs]; exact ho)
    (fun id b hg => by
      rcases createBucket_new s org name sys id b hg with h1 | h1
      · exact Or.inl h1
      · right; rw [createBucket_orgs]; exact h1)

theorem createOrgStore_orphanFree {s : State} (h : OrphanFree s) (name : String) :
    OrphanFree (createOrgStore s name).1 :=
  orphanFree_of h (createOrgStore_orgs_grow s name) (fun id b hg => by
    rw [createOrgStore_bkts] at hg; exact Or.inl hg)

theorem createURM_orgs (s : State) (res user : Nat) (r : UrmRec) : (createURM s res user r).1.orgs = s.orgs := by
  unfold createURM
  (repeat' split) <;> rfl

theorem createOrganization_orphanFree {s : State} (h : OrphanFree s) (name : String) (u : Nat) :
    OrphanFree (createOrganization s name u).1 := by
  unfold createOrganization
  have h1 := createOrgStore_orphanFree h name
  split
  · rename_i s1 e he; rw [he] at h1; exact h1
  · rename_i s1 id he; rw [he] at h1
    have h2 := createBucket_orphanFree h1 id "_tasks" true
    split
    · rename_i s2 e he2; rw [he2] at h2; exact h2
    · rename_i s2 x he2; rw [he2] at h2
      have h3 := createBucket_orphanFree h2 id "_monitoring" true
      split
      · rename_i s3 e he3; rw [he3] at h3; exact h3
      · rename_i s3 y he3; rw [he3] at h3
        split
        · exact h3
        · have h4 : OrphanFree (createURM s3 id u ⟨true, true⟩).1 := by
            intro i b hg
            rw [createURM_bkts] at hg; rw [createURM_orgs]; exact h3 i b hg
          split
          · rename_i s4 e he4; rw [he4] at h4; exact h4
          · rename_i s4 z he4; rw [he4] at h4; exact h4

theorem updateOrganization_orphanFree {s : State} (h : OrphanFree s) (id : Nat) (name : Option String) :
    OrphanFree (updateOrganization s id name).1 := by
  refine orphanFree_of h ?_ (fun i b hg => by rw [updateOrganization_bkts] at hg; exact Or.inl hg)
  intro o ho
  unfold updateOrganization
  repeat' split
  all_goals first
    | exact ho
    | (simp only [has_put, ho, Bool.or_true])

theorem updateBucket_orgs (s : State) (id : Nat) (name : Option String) : (updateBucket s id name).1.orgs = s.orgs := by
  unfold updateBucket
  (repeat' split) <;> rfl

theorem updateBucket_orphanFree {s : State} (h : OrphanFree s) (id : Nat) (name : Option String) :
    OrphanFree (updateBucket s id name).1 := by
  refine orphanFree_of h (fun o ho => by rw [updateBucket_orgs]; exact ho) ?_
  intro i b hg
  unfold updateBucket at hg
  repeat' split at hg
  all_goals first
    | exact Or.inl hg
    | skip
  rename_i b0 hb0 _ n _ _ _ _
  simp only [get_put] at hg
  split at hg
  · simp only [Option.some.injEq] at hg; subst hg
    right; rw [updateBucket_orgs]; exact h _ b0 hb0
  · exact Or.inl hg

theorem removeResourceRelations_orgs (s : State) (r : Nat) : (removeResourceRelations s r).orgs = s.orgs :=
  (foldl_deleteURMRaw_same _ s).1

theorem deleteBucket_orgs (s : State) (x : Nat) (internal : Bool) : (deleteBucket s x internal).1.orgs = s.orgs := by
  unfold deleteBucket
  repeat' split
  all_goals first
    | rfl
    | skip
  simp only [removeResourceRelations_orgs]

theorem deleteBucket_orphanFree {s : State} (h : OrphanFree s) (x : Nat) (internal : Bool) :
    OrphanFree (deleteBucket s x internal).1 :=
  orphanFree_of h (fun o ho => by rw [deleteBucket_orgs]; exact ho)
    (fun i b hg => Or.inl (deleteBucket_bkts_mono s x internal hg))

theorem deleteBuckets_orgs (l : List Nat) (s : State) : (deleteBuckets s l).1.orgs = s.orgs := by
  induction l generalizing s with
  | nil => rfl
  | cons x l ih =>
    unfold deleteBuckets
    have h1 := deleteBucket_orgs s x true
    split
    · rename_i s1 e he; rw [he] at h1; exact h1
    · rename_i s1 u he; rw [he] at h1; rw [ih s1]; exact h1

theorem deleteOrgStore_orgs_err {s s' : State} {org : Nat} {e : Err} (h : deleteOrgStore s org = (s', .error e)) :
    s'.orgs = s.orgs ∧ s'.bkts = s.bkts := by
  unfold deleteOrgStore at h
  split at h
  · simp only [Prod.mk.injEq] at h; obtain ⟨rfl, _⟩ := h; exact ⟨rfl, rfl⟩
  · simp at h

theorem deleteOrgStore_orgs_ok {s s' : State} {org : Nat} {u : Unit} (h : deleteOrgStore s org = (s', .ok u)) :
    s'.orgs = del s.orgs org ∧ s'.bkts = s.bkts := by
  unfold deleteOrgStore at h
  split at h
  · simp at h
  · simp only [Prod.mk.injEq] at h; obtain ⟨rfl, _⟩ := h; exact ⟨rfl, rfl⟩

/-- what `DeleteOrganization` does to organizations and buckets: it fails and keeps every organization,
    or succeeds and removes exactly the organization; buckets only disappear -/
theorem deleteOrganization_shape (s : State) (org : Nat) :
    (∀ id b, get (deleteOrganization s org).1.bkts id = some b → get s.bkts id = some b) ∧
    (((deleteOrganization s org).1.orgs = s.orgs ∧ ∃ e, (deleteOrganization s org).2 = .error e) ∨
     ((deleteOrganization s org).1.orgs = del s.orgs org ∧ (deleteOrganization s org).2 = .ok org)) := by
  unfold deleteOrganization
  split
  · exact ⟨fun _ _ h => h, Or.inl ⟨rfl, _, rfl⟩⟩
  · simp only
    split
    · exact ⟨fun _ _ h => h, Or.inl ⟨rfl, _, rfl⟩⟩
    · have hm : ∀ id b, get (deleteBuckets s (bucketIdsOfOrg s org)).1.bkts id = some b → get s.bkts id = some b :=
        fun id b hg => deleteBuckets_bkts_mono (bucketIdsOfOrg s org) s hg
      have ho := deleteBuckets_orgs (bucketIdsOfOrg s org) s
      split
      · rename_i s1 e he
        rw [he] at hm ho
        exact ⟨fun id b hg => hm id b hg, Or.inl ⟨ho, _, rfl⟩⟩
      · rename_i s1 x he
        rw [he] at hm ho
        split
        · rename_i s2 e he2
          obtain ⟨eo, eb⟩ := deleteOrgStore_orgs_err he2
          exact ⟨fun id b hg => hm id b (by rw [← eb]; exact hg), Or.inl ⟨by rw [eo, ho], _, rfl⟩⟩
        · rename_i s2 y he2
          obtain ⟨eo, eb⟩ := deleteOrgStore_orgs_ok he2
          refine ⟨fun id b hg => hm id b (by rw [← eb, ← removeResourceRelations_bkts s2 org]; exact hg), Or.inr ⟨?_, rfl⟩⟩
          rw [removeResourceRelations_orgs, eo, ho]

theorem deleteOrganization_orphanFree {s : State} (hi : Inv s) (h : OrphanFree s) (org : Nat) :
    OrphanFree (deleteOrganization s org).1 := by
  obtain ⟨hmono, hcase⟩ := deleteOrganization_shape s org
  rcases hcase with ⟨ho, _⟩ | ⟨ho, hr⟩
  · intro id b hg; rw [ho]; exact h id b (hmono id b hg)
  · have hfull : deleteOrganization s org = ((deleteOrganization s org).1, .ok org) := by rw [← hr]
    have hc := (deleteOrganization_cascade hi org hfull).1
    intro id b hg
    rw [ho, has_del_ne _ (fun c => hc id b hg c.symm)]
    exact h id b (hmono id b hg)

theorem deleteURM_orgs (s : State) (res user : Nat) : (deleteURM s res user).1.orgs = s.orgs := by
  unfold deleteURM
  (repeat' split) <;> rfl

theorem createUser_orgs (s : State) (name : String) (id : Nat) : (createUser s name id).1.orgs = s.orgs := by
  unfold createUser
  split
  rename_i id' s' hp
  have : s'.orgs = s.orgs := by
    split at hp <;> simp only [Prod.mk.injEq] at hp <;> obtain ⟨_, rfl⟩ := hp <;> rfl
  (repeat' split) <;> exact this

theorem updateUser_orgs (s : State) (id : Nat) (name : Option String) : (updateUser s id name).1.orgs = s.orgs := by
  unfold updateUser
  (repeat' split) <;> rfl

theorem deleteUser_orgs (s : State) (id : Nat) : (deleteUser s id).1.orgs = s.orgs := by
  unfold deleteUser
  repeat' split
  all_goals first
    | rfl
    | skip
  exact (foldl_deleteURMRaw_same _ _).1

theorem orphanFree_same {s s' : State} (h : OrphanFree s) (eo : s'.orgs = s.orgs) (eb : s'.bkts = s.bkts) :
    OrphanFree s' := by
  intro id b hg; rw [eo]; rw [eb] at hg; exact h id b hg

theorem step_orphanFree {s : State} (hi : Inv s) (h : OrphanFree s) (op : Op) : OrphanFree (step s op).1 := by
  cases op with
  | co n u => exact createOrganization_orphanFree h n u
  | uo id n => exact updateOrganization_orphanFree h id n
  | dO id => exact deleteOrganization_orphanFree hi h id
  | cb o n sys => exact createBucket_orphanFree h o n sys
  | ub id n => exact updateBucket_orphanFree h id n
  | db id => exact deleteBucket_orphanFree h id false
  | cu n id => exact orphanFree_same h (createUser_orgs s n id) (createUser_bkts s n id)
  | uu id n => exact orphanFree_same h (updateUser_orgs s id n) (updateUser_bkts s id n)
  | du id => exact orphanFree_same h (deleteUser_orgs s id) (deleteUser_bkts s id)
  | cm r u a b => exact orphanFree_same h (createURM_orgs s r u _) (createURM_bkts s r u _)
  | dm r u => exact orphanFree_same h (deleteURM_orgs s r u) (deleteURM_bkts s r u)
  | fo n => exact h
  | fb o n => exact h
  | fu n => exact h
  | lb o => exact h
  | idgen g n => cases g <;> exact h
  | dump => exact h

theorem exec_orphanFree (ops : List Op) {s : State} (hi : Inv s) (h : OrphanFree s) : OrphanFree (exec s ops) := by
  induction ops generalizing s with
  | nil => exact h
  | cons op ops ih => exact ih (step_inv hi op) (step_orphanFree hi h op)


end Influx.Tenant
