/-
  Lemmas.TsmDelete — `indirectIndex.Delete` removes exactly the given keys:
  the merge walk over the sorted offsets and the sorted keys is a filter.
-/
import Influx.Model.TsmIndex
import Influx.Lemmas.TsmLookup

namespace Influx.Tsm

def SortedK (l : List Key) : Prop := l.Pairwise fun a b => kle a b = true

theorem mem_insertKey (k x : Key) (l : List Key) : x ∈ insertKey k l ↔ x = k ∨ x ∈ l := by
  induction l with
  | nil => simp [insertKey]
  | cons y ys ih =>
    simp only [insertKey]
    split
    · simp
    · simp only [List.mem_cons, ih]
      constructor
      · rintro (h | h | h) <;> simp [h]
      · rintro (h | h | h) <;> simp [h]

theorem sorted_insertKey (k : Key) (l : List Key) (h : SortedK l) : SortedK (insertKey k l) := by
  induction l with
  | nil => simp [insertKey, SortedK]
  | cons y ys ih =>
    have hy := List.pairwise_cons.mp h
    simp only [insertKey]
    split
    · next hk =>
      apply List.pairwise_cons.mpr
      refine ⟨?_, h⟩
      intro z hz
      rcases List.mem_cons.mp hz with rfl | hz
      · exact kle_of_klt hk
      · exact kle_trans (kle_of_klt hk) (hy.1 z hz)
    · next hk =>
      apply List.pairwise_cons.mpr
      refine ⟨?_, ih hy.2⟩
      intro z hz
      rcases (mem_insertKey k z ys).mp hz with rfl | hz
      · exact not_klt_iff_kle.mp (by simpa using hk)
      · exact hy.1 z hz

theorem foldl_insertKey_spec (ks acc : List Key) (h : SortedK acc) :
    SortedK (ks.foldl (fun acc k => insertKey k acc) acc) ∧
    ∀ x, x ∈ ks.foldl (fun acc k => insertKey k acc) acc ↔ x ∈ ks ∨ x ∈ acc := by
  induction ks generalizing acc with
  | nil => simp [h]
  | cons k ks ih =>
    simp only [List.foldl_cons]
    obtain ⟨h1, h2⟩ := ih (insertKey k acc) (sorted_insertKey k acc h)
    refine ⟨h1, ?_⟩
    intro x
    rw [h2, mem_insertKey]
    simp only [List.mem_cons]
    constructor
    · rintro (h | h | h) <;> simp [h]
    · rintro ((h | h) | h) <;> simp [h]

theorem sortKeys_sorted (ks : List Key) : SortedK (sortKeys ks) :=
  (foldl_insertKey_spec ks [] List.Pairwise.nil).1

theorem mem_sortKeys (ks : List Key) (x : Key) : x ∈ sortKeys ks ↔ x ∈ ks := by
  have := (foldl_insertKey_spec ks [] List.Pairwise.nil).2 x
  simpa [sortKeys] using this

/-- the elements dropped by `dropWhile (· < b)` are below `b` -/
theorem mem_split_dropWhile (keys : List Key) (b : Key) (x : Key) (hx : x ∈ keys) :
    klt x b = true ∨ x ∈ keys.dropWhile (klt · b) := by
  induction keys with
  | nil => cases hx
  | cons y ys ih =>
    simp only [List.dropWhile_cons]
    split
    · next hy =>
      rcases List.mem_cons.mp hx with rfl | h
      · exact Or.inl hy
      · exact ih h
    · exact Or.inr hx

theorem dropWhile_subset (keys : List Key) (b : Key) (x : Key) (hx : x ∈ keys.dropWhile (klt · b)) : x ∈ keys :=
  (List.dropWhile_sublist _).subset hx

theorem dropWhile_sorted (keys : List Key) (b : Key) (h : SortedK keys) : SortedK (keys.dropWhile (klt · b)) :=
  List.Pairwise.sublist (List.dropWhile_sublist _) h

theorem dropWhile_head (keys : List Key) (b k : Key) (ks : List Key)
    (h : keys.dropWhile (klt · b) = k :: ks) : kle b k = true := by
  induction keys with
  | nil => simp at h
  | cons y ys ih =>
    simp only [List.dropWhile_cons] at h
    split at h
    · exact ih h
    · next hy =>
      cases h
      exact not_klt_iff_kle.mp (by simpa using hy)

theorem mem_take_lt {α : Type} (l : List α) (r : Nat) (x : α) (hx : x ∈ l.take r) :
    ∃ p, p < r ∧ l[p]? = some x := by
  induction l generalizing r with
  | nil => simp at hx
  | cons a l ih =>
    cases r with
    | zero => simp at hx
    | succ r =>
      simp only [List.take_succ_cons, List.mem_cons] at hx
      rcases hx with rfl | hx
      · exact ⟨0, Nat.succ_pos _, rfl⟩
      · obtain ⟨p, hp, hl⟩ := ih r hx
        exact ⟨p + 1, by omega, by simpa using hl⟩

/-- **Delete's merge walk is a filter** (sorted offsets, sorted keys). -/
theorem delWalk_eq_filter (live : List KeyEntry) (hs : SortedKE live) :
    ∀ keys : List Key, SortedK keys →
      delWalk live keys = live.filter fun ke => !decide (ke.key ∈ keys) := by
  induction live with
  | nil => intro keys _; rfl
  | cons ke rest ih =>
    intro keys hk
    have hrest : SortedKE rest := (List.pairwise_cons.mp hs).2
    have hlt : ∀ x ∈ rest, klt ke.key x.key = true := (List.pairwise_cons.mp hs).1
    -- membership in `keys` and in the cursor after skipping agree on every live key
    have hmem : ∀ x ∈ ke :: rest, (x.key ∈ keys ↔ x.key ∈ keys.dropWhile (klt · ke.key)) := by
      intro x hx
      constructor
      · intro h
        rcases mem_split_dropWhile keys ke.key x.key h with h' | h'
        · exfalso
          rcases List.mem_cons.mp hx with rfl | hx
          · simp [klt_irrefl] at h'
          · have := klt_trans h' (hlt x hx)
            simp [klt_irrefl] at this
        · exact h'
      · exact dropWhile_subset keys ke.key x.key
    simp only [delWalk]
    have hk' := dropWhile_sorted keys ke.key hk
    cases hd : keys.dropWhile (klt · ke.key) with
    | nil =>
      simp only
      symm
      apply List.filter_eq_self.mpr
      intro x hx
      have := (hmem x hx)
      rw [hd] at this
      simp [this]
    | cons k ks =>
      simp only
      rw [hd] at hk' hmem
      have hkle : kle ke.key k = true := dropWhile_head keys ke.key k ks hd
      have hks : SortedK ks := (List.pairwise_cons.mp hk').2
      have hkall : ∀ z ∈ ks, kle k z = true := (List.pairwise_cons.mp hk').1
      by_cases heq : k = ke.key
      · simp only [heq, if_true]
        rw [ih hrest ks hks]
        have hin : ke.key ∈ keys := (hmem ke List.mem_cons_self).mpr (by simp [heq])
        simp only [List.filter_cons, hin, decide_true, Bool.not_true, Bool.false_eq_true, if_false]
        apply List.filter_congr
        intro x hx
        have h1 := hmem x (List.mem_cons_of_mem _ hx)
        have hne : x.key ≠ k := by rw [heq]; exact (klt_ne (hlt x hx)).symm
        have : x.key ∈ keys ↔ x.key ∈ ks := by
          rw [h1]; simp [hne]
        simp [this]
      · simp only [heq, if_false]
        rw [ih hrest (k :: ks) hk']
        have hnin : ¬ ke.key ∈ keys := by
          intro h
          have h2 := (hmem ke List.mem_cons_self).mp h
          rcases List.mem_cons.mp h2 with h3 | h3
          · exact heq h3.symm
          · have := kle_antisymm hkle (by
              have := hkall ke.key h3
              exact this)
            exact heq this.symm
        simp only [List.filter_cons, hnin, decide_false, Bool.not_false, if_true]
        congr 1
        apply List.filter_congr
        intro x hx
        have h1 := hmem x (List.mem_cons_of_mem _ hx)
        simp [h1]

/-- **Delete** removes exactly the listed keys from the live keys (and nothing else changes). -/
theorem delete_live (ix : Index) (h : IndexInv ix) (keys : List Key) :
    (delete ix keys).live = ix.live.filter fun ke => !decide (ke.key ∈ keys) := by
  unfold delete
  have hsk := sortKeys_sorted keys
  cases hk : sortKeys keys with
  | nil =>
    simp only
    symm
    apply List.filter_eq_self.mpr
    intro x _
    have : ¬ x.key ∈ keys := by
      intro hx
      have := (mem_sortKeys keys x.key).mpr hx
      rw [hk] at this; cases this
    simp [this]
  | cons k0 ks =>
    simp only
    rw [hk] at hsk
    have hall : ∀ z ∈ k0 :: ks, kle k0 z = true := by
      intro z hz
      rcases List.mem_cons.mp hz with rfl | hz
      · exact kle_refl _
      · exact (List.pairwise_cons.mp hsk).1 z hz
    have hmem : ∀ x : Key, x ∈ keys ↔ x ∈ k0 :: ks := by
      intro x; rw [← hk]; exact (mem_sortKeys keys x).symm
    rw [searchOffset_eq_rank ix h.sortedLive]
    obtain ⟨hlo, _⟩ := sorted_rank_split ix.live h.sortedLive k0
    have hsd : SortedKE (ix.live.drop (rank ix.live k0)) :=
      List.Pairwise.sublist (List.drop_sublist _ _) h.sortedLive
    rw [delWalk_eq_filter _ hsd (k0 :: ks) hsk]
    conv => rhs; rw [← List.take_append_drop (rank ix.live k0) ix.live]
    rw [List.filter_append]
    congr 1
    · symm
      apply List.filter_eq_self.mpr
      intro x hx
      obtain ⟨p, hp, hl⟩ := mem_take_lt _ _ x hx
      have hlt := hlo p x hp hl
      have : ¬ x.key ∈ keys := by
        intro hin
        have := hall x.key ((hmem x.key).mp hin)
        have := klt_of_klt_of_kle hlt this
        simp [klt_irrefl] at this
      simp [this]
    · apply List.filter_congr
      intro x _
      have := hmem x.key
      simp only [this]

end Influx.Tsm
