/-
  Lemmas.Reads — facts about Model.Reads used by Props.C21: blocks / arrays flatten to
  the filtered points; insertion sort is a sorted permutation; runs of a sorted list
  are a strictly ascending partition.
-/
import Influx.Model.Reads
import Influx.Spec.C21

namespace Influx.Reads
open Influx.WindowAgg (Val Typ Pt)

/-! ### blocks, arrays -/

theorem blocks_flatten {β : Type} (B : Nat) (hB : 1 ≤ B) (xs : List β) : (blocks B xs).flatten = xs := by
  fun_induction blocks B xs with
  | case1 xs h =>
    rcases h with h | h
    · omega
    · simp [h]
  | case2 xs h ih => simp [ih]

theorem flatten_filter_nonempty {β : Type} (cs : List (List β)) :
    (cs.filter (fun a => !a.isEmpty)).flatten = cs.flatten := by
  induction cs with
  | nil => rfl
  | cons c cs ih =>
    cases c with
    | nil => simpa using ih
    | cons p ps => simp [ih]

theorem flatten_map_filter {β : Type} (f : β → Bool) (cs : List (List β)) :
    (cs.map (·.filter f)).flatten = cs.flatten.filter f := by
  induction cs with
  | nil => rfl
  | cons c cs ih => simp only [List.map_cons, List.flatten_cons, List.filter_append, ih]

theorem Shard.arrays_flatten (sh : Shard) (lo hi : Int) :
    (sh.arrays lo hi).flatten = sh.chunks.flatten.filter (inRange lo hi) := by
  unfold Shard.arrays
  rw [flatten_filter_nonempty, flatten_map_filter]

/-- the value condition as a predicate on points (`none`: everything passes) -/
def condOK (c : Option Cond) (p : Pt Val) : Bool :=
  match c with
  | none => true
  | some c => c.eval p.2

theorem shardArrays_flatten (B : Nat) (hB : 1 ≤ B) (c : Option Cond) (lo hi : Int) (sh : Shard) :
    (shardArrays B c lo hi sh).flatten = (sh.chunks.flatten.filter (inRange lo hi)).filter (condOK c) := by
  cases c with
  | none =>
    have : condOK none = fun _ => true := rfl
    simp only [shardArrays]
    rw [Shard.arrays_flatten, this]
    exact (List.filter_eq_self.mpr (fun _ _ => rfl)).symm
  | some c =>
    have : condOK (some c) = fun p => c.eval p.2 := rfl
    simp only [shardArrays, reblock]
    rw [blocks_flatten B hB, Shard.arrays_flatten, this]

theorem flatMap_flatten {β γ : Type} (f : β → List (List γ)) (l : List β) :
    (l.flatMap f).flatten = l.flatMap (fun x => (f x).flatten) := by
  induction l with
  | nil => rfl
  | cons x xs ih => simp [ih]

theorem filter_flatMap' {β γ : Type} (p : γ → Bool) (f : β → List γ) (l : List β) :
    (l.flatMap f).filter p = l.flatMap (fun x => (f x).filter p) := by
  induction l with
  | nil => rfl
  | cons x xs ih => simp [ih]

/-! ### sorting and runs, for any strict total order on the keys -/

section Srt
set_option linter.unusedSectionVars false
variable {ρ κ : Type} [LT κ] [DecidableLT κ] [DecidableEq κ]

/-- what is needed of `<` on the keys -/
structure STO (κ : Type) [LT κ] : Prop where
  irrefl : ∀ a : κ, ¬ a < a
  trans : ∀ {a b c : κ}, a < b → b < c → a < c
  tri : ∀ a b : κ, a < b ∨ a = b ∨ b < a

/-- `a ≤ b` as "not b < a" -/
def Le (a b : κ) : Prop := ¬ b < a

theorem insertBy_perm (k : ρ → κ) (r : ρ) (xs : List ρ) : (insertBy k r xs).Perm (r :: xs) := by
  induction xs with
  | nil => exact List.Perm.refl _
  | cons x xs ih =>
    unfold insertBy
    split
    · exact List.Perm.refl _
    · exact (List.Perm.cons x ih).trans (List.Perm.swap r x xs)

theorem sortBy_perm (k : ρ → κ) (rows : List ρ) : (sortBy k rows).Perm rows := by
  unfold sortBy
  suffices h : ∀ acc : List ρ, (rows.foldl (fun acc r => insertBy k r acc) acc).Perm (acc ++ rows) by
    simpa using h []
  induction rows with
  | nil => intro acc; simp
  | cons r rs ih =>
    intro acc
    simp only [List.foldl_cons]
    refine (ih _).trans ?_
    have := insertBy_perm k r acc
    refine (List.Perm.append_right rs this).trans ?_
    simp only [List.cons_append]
    exact (List.perm_middle (a := r) (l₁ := acc) (l₂ := rs)).symm

theorem insertBy_sorted (h : STO κ) (k : ρ → κ) (r : ρ) (xs : List ρ)
    (hs : xs.Pairwise (fun a b => Le (k a) (k b))) :
    (insertBy k r xs).Pairwise (fun a b => Le (k a) (k b)) := by
  induction xs with
  | nil => simp [insertBy]
  | cons x xs ih =>
    rw [List.pairwise_cons] at hs
    unfold insertBy
    split
    · next hlt =>
      rw [List.pairwise_cons]
      refine ⟨?_, List.pairwise_cons.mpr hs⟩
      intro b hb
      rcases List.mem_cons.mp hb with rfl | hb
      · exact fun h' => h.irrefl _ (h.trans hlt h')
      · exact fun h' => hs.1 b hb (h.trans h' hlt)
    · next hnlt =>
      rw [List.pairwise_cons]
      refine ⟨?_, ih hs.2⟩
      intro b hb
      have := (insertBy_perm k r xs).mem_iff.mp hb
      rcases List.mem_cons.mp this with rfl | hb
      · exact hnlt
      · exact hs.1 b hb

theorem sortBy_sorted (h : STO κ) (k : ρ → κ) (rows : List ρ) :
    (sortBy k rows).Pairwise (fun a b => Le (k a) (k b)) := by
  unfold sortBy
  suffices hh : ∀ acc : List ρ, acc.Pairwise (fun a b => Le (k a) (k b)) →
      (rows.foldl (fun acc r => insertBy k r acc) acc).Pairwise (fun a b => Le (k a) (k b)) by
    exact hh [] List.Pairwise.nil
  induction rows with
  | nil => intro acc ha; simpa using ha
  | cons r rs ih => intro acc ha; exact ih _ (insertBy_sorted h k r acc ha)

theorem runs_flatten (k : ρ → κ) (l : List ρ) : (runs k l).flatten = l := by
  induction l with
  | nil => rfl
  | cons r rs ih =>
    unfold runs
    split
    · next x g gs heq =>
      rw [heq] at ih
      split <;> simp_all
    · next hne =>
      -- runs k rs is [] or starts with []: in both cases rs must be [] (shown via flatten)
      cases hr : runs k rs with
      | nil => rw [hr] at ih; simp at ih; simp [← ih]
      | cons g gs =>
        cases g with
        | nil =>
          -- impossible: runs never produces an empty run; but flatten equation suffices only if gs.flatten = rs
          exfalso
          revert hr
          cases rs with
          | nil => simp [runs]
          | cons r' rs' =>
            unfold runs
            split <;> (try split) <;> simp
        | cons x g => exact absurd hr (hne x g gs)

/-- every run is non-empty, has one key; for a sorted list the runs are strictly ascending -/
theorem runs_spec (h : STO κ) (k : ρ → κ) (l : List ρ) (hs : l.Pairwise (fun a b => Le (k a) (k b))) :
    (∀ g ∈ runs k l, g ≠ [] ∧ ∀ a ∈ g, ∀ b ∈ g, k a = k b) ∧
    (runs k l).Pairwise (fun g1 g2 => ∀ a ∈ g1, ∀ b ∈ g2, k a < k b) := by
  induction l with
  | nil => simp [runs]
  | cons r rs ih =>
    rw [List.pairwise_cons] at hs
    have ih' := ih hs.2
    have hfl := runs_flatten k rs
    unfold runs
    split
    · next x g gs heq =>
      rw [heq] at ih' hfl
      have hxmem : ∀ y ∈ x :: g, y ∈ rs := fun y hy => by
        rw [← hfl]; simp only [List.flatten_cons, List.mem_append]; exact Or.inl hy
      have hgs : ∀ g2 ∈ gs, ∀ b ∈ g2, b ∈ rs := fun g2 hg2 b hb => by
        rw [← hfl]; simp only [List.flatten_cons, List.mem_append, List.mem_flatten]
        exact Or.inr ⟨g2, hg2, hb⟩
      have h1 := ih'.1
      have h2 := List.pairwise_cons.mp ih'.2
      have hconst := (h1 (x :: g) (by simp)).2
      split
      · next hk =>
        constructor
        · intro g' hg'
          rcases List.mem_cons.mp hg' with rfl | hg'
          · refine ⟨by simp, ?_⟩
            intro a ha b hb
            have ka : k a = k x := by
              rcases List.mem_cons.mp ha with rfl | ha
              · exact hk
              · exact hconst a ha x (by simp)
            have kb : k b = k x := by
              rcases List.mem_cons.mp hb with rfl | hb
              · exact hk
              · exact hconst b hb x (by simp)
            rw [ka, kb]
          · exact h1 g' (by simp [hg'])
        · rw [List.pairwise_cons]
          refine ⟨?_, h2.2⟩
          intro g2 hg2 a ha b hb
          rcases List.mem_cons.mp ha with rfl | ha
          · rw [hk]; exact h2.1 g2 hg2 x (by simp) b hb
          · exact h2.1 g2 hg2 a ha b hb
      · next hk =>
        have hrx : k r < k x := by
          rcases h.tri (k r) (k x) with hlt | heq' | hgt
          · exact hlt
          · exact absurd heq' hk
          · exact absurd hgt (hs.1 x (hxmem x (by simp)))
        constructor
        · intro g' hg'
          rcases List.mem_cons.mp hg' with rfl | hg'
          · refine ⟨by simp, ?_⟩
            intro a ha b hb
            simp only [List.mem_singleton] at ha hb
            rw [ha, hb]
          · exact h1 g' hg'
        · rw [List.pairwise_cons]
          refine ⟨?_, ih'.2⟩
          intro g2 hg2 a ha b hb
          simp only [List.mem_singleton] at ha
          subst ha
          rcases List.mem_cons.mp hg2 with rfl | hg2
          · rw [hconst b hb x (by simp)]; exact hrx
          · exact h.trans hrx (h2.1 g2 hg2 x (by simp) b hb)
    · next hne =>
      refine ⟨?_, by simp⟩
      intro g' hg'
      simp only [List.mem_singleton] at hg'
      subst hg'
      refine ⟨by simp, ?_⟩
      intro a ha b hb
      simp only [List.mem_singleton] at ha hb
      rw [ha, hb]

end Srt

/-! ### `<` on strings is a strict total order -/

theorem stringSTO : STO String where
  irrefl a := by rw [String.lt_iff]; exact List.lt_irrefl _
  trans h1 h2 := by rw [String.lt_iff] at *; exact List.lt_trans h1 h2
  tri a b := by
    rw [String.lt_iff, String.lt_iff]
    by_cases h : a.toList < b.toList
    · exact Or.inl h
    · have := List.not_lt.mp h
      rcases List.le_iff_lt_or_eq.mp this with h' | h'
      · exact Or.inr (Or.inr h')
      · exact Or.inr (Or.inl (String.toList_injective h'.symm))

end Influx.Reads
