/-
  Lemmas.TSIState — the invariant of the whole index state and its preservation by every
  operation of the engine's flows (creation, series drop, measurement drop), by log rolls,
  compactions and reopen.
-/
import Influx.Lemmas.TSIInvStruct

namespace Influx.Model.TSI

/-! #### transport lemmas for the partition invariant -/

theorem pinv_congr {exc : String → Prop} {sf : SFile} {live : List Nat} {i : Nat} {p p' : Partition}
    (hf : p'.files = p.files) (hs : p'.sset = p.sset) (hp : PInvX exc sf live i p) :
    PInvX exc sf live i p' := by
  have hd : p'.datas = p.datas := by unfold Partition.datas; rw [hf]
  exact {
    head := by rw [hf]; exact hp.head
    loginv := by rw [hf]; exact hp.loginv
    eknown := by rw [hf]; exact hp.eknown
    noflags := by rw [hf]; exact hp.noflags
    sound := by rw [hf]; exact hp.sound
    comp := by rw [hf]; exact hp.comp
    notomb := by rw [hf]; exact hp.notomb
    tknown := by rw [hf]; exact hp.tknown
    sset := by rw [hs]; exact hp.sset
    stat := by rw [hd]; exact hp.stat
    mflive := by rw [hd]; exact hp.mflive
    mfdead := by rw [hd]; exact hp.mfdead }

theorem pinv_mono {exc exc' : String → Prop} {sf : SFile} {live : List Nat} {i : Nat} {p : Partition}
    (h : ∀ n, exc n → exc' n) (hp : PInvX exc sf live i p) : PInvX exc' sf live i p :=
  { hp with mfdead := fun n hn => (hp.mfdead n hn).imp id (h n) }

/-- an exception is not needed for a measurement that has a live series. -/
theorem pinv_discharge {exc : String → Prop} {sf : SFile} {live : List Nat} {i : Nat} {p : Partition}
    (m : String) (hw : ∃ id ∈ live, ∃ s, sf.find id = some s ∧ s.name = m)
    (hp : PInvX (fun n => exc n ∨ n = m) sf live i p) : PInvX exc sf live i p := by
  have hm : ∀ n, firstSome (measFlag n) p.datas = some false →
      (∃ id ∈ live, ∃ s, sf.find id = some s ∧ s.name = n) ∨ exc n := by
    intro n hn
    rcases hp.mfdead n hn with h | h | h
    · exact Or.inl h
    · exact Or.inr h
    · subst h; exact Or.inl hw
  exact { hp with mfdead := hm }

/-- the series file's tombstone set is not read by the index files. -/
theorem pinv_sfdel {exc : String → Prop} {sf : SFile} {live : List Nat} {i : Nat} {p : Partition}
    (d : List Nat) (hp : PInvX exc sf live i p) : PInvX exc { sf with deleted := d } live i p :=
  { head := hp.head, loginv := hp.loginv, eknown := hp.eknown, noflags := hp.noflags,
    sound := fun f hf => ⟨(hp.sound f hf).meas, (hp.sound f hf).val⟩,
    comp := hp.comp, notomb := hp.notomb, tknown := hp.tknown, sset := hp.sset, stat := hp.stat,
    mflive := hp.mflive, mfdead := hp.mfdead }

/-! #### lists of partitions -/

theorem getElem?_modifyAt {α : Type} (l : List α) (i j : Nat) (f : α → α) :
    (modifyAt l i f)[j]? = if j = i then (l[j]?).map f else l[j]? := by
  induction l generalizing i j with
  | nil => cases i <;> simp [modifyAt]
  | cons x xs ih =>
    cases i with
    | zero =>
      cases j with
      | zero => simp [modifyAt]
      | succ j => simp [modifyAt]
    | succ i =>
      cases j with
      | zero => simp [modifyAt]
      | succ j => simp [modifyAt, ih]

theorem length_modifyAt {α : Type} (l : List α) (i : Nat) (f : α → α) :
    (modifyAt l i f).length = l.length := by
  induction l generalizing i with
  | nil => cases i <;> rfl
  | cons x xs ih => cases i <;> simp [modifyAt, ih]

theorem getElem?_markOpStart (parts : List Partition) (j : Nat) :
    (markOpStart parts)[j]? =
      (parts[j]?).map (fun p => { p with opStart := (p.files.head?.map (·.entries.length)).getD 0 }) := by
  unfold markOpStart
  simp

/-! #### the state invariant -/

/-- an entry of `Index.tagValueCache` holds known series of that tag pair, and all the live ones. -/
def CacheOK (sf : SFile) (live : List Nat) (e : (String × String × String) × List Nat) : Prop :=
  (∀ x ∈ e.2, ∃ s, sf.find x = some s ∧ s.name = e.1.1 ∧ tagOf s.tags e.1.2.1 = some e.1.2.2) ∧
  (∀ id ∈ live, ∀ s, sf.find id = some s → s.name = e.1.1 → tagOf s.tags e.1.2.1 = some e.1.2.2 → id ∈ e.2)

/-- `exc`: measurements that may be listed without a live series, `pend`: ids dropped from the
    index whose series-file delete has not happened yet — both empty between operations. -/
structure GInvX (exc : String → Prop) (pend : List Nat) (st : State) (live : List Nat) : Prop where
  sfok : SFOK st.sf
  partlt : ∀ s ∈ st.sf.known, s.part < st.parts.length
  liveKnown : ∀ id ∈ live, (st.sf.find id).isSome
  liveUndel : ∀ id ∈ live, id ∉ st.sf.deleted
  deadDel : ∀ s ∈ st.sf.known, s.id ∉ live → s.id ∈ st.sf.deleted ∨ s.id ∈ pend
  delKnown : ∀ id ∈ st.sf.deleted, (st.sf.find id).isSome
  pinv : ∀ i p, st.parts[i]? = some p → PInvX exc st.sf live i p
  tracked : ∀ id, id ∈ st.tracked ↔ id ∈ live
  cache : ∀ e ∈ st.cache, CacheOK st.sf live e
  fresh : st.configured = false → st.sf.known = [] ∧ live = [] ∧ ∀ p ∈ st.parts, p = {}

abbrev GInv := GInvX (fun _ => False) []

theorem GInv.deadDel' {st : State} {live : List Nat} (h : GInv st live) :
    ∀ s ∈ st.sf.known, s.id ∉ live → s.id ∈ st.sf.deleted := by
  intro s hs hl
  rcases h.deadDel s hs hl with h1 | h1
  · exact h1
  · simp at h1

theorem ginv_init : GInv {} [] where
  sfok := ⟨fun s hs => by simp at hs, fun s hs => by simp at hs⟩
  partlt s hs := by simp at hs
  liveKnown id h := by simp at h
  liveUndel id h := by simp at h
  deadDel s hs := by simp at hs
  delKnown id h := by simp at h
  pinv i p h := by
    have : i = 0 ∧ p = {} := by
      cases i with
      | zero => simp at h; exact ⟨rfl, h.symm⟩
      | succ j => simp at h
    rw [this.1, this.2]
    exact pinv_init _ 0
  tracked id := by simp
  cache e h := by simp at h
  fresh _ := ⟨rfl, rfl, fun p hp => by simpa using hp⟩

/-! #### small facts -/

theorem tagOf_mem {tags : Tags} {k v : String} (h : tagOf tags k = some v) : (k, v) ∈ tags := by
  induction tags with
  | nil => simp [tagOf] at h
  | cons kv rest ih =>
    obtain ⟨k₀, v₀⟩ := kv
    rw [tagOf_cons] at h
    split at h
    · next hk => simp only [Option.some.injEq] at h; subst hk; subst h; simp
    · exact List.mem_cons_of_mem _ (ih h)

theorem tagOf_of_mem {tags : Tags} (hd : (tags.map (·.1)).Nodup) {k v : String} (h : (k, v) ∈ tags) :
    tagOf tags k = some v := by
  induction tags with
  | nil => simp at h
  | cons kv rest ih =>
    obtain ⟨k₀, v₀⟩ := kv
    simp only [List.map_cons, List.nodup_cons] at hd
    rw [tagOf_cons]
    rcases List.mem_cons.mp h with h | h
    · simp only [Prod.mk.injEq] at h
      simp [h.1, h.2]
    · have hne : k₀ ≠ k := by
        rintro rfl
        exact hd.1 (List.mem_map.mpr ⟨(k₀, v), h, rfl⟩)
      simp only [hne, if_false]
      exact ih hd.2 h

theorem nodup_of_tagsOK {tags : Tags} (h : tagsOK tags = true) : (tags.map (·.1)).Nodup := by
  unfold tagsOK at h
  simp only [Bool.and_eq_true, decide_eq_true_eq] at h
  have hp := h.2
  exact List.Pairwise.imp (fun hlt heq => by rw [heq] at hlt; exact (String.lt_irrefl _) hlt) hp

theorem find_append_new (sf : SFile) (new : SeriesInfo) (id : Nat) (s : SeriesInfo)
    (h : sf.find id = some s) :
    ({ sf with known := sf.known ++ [new] } : SFile).find id = some s := by
  unfold SFile.find at h ⊢
  simp only [List.find?_append, h, Option.some_or]

theorem find_append_fresh (sf : SFile) (new : SeriesInfo) (h : sf.find new.id = none) (id : Nat) :
    ({ sf with known := sf.known ++ [new] } : SFile).find id =
      if id = new.id then some new else sf.find id := by
  unfold SFile.find at h ⊢
  simp only [List.find?_append]
  by_cases hid : id = new.id
  · subst hid
    simp [h]
  · cases hf : sf.known.find? (fun s => decide (s.id = id)) with
    | some s => simp [hid]
    | none =>
      have : ¬ new.id = id := fun e => hid e.symm
      simp [hid, this]

end Influx.Model.TSI
