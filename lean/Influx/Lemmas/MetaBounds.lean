/-
  Lemmas.MetaBounds — int64 wrap, `Truncate`, the clipping loop of `CreateShardGroup`.
-/
import Influx.Lemmas.MetaBasic

namespace Influx.Meta
open Influx.Generated.Meta

theorem wrap64_eq (x : Int) : wrap64 x =
    if x % 18446744073709551616 < 9223372036854775808 then x % 18446744073709551616
    else x % 18446744073709551616 - 18446744073709551616 := by
  unfold wrap64
  rw [BitVec.toInt_ofInt]
  have h : ((2 ^ 64 : Nat) : Int) = 18446744073709551616 := by decide
  simp only [Int.bmod, h]
  rfl

theorem wrap64_id (x : Int) (h1 : -9223372036854775808 ≤ x) (h2 : x ≤ 9223372036854775807) :
    wrap64 x = x := by
  rw [wrap64_eq]; split <;> omega

theorem wrap64_range (x : Int) : -9223372036854775808 ≤ wrap64 x ∧ wrap64 x ≤ 9223372036854775807 := by
  rw [wrap64_eq]; split <;> omega

theorem truncate_spec (t d : Int) (hd : 0 < d) :
    Time.Truncate t d ≤ t ∧ t < Time.Truncate t d + d := by
  unfold Time.Truncate
  have h1 := Int.emod_nonneg (t - zeroTime) (Int.ne_of_gt hd)
  have h2 := Int.emod_lt_of_pos (t - zeroTime) hd
  split <;> omega

/-- the bounds `CreateShardGroup` starts from contain the timestamp and lie in the int64 range -/
theorem initialBounds_spec (sgd ts : Int) (hd : 0 < sgd) (h1 : MinNanoTime ≤ ts) (h2 : ts ≤ MaxNanoTime) :
    (initialBounds sgd ts).1 ≤ ts ∧ ts < (initialBounds sgd ts).2 ∧
    MinNanoTime ≤ (initialBounds sgd ts).1 ∧ (initialBounds sgd ts).2 ≤ MaxNanoTime + 1 := by
  have ht := truncate_spec ts sgd hd
  simp only [initialBounds, add_eq, unix_eq, after_iff, before_iff]
  unfold MinNanoTime MaxNanoTime at *
  split <;> split <;> refine ⟨?_, ?_, ?_, ?_⟩ <;> omega

/-- one clipping step keeps the timestamp inside, only shrinks, and stays within given bounds -/
theorem clipStep_spec (ts : Int) (p : Int × Int) (g : ShardGroupInfo) (h : p.1 ≤ ts ∧ ts < p.2) :
    (clipStep ts p g).1 ≤ ts ∧ ts < (clipStep ts p g).2 ∧ p.1 ≤ (clipStep ts p g).1 ∧ (clipStep ts p g).2 ≤ p.2 := by
  unfold clipStep
  split
  · omega
  · simp only [Bool.and_eq_true, Bool.not_eq_true', before_false_iff, after_iff, before_iff]
    split <;> split <;> split <;> refine ⟨?_, ?_, ?_, ?_⟩ <;> omega

/-- after clipping against a live, untruncated group that does not contain the timestamp, the
    bounds are disjoint from it -/
theorem clipStep_disjoint (ts : Int) (p : Int × Int) (g : ShardGroupInfo)
    (hlive : g.DeletedAt = zeroTime) (htr : g.TruncatedAt = zeroTime)
    (hnot : ¬(g.StartTime ≤ ts ∧ ts < g.EndTime)) :
    (clipStep ts p g).2 ≤ g.StartTime ∨ g.EndTime ≤ (clipStep ts p g).1 := by
  unfold clipStep
  have hd : Deleted g = false := (deleted_false_iff g).mpr hlive
  have ht : Truncated g = false := (truncated_false_iff g).mpr htr
  simp only [hd, ht, Bool.false_eq_true, ↓reduceIte, Bool.and_eq_true, Bool.not_eq_true',
    before_false_iff, after_iff, before_iff]
  split <;> split <;> omega

theorem foldl_clip_spec (ts : Int) (gs : List ShardGroupInfo) (p : Int × Int) (h : p.1 ≤ ts ∧ ts < p.2) :
    (gs.foldl (clipStep ts) p).1 ≤ ts ∧ ts < (gs.foldl (clipStep ts) p).2 ∧
    p.1 ≤ (gs.foldl (clipStep ts) p).1 ∧ (gs.foldl (clipStep ts) p).2 ≤ p.2 := by
  induction gs generalizing p with
  | nil => simp; omega
  | cons g gs ih =>
    simp only [List.foldl_cons]
    have h1 := clipStep_spec ts p g h
    have h2 := ih (clipStep ts p g) ⟨h1.1, h1.2.1⟩
    omega

theorem foldl_clip_disjoint (ts : Int) (gs : List ShardGroupInfo) (p : Int × Int) (h : p.1 ≤ ts ∧ ts < p.2)
    (g : ShardGroupInfo) (hg : g ∈ gs) (hlive : g.DeletedAt = zeroTime) (htr : g.TruncatedAt = zeroTime)
    (hnot : ¬(g.StartTime ≤ ts ∧ ts < g.EndTime)) :
    (gs.foldl (clipStep ts) p).2 ≤ g.StartTime ∨ g.EndTime ≤ (gs.foldl (clipStep ts) p).1 := by
  induction gs generalizing p with
  | nil => simp at hg
  | cons x xs ih =>
    simp only [List.foldl_cons]
    have h1 := clipStep_spec ts p x h
    rcases List.mem_cons.mp hg with rfl | hg
    · have hd := clipStep_disjoint ts p g hlive htr hnot
      have h2 := foldl_clip_spec ts xs (clipStep ts p g) ⟨h1.1, h1.2.1⟩
      omega
    · exact ih (clipStep ts p x) ⟨h1.1, h1.2.1⟩ hg

/-- **the new group contains its timestamp** and lies within the int64 nanosecond range -/
theorem newBounds_spec (r : RetentionPolicyInfo) (ts : Int) (hd : 0 < r.ShardGroupDuration)
    (h1 : MinNanoTime ≤ ts) (h2 : ts ≤ MaxNanoTime) :
    (newBounds r ts).1 ≤ ts ∧ ts < (newBounds r ts).2 ∧
    MinNanoTime ≤ (newBounds r ts).1 ∧ (newBounds r ts).2 ≤ MaxNanoTime + 1 := by
  have hi := initialBounds_spec r.ShardGroupDuration ts hd h1 h2
  have hf := foldl_clip_spec ts r.ShardGroups (initialBounds r.ShardGroupDuration ts) ⟨hi.1, hi.2.1⟩
  unfold newBounds
  omega

/-- **the new group overlaps no live group** (none of which contains the timestamp) -/
theorem newBounds_disjoint (r : RetentionPolicyInfo) (ts : Int) (hd : 0 < r.ShardGroupDuration)
    (h1 : MinNanoTime ≤ ts) (h2 : ts ≤ MaxNanoTime)
    (g : ShardGroupInfo) (hg : g ∈ r.ShardGroups) (hlive : g.DeletedAt = zeroTime) (htr : g.TruncatedAt = zeroTime)
    (hnot : ¬(g.StartTime ≤ ts ∧ ts < g.EndTime)) :
    (newBounds r ts).2 ≤ g.StartTime ∨ g.EndTime ≤ (newBounds r ts).1 := by
  have hi := initialBounds_spec r.ShardGroupDuration ts hd h1 h2
  exact foldl_clip_disjoint ts r.ShardGroups _ ⟨hi.1, hi.2.1⟩ g hg hlive htr hnot

end Influx.Meta
