/-
  Lemmas.DelPredMatch — `Matches` on the key of a series in the domain `KeyOK`
  equals the reference evaluation `Spec.C16.evalPred`.
-/
import Influx.Lemmas.DelPredLoop
import Influx.Spec.C16

namespace Influx.Model.DelPred
open Influx.Spec.C16 (evalPred keyValue SeriesWF PredWF Tags)

/-! ### the loop over the tag part of a key -/

def PairsOK (ts : Tags) : Prop :=
  ∀ k v, (k, v) ∈ ts → v ≠ [] → noTrailBs k = true ∧ noTrailBs v = true

theorem matchLoop_nil (esc : Bool) (fuel : Nat) (m : Matcher) : matchLoop esc fuel m [] = some (false, m) := by
  cases fuel <;> simp [matchLoop]

def nonEmptyTags (ts : Tags) : Tags := ts.filter fun t => t.2 ≠ []

theorem matchLoop_pairs (em : Bool) (ts : Tags) (hok : PairsOK ts) (fuel : Nat) (m : Matcher)
    (hfuel : ((appendHashKey ts).tail).length ≤ fuel)
    (hesc : em = false → 92 ∉ (appendHashKey ts).tail) :
    matchLoop em fuel m (appendHashKey ts).tail = feed m (nonEmptyTags ts) := by
  induction ts generalizing fuel m with
  | nil => simp [appendHashKey, matchLoop_nil, nonEmptyTags, feed]
  | cons t ts ih =>
    obtain ⟨k, v⟩ := t
    have hok' : PairsOK ts := fun k' v' hm hv => hok k' v' (List.mem_cons_of_mem _ hm) hv
    by_cases hv : v = []
    · have h1 : appendHashKey ((k, v) :: ts) = appendHashKey ts := by simp [appendHashKey, hv]
      have h2 : nonEmptyTags ((k, v) :: ts) = nonEmptyTags ts := by simp [nonEmptyTags, hv]
      rw [h1] at hfuel hesc ⊢
      rw [h2]
      exact ih hok' fuel m hfuel hesc
    · obtain ⟨hnk, hnv⟩ := hok k v List.mem_cons_self hv
      have h1 : (appendHashKey ((k, v) :: ts)).tail =
          esc tagSpecial k ++ 61 :: (esc tagSpecial v ++ appendHashKey ts) := by
        simp [appendHashKey, hv, escapeTag_eq]
      have h2 : nonEmptyTags ((k, v) :: ts) = (k, v) :: nonEmptyTags ts := by simp [nonEmptyTags, hv]
      rw [h1] at hfuel hesc ⊢
      rw [h2]
      have hT := tailOK_appendHashKey ts
      -- what the popping routine in force returns
      have hp : (if em = true then popTagEscape (esc tagSpecial k ++ 61 :: (esc tagSpecial v ++ appendHashKey ts))
                 else popTag (esc tagSpecial k ++ 61 :: (esc tagSpecial v ++ appendHashKey ts))) =
          (some k, some v, (appendHashKey ts).tail) := by
        cases em with
        | true => simp [popTagEscape_pair k v _ hnk hnv hT]
        | false =>
          simp only [Bool.false_eq_true, if_false]
          rw [popTag_eq_escape _ (hesc rfl), popTagEscape_pair k v _ hnk hnv hT]
      have hlen : ((appendHashKey ts).tail).length + 1 ≤
          (esc tagSpecial k ++ 61 :: (esc tagSpecial v ++ appendHashKey ts)).length := by
        simp only [List.length_append, List.length_cons, List.length_tail]; omega
      have hesc' : em = false → 92 ∉ (appendHashKey ts).tail := by
        intro he hm
        apply hesc he
        have := List.mem_of_mem_tail hm
        simp [this]
      cases fuel with
      | zero => omega
      | succ f =>
        have hf : ((appendHashKey ts).tail).length ≤ f := by omega
        have hne : (esc tagSpecial k ++ 61 :: (esc tagSpecial v ++ appendHashKey ts)) ≠ [] := by simp
        rw [matchLoop]
        simp only [hne, if_false, hp]
        cases hi : m.locs.idxOf? k with
        | none =>
          rw [feed_cons_none hi]
          exact ih hok' f m hf hesc'
        | some i =>
          rw [feed_cons_some hi]
          simp only
          cases hu : update m.gen (m.values.set i (some v)) m.root with
          | none => rfl
          | some r =>
            obtain ⟨resp, root'⟩ := r
            cases resp with
            | true_ => rfl
            | false_ => rfl
            | needMore => exact ih hok' f _ hf hesc'

/-! ### compiling a predicate -/

/-- what `buildPredicateNode` makes of `ToDataType p` over the slot table `L` -/
def skel (L : List Bytes) : Pred → Option PNode
  | .rule k neq v => (L.idxOf? (specialKey k)).map fun i => .cmp newCache neq (.ref i) (.lit v)
  | .and l r =>
    match skel L l, skel L r with
    | some a, some b => some (.and newCache a b)
    | _, _ => none
  | .or l r =>
    match skel L l, skel L r with
    | some a, some b => some (.or newCache a b)
    | _, _ => none

theorem buildNode_toDataType (L : List Bytes) (p : Pred) : buildNode L (toDataType p) = skel L p := by
  induction p with
  | rule k neq v =>
    simp only [toDataType, buildNode, buildOperand, skel]
    cases L.idxOf? (specialKey k) <;> rfl
  | and l r ihl ihr =>
    simp only [toDataType, buildNode, skel, ihl, ihr]
    cases skel L l <;> cases skel L r <;> simp
  | or l r ihl ihr =>
    simp only [toDataType, buildNode, skel, ihl, ihr]
    cases skel L l <;> cases skel L r <;> simp

/-- the keys a predicate refers to, as compiled -/
def predKeys : Pred → List Bytes
  | .rule k _ _ => [specialKey k]
  | .and l r => predKeys l ++ predKeys r
  | .or l r => predKeys l ++ predKeys r

theorem collectRefs_acc (d : DNode) (acc : List Bytes) : ∀ x, x ∈ acc → x ∈ collectRefs d acc := by
  induction d generalizing acc with
  | tagRef k =>
    intro x hx; simp only [collectRefs]; split
    · exact hx
    · exact List.mem_append_left _ hx
  | strLit v => intro x hx; exact hx
  | cmp neq l r ihl ihr => intro x hx; exact ihr _ x (ihl _ x hx)
  | logical o l r ihl ihr => intro x hx; exact ihr _ x (ihl _ x hx)

theorem collectRefs_keys (p : Pred) (acc : List Bytes) :
    ∀ x, x ∈ predKeys p → x ∈ collectRefs (toDataType p) acc := by
  induction p generalizing acc with
  | rule k neq v =>
    intro x hx
    simp only [predKeys, List.mem_singleton] at hx
    subst hx
    simp only [toDataType, collectRefs]
    split
    · next h => simpa using h
    · simp
  | and l r ihl ihr =>
    intro x hx
    simp only [predKeys, List.mem_append] at hx
    simp only [toDataType, collectRefs]
    rcases hx with hx | hx
    · exact collectRefs_acc _ _ x (ihl acc x hx)
    · exact ihr _ x hx
  | or l r ihl ihr =>
    intro x hx
    simp only [predKeys, List.mem_append] at hx
    simp only [toDataType, collectRefs]
    rcases hx with hx | hx
    · exact collectRefs_acc _ _ x (ihl acc x hx)
    · exact ihr _ x hx

theorem skel_isSome (L : List Bytes) (p : Pred) (h : ∀ x, x ∈ predKeys p → x ∈ L) :
    ∃ n, skel L p = some n := by
  induction p with
  | rule k neq v =>
    obtain ⟨i, hi⟩ := idxOf?_isSome_of_mem (h (specialKey k) (by simp [predKeys]))
    exact ⟨.cmp newCache neq (.ref i) (.lit v), by simp [skel, hi]⟩
  | and l r ihl ihr =>
    obtain ⟨a, ha⟩ := ihl (fun x hx => h x (by simp [predKeys, hx]))
    obtain ⟨b, hb⟩ := ihr (fun x hx => h x (by simp [predKeys, hx]))
    exact ⟨.and newCache a b, by simp [skel, ha, hb]⟩
  | or l r ihl ihr =>
    obtain ⟨a, ha⟩ := ihl (fun x hx => h x (by simp [predKeys, hx]))
    obtain ⟨b, hb⟩ := ihr (fun x hx => h x (by simp [predKeys, hx]))
    exact ⟨.or newCache a b, by simp [skel, ha, hb]⟩

theorem skel_and {L l r n} (h : skel L (.and l r) = some n) :
    ∃ a b, skel L l = some a ∧ skel L r = some b ∧ n = .and newCache a b := by
  simp only [skel] at h
  cases ha : skel L l with
  | none => simp [ha] at h
  | some a =>
    cases hb : skel L r with
    | none => simp [ha, hb] at h
    | some b => simp [ha, hb] at h; exact ⟨a, b, rfl, rfl, h.symm⟩

theorem skel_or {L l r n} (h : skel L (.or l r) = some n) :
    ∃ a b, skel L l = some a ∧ skel L r = some b ∧ n = .or newCache a b := by
  simp only [skel] at h
  cases ha : skel L l with
  | none => simp [ha] at h
  | some a =>
    cases hb : skel L r with
    | none => simp [ha, hb] at h
    | some b => simp [ha, hb] at h; exact ⟨a, b, rfl, rfl, h.symm⟩

theorem skel_rule {L k neq v n} (h : skel L (.rule k neq v) = some n) :
    ∃ i, L.idxOf? (specialKey k) = some i ∧ n = .cmp newCache neq (.ref i) (.lit v) := by
  simp only [skel, Option.map_eq_some_iff] at h
  obtain ⟨i, hi, rfl⟩ := h
  exact ⟨i, hi, rfl⟩

theorem skel_props (L : List Bytes) (p : Pred) (n : PNode) (h : skel L p = some n) :
    strip n = n ∧ WFn L.length n ∧ (∀ g, GenLE g n) := by
  induction p generalizing n with
  | rule k neq v =>
    obtain ⟨i, hi, rfl⟩ := skel_rule h
    exact ⟨rfl, ⟨idxOf?_lt hi, trivial⟩, fun g => genLE_cmp.2 (Nat.zero_le g)⟩
  | and l r ihl ihr =>
    obtain ⟨a, b, ha, hb, rfl⟩ := skel_and h
    obtain ⟨a1, a2, a3⟩ := ihl a ha
    obtain ⟨b1, b2, b3⟩ := ihr b hb
    exact ⟨by simp [strip, a1, b1], ⟨a2, b2⟩, fun g => genLE_and.2 ⟨Nat.zero_le g, a3 g, b3 g⟩⟩
  | or l r ihl ihr =>
    obtain ⟨a, b, ha, hb, rfl⟩ := skel_or h
    obtain ⟨a1, a2, a3⟩ := ihl a ha
    obtain ⟨b1, b2, b3⟩ := ihr b hb
    exact ⟨by simp [strip, a1, b1], ⟨a2, b2⟩, fun g => genLE_or.2 ⟨Nat.zero_le g, a3 g, b3 g⟩⟩

/-! ### all slots empty -/

theorem slot_replicate (n i : Nat) : slot (List.replicate n none) i = none := by
  simp only [slot]
  cases h : (List.replicate n (none : Option Bytes))[i]? with
  | none => rfl
  | some x =>
    have := List.getElem?_eq_some_iff.1 h
    obtain ⟨_, hx⟩ := this
    simp at hx; subst hx; rfl

theorem set_replicate_none (n i : Nat) :
    (List.replicate n (none : Option Bytes)).set i none = List.replicate n none := by
  induction n generalizing i with
  | zero => simp
  | succ n ih =>
    cases i with
    | zero => simp [List.replicate_succ]
    | succ i => simp [List.replicate_succ, ih]

theorem eval3_allNone (L : List Bytes) (p : Pred) (n : PNode) (h : skel L p = some n) (k : Nat) :
    eval3 (List.replicate k none) n = .needMore := by
  induction p generalizing n with
  | rule key neq v =>
    obtain ⟨i, hi, rfl⟩ := skel_rule h
    simp [eval3, opVal, slot_replicate]
  | and l r ihl ihr =>
    obtain ⟨a, b, ha, hb, rfl⟩ := skel_and h
    simp [eval3, ihl a ha]
  | or l r ihl ihr =>
    obtain ⟨a, b, ha, hb, rfl⟩ := skel_or h
    simp [eval3, ihl a ha, ihr b hb]

/-! ### the final slots are the series -/

theorem slot_finalVals (L : List Bytes) (ps : Tags) (vals : List (Option Bytes)) (k : Bytes) (i : Nat)
    (hlen : vals.length = L.length) (hnd : (ps.map (·.1)).Nodup) (hi : L.idxOf? k = some i) :
    slot (finalVals L vals ps) i =
      match ps.find? (fun t => t.1 = k) with
      | some t => some t.2
      | none => slot vals i := by
  induction ps generalizing vals with
  | nil => rfl
  | cons t ps ih =>
    obtain ⟨k', v'⟩ := t
    have hnd' := (List.nodup_cons.1 hnd).2
    cases hj : L.idxOf? k' with
    | none =>
      rw [finalVals_cons_none hj]
      have hne : k' ≠ k := by intro e; rw [e, hi] at hj; cases hj
      rw [ih vals hlen hnd']
      simp [List.find?_cons, hne]
    | some j =>
      rw [finalVals_cons_some hj]
      rw [ih (vals.set j (some v')) (by simpa using hlen) hnd']
      by_cases hkk : k' = k
      · subst hkk
        have hij : j = i := by rw [hi] at hj; exact (Option.some.inj hj).symm
        subst hij
        have hnot : ps.find? (fun t => t.1 = k') = none := by
          rw [List.find?_eq_none]
          intro t ht
          have hk'nin := (List.nodup_cons.1 hnd).1
          simp only [decide_eq_true_eq]
          intro e
          apply hk'nin
          exact List.mem_map.2 ⟨t, ht, e⟩
        have hjlt : j < vals.length := by rw [hlen]; exact idxOf?_lt hi
        simp [hnot, List.find?_cons, slot_set_eq _ _ _ hjlt]
      · have hij : j ≠ i := fun e => hkk (idxOf?_inj hj (e ▸ hi))
        simp [List.find?_cons, hkk, slot_set_ne _ _ _ _ hij]

/-- the pairs `Matches` sees on the key of a series -/
def seriesPairs (name : Bytes) (tags : Tags) : Tags := ([0], name) :: tags

theorem find_seriesPairs (name : Bytes) (tags : Tags) (k : Bytes) (hname : name ≠ [])
    (hk0 : k ≠ [0]) (hkf : k ≠ fieldKey) :
    ((nonEmptyTags (seriesPairs name tags)).find? (fun t => t.1 = specialKey k)).map (·.2) =
      keyValue name tags k := by
  have hne : nonEmptyTags (seriesPairs name tags) = ([0], name) :: nonEmptyTags tags := by
    simp [nonEmptyTags, seriesPairs, hname]
  rw [hne]
  unfold keyValue specialKey
  by_cases hm : k = measurementKey
  · simp [hm, List.find?_cons]
  · simp only [hm, hkf, if_false]
    have : ¬ ([0] = k) := fun e => hk0 e.symm
    simp only [List.find?_cons, this, decide_false]
    simp only [nonEmptyTags, List.find?_filter]
    congr 2
    funext t
    simp [Bool.and_comm]

theorem eval3_final (L : List Bytes) (p : Pred) (n : PNode) (h : skel L p = some n)
    (name : Bytes) (tags : Tags) (hp : PredWF p = true) (hname : name ≠ [])
    (vals : List (Option Bytes))
    (hslot : ∀ k i, L.idxOf? k = some i →
      slot vals i = ((nonEmptyTags (seriesPairs name tags)).find? (fun t => t.1 = k)).map (·.2)) :
    (eval3 vals n = .true_) ↔ evalPred name tags p = true := by
  induction p generalizing n with
  | rule k neq v =>
    obtain ⟨i, hi, rfl⟩ := skel_rule h
    simp only [PredWF, Bool.and_eq_true, decide_eq_true_eq] at hp
    have := hslot _ i hi
    rw [find_seriesPairs name tags k hname hp.1 hp.2] at this
    simp only [eval3, opVal, this, evalPred]
    cases keyValue name tags k with
    | none => simp
    | some x =>
      simp only [evalCmp, respOfBool]
      cases neq <;> by_cases hxv : x = v <;> simp [hxv]
  | and l r ihl ihr =>
    obtain ⟨a, b, ha, hb, rfl⟩ := skel_and h
    simp only [PredWF, Bool.and_eq_true] at hp
    have h1 := ihl a ha hp.1
    have h2 := ihr b hb hp.2
    simp only [eval3, evalPred, Bool.and_eq_true, ← h1, ← h2]
    cases eval3 vals a <;> simp
  | or l r ihl ihr =>
    obtain ⟨a, b, ha, hb, rfl⟩ := skel_or h
    simp only [PredWF, Bool.and_eq_true] at hp
    have h1 := ihl a ha hp.1
    have h2 := ihr b hb hp.2
    simp only [eval3, evalPred, Bool.or_eq_true, ← h1, ← h2]
    cases eval3 vals a <;> cases eval3 vals b <;> simp

end Influx.Model.DelPred

namespace Influx.Model.DelPred
open Influx.Spec.C16 (evalPred keyValue SeriesWF PredWF Tags)

/-! ### `Matches` = feeding the pairs of the series -/

theorem seriesKey_eq (name : Bytes) (tags : Tags) :
    seriesKey name tags =
      esc measSpecial (unescapeMeasurement name) ++ appendHashKey (seriesPairs name tags) := by
  simp [seriesKey, makeKey, escapeMeasurement_eq, seriesPairs]

theorem matches_eq_feed (m : Matcher) (full name : Bytes) (tags : Tags)
    (hcut : cutFieldSep full = seriesKey name tags)
    (hname : name ≠ []) (hnt : noTrailBs name = true) (h61 : 61 ∉ name) (hok : PairsOK tags)
    (hwf : WFn m.values.length m.root) (hg : GenLE m.gen m.root)
    (hnm : eval3 (List.replicate m.values.length none) m.root = .needMore) :
    ∃ m2, m.matches full = feed m2 (nonEmptyTags (seriesPairs name tags)) ∧
      m2.gen = m.gen + 1 ∧ m2.locs = m.locs ∧ m2.values = List.replicate m.values.length none ∧
      strip m2.root = strip m.root ∧ CacheOK m2.gen m2.values m2.root ∧ GenLE m2.gen m2.root := by
  have hu : noTrailBs (unescapeMeasurement name) = true := by rw [noTrailBs_unescapeMeasurement]; exact hnt
  have hu61 : 61 ∉ unescapeMeasurement name := not_mem_unescapeMeasurement h61
  have hokP : PairsOK (seriesPairs name tags) := by
    intro k v hm hv
    rcases List.mem_cons.1 hm with h | h
    · cases h; exact ⟨rfl, hnt⟩
    · exact hok k v h hv
  have hT := tailOK_appendHashKey (seriesPairs name tags)
  -- the tag part starts with a comma (the name is not empty)
  obtain ⟨T', hT'⟩ : ∃ T', appendHashKey (seriesPairs name tags) = 44 :: T' := by
    simp [seriesPairs, appendHashKey, hname]
  have hreset : m.reset.values = List.replicate m.values.length none := by
    simp [Matcher.reset, List.map_const']
  have hcacheR : CacheOK (m.gen + 1) (List.replicate m.values.length none) m.root :=
    cacheOK_of_genLE _ _ hg
  have hgR : GenLE (m.gen + 1) m.root := genLE_mono (Nat.le_succ _) _ hg
  unfold Matcher.matches
  simp only [hcut]
  rw [seriesKey_eq]
  generalize hkey : esc measSpecial (unescapeMeasurement name) ++ appendHashKey (seriesPairs name tags) = key0
  have hne : key0 ≠ [] := by rw [← hkey, hT']; simp
  obtain ⟨f, hf⟩ : ∃ f, key0.length = f + 1 := by
    cases key0 with
    | nil => exact absurd rfl hne
    | cons a l => exact ⟨l.length, rfl⟩
  have hfuel : ((appendHashKey (seriesPairs name tags)).tail).length ≤ f := by
    have : key0.length = (esc measSpecial (unescapeMeasurement name)).length + (T'.length + 1) := by
      rw [← hkey, hT']; simp
    rw [hT']; simp only [List.tail_cons]; omega
  rw [hf, matchLoop]
  simp only [hne, if_false]
  cases hem : key0.contains 92 with
  | true =>
    simp only [if_true]
    rw [← hkey, popTagEscape_name _ _ hu hu61 hT]
    simp only
    rw [matchLoop_pairs true _ hokP f m.reset hfuel (by intro h; cases h)]
    exact ⟨m.reset, rfl, rfl, rfl, hreset, rfl, by rw [hreset]; exact hcacheR, hgR⟩
  | false =>
    simp only [Bool.false_eq_true, if_false]
    have h92 : 92 ∉ key0 := by simpa using hem
    have h92T : 92 ∉ (appendHashKey (seriesPairs name tags)).tail := by
      intro hm
      apply h92
      rw [← hkey]
      exact List.mem_append_right _ (List.mem_of_mem_tail hm)
    rw [popTag_eq_escape key0 h92]
    rw [← hkey, popTagEscape_name _ _ hu hu61 hT, hkey]
    simp only
    cases hi : m.reset.locs.idxOf? (cut 44 key0).1 with
    | none =>
      simp only
      rw [matchLoop_pairs false _ hokP f m.reset hfuel (fun _ => h92T)]
      exact ⟨m.reset, rfl, rfl, rfl, hreset, rfl, by rw [hreset]; exact hcacheR, hgR⟩
    | some i =>
      simp only
      have hset : m.reset.values.set i none = List.replicate m.values.length none := by
        rw [hreset, set_replicate_none]
      rw [hset]
      have hwfR : WFn (List.replicate m.values.length (none : Option Bytes)).length m.root := by
        simpa using hwf
      obtain ⟨root', hup, hs, hc', hg'⟩ :=
        update_spec (m.gen + 1) (List.replicate m.values.length none) m.root hwfR hcacheR hgR
      have hgen : m.reset.gen = m.gen + 1 := rfl
      have hroot : m.reset.root = m.root := rfl
      rw [hgen, hroot, hup, hnm]
      simp only
      rw [matchLoop_pairs false _ hokP f _ hfuel (fun _ => h92T)]
      exact ⟨_, rfl, rfl, rfl, rfl, hs, hc', hg'⟩

/-- invariant of a matcher compiled from `p`, kept by every `Matches` call -/
structure MInv (p : Pred) (m : Matcher) : Prop where
  locs : m.locs = collectRefs (toDataType p) []
  len : m.values.length = m.locs.length
  shape : skel m.locs p = some (strip m.root)
  gens : GenLE m.gen m.root

theorem newMatcher_spec (p : Pred) : ∃ m, newMatcher (toDataType p) = some m ∧ MInv p m := by
  obtain ⟨n, hn⟩ := skel_isSome (collectRefs (toDataType p) []) p (collectRefs_keys p [])
  obtain ⟨h1, _, h3⟩ := skel_props _ p n hn
  refine ⟨{ gen := 1, locs := collectRefs (toDataType p) [], values := (collectRefs (toDataType p) []).map (fun _ => none), root := n }, ?_, ⟨rfl, by simp, by rw [h1]; exact hn, h3 1⟩⟩
  simp [newMatcher, buildNode_toDataType, hn]

/-- the part of the theorem's domain that concerns the tags -/
def tagsOK (tags : Tags) : Bool :=
  tags.all fun t => t.2 == [] || (noTrailBs t.1 && noTrailBs t.2)

theorem pairsOK_of_tagsOK {tags : Tags} (h : tagsOK tags = true) : PairsOK tags := by
  intro k v hm hv
  have := List.all_eq_true.1 h (k, v) hm
  simpa [hv] using this

/-- **`Matches` on a well-formed series inside the domain is the reference evaluation.** -/
theorem matches_spec (p : Pred) (m : Matcher) (hinv : MInv p m) (full name : Bytes) (tags : Tags)
    (hcut : cutFieldSep full = seriesKey name tags)
    (hp : PredWF p = true) (hs : SeriesWF name tags = true)
    (hnt : noTrailBs name = true) (h61 : 61 ∉ name) (htags : tagsOK tags = true) :
    ∃ m', m.matches full = some (evalPred name tags p, m') ∧ MInv p m' := by
  obtain ⟨hlocs, hlen, hshape, hgens⟩ := hinv
  simp only [SeriesWF, Bool.and_eq_true, decide_eq_true_eq] at hs
  obtain ⟨⟨hname, hnd⟩, hk0⟩ := hs
  obtain ⟨hst, hwfS, _⟩ := skel_props _ p _ hshape
  have hwf : WFn m.values.length m.root := by
    rw [hlen]; exact (WFn_strip _ _).1 hwfS
  have hnm : eval3 (List.replicate m.values.length none) m.root = .needMore := by
    rw [← eval3_strip]; exact eval3_allNone _ p _ hshape _
  obtain ⟨m2, hfeed, hg2, hl2, hv2, hs2, hc2, hgl2⟩ :=
    matches_eq_feed m full name tags hcut hname hnt h61 (pairsOK_of_tagsOK htags) hwf hgens hnm
  -- pending pairs: distinct keys, all slots empty
  have hndP : ((nonEmptyTags (seriesPairs name tags)).map (·.1)).Nodup := by
    have hsub : ((nonEmptyTags (seriesPairs name tags)).map (·.1)).Sublist ((seriesPairs name tags).map (·.1)) :=
      List.Sublist.map _ List.filter_sublist
    refine hsub.nodup ?_
    simp only [seriesPairs, List.map_cons, List.nodup_cons]
    refine ⟨?_, hnd⟩
    intro hm
    obtain ⟨t, ht, hte⟩ := List.mem_map.1 hm
    have := List.all_eq_true.1 hk0 t ht
    simp only [decide_eq_true_eq] at this
    exact this hte
  have hpend : Pending m2.locs m2.values (nonEmptyTags (seriesPairs name tags)) :=
    ⟨hndP, fun k v i _ _ => by rw [hv2]; exact slot_replicate _ _⟩
  have hlen2 : m2.values.length = m2.locs.length := by rw [hv2, hl2]; simpa using hlen
  have hwf2 : WFn m2.values.length m2.root := by
    rw [hv2]; simp only [List.length_replicate]; exact (WFn_congr hs2 _).2 hwf
  have hnm2 : eval3 m2.values m2.root = .needMore := by
    rw [hv2, eval3_congr hs2]; exact hnm
  obtain ⟨m', hf, h1, h2, h3, h4, h5⟩ := feed_spec m2 _ hlen2 hwf2 hc2 hgl2 hnm2 hpend
  refine ⟨m', ?_, ⟨by rw [h2, hl2]; exact hlocs, by rw [h3, hlen2, h2], ?_, by rw [h1]; exact h5⟩⟩
  · rw [hfeed, hf]
    congr 2
    -- the final slots are the series
    have hslot : ∀ k i, m2.locs.idxOf? k = some i →
        slot (finalVals m2.locs m2.values (nonEmptyTags (seriesPairs name tags))) i =
          ((nonEmptyTags (seriesPairs name tags)).find? (fun t => t.1 = k)).map (·.2) := by
      intro k i hi
      rw [slot_finalVals _ _ _ k i hlen2 hndP hi, hv2, slot_replicate]
      cases (nonEmptyTags (seriesPairs name tags)).find? (fun t => decide (t.1 = k)) <;> rfl
    have hsk : skel m2.locs p = some (strip m2.root) := by rw [hl2, hs2]; exact hshape
    have := eval3_final m2.locs p _ hsk name tags hp hname _ hslot
    rw [eval3_strip] at this
    cases hev : evalPred name tags p with
    | true => simpa using this.2 hev
    | false =>
      have : ¬ eval3 (finalVals m2.locs m2.values (nonEmptyTags (seriesPairs name tags))) m2.root = .true_ := by
        intro h; rw [this.1 h] at hev; cases hev
      simpa using this
  · rw [h2, hl2, h4, hs2]; exact hshape

end Influx.Model.DelPred
