/-
  Lemmas.FieldStore — association-list facts about the abstract engine content
  (`Store`, `upsert`, `engineWrite`) used by C40 and C10.
-/
import Influx.Model.FieldSchema

namespace Influx.Fields

variable {α β : Type} [BEq α] [LawfulBEq α]

theorem lookup_cons_eq (l : List (α × β)) (k : α) (v : β) : ((k, v) :: l).lookup k = some v := by
  simp [List.lookup_cons]

theorem lookup_cons_ne (l : List (α × β)) (k a : α) (v : β) (h : k ≠ a) :
    ((a, v) :: l).lookup k = l.lookup k := by
  have h2 : (k == a) = false := by simpa using h
  simp [List.lookup_cons, h2]

theorem lookup_filter_ne (l : List (α × β)) (k k' : α) (h : k ≠ k') :
    (l.filter (fun x => x.1 != k')).lookup k = l.lookup k := by
  induction l with
  | nil => rfl
  | cons a l ih =>
    obtain ⟨a1, a2⟩ := a
    rw [List.filter_cons]
    by_cases h1 : a1 = k'
    · subst h1
      simp [lookup_cons_ne _ _ _ _ h, ih]
    · have h3 : (a1 != k') = true := by simpa using h1
      simp only [h3, if_true]
      by_cases h4 : k = a1
      · subst h4; simp [lookup_cons_eq]
      · simp [lookup_cons_ne _ _ _ _ h4, ih]

/-- reading after `upsert` -/
theorem lookup_upsert (d : Store) (e : EKey × Val) (k : EKey) :
    (upsert d e).lookup k = if k = e.1 then some e.2 else d.lookup k := by
  unfold upsert
  obtain ⟨e1, e2⟩ := e
  by_cases h : k = e1
  · subst h; simp [lookup_cons_eq]
  · simp only [h, if_false]
    rw [lookup_cons_ne _ _ _ _ h, lookup_filter_ne d k e1 h]

theorem mem_lookup_of_nodup (l : List (α × β)) (hn : (l.map (·.1)).Nodup) (e : α × β) (he : e ∈ l) :
    l.lookup e.1 = some e.2 := by
  induction l with
  | nil => cases he
  | cons a l ih =>
    obtain ⟨a1, a2⟩ := a
    simp only [List.map_cons, List.nodup_cons] at hn
    rcases List.mem_cons.1 he with rfl | h
    · exact lookup_cons_eq _ _ _
    · have hne : e.1 ≠ a1 := by
        intro hh; apply hn.1; rw [← hh]; exact List.mem_map_of_mem (f := (·.1)) h
      rw [lookup_cons_ne _ _ _ _ hne]; exact ih hn.2 h

theorem lookup_none_of_not_mem (l : List (α × β)) (k : α) (h : k ∉ l.map (·.1)) : l.lookup k = none := by
  induction l with
  | nil => rfl
  | cons a l ih =>
    obtain ⟨a1, a2⟩ := a
    simp only [List.map_cons, List.mem_cons, not_or] at h
    rw [lookup_cons_ne _ _ _ _ h.1]; exact ih h.2

theorem mem_of_lookup (l : List (α × β)) (k : α) (v : β) (h : l.lookup k = some v) : (k, v) ∈ l := by
  induction l with
  | nil => cases h
  | cons a l ih =>
    obtain ⟨a1, a2⟩ := a
    by_cases h1 : k = a1
    · subst h1
      rw [lookup_cons_eq] at h
      cases h; exact List.mem_cons_self
    · rw [lookup_cons_ne _ _ _ _ h1] at h
      exact List.mem_cons_of_mem _ (ih h)

omit [BEq α] [LawfulBEq α] in
theorem nodup_keys_filter (l : List (α × β)) (p : α × β → Bool) (hn : (l.map (·.1)).Nodup) :
    ((l.filter p).map (·.1)).Nodup :=
  List.Nodup.sublist (List.Sublist.map _ List.filter_sublist) hn

/-- `upsert` keeps the keys pairwise different -/
theorem nodup_upsert (d : Store) (e : EKey × Val) (hn : (d.map (·.1)).Nodup) :
    ((upsert d e).map (·.1)).Nodup := by
  unfold upsert
  simp only [List.map_cons, List.nodup_cons]
  refine ⟨?_, nodup_keys_filter d _ hn⟩
  intro hm
  obtain ⟨x, hx, hxe⟩ := List.mem_map.1 hm
  have := (List.mem_filter.1 hx).2
  simp [hxe] at this

theorem nodup_foldl_upsert (es : List (EKey × Val)) (d : Store) (hn : (d.map (·.1)).Nodup) :
    ((es.foldl upsert d).map (·.1)).Nodup := by
  induction es generalizing d with
  | nil => exact hn
  | cons e es ih => exact ih _ (nodup_upsert d e hn)

/-- reading after a sequence of upserts whose keys are pairwise different -/
theorem lookup_foldl_upsert (es : List (EKey × Val)) (d : Store) (k : EKey)
    (hn : (es.map (·.1)).Nodup) :
    (es.foldl upsert d).lookup k = (es.lookup k).or (d.lookup k) := by
  induction es generalizing d with
  | nil => simp
  | cons e es ih =>
    simp only [List.map_cons, List.nodup_cons] at hn
    simp only [List.foldl_cons]
    rw [ih _ hn.2, lookup_upsert]
    obtain ⟨e1, e2⟩ := e
    by_cases h : k = e1
    · subst h
      have : es.lookup k = none := lookup_none_of_not_mem es k hn.1
      simp [this, lookup_cons_eq]
    · simp [h, lookup_cons_ne _ _ _ _ h]

/-- every stored entry came from the old store or from the written entries -/
theorem mem_foldl_upsert (es : List (EKey × Val)) (d : Store) (x : EKey × Val)
    (hx : x ∈ es.foldl upsert d) : x ∈ es ∨ x ∈ d := by
  induction es generalizing d with
  | nil => exact Or.inr hx
  | cons e es ih =>
    rcases ih _ hx with h | h
    · exact Or.inl (List.mem_cons_of_mem _ h)
    · unfold upsert at h
      rcases List.mem_cons.1 h with rfl | h'
      · exact Or.inl List.mem_cons_self
      · exact Or.inr (List.mem_filter.1 h').1

end Influx.Fields
