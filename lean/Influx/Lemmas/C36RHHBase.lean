/-
  Lemmas.C36RHHBase — arithmetic of probe distances (closed form of `rhh.Dist`), the
  robin-hood invariant of a slot array for an ARBITRARY hash function, and the path
  property it implies (every slot between an element's home and its position is occupied
  by an element at least as far from its own home).
-/
import Influx.Model.RHH

namespace Influx.RHH

/-- the slot after `p` (`(pos + 1) & mask`) -/
def next (p c : Nat) : Nat := (p + 1) % c

theorem dist_eq (h p c : Nat) (hc : 0 < c) (hp : p < c) :
    dist h p c = if h % c ≤ p then p - h % c else p + c - h % c := by
  have hr : h % c < c := Nat.mod_lt _ hc
  unfold dist
  split
  · next hle =>
    have : p + c - h % c = (p - h % c) + c := by omega
    rw [this, Nat.add_mod_right, Nat.mod_eq_of_lt (by omega)]
  · next hlt =>
    rw [Nat.mod_eq_of_lt (by omega)]

theorem next_eq (p c : Nat) (hp : p < c) : next p c = if p + 1 = c then 0 else p + 1 := by
  unfold next
  split
  · next h => rw [h, Nat.mod_self]
  · next h => rw [Nat.mod_eq_of_lt (by omega)]

theorem next_lt (p c : Nat) (hc : 0 < c) : next p c < c := Nat.mod_lt _ hc

theorem dist_lt (h p c : Nat) (hc : 0 < c) : dist h p c < c := Nat.mod_lt _ hc

theorem dist_next (h p c : Nat) (hc : 0 < c) (hp : p < c) (hd : dist h p c + 1 < c) :
    dist h (next p c) c = dist h p c + 1 := by
  have hr : h % c < c := Nat.mod_lt _ hc
  have hn := next_lt p c hc
  have h1 := dist_eq h p c hc hp
  have h2 := dist_eq h (next p c) c hc hn
  have h3 := next_eq p c hp
  rw [h2, h3]
  rw [h1] at hd ⊢
  by_cases a : h % c ≤ p <;> by_cases b : p + 1 = c <;> simp only [a, b, if_true, if_false] at hd ⊢ <;>
    (try split) <;> omega

theorem dist_inj (h p q c : Nat) (hc : 0 < c) (hp : p < c) (hq : q < c)
    (h' : dist h p c = dist h q c) : p = q := by
  have hr : h % c < c := Nat.mod_lt _ hc
  rw [dist_eq h p c hc hp, dist_eq h q c hc hq] at h'
  split at h' <;> split at h' <;> omega

theorem dist_home (h c : Nat) (hc : 0 < c) : dist h (h % c) c = 0 := by
  have hr : h % c < c := Nat.mod_lt _ hc
  rw [dist_eq h (h % c) c hc hr]
  simp

/-- walking on from `p`, the offset to a slot `q ≠ p` shrinks by one -/
theorem off_next (p q c : Nat) (hc : 0 < c) (hp : p < c) (hq : q < c) (hne : q ≠ p) :
    dist (next p c) q c + 1 = dist p q c := by
  have hn := next_lt p c hc
  rw [dist_eq (next p c) q c hc hq, dist_eq p q c hc hq, Nat.mod_eq_of_lt hn, Nat.mod_eq_of_lt hp,
    next_eq p c hp]
  split <;> split <;> split <;> omega

theorem off_self (p c : Nat) (hc : 0 < c) (hp : p < c) : dist p p c = 0 := by
  rw [dist_eq p p c hc hp, Nat.mod_eq_of_lt hp]; simp

theorem off_zero (p q c : Nat) (hc : 0 < c) (hp : p < c) (hq : q < c) (h : dist p q c = 0) : q = p := by
  rw [dist_eq p q c hc hq, Nat.mod_eq_of_lt hp] at h
  split at h <;> omega

theorem next_inj (p q c : Nat) (hp : p < c) (hq : q < c) (h : next p c = next q c) : p = q := by
  rw [next_eq p c hp, next_eq q c hq] at h
  split at h <;> split at h <;> omega

theorem next_ne_self (p c : Nat) (hp : p < c) (hc : 1 < c) : next p c ≠ p := by
  rw [next_eq p c hp]; split <;> omega

/-! ### slots -/

/-- slot `i` holds `e` -/
def At (s : Slots) (i : Nat) (e : Entry) : Prop := s[i]? = some (some e)
/-- slot `i` exists and is empty (`hashes[i] == 0`) -/
def Free (s : Slots) (i : Nat) : Prop := s[i]? = some none
def Mem (s : Slots) (e : Entry) : Prop := ∃ i, At s i e

theorem At.lt {s : Slots} {i : Nat} {e : Entry} (h : At s i e) : i < s.length :=
  (List.getElem?_eq_some_iff.mp h).1

theorem At.inj {s : Slots} {i : Nat} {e e' : Entry} (h : At s i e) (h' : At s i e') : e = e' := by
  unfold At at h h'; rw [h] at h'; simpa using h'

theorem at_set (s : Slots) (p i : Nat) (x e : Entry) :
    At (s.set p (some x)) i e ↔ (i = p ∧ p < s.length ∧ e = x) ∨ (i ≠ p ∧ At s i e) := by
  unfold At
  rw [List.getElem?_set]
  by_cases h : p = i
  · subst h
    by_cases hl : p < s.length
    · simp [hl]; exact eq_comm
    · simp [hl]
  · simp [h, Ne.symm h]

theorem free_set (s : Slots) (p i : Nat) (x : Entry) :
    Free (s.set p (some x)) i ↔ (i ≠ p ∧ Free s i) := by
  unfold Free
  rw [List.getElem?_set]
  by_cases h : p = i
  · subst h
    by_cases hl : p < s.length
    · simp [hl]
    · simp [hl]
  · simp [h, Ne.symm h]

/-- number of occupied slots -/
def count (s : Slots) : Nat := (s.filter Option.isSome).length

theorem count_set_free : ∀ (s : Slots) (p : Nat) (x : Entry), Free s p →
    count (s.set p (some x)) = count s + 1
  | [], p, x, h => by simp [Free] at h
  | a :: s, 0, x, h => by
    have : a = none := by simpa [Free] using h
    subst this; simp [count]
  | a :: s, p + 1, x, h => by
    have ih := count_set_free s p x (by simpa [Free] using h)
    simp only [count, List.set_cons_succ, List.filter_cons] at ih ⊢
    split <;> simp_all <;> omega

theorem count_set_at : ∀ (s : Slots) (p : Nat) (x y : Entry), At s p y →
    count (s.set p (some x)) = count s
  | [], p, x, y, h => by simp [At] at h
  | a :: s, 0, x, y, h => by
    have : a = some y := by simpa [At] using h
    subst this; simp [count]
  | a :: s, p + 1, x, y, h => by
    have ih := count_set_at s p x y (by simpa [At] using h)
    simp only [count, List.set_cons_succ, List.filter_cons] at ih ⊢
    split <;> simp_all

theorem count_le (s : Slots) : count s ≤ s.length := List.length_filter_le _ _

/-- a table that is not full has a free slot -/
theorem exists_free : ∀ (s : Slots), count s < s.length → ∃ q, q < s.length ∧ Free s q
  | [], h => by simp at h
  | none :: s, _ => ⟨0, by simp, by simp [Free]⟩
  | some e :: s, h => by
    have : count s < s.length := by simpa [count] using h
    obtain ⟨q, hq, hf⟩ := exists_free s this
    exact ⟨q + 1, by simpa using hq, by simpa [Free] using hf⟩

/-- the robin-hood invariant, for the hash function `hf` -/
structure WF (hf : Key → Nat) (s : Slots) : Prop where
  pos : 0 < s.length
  /-- an element away from its home has an occupied predecessor that is at most one step richer -/
  rh : ∀ i e, i < s.length → At s (next i s.length) e → dist e.hash (next i s.length) s.length ≠ 0 →
    ∃ e', At s i e' ∧ dist e.hash (next i s.length) s.length ≤ dist e'.hash i s.length + 1
  uniq : ∀ i j e e', At s i e → At s j e' → e.key = e'.key → i = j
  hash : ∀ i e, At s i e → e.hash = hf e.key

/-- **the probe-sequence invariant**: between the home of `e` and its slot `p` every slot is
    occupied by an element at least as far from its own home (no empty slot, no richer element). -/
theorem WF.path {hf : Key → Nat} {s : Slots} (hw : WF hf s) {p : Nat} {e : Entry} (hp : At s p e) :
    ∀ (n q : Nat), q < s.length → dist e.hash q s.length + n = dist e.hash p s.length →
      ∃ e', At s q e' ∧ dist e.hash q s.length ≤ dist e'.hash q s.length := by
  intro n
  induction n with
  | zero =>
    intro q hq hd
    have : q = p := dist_inj e.hash q p s.length hw.pos hq hp.lt (by omega)
    subst this
    exact ⟨e, hp, Nat.le_refl _⟩
  | succ n ih =>
    intro q hq hd
    have hlt := dist_lt e.hash p s.length hw.pos
    have hn := dist_next e.hash q s.length hw.pos hq (by omega)
    obtain ⟨e2, h2, hle⟩ := ih (next q s.length) (next_lt _ _ hw.pos) (by omega)
    obtain ⟨e', h', hle'⟩ := hw.rh q e2 hq h2 (by omega)
    exact ⟨e', h', by omega⟩

end Influx.RHH
