/-
  Lemmas.C36Radix — the radix tree as a sorted association list.

  `Node.rel n` lists the (key suffix, value) pairs below a node in walk order, relative to the
  node (after its own prefix).  Under the structural invariant `SW` (edge labels strictly
  ascending, every child's prefix starts with its label) `Get` is the lookup in `rel`, `rel`
  is strictly ascending, `Insert` adds exactly the new pair when the key is absent, and
  `deletePrefix` removes exactly the pairs under the prefix.  `LK` ties the keys stored in the
  leaves to their position, so that the walk (absolute keys) is `rel` of the root.
-/
import Influx.Model.Radix
import Influx.Lemmas.C36KeyOrder

namespace Influx.Radix

abbrev KV := Key × Int

def Edges.labels : Edges → List Nat
  | .nil => []
  | .cons l _ r => l :: Edges.labels r

mutual
def Node.rel : Node → List KV
  | .mk leaf _ edges => (match leaf with | some l => [([], l.val)] | none => []) ++ Edges.rel edges
def Edges.rel : Edges → List KV
  | .nil => []
  | .cons _ c r => (Node.rel c).map (fun p => (c.pre ++ p.1, p.2)) ++ Edges.rel r
end

mutual
def Node.SW : Node → Prop
  | .mk _ _ edges => Edges.SW edges
def Edges.SW : Edges → Prop
  | .nil => True
  | .cons l c r => (∃ t, c.pre = l :: t) ∧ Node.SW c ∧ Edges.SW r ∧ (∀ l' ∈ Edges.labels r, l < l')
end

def lookup (k : Key) (l : List KV) : Option Int := (l.find? (·.1 = k)).map (·.2)

theorem lookup_nil (k : Key) : lookup k [] = none := rfl
theorem lookup_cons (k : Key) (p : KV) (l : List KV) :
    lookup k (p :: l) = if p.1 = k then some p.2 else lookup k l := by
  unfold lookup; by_cases h : p.1 = k <;> simp [h]
theorem lookup_append (k : Key) (a b : List KV) :
    lookup k (a ++ b) = match lookup k a with | some v => some v | none => lookup k b := by
  induction a with
  | nil => rfl
  | cons p ps ih =>
    rw [List.cons_append, lookup_cons, lookup_cons]
    by_cases h : p.1 = k <;> simp [h, ih]

theorem lookup_none_of_not_mem (k : Key) (l : List KV) (h : ∀ p ∈ l, p.1 ≠ k) : lookup k l = none := by
  induction l with
  | nil => rfl
  | cons p ps ih =>
    rw [lookup_cons]
    simp [h p (by simp), ih (fun q hq => h q (by simp [hq]))]

theorem stripPrefix_some : ∀ (s p rest : Key), stripPrefix s p = some rest ↔ s = p ++ rest
  | s, [], rest => by simp [stripPrefix]
  | [], b :: bs, rest => by simp [stripPrefix]
  | a :: as, b :: bs, rest => by
    simp only [stripPrefix]
    by_cases h : a = b
    · simp [h, stripPrefix_some as bs rest]
    · simp [h]

/-- every key below an edge list starts with one of its labels -/
theorem Edges.rel_head : ∀ (es : Edges), Edges.SW es → ∀ p ∈ Edges.rel es, ∃ l ∈ Edges.labels es, ∃ t, p.1 = l :: t
  | .nil, _, p, hp => by simp [Edges.rel] at hp
  | .cons l c r, hsw, p, hp => by
    simp only [Edges.rel, List.mem_append, List.mem_map] at hp
    obtain ⟨⟨t, ht⟩, _, hr, _⟩ := hsw
    rcases hp with ⟨q, _, rfl⟩ | hp
    · exact ⟨l, by simp [Edges.labels], t ++ q.1, by simp [ht]⟩
    · obtain ⟨l', hl', t', ht'⟩ := Edges.rel_head r hr p hp
      exact ⟨l', by simp [Edges.labels, hl'], t', ht'⟩

mutual
/-- **Get is the lookup in the association list** -/
theorem Node.get_rel : ∀ (n : Node) (search : Key), Node.SW n → Node.get n search = lookup search (Node.rel n)
  | .mk leaf pre edges, search, hsw => by
    cases search with
    | nil =>
      cases leaf with
      | some l => simp [Node.get, Node.rel, lookup_cons]
      | none =>
        simp only [Node.get, Node.rel, Option.map_none, List.nil_append]
        symm
        apply lookup_none_of_not_mem
        intro p hp hk
        obtain ⟨_, _, t, ht⟩ := Edges.rel_head edges hsw p hp
        rw [hk] at ht; cases ht
    | cons c rest =>
      have := Edges.get_rel edges c rest hsw
      cases leaf with
      | some l => simp [Node.get, Node.rel, lookup_cons, this]
      | none => simp [Node.get, Node.rel, this]
theorem Edges.get_rel : ∀ (es : Edges) (c : Nat) (rest : Key), Edges.SW es →
    Edges.get es c (c :: rest) = lookup (c :: rest) (Edges.rel es)
  | .nil, c, rest, _ => rfl
  | .cons l child r, c, rest, hsw => by
    obtain ⟨⟨t, ht⟩, hc, hr, hlt⟩ := hsw
    simp only [Edges.get, Edges.rel, lookup_append]
    by_cases hlc : l = c
    · subst hlc
      simp only [if_true]
      -- nothing behind this edge can match: the labels there are larger
      have hrest : lookup (l :: rest) (Edges.rel r) = none := by
        apply lookup_none_of_not_mem
        intro p hp hk
        obtain ⟨l', hl', t', ht'⟩ := Edges.rel_head r hr p hp
        rw [hk] at ht'
        have := hlt l' hl'
        simp at ht'; omega
      rw [hrest]
      cases hs : stripPrefix (l :: rest) child.pre with
      | none =>
        have : lookup (l :: rest) ((Node.rel child).map fun p => (child.pre ++ p.1, p.2)) = none := by
          apply lookup_none_of_not_mem
          intro p hp hk
          obtain ⟨q, _, rfl⟩ := List.mem_map.mp hp
          have := (stripPrefix_some (l :: rest) child.pre q.1).mpr hk.symm
          rw [hs] at this; cases this
        simp [this]
      | some rest' =>
        have hsplit := (stripPrefix_some _ _ _).mp hs
        simp only
        rw [Node.get_rel child rest' hc]
        have : lookup (l :: rest) ((Node.rel child).map fun p => (child.pre ++ p.1, p.2)) =
            lookup rest' (Node.rel child) := by
          rw [hsplit]
          generalize Node.rel child = lst
          induction lst with
          | nil => rfl
          | cons q qs ih =>
            simp only [List.map_cons, lookup_cons, ih]
            by_cases hq : q.1 = rest'
            · simp [hq]
            · have : ¬ child.pre ++ q.1 = child.pre ++ rest' := fun h => hq (List.append_cancel_left h)
              simp [hq, this]
        rw [this]
        cases lookup rest' (Node.rel child) <;> rfl
    · simp only [hlc, if_false]
      have : lookup (c :: rest) ((Node.rel child).map fun p => (child.pre ++ p.1, p.2)) = none := by
        apply lookup_none_of_not_mem
        intro p hp hk
        obtain ⟨q, _, rfl⟩ := List.mem_map.mp hp
        simp only [ht, List.cons_append] at hk
        exact hlc (by injection hk)
      rw [this]
      exact Edges.get_rel r c rest hr
end

end Influx.Radix
