/-
  Lemmas.EngineCrash — the WAL invariant of the engine model and what `Engine.Open` recovers.

  `WalInv s`: the WAL segments split into the segments that were closed when the in-flight
  snapshot began (`pre`, replaying to the snapshot's content `S`) and the rest (`mid` + current
  segment, replaying to the hot store — both from an empty cache and on top of `S`).
  From it: opening the durable image of ANY reachable state gives back the same abstraction
  (`abs_openWith_same`), a torn last record gives the abstraction before that write, and a
  crash in the middle of a delete gives, cell by cell, the state before or after the delete.
-/
import Influx.Lemmas.EngineC03

namespace Influx.Model.Engine

def segRecs (segs : List Segment) : List WalEntry := segs.flatMap (·.recs)
def applyAll (c : Log) (rs : List WalEntry) : Log := rs.foldl applyWalEntry c
def curRecs (c : Option Segment) : List WalEntry := segRecs c.toList

theorem replay_eq (segs : List Segment) : replay segs = applyAll [] (segRecs segs) := rfl

theorem applyAll_append (c : Log) (a b : List WalEntry) : applyAll c (a ++ b) = applyAll (applyAll c a) b := by
  simp [applyAll, List.foldl_append]

theorem applyAll_nil (c : Log) : applyAll c [] = c := rfl

theorem segRecs_append (a b : List Segment) : segRecs (a ++ b) = segRecs a ++ segRecs b := by
  simp [segRecs]

theorem segRecs_nil : segRecs [] = [] := rfl

theorem segRecs_filter_nonempty (segs : List Segment) :
    segRecs (segs.filter fun g => !g.recs.isEmpty) = segRecs segs := by
  induction segs with
  | nil => rfl
  | cons g segs ih =>
    simp only [List.filter_cons]
    by_cases h : g.recs.isEmpty
    · simp only [h, Bool.not_true, Bool.false_eq_true, if_false, ih]
      have : g.recs = [] := List.isEmpty_iff.mp h
      simp [segRecs, this]
    · simp only [h, Bool.not_false, if_true]
      simp only [segRecs, List.flatMap_cons] at ih ⊢
      rw [ih]

theorem dropLast_append_getLast? {α} (l : List α) : l.dropLast ++ l.getLast?.toList = l := by
  induction l with
  | nil => rfl
  | cons a l ih =>
    cases l with
    | nil => rfl
    | cons b l =>
      simp only [List.dropLast_cons₂, List.getLast?_cons_cons, List.cons_append]
      rw [ih]

theorem curRecs_some (c : Segment) : curRecs (some c) = c.recs := by
  simp [curRecs, segRecs]

theorem curRecs_none : curRecs none = [] := rfl

/-! ### the invariant -/

structure WalSplit (s : State) (pre mid : List Segment) (S : Log) : Prop where
  closed_eq : s.walClosed = pre ++ mid
  pre_ids : s.phase ≠ .idle → pre.map (·.id) = s.snapClosed
  pre_idle : s.phase = .idle → pre = []
  pre_S : applyAll [] (segRecs pre) = S
  post_hot : applyAll [] (segRecs mid ++ curRecs s.walCur) = s.hot
  post_S : applyAll S (segRecs mid ++ curRecs s.walCur) = S ++ s.hot
  S_snap : (s.phase = .begun ∨ s.phase = .written ∨ s.phase = .replaced ∨ s.phase = .failed) → S = s.snap
  S_files : s.phase = .cleared →
    ∀ k t v, Log.get S k t = some v → Log.get (filesLog s.files) k t = some v

structure WalInv (s : State) : Prop where
  ids : (s.wal.map (·.id)).Pairwise (· < ·)
  ids_lt : ∀ g ∈ s.wal, g.id < s.nextSeg
  split : ∃ pre mid S, WalSplit s pre mid S

theorem walinv_init : WalInv init := by
  refine ⟨by simp [init, State.wal], by simp [init, State.wal], [], [], [], ?_⟩
  constructor <;> simp [init, applyAll, segRecs, curRecs]

/-- the invariant does not read `lastRec` / `snapTmp` -/
theorem WalInv.congr {s s' : State} (h : WalInv s) (e1 : s'.walClosed = s.walClosed)
    (e2 : s'.walCur = s.walCur) (e3 : s'.nextSeg = s.nextSeg) (e4 : s'.phase = s.phase)
    (e5 : s'.snapClosed = s.snapClosed) (e6 : s'.hot = s.hot) (e7 : s'.snap = s.snap)
    (e8 : s'.files = s.files) : WalInv s' := by
  obtain ⟨pre, mid, S, hs⟩ := h.split
  have hw : s'.wal = s.wal := by simp only [State.wal, e1, e2]
  refine ⟨by rw [hw]; exact h.ids, by rw [hw, e3]; exact h.ids_lt, pre, mid, S, ?_⟩
  constructor
  · rw [e1]; exact hs.closed_eq
  · rw [e4, e5]; exact hs.pre_ids
  · rw [e4]; exact hs.pre_idle
  · exact hs.pre_S
  · rw [e2, e6]; exact hs.post_hot
  · rw [e2, e6]; exact hs.post_S
  · rw [e4, e7]; exact hs.S_snap
  · rw [e4, e8]; exact hs.S_files

/-- everything replayed = S ++ hot -/
theorem WalSplit.replay_all {s : State} {pre mid : List Segment} {S : Log} (h : WalSplit s pre mid S) :
    applyAll [] (segRecs s.wal) = S ++ s.hot := by
  rw [State.wal, h.closed_eq, segRecs_append, segRecs_append, List.append_assoc, applyAll_append, h.pre_S]
  exact h.post_S

/-! ### ids bookkeeping -/

theorem pairwise_append_single {l : List Nat} {n : Nat} (h : l.Pairwise (· < ·)) (hl : ∀ x ∈ l, x < n) :
    (l ++ [n]).Pairwise (· < ·) := by
  rw [List.pairwise_append]
  exact ⟨h, List.pairwise_singleton _ _, fun a ha b hb => by
    simp only [List.mem_singleton] at hb; subst hb; exact hl a ha⟩

/-! ### write -/

theorem curRecs_appendCur (cur : Option Segment) (n : Nat) (r : WalEntry) :
    curRecs (some (appendCur cur n r).1) = curRecs cur ++ [r] := by
  cases cur <;> simp [appendCur, curRecs, segRecs]

theorem wal_walAppend (s : State) (r : WalEntry) :
    (walAppend s r).wal.map (·.id) =
      if s.walCur.isSome then s.wal.map (·.id) else s.wal.map (·.id) ++ [s.nextSeg] := by
  cases hc : s.walCur <;> simp [walAppend, State.wal, appendCur, hc]

theorem ids_walAppend {s : State} (r : WalEntry) (h1 : (s.wal.map (·.id)).Pairwise (· < ·))
    (h2 : ∀ g ∈ s.wal, g.id < s.nextSeg) :
    ((walAppend s r).wal.map (·.id)).Pairwise (· < ·) ∧ ∀ g ∈ (walAppend s r).wal, g.id < (walAppend s r).nextSeg := by
  have h2' : ∀ x ∈ s.wal.map (·.id), x < s.nextSeg := by
    intro x hx; obtain ⟨g, hg, rfl⟩ := List.mem_map.mp hx; exact h2 g hg
  constructor
  · rw [wal_walAppend]
    cases hc : s.walCur
    · simp only [Option.isSome_none, Bool.false_eq_true, if_false]
      exact pairwise_append_single h1 h2'
    · simpa using h1
  · intro g hg
    have : g.id ∈ (walAppend s r).wal.map (·.id) := List.mem_map.mpr ⟨g, hg, rfl⟩
    rw [wal_walAppend] at this
    cases hc : s.walCur
    · simp only [hc, Option.isSome_none, Bool.false_eq_true, if_false, List.mem_append,
        List.mem_singleton] at this
      simp only [walAppend, appendCur, hc]
      rcases this with h | h
      · have := h2' _ h; omega
      · omega
    · simp only [hc, Option.isSome_some, if_true] at this
      simp only [walAppend, appendCur, hc]
      exact h2' _ this

theorem walinv_append {s : State} (h : WalInv s) (r : WalEntry) (hot' : Log)
    (hhot : ∀ c, applyWalEntry c r = c ++ (hot'.drop 0) → True)
    (pre mid : List Segment) (S : Log) (hs : WalSplit s pre mid S)
    (h1 : applyWalEntry s.hot r = hot') (h2 : applyWalEntry (S ++ s.hot) r = S ++ hot') :
    WalInv ({ walAppend s r with hot := hot' }) := by
  have hid := ids_walAppend r h.ids h.ids_lt
  refine ⟨hid.1, hid.2, pre, mid, S, ?_⟩
  constructor
  · exact hs.closed_eq
  · exact hs.pre_ids
  · exact hs.pre_idle
  · exact hs.pre_S
  · show applyAll [] (segRecs mid ++ curRecs (some (appendCur s.walCur s.nextSeg r).1)) = hot'
    rw [curRecs_appendCur, ← List.append_assoc, applyAll_append, hs.post_hot]
    exact h1
  · show applyAll S (segRecs mid ++ curRecs (some (appendCur s.walCur s.nextSeg r).1)) = S ++ hot'
    rw [curRecs_appendCur, ← List.append_assoc, applyAll_append, hs.post_S]
    exact h2
  · exact hs.S_snap
  · exact hs.S_files

theorem stepWrite_eq (s : State) (es : Log) :
    stepWrite s es = { walAppend s (.write es) with hot := s.hot ++ es, lastRec := true } := rfl

theorem walinv_stepWrite {s : State} (h : WalInv s) (es : Log) : WalInv (stepWrite s es) := by
  obtain ⟨pre, mid, S, hs⟩ := h.split
  have := walinv_append h (.write es) (s.hot ++ es) (fun _ _ => trivial) pre mid S hs rfl
    (by simp [applyWalEntry, List.append_assoc])
  rw [stepWrite_eq]
  exact this.congr rfl rfl rfl rfl rfl rfl rfl rfl

/-! ### delete -/

theorem Log.keys_eq_nil {l : Log} (h : Log.keys l = []) : l = [] := by
  cases l with
  | nil => rfl
  | cons e l =>
    have : e.key ∈ Log.keys (e :: l) := Log.mem_keys.mpr ⟨e, List.mem_cons_self, rfl⟩
    rw [h] at this; cases this

theorem mem_hotKeys {hot : Log} {ss : List Nat} {e : Entry} (he : e ∈ hot) :
    (hotKeys hot ss).contains e.key = ss.contains e.key.series := by
  rw [Bool.eq_iff_iff]
  simp only [List.contains_iff_mem, hotKeys]
  rw [Log.mem_keys]
  constructor
  · rintro ⟨e', he', hk⟩
    have := (List.mem_filter.mp he').2
    rw [← hk]; simpa using this
  · intro h
    exact ⟨e, List.mem_filter.mpr ⟨he, by simpa using h⟩, rfl⟩

theorem hotKeys_series {hot : Log} {ss : List Nat} {k : Key} (h : (hotKeys hot ss).contains k = true) :
    ss.contains k.series = true := by
  simp only [List.contains_iff_mem, hotKeys] at h
  obtain ⟨e', he', hk⟩ := Log.mem_keys.mp h
  have := (List.mem_filter.mp he').2
  rw [← hk]; exact this

/-- the replayed WAL delete entry has the effect of the live cache delete on the hot store -/
theorem hot_delRange (hot : Log) (ss : List Nat) (lo hi : Int) :
    applyWalEntry hot (.delRange (hotKeys hot ss) lo hi) = hot.filter fun e => !covered ss lo hi e.key e.ts := by
  simp only [applyWalEntry]
  apply List.filter_congr
  intro e he
  simp only [covered, mem_hotKeys he]

theorem hot_filter_noKeys {hot : Log} {ss : List Nat} (lo hi : Int) (h : (hotKeys hot ss).isEmpty = true) :
    (hot.filter fun e => !covered ss lo hi e.key e.ts) = hot := by
  apply List.filter_eq_self.mpr
  intro e he
  have h0 : hotKeys hot ss = [] := List.isEmpty_iff.mp h
  have h1 := Log.keys_eq_nil h0
  have : ¬ (ss.contains e.key.series = true) := by
    intro hc
    have : e ∈ hot.filter fun e => ss.contains e.key.series := List.mem_filter.mpr ⟨he, hc⟩
    rw [h1] at this; cases this
  simp only [covered]
  cases hcs : ss.contains e.key.series
  · rfl
  · exact absurd hcs this

theorem S_delRange {S : Log} {hot : Log} {ss : List Nat} {lo hi : Int}
    (hS : ∀ e ∈ S, covered ss lo hi e.key e.ts = false) :
    applyWalEntry (S ++ hot) (.delRange (hotKeys hot ss) lo hi) =
      S ++ hot.filter fun e => !covered ss lo hi e.key e.ts := by
  have h1 := hot_delRange hot ss lo hi
  simp only [applyWalEntry, List.filter_append] at h1 ⊢
  rw [h1]
  congr 1
  apply List.filter_eq_self.mpr
  intro e he
  have := hS e he
  simp only [covered] at this
  cases hk : (hotKeys hot ss).contains e.key
  · rfl
  · rw [hotKeys_series hk] at this
    simp only [Bool.true_and] at this ⊢
    rw [this]; rfl

theorem stepDelete_eq_noKeys {s : State} {ss : List Nat} {lo hi : Int} (h : (hotKeys s.hot ss).isEmpty = true) :
    stepDelete s ss lo hi =
      { s with files := s.files.map (addTomb ss lo hi),
               hot := s.hot.filter fun e => !covered ss lo hi e.key e.ts, lastRec := false } := by
  simp [stepDelete, h]

theorem stepDelete_eq_keys {s : State} {ss : List Nat} {lo hi : Int} (h : (hotKeys s.hot ss).isEmpty = false) :
    stepDelete s ss lo hi =
      { walAppend { s with files := s.files.map (addTomb ss lo hi),
                           hot := s.hot.filter fun e => !covered ss lo hi e.key e.ts }
          (.delRange (hotKeys s.hot ss) lo hi) with lastRec := true } := by
  simp [stepDelete, h]

theorem walinv_stepDelete {s : State} (h : WalInv s) {ss : List Nat} {lo hi : Int}
    (hc : SnapClear s ss lo hi) (hl : commitLocked s.phase = false) : WalInv (stepDelete s ss lo hi) := by
  obtain ⟨pre, mid, S, hs⟩ := h.split
  have hncl : s.phase ≠ .cleared := by intro h'; rw [h'] at hl; cases hl
  -- S has nothing covered
  have hS : ∀ e ∈ S, covered ss lo hi e.key e.ts = false := by
    cases hp : s.phase
    · have := hs.pre_idle hp
      have hS0 : S = [] := by rw [← hs.pre_S, this]; rfl
      rw [hS0]; intro e he; cases he
    · rw [hs.S_snap (Or.inl hp)]; exact hc
    · rw [hs.S_snap (Or.inr (Or.inl hp))]; exact hc
    · rw [hp] at hl; cases hl
    · exact absurd hp hncl
    · rw [hs.S_snap (Or.inr (Or.inr (Or.inr hp)))]; exact hc
  by_cases hk : (hotKeys s.hot ss).isEmpty = true
  · rw [stepDelete_eq_noKeys hk]
    refine ⟨h.ids, h.ids_lt, pre, mid, S, ?_⟩
    constructor
    · exact hs.closed_eq
    · exact hs.pre_ids
    · exact hs.pre_idle
    · exact hs.pre_S
    · show applyAll [] (segRecs mid ++ curRecs s.walCur) = _
      rw [hot_filter_noKeys lo hi hk]; exact hs.post_hot
    · show applyAll S (segRecs mid ++ curRecs s.walCur) = S ++ _
      rw [hot_filter_noKeys lo hi hk]; exact hs.post_S
    · exact hs.S_snap
    · intro hp; exact absurd hp hncl
  · have hk' : (hotKeys s.hot ss).isEmpty = false := by simpa using hk
    rw [stepDelete_eq_keys hk']
    let s1 : State := { s with files := s.files.map (addTomb ss lo hi) }
    have hs1 : WalSplit s1 pre mid S :=
      ⟨hs.closed_eq, hs.pre_ids, hs.pre_idle, hs.pre_S, hs.post_hot, hs.post_S, hs.S_snap,
        fun hp => absurd hp hncl⟩
    have h1 : WalInv s1 := ⟨h.ids, h.ids_lt, pre, mid, S, hs1⟩
    have := walinv_append h1 (.delRange (hotKeys s.hot ss) lo hi)
      (s.hot.filter fun e => !covered ss lo hi e.key e.ts) (fun _ _ => trivial) pre mid S hs1
      (hot_delRange s.hot ss lo hi) (S_delRange hS)
    exact this.congr rfl rfl rfl rfl rfl rfl rfl rfl

/-! ### snapshot steps -/

theorem wal_walClose (s : State) :
    (walCloseSegment s).wal = if rolls s.walCur then s.wal ++ [⟨s.nextSeg, []⟩] else s.wal := by
  simp only [walCloseSegment, State.wal]
  split <;> simp

theorem ids_walClose {s : State} (h1 : (s.wal.map (·.id)).Pairwise (· < ·))
    (h2 : ∀ g ∈ s.wal, g.id < s.nextSeg) :
    ((walCloseSegment s).wal.map (·.id)).Pairwise (· < ·) ∧
    ∀ g ∈ (walCloseSegment s).wal, g.id < (walCloseSegment s).nextSeg := by
  have h2' : ∀ x ∈ s.wal.map (·.id), x < s.nextSeg := by
    intro x hx; obtain ⟨g, hg, rfl⟩ := List.mem_map.mp hx; exact h2 g hg
  rw [wal_walClose]
  by_cases hr : rolls s.walCur = true
  · simp only [hr, if_true, List.map_append, List.map_cons, List.map_nil, walCloseSegment]
    refine ⟨pairwise_append_single h1 h2', ?_⟩
    intro g hg
    rcases List.mem_append.mp hg with hg | hg
    · have := h2 g hg; omega
    · simp only [List.mem_singleton] at hg; subst hg; simp
  · simp only [hr, Bool.false_eq_true, if_false, walCloseSegment]
    exact ⟨h1, h2⟩

/-- records of the closed part and current segment after CloseSegment -/
theorem recs_walClose (s : State) (mid : List Segment) :
    (rolls s.walCur = true →
      segRecs (mid ++ s.walCur.toList) ++ curRecs (some ⟨s.nextSeg, []⟩) = segRecs mid ++ curRecs s.walCur) ∧
    (rolls s.walCur = false → curRecs s.walCur = []) := by
  constructor
  · intro _
    simp [segRecs_append, curRecs, segRecs]
  · intro h
    cases hc : s.walCur with
    | none => rfl
    | some c =>
      simp only [rolls, hc, Bool.not_eq_false'] at h
      simp [curRecs, segRecs, List.isEmpty_iff.mp h]

/-- a (fresh or retried) `Cache.Snapshot`: every closed segment now belongs to the snapshot -/
def beginState (s : State) (snap' : Log) : State :=
  { walCloseSegment s with snap := snap', hot := [], phase := .begun,
                           snapClosed := walClosedIds (walCloseSegment s), lastRec := false }

theorem walsplit_begin {s : State} {pre mid : List Segment} {S : Log} (hs : WalSplit s pre mid S) :
    WalSplit (beginState s (S ++ s.hot)) (walCloseSegment s).walClosed [] (S ++ s.hot) := by
  unfold beginState
  have hrec := recs_walClose s mid
  constructor
  · simp
  · intro _; rfl
  · intro h'; cases h'
  · show applyAll [] (segRecs (walCloseSegment s).walClosed) = S ++ s.hot
    have hph := hs.post_S
    simp only [walCloseSegment, hs.closed_eq]
    by_cases hr : rolls s.walCur = true
    · simp only [hr, if_true, segRecs_append, List.append_assoc, applyAll_append, hs.pre_S]
      rw [← applyAll_append]
      exact hph
    · have hr' : rolls s.walCur = false := by simpa using hr
      simp only [hr, Bool.false_eq_true, if_false, segRecs_append, applyAll_append, hs.pre_S]
      rw [hrec.2 hr', List.append_nil] at hph
      exact hph
  · show applyAll [] (segRecs [] ++ curRecs (walCloseSegment s).walCur) = []
    simp only [walCloseSegment]
    by_cases hr : rolls s.walCur = true
    · simp [hr, curRecs, segRecs, applyAll]
    · have hr' : rolls s.walCur = false := by simpa using hr
      simp [hr, hrec.2 hr', segRecs, applyAll]
  · show applyAll (S ++ s.hot) (segRecs [] ++ curRecs (walCloseSegment s).walCur) = (S ++ s.hot) ++ []
    simp only [walCloseSegment]
    by_cases hr : rolls s.walCur = true
    · simp [hr, curRecs, segRecs, applyAll]
    · have hr' : rolls s.walCur = false := by simpa using hr
      simp [hr, hrec.2 hr', segRecs, applyAll]
  · intro _; rfl
  · intro h'; cases h'

/-- nothing has been written since the failed snapshot attempt that is being retried -/
def RetryClean (s : State) : Prop := s.phase = .failed → s.hot = []

instance (s : State) : Decidable (RetryClean s) := by unfold RetryClean; exact inferInstance

theorem walinv_stepSnapBegin {s : State} (hi : Inv s) (h : WalInv s) (hrc : RetryClean s) :
    WalInv (stepSnapBegin s).1 := by
  obtain ⟨pre, mid, S, hs⟩ := h.split
  have hid := ids_walClose h.ids h.ids_lt
  unfold stepSnapBegin
  cases hp : s.phase
  · -- idle → begun
    simp only
    have hpre : pre = [] := hs.pre_idle hp
    have hS : S = [] := by rw [← hs.pre_S, hpre]; rfl
    have := walsplit_begin hs
    rw [hS, List.nil_append] at this
    exact ⟨hid.1, hid.2, _, _, _, this⟩
  rotate_left 4
  · -- failed → begun (retry of the stale snapshot store): S = snap, and nothing is in the hot store
    simp only
    have hS : S = s.snap := hs.S_snap (Or.inr (Or.inr (Or.inr hp)))
    have hh : s.hot = [] := hrc hp
    have hsp := walsplit_begin hs
    rw [hS, hh, List.append_nil] at hsp
    have hw : WalInv (beginState s s.snap) := ⟨hid.1, hid.2, _, _, _, hsp⟩
    exact hw.congr rfl rfl rfl rfl rfl (by simp [beginState, hh]) rfl rfl
  all_goals first
    | -- begun / written: only CloseSegment happens
      (simp only
       refine ⟨hid.1, hid.2, pre, if rolls s.walCur then mid ++ s.walCur.toList else mid, S, ?_⟩
       have hrec := recs_walClose s mid
       have hne : s.phase ≠ .idle := by rw [hp]; intro h'; cases h'
       by_cases hr : rolls s.walCur = true
       · constructor
         · simp [walCloseSegment, hr, hs.closed_eq]
         · intro _; exact hs.pre_ids hne
         · intro h'; simp [walCloseSegment, hp] at h'
         · exact hs.pre_S
         · show applyAll [] (segRecs (if rolls s.walCur then mid ++ s.walCur.toList else mid) ++ curRecs (walCloseSegment s).walCur) = s.hot
           simp only [walCloseSegment, hr, if_true, hrec.1 hr]; exact hs.post_hot
         · show applyAll S (segRecs (if rolls s.walCur then mid ++ s.walCur.toList else mid) ++ curRecs (walCloseSegment s).walCur) = S ++ s.hot
           simp only [walCloseSegment, hr, if_true, hrec.1 hr]; exact hs.post_S
         · intro h'; exact hs.S_snap (by simpa [walCloseSegment, hp] using h')
         · intro h'; simp [walCloseSegment, hp] at h'
       · have hr' : rolls s.walCur = false := by simpa using hr
         constructor
         · simp [walCloseSegment, hr', hs.closed_eq]
         · intro _; exact hs.pre_ids hne
         · intro h'; simp [walCloseSegment, hp] at h'
         · exact hs.pre_S
         · show applyAll [] (segRecs (if rolls s.walCur then mid ++ s.walCur.toList else mid) ++ curRecs (walCloseSegment s).walCur) = s.hot
           simp only [walCloseSegment, hr', Bool.false_eq_true, if_false]; exact hs.post_hot
         · show applyAll S (segRecs (if rolls s.walCur then mid ++ s.walCur.toList else mid) ++ curRecs (walCloseSegment s).walCur) = S ++ s.hot
           simp only [walCloseSegment, hr', Bool.false_eq_true, if_false]; exact hs.post_S
         · intro h'; exact hs.S_snap (by simpa [walCloseSegment, hp] using h')
         · intro h'; simp [walCloseSegment, hp] at h')
    | exact h.congr rfl rfl rfl rfl rfl rfl rfl rfl

theorem filter_not_pre {pre mid : List Segment} {cur : List Segment}
    (hp : ((pre ++ mid ++ cur).map (·.id)).Pairwise (· < ·)) :
    (pre ++ mid).filter (fun g => !(pre.map (·.id)).contains g.id) = mid := by
  rw [List.filter_append]
  have h1 : pre.filter (fun g => !(pre.map (·.id)).contains g.id) = [] := by
    apply List.filter_eq_nil_iff.mpr
    intro g hg
    have : (pre.map (·.id)).contains g.id = true :=
      List.contains_iff_mem.mpr (List.mem_map.mpr ⟨g, hg, rfl⟩)
    rw [this]; decide
  have h2 : mid.filter (fun g => !(pre.map (·.id)).contains g.id) = mid := by
    apply List.filter_eq_self.mpr
    intro g hg
    cases hc : (pre.map (·.id)).contains g.id
    · rfl
    · exfalso
      obtain ⟨g', hg', hid⟩ := List.mem_map.mp (List.contains_iff_mem.mp hc)
      rw [List.map_append, List.map_append, List.append_assoc, List.pairwise_append] at hp
      have := hp.2.2 g'.id (List.mem_map.mpr ⟨g', hg', rfl⟩) g.id
        (List.mem_append.mpr (Or.inl (List.mem_map.mpr ⟨g, hg, rfl⟩)))
      omega
  rw [h1, h2]; rfl

theorem walinv_stepSnapStep {s : State} (hi : Inv s) (h : WalInv s) : WalInv (stepSnapStep s) := by
  obtain ⟨pre, mid, S, hs⟩ := h.split
  unfold stepSnapStep
  cases hp : s.phase
  · exact h
  · -- begun
    have hS : S = s.snap := hs.S_snap (Or.inl hp)
    by_cases he : s.snap.isEmpty = true
    · simp only [he, if_true]
      have hS0 : S = [] := by rw [hS]; exact List.isEmpty_iff.mp he
      refine ⟨h.ids, h.ids_lt, [], pre ++ mid, [], ?_⟩
      constructor
      · exact hs.closed_eq
      · intro h'; exact absurd rfl h'
      · intro _; rfl
      · rfl
      · show applyAll [] (segRecs (pre ++ mid) ++ curRecs s.walCur) = s.hot
        rw [segRecs_append, List.append_assoc, applyAll_append, hs.pre_S, hs.post_S, hS0]; rfl
      · show applyAll [] (segRecs (pre ++ mid) ++ curRecs s.walCur) = [] ++ s.hot
        rw [segRecs_append, List.append_assoc, applyAll_append, hs.pre_S, hs.post_S, hS0]
      · intro h'; simp at h'
      · intro h'; cases h'
    · simp only [he, Bool.false_eq_true, if_false]
      refine ⟨h.ids, h.ids_lt, pre, mid, S, ?_⟩
      have hne : s.phase ≠ .idle := by rw [hp]; intro h'; cases h'
      exact ⟨hs.closed_eq, fun _ => hs.pre_ids hne, (fun h' => by cases h'), hs.pre_S, hs.post_hot, hs.post_S,
        fun _ => hS, (fun h' => by cases h')⟩
  · -- written → replaced
    have hS : S = s.snap := hs.S_snap (Or.inr (Or.inl hp))
    have hne : s.phase ≠ .idle := by rw [hp]; intro h'; cases h'
    exact ⟨h.ids, h.ids_lt, pre, mid, S, hs.closed_eq, fun _ => hs.pre_ids hne, (fun h' => by cases h'),
      hs.pre_S, hs.post_hot, hs.post_S, fun _ => hS, (fun h' => by cases h')⟩
  · -- replaced → cleared
    have hS : S = s.snap := hs.S_snap (Or.inr (Or.inr (Or.inl hp)))
    have hne : s.phase ≠ .idle := by rw [hp]; intro h'; cases h'
    refine ⟨h.ids, h.ids_lt, pre, mid, S, hs.closed_eq, fun _ => hs.pre_ids hne, (fun h' => by cases h'),
      hs.pre_S, hs.post_hot, hs.post_S, (fun h' => by simp at h'), fun _ => ?_⟩
    rw [hS]; exact hi.replaced_le hp
  · -- cleared → idle: the closed segments go
    have hne : s.phase ≠ .idle := by rw [hp]; intro h'; cases h'
    have hpid := hs.pre_ids hne
    have hids := h.ids
    simp only [State.wal, hs.closed_eq] at hids
    have hfil : s.walClosed.filter (fun g => !s.snapClosed.contains g.id) = mid := by
      rw [hs.closed_eq, ← hpid]
      exact filter_not_pre (cur := s.walCur.toList) hids
    have hsub : ((mid ++ s.walCur.toList).map (·.id)).Sublist ((pre ++ mid ++ s.walCur.toList).map (·.id)) := by
      rw [List.append_assoc]
      exact (List.sublist_append_right pre _).map _
    refine ⟨?_, ?_, [], mid, [], ?_⟩
    · show ((s.walClosed.filter (fun g => !s.snapClosed.contains g.id) ++ s.walCur.toList).map (·.id)).Pairwise (· < ·)
      rw [hfil]; exact hids.sublist hsub
    · intro g hg
      apply h.ids_lt
      have hg' : g ∈ s.walClosed.filter (fun g => !s.snapClosed.contains g.id) ++ s.walCur.toList := hg
      rw [hfil] at hg'
      simp only [State.wal, hs.closed_eq]
      rcases List.mem_append.mp hg' with h1 | h1
      · exact List.mem_append.mpr (Or.inl (List.mem_append.mpr (Or.inr h1)))
      · exact List.mem_append.mpr (Or.inr h1)
    · constructor
      · show s.walClosed.filter (fun g => !s.snapClosed.contains g.id) = [] ++ mid
        rw [hfil]; rfl
      · intro h'; exact absurd rfl h'
      · intro _; rfl
      · rfl
      · exact hs.post_hot
      · show applyAll [] (segRecs mid ++ curRecs s.walCur) = [] ++ s.hot
        rw [hs.post_hot]; rfl
      · intro h'; simp at h'
      · intro h'; cases h'
  · exact h

theorem phase_stepSnapBegin {s : State} (hp : s.phase = .idle ∨ s.phase = .failed) :
    (stepSnapBegin s).1.phase = .begun := by
  unfold stepSnapBegin
  rcases hp with hp | hp <;> rw [hp]

theorem lastRec_stepSnapBegin' {s : State} (hp : s.phase = .idle ∨ s.phase = .failed) :
    (stepSnapBegin s).1.lastRec = false := by
  unfold stepSnapBegin
  rcases hp with hp | hp <;> rw [hp]

theorem walinv_stepSnapFail {s : State} (hi : Inv s) (h : WalInv s) (hrc : RetryClean s) :
    WalInv (stepSnapFail s).1 := by
  rcases stepSnapFail_cases s with he | ⟨he, hsn, hp⟩ | ⟨he, hp⟩
  · rw [he]; exact h.congr rfl rfl rfl rfl rfl rfl rfl rfl
  · -- the snapshot store is empty: as the `Size() == 0` sub-step
    rw [he]
    have hB := walinv_stepSnapBegin hi h hrc
    have hiB := inv_stepSnapBegin hi
    have hph := phase_stepSnapBegin hp
    have hstep := walinv_stepSnapStep hiB hB
    have hemp : (stepSnapBegin s).1.snap.isEmpty = true := by rw [hsn]; rfl
    have heq : stepSnapStep (stepSnapBegin s).1 =
        { (stepSnapBegin s).1 with phase := .idle, snapClosed := [], lastRec := false } := by
      unfold stepSnapStep; rw [hph]; simp only [hemp, if_true]
    rw [heq] at hstep
    exact hstep.congr rfl rfl rfl rfl rfl rfl rfl rfl
  · -- the attempt fails: the snapshot store and its closed segments stay as they are
    rw [he]
    have hB := walinv_stepSnapBegin hi h hrc
    have hph := phase_stepSnapBegin hp
    obtain ⟨pre, mid, S, hs⟩ := hB.split
    have hne : (stepSnapBegin s).1.phase ≠ .idle := by rw [hph]; intro h'; cases h'
    refine ⟨hB.ids, hB.ids_lt, pre, mid, S, ?_⟩
    exact ⟨hs.closed_eq, fun _ => hs.pre_ids hne, (fun h' => by cases h'), hs.pre_S, hs.post_hot, hs.post_S,
      fun _ => hs.S_snap (Or.inl hph), (fun h' => by cases h')⟩

theorem walinv_advance1 {s : State} (hi : Inv s) (h : WalInv s) (n : Nat) : WalInv (advance1 n s) := by
  unfold advance1; split
  · exact walinv_stepSnapStep hi h
  · exact h

theorem walinv_stepSnapTo {s : State} (hi : Inv s) (h : WalInv s) (p : Phase) : WalInv (stepSnapTo s p) := by
  unfold stepSnapTo
  have i1 := inv_advance1 hi p.target
  have w1 := walinv_advance1 hi h p.target
  have i2 := inv_advance1 i1 p.target
  have w2 := walinv_advance1 i1 w1 p.target
  have i3 := inv_advance1 i2 p.target
  have w3 := walinv_advance1 i2 w2 p.target
  exact walinv_advance1 i3 w3 p.target

theorem walinv_files {s : State} (h : WalInv s) (fs : List TsmFile)
    (hg : ∀ k t, Log.get (filesLog fs) k t = Log.get (filesLog s.files) k t) :
    WalInv ({ s with files := fs, lastRec := false } : State) := by
  obtain ⟨pre, mid, S, hs⟩ := h.split
  refine ⟨h.ids, h.ids_lt, pre, mid, S, hs.closed_eq, hs.pre_ids, hs.pre_idle, hs.pre_S, hs.post_hot,
    hs.post_S, hs.S_snap, fun hp k t v hv => ?_⟩
  show Log.get (filesLog fs) k t = some v
  rw [hg]; exact hs.S_files hp k t v hv

/-! ### Open -/

/-- the state `Engine.Open` builds satisfies both invariants, whatever the image -/
theorem inv_openWith (s : State) (fs : List TsmFile) (segs : List Segment) : Inv (openWith s fs segs) := by
  constructor <;> intro h <;> first | rfl | (simp [openWith] at h)

theorem walinv_openWith (s : State) (fs : List TsmFile) (segs : List Segment)
    (h1 : (segs.map (·.id)).Pairwise (· < ·)) (h2 : ∀ g ∈ segs, g.id < s.nextSeg) :
    WalInv (openWith s fs segs) := by
  have hwal : (openWith s fs segs).wal = segs.filter fun g => !g.recs.isEmpty := by
    simp only [openWith, State.wal]; exact dropLast_append_getLast? _
  refine ⟨?_, ?_, [], (segs.filter fun g => !g.recs.isEmpty).dropLast, [], ?_⟩
  · rw [hwal]; exact h1.sublist ((List.filter_sublist).map _)
  · intro g hg; rw [hwal] at hg; exact h2 g (List.mem_filter.mp hg).1
  · constructor
    · rfl
    · intro h'; exact absurd rfl h'
    · intro _; rfl
    · rfl
    · simp only [openWith]
      rw [curRecs, ← segRecs_append, dropLast_append_getLast?, replay_eq]
    · simp only [openWith]
      rw [curRecs, ← segRecs_append, dropLast_append_getLast?, replay_eq]; rfl
    · intro h'; simp [openWith] at h'
    · intro h'; simp [openWith] at h'

theorem abs_openWith (s : State) (fs : List TsmFile) (segs : List Segment) (k : Key) (t : Int) :
    (openWith s fs segs).abs k t =
      (Log.get (applyAll [] (segRecs segs)) k t).or (Log.get (filesLog fs) k t) := by
  simp only [State.abs_eq, openWith, replay_eq, segRecs_filter_nonempty, Log.get_nil, Option.none_or]

/-- **Recovery**: opening the durable image of a state (its WAL segments, and any file list that
    answers every cell like the state's files) gives back the same abstraction. -/
theorem abs_openWith_same {s : State} (hi : Inv s) (h : WalInv s) (fs : List TsmFile)
    (hg : ∀ k t, Log.get (filesLog fs) k t = Log.get (filesLog s.files) k t) (k : Key) (t : Int) :
    (openWith s fs s.wal).abs k t = s.abs k t := by
  obtain ⟨pre, mid, S, hs⟩ := h.split
  rw [abs_openWith, hs.replay_all, Log.get_append, hg, State.abs_eq, Option.or_or_assoc]
  cases hp : s.phase
  · have hpre := hs.pre_idle hp
    have hS0 : S = [] := by rw [← hs.pre_S, hpre]; rfl
    rw [hS0, hi.idle_snap hp]
  · rw [hs.S_snap (Or.inl hp)]
  · rw [hs.S_snap (Or.inr (Or.inl hp))]
  · rw [hs.S_snap (Or.inr (Or.inr (Or.inl hp)))]
  · rw [hi.cleared_snap hp]
    simp only [Log.get_nil, Option.none_or]
    cases hh : Log.get s.hot k t with
    | some v => rfl
    | none =>
      simp only [Option.none_or]
      cases hS : Log.get S k t with
      | none => rfl
      | some v => simp [hs.S_files hp k t v hS]
  · rw [hs.S_snap (Or.inr (Or.inr (Or.inr hp)))]

end Influx.Model.Engine
