/-
  Lemmas.MetaCreate — `CreateShardGroup` keeps the meta data well-formed; the data only grows.
-/
import Influx.Lemmas.MetaInv

namespace Influx.Meta
open Influx.Generated.Meta

def inRange (t : Int) : Prop := MinNanoTime ≤ t ∧ t ≤ MaxNanoTime

/-- `d'` has every policy of `d`, with at least its groups -/
def Mono (d d' : Data) : Prop :=
  ∀ db rp r, getRP d db rp = .ok r → ∃ r', getRP d' db rp = .ok r' ∧ (∀ g ∈ r.ShardGroups, g ∈ r'.ShardGroups)

theorem Mono.refl (d : Data) : Mono d d := fun _ _ r h => ⟨r, h, fun _ hg => hg⟩

theorem Mono.trans {a b c : Data} (h1 : Mono a b) (h2 : Mono b c) : Mono a c := by
  intro db rp r h
  obtain ⟨r1, hr1, hg1⟩ := h1 db rp r h
  obtain ⟨r2, hr2, hg2⟩ := h2 db rp r1 hr1
  exact ⟨r2, hr2, fun g hg => hg2 g (hg1 g hg)⟩

theorem Mono_setRP {d : Data} {db rp : String} {r r' : RetentionPolicyInfo} (h : getRP d db rp = .ok r)
    (hn : r'.Name = rp) (hg : ∀ g ∈ r.ShardGroups, g ∈ r'.ShardGroups) :
    Mono d (setRP d db rp r') := by
  intro db2 rp2 r2 h2
  by_cases hc : db2 = db ∧ rp2 = rp
  · obtain ⟨rfl, rfl⟩ := hc
    rw [h] at h2; cases h2
    exact ⟨r', getRP_setRP_same h hn, hg⟩
  · exact ⟨r2, by rw [getRP_setRP_other hn hc]; exact h2, fun _ h => h⟩

/-- no live, untruncated group contains `ts` when `ShardGroupByTimestamp` finds none -/
theorem not_contains_of_none {gs : List ShardGroupInfo} {ts : Int} (h : shardGroupByTimestamp gs ts = none)
    {g : ShardGroupInfo} (hg : g ∈ gs) (hlive : g.DeletedAt = zeroTime) (htr : g.TruncatedAt = zeroTime) :
    ¬(g.StartTime ≤ ts ∧ ts < g.EndTime) := by
  intro hc
  have := List.find?_eq_none.mp h g hg
  simp only [sgMatches, Bool.and_eq_true, Bool.not_eq_true', Bool.or_eq_true, not_and] at this
  apply this
  · exact ⟨(contains_iff g ts).mpr hc, (deleted_false_iff g).mpr hlive⟩
  · exact Or.inl ((truncated_false_iff g).mpr htr)

/-- a live, untruncated group containing `ts` is found (possibly another one) -/
theorem some_of_contains {gs : List ShardGroupInfo} {ts : Int} {g : ShardGroupInfo} (hg : g ∈ gs)
    (hlive : g.DeletedAt = zeroTime) (htr : g.TruncatedAt = zeroTime) (hc : g.StartTime ≤ ts ∧ ts < g.EndTime) :
    ∃ g', shardGroupByTimestamp gs ts = some g' := by
  cases h : shardGroupByTimestamp gs ts with
  | some g' => exact ⟨g', rfl⟩
  | none => exact absurd hc (not_contains_of_none h hg hlive htr)

/-- the group `CreateShardGroup` appends -/
def mkGroup (gid sid : Nat) (b : Int × Int) : ShardGroupInfo :=
  { ID := gid, StartTime := b.1, EndTime := b.2, DeletedAt := zeroTime,
    Shards := [{ ID := sid, Owners := [] }], TruncatedAt := zeroTime }

/-- the policy `CreateShardGroup` writes back -/
def rpAdd (r : RetentionPolicyInfo) (g : ShardGroupInfo) : RetentionPolicyInfo :=
  { r with ShardGroups := sgSort (r.ShardGroups ++ [g]) }

theorem WFRP_add {r : RetentionPolicyInfo} (hr : WFRP r) {ts : Int} (hts : inRange ts)
    (hnone : shardGroupByTimestamp r.ShardGroups ts = none) (gid sid : Nat) :
    WFRP (rpAdd r (mkGroup gid sid (newBounds r ts))) := by
  have hb := newBounds_spec r ts hr.sgd hts.1 hts.2
  refine ⟨hr.sgd, ?_, ?_⟩
  · intro g hg
    simp only [rpAdd, mem_sgSort, List.mem_append, List.mem_singleton] at hg
    rcases hg with hg | rfl
    · exact hr.groups g hg
    · exact ⟨hb.2.2.1, by simp only [mkGroup]; omega, hb.2.2.2, rfl, Or.inl rfl⟩
  · refine List.Pairwise.perm ?_ (perm_sgSort _).symm Disj.symm
    rw [List.pairwise_append]
    refine ⟨hr.disj, by simp, ?_⟩
    intro g hg x hx
    simp only [List.mem_singleton] at hx
    subst hx
    by_cases hlive : g.DeletedAt = zeroTime
    · have hw := hr.groups g hg
      have := newBounds_disjoint r ts hr.sgd hts.1 hts.2 g hg hlive hw.tr (not_contains_of_none hnone hg hlive hw.tr)
      unfold Disj; simp only [mkGroup]; omega
    · exact Or.inl hlive

/-- `Data.CreateShardGroup` on well-formed data, in-range timestamp -/
theorem createShardGroup_spec {d d' : Data} (hwf : WF d) {db rp : String} {ts : Int} (hts : inRange ts)
    (h : createShardGroup d db rp ts = .ok d') :
    WF d' ∧ Mono d d' ∧ ∃ r', getRP d' db rp = .ok r' ∧ ∃ g, shardGroupByTimestamp r'.ShardGroups ts = some g := by
  unfold createShardGroup at h
  cases hr : getRP d db rp with
  | error e => simp [hr] at h
  | ok r =>
    simp only [hr] at h
    have hwr := getRP_wf hwf hr
    have hname : r.Name = rp := by obtain ⟨_, _, _, _, hn⟩ := getRP_ok hr; exact hn
    cases hf : shardGroupByTimestamp r.ShardGroups ts with
    | some g =>
      simp only [hf, Option.isSome_some, ↓reduceIte, Except.ok.injEq] at h
      subst h
      exact ⟨hwf, Mono.refl d, r, hr, g, hf⟩
    | none =>
      simp only [hf, Option.isSome_none, Bool.false_eq_true, ↓reduceIte, Except.ok.injEq] at h
      subst h
      let g0 := mkGroup (d.MaxShardGroupID + 1) (d.MaxShardID + 1) (newBounds r ts)
      have hw' : WFRP (rpAdd r g0) := WFRP_add hwr hts hf (d.MaxShardGroupID + 1) (d.MaxShardID + 1)
      have hwf' := WF_setRP hwf db rp (rpAdd r g0) hname hw'
      have hmono : Mono d (setRP d db rp (rpAdd r g0)) :=
        Mono_setRP hr hname (by intro g hg; simp [rpAdd, mem_sgSort, hg])
      have hget : getRP (setRP d db rp (rpAdd r g0)) db rp = .ok (rpAdd r g0) := getRP_setRP_same hr hname
      have hb := newBounds_spec r ts hwr.sgd hts.1 hts.2
      have hsome : ∃ g, shardGroupByTimestamp (rpAdd r g0).ShardGroups ts = some g :=
        some_of_contains (g := g0) (by simp [rpAdd, mem_sgSort]) rfl rfl ⟨hb.1, hb.2.1⟩
      exact ⟨⟨hwf'.dbs, hwf'.names⟩, hmono, rpAdd r g0, hget, hsome⟩

/-- the group is one of policy `(db, rp)` of `d` -/
def InRP (d : Data) (db rp : String) (g : ShardGroupInfo) : Prop :=
  ∃ r, getRP d db rp = .ok r ∧ g ∈ r.ShardGroups

theorem InRP.mono {d d' : Data} (hm : Mono d d') {db rp : String} {g : ShardGroupInfo} (h : InRP d db rp g) :
    InRP d' db rp g := by
  obtain ⟨r, hr, hg⟩ := h
  obtain ⟨r', hr', hg'⟩ := hm db rp r hr
  exact ⟨r', hr', hg' g hg⟩

/-- `Client.CreateShardGroup` on well-formed data, in-range timestamp: never `nil`, and the
    group returned is a live group of the policy containing the timestamp -/
theorem clientCreateShardGroup_spec {d d' : Data} (hwf : WF d) {db rp : String} {ts : Int} (hts : inRange ts)
    {og : Option ShardGroupInfo} (h : clientCreateShardGroup d db rp ts = .ok (d', og)) :
    WF d' ∧ Mono d d' ∧ ∃ g, og = some g ∧ InRP d' db rp g ∧ g.DeletedAt = zeroTime ∧ g.StartTime ≤ ts ∧ ts < g.EndTime := by
  unfold clientCreateShardGroup at h
  cases hr : getRP d db rp with
  | error e => simp [hr] at h
  | ok r =>
    simp only [hr] at h
    cases hf : shardGroupByTimestamp r.ShardGroups ts with
    | some g =>
      simp only [hf, Except.ok.injEq, Prod.mk.injEq] at h
      obtain ⟨rfl, rfl⟩ := h
      have := shardGroupByTimestamp_some hf
      exact ⟨hwf, Mono.refl d, g, rfl, ⟨r, hr, this.1⟩, this.2.2.2, this.2.1, this.2.2.1⟩
    | none =>
      simp only [hf] at h
      cases hc : createShardGroup d db rp ts with
      | error e => simp [hc] at h
      | ok d2 =>
        simp only [hc] at h
        obtain ⟨hwf2, hm, r', hr', g, hg⟩ := createShardGroup_spec hwf hts hc
        simp only [hr', Except.ok.injEq, Prod.mk.injEq] at h
        obtain ⟨rfl, rfl⟩ := h
        have := shardGroupByTimestamp_some hg
        exact ⟨hwf2, hm, g, hg, ⟨r', hr', this.1⟩, this.2.2.2, this.2.1, this.2.2.1⟩

end Influx.Meta
