/-
  Lemmas.ID — helper lemmas about `Model.ID` (hex digit tables, `parseLoop`).
-/
import Influx.Model.ID

namespace Influx.Lemmas.ID
open Influx.Model.ID Influx.Generated.IDGen

theorem forall_byte (P : UInt8 → Prop) (h : ∀ n, n < 256 → P (UInt8.ofNat n)) (c : UInt8) : P c := by
  have := h c.toNat c.toNat_lt
  simpa using this

/-- `ParseUint` does not distinguish `A`–`Z` from `a`–`z`. -/
theorem digitVal_lower (c : UInt8) : digitVal (asciiLower c) = digitVal c := by
  revert c; apply forall_byte; decide +kernel

theorem digitVal_hextable : ∀ d, d < 16 → digitVal (hextable d) = some d := by decide
theorem hextable_isLowerHex : ∀ d, d < 16 → isLowerHex (hextable d) = true := by decide

/-- a byte accepted as a base-16 digit `d` is, lower-cased, the `d`-th entry of `hextable`. -/
theorem digitVal_spec (c : UInt8) : ∀ d, digitVal c = some d → d < 16 → hextable d = asciiLower c := by
  revert c; apply forall_byte; decide +kernel

/-- lower-case hex characters are fixed by `asciiLower`. -/
theorem asciiLower_of_isLowerHex (c : UInt8) : isLowerHex c = true → asciiLower c = c := by
  revert c; apply forall_byte; decide +kernel

/-- `k` base-16 digits of `v`, most significant first. -/
def hexDigits : Nat → Nat → List Nat
  | 0, _ => []
  | k + 1, v => (v / 16 ^ k % 16) :: hexDigits k v

@[simp] theorem hexDigits_length (k v : Nat) : (hexDigits k v).length = k := by
  induction k <;> simp [hexDigits, *]

theorem hexDigits_lt (k v d : Nat) (h : d ∈ hexDigits k v) : d < 16 := by
  induction k with
  | zero => simp [hexDigits] at h
  | succ k ih =>
    simp only [hexDigits, List.mem_cons] at h
    rcases h with h | h
    · omega
    · exact ih h

theorem hexDigits_mod (k v : Nat) : hexDigits k (v % 16 ^ k) = hexDigits k v := by
  suffices h : ∀ j, j ≤ k → hexDigits j (v % 16 ^ k) = hexDigits j v from h k (Nat.le_refl _)
  intro j
  induction j with
  | zero => intro _; rfl
  | succ j ih =>
    intro hj
    simp only [hexDigits]
    rw [ih (by omega)]
    congr 1
    -- (v % 16^k) / 16^j % 16 = v / 16^j % 16  for j < k
    obtain ⟨e, rfl⟩ : ∃ e, k = j + 1 + e := ⟨k - (j + 1), by omega⟩
    have h1 : (16 : Nat) ^ (j + 1 + e) = 16 ^ j * (16 * 16 ^ e) := by
      rw [Nat.pow_add, Nat.pow_succ]; simp [Nat.mul_assoc]
    rw [h1, Nat.mod_mul_right_div_self, Nat.mod_mul_right_mod]

/-- `hex.Encode(PutUint64(i))` is the 16-digit big-endian base-16 numeral of `i`. -/
theorem hexEncode_putUint64BE (i : Nat) :
    hexEncode (putUint64BE i) = (hexDigits 16 i).map hextable := by
  have hand : ∀ b : Nat, b &&& 0x0f = b % 16 := fun b => Nat.and_two_pow_sub_one_eq_mod b 4
  simp only [putUint64BE, hexEncode, hexDigits, List.map, hand, Nat.shiftRight_eq_div_pow]
  have e : ∀ a b : Nat, a = b → hextable a = hextable b := fun _ _ h => h ▸ rfl
  repeat (first | rfl | (apply List.cons_eq_cons.mpr; refine ⟨by apply e; omega, ?_⟩))

/-- the digit loop run over a `hextable` numeral. -/
theorem parseLoop_hexDigits (k v n : Nat) (h : n * 16 ^ k + v % 16 ^ k < 2 ^ 64) :
    parseLoop n ((hexDigits k v).map hextable) = some (n * 16 ^ k + v % 16 ^ k) := by
  induction k generalizing n with
  | zero => simp [hexDigits, parseLoop, Nat.mod_one]
  | succ k ih =>
    have hd : v / 16 ^ k % 16 < 16 := Nat.mod_lt _ (by decide)
    have hm : v % 16 ^ (k + 1) = v % 16 ^ k + 16 ^ k * (v / 16 ^ k % 16) := Nat.mod_pow_succ
    have hp : 0 < 16 ^ k := Nat.pow_pos (by decide)
    have e1 : n * 16 ^ (k + 1) = 16 * (n * 16 ^ k) := by rw [Nat.pow_succ]; ac_rfl
    have e2 : (n * 16 + v / 16 ^ k % 16) * 16 ^ k = 16 * (n * 16 ^ k) + 16 ^ k * (v / 16 ^ k % 16) := by
      rw [Nat.add_mul]; ac_rfl
    have hn : n * 16 ≤ 16 * (n * 16 ^ k) := by
      have := Nat.mul_le_mul_left n hp
      omega
    have hdk : v / 16 ^ k % 16 ≤ 16 ^ k * (v / 16 ^ k % 16) := Nat.le_mul_of_pos_left _ hp
    simp only [hexDigits, List.map, parseLoop, digitVal_hextable _ hd]
    rw [if_neg (by omega), if_neg (by simp only [cutoff]; omega), if_neg (by omega)]
    rw [ih (n * 16 + v / 16 ^ k % 16) (by omega)]
    congr 1; omega

/-- what `parseLoop` accepts, and what it returns. -/
theorem parseLoop_some (s : List UInt8) (n r : Nat) (h : parseLoop n s = some r) :
    n * 16 ^ s.length ≤ r ∧ r < (n + 1) * 16 ^ s.length ∧
      s.map asciiLower = (hexDigits s.length r).map hextable := by
  induction s generalizing n with
  | nil => simp [parseLoop] at h; subst h; simp [hexDigits]
  | cons c cs ih =>
    simp only [parseLoop] at h
    split at h
    · exact absurd h (by simp)
    · next d hd =>
      split at h
      · exact absurd h (by simp)
      split at h
      · exact absurd h (by simp)
      split at h
      · exact absurd h (by simp)
      next hd16 _ _ =>
      obtain ⟨h1, h2, h3⟩ := ih _ h
      have hp : 0 < 16 ^ cs.length := Nat.pow_pos (by decide)
      have e1 : n * 16 ^ (cs.length + 1) = 16 * (n * 16 ^ cs.length) := by
        rw [Nat.pow_succ]; ac_rfl
      have e2 : (n * 16 + d) * 16 ^ cs.length = 16 * (n * 16 ^ cs.length) + d * 16 ^ cs.length := by
        rw [Nat.add_mul]; ac_rfl
      have e3 : (n * 16 + d + 1) * 16 ^ cs.length
          = 16 * (n * 16 ^ cs.length) + d * 16 ^ cs.length + 16 ^ cs.length := by
        rw [Nat.add_mul, e2]; simp
      have e4 : (n + 1) * 16 ^ (cs.length + 1) = 16 * (n * 16 ^ cs.length) + 16 * 16 ^ cs.length := by
        rw [Nat.add_mul, e1, Nat.pow_succ]; simp only [Nat.one_mul]; congr 1; ac_rfl
      have hdP : d * 16 ^ cs.length + 16 ^ cs.length ≤ 16 * 16 ^ cs.length := by
        have : (d + 1) * 16 ^ cs.length ≤ 16 * 16 ^ cs.length := Nat.mul_le_mul_right _ (by omega)
        rw [Nat.add_mul] at this; simpa using this
      refine ⟨?_, ?_, ?_⟩
      · simp only [List.length_cons]; omega
      · simp only [List.length_cons]; omega
      · simp only [List.length_cons, List.map, hexDigits]
        have hq : r / 16 ^ cs.length = n * 16 + d := by
          exact Nat.div_eq_of_lt_le h1 h2
        rw [hq, h3]
        have : (n * 16 + d) % 16 = d := by omega
        rw [this, digitVal_spec c d hd (by omega)]

/-- `ParseUint` is case-insensitive in its letters. -/
theorem parseLoop_lower (s : List UInt8) (n : Nat) :
    parseLoop n (s.map asciiLower) = parseLoop n s := by
  induction s generalizing n with
  | nil => rfl
  | cons c cs ih => simp only [List.map, parseLoop, digitVal_lower, ih]

end Influx.Lemmas.ID
