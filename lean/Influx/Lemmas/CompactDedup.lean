/-
  Lemmas.CompactDedup — the decode pass and the outer loop of
  `combine<T>(dedup = true)` preserve the frontier invariant and the content.
-/
import Influx.Lemmas.CompactKey

namespace Influx.Model.Compact
open Influx.Generated

variable {V : Type}

/-- same block up to the read marks -/
def SameStatic (a b : Block V) : Prop :=
  a.minTime = b.minTime ∧ a.maxTime = b.maxTime ∧ a.pts = b.pts ∧ a.tombstones = b.tombstones

theorem SameStatic.refl (a : Block V) : SameStatic a a := ⟨rfl, rfl, rfl, rfl⟩

theorem SameStatic.wf {a b : Block V} (h : SameStatic a b) (w : BlockWF b) : BlockWF a := by
  obtain ⟨h1, h2, h3, _⟩ := h
  exact ⟨h3 ▸ w.asc, by rw [h3, h1]; exact w.hmin, by rw [h3, h2]; exact w.hmax, h3 ▸ w.inr⟩

/-- pointwise `SameStatic` -/
def SameStaticL : List (Block V) → List (Block V) → Prop
  | [], [] => True
  | a :: as, b :: bs => SameStatic a b ∧ SameStaticL as bs
  | _, _ => False

theorem SameStaticL.refl : ∀ (l : List (Block V)), SameStaticL l l
  | [] => trivial
  | a :: as => ⟨SameStatic.refl a, SameStaticL.refl as⟩

/-- what the decode pass does to one block it reads: the new read marks and the values merged -/
def takeBlock (lo hi : Int) (b : Block V) : Block V × Pts V :=
  let v2 := vInclude lo hi (unread b)
  let b2 := match v2.head?, v2.getLast? with
    | some a, some z => markRead b a.1 z.1
    | _, _ => b
  (b2, applyTombs b.tombstones v2)

theorem takeBlock_static (lo hi : Int) (b : Block V) : SameStatic (takeBlock lo hi b).1 b := by
  unfold takeBlock
  dsimp only
  split <;> simp [SameStatic, markRead]

theorem decodePass_skip (b : Block V) (bs : List (Block V)) (lo hi : Int) (mv : Pts V)
    (h : (!CompactBlock.overlapsTimeRange b lo hi || CompactBlock.read b) = true) :
    decodePass (b :: bs) lo hi mv =
      (decodePass bs lo hi mv).map (fun r => (b :: r.1, r.2.1, r.2.2)) := by
  rw [decodePass, if_pos h]
  cases decodePass bs lo hi mv <;> rfl

theorem decodePass_take (b : Block V) (bs : List (Block V)) (lo hi : Int) (mv : Pts V)
    (w : BlockWF b)
    (h : ¬ (!CompactBlock.overlapsTimeRange b lo hi || CompactBlock.read b) = true) :
    decodePass (b :: bs) lo hi mv =
      (decodePass bs lo hi (vMerge mv (takeBlock lo hi b).2)).map
        (fun r => ((takeBlock lo hi b).1 :: r.1, r.2.1, r.2.2)) := by
  rw [decodePass, if_neg h]
  simp only [w.ptsMax, bind, Except.bind, ne_eq, not_true_eq_false, false_and, if_false]
  unfold takeBlock unread
  dsimp only
  cases hh : (vInclude lo hi (vExclude b.readMin b.readMax b.pts)).head? with
  | none =>
    have hnil : vInclude lo hi (vExclude b.readMin b.readMax b.pts) = [] := List.head?_eq_none_iff.mp hh
    simp only [hnil, List.length_nil, gt_iff_lt, Nat.lt_irrefl, if_false, pure, Except.pure, List.getLast?_nil]
    cases decodePass bs lo hi (vMerge mv (applyTombs b.tombstones [])) <;> rfl
  | some a =>
    have hne : vInclude lo hi (vExclude b.readMin b.readMax b.pts) ≠ [] := by
      intro h0; rw [h0] at hh; simp at hh
    obtain ⟨z, hz⟩ : ∃ z, (vInclude lo hi (vExclude b.readMin b.readMax b.pts)).getLast? = some z :=
      ⟨_, List.getLast?_eq_some_getLast hne⟩
    have hlen : (vInclude lo hi (vExclude b.readMin b.readMax b.pts)).length > 0 := List.length_pos_iff.mpr hne
    simp only [hlen, if_true, ptsMin_of_head hh, ptsMax_of_last hz, hz, pure, Except.pure, markRead]
    cases decodePass bs lo hi (vMerge mv (applyTombs b.tombstones (vInclude lo hi (vExclude b.readMin b.readMax b.pts)))) <;> rfl

/-- a block the pass leaves alone already satisfies the invariant at the new frontier -/
theorem block_skip {T M m : Int} {b : Block V} (s : BlockSt T b) (hTM : T < M)
    (hC : CompactBlock.read b = false → (m ≤ b.minTime ∨ M < b.minTime))
    (h : (!CompactBlock.overlapsTimeRange b m M || CompactBlock.read b) = true) : BlockSt M b := by
  by_cases hr : CompactBlock.read b = true
  · have hmax := s.read_iff'.mp hr
    refine ⟨s.wf, ?_, by have := s.rmax; omega⟩
    intro p hp
    have hr' := (s.wf.mem_range hp).2
    have := s.cons p hp
    constructor
    · intro _; exact this.mp (by omega)
    · intro h'; have := this.mpr h'; omega
  · have hr' : CompactBlock.read b = false := by simpa using hr
    have hno : ¬ (b.minTime ≤ M ∧ m ≤ b.maxTime) := by
      intro ho
      have : CompactBlock.overlapsTimeRange b m M = true := (overlaps_iff b m M).mpr ho
      simp [this, hr'] at h
    have hmm := s.wf.min_le_max
    have hM : M < b.minTime := by rcases hC hr' with h1 | h1 <;> omega
    refine ⟨s.wf, ?_, by have := s.rmax; omega⟩
    intro p hp
    have hr'' := (s.wf.mem_range hp).1
    have := s.cons p hp
    constructor
    · intro h'; omega
    · intro h'; have := this.mpr h'; omega

/-- a block the pass reads -/
theorem block_take {T M m : Int} {b : Block V} (s : BlockSt T b) (hTM : T < M)
    (hmin : m ≤ b.minTime) :
    BlockSt M (takeBlock m M b).1 ∧
    Asc (takeBlock m M b).2 ∧
    (∀ p ∈ (takeBlock m M b).2, T < p.1 ∧ p.1 ≤ M) ∧
    (∀ t, t ≤ M → lookup (takeBlock m M b).2 t = lookup (live b) t) := by
  have hst := takeBlock_static m M b
  have hw : BlockWF (takeBlock m M b).1 := hst.wf s.wf
  -- membership in v2
  have hv2 : ∀ p, p ∈ vInclude m M (unread b) ↔ p ∈ b.pts ∧ T < p.1 ∧ p.1 ≤ M := by
    intro p
    rw [mem_vInclude, s.mem_unread]
    constructor
    · rintro ⟨⟨h1, h2⟩, h3, h4⟩; exact ⟨h1, h2, h4⟩
    · rintro ⟨h1, h2, h3⟩
      exact ⟨⟨h1, h2⟩, by have := (s.wf.mem_range h1).1; omega, h3⟩
  have hasc2 : Asc (vInclude m M (unread b)) := asc_vInclude (asc_unread s.wf) _ _
  refine ⟨?_, ?_, ?_, ?_⟩
  · -- the new read marks
    unfold takeBlock at hw ⊢
    dsimp only at hw ⊢
    cases hh : (vInclude m M (unread b)).head? with
    | none =>
      have hnil : vInclude m M (unread b) = [] := List.head?_eq_none_iff.mp hh
      simp only [hnil, List.head?_nil]
      refine ⟨s.wf, ?_, by have := s.rmax; omega⟩
      intro p hp
      have h0 := s.cons p hp
      have hnot : ¬ (T < p.1 ∧ p.1 ≤ M) := by
        intro h'
        have : p ∈ vInclude m M (unread b) := (hv2 p).mpr ⟨hp, h'.1, h'.2⟩
        rw [hnil] at this; simp at this
      constructor
      · intro h'; exact h0.mp (by omega)
      · intro h'; have := h0.mpr h'; omega
    | some a =>
      have hne : vInclude m M (unread b) ≠ [] := by
        intro h0; rw [h0] at hh; simp at hh
      obtain ⟨z, hz⟩ : ∃ z, (vInclude m M (unread b)).getLast? = some z :=
        ⟨_, List.getLast?_eq_some_getLast hne⟩
      rw [hh, hz] at hw
      simp only [hz]
      have ha_mem := (hv2 a).mp (List.mem_of_head? hh)
      have hz_mem := (hv2 z).mp (List.mem_of_getLast? hz)
      have ha_le := asc_head_le hasc2 hh
      have hz_ge := asc_le_last hasc2 hz
      refine ⟨hw, ?_, ?_⟩
      · intro p hp
        have hp' : p ∈ b.pts := hp
        have h0 := s.cons p hp'
        have hrm := s.rmax
        simp only [markRead]
        constructor
        · intro hle
          by_cases hpT : p.1 ≤ T
          · have := h0.mp hpT
            constructor
            · split <;> omega
            · split <;> omega
          · have hin : p ∈ vInclude m M (unread b) := (hv2 p).mpr ⟨hp', by omega, hle⟩
            have h1 := ha_le p hin
            have h2 := hz_ge p hin
            constructor
            · split <;> omega
            · split <;> omega
        · rintro ⟨_, h2⟩
          have : (if z.1 > b.readMax then z.1 else b.readMax) ≤ M := by split <;> omega
          omega
      · simp only [markRead]
        have hrm := s.rmax
        split <;> omega
  · exact asc_applyTombs hasc2 _
  · intro p hp
    unfold takeBlock at hp
    dsimp only at hp
    have := (mem_applyTombs.mp hp).1
    have := (hv2 p).mp this
    exact ⟨this.2.1, this.2.2⟩
  · intro t ht
    unfold takeBlock live
    dsimp only
    rw [lookup_applyTombs, lookup_applyTombs, lookup_vInclude]
    by_cases htomb : inTombs b.tombstones t = true
    · simp [htomb]
    · simp only [htomb, Bool.false_eq_true, if_false]
      by_cases hm : m ≤ t ∧ t ≤ M
      · simp [hm]
      · simp only [hm, if_false]
        symm
        apply lookup_eq_none.mpr
        intro p hp heq
        have := s.mem_unread.mp hp
        have := (s.wf.mem_range this.1).1
        omega

/-- the decode pass -/
theorem decodePass_spec {T M m : Int} (hTM : T < M) :
    ∀ (L : List (Block V)) (mv : Pts V),
      (∀ b ∈ L, BlockSt T b) →
      (∀ b ∈ L, CompactBlock.read b = false → (m ≤ b.minTime ∨ M < b.minTime)) →
      Asc mv → (∀ p ∈ mv, p.1 ≤ M) →
      ∀ L' hi' mv', decodePass L m M mv = .ok (L', hi', mv') →
        SameStaticL L' L ∧
        (∀ b ∈ L', BlockSt M b) ∧
        Asc mv' ∧ (∀ p ∈ mv', p.1 ≤ M) ∧
        (∀ p ∈ mv', p ∈ mv ∨ T < p.1) ∧
        (∀ t, (restAt L' t).or (lookup mv' t) = (restAt L t).or (lookup mv t)) := by
  intro L
  induction L with
  | nil =>
    intro mv _ _ hasc hle L' hi' mv' h
    simp [decodePass, pure, Except.pure] at h
    obtain ⟨rfl, _, rfl⟩ := h
    exact ⟨trivial, by simp, hasc, hle, fun p hp => Or.inl hp, fun _ => rfl⟩
  | cons b L ih =>
    intro mv hst hC hasc hle L' hi' mv' h
    have sb := hst b (by simp)
    have hst' : ∀ b ∈ L, BlockSt T b := fun x hx => hst x (List.mem_cons_of_mem _ hx)
    have hC' : ∀ b ∈ L, CompactBlock.read b = false → (m ≤ b.minTime ∨ M < b.minTime) :=
      fun x hx => hC x (List.mem_cons_of_mem _ hx)
    by_cases hskip : (!CompactBlock.overlapsTimeRange b m M || CompactBlock.read b) = true
    · rw [decodePass_skip b L m M mv hskip] at h
      cases hr : decodePass L m M mv with
      | error e => rw [hr] at h; simp [Except.map] at h
      | ok r =>
        rw [hr] at h
        simp only [Except.map, Except.ok.injEq, Prod.mk.injEq] at h
        obtain ⟨rfl, rfl, rfl⟩ := h
        obtain ⟨r1, r2, r3, r4, r5, r6⟩ := ih mv hst' hC' hasc hle r.1 r.2.1 r.2.2 hr
        have sbM : BlockSt M b := block_skip sb hTM (hC b (by simp)) hskip
        refine ⟨⟨SameStatic.refl b, r1⟩, ?_, r3, r4, r5, ?_⟩
        · intro x hx
          rcases List.mem_cons.mp hx with rfl | hx'
          · exact sbM
          · exact r2 x hx'
        · intro t
          simp only [restAt]
          by_cases ht : t ≤ M
          · have e1 : restAt r.1 t = none := restAt_none_le r2 ht
            have e2 : lookup (live b) t = none := by
              rw [sbM.lookup_live]; have : ¬ M < t := by omega
              simp [this]
            have := r6 t
            rw [e1] at this
            rw [e1, e2]
            simp only [Option.or_none, Option.none_or] at this ⊢
            exact this
          · have e1 : lookup r.2.2 t = none := lookup_eq_none.mpr (fun p hp heq => by have := r4 p hp; omega)
            have e2 : lookup mv t = none := lookup_eq_none.mpr (fun p hp heq => by have := hle p hp; omega)
            have := r6 t
            rw [e1, e2] at this
            simp only [Option.or_none] at this
            rw [e1, e2, this]
    · rw [decodePass_take b L m M mv sb.wf hskip] at h
      -- the block is read in this pass
      have hov : (b.minTime ≤ M ∧ m ≤ b.maxTime) ∧ CompactBlock.read b = false := by
        simp only [Bool.or_eq_true, Bool.not_eq_true', not_or, Bool.not_eq_false, Bool.not_eq_true] at hskip
        exact ⟨(overlaps_iff b m M).mp hskip.1, hskip.2⟩
      have hmin : m ≤ b.minTime := by
        rcases hC b (by simp) hov.2 with h1 | h1
        · exact h1
        · omega
      obtain ⟨t1, t2, t3, t4⟩ := block_take sb hTM hmin
      generalize htb : takeBlock m M b = tb at h t1 t2 t3 t4
      have hstat : SameStatic tb.1 b := htb ▸ takeBlock_static m M b
      have hasc1 : Asc (vMerge mv tb.2) := asc_vMerge hasc t2
      have hle1 : ∀ p ∈ vMerge mv tb.2, p.1 ≤ M := by
        intro p hp
        rcases mem_vMerge hp with h1 | h1
        · exact hle p h1
        · exact (t3 p h1).2
      cases hr : decodePass L m M (vMerge mv tb.2) with
      | error e => rw [hr] at h; simp [Except.map] at h
      | ok r =>
        rw [hr] at h
        simp only [Except.map, Except.ok.injEq, Prod.mk.injEq] at h
        obtain ⟨rfl, rfl, rfl⟩ := h
        obtain ⟨r1, r2, r3, r4, r5, r6⟩ := ih (vMerge mv tb.2) hst' hC' hasc1 hle1 r.1 r.2.1 r.2.2 hr
        refine ⟨⟨hstat, r1⟩, ?_, r3, r4, ?_, ?_⟩
        · intro x hx
          rcases List.mem_cons.mp hx with rfl | hx'
          · exact t1
          · exact r2 x hx'
        · intro p hp
          rcases r5 p hp with h1 | h1
          · rcases mem_vMerge h1 with h2 | h2
            · exact Or.inl h2
            · exact Or.inr (t3 p h2).1
          · exact Or.inr h1
        · intro t
          simp only [restAt]
          have hr6 := r6 t
          rw [lookup_vMerge hasc t2] at hr6
          by_cases ht : t ≤ M
          · have e1 : restAt r.1 t = none := restAt_none_le r2 ht
            have e2 : lookup (live tb.1) t = none := by
              rw [t1.lookup_live]; have : ¬ M < t := by omega
              simp [this]
            rw [e1] at hr6
            rw [e1, e2, ← t4 t ht]
            simp only [Option.or_none, Option.none_or] at hr6 ⊢
            rw [hr6, Option.or_assoc]
          · have e1 : lookup r.2.2 t = none := lookup_eq_none.mpr (fun p hp heq => by have := r4 p hp; omega)
            have e2 : lookup mv t = none := lookup_eq_none.mpr (fun p hp heq => by have := hle p hp; omega)
            have e3 : lookup tb.2 t = none := lookup_eq_none.mpr (fun p hp heq => by have := (t3 p hp).2; omega)
            have e4 : lookup (live tb.1) t = lookup (live b) t := by
              rw [t1.lookup_live, sb.lookup_live]
              obtain ⟨_, _, h3, h4⟩ := hstat
              have h1 : M < t := by omega
              have h2 : T < t := by omega
              simp [h1, h2, h3, h4]
            rw [e1, e2, e3] at hr6
            simp only [Option.or_none] at hr6
            rw [e1, e2, e4, hr6]

/-! ### the outer loop -/

theorem adjFrom_same {pm : Int} : ∀ {L' L : List (Block V)}, SameStaticL L' L → AdjFrom pm L → AdjFrom pm L'
  | [], [], _, _ => trivial
  | a :: as, b :: bs, h, hadj => by
    obtain ⟨h1, h2⟩ := h
    obtain ⟨a1, a2⟩ := hadj
    refine ⟨by rw [h1.2.1]; exact a1, ?_⟩
    rw [h1.1]
    exact adjFrom_same h2 a2
  | [], _ :: _, h, _ => by simp [SameStaticL] at h
  | _ :: _, [], h, _ => by simp [SameStaticL] at h

theorem adjOK_same : ∀ {L' L : List (Block V)}, SameStaticL L' L → AdjOK L → AdjOK L'
  | [], [], _, _ => trivial
  | a :: as, b :: bs, h, hadj => by
    obtain ⟨h1, h2⟩ := h
    show AdjFrom a.minTime as
    rw [h1.1]
    exact adjFrom_same h2 hadj
  | [], _ :: _, h, _ => by simp [SameStaticL] at h
  | _ :: _, [], h, _ => by simp [SameStaticL] at h

theorem adjOK_of_adjFrom {pm : Int} : ∀ {L : List (Block V)}, AdjFrom pm L → AdjOK L
  | [], _ => trivial
  | _ :: _, h => h.2

theorem sameStaticL_length : ∀ {L' L : List (Block V)}, SameStaticL L' L → L'.length = L.length
  | [], [], _ => rfl
  | a :: as, b :: bs, h => by simp [sameStaticL_length h.2]
  | [], _ :: _, h => by simp [SameStaticL] at h
  | _ :: _, [], h => by simp [SameStaticL] at h

theorem sameStaticL_mem : ∀ {L' L : List (Block V)}, SameStaticL L' L → ∀ b' ∈ L', ∃ b ∈ L, SameStatic b' b
  | [], [], _, _, hb => by simp at hb
  | a :: as, b :: bs, h, x, hx => by
    rcases List.mem_cons.mp hx with rfl | hx'
    · exact ⟨b, by simp, h.1⟩
    · obtain ⟨y, hy, hy'⟩ := sameStaticL_mem h.2 x hx'
      exact ⟨y, List.mem_cons_of_mem _ hy, hy'⟩
  | [], _ :: _, h, _, _ => by simp [SameStaticL] at h
  | _ :: _, [], h, _, _ => by simp [SameStaticL] at h

/-- a fully read block contributes nothing any more -/
theorem live_none_of_read {T : Int} {b : Block V} (s : BlockSt T b) (hr : CompactBlock.read b = true) (t : Int) :
    lookup (live b) t = none := by
  rw [s.lookup_live]
  have hmax := s.read_iff'.mp hr
  split
  · next h =>
    apply lookup_eq_none.mpr
    intro p hp heq
    have := (s.wf.mem_range hp).2
    omega
  · rfl

theorem dropWhile_read_spec {T : Int} : ∀ (L : List (Block V)), (∀ b ∈ L, BlockSt T b) → AdjOK L →
    (∀ b ∈ L.dropWhile CompactBlock.read, b ∈ L) ∧ AdjOK (L.dropWhile CompactBlock.read) ∧
    (∀ t, restAt (L.dropWhile CompactBlock.read) t = restAt L t) ∧
    (L.dropWhile CompactBlock.read).length ≤ L.length ∧
    (∀ first rest, L.dropWhile CompactBlock.read = first :: rest → CompactBlock.read first = false)
  | [], _, _ => ⟨by simp, trivial, fun _ => rfl, Nat.le_refl _, by simp⟩
  | b :: L, hst, hadj => by
    by_cases hr : CompactBlock.read b = true
    · have hL : ∀ x ∈ L, BlockSt T x := fun x hx => hst x (List.mem_cons_of_mem _ hx)
      obtain ⟨r1, r2, r3, r4, r5⟩ := dropWhile_read_spec L hL (adjOK_of_adjFrom hadj)
      have e : (b :: L).dropWhile CompactBlock.read = L.dropWhile CompactBlock.read := by
        simp only [List.dropWhile_cons, hr, if_true]
      rw [e]
      refine ⟨fun x hx => List.mem_cons_of_mem _ (r1 x hx), r2, ?_, by simp; omega, r5⟩
      intro t
      rw [r3 t]
      simp [restAt, live_none_of_read (hst b (by simp)) hr t]
    · have e : (b :: L).dropWhile CompactBlock.read = b :: L := by
        simp only [List.dropWhile_cons, hr, Bool.false_eq_true, if_false]
      rw [e]
      refine ⟨fun x hx => hx, hadj, fun _ => rfl, Nat.le_refl _, ?_⟩
      intro first rest h
      simp only [List.cons.injEq] at h
      rw [← h.1]
      simpa using hr

theorem dedupLoop_spec (size : Nat) :
    ∀ (fuel : Nat) (blocks : List (Block V)) (mv : Pts V) (T : Int),
      (∀ b ∈ blocks, BlockSt T b) → AdjOK blocks → Asc mv → (∀ p ∈ mv, p.1 ≤ T) →
      ∀ blocks' mv', dedupLoop size fuel blocks mv = .ok (blocks', mv') →
        ∃ T', T ≤ T' ∧ (∀ b ∈ blocks', BlockSt T' b) ∧ Asc mv' ∧ (∀ p ∈ mv', p.1 ≤ T') ∧
          (∀ p ∈ mv', p ∈ mv ∨ T < p.1) ∧
          (∀ t, (restAt blocks' t).or (lookup mv' t) = (restAt blocks t).or (lookup mv t)) ∧
          blocks'.length ≤ blocks.length ∧
          (size ≤ mv'.length ∨ blocks' = []) ∧
          (∀ b' ∈ blocks', ∃ b ∈ blocks, SameStatic b' b) := by
  intro fuel
  induction fuel with
  | zero => intro blocks mv T _ _ _ _ blocks' mv' h; simp [dedupLoop, throw, throwThe, MonadExceptOf.throw] at h
  | succ fuel ih =>
    intro blocks mv T hst hadj hasc hle blocks' mv' h
    unfold dedupLoop at h
    by_cases hc : mv.length < size ∧ blocks.length > 0
    · rw [if_pos hc] at h
      obtain ⟨d1, d2, d3, d4, d5⟩ := dropWhile_read_spec blocks hst hadj
      dsimp only at h
      generalize hdw : List.dropWhile CompactBlock.read blocks = dw at h d1 d2 d3 d4 d5
      cases dw with
      | nil =>
        simp only [pure, Except.pure, Except.ok.injEq, Prod.mk.injEq] at h
        obtain ⟨rfl, rfl⟩ := h
        refine ⟨T, Int.le_refl _, by simp, hasc, hle, fun p hp => Or.inl hp, ?_, by simp, Or.inr rfl, by simp⟩
        intro t; rw [d3 t]
      | cons first rest =>
        have hstd : ∀ b ∈ first :: rest, BlockSt T b := fun b hb => hst b (d1 b hb)
        have sf := hstd first (by simp)
        have hfr : CompactBlock.read first = false := d5 first rest (by simp)
        have hfT : T < first.maxTime := by
          have : ¬ first.maxTime ≤ T := fun hle' => by
            have := sf.read_iff'.mpr hle'; simp [this] at hfr
          omega
        dsimp only at h
        cases hws : windowScan (first :: rest) first.minTime first.maxTime with
        | mk m M =>
          rw [hws] at h
          dsimp only at h
          obtain ⟨w1, w2, w3, w4, w5⟩ := windowScan_spec (first :: rest) first.minTime first.minTime first.maxTime
            hstd ⟨sf.wf.min_le_max, d2⟩ (Or.inl (Int.le_refl _)) hfT sf.wf.min_le_max m M hws
          cases hdp : decodePass (first :: rest) m M mv with
          | error e => rw [hdp] at h; simp [bind, Except.bind] at h
          | ok r =>
            rw [hdp] at h
            simp only [bind, Except.bind] at h
            obtain ⟨p1, p2, p3, p4, p5, p6⟩ := decodePass_spec w3 (first :: rest) mv hstd w5 hasc
              (fun p hp => by have := hle p hp; omega) r.1 r.2.1 r.2.2 hdp
            obtain ⟨T', q1, q2, q3, q4, q5, q6, q7, q8, q9⟩ :=
              ih r.1 r.2.2 M p2 (adjOK_same p1 d2) p3 p4 blocks' mv' h
            refine ⟨T', by omega, q2, q3, q4, ?_, ?_, ?_, q8, ?_⟩
            · intro p hp
              rcases q5 p hp with h1 | h1
              · rcases p5 p h1 with h2 | h2
                · exact Or.inl h2
                · exact Or.inr h2
              · exact Or.inr (by omega)
            · intro t
              rw [q6 t, p6 t, d3 t]
            · have := sameStaticL_length p1
              simp only [List.length_cons] at this d4
              omega
            · intro b' hb'
              obtain ⟨y, hy, hy'⟩ := q9 b' hb'
              obtain ⟨z, hz, hz'⟩ := sameStaticL_mem p1 y hy
              refine ⟨z, d1 z hz, ?_⟩
              exact ⟨hy'.1.trans hz'.1, hy'.2.1.trans hz'.2.1, hy'.2.2.1.trans hz'.2.2.1, hy'.2.2.2.trans hz'.2.2.2⟩
    · rw [if_neg hc] at h
      simp only [pure, Except.pure, Except.ok.injEq, Prod.mk.injEq] at h
      obtain ⟨rfl, rfl⟩ := h
      refine ⟨T, Int.le_refl _, hst, hasc, hle, fun p hp => Or.inl hp, fun _ => rfl, Nat.le_refl _, ?_,
        fun b hb => ⟨b, hb, SameStatic.refl b⟩⟩
      by_cases h1 : mv.length < size
      · right
        have : ¬ blocks.length > 0 := fun h2 => hc ⟨h1, h2⟩
        exact List.length_eq_zero_iff.mp (by omega)
      · left; omega

end Influx.Model.Compact
