/-
  `walkFields`, the field iterator and `Fields()` on the field text written by
  `Fields.MarshalBinary`.
-/
import Influx.Lemmas.LineProtocolFields
import Influx.Lemmas.LineProtocolOrder

namespace Influx.LP
open Influx.Generated.LineProto Influx.Spec.C11

attribute [local simp] cBS_val cComma_val cSpace_val cEq_val cQuote_val cNL_val

theorem escapeString_eq (s : Bytes) : escapeString s = escBy isEscapeChar s := by
  induction s with
  | nil => rfl
  | cons b r ih => simp only [escapeString, escBy_cons, ih]

theorem escapeStringField_eq (s : Bytes) :
    escapeStringField s = escBy (fun b => b == cQuote || b == cBS) s := by
  induction s with
  | nil => rfl
  | cons b r ih =>
    simp only [escapeStringField, escBy_cons, ih]
    by_cases h : b = cQuote ∨ b = cBS
    · have : (b == cQuote || b == cBS) = true := by rcases h with h | h <;> simp [h]
      simp [h, this]
    · have : (b == cQuote || b == cBS) = false := by
        simp only [not_or] at h; simp [h.1, h.2]
      simp [h, this]

/-! ### scanFieldValue -/

theorem scanFieldValue_plain (tok tail : Bytes) (h : ∀ b ∈ tok, b ≠ cQuote ∧ b ≠ cBS ∧ b ≠ cComma)
    (ht : tail = [] ∨ tail.head? = some cComma) :
    scanFieldValue false false (tok ++ tail) = (tok, tail) := by
  induction tok with
  | nil =>
    rcases ht with rfl | ht
    · rfl
    · cases tail with
      | nil => simp at ht
      | cons b r => simp at ht; subst ht; simp [scanFieldValue]
  | cons b t ih =>
    obtain ⟨h1, h2, h3⟩ := h b (by simp)
    rw [List.cons_append, scanFieldValue]
    simp [h1, h2, h3, ih (fun c hc => h c (by simp [hc]))]

/-- inside quotes, over an escaped string body -/
theorem scanFieldValue_body (str tail : Bytes) :
    scanFieldValue false true (escapeStringField str ++ cQuote :: tail) =
      (escapeStringField str ++ cQuote :: (scanFieldValue false false tail).1, (scanFieldValue false false tail).2) := by
  induction str with
  | nil =>
    simp only [escapeStringField, List.nil_append]
    rw [scanFieldValue]
    have : ¬ (cQuote = cBS ∧ (tail.head? = some cQuote ∨ tail.head? = some cBS)) := by
      intro h; exact absurd h.1 (by decide)
    simp [this]
  | cons b r ih =>
    by_cases hb : b = cQuote ∨ b = cBS
    · have : escapeStringField (b :: r) = cBS :: b :: escapeStringField r := by
        rw [escapeStringField, if_pos hb]
      rw [this]
      simp only [List.cons_append]
      rw [scanFieldValue]
      have hh : (cBS = cBS ∧ ((b :: (escapeStringField r ++ cQuote :: tail)).head? = some cQuote ∨
          (b :: (escapeStringField r ++ cQuote :: tail)).head? = some cBS)) := by
        refine ⟨rfl, ?_⟩; rcases hb with h | h <;> simp [h]
      rw [if_pos hh, scanFieldValue, ih]
    · have : escapeStringField (b :: r) = b :: escapeStringField r := by
        rw [escapeStringField, if_neg hb]
      rw [this]
      simp only [List.cons_append, not_or] at hb ⊢
      rw [scanFieldValue]
      have h1 : ¬ (b = cBS ∧ ((escapeStringField r ++ cQuote :: tail).head? = some cQuote ∨
          (escapeStringField r ++ cQuote :: tail).head? = some cBS)) := fun h => hb.2 h.1
      rw [if_neg h1, if_neg hb.1]
      simp [ih]

theorem scanFieldValue_string (str tail : Bytes) (ht : tail = [] ∨ tail.head? = some cComma) :
    scanFieldValue false false ((cQuote :: escapeStringField str ++ [cQuote]) ++ tail) =
      (cQuote :: escapeStringField str ++ [cQuote], tail) := by
  simp only [List.cons_append, List.append_assoc, List.nil_append]
  rw [scanFieldValue]
  have h1 : ¬ (cQuote = cBS ∧ ((escapeStringField str ++ cQuote :: tail).head? = some cQuote ∨
      (escapeStringField str ++ cQuote :: tail).head? = some cBS)) := fun h => absurd h.1 (by decide)
  rw [if_neg h1, if_pos rfl]
  simp only [Bool.not_false, scanFieldValue_body]
  have : scanFieldValue false false tail = ([], tail) := by
    simpa using scanFieldValue_plain [] tail (by simp) ht
  rw [this]

/-- bytes of the rendered numbers and booleans -/
def plainTok (tok : Bytes) : Prop := ∀ b ∈ tok, b ≠ cQuote ∧ b ≠ cBS ∧ b ≠ cComma ∧ b ≠ cSpace

theorem plainTok_digits (ds : Bytes) (h : ∀ b ∈ ds, isDigit b = true ∨ b = 45 ∨ b = 46) : plainTok ds := by
  intro b hb
  rcases h b hb with h | h | h
  · have := isDigit_ne b h
    exact ⟨this.2.2.2.2.2.2.2.2.2.1, this.2.2.2.2.2.2.2.2.2.2.1, this.2.2.2.2.2.2.2.2.1, this.2.2.2.2.2.2.2.1⟩
  · subst h; decide
  · subst h; decide

theorem plainTok_append (a b : Bytes) (ha : plainTok a) (hb : plainTok b) : plainTok (a ++ b) := by
  intro x hx
  rcases List.mem_append.mp hx with h | h
  · exact ha x h
  · exact hb x h

/-- the text of a non-string value has no quote, backslash, comma or space -/
theorem plainTok_fvText (v : FV) (hv : fieldValOK v = true) (hs : ∀ s, v ≠ .str s) : plainTok (fvText v) := by
  cases v with
  | float bits text =>
    simp only [fieldValOK, floatTextOK, Bool.and_eq_true, List.all_eq_true, Bool.or_eq_true, beq_iff_eq] at hv
    obtain ⟨_, ⟨⟨_, hall⟩, _⟩, _⟩ := hv
    apply plainTok_digits
    intro b hb
    rcases hall b hb with (h | h) | h
    · exact Or.inl h
    · exact Or.inr (Or.inr h)
    · exact Or.inr (Or.inl h)
  | int i =>
    apply plainTok_append
    · apply plainTok_digits
      intro b hb
      rcases intDigits_bytes i b hb with h | h
      · exact Or.inl h
      · exact Or.inr (Or.inl h)
    · intro b hb; simp at hb; subst hb; decide
  | uint u =>
    apply plainTok_append
    · apply plainTok_digits
      intro b hb
      exact Or.inl ((natDigits_spec u).2.1 b hb)
    · intro b hb; simp at hb; subst hb; decide
  | bool b => cases b <;> (intro x hx; revert x hx; decide)
  | str s => exact absurd rfl (hs s)

theorem scanFieldValue_fvText (v : FV) (hv : fieldValOK v = true) (tail : Bytes)
    (ht : tail = [] ∨ tail.head? = some cComma) :
    scanFieldValue false false (fvText v ++ tail) = (fvText v, tail) := by
  by_cases hs : ∃ s, v = .str s
  · obtain ⟨s, rfl⟩ := hs
    exact scanFieldValue_string s tail ht
  · have hp := plainTok_fvText v hv (fun s h => hs ⟨s, h⟩)
    exact scanFieldValue_plain _ _ (fun b hb => ⟨(hp b hb).1, (hp b hb).2.1, (hp b hb).2.2.1⟩) ht

theorem fvText_ne_nil (v : FV) (hv : fieldValOK v = true) : fvText v ≠ [] := by
  cases v with
  | float bits text =>
    simp only [fieldValOK, floatTextOK, Bool.and_eq_true, Bool.not_eq_true', List.isEmpty_eq_false_iff] at hv
    exact hv.2.1.1.1
  | int i => simp [fvText]
  | uint u => simp [fvText]
  | bool b => cases b <;> decide
  | str s => simp [fvText]

/-- a rendered value is never a lone quote -/
theorem fvText_ne_quote (v : FV) (hv : fieldValOK v = true) : fvText v ≠ [cQuote] := by
  by_cases hs : ∃ s, v = .str s
  · obtain ⟨s, rfl⟩ := hs
    simp [fvText]
  · have hp := plainTok_fvText v hv (fun s h => hs ⟨s, h⟩)
    intro e
    have := hp cQuote (by rw [e]; simp)
    exact this.1 rfl

/-! ### walkFields and the iterator over all fields -/

def fieldsText (fs : List (Bytes × FV)) : Bytes := joinCommaB (fs.map fun f => appendField f.1 f.2)

/-- what follows the first field inside `fieldsText` -/
def fieldsTail (rest : List (Bytes × FV)) : Bytes :=
  match rest with
  | [] => []
  | _ :: _ => cComma :: fieldsText rest

theorem fieldsText_cons (f : Bytes × FV) (rest : List (Bytes × FV)) :
    fieldsText (f :: rest) = appendField f.1 f.2 ++ fieldsTail rest := by
  cases rest with
  | nil => simp [fieldsText, fieldsTail, joinCommaB]
  | cons g r => simp [fieldsText, fieldsTail, joinCommaB]

theorem fieldsTail_isTail (rest : List (Bytes × FV)) :
    fieldsTail rest = [] ∨ (fieldsTail rest).head? = some cComma := by
  cases rest with
  | nil => left; rfl
  | cons g r => right; rfl

theorem fieldsTail_drop (rest : List (Bytes × FV)) : (fieldsTail rest).drop 1 = fieldsText rest := by
  cases rest with
  | nil => rfl
  | cons g r => rfl

theorem scanTo_field (k : Bytes) (v : FV) (hk : noTB k) (tail : Bytes) :
    scanTo cEq false (appendField k v ++ tail) = (escapeString k, cEq :: (fvText v ++ tail)) := by
  unfold appendField
  rw [escapeString_eq, List.append_assoc]
  exact scanTo_escBy isEscapeChar cEq (by decide) (by decide) k false _ (lastIsBS_false_of_noTB k hk)

theorem walkFieldsCheck_succ (keyLen fuel : Nat) (buf : Bytes) (h : buf ≠ []) :
    walkFieldsCheck keyLen (fuel + 1) buf =
      if (scanTo cEq false buf).2.length < 2 then .error (.invalidValue (scanTo cEq false buf).1)
      else if keyLen + 4 + (scanTo cEq false buf).1.length > MaxKeyLength then
        .error (.maxKey (keyLen + 4 + (scanTo cEq false buf).1.length))
      else if (scanFieldValue false false ((scanTo cEq false buf).2.drop 1)).1 = [cQuote] then .error .unbalancedQuotes
      else walkFieldsCheck keyLen fuel ((scanFieldValue false false ((scanTo cEq false buf).2.drop 1)).2.drop 1) := by
  cases buf with
  | nil => exact absurd rfl h
  | cons b r => rfl

theorem appendField_ne_nil (k : Bytes) (v : FV) : appendField k v ≠ [] := by simp [appendField]

theorem walkFieldsCheck_nil (keyLen fuel : Nat) : walkFieldsCheck keyLen fuel [] = .ok () := by
  cases fuel <;> rfl

theorem walkFieldsCheck_fields (fs : List (Bytes × FV)) (keyLen : Nat)
    (hall : ∀ f ∈ fs, noTB f.1 ∧ fieldValOK f.2 = true ∧ keyLen + 4 + (escapeString f.1).length ≤ MaxKeyLength)
    (fuel : Nat) (hf : fs.length ≤ fuel) : walkFieldsCheck keyLen fuel (fieldsText fs) = .ok () := by
  induction fs generalizing fuel with
  | nil => simp [fieldsText, joinCommaB, walkFieldsCheck_nil]
  | cons f rest ih =>
    obtain ⟨n, rfl⟩ : ∃ n, fuel = n + 1 := ⟨fuel - 1, by simp at hf; omega⟩
    obtain ⟨hk, hv, hlen⟩ := hall f (by simp)
    rw [fieldsText_cons, walkFieldsCheck_succ _ _ _ (by simp [appendField_ne_nil]), scanTo_field f.1 f.2 hk]
    have hvne := fvText_ne_nil f.2 hv
    have h2 : ¬ (cEq :: (fvText f.2 ++ fieldsTail rest)).length < 2 := by
      cases hh : fvText f.2 with
      | nil => exact absurd hh hvne
      | cons c t => simp
    simp only [h2, if_false, List.drop_succ_cons, List.drop_zero]
    rw [if_neg (by omega), scanFieldValue_fvText f.2 hv _ (fieldsTail_isTail rest), fieldsTail_drop]
    simp only
    rw [if_neg (fvText_ne_quote f.2 hv)]
    exact ih (fun g hg => hall g (by simp [hg])) n (by simp at hf; omega)

/-- the iterator's view of a rendered field -/
def rawFieldOf (f : Bytes × FV) : RawField :=
  ⟨f.1, (classifyValue (fvText f.2)).1, (classifyValue (fvText f.2)).2⟩

theorem escBy_head_not (S : Nat → Bool) (hbs : S cBS = false) (r : Bytes) (x : Nat)
    (h : (escBy S r).head? = some x) : S x = false := by
  cases r with
  | nil => simp at h
  | cons b r' =>
    simp only [escBy_cons] at h
    by_cases hb : S b = true
    · simp [hb] at h; rw [← h]; exact hbs
    · simp [hb] at h; rw [← h]; simpa using hb

theorem unescape_cons_keep (a : Nat) (l : Bytes) (h : ¬ (a = cBS ∧ ∃ x, l.head? = some x ∧ isEscapeChar x = true)) :
    unescape (a :: l) = a :: unescape l := by
  cases l with
  | nil => rfl
  | cons b r =>
    rw [unescape]
    have : ¬ (a = cBS ∧ isEscapeChar b = true) := fun hh => h ⟨hh.1, b, rfl, hh.2⟩
    rw [if_neg this]

/-- `escape.Unescape ∘ escape.String = id` on every byte string -/
theorem unescape_escapeString (k : Bytes) : unescape (escapeString k) = k := by
  rw [escapeString_eq]
  induction k with
  | nil => rfl
  | cons b r ih =>
    simp only [escBy_cons]
    by_cases hb : isEscapeChar b = true
    · simp only [hb, if_true]
      rw [unescape, if_pos ⟨rfl, hb⟩, ih]
    · simp only [hb, Bool.false_eq_true, if_false]
      rw [unescape_cons_keep, ih]
      intro ⟨_, x, hx, hxe⟩
      have := escBy_head_not isEscapeChar (by decide) r x hx
      rw [this] at hxe; cases hxe

theorem unescape_not_escaped (s : Bytes) (h : isEscaped s = false) : unescape s = s := by
  fun_induction isEscaped s with
  | case1 => rfl
  | case2 => rfl
  | case3 a b rest ih =>
    simp only [Bool.or_eq_false_iff, Bool.and_eq_false_iff] at h
    rw [unescape]
    have : ¬ (a = cBS ∧ isEscapeChar b = true) := by
      intro ⟨h1, h2⟩; rcases h.1 with h | h <;> simp_all
    rw [if_neg this, ih h.2]

theorem iterKey_eq (k : Bytes) :
    (if isEscaped (escapeString k) then unescape (escapeString k) else escapeString k) = k := by
  split
  · exact unescape_escapeString k
  · next h =>
    have h1 := unescape_not_escaped (escapeString k) (by simpa using h)
    rw [← h1]; exact unescape_escapeString k

theorem iterFields_succ (fuel : Nat) (buf : Bytes) (h : buf ≠ []) :
    iterFields (fuel + 1) buf =
      ⟨if isEscaped (scanTo cEq false buf).1 then unescape (scanTo cEq false buf).1 else (scanTo cEq false buf).1,
        (classifyValue (scanFieldValue false false ((scanTo cEq false buf).2.drop 1)).1).1,
        (classifyValue (scanFieldValue false false ((scanTo cEq false buf).2.drop 1)).1).2⟩ ::
      iterFields fuel ((scanFieldValue false false ((scanTo cEq false buf).2.drop 1)).2.drop 1) := by
  cases buf with
  | nil => exact absurd rfl h
  | cons b r => rfl

theorem iterFields_nil (fuel : Nat) : iterFields fuel [] = [] := by cases fuel <;> rfl

theorem iterFields_fields (fs : List (Bytes × FV))
    (hall : ∀ f ∈ fs, noTB f.1 ∧ fieldValOK f.2 = true) (fuel : Nat) (hf : fs.length ≤ fuel) :
    iterFields fuel (fieldsText fs) = fs.map rawFieldOf := by
  induction fs generalizing fuel with
  | nil => simp [fieldsText, joinCommaB, iterFields_nil]
  | cons f rest ih =>
    obtain ⟨n, rfl⟩ : ∃ n, fuel = n + 1 := ⟨fuel - 1, by simp at hf; omega⟩
    obtain ⟨hk, hv⟩ := hall f (by simp)
    rw [fieldsText_cons, iterFields_succ _ _ (by simp [appendField_ne_nil]), scanTo_field f.1 f.2 hk]
    simp only [List.drop_succ_cons, List.drop_zero]
    rw [scanFieldValue_fvText f.2 hv _ (fieldsTail_isTail rest), fieldsTail_drop, iterKey_eq,
      ih (fun g hg => hall g (by simp [hg])) n (by simp at hf; omega)]
    rfl

end Influx.LP
