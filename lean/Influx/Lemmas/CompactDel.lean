/-
  Lemmas.CompactDel — `TSMReader.DeleteRange` as modelled in Model.CompactCase
  (`RFile.deleteRange`): whatever the tombstone log, the pre-checks and the full-key
  detection do, a point of the file is gone (key removed from the index, or inside a
  tombstone of its key) exactly when a delete addressed to the file covers it.
-/
import Influx.Lemmas.CompactSnap

namespace Influx.Model.Compact
open Influx.Spec.C04

/-! ### sorted tombstone lists -/

theorem mem_tsInsert {x r : Int × Int} : ∀ {l : List (Int × Int)}, r ∈ tsInsert x l ↔ r = x ∨ r ∈ l
  | [] => by simp [tsInsert]
  | y :: ys => by
    unfold tsInsert
    split
    · simp
    · simp only [List.mem_cons, mem_tsInsert (l := ys)]
      constructor
      · rintro (h | h | h)
        · exact Or.inr (Or.inl h)
        · exact Or.inl h
        · exact Or.inr (Or.inr h)
      · rintro (h | h | h)
        · exact Or.inr (Or.inl h)
        · exact Or.inl h
        · exact Or.inr (Or.inr h)

theorem mem_tsSort {r : Int × Int} : ∀ {l : List (Int × Int)}, r ∈ tsSort l ↔ r ∈ l
  | [] => by simp [tsSort]
  | x :: xs => by
    have ih := mem_tsSort (r := r) (l := xs)
    unfold tsSort at ih ⊢
    simp only [List.foldr_cons, mem_tsInsert, ih, List.mem_cons]

/-- ascending in `Min` -/
def MinSorted (l : List (Int × Int)) : Prop := l.Pairwise (fun a b => a.1 ≤ b.1)

theorem tsInsert_sorted (x : Int × Int) : ∀ (l : List (Int × Int)), MinSorted l → MinSorted (tsInsert x l)
  | [], _ => List.pairwise_singleton _ _
  | y :: ys, h => by
    have hp := List.pairwise_cons.mp h
    unfold tsInsert
    by_cases hle : tsLe x y = true
    · rw [if_pos hle]
      have hxy : x.1 ≤ y.1 := by
        unfold tsLe at hle
        split at hle
        · omega
        · simp only [decide_eq_true_eq] at hle; omega
      refine List.pairwise_cons.mpr ⟨?_, h⟩
      intro z hz
      rcases List.mem_cons.mp hz with rfl | hz2
      · exact hxy
      · have := hp.1 z hz2; omega
    · rw [if_neg hle]
      have hyx : y.1 ≤ x.1 := by
        unfold tsLe at hle
        split at hle
        · omega
        · simp only [decide_eq_true_eq] at hle; omega
      refine List.pairwise_cons.mpr ⟨?_, tsInsert_sorted x ys hp.2⟩
      intro z hz
      rcases mem_tsInsert.mp hz with rfl | hz2
      · exact hyx
      · exact hp.1 z hz2

theorem tsSort_sorted : ∀ (l : List (Int × Int)), MinSorted (tsSort l)
  | [] => List.Pairwise.nil
  | x :: xs => by
    have ih := tsSort_sorted xs
    unfold tsSort at ih ⊢
    simp only [List.foldr_cons]
    exact tsInsert_sorted x _ ih

theorem inTombs_iff {ts : List (Int × Int)} {t : Int} :
    inTombs ts t = true ↔ ∃ r ∈ ts, r.1 ≤ t ∧ t ≤ r.2 := by
  simp [inTombs, List.any_eq_true]

/-- the chain walk of `indirectIndex.DeleteRange`: if it does not hit a gap, every time in
    the resulting window lies in one of the tombstones -/
theorem tsChain_cover : ∀ (rest : List (Int × Int)) (prev : Int × Int) (lo hi a z : Int) (seen : List (Int × Int)),
    (∀ t, lo ≤ t → t ≤ hi → ∃ r ∈ seen, r.1 ≤ t ∧ t ≤ r.2) → prev.2 ≤ hi → (∀ r ∈ rest, lo ≤ r.1) →
    tsChain prev rest lo hi = (a, z) → a < maxInt64 →
    ∀ t, a ≤ t → t ≤ z → ∃ r ∈ seen ++ rest, r.1 ≤ t ∧ t ≤ r.2
  | [], prev, lo, hi, a, z, seen, hcov, _, _, h, _ => by
    simp only [tsChain, Prod.mk.injEq] at h
    obtain ⟨rfl, rfl⟩ := h
    intro t h1 h2
    obtain ⟨r, hr, hr'⟩ := hcov t h1 h2
    exact ⟨r, by simp [hr], hr'⟩
  | ts :: rest, prev, lo, hi, a, z, seen, hcov, hprev, hlo, h, ha => by
    unfold tsChain at h
    by_cases hgap : prev.2 ≠ ts.1 - 1 ∧ ¬ (prev.1 ≤ ts.2 ∧ prev.2 ≥ ts.1)
    · rw [if_pos hgap] at h
      simp only [Prod.mk.injEq] at h
      omega
    · rw [if_neg hgap] at h
      have hts := hlo ts (by simp)
      have hlo' : (if ts.1 < lo then ts.1 else lo) = lo := by rw [if_neg (by omega)]
      rw [hlo'] at h
      have hcov' : ∀ t, lo ≤ t → t ≤ (if ts.2 > hi then ts.2 else hi) →
          ∃ r ∈ seen ++ [ts], r.1 ≤ t ∧ t ≤ r.2 := by
        intro t h1 h2
        by_cases hle : t ≤ hi
        · obtain ⟨r, hr, hr'⟩ := hcov t h1 hle
          exact ⟨r, by simp [hr], hr'⟩
        · have h3 : t ≤ ts.2 := by split at h2 <;> omega
          refine ⟨ts, by simp, ?_, h3⟩
          -- no gap between prev and ts
          apply Classical.byContradiction
          intro hlt
          apply hgap
          constructor
          · omega
          · intro hov; omega
      have := tsChain_cover rest ts lo (if ts.2 > hi then ts.2 else hi) a z (seen ++ [ts]) hcov'
        (by split <;> omega) (fun r hr => hlo r (List.mem_cons_of_mem _ hr)) h ha
      intro t h1 h2
      obtain ⟨r, hr, hr'⟩ := this t h1 h2
      refine ⟨r, ?_, hr'⟩
      simp only [List.mem_append, List.mem_cons, List.mem_singleton, List.not_mem_nil, or_false] at hr ⊢
      rcases hr with (h' | h') | h'
      · exact Or.inl h'
      · exact Or.inr (Or.inl h')
      · exact Or.inr (Or.inr h')

/-! ### one key of the index under `indexDelete` -/

/-- what the index says about the point `t` of a key in state `st`: gone? -/
def goneAt (st : Option (List (Int × Int))) (t : Int) : Bool :=
  match st with
  | none => true
  | some tombs => inTombs tombs t

/-- `times` = the timestamps of the key's points in this file; `log` = tombstone log -/
def SoundK (times : List Int) (log : List (Key × Int × Int)) (k : Key) (st : Option (List (Int × Int))) : Prop :=
  match st with
  | some tombs => ∀ r ∈ tombs, (k, r.1, r.2) ∈ log
  | none => ∀ t ∈ times, ∃ e ∈ log, e.1 = k ∧ e.2.1 ≤ t ∧ t ≤ e.2.2

def CompleteK (times : List Int) (L : List (Key × Int × Int)) (k : Key) (st : Option (List (Int × Int))) : Prop :=
  ∀ e ∈ L, e.1 = k → ∀ t ∈ times, e.2.1 ≤ t → t ≤ e.2.2 → goneAt st t = true

theorem indexDelete_spec (times : List Int) (log : List (Key × Int × Int)) (k : Key)
    (fmin fmax kmin kmax lo hi : Int) (st : Option (List (Int × Int)))
    (hin : ∀ t ∈ times, InR t) (hf : ∀ t ∈ times, fmin ≤ t ∧ t ≤ fmax) (hk : ∀ t ∈ times, kmin ≤ t ∧ t ≤ kmax)
    (hlog : (k, lo, hi) ∈ log) (hs : SoundK times log k st) :
    SoundK times log k (indexDelete fmin fmax kmin kmax lo hi st) ∧
    (∀ t, goneAt st t = true → goneAt (indexDelete fmin fmax kmin kmax lo hi st) t = true) ∧
    (∀ t ∈ times, lo ≤ t → t ≤ hi → goneAt (indexDelete fmin fmax kmin kmax lo hi st) t = true) := by
  cases st with
  | none => exact ⟨hs, fun _ h => h, fun _ _ _ _ => rfl⟩
  | some existing =>
    unfold indexDelete
    simp only
    have hall : ∀ t ∈ times, (lo ≤ t ∧ t ≤ hi) → ∃ e ∈ log, e.1 = k ∧ e.2.1 ≤ t ∧ t ≤ e.2.2 :=
      fun t _ h => ⟨(k, lo, hi), hlog, rfl, h.1, h.2⟩
    by_cases h1 : lo = minInt64 ∧ hi = maxInt64
    · rw [if_pos h1]
      refine ⟨?_, fun _ _ => rfl, fun _ _ _ _ => rfl⟩
      intro t ht
      have := hin t ht
      unfold InR at this
      exact hall t ht ⟨by omega, by omega⟩
    · rw [if_neg h1]
      by_cases h2 : lo > fmax ∨ hi < fmin
      · rw [if_pos h2]
        refine ⟨hs, fun _ h => h, ?_⟩
        intro t ht h3 h4
        have := hf t ht; omega
      · rw [if_neg h2]
        by_cases h3 : lo > kmax ∨ hi < kmin
        · rw [if_pos h3]
          refine ⟨hs, fun _ h => h, ?_⟩
          intro t ht h4 h5
          have := hk t ht; omega
        · rw [if_neg h3]
          by_cases h4 : lo ≤ kmin ∧ hi ≥ kmax
          · rw [if_pos h4]
            refine ⟨?_, fun _ _ => rfl, fun _ _ _ _ => rfl⟩
            intro t ht
            have := hk t ht
            exact hall t ht ⟨by omega, by omega⟩
          · rw [if_neg h4]
            have hmem : ∀ r, r ∈ tsSort (existing ++ [(lo, hi)]) ↔ (r ∈ existing ∨ r = (lo, hi)) := by
              intro r; rw [mem_tsSort]; simp
            have hsound' : ∀ r ∈ tsSort (existing ++ [(lo, hi)]), (k, r.1, r.2) ∈ log := by
              intro r hr
              rcases (hmem r).mp hr with h | rfl
              · exact hs r h
              · exact hlog
            have hmono : ∀ t, inTombs existing t = true → inTombs (tsSort (existing ++ [(lo, hi)])) t = true := by
              intro t ht
              obtain ⟨r, hr, hr'⟩ := inTombs_iff.mp ht
              exact inTombs_iff.mpr ⟨r, (hmem r).mpr (Or.inl hr), hr'⟩
            have hnew : ∀ t, lo ≤ t → t ≤ hi → inTombs (tsSort (existing ++ [(lo, hi)])) t = true :=
              fun t h5 h6 => inTombs_iff.mpr ⟨(lo, hi), (hmem _).mpr (Or.inr rfl), h5, h6⟩
            cases hsorted : tsSort (existing ++ [(lo, hi)]) with
            | nil =>
              have : (lo, hi) ∈ tsSort (existing ++ [(lo, hi)]) := (hmem _).mpr (Or.inr rfl)
              rw [hsorted] at this; simp at this
            | cons t0 rest =>
              simp only
              rw [hsorted] at hsound' hmono hnew
              cases hch : tsChain t0 rest t0.1 t0.2 with
              | mk a z =>
              simp only
              by_cases h5 : a ≤ kmin ∧ z ≥ kmax
              · rw [if_pos h5]
                refine ⟨?_, fun _ _ => rfl, fun _ _ _ _ => rfl⟩
                intro t ht
                have hkt := hk t ht
                have hit := hin t ht
                unfold InR at hit
                have hsrt := tsSort_sorted (existing ++ [(lo, hi)])
                rw [hsorted] at hsrt
                have hcover := tsChain_cover rest t0 t0.1 t0.2 a z [t0]
                  (fun t h6 h7 => ⟨t0, by simp, h6, h7⟩) (Int.le_refl _)
                  (fun r hr => (List.pairwise_cons.mp hsrt).1 r hr) hch (by omega) t (by omega) (by omega)
                obtain ⟨r, hr, hr1, hr2⟩ := hcover
                exact ⟨(k, r.1, r.2), hsound' r (by simpa using hr), rfl, hr1, hr2⟩
              · rw [if_neg h5]
                exact ⟨hsound', hmono, fun t _ h6 h7 => hnew t h6 h7⟩


/-! ### the static part of a reader: its blocks -/

/-- the key map of one file: ascending keys, non-empty runs, every run a chain -/
structure BOK (B : List (Key × List (Pts Int))) : Prop where
  asc : KeysAsc B
  ne : ∀ e ∈ B, e.2 ≠ []
  chain : ∀ k, ChainOK (getK B k)

/-- the timestamps of key `k` in the file -/
def timesOf (B : List (Key × List (Pts Int))) (k : Key) : List Int := (getK B k).flatten.map (·.1)

theorem getK_of_mem : ∀ {B : List (Key × List (Pts Int))}, KeysAsc B → ∀ {k : Key} {bs : List (Pts Int)},
    (k, bs) ∈ B → getK B k = bs
  | [], _, _, _, h => by simp at h
  | e :: rest, hs, k, bs, h => by
    have hp := List.pairwise_cons.mp hs
    rcases List.mem_cons.mp h with rfl | h2
    · have : getK rest k = [] := by
        simp only [getK, List.flatMap_eq_nil_iff]
        intro x hx
        have hm := (List.mem_filter.mp hx).1
        have hk := (List.mem_filter.mp hx).2
        simp only [decide_eq_true_eq] at hk
        have := hp.1 x hm
        rw [hk] at this
        simp only at this
        rw [keyLt_irrefl] at this; cases this
      simp only [getK, List.filter_cons, decide_true, if_true, List.flatMap_cons] at this ⊢
      simp [this]
    · have hne : e.1 ≠ k := by
        intro heq
        have := hp.1 (k, bs) h2
        rw [heq] at this
        simp only at this
        rw [keyLt_irrefl] at this; cases this
      have ih := getK_of_mem hp.2 h2
      simp only [getK, List.filter_cons, hne, decide_false] at ih ⊢
      exact ih

theorem getK_nil_of_not_mem {B : List (Key × List (Pts Int))} {k : Key} (h : ∀ e ∈ B, e.1 ≠ k) : getK B k = [] := by
  simp only [getK, List.flatMap_eq_nil_iff]
  intro x hx
  have hm := (List.mem_filter.mp hx).1
  have hk := (List.mem_filter.mp hx).2
  simp only [decide_eq_true_eq] at hk
  exact absurd hk (h x hm)

theorem mem_timesOf {B : List (Key × List (Pts Int))} {k : Key} {t : Int} :
    t ∈ timesOf B k ↔ ∃ b ∈ getK B k, ∃ p ∈ b, p.1 = t := by
  simp only [timesOf, List.mem_map, List.mem_flatten]
  constructor
  · rintro ⟨p, ⟨b, hb, hp⟩, rfl⟩; exact ⟨b, hb, p, hp, rfl⟩
  · rintro ⟨b, hb, p, hp, rfl⟩; exact ⟨p, ⟨b, hb, hp⟩, rfl⟩

theorem chain_ge_first : ∀ (L : List (Pts Int)), ChainOK L → ∀ b0, L.head? = some b0 → ∀ a, b0.head? = some a →
    ∀ c ∈ L, ∀ p ∈ c, a.1 ≤ p.1
  | [], _, _, h, _, _, _, _, _, _ => by simp at h
  | b :: L, hc, b0, h, a, ha, c, hcm, p, hp => by
    simp at h; subst h
    rcases List.mem_cons.mp hcm with rfl | h2
    · exact asc_head_le hc.2.1 ha p hp
    · have := hc.2.2.2.1 c h2 a (List.mem_of_head? ha) p hp
      omega

theorem chain_times_inR {L : List (Pts Int)} (hc : ChainOK L) : ∀ c ∈ L, ∀ p ∈ c, InR p.1 :=
  fun c hcm p hp => (chain_mem_facts L hc c hcm).2.2 p hp

theorem foldl_min_le (l : List Int) : ∀ (init : Int),
    l.foldl (fun a b => if b < a then b else a) init ≤ init ∧
    ∀ x ∈ l, l.foldl (fun a b => if b < a then b else a) init ≤ x := by
  induction l with
  | nil => intro init; simp
  | cons y ys ih =>
    intro init
    simp only [List.foldl_cons]
    have hm : (if y < init then y else init) ≤ init ∧ (if y < init then y else init) ≤ y := by
      split <;> omega
    generalize (if y < init then y else init) = m at hm ⊢
    obtain ⟨i1, i2⟩ := ih m
    refine ⟨by omega, ?_⟩
    intro x hx
    rcases List.mem_cons.mp hx with rfl | h2
    · omega
    · exact i2 x h2

theorem foldl_max_ge (l : List Int) : ∀ (init : Int),
    init ≤ l.foldl (fun a b => if b > a then b else a) init ∧
    ∀ x ∈ l, x ≤ l.foldl (fun a b => if b > a then b else a) init := by
  induction l with
  | nil => intro init; simp
  | cons y ys ih =>
    intro init
    simp only [List.foldl_cons]
    have hm : init ≤ (if y > init then y else init) ∧ y ≤ (if y > init then y else init) := by
      split <;> omega
    generalize (if y > init then y else init) = m at hm ⊢
    obtain ⟨i1, i2⟩ := ih m
    refine ⟨by omega, ?_⟩
    intro x hx
    rcases List.mem_cons.mp hx with rfl | h2
    · omega
    · exact i2 x h2

theorem ptsFirst_le {b : Pts Int} (ha : Asc b) {p : Int × Int} (hp : p ∈ b) : ptsFirst b ≤ p.1 := by
  cases b with
  | nil => simp at hp
  | cons x xs => simpa [ptsFirst] using asc_head_le ha (by rfl) p hp

theorem le_ptsLast {b : Pts Int} (ha : Asc b) {p : Int × Int} (hp : p ∈ b) : p.1 ≤ ptsLast b := by
  have hne : b ≠ [] := by intro h; rw [h] at hp; simp at hp
  obtain ⟨a, z, _, hz⟩ := head_getLast_of_ne hne
  simpa [ptsLast, hz] using asc_le_last ha hz p hp

/-- every point of the file lies within the file's time range -/
theorem file_range {B : List (Key × List (Pts Int))} (ok : BOK B) (rf : RFile) (hb : rf.blocks = B)
    {k : Key} {t : Int} (ht : t ∈ timesOf B k) : rf.fmin ≤ t ∧ t ≤ rf.fmax := by
  obtain ⟨b, hbm, p, hp, rfl⟩ := mem_timesOf.mp ht
  have hasc := (chain_mem_facts _ (ok.chain k) b hbm).2.1
  have hin : ∃ kb ∈ B, b ∈ kb.2 := by
    simp only [getK, List.mem_flatMap, List.mem_filter] at hbm
    obtain ⟨kb, ⟨h1, _⟩, h2⟩ := hbm
    exact ⟨kb, h1, h2⟩
  obtain ⟨kb, hkb, hbk⟩ := hin
  constructor
  · have : ptsFirst b ∈ B.flatMap (fun kb => kb.2.map ptsFirst) := by
      simp only [List.mem_flatMap, List.mem_map]
      exact ⟨kb, hkb, b, hbk, rfl⟩
    have h1 := (foldl_min_le _ maxInt64).2 _ this
    have h2 := ptsFirst_le hasc hp
    unfold RFile.fmin; rw [hb]; omega
  · have : ptsLast b ∈ B.flatMap (fun kb => kb.2.map ptsLast) := by
      simp only [List.mem_flatMap, List.mem_map]
      exact ⟨kb, hkb, b, hbk, rfl⟩
    have h1 := (foldl_max_ge _ minInt64).2 _ this
    have h2 := le_ptsLast hasc hp
    unfold RFile.fmax; rw [hb]; omega

/-- `keyRange` bounds the key's points; without a range the key has no points -/
theorem keyRange_spec {B : List (Key × List (Pts Int))} (ok : BOK B) (rf : RFile) (hb : rf.blocks = B) (k : Key) :
    match rf.keyRange k with
    | some (kmin, kmax) => ∀ t ∈ timesOf B k, kmin ≤ t ∧ t ≤ kmax
    | none => timesOf B k = [] := by
  unfold RFile.keyRange
  rw [hb]
  cases hf : B.find? (fun kb => decide (kb.1 = k)) with
  | none =>
    simp only
    have : ∀ e ∈ B, e.1 ≠ k := by
      intro e he heq
      have := List.find?_eq_none.mp hf e he
      simp [heq] at this
    simp [timesOf, getK_nil_of_not_mem this]
  | some kb =>
    obtain ⟨k', bs⟩ := kb
    have hm := List.mem_of_find?_eq_some hf
    have hk : k' = k := by simpa using List.find?_some hf
    subst hk
    have hg := getK_of_mem ok.asc hm
    simp only
    cases hh : bs.head? with
    | none =>
      have : bs = [] := List.head?_eq_none_iff.mp hh
      exact absurd this (ok.ne _ hm)
    | some b0 =>
      have hne : bs ≠ [] := ok.ne _ hm
      obtain ⟨b1, hl⟩ : ∃ b1, bs.getLast? = some b1 := ⟨_, List.getLast?_eq_some_getLast hne⟩
      simp only [hl]
      intro t ht
      obtain ⟨b, hbm, p, hp, rfl⟩ := mem_timesOf.mp ht
      rw [hg] at hbm
      have hch := ok.chain k'
      rw [hg] at hch
      have f0 := chain_mem_facts _ hch b0 (List.mem_of_head? hh)
      have f1 := chain_mem_facts _ hch b1 (List.mem_of_getLast? hl)
      obtain ⟨a, _, ha, _⟩ := head_getLast_of_ne f0.1
      obtain ⟨_, z, _, hz⟩ := head_getLast_of_ne f1.1
      have h1 := chain_ge_first bs hch b0 hh a ha b hbm p hp
      have h2 := chain_le_last bs hch b1 hl z hz b hbm p hp
      simp only [ptsFirst, ha, ptsLast, hz, Option.map_some, Option.getD_some]
      exact ⟨h1, h2⟩


/-! ### the index of a reader under `deleteRange` -/

/-- the new state of key `k` when the log entry `e` is applied -/
def updK (rf : RFile) (e : Key × Int × Int) (k : Key) (st : Option (List (Int × Int))) : Option (List (Int × Int)) :=
  if k = e.1 then
    match rf.keyRange k with
    | some (kmin, kmax) => indexDelete rf.fmin rf.fmax kmin kmax e.2.1 e.2.2 st
    | none => st
  else st

theorem applyEntry_eq (rf : RFile) (ix : IndexSt) (e : Key × Int × Int) :
    rf.applyEntry ix e = ix.map fun x => (x.1, updK rf e x.1 x.2) := by
  unfold RFile.applyEntry
  apply List.map_congr_left
  rintro ⟨k, cur⟩ _
  simp only [updK]
  by_cases hk : k = e.1
  · simp only [hk, if_true]
    cases rf.keyRange e.1 with
    | none => rfl
    | some r => obtain ⟨a, b⟩ := r; rfl
  · simp [hk]

theorem updK_spec {B : List (Key × List (Pts Int))} (ok : BOK B) (rf : RFile) (hb : rf.blocks = B)
    (log : List (Key × Int × Int)) (e : Key × Int × Int) (he : e ∈ log) (k : Key) (st : Option (List (Int × Int)))
    (hs : SoundK (timesOf B k) log k st) :
    SoundK (timesOf B k) log k (updK rf e k st) ∧
    (∀ t, goneAt st t = true → goneAt (updK rf e k st) t = true) ∧
    (st = none → updK rf e k st = none) ∧
    (k = e.1 → ∀ t ∈ timesOf B k, e.2.1 ≤ t → t ≤ e.2.2 → goneAt (updK rf e k st) t = true) := by
  unfold updK
  by_cases hk : k = e.1
  · rw [if_pos hk]
    have hkr := keyRange_spec ok rf hb k
    cases hr : rf.keyRange k with
    | none =>
      rw [hr] at hkr
      simp only at hkr ⊢
      refine ⟨hs, fun _ h => h, fun h => h, ?_⟩
      intro _ t ht
      rw [hkr] at ht; simp at ht
    | some r =>
      obtain ⟨kmin, kmax⟩ := r
      rw [hr] at hkr
      simp only at hkr ⊢
      have hin : ∀ t ∈ timesOf B k, InR t := by
        intro t ht
        obtain ⟨b, hbm, p, hp, rfl⟩ := mem_timesOf.mp ht
        exact chain_times_inR (ok.chain k) b hbm p hp
      have hlog : (k, e.2.1, e.2.2) ∈ log := by rw [hk]; exact he
      obtain ⟨s1, s2, s3⟩ := indexDelete_spec (timesOf B k) log k rf.fmin rf.fmax kmin kmax e.2.1 e.2.2 st hin
        (fun t ht => file_range ok rf hb ht) hkr hlog hs
      refine ⟨s1, s2, ?_, fun _ => s3⟩
      intro hn; subst hn; rfl
  · rw [if_neg hk]
    exact ⟨hs, fun _ h => h, fun h => h, fun h => absurd h hk⟩

theorem foldl_applyEntry_spec {B : List (Key × List (Pts Int))} (ok : BOK B) (rf : RFile) (hb : rf.blocks = B)
    (log : List (Key × Int × Int)) : ∀ (L : List (Key × Int × Int)) (ix0 : IndexSt),
    (∀ e ∈ L, e ∈ log) → (∀ k st, (k, st) ∈ ix0 → SoundK (timesOf B k) log k st) →
    (L.foldl rf.applyEntry ix0).map (·.1) = ix0.map (·.1) ∧
    (∀ k st', (k, st') ∈ L.foldl rf.applyEntry ix0 → SoundK (timesOf B k) log k st') ∧
    (∀ k st', (k, st') ∈ L.foldl rf.applyEntry ix0 → ∃ st, (k, st) ∈ ix0 ∧
      (∀ t, goneAt st t = true → goneAt st' t = true) ∧ (st = none → st' = none)) ∧
    (∀ k st', (k, st') ∈ L.foldl rf.applyEntry ix0 → CompleteK (timesOf B k) L k st')
  | [], ix0, _, hs => by
    refine ⟨rfl, hs, ?_, ?_⟩
    · intro k st' h; exact ⟨st', h, fun _ h => h, fun h => h⟩
    · intro k st' _ e he; simp at he
  | e :: L, ix0, hL, hs => by
    simp only [List.foldl_cons]
    have he : e ∈ log := hL e (by simp)
    -- one step
    have hmem1 : ∀ k st1, (k, st1) ∈ rf.applyEntry ix0 e → ∃ st, (k, st) ∈ ix0 ∧ st1 = updK rf e k st := by
      intro k st1 h
      rw [applyEntry_eq] at h
      simp only [List.mem_map, Prod.mk.injEq] at h
      obtain ⟨x, hx, rfl, rfl⟩ := h
      exact ⟨x.2, hx, rfl⟩
    have hs1 : ∀ k st1, (k, st1) ∈ rf.applyEntry ix0 e → SoundK (timesOf B k) log k st1 := by
      intro k st1 h
      obtain ⟨st, hst, rfl⟩ := hmem1 k st1 h
      exact (updK_spec ok rf hb log e he k st (hs k st hst)).1
    obtain ⟨i1, i2, i3, i4⟩ := foldl_applyEntry_spec ok rf hb log L (rf.applyEntry ix0 e)
      (fun x hx => hL x (List.mem_cons_of_mem _ hx)) hs1
    refine ⟨?_, i2, ?_, ?_⟩
    · rw [i1, applyEntry_eq]; simp [List.map_map]
    · intro k st' h
      obtain ⟨st1, h1, m1, n1⟩ := i3 k st' h
      obtain ⟨st, hst, rfl⟩ := hmem1 k st1 h1
      obtain ⟨_, u2, u3, _⟩ := updK_spec ok rf hb log e he k st (hs k st hst)
      exact ⟨st, hst, fun t ht => m1 t (u2 t ht), fun hn => n1 (u3 hn)⟩
    · intro k st' h x hx hxk t ht h1 h2
      obtain ⟨st1, hm1, m1, _⟩ := i3 k st' h
      rcases List.mem_cons.mp hx with rfl | hx2
      · obtain ⟨st, hst, rfl⟩ := hmem1 k st1 hm1
        obtain ⟨_, _, _, u4⟩ := updK_spec ok rf hb log x he k st (hs k st hst)
        exact m1 t (u4 hxk.symm t ht h1 h2)
      · exact i4 k st' h x hx2 hxk t ht h1 h2

abbrev DelCall := List Key × Int × Int

/-- the reader after the delete calls `done` -/
structure RInv (B : List (Key × List (Pts Int))) (rf : RFile) (done : List DelCall) : Prop where
  blocks : rf.blocks = B
  keys : rf.index.map (·.1) = B.map (·.1)
  sound : ∀ k st, (k, st) ∈ rf.index → SoundK (timesOf B k) rf.log k st
  complete : ∀ k st, (k, st) ∈ rf.index → CompleteK (timesOf B k) rf.log k st
  logFrom : ∀ e ∈ rf.log, ∃ d ∈ done, e.1 ∈ d.1 ∧ e.2 = d.2
  eff : ∀ d ∈ done, ∀ k ∈ d.1, ∀ st, (k, st) ∈ rf.index → ∀ t ∈ timesOf B k, d.2.1 ≤ t → t ≤ d.2.2 →
    st = none ∨ (k, d.2.1, d.2.2) ∈ rf.log

theorem rinv_init {B : List (Key × List (Pts Int))} : RInv B (mkRFile B) [] := by
  refine ⟨rfl, by simp [mkRFile, List.map_map], ?_, ?_, by simp [mkRFile], by simp⟩
  · intro k st h
    simp only [mkRFile, List.mem_map, Prod.mk.injEq] at h
    obtain ⟨x, _, _, rfl⟩ := h
    simp [SoundK]
  · intro k st _ e he; simp [mkRFile] at he

theorem keysAsc_pairwise : ∀ (l : List Key), keysAsc l = true → l.Pairwise (fun a b => keyLt a b = true)
  | [], _ => List.Pairwise.nil
  | [_], _ => List.pairwise_singleton _ _
  | a :: b :: rest, h => by
    simp only [keysAsc, Bool.and_eq_true] at h
    have ih := keysAsc_pairwise (b :: rest) h.2
    have hp := List.pairwise_cons.mp ih
    refine List.pairwise_cons.mpr ⟨?_, ih⟩
    intro x hx
    rcases List.mem_cons.mp hx with rfl | hx2
    · exact h.1
    · exact keyLt_trans h.1 (hp.1 x hx2)

theorem pairwise_head_le {α : Type} {R : α → α → Prop} {l : List α} (hp : l.Pairwise R) {h x : α}
    (hh : l.head? = some h) (hx : x ∈ l) : x = h ∨ R h x := by
  cases l with
  | nil => simp at hh
  | cons y ys =>
    simp at hh; subst hh
    rcases List.mem_cons.mp hx with rfl | h2
    · exact Or.inl rfl
    · exact Or.inr ((List.pairwise_cons.mp hp).1 x h2)

theorem pairwise_le_last {α : Type} {R : α → α → Prop} {l : List α} (hp : l.Pairwise R) {z x : α}
    (hz : l.getLast? = some z) (hx : x ∈ l) : x = z ∨ R x z := by
  obtain ⟨ys, rfl⟩ := List.getLast?_eq_some_iff.mp hz
  rcases List.mem_append.mp hx with h1 | h1
  · exact Or.inr ((List.pairwise_append.mp hp).2.2 x h1 z (by simp))
  · simp at h1; exact Or.inl h1

/-- the part of `deleteRange` that logs the call and applies the new log entries -/
theorem deleteRange_main {B : List (Key × List (Pts Int))} (ok : BOK B) (rf : RFile) (done : List DelCall)
    (inv : RInv B rf done) (keys : List Key) (lo hi : Int) (present : List Key)
    (hpres : ∀ k, k ∈ present ↔ (k ∈ keys ∧ ∃ tombs, (k, some tombs) ∈ rf.index)) :
    RInv B { rf with log := rf.log ++ present.map (fun k => (k, lo, hi)),
                     index := (present.map (fun k => (k, lo, hi))).foldl rf.applyEntry rf.index }
      (done ++ [(keys, lo, hi)]) := by
  generalize hadd : present.map (fun k => (k, lo, hi)) = added
  generalize hlog' : rf.log ++ added = log'
  have hsub : ∀ e ∈ rf.log, e ∈ log' := fun e he => by rw [← hlog']; exact List.mem_append_left _ he
  have hsub2 : ∀ e ∈ added, e ∈ log' := fun e he => by rw [← hlog']; exact List.mem_append_right _ he
  have hs0 : ∀ k st, (k, st) ∈ rf.index → SoundK (timesOf B k) log' k st := by
    intro k st h
    have := inv.sound k st h
    cases st with
    | none =>
      intro t ht
      obtain ⟨e, he, he'⟩ := this t ht
      exact ⟨e, hsub e he, he'⟩
    | some tombs => exact fun r hr => hsub _ (this r hr)
  obtain ⟨f1, f2, f3, f4⟩ := foldl_applyEntry_spec ok rf inv.blocks log' added rf.index hsub2 hs0
  refine ⟨inv.blocks, by show (List.foldl rf.applyEntry rf.index added).map (·.1) = _; rw [f1]; exact inv.keys, f2, ?_, ?_, ?_⟩
  · intro k st' hst' e he hek t ht h1 h2
    have he' : e ∈ log' := he
    rw [← hlog'] at he'
    rcases List.mem_append.mp he' with h | h
    · obtain ⟨st, hst, hmono, _⟩ := f3 k st' hst'
      exact hmono t (inv.complete k st hst e h hek t ht h1 h2)
    · exact f4 k st' hst' e h hek t ht h1 h2
  · intro e he
    show ∃ d ∈ done ++ [(keys, lo, hi)], e.1 ∈ d.1 ∧ e.2 = d.2
    have he' : e ∈ log' := he
    rw [← hlog'] at he'
    rcases List.mem_append.mp he' with h | h
    · obtain ⟨d, hd, hd'⟩ := inv.logFrom e h
      exact ⟨d, List.mem_append_left _ hd, hd'⟩
    · rw [← hadd] at h
      simp only [List.mem_map] at h
      obtain ⟨k, hk, rfl⟩ := h
      exact ⟨(keys, lo, hi), by simp, ((hpres k).mp hk).1, rfl⟩
  · intro d hd k hk st' hst' t ht h1 h2
    show st' = none ∨ (k, d.2.1, d.2.2) ∈ log'
    obtain ⟨st, hst, _, hn⟩ := f3 k st' hst'
    rcases List.mem_append.mp hd with h | h
    · rcases inv.eff d h k hk st hst t ht h1 h2 with h3 | h3
      · exact Or.inl (hn h3)
      · exact Or.inr (hsub _ h3)
    · simp at h; subst h
      cases st with
      | none => exact Or.inl (hn rfl)
      | some tombs =>
        right
        apply hsub2
        rw [← hadd]
        simp only [List.mem_map]
        exact ⟨k, (hpres k).mpr ⟨hk, tombs, hst⟩, rfl⟩

/-- one `TSMReader.DeleteRange` call -/
theorem deleteRange_inv {B : List (Key × List (Pts Int))} (ok : BOK B) (rf : RFile) (done : List DelCall)
    (inv : RInv B rf done) (keys : List Key) (lo hi : Int) (hkeys : keysAsc keys = true) :
    RInv B (rf.deleteRange keys lo hi) (done ++ [(keys, lo, hi)]) := by
  -- the call leaves the reader alone: then it covers no point of the file
  have unchanged : (∀ k ∈ keys, ∀ st, (k, st) ∈ rf.index → ∀ t ∈ timesOf B k, lo ≤ t → t ≤ hi → False) →
      RInv B rf (done ++ [(keys, lo, hi)]) := by
    intro hno
    refine ⟨inv.blocks, inv.keys, inv.sound, inv.complete, ?_, ?_⟩
    · intro e he
      obtain ⟨d, hd, hd'⟩ := inv.logFrom e he
      exact ⟨d, List.mem_append_left _ hd, hd'⟩
    · intro d hd k hk st hst t ht h1 h2
      rcases List.mem_append.mp hd with h | h
      · exact inv.eff d h k hk st hst t ht h1 h2
      · simp at h; subst h
        exact absurd (hno k hk st hst t ht h1 h2) id
  unfold RFile.deleteRange
  cases hk0 : keys.head? with
  | none =>
    simp only
    apply unchanged
    intro k hk
    have : keys = [] := List.head?_eq_none_iff.mp hk0
    rw [this] at hk; simp at hk
  | some k0 =>
  have hkne : keys ≠ [] := by intro h; rw [h] at hk0; simp at hk0
  obtain ⟨k1, hk1⟩ : ∃ k1, keys.getLast? = some k1 := ⟨_, List.getLast?_eq_some_getLast hkne⟩
  simp only [hk1]
  cases hb0 : rf.blocks.head? with
  | none =>
    simp only
    apply unchanged
    intro k _ st hst
    have hB : B = [] := by rw [← inv.blocks]; exact List.head?_eq_none_iff.mp hb0
    have := inv.keys
    rw [hB] at this
    simp only [List.map_nil, List.map_eq_nil_iff] at this
    rw [this] at hst; simp at hst
  | some fb0 =>
  have hBne : rf.blocks ≠ [] := by intro h; rw [h] at hb0; simp at hb0
  obtain ⟨fb1, hb1⟩ : ∃ fb1, rf.blocks.getLast? = some fb1 := ⟨_, List.getLast?_eq_some_getLast hBne⟩
  obtain ⟨fk0, fbs0⟩ := fb0
  obtain ⟨fk1, fbs1⟩ := fb1
  simp only [hb1]
  have hb0' : B.head? = some (fk0, fbs0) := by rw [← inv.blocks]; exact hb0
  have hb1' : B.getLast? = some (fk1, fbs1) := by rw [← inv.blocks]; exact hb1
  have hkp := keysAsc_pairwise keys hkeys
  -- a key of the call that is in the index lies within both key ranges
  have hinB : ∀ k st, (k, st) ∈ rf.index → ∃ e ∈ B, e.1 = k := by
    intro k st hst
    have : k ∈ rf.index.map (·.1) := List.mem_map.mpr ⟨(k, st), hst, rfl⟩
    rw [inv.keys] at this
    obtain ⟨e, he, hek⟩ := List.mem_map.mp this
    exact ⟨e, he, hek⟩
  by_cases hkr : (!(keyLe fk0 k1 && keyLe k0 fk1)) = true
  · rw [if_pos hkr]
    apply unchanged
    intro k hk st hst t _ _ _
    obtain ⟨e, he, hek⟩ := hinB k st hst
    have h1 : k = k0 ∨ keyLt k0 k = true := pairwise_head_le hkp hk0 hk
    have h2 : k = k1 ∨ keyLt k k1 = true := pairwise_le_last hkp hk1 hk
    have h3 : e = (fk0, fbs0) ∨ keyLt fk0 e.1 = true := pairwise_head_le ok.asc hb0' he
    have h4 : e = (fk1, fbs1) ∨ keyLt e.1 fk1 = true := pairwise_le_last ok.asc hb1' he
    have hle1 : keyLt k1 fk0 = false := by
      cases hx : keyLt k1 fk0 with
      | false => rfl
      | true =>
        exfalso
        have a1 : keyLt k fk0 = true := by
          rcases h2 with rfl | h2
          · exact hx
          · exact keyLt_trans h2 hx
        rcases h3 with rfl | h3
        · simp only at hek; rw [hek, keyLt_irrefl] at a1; cases a1
        · rw [hek] at h3; have := keyLt_asymm h3; rw [a1] at this; cases this
    have hle2 : keyLt fk1 k0 = false := by
      cases hx : keyLt fk1 k0 with
      | false => rfl
      | true =>
        exfalso
        have a1 : keyLt fk1 k = true := by
          rcases h1 with rfl | h1
          · exact hx
          · exact keyLt_trans hx h1
        rcases h4 with rfl | h4
        · simp only at hek; rw [hek, keyLt_irrefl] at a1; cases a1
        · rw [hek] at h4; have := keyLt_asymm h4; rw [a1] at this; cases this
    simp [keyLe, hle1, hle2] at hkr
  · rw [if_neg hkr]
    by_cases htr : (!(decide (rf.fmin ≤ hi) && decide (rf.fmax ≥ lo))) = true
    · rw [if_pos htr]
      apply unchanged
      intro k _ st _ t ht h1 h2
      have := file_range ok rf inv.blocks ht
      simp only [Bool.not_eq_true', Bool.and_eq_false_iff, decide_eq_false_iff_not] at htr
      rcases htr with h | h <;> omega
    · rw [if_neg htr]
      apply deleteRange_main ok rf done inv keys lo hi
      intro k
      simp only [List.mem_filter, List.any_eq_true, Bool.and_eq_true, beq_iff_eq]
      constructor
      · rintro ⟨hk, ⟨k', cur⟩, hm, hkk, hs⟩
        simp only [decide_eq_true_eq] at hkk hs
        subst hkk
        cases cur with
        | none => simp at hs
        | some tombs => exact ⟨hk, tombs, hm⟩
      · rintro ⟨hk, tombs, hm⟩
        exact ⟨hk, (k, some tombs), hm, by simp, rfl⟩


/-! ### the readers of a case -/

/-- the delete calls addressed to file `f`, in op order -/
def delsOf (f : Nat) (ops : List Op) : List DelCall :=
  ops.filterMap fun op => match op with
    | Op.del f' keys lo hi => if f' = f then some (keys, lo, hi) else none
    | _ => none

/-- the reader of file `f` after all deletes of the case -/
def readerOf (f : Nat) (ops : List Op) : RFile :=
  (delsOf f ops).foldl (fun rf d => rf.deleteRange d.1 d.2.1 d.2.2) (mkRFile (fileBlocksL f ops))

theorem readers_eq (ops : List Op) : readers ops = (fileIds ops).map fun f => readerOf f ops := by
  unfold readers
  apply List.map_congr_left
  intro f _
  unfold readerOf
  generalize mkRFile (fileBlocksL f ops) = rf0
  unfold delsOf
  generalize ops = l
  induction l generalizing rf0 with
  | nil => rfl
  | cons op l ih =>
    simp only [List.foldl_cons, List.filterMap_cons]
    cases op with
    | del f' keys lo hi =>
      by_cases hf : f' = f
      · simp only [hf, if_true, List.foldl_cons]; exact ih _
      · simp only [hf, if_false]; exact ih _
    | _ => exact ih _

theorem valid_del_facts : ∀ (ops pre : List Op), ValidFrom pre ops → ∀ f keys lo hi, Op.del f keys lo hi ∈ ops →
    keysAsc keys = true
  | [], _, _, _, _, _, _, h => by simp at h
  | op :: rest, pre, hv, f, keys, lo, hi, h => by
    rcases List.mem_cons.mp h with rfl | h2
    · have := hv.1
      simp only [delOK, Bool.and_eq_true] at this
      exact this.2
    · exact valid_del_facts rest _ hv.2 f keys lo hi h2

theorem bok_file (ops : List Op) (hv : ValidFrom [] ops) (f : Nat) : BOK (fileBlocksL f ops) := by
  obtain ⟨s1, s2, s3⟩ := foldBlocks_spec f ops [] List.Pairwise.nil (by simp)
  rw [← fileBlocksL_eq] at s1 s2 s3
  refine ⟨s1, s2, ?_⟩
  intro k
  rw [s3 k]
  simp only [getK, List.filter_nil, List.flatMap_nil, List.nil_append]
  have := valid_chain f k ops [] hv trivial
  simpa using this

theorem getK_file (ops : List Op) (f : Nat) (k : Key) : getK (fileBlocksL f ops) k = ptsOf f k ops := by
  have := (foldBlocks_spec f ops [] List.Pairwise.nil (by simp)).2.2 k
  rw [← fileBlocksL_eq] at this
  simpa [getK] using this

theorem rinv_reader (ops : List Op) (hv : ValidFrom [] ops) (f : Nat) :
    RInv (fileBlocksL f ops) (readerOf f ops) (delsOf f ops) := by
  have hok := bok_file ops hv f
  have hk : ∀ d ∈ delsOf f ops, keysAsc d.1 = true := by
    intro d hd
    simp only [delsOf, List.mem_filterMap] at hd
    obtain ⟨op, hop, h⟩ := hd
    cases op with
    | del f' keys lo hi =>
      by_cases hf : f' = f
      · simp only [hf, if_true, Option.some.injEq] at h
        subst h
        exact valid_del_facts ops [] hv f' keys lo hi hop
      · simp [hf] at h
    | _ => simp at h
  unfold readerOf
  generalize delsOf f ops = ds at hk
  -- fold from the left, accumulating the processed calls
  have : ∀ (ds done : List DelCall) (rf : RFile), RInv (fileBlocksL f ops) rf done →
      (∀ d ∈ ds, keysAsc d.1 = true) →
      RInv (fileBlocksL f ops) (ds.foldl (fun rf d => rf.deleteRange d.1 d.2.1 d.2.2) rf) (done ++ ds) := by
    intro ds
    induction ds with
    | nil => intro done rf h _; simpa using h
    | cons d ds ih =>
      intro done rf h hks
      simp only [List.foldl_cons]
      have h1 := deleteRange_inv hok rf done h d.1 d.2.1 d.2.2 (hks d (by simp))
      have := ih (done ++ [d]) _ h1 (fun x hx => hks x (List.mem_cons_of_mem _ hx))
      simpa using this
  simpa using this ds [] _ rinv_init hk

/-- **the delete model is faithful**: a point of file `f` is gone in the reader exactly when
    the statement's `deleted` says so -/
theorem delAgree (ops : List Op) (hv : ValidFrom [] ops) (f : Nat) (k : Key) (st : Option (List (Int × Int)))
    (hst : (k, st) ∈ (readerOf f ops).index) (t : Int) (ht : t ∈ timesOf (fileBlocksL f ops) k) :
    goneAt st t = deleted ops f k t := by
  have inv := rinv_reader ops hv f
  have hdel : deleted ops f k t = true ↔ ∃ d ∈ delsOf f ops, k ∈ d.1 ∧ d.2.1 ≤ t ∧ t ≤ d.2.2 := by
    simp only [deleted, List.any_eq_true, delsOf, List.mem_filterMap]
    constructor
    · rintro ⟨op, hop, h⟩
      cases op with
      | del f' keys lo hi =>
        simp only [Bool.and_eq_true, beq_iff_eq, List.contains_iff_mem, decide_eq_true_eq] at h
        obtain ⟨⟨⟨rfl, h2⟩, h3⟩, h4⟩ := h
        exact ⟨(keys, lo, hi), ⟨_, hop, by simp⟩, h2, h3, h4⟩
      | _ => simp at h
    · rintro ⟨d, ⟨op, hop, h⟩, h2, h3, h4⟩
      cases op with
      | del f' keys lo hi =>
        by_cases hf : f' = f
        · simp only [hf, if_true, Option.some.injEq] at h
          subst h
          refine ⟨_, hop, ?_⟩
          simp only [Bool.and_eq_true, beq_iff_eq, List.contains_iff_mem, decide_eq_true_eq]
          exact ⟨⟨⟨hf, h2⟩, h3⟩, h4⟩
        · simp [hf] at h
      | _ => simp at h
  cases hg : goneAt st t with
  | true =>
    symm
    rw [hdel]
    have hs := inv.sound k st hst
    cases st with
    | none =>
      obtain ⟨e, he, hek, h1, h2⟩ := hs t ht
      obtain ⟨d, hd, hd1, hd2⟩ := inv.logFrom e he
      exact ⟨d, hd, by rw [← hek]; exact hd1, by rw [← hd2]; exact h1, by rw [← hd2]; exact h2⟩
    | some tombs =>
      simp only [goneAt] at hg
      obtain ⟨r, hr, h1, h2⟩ := inTombs_iff.mp hg
      obtain ⟨d, hd, hd1, hd2⟩ := inv.logFrom _ (hs r hr)
      simp only at hd1 hd2
      exact ⟨d, hd, hd1, by rw [← hd2]; exact h1, by rw [← hd2]; exact h2⟩
  | false =>
    symm
    cases hd : deleted ops f k t with
    | false => rfl
    | true =>
      exfalso
      obtain ⟨d, hdm, h1, h2, h3⟩ := hdel.mp hd
      rcases inv.eff d hdm k h1 st hst t ht h2 h3 with h4 | h4
      · rw [h4] at hg; simp [goneAt] at hg
      · have := inv.complete k st hst _ h4 rfl t ht h2 h3
        rw [hg] at this; cases this


/-! ### what the compaction reads from a reader with tombstones -/

/-- the block the iterator sees for a run of points of a key with tombstones `tombs` -/
def mkBT (tombs : List (Int × Int)) (b : Pts Int) : Block Int :=
  { minTime := ptsFirst b, maxTime := ptsLast b, pts := b, tombstones := tombs }

/-- the index state of key `k` -/
def lookupSt (rf : RFile) (k : Key) : Option (Option (List (Int × Int))) :=
  (rf.index.find? (fun e => decide (e.1 = k))).map (·.2)

/-- the blocks of key `k` the reader presents -/
def readerBlocks (rf : RFile) (k : Key) : List (Block Int) :=
  (rf.runs.filter (fun r => decide (r.1 = k))).flatMap (·.2)

theorem readerBlocks_spec (rf : RFile) (k : Key) :
    readerBlocks rf k = match lookupSt rf k with
      | some (some tombs) => (getK rf.blocks k).map (mkBT tombs)
      | _ => [] := by
  unfold readerBlocks RFile.runs getK
  generalize rf.blocks = B
  induction B with
  | nil => cases lookupSt rf k with
    | none => rfl
    | some st => cases st <;> rfl
  | cons kb rest ih =>
    obtain ⟨k', bs⟩ := kb
    by_cases hk : k' = k
    · subst hk
      simp only [List.filterMap_cons, List.filter_cons, decide_true, if_true, List.flatMap_cons]
      have hl : lookupSt rf k' = (rf.index.find? (fun e => decide (e.1 = k'))).map (·.2) := rfl
      cases hf : rf.index.find? (fun e => decide (e.1 = k')) with
      | none =>
        rw [hf] at hl
        simp only [Option.map_none] at hl
        rw [hl] at ih ⊢
        simpa using ih
      | some e =>
        obtain ⟨ke, st⟩ := e
        rw [hf] at hl
        simp only [Option.map_some] at hl
        rw [hl] at ih ⊢
        cases st with
        | none => simpa using ih
        | some tombs =>
          simp only [List.filter_cons, decide_true, if_true, List.flatMap_cons, List.map_append] at ih ⊢
          rw [ih]
          rfl
    · simp only [List.filter_cons, hk, decide_false, Bool.false_eq_true, if_false]
      rw [← ih]
      simp only [List.filterMap_cons]
      cases rf.index.find? (fun e => decide (e.1 = k')) with
      | none => rfl
      | some e =>
        obtain ⟨ke, st⟩ := e
        cases st with
        | none => rfl
        | some tombs => simp [List.filter_cons, hk]

theorem blocksFor_readers (ops : List Op) (k : Key) :
    blocksFor (runsOf' ops) k = (fileIds ops).flatMap fun f => readerBlocks (readerOf f ops) k := by
  unfold runsOf' blocksFor
  rw [readers_eq, List.map_map, List.flatMap_map]
  rfl

theorem lookupSt_mem {rf : RFile} {k : Key} {st : Option (List (Int × Int))} (h : lookupSt rf k = some st) :
    (k, st) ∈ rf.index := by
  unfold lookupSt at h
  cases hf : rf.index.find? (fun e => decide (e.1 = k)) with
  | none => rw [hf] at h; simp at h
  | some e =>
    rw [hf] at h
    simp only [Option.map_some, Option.some.injEq] at h
    have hm := List.mem_of_find?_eq_some hf
    have hk : e.1 = k := by simpa using List.find?_some hf
    obtain ⟨ke, se⟩ := e
    simp only at h hk
    subst h; subst hk
    exact hm

theorem lookupSt_of_key {rf : RFile} {k : Key} (h : k ∈ rf.index.map (·.1)) : ∃ st, lookupSt rf k = some st := by
  unfold lookupSt
  cases hf : rf.index.find? (fun e => decide (e.1 = k)) with
  | some e => exact ⟨e.2, rfl⟩
  | none =>
    obtain ⟨e, he, hek⟩ := List.mem_map.mp h
    have := List.find?_eq_none.mp hf e he
    simp [hek] at this

theorem live_mkBT (tombs : List (Int × Int)) {b : Pts Int} (h : ∀ p ∈ b, InR p.1) :
    live (mkBT tombs b) = applyTombs tombs b := by
  unfold live unread mkBT
  simp only
  congr 1
  apply List.filter_eq_self.mpr
  intro p hp
  have := h p hp
  unfold InR at this
  simp only [Bool.not_eq_true', Bool.and_eq_false_iff, decide_eq_false_iff_not]
  left; omega

theorem restAt_mkBT (tombs : List (Int × Int)) : ∀ (L : List (Pts Int)), ChainOK L → ∀ t,
    restAt (L.map (mkBT tombs)) t = if inTombs tombs t then none else lastAt L t
  | [], _, t => by simp [restAt, lastAt]
  | b :: L, hc, t => by
    simp only [List.map_cons, restAt, lastAt, restAt_mkBT tombs L hc.2.2.2.2 t, live_mkBT tombs hc.2.2.1,
      lookup_applyTombs]
    cases inTombs tombs t <;> simp

theorem fresh_mkBT (tombs : List (Int × Int)) {b : Pts Int} (hne : b ≠ []) (hasc : Asc b) (hin : ∀ p ∈ b, InR p.1) :
    Fresh (mkBT tombs b) := by
  obtain ⟨a, z, ha, hz⟩ := head_getLast_of_ne hne
  refine ⟨⟨hasc, ⟨a, ha, ?_⟩, ⟨z, hz, ?_⟩, hin⟩, rfl, rfl⟩
  · simp [mkBT, ptsFirst, ha]
  · simp [mkBT, ptsLast, hz]

/-- the value file `f` contributes at (k, t) -/
def fileHit (ops : List Op) (k : Key) (t : Int) (f : Nat) : Option Int :=
  match lookupSt (readerOf f ops) k with
  | some (some tombs) => if inTombs tombs t then none else lastAt (ptsOf f k ops) t
  | _ => none

theorem restAt_readerBlocks (ops : List Op) (hv : ValidFrom [] ops) (k : Key) (t : Int) (f : Nat) :
    restAt (readerBlocks (readerOf f ops) k) t = fileHit ops k t f := by
  have inv := rinv_reader ops hv f
  rw [readerBlocks_spec, inv.blocks, getK_file]
  unfold fileHit
  cases lookupSt (readerOf f ops) k with
  | none => rfl
  | some st =>
    cases st with
    | none => rfl
    | some tombs =>
      simp only
      apply restAt_mkBT
      have := valid_chain f k ops [] hv trivial
      simpa using this

theorem restAt_flatMap_readers (ops : List Op) (hv : ValidFrom [] ops) (k : Key) (t : Int) : ∀ (ids : List Nat),
    restAt (ids.flatMap fun f => readerBlocks (readerOf f ops) k) t = lastHit (fileHit ops k t) ids
  | [] => rfl
  | f :: fs => by
    simp only [List.flatMap_cons, restAt_append, lastHit, restAt_flatMap_readers ops hv k t fs,
      restAt_readerBlocks ops hv k t f]

theorem mem_candidates {ops : List Op} {k : Key} {t : Int} {f : Nat} {v : Int} :
    (f, v) ∈ candidates ops k t ↔ ∃ pts, Op.blk f k pts ∈ ops ∧ (t, v) ∈ pts ∧ deleted ops f k t = false := by
  simp only [candidates, List.mem_flatMap]
  constructor
  · rintro ⟨op, hop, hm⟩
    cases op with
    | blk f' k' pts =>
      by_cases hk : k' = k
      · subst hk
        by_cases hd : deleted ops f' k' t = true
        · simp [hd] at hm
        · have hd' : deleted ops f' k' t = false := by simpa using hd
          simp only [beq_self_eq_true, hd', Bool.not_false, Bool.and_self, if_true, List.mem_map, List.mem_filter,
            beq_iff_eq] at hm
          obtain ⟨p, ⟨hp, hpt⟩, hpe⟩ := hm
          simp only [Prod.mk.injEq] at hpe
          obtain ⟨rfl, rfl⟩ := hpe
          exact ⟨pts, hop, by rw [← hpt]; exact hp, hd'⟩
      · have : (k' == k) = false := by simp [hk]
        simp [this] at hm
    | _ => simp at hm
  · rintro ⟨pts, hop, hm, hd⟩
    refine ⟨_, hop, ?_⟩
    simp only [hd, Bool.not_false, Bool.and_true, beq_self_eq_true, if_true, List.mem_map, List.mem_filter,
      beq_iff_eq]
    exact ⟨(t, v), ⟨hm, rfl⟩, rfl⟩

/-- **newest file wins, tombstoned ranges removed**: with range deletes -/
theorem content_del (ops : List Op) (hv : ValidFrom [] ops) (k : Key) (t : Int) :
    restAt (blocksFor (runsOf' ops) k) t = expectedAt ops k t := by
  have hch : ∀ f, ChainOK (ptsOf f k ops) := fun f => by
    have := valid_chain f k ops [] hv trivial
    simpa using this
  rw [blocksFor_readers, restAt_flatMap_readers ops hv k t]
  unfold expectedAt
  obtain ⟨n1, n2⟩ := newest_spec (candidates ops k t)
  obtain ⟨l1, l2⟩ := lastHit_spec (fileHit ops k t) (fileIds ops) (fileIds_asc ops)
  have hmem : ∀ f v, (f, v) ∈ candidates ops k t ↔ (f ∈ fileIds ops ∧ fileHit ops k t f = some v) := by
    intro f v
    have inv := rinv_reader ops hv f
    rw [mem_candidates]
    constructor
    · rintro ⟨pts, hop, hm, hd⟩
      refine ⟨mem_fileIds.mpr ⟨(valid_blk_facts ops [] hv f k pts hop).1, k, pts, hop⟩, ?_⟩
      have hl : lastAt (ptsOf f k ops) t = some v := lastAt_of_mem (hch f) (mem_ptsOf.mpr hop) hm
      have htime : t ∈ timesOf (fileBlocksL f ops) k := by
        rw [mem_timesOf, getK_file]
        exact ⟨pts, mem_ptsOf.mpr hop, (t, v), hm, rfl⟩
      -- the key is in the index
      have hkin : k ∈ (readerOf f ops).index.map (·.1) := by
        rw [inv.keys]
        have : getK (fileBlocksL f ops) k ≠ [] := by
          rw [getK_file]; intro h0
          have := mem_ptsOf.mpr hop; rw [h0] at this; simp at this
        simp only [getK] at this
        obtain ⟨x, hx⟩ := List.exists_mem_of_ne_nil _ this
        obtain ⟨e, he, _⟩ := List.mem_flatMap.mp hx
        have h1 := List.mem_filter.mp he
        exact List.mem_map.mpr ⟨e, h1.1, by simpa using h1.2⟩
      obtain ⟨st, hst⟩ := lookupSt_of_key hkin
      have hag := delAgree ops hv f k st (lookupSt_mem hst) t htime
      rw [hd] at hag
      unfold fileHit
      rw [hst]
      cases st with
      | none => simp [goneAt] at hag
      | some tombs =>
        simp only [goneAt] at hag
        simp [hag, hl]
    · rintro ⟨_, hh⟩
      unfold fileHit at hh
      cases hst : lookupSt (readerOf f ops) k with
      | none => rw [hst] at hh; simp at hh
      | some st =>
        rw [hst] at hh
        cases st with
        | none => simp at hh
        | some tombs =>
          simp only at hh
          by_cases hin : inTombs tombs t = true
          · simp [hin] at hh
          · have hin' : inTombs tombs t = false := by simpa using hin
            simp only [hin', Bool.false_eq_true, if_false] at hh
            obtain ⟨b, hb, hb'⟩ := lastAt_some_mem hh
            have htime : t ∈ timesOf (fileBlocksL f ops) k := by
              rw [mem_timesOf, getK_file]
              exact ⟨b, hb, (t, v), hb', rfl⟩
            have hag := delAgree ops hv f k (some tombs) (lookupSt_mem hst) t htime
            simp only [goneAt, hin'] at hag
            exact ⟨b, mem_ptsOf.mp hb, hb', hag.symm⟩
  cases hn : newest (candidates ops k t) with
  | none =>
    have hC := n1.mp hn
    have : lastHit (fileHit ops k t) (fileIds ops) = none := by
      apply l1.mpr
      intro f hf
      cases hl : fileHit ops k t f with
      | none => rfl
      | some v =>
        have := (hmem f v).mpr ⟨hf, hl⟩
        rw [hC] at this; simp at this
    rw [this]; rfl
  | some c =>
    obtain ⟨c1, c2⟩ := n2 c hn
    obtain ⟨f, v⟩ := c
    obtain ⟨hf, hl⟩ := (hmem f v).mp c1
    cases hh : lastHit (fileHit ops k t) (fileIds ops) with
    | none => have := (l1.mp hh) f hf; rw [hl] at this; cases this
    | some w =>
      obtain ⟨g, hg, hg1, hg2⟩ := l2 w hh
      have hgc := (hmem g w).mpr ⟨hg, hg1⟩
      have h1 : g ≤ f := c2 _ hgc
      have h2 : ¬ g < f := by
        intro hlt
        have := hg2 f hf hlt
        rw [hl] at this; cases this
      have : g = f := by omega
      subst this
      rw [hl] at hg1
      simp only [Option.some.injEq] at hg1
      simp [hg1]

theorem filesOK_del (ops : List Op) (hv : ValidFrom [] ops)
    (hcap : ∀ k, (blocksOfKey ops k).length ≤ 20) : FilesOK (some 20) (runsOf' ops) := by
  have hch : ∀ f k, ChainOK (ptsOf f k ops) := fun f k => by
    have := valid_chain f k ops [] hv trivial
    simpa using this
  have hlen : ∀ f k, (readerBlocks (readerOf f ops) k).length ≤ (ptsOf f k ops).length := by
    intro f k
    rw [readerBlocks_spec, (rinv_reader ops hv f).blocks, getK_file]
    cases lookupSt (readerOf f ops) k with
    | none => simp
    | some st => cases st <;> simp
  refine ⟨?_, ?_, ?_⟩
  · intro fr hfr
    unfold runsOf' at hfr
    rw [readers_eq, List.map_map] at hfr
    simp only [List.mem_map, Function.comp] at hfr
    obtain ⟨f, _, rfl⟩ := hfr
    have inv := rinv_reader ops hv f
    have hok := bok_file ops hv f
    unfold RFile.runs
    rw [inv.blocks]
    refine ⟨?_, ?_⟩
    · apply List.Pairwise.filterMap _ _ hok.asc
      intro a a' haa b hb b' hb'
      obtain ⟨ka, bsa⟩ := a
      obtain ⟨ka', bsa'⟩ := a'
      simp only at hb hb'
      have e1 : b.1 = ka := by
        cases hfd : (readerOf f ops).index.find? (fun e => decide (e.1 = ka)) with
        | none => rw [hfd] at hb; simp at hb
        | some e =>
          obtain ⟨_, st⟩ := e
          rw [hfd] at hb
          cases st with
          | none => simp at hb
          | some tombs => simp at hb; rw [← hb]
      have e2 : b'.1 = ka' := by
        cases hfd : (readerOf f ops).index.find? (fun e => decide (e.1 = ka')) with
        | none => rw [hfd] at hb'; simp at hb'
        | some e =>
          obtain ⟨_, st⟩ := e
          rw [hfd] at hb'
          cases st with
          | none => simp at hb'
          | some tombs => simp at hb'; rw [← hb']
      rw [e1, e2]; exact haa
    · intro r hr
      simp only [List.mem_filterMap] at hr
      obtain ⟨⟨k, bs⟩, hkb, hrr⟩ := hr
      simp only at hrr
      cases hfd : (readerOf f ops).index.find? (fun e => decide (e.1 = k)) with
      | none => rw [hfd] at hrr; simp at hrr
      | some e =>
        obtain ⟨_, st⟩ := e
        rw [hfd] at hrr
        cases st with
        | none => simp at hrr
        | some tombs =>
          simp only [Option.some.injEq] at hrr
          subst hrr
          have hne := hok.ne _ hkb
          refine ⟨?_, by simpa using hne⟩
          obtain ⟨b, hb⟩ : ∃ b, b ∈ bs := by
            cases h : bs with
            | nil => exact absurd h hne
            | cons x xs => exact ⟨x, by simp⟩
          have hg := getK_of_mem hok.asc hkb
          have hin : b ∈ ptsOf f k ops := by rw [← getK_file, hg]; exact hb
          exact (valid_blk_facts ops [] hv f k b (mem_ptsOf.mp hin)).2
  · intro k b hb
    rw [blocksFor_readers] at hb
    simp only [List.mem_flatMap] at hb
    obtain ⟨f, _, hb⟩ := hb
    rw [readerBlocks_spec, (rinv_reader ops hv f).blocks, getK_file] at hb
    cases hst : lookupSt (readerOf f ops) k with
    | none => rw [hst] at hb; simp at hb
    | some st =>
      rw [hst] at hb
      cases st with
      | none => simp at hb
      | some tombs =>
        simp only [List.mem_map] at hb
        obtain ⟨pts, hpts, rfl⟩ := hb
        obtain ⟨c1, c2, c3⟩ := chain_mem_facts _ (hch f k) pts hpts
        exact fresh_mkBT tombs c1 c2 c3
  · intro k
    rw [blocksFor_readers]
    intro m hm
    cases hm
    refine Nat.le_trans ?_ (hcap k)
    unfold blocksOfKey
    generalize fileIds ops = ids
    induction ids with
    | nil => simp
    | cons f fs ih =>
      simp only [List.flatMap_cons, List.length_append]
      have := hlen f k
      omega

/-- **a compaction of the case, with range deletes, judged by the statement checker** -/
theorem modelCompact_ok' (ops : List Op) (hv : ValidFrom [] ops)
    (hcap : ∀ k, (blocksOfKey ops k).length ≤ 20) (fast : Bool) (size : Nat) (hs : 0 < size)
    (hsz : ∀ f k pts, Op.blk f k pts ∈ ops → pts.length ≤ size)
    (files : List OutFile) (h : modelCompact ops fast size = Obs.out files) :
    judge ops false size files = none := by
  unfold modelCompact at h
  cases hc : compactSeq { size := size, fast := fast } ((readers ops).map RFile.runs) with
  | error e => rw [hc] at h; cases h
  | ok seq =>
    rw [hc] at h
    simp only [Obs.out.injEq] at h
    subst h
    have ro := compactSeq_spec { size := size, fast := fast } (some 20) (stableLaw size fast) hs (runsOf' ops)
      (filesOK_del ops hv hcap) seq hc
    obtain ⟨sf1, sf2⟩ := splitFiles_spec limits (fun _ => 0) (seqLen seq) seq (by simp [seqLen])
    apply judge_none ops false size _ sf2 (by rw [sf1]; exact ro.sorted)
      (fun k => blocksFor (runsOf' ops) k) (fun k => restAt (blocksFor (runsOf' ops) k))
    · intro k; rw [sf1]; exact ro.keys k
    · intro k t
      simp only [Bool.false_eq_true, if_false]
      exact content_del ops hv k t
    · intro k b0 hb0
      rw [blocksFor_readers] at hb0
      simp only [List.mem_flatMap] at hb0
      obtain ⟨f, _, hb⟩ := hb0
      rw [readerBlocks_spec, (rinv_reader ops hv f).blocks, getK_file] at hb
      cases hst : lookupSt (readerOf f ops) k with
      | none => rw [hst] at hb; simp at hb
      | some st =>
        rw [hst] at hb
        cases st with
        | none => simp at hb
        | some tombs =>
          simp only [List.mem_map] at hb
          obtain ⟨pts, hpts, rfl⟩ := hb
          exact hsz f k pts (mem_ptsOf.mp hpts)

end Influx.Model.Compact
