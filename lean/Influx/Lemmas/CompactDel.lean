/-
  Lemmas.CompactDel — `TSMReader.DeleteRange` as modelled in Model.CompactCase
  (`RFile.deleteRange`): whatever the tombstone log, the pre-checks and the full-key
  detection do, a point of the file is gone (key removed from the index, or inside a
  tombstone of its key) exactly when a delete addressed to the file covers it.
-/
import Influx.Lemmas.CompactTrace

namespace Influx.Model.Compact
open Influx.Spec.C04

/-! ### sorted tombstone lists -/

theorem mem_tsInsert {x r : Int × Int} : ∀ {l : List (Int × Int)}, r ∈ tsInsert x l ↔ r = x ∨ r ∈ l
  | [] => by simp [tsInsert]
  | y :: ys => by
    unfold tsInsert
    split
    · simp
    · simp only [List.mem_cons, mem_tsInsert (l := ys)]
      constructor
      · rintro (h | h | h)
        · exact Or.inr (Or.inl h)
        · exact Or.inl h
        · exact Or.inr (Or.inr h)
      · rintro (h | h | h)
        · exact Or.inr (Or.inl h)
        · exact Or.inl h
        · exact Or.inr (Or.inr h)

theorem mem_tsSort {r : Int × Int} : ∀ {l : List (Int × Int)}, r ∈ tsSort l ↔ r ∈ l
  | [] => by simp [tsSort]
  | x :: xs => by
    have ih := mem_tsSort (r := r) (l := xs)
    unfold tsSort at ih ⊢
    simp only [List.foldr_cons, mem_tsInsert, ih, List.mem_cons]

/-- ascending in `Min` -/
def MinSorted (l : List (Int × Int)) : Prop := l.Pairwise (fun a b => a.1 ≤ b.1)

theorem tsInsert_sorted (x : Int × Int) : ∀ (l : List (Int × Int)), MinSorted l → MinSorted (tsInsert x l)
  | [], _ => List.pairwise_singleton _ _
  | y :: ys, h => by
    have hp := List.pairwise_cons.mp h
    unfold tsInsert
    by_cases hle : tsLe x y = true
    · rw [if_pos hle]
      have hxy : x.1 ≤ y.1 := by
        unfold tsLe at hle
        split at hle
        · omega
        · simp only [decide_eq_true_eq] at hle; omega
      refine List.pairwise_cons.mpr ⟨?_, h⟩
      intro z hz
      rcases List.mem_cons.mp hz with rfl | hz2
      · exact hxy
      · have := hp.1 z hz2; omega
    · rw [if_neg hle]
      have hyx : y.1 ≤ x.1 := by
        unfold tsLe at hle
        split at hle
        · omega
        · simp only [decide_eq_true_eq] at hle; omega
      refine List.pairwise_cons.mpr ⟨?_, tsInsert_sorted x ys hp.2⟩
      intro z hz
      rcases mem_tsInsert.mp hz with rfl | hz2
      · exact hyx
      · exact hp.1 z hz2

theorem tsSort_sorted : ∀ (l : List (Int × Int)), MinSorted (tsSort l)
  | [] => List.Pairwise.nil
  | x :: xs => by
    have ih := tsSort_sorted xs
    unfold tsSort at ih ⊢
    simp only [List.foldr_cons]
    exact tsInsert_sorted x _ ih

theorem inTombs_iff {ts : List (Int × Int)} {t : Int} :
    inTombs ts t = true ↔ ∃ r ∈ ts, r.1 ≤ t ∧ t ≤ r.2 := by
  simp [inTombs, List.any_eq_true]

/-- the chain walk of `indirectIndex.DeleteRange`: if it does not hit a gap, every time in
    the resulting window lies in one of the tombstones -/
theorem tsChain_cover : ∀ (rest : List (Int × Int)) (prev : Int × Int) (lo hi a z : Int) (seen : List (Int × Int)),
    (∀ t, lo ≤ t → t ≤ hi → ∃ r ∈ seen, r.1 ≤ t ∧ t ≤ r.2) → prev.2 ≤ hi → (∀ r ∈ rest, lo ≤ r.1) →
    tsChain prev rest lo hi = (a, z) → a < maxInt64 →
    ∀ t, a ≤ t → t ≤ z → ∃ r ∈ seen ++ rest, r.1 ≤ t ∧ t ≤ r.2
  | [], prev, lo, hi, a, z, seen, hcov, _, _, h, _ => by
    simp only [tsChain, Prod.mk.injEq] at h
    obtain ⟨rfl, rfl⟩ := h
    intro t h1 h2
    obtain ⟨r, hr, hr'⟩ := hcov t h1 h2
    exact ⟨r, by simp [hr], hr'⟩
  | ts :: rest, prev, lo, hi, a, z, seen, hcov, hprev, hlo, h, ha => by
    unfold tsChain at h
    by_cases hgap : prev.2 ≠ ts.1 - 1 ∧ ¬ (prev.1 ≤ ts.2 ∧ prev.2 ≥ ts.1)
    · rw [if_pos hgap] at h
      simp only [Prod.mk.injEq] at h
      omega
    · rw [if_neg hgap] at h
      have hts := hlo ts (by simp)
      have hlo' : (if ts.1 < lo then ts.1 else lo) = lo := by rw [if_neg (by omega)]
      rw [hlo'] at h
      have hcov' : ∀ t, lo ≤ t → t ≤ (if ts.2 > hi then ts.2 else hi) →
          ∃ r ∈ seen ++ [ts], r.1 ≤ t ∧ t ≤ r.2 := by
        intro t h1 h2
        by_cases hle : t ≤ hi
        · obtain ⟨r, hr, hr'⟩ := hcov t h1 hle
          exact ⟨r, by simp [hr], hr'⟩
        · have h3 : t ≤ ts.2 := by split at h2 <;> omega
          refine ⟨ts, by simp, ?_, h3⟩
          -- no gap between prev and ts
          apply Classical.byContradiction
          intro hlt
          apply hgap
          constructor
          · omega
          · intro hov; omega
      have := tsChain_cover rest ts lo (if ts.2 > hi then ts.2 else hi) a z (seen ++ [ts]) hcov'
        (by split <;> omega) (fun r hr => hlo r (List.mem_cons_of_mem _ hr)) h ha
      intro t h1 h2
      obtain ⟨r, hr, hr'⟩ := this t h1 h2
      refine ⟨r, ?_, hr'⟩
      simp only [List.mem_append, List.mem_cons, List.mem_singleton, List.not_mem_nil, or_false] at hr ⊢
      rcases hr with (h' | h') | h'
      · exact Or.inl h'
      · exact Or.inr (Or.inl h')
      · exact Or.inr (Or.inr h')

/-! ### one key of the index under `indexDelete` -/

/-- what the index says about the point `t` of a key in state `st`: gone? -/
def goneAt (st : Option (List (Int × Int))) (t : Int) : Bool :=
  match st with
  | none => true
  | some tombs => inTombs tombs t

/-- `times` = the timestamps of the key's points in this file; `log` = tombstone log -/
def SoundK (times : List Int) (log : List (Key × Int × Int)) (k : Key) (st : Option (List (Int × Int))) : Prop :=
  match st with
  | some tombs => ∀ r ∈ tombs, (k, r.1, r.2) ∈ log
  | none => ∀ t ∈ times, ∃ e ∈ log, e.1 = k ∧ e.2.1 ≤ t ∧ t ≤ e.2.2

def CompleteK (times : List Int) (L : List (Key × Int × Int)) (k : Key) (st : Option (List (Int × Int))) : Prop :=
  ∀ e ∈ L, e.1 = k → ∀ t ∈ times, e.2.1 ≤ t → t ≤ e.2.2 → goneAt st t = true

theorem indexDelete_spec (times : List Int) (log : List (Key × Int × Int)) (k : Key)
    (fmin fmax kmin kmax lo hi : Int) (st : Option (List (Int × Int)))
    (hin : ∀ t ∈ times, InR t) (hf : ∀ t ∈ times, fmin ≤ t ∧ t ≤ fmax) (hk : ∀ t ∈ times, kmin ≤ t ∧ t ≤ kmax)
    (hlog : (k, lo, hi) ∈ log) (hs : SoundK times log k st) :
    SoundK times log k (indexDelete fmin fmax kmin kmax lo hi st) ∧
    (∀ t, goneAt st t = true → goneAt (indexDelete fmin fmax kmin kmax lo hi st) t = true) ∧
    (∀ t ∈ times, lo ≤ t → t ≤ hi → goneAt (indexDelete fmin fmax kmin kmax lo hi st) t = true) := by
  cases st with
  | none => exact ⟨hs, fun _ h => h, fun _ _ _ _ => rfl⟩
  | some existing =>
    unfold indexDelete
    simp only
    have hall : ∀ t ∈ times, (lo ≤ t ∧ t ≤ hi) → ∃ e ∈ log, e.1 = k ∧ e.2.1 ≤ t ∧ t ≤ e.2.2 :=
      fun t _ h => ⟨(k, lo, hi), hlog, rfl, h.1, h.2⟩
    by_cases h1 : lo = minInt64 ∧ hi = maxInt64
    · rw [if_pos h1]
      refine ⟨?_, fun _ _ => rfl, fun _ _ _ _ => rfl⟩
      intro t ht
      have := hin t ht
      unfold InR at this
      exact hall t ht ⟨by omega, by omega⟩
    · rw [if_neg h1]
      by_cases h2 : lo > fmax ∨ hi < fmin
      · rw [if_pos h2]
        refine ⟨hs, fun _ h => h, ?_⟩
        intro t ht h3 h4
        have := hf t ht; omega
      · rw [if_neg h2]
        by_cases h3 : lo > kmax ∨ hi < kmin
        · rw [if_pos h3]
          refine ⟨hs, fun _ h => h, ?_⟩
          intro t ht h4 h5
          have := hk t ht; omega
        · rw [if_neg h3]
          by_cases h4 : lo ≤ kmin ∧ hi ≥ kmax
          · rw [if_pos h4]
            refine ⟨?_, fun _ _ => rfl, fun _ _ _ _ => rfl⟩
            intro t ht
            have := hk t ht
            exact hall t ht ⟨by omega, by omega⟩
          · rw [if_neg h4]
            have hmem : ∀ r, r ∈ tsSort (existing ++ [(lo, hi)]) ↔ (r ∈ existing ∨ r = (lo, hi)) := by
              intro r; rw [mem_tsSort]; simp
            have hsound' : ∀ r ∈ tsSort (existing ++ [(lo, hi)]), (k, r.1, r.2) ∈ log := by
              intro r hr
              rcases (hmem r).mp hr with h | rfl
              · exact hs r h
              · exact hlog
            have hmono : ∀ t, inTombs existing t = true → inTombs (tsSort (existing ++ [(lo, hi)])) t = true := by
              intro t ht
              obtain ⟨r, hr, hr'⟩ := inTombs_iff.mp ht
              exact inTombs_iff.mpr ⟨r, (hmem r).mpr (Or.inl hr), hr'⟩
            have hnew : ∀ t, lo ≤ t → t ≤ hi → inTombs (tsSort (existing ++ [(lo, hi)])) t = true :=
              fun t h5 h6 => inTombs_iff.mpr ⟨(lo, hi), (hmem _).mpr (Or.inr rfl), h5, h6⟩
            cases hsorted : tsSort (existing ++ [(lo, hi)]) with
            | nil =>
              have : (lo, hi) ∈ tsSort (existing ++ [(lo, hi)]) := (hmem _).mpr (Or.inr rfl)
              rw [hsorted] at this; simp at this
            | cons t0 rest =>
              simp only
              rw [hsorted] at hsound' hmono hnew
              cases hch : tsChain t0 rest t0.1 t0.2 with
              | mk a z =>
              simp only
              by_cases h5 : a ≤ kmin ∧ z ≥ kmax
              · rw [if_pos h5]
                refine ⟨?_, fun _ _ => rfl, fun _ _ _ _ => rfl⟩
                intro t ht
                have hkt := hk t ht
                have hit := hin t ht
                unfold InR at hit
                have hsrt := tsSort_sorted (existing ++ [(lo, hi)])
                rw [hsorted] at hsrt
                have hcover := tsChain_cover rest t0 t0.1 t0.2 a z [t0]
                  (fun t h6 h7 => ⟨t0, by simp, h6, h7⟩) (Int.le_refl _)
                  (fun r hr => (List.pairwise_cons.mp hsrt).1 r hr) hch (by omega) t (by omega) (by omega)
                obtain ⟨r, hr, hr1, hr2⟩ := hcover
                exact ⟨(k, r.1, r.2), hsound' r (by simpa using hr), rfl, hr1, hr2⟩
              · rw [if_neg h5]
                exact ⟨hsound', hmono, fun t _ h6 h7 => hnew t h6 h7⟩

end Influx.Model.Compact
