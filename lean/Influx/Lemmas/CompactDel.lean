/-
  Lemmas.CompactDel — `TSMReader.DeleteRange` as modelled in Model.CompactCase
  (`RFile.deleteRange`): whatever the tombstone log, the pre-checks and the full-key
  detection do, a point of the file is gone (key removed from the index, or inside a
  tombstone of its key) exactly when a delete addressed to the file covers it.
-/
import Influx.Lemmas.CompactTrace

namespace Influx.Model.Compact
open Influx.Spec.C04

/-! ### sorted tombstone lists -/

theorem mem_tsInsert {x r : Int × Int} : ∀ {l : List (Int × Int)}, r ∈ tsInsert x l ↔ r = x ∨ r ∈ l
  | [] => by simp [tsInsert]
  | y :: ys => by
    unfold tsInsert
    split
    · simp
    · simp only [List.mem_cons, mem_tsInsert (l := ys)]
      constructor
      · rintro (h | h | h)
        · exact Or.inr (Or.inl h)
        · exact Or.inl h
        · exact Or.inr (Or.inr h)
      · rintro (h | h | h)
        · exact Or.inr (Or.inl h)
        · exact Or.inl h
        · exact Or.inr (Or.inr h)

theorem mem_tsSort {r : Int × Int} : ∀ {l : List (Int × Int)}, r ∈ tsSort l ↔ r ∈ l
  | [] => by simp [tsSort]
  | x :: xs => by
    have ih := mem_tsSort (r := r) (l := xs)
    unfold tsSort at ih ⊢
    simp only [List.foldr_cons, mem_tsInsert, ih, List.mem_cons]

/-- ascending in `Min` -/
def MinSorted (l : List (Int × Int)) : Prop := l.Pairwise (fun a b => a.1 ≤ b.1)

theorem tsInsert_sorted (x : Int × Int) : ∀ (l : List (Int × Int)), MinSorted l → MinSorted (tsInsert x l)
  | [], _ => List.pairwise_singleton _ _
  | y :: ys, h => by
    have hp := List.pairwise_cons.mp h
    unfold tsInsert
    by_cases hle : tsLe x y = true
    · rw [if_pos hle]
      have hxy : x.1 ≤ y.1 := by
        unfold tsLe at hle
        split at hle
        · omega
        · simp only [decide_eq_true_eq] at hle; omega
      refine List.pairwise_cons.mpr ⟨?_, h⟩
      intro z hz
      rcases List.mem_cons.mp hz with rfl | hz2
      · exact hxy
      · have := hp.1 z hz2; omega
    · rw [if_neg hle]
      have hyx : y.1 ≤ x.1 := by
        unfold tsLe at hle
        split at hle
        · omega
        · simp only [decide_eq_true_eq] at hle; omega
      refine List.pairwise_cons.mpr ⟨?_, tsInsert_sorted x ys hp.2⟩
      intro z hz
      rcases mem_tsInsert.mp hz with rfl | hz2
      · exact hyx
      · exact hp.1 z hz2

theorem tsSort_sorted : ∀ (l : List (Int × Int)), MinSorted (tsSort l)
  | [] => List.Pairwise.nil
  | x :: xs => by
    have ih := tsSort_sorted xs
    unfold tsSort at ih ⊢
    simp only [List.foldr_cons]
    exact tsInsert_sorted x _ ih

theorem inTombs_iff {ts : List (Int × Int)} {t : Int} :
    inTombs ts t = true ↔ ∃ r ∈ ts, r.1 ≤ t ∧ t ≤ r.2 := by
  simp [inTombs, List.any_eq_true]

/-- the chain walk of `indirectIndex.DeleteRange`: if it does not hit a gap, every time in
    the resulting window lies in one of the tombstones -/
theorem tsChain_cover : ∀ (rest : List (Int × Int)) (prev : Int × Int) (lo hi a z : Int) (seen : List (Int × Int)),
    (∀ t, lo ≤ t → t ≤ hi → ∃ r ∈ seen, r.1 ≤ t ∧ t ≤ r.2) → prev.2 ≤ hi → (∀ r ∈ rest, lo ≤ r.1) →
    tsChain prev rest lo hi = (a, z) → a < maxInt64 →
    ∀ t, a ≤ t → t ≤ z → ∃ r ∈ seen ++ rest, r.1 ≤ t ∧ t ≤ r.2
  | [], prev, lo, hi, a, z, seen, hcov, _, _, h, _ => by
    simp only [tsChain, Prod.mk.injEq] at h
    obtain ⟨rfl, rfl⟩ := h
    intro t h1 h2
    obtain ⟨r, hr, hr'⟩ := hcov t h1 h2
    exact ⟨r, by simp [hr], hr'⟩
  | ts :: rest, prev, lo, hi, a, z, seen, hcov, hprev, hlo, h, ha => by
    unfold tsChain at h
    by_cases hgap : prev.2 ≠ ts.1 - 1 ∧ ¬ (prev.1 ≤ ts.2 ∧ prev.2 ≥ ts.1)
    · rw [if_pos hgap] at h
      simp only [Prod.mk.injEq] at h
      omega
    · rw [if_neg hgap] at h
      have hts := hlo ts (by simp)
      have hlo' : (if ts.1 < lo then ts.1 else lo) = lo := by rw [if_neg (by omega)]
      rw [hlo'] at h
      have hcov' : ∀ t, lo ≤ t → t ≤ (if ts.2 > hi then ts.2 else hi) →
          ∃ r ∈ seen ++ [ts], r.1 ≤ t ∧ t ≤ r.2 := by
        intro t h1 h2
        by_cases hle : t ≤ hi
        · obtain ⟨r, hr, hr'⟩ := hcov t h1 hle
          exact ⟨r, by simp [hr], hr'⟩
        · have h3 : t ≤ ts.2 := by split at h2 <;> omega
          refine ⟨ts, by simp, ?_, h3⟩
          -- no gap between prev and ts
          apply Classical.byContradiction
          intro hlt
          apply hgap
          constructor
          · omega
          · intro hov; omega
      have := tsChain_cover rest ts lo (if ts.2 > hi then ts.2 else hi) a z (seen ++ [ts]) hcov'
        (by split <;> omega) (fun r hr => hlo r (List.mem_cons_of_mem _ hr)) h ha
      intro t h1 h2
      obtain ⟨r, hr, hr'⟩ := this t h1 h2
      refine ⟨r, ?_, hr'⟩
      simp only [List.mem_append, List.mem_cons, List.mem_singleton, List.not_mem_nil, or_false] at hr ⊢
      rcases hr with (h' | h') | h'
      · exact Or.inl h'
      · exact Or.inr (Or.inl h')
      · exact Or.inr (Or.inr h')

/-! ### one key of the index under `indexDelete` -/

/-- what the index says about the point `t` of a key in state `st`: gone? -/
def goneAt (st : Option (List (Int × Int))) (t : Int) : Bool :=
  match st with
  | none => true
  | some tombs => inTombs tombs t

/-- `times` = the timestamps of the key's points in this file; `log` = tombstone log -/
def SoundK (times : List Int) (log : List (Key × Int × Int)) (k : Key) (st : Option (List (Int × Int))) : Prop :=
  match st with
  | some tombs => ∀ r ∈ tombs, (k, r.1, r.2) ∈ log
  | none => ∀ t ∈ times, ∃ e ∈ log, e.1 = k ∧ e.2.1 ≤ t ∧ t ≤ e.2.2

def CompleteK (times : List Int) (L : List (Key × Int × Int)) (k : Key) (st : Option (List (Int × Int))) : Prop :=
  ∀ e ∈ L, e.1 = k → ∀ t ∈ times, e.2.1 ≤ t → t ≤ e.2.2 → goneAt st t = true

theorem indexDelete_spec (times : List Int) (log : List (Key × Int × Int)) (k : Key)
    (fmin fmax kmin kmax lo hi : Int) (st : Option (List (Int × Int)))
    (hin : ∀ t ∈ times, InR t) (hf : ∀ t ∈ times, fmin ≤ t ∧ t ≤ fmax) (hk : ∀ t ∈ times, kmin ≤ t ∧ t ≤ kmax)
    (hlog : (k, lo, hi) ∈ log) (hs : SoundK times log k st) :
    SoundK times log k (indexDelete fmin fmax kmin kmax lo hi st) ∧
    (∀ t, goneAt st t = true → goneAt (indexDelete fmin fmax kmin kmax lo hi st) t = true) ∧
    (∀ t ∈ times, lo ≤ t → t ≤ hi → goneAt (indexDelete fmin fmax kmin kmax lo hi st) t = true) := by
  cases st with
  | none => exact ⟨hs, fun _ h => h, fun _ _ _ _ => rfl⟩
  | some existing =>
    unfold indexDelete
    simp only
    have hall : ∀ t ∈ times, (lo ≤ t ∧ t ≤ hi) → ∃ e ∈ log, e.1 = k ∧ e.2.1 ≤ t ∧ t ≤ e.2.2 :=
      fun t _ h => ⟨(k, lo, hi), hlog, rfl, h.1, h.2⟩
    by_cases h1 : lo = minInt64 ∧ hi = maxInt64
    · rw [if_pos h1]
      refine ⟨?_, fun _ _ => rfl, fun _ _ _ _ => rfl⟩
      intro t ht
      have := hin t ht
      unfold InR at this
      exact hall t ht ⟨by omega, by omega⟩
    · rw [if_neg h1]
      by_cases h2 : lo > fmax ∨ hi < fmin
      · rw [if_pos h2]
        refine ⟨hs, fun _ h => h, ?_⟩
        intro t ht h3 h4
        have := hf t ht; omega
      · rw [if_neg h2]
        by_cases h3 : lo > kmax ∨ hi < kmin
        · rw [if_pos h3]
          refine ⟨hs, fun _ h => h, ?_⟩
          intro t ht h4 h5
          have := hk t ht; omega
        · rw [if_neg h3]
          by_cases h4 : lo ≤ kmin ∧ hi ≥ kmax
          · rw [if_pos h4]
            refine ⟨?_, fun _ _ => rfl, fun _ _ _ _ => rfl⟩
            intro t ht
            have := hk t ht
            exact hall t ht ⟨by omega, by omega⟩
          · rw [if_neg h4]
            have hmem : ∀ r, r ∈ tsSort (existing ++ [(lo, hi)]) ↔ (r ∈ existing ∨ r = (lo, hi)) := by
              intro r; rw [mem_tsSort]; simp
            have hsound' : ∀ r ∈ tsSort (existing ++ [(lo, hi)]), (k, r.1, r.2) ∈ log := by
              intro r hr
              rcases (hmem r).mp hr with h | rfl
              · exact hs r h
              · exact hlog
            have hmono : ∀ t, inTombs existing t = true → inTombs (tsSort (existing ++ [(lo, hi)])) t = true := by
              intro t ht
              obtain ⟨r, hr, hr'⟩ := inTombs_iff.mp ht
              exact inTombs_iff.mpr ⟨r, (hmem r).mpr (Or.inl hr), hr'⟩
            have hnew : ∀ t, lo ≤ t → t ≤ hi → inTombs (tsSort (existing ++ [(lo, hi)])) t = true :=
              fun t h5 h6 => inTombs_iff.mpr ⟨(lo, hi), (hmem _).mpr (Or.inr rfl), h5, h6⟩
            cases hsorted : tsSort (existing ++ [(lo, hi)]) with
            | nil =>
              have : (lo, hi) ∈ tsSort (existing ++ [(lo, hi)]) := (hmem _).mpr (Or.inr rfl)
              rw [hsorted] at this; simp at this
            | cons t0 rest =>
              simp only
              rw [hsorted] at hsound' hmono hnew
              cases hch : tsChain t0 rest t0.1 t0.2 with
              | mk a z =>
              simp only
              by_cases h5 : a ≤ kmin ∧ z ≥ kmax
              · rw [if_pos h5]
                refine ⟨?_, fun _ _ => rfl, fun _ _ _ _ => rfl⟩
                intro t ht
                have hkt := hk t ht
                have hit := hin t ht
                unfold InR at hit
                have hsrt := tsSort_sorted (existing ++ [(lo, hi)])
                rw [hsorted] at hsrt
                have hcover := tsChain_cover rest t0 t0.1 t0.2 a z [t0]
                  (fun t h6 h7 => ⟨t0, by simp, h6, h7⟩) (Int.le_refl _)
                  (fun r hr => (List.pairwise_cons.mp hsrt).1 r hr) hch (by omega) t (by omega) (by omega)
                obtain ⟨r, hr, hr1, hr2⟩ := hcover
                exact ⟨(k, r.1, r.2), hsound' r (by simpa using hr), rfl, hr1, hr2⟩
              · rw [if_neg h5]
                exact ⟨hsound', hmono, fun t _ h6 h7 => hnew t h6 h7⟩


/-! ### the static part of a reader: its blocks -/

/-- the key map of one file: ascending keys, non-empty runs, every run a chain -/
structure BOK (B : List (Key × List (Pts Int))) : Prop where
  asc : KeysAsc B
  ne : ∀ e ∈ B, e.2 ≠ []
  chain : ∀ k, ChainOK (getK B k)

/-- the timestamps of key `k` in the file -/
def timesOf (B : List (Key × List (Pts Int))) (k : Key) : List Int := (getK B k).flatten.map (·.1)

theorem getK_of_mem : ∀ {B : List (Key × List (Pts Int))}, KeysAsc B → ∀ {k : Key} {bs : List (Pts Int)},
    (k, bs) ∈ B → getK B k = bs
  | [], _, _, _, h => by simp at h
  | e :: rest, hs, k, bs, h => by
    have hp := List.pairwise_cons.mp hs
    rcases List.mem_cons.mp h with rfl | h2
    · have : getK rest k = [] := by
        simp only [getK, List.flatMap_eq_nil_iff]
        intro x hx
        have hm := (List.mem_filter.mp hx).1
        have hk := (List.mem_filter.mp hx).2
        simp only [decide_eq_true_eq] at hk
        have := hp.1 x hm
        rw [hk] at this
        simp only at this
        rw [keyLt_irrefl] at this; cases this
      simp only [getK, List.filter_cons, decide_true, if_true, List.flatMap_cons] at this ⊢
      simp [this]
    · have hne : e.1 ≠ k := by
        intro heq
        have := hp.1 (k, bs) h2
        rw [heq] at this
        simp only at this
        rw [keyLt_irrefl] at this; cases this
      have ih := getK_of_mem hp.2 h2
      simp only [getK, List.filter_cons, hne, decide_false] at ih ⊢
      exact ih

theorem getK_nil_of_not_mem {B : List (Key × List (Pts Int))} {k : Key} (h : ∀ e ∈ B, e.1 ≠ k) : getK B k = [] := by
  simp only [getK, List.flatMap_eq_nil_iff]
  intro x hx
  have hm := (List.mem_filter.mp hx).1
  have hk := (List.mem_filter.mp hx).2
  simp only [decide_eq_true_eq] at hk
  exact absurd hk (h x hm)

theorem mem_timesOf {B : List (Key × List (Pts Int))} {k : Key} {t : Int} :
    t ∈ timesOf B k ↔ ∃ b ∈ getK B k, ∃ p ∈ b, p.1 = t := by
  simp only [timesOf, List.mem_map, List.mem_flatten]
  constructor
  · rintro ⟨p, ⟨b, hb, hp⟩, rfl⟩; exact ⟨b, hb, p, hp, rfl⟩
  · rintro ⟨b, hb, p, hp, rfl⟩; exact ⟨p, ⟨b, hb, hp⟩, rfl⟩

theorem chain_ge_first : ∀ (L : List (Pts Int)), ChainOK L → ∀ b0, L.head? = some b0 → ∀ a, b0.head? = some a →
    ∀ c ∈ L, ∀ p ∈ c, a.1 ≤ p.1
  | [], _, _, h, _, _, _, _, _, _ => by simp at h
  | b :: L, hc, b0, h, a, ha, c, hcm, p, hp => by
    simp at h; subst h
    rcases List.mem_cons.mp hcm with rfl | h2
    · exact asc_head_le hc.2.1 ha p hp
    · have := hc.2.2.2.1 c h2 a (List.mem_of_head? ha) p hp
      omega

theorem chain_times_inR {L : List (Pts Int)} (hc : ChainOK L) : ∀ c ∈ L, ∀ p ∈ c, InR p.1 :=
  fun c hcm p hp => (chain_mem_facts L hc c hcm).2.2 p hp

theorem foldl_min_le (l : List Int) : ∀ (init : Int),
    l.foldl (fun a b => if b < a then b else a) init ≤ init ∧
    ∀ x ∈ l, l.foldl (fun a b => if b < a then b else a) init ≤ x := by
  induction l with
  | nil => intro init; simp
  | cons y ys ih =>
    intro init
    simp only [List.foldl_cons]
    have hm : (if y < init then y else init) ≤ init ∧ (if y < init then y else init) ≤ y := by
      split <;> omega
    generalize (if y < init then y else init) = m at hm ⊢
    obtain ⟨i1, i2⟩ := ih m
    refine ⟨by omega, ?_⟩
    intro x hx
    rcases List.mem_cons.mp hx with rfl | h2
    · omega
    · exact i2 x h2

theorem foldl_max_ge (l : List Int) : ∀ (init : Int),
    init ≤ l.foldl (fun a b => if b > a then b else a) init ∧
    ∀ x ∈ l, x ≤ l.foldl (fun a b => if b > a then b else a) init := by
  induction l with
  | nil => intro init; simp
  | cons y ys ih =>
    intro init
    simp only [List.foldl_cons]
    have hm : init ≤ (if y > init then y else init) ∧ y ≤ (if y > init then y else init) := by
      split <;> omega
    generalize (if y > init then y else init) = m at hm ⊢
    obtain ⟨i1, i2⟩ := ih m
    refine ⟨by omega, ?_⟩
    intro x hx
    rcases List.mem_cons.mp hx with rfl | h2
    · omega
    · exact i2 x h2

theorem ptsFirst_le {b : Pts Int} (ha : Asc b) {p : Int × Int} (hp : p ∈ b) : ptsFirst b ≤ p.1 := by
  cases b with
  | nil => simp at hp
  | cons x xs => simpa [ptsFirst] using asc_head_le ha (by rfl) p hp

theorem le_ptsLast {b : Pts Int} (ha : Asc b) {p : Int × Int} (hp : p ∈ b) : p.1 ≤ ptsLast b := by
  have hne : b ≠ [] := by intro h; rw [h] at hp; simp at hp
  obtain ⟨a, z, _, hz⟩ := head_getLast_of_ne hne
  simpa [ptsLast, hz] using asc_le_last ha hz p hp

/-- every point of the file lies within the file's time range -/
theorem file_range {B : List (Key × List (Pts Int))} (ok : BOK B) (rf : RFile) (hb : rf.blocks = B)
    {k : Key} {t : Int} (ht : t ∈ timesOf B k) : rf.fmin ≤ t ∧ t ≤ rf.fmax := by
  obtain ⟨b, hbm, p, hp, rfl⟩ := mem_timesOf.mp ht
  have hasc := (chain_mem_facts _ (ok.chain k) b hbm).2.1
  have hin : ∃ kb ∈ B, b ∈ kb.2 := by
    simp only [getK, List.mem_flatMap, List.mem_filter] at hbm
    obtain ⟨kb, ⟨h1, _⟩, h2⟩ := hbm
    exact ⟨kb, h1, h2⟩
  obtain ⟨kb, hkb, hbk⟩ := hin
  constructor
  · have : ptsFirst b ∈ B.flatMap (fun kb => kb.2.map ptsFirst) := by
      simp only [List.mem_flatMap, List.mem_map]
      exact ⟨kb, hkb, b, hbk, rfl⟩
    have h1 := (foldl_min_le _ maxInt64).2 _ this
    have h2 := ptsFirst_le hasc hp
    unfold RFile.fmin; rw [hb]; omega
  · have : ptsLast b ∈ B.flatMap (fun kb => kb.2.map ptsLast) := by
      simp only [List.mem_flatMap, List.mem_map]
      exact ⟨kb, hkb, b, hbk, rfl⟩
    have h1 := (foldl_max_ge _ minInt64).2 _ this
    have h2 := le_ptsLast hasc hp
    unfold RFile.fmax; rw [hb]; omega

/-- `keyRange` bounds the key's points; without a range the key has no points -/
theorem keyRange_spec {B : List (Key × List (Pts Int))} (ok : BOK B) (rf : RFile) (hb : rf.blocks = B) (k : Key) :
    match rf.keyRange k with
    | some (kmin, kmax) => ∀ t ∈ timesOf B k, kmin ≤ t ∧ t ≤ kmax
    | none => timesOf B k = [] := by
  unfold RFile.keyRange
  rw [hb]
  cases hf : B.find? (fun kb => decide (kb.1 = k)) with
  | none =>
    simp only
    have : ∀ e ∈ B, e.1 ≠ k := by
      intro e he heq
      have := List.find?_eq_none.mp hf e he
      simp [heq] at this
    simp [timesOf, getK_nil_of_not_mem this]
  | some kb =>
    obtain ⟨k', bs⟩ := kb
    have hm := List.mem_of_find?_eq_some hf
    have hk : k' = k := by simpa using List.find?_some hf
    subst hk
    have hg := getK_of_mem ok.asc hm
    simp only
    cases hh : bs.head? with
    | none =>
      have : bs = [] := List.head?_eq_none_iff.mp hh
      exact absurd this (ok.ne _ hm)
    | some b0 =>
      have hne : bs ≠ [] := ok.ne _ hm
      obtain ⟨b1, hl⟩ : ∃ b1, bs.getLast? = some b1 := ⟨_, List.getLast?_eq_some_getLast hne⟩
      simp only [hl]
      intro t ht
      obtain ⟨b, hbm, p, hp, rfl⟩ := mem_timesOf.mp ht
      rw [hg] at hbm
      have hch := ok.chain k'
      rw [hg] at hch
      have f0 := chain_mem_facts _ hch b0 (List.mem_of_head? hh)
      have f1 := chain_mem_facts _ hch b1 (List.mem_of_getLast? hl)
      obtain ⟨a, _, ha, _⟩ := head_getLast_of_ne f0.1
      obtain ⟨_, z, _, hz⟩ := head_getLast_of_ne f1.1
      have h1 := chain_ge_first bs hch b0 hh a ha b hbm p hp
      have h2 := chain_le_last bs hch b1 hl z hz b hbm p hp
      simp only [ptsFirst, ha, ptsLast, hz, Option.map_some, Option.getD_some]
      exact ⟨h1, h2⟩

end Influx.Model.Compact
