/-
  Lemmas.DBRPFind — what `FindMany` returns in a consistent state.
-/
import Influx.Lemmas.DBRPInv

namespace Influx.DBRP
open Influx.Spec.C43

/-- a stored mapping as `FindMany` reports it: `Default` recomputed from the defaults bucket -/
def dflt (s : St) (v : Mapping) : Mapping :=
  { v with Default := getDefault s v.OrganizationID v.Database == some v.ID }

theorem addAll_ok {s : St} (h : Inv s) (f : Filter) : ∀ (vs acc : List Mapping), (∀ v ∈ vs, v ∈ s.recs) →
    addAll s f acc vs = .ok (acc ++ (vs.map (dflt s)).filter (filterFunc · f)) := by
  intro vs
  induction vs with
  | nil => intro acc _; simp [addAll]
  | cons v vs ih =>
    intro acc hv
    have hvr := hv v (by simp)
    have hex := h.defEx v hvr
    cases hd : getDefault s v.OrganizationID v.Database with
    | none => simp [hd] at hex
    | some d =>
      have hdf : ({ v with Default := v.ID == d } : Mapping) = dflt s v := by
        simp only [dflt, hd]
        congr 1
        by_cases hc : v.ID = d
        · simp [hc]
        · have hc' : ¬d = v.ID := fun e => hc e.symm
          rw [beq_eq_false_iff_ne.mpr hc]
          symm
          simp [hc']
      simp only [addAll, hd, hdf, List.map_cons, List.filter_cons]
      rw [ih _ (fun x hx => hv x (by simp [hx]))]
      split <;> simp

theorem dflt_fields (s : St) (v : Mapping) : (dflt s v).ID = v.ID ∧ (dflt s v).Database = v.Database ∧
    (dflt s v).RetentionPolicy = v.RetentionPolicy ∧ (dflt s v).OrganizationID = v.OrganizationID ∧
    (dflt s v).Virtual = v.Virtual ∧ (dflt s v).BucketID = v.BucketID := ⟨rfl, rfl, rfl, rfl, rfl, rfl⟩

/-! ### lists with pairwise distinct ids -/

/-- stored mappings of one organization with distinct ids name each (db, rp) once -/
theorem pairsUnique_of_distinct {s : St} (h : Inv s) (org : Nat) : ∀ (l : List Mapping),
    (∀ v ∈ l, v ∈ s.recs ∧ v.OrganizationID = org) → l.Pairwise (fun a b => a.ID ≠ b.ID) →
    pairsUnique (l.map (dflt s)) = true := by
  intro l
  induction l with
  | nil => intro _ _; rfl
  | cons v vs ih =>
    intro hm hp
    rw [List.pairwise_cons] at hp
    simp only [List.map_cons, pairsUnique, Bool.and_eq_true, List.all_eq_true, List.mem_map, Bool.not_eq_true',
      Bool.and_eq_false_iff, beq_eq_false_iff_ne, forall_exists_index, and_imp, forall_apply_eq_imp_iff₂]
    refine ⟨?_, ih (fun x hx => hm x (by simp [hx])) hp.2⟩
    intro x hx
    by_cases hdb : x.Database = v.Database
    · right
      intro hrp
      have hv := hm v (by simp)
      have hx' := hm x (by simp [hx])
      have := h.uniq x hx'.1 v hv.1 (by rw [hx'.2, hv.2]) hdb hrp
      exact hp.1 x hx (by rw [this])
    · left; exact hdb

/-- number of mappings of `db` flagged default -/
def cnt (l : List Mapping) (db : String) : Nat := (l.filter fun m => m.Database == db && m.Default).length

theorem cnt_append (a b : List Mapping) (db : String) : cnt (a ++ b) db = cnt a db + cnt b db := by
  simp [cnt, List.filter_append]

/-- among stored mappings with distinct ids, those of `(org, db)` flagged default are exactly the
    one whose id is the database's default entry -/
theorem cnt_physical {s : St} (h : Inv s) (org : Nat) (db : String) : ∀ (l : List Mapping),
    (∀ v ∈ l, v ∈ s.recs ∧ v.OrganizationID = org) → l.Pairwise (fun a b => a.ID ≠ b.ID) →
    cnt (l.map (dflt s)) db ≤ 1 ∧
    (∀ v ∈ l, v.Database = db → getDefault s org db = some v.ID → cnt (l.map (dflt s)) db = 1) := by
  intro l
  induction l with
  | nil => intro _ _; simp [cnt]
  | cons v vs ih =>
    intro hm hp
    rw [List.pairwise_cons] at hp
    have hv := hm v (by simp)
    obtain ⟨ih1, ih2⟩ := ih (fun x hx => hm x (by simp [hx])) hp.2
    -- if `v` is the default of `db`, no later element is
    have hnone : v.Database = db → getDefault s org db = some v.ID → cnt (vs.map (dflt s)) db = 0 := by
      intro hdb hd
      simp only [cnt, List.length_eq_zero_iff, List.filter_eq_nil_iff, List.mem_map, Bool.and_eq_true, beq_iff_eq,
        not_and, Bool.not_eq_true, forall_exists_index, and_imp, forall_apply_eq_imp_iff₂]
      intro x hx hxdb
      have hx' := hm x (by simp [hx])
      simp only [dflt, hx'.2] at hxdb ⊢
      rw [hxdb, hd]
      simp only [beq_eq_false_iff_ne, ne_eq, Option.some.injEq]
      exact fun hc => hp.1 x hx hc
    have hcons : cnt ((v :: vs).map (dflt s)) db =
        (if (dflt s v).Database == db && (dflt s v).Default then 1 else 0) + cnt (vs.map (dflt s)) db := by
      simp only [cnt, List.map_cons, List.filter_cons]
      split <;> simp <;> omega
    rw [hcons]
    by_cases hvd : ((dflt s v).Database == db && (dflt s v).Default) = true
    · simp only [hvd, ↓reduceIte]
      simp only [dflt, Bool.and_eq_true, beq_iff_eq, hv.2] at hvd
      have hz := hnone hvd.1 (by rw [← hvd.1]; exact hvd.2)
      refine ⟨by omega, ?_⟩
      intro x _ _ _; omega
    · simp only [hvd, Bool.false_eq_true, ↓reduceIte, Nat.zero_add]
      refine ⟨ih1, ?_⟩
      intro x hx hxdb hxd
      rcases List.mem_cons.mp hx with rfl | hx
      · exfalso; apply hvd
        simp only [dflt, Bool.and_eq_true, beq_iff_eq, hv.2]
        exact ⟨hxdb, by rw [hxdb, hxd]⟩
      · exact ih2 x hx hxdb hxd

end Influx.DBRP

namespace Influx.DBRP
open Influx.Spec.C43

/-! ### the virtual merge -/

/-- `mergeOne` skips the virtual mapping exactly when an entry names its (db, rp) -/
theorem mergeOne_none_iff {nm : Mapping} (hv : nm.Virtual = true) (ms : List Mapping) :
    mergeOne nm ms = none ↔ ∃ m ∈ ms, m.Database = nm.Database ∧ m.RetentionPolicy = nm.RetentionPolicy := by
  induction ms generalizing nm with
  | nil => simp [mergeOne]
  | cons m ms ih =>
    simp only [mergeOne]
    split
    · next hdb =>
      simp only [beq_iff_eq] at hdb
      split
      · next hrp =>
        simp only [hv, Bool.true_and, beq_iff_eq] at hrp
        simp only [true_iff]
        exact ⟨m, by simp, hdb, hrp⟩
      · next hrp =>
        simp only [hv, Bool.true_and, beq_iff_eq] at hrp
        have := ih (nm := if (m.Default && nm.Default) = true then { nm with Default := false } else nm)
          (by split <;> simp [hv])
        rw [this]
        have e1 : (if (m.Default && nm.Default) = true then { nm with Default := false } else nm).Database = nm.Database := by
          split <;> rfl
        have e2 : (if (m.Default && nm.Default) = true then { nm with Default := false } else nm).RetentionPolicy = nm.RetentionPolicy := by
          split <;> rfl
        rw [e1, e2]
        constructor
        · rintro ⟨x, hx, h1, h2⟩; exact ⟨x, by simp [hx], h1, h2⟩
        · rintro ⟨x, hx, h1, h2⟩
          rcases List.mem_cons.mp hx with rfl | hx
          · exact absurd h2 hrp
          · exact ⟨x, hx, h1, h2⟩
    · next hdb =>
      simp only [beq_iff_eq] at hdb
      rw [ih hv]
      constructor
      · rintro ⟨x, hx, h1, h2⟩; exact ⟨x, by simp [hx], h1, h2⟩
      · rintro ⟨x, hx, h1, h2⟩
        rcases List.mem_cons.mp hx with rfl | hx
        · exact absurd h1 hdb
        · exact ⟨x, hx, h1, h2⟩

/-- the merge never lowers and never raises above one the number of defaults of a database -/
theorem mergeVirtual_cnt (f : Filter) (db : String) : ∀ (bs : List Bucket) (ms : List Mapping),
    cnt ms db ≤ 1 → cnt ms db ≤ cnt (mergeVirtual f ms bs) db ∧ cnt (mergeVirtual f ms bs) db ≤ 1 := by
  intro bs
  induction bs with
  | nil => intro ms h; simp [mergeVirtual, h]
  | cons b bs ih =>
    intro ms h
    simp only [mergeVirtual]
    split
    · exact ih ms h
    · next nm hm =>
      split
      · have hstep : cnt ms db ≤ cnt (ms ++ [nm]) db ∧ cnt (ms ++ [nm]) db ≤ 1 := by
          rw [cnt_append]
          by_cases hd : (nm.Database == db && nm.Default) = true
          · simp only [Bool.and_eq_true, beq_iff_eq] at hd
            have hz : cnt ms db = 0 := by
              simp only [cnt, List.length_eq_zero_iff, List.filter_eq_nil_iff, Bool.and_eq_true, beq_iff_eq, not_and,
                Bool.not_eq_true]
              intro x hx hxdb
              exact mergeOne_some_default hm hd.2 x hx (by rw [hxdb, ← hd.1, (mergeOne_some hm).1])
            have : cnt [nm] db = 1 := by simp [cnt, hd.1, hd.2]
            omega
          · have : cnt [nm] db = 0 := by simp [cnt, hd]
            omega
        have := ih (ms ++ [nm]) hstep.2
        omega
      · exact ih ms h

/-- what the merge appends comes from a bucket of the list -/
theorem mergeVirtual_from (f : Filter) : ∀ (bs : List Bucket) (ms : List Mapping) (x : Mapping),
    x ∈ mergeVirtual f ms bs → x ∈ ms ∨ (x.Virtual = true ∧ filterFunc x f = true ∧ ∃ b ∈ bs, x.ID = b.ID ∧ x.OrganizationID = b.OrgID ∧
      x.Database = (bucketToMapping b).Database ∧ x.RetentionPolicy = (bucketToMapping b).RetentionPolicy ∧
      (x.Default = true → (bucketToMapping b).Default = true)) := by
  intro bs
  induction bs with
  | nil => intro ms x h; exact Or.inl (by simpa [mergeVirtual] using h)
  | cons b bs ih =>
    intro ms x h
    simp only [mergeVirtual] at h
    split at h
    · rcases ih ms x h with h1 | ⟨hv, hf, b', hb', hh⟩
      · exact Or.inl h1
      · exact Or.inr ⟨hv, hf, b', by simp [hb'], hh⟩
    · next nm hm =>
      have hs := mergeOne_some hm
      split at h
      · next hflt =>
        rcases ih _ x h with h1 | ⟨hv, hf, b', hb', hh⟩
        · rcases List.mem_append.mp h1 with h1 | h1
          · exact Or.inl h1
          · simp only [List.mem_singleton] at h1
            subst h1
            exact Or.inr ⟨by rw [hs.2.2.2.2.1]; rfl, hflt, b, by simp, by rw [hs.2.2.1]; rfl, by rw [hs.2.2.2.1]; rfl,
              hs.1, hs.2.1, hs.2.2.2.2.2.2⟩
        · exact Or.inr ⟨hv, hf, b', by simp [hb'], hh⟩
      · rcases ih ms x h with h1 | ⟨hv, hf, b', hb', hh⟩
        · exact Or.inl h1
        · exact Or.inr ⟨hv, hf, b', by simp [hb'], hh⟩

/-- a virtual mapping flagged default comes from a bucket whose name has no slash: its retention
    policy is `autogen` -/
theorem default_virtual_autogen (b : Bucket) (h : (bucketToMapping b).Default = true) :
    (bucketToMapping b).RetentionPolicy = "autogen" := by
  simp only [bucketToMapping, parseDBRP] at h ⊢
  split
  · next hc =>
    exfalso
    simp only [hc, ↓reduceIte, beq_iff_eq] at h
    -- the name would equal its own prefix before the first slash
    have h2 : b.Name.toList = (b.Name.toList.takeWhile (· != '/')) := by
      conv => lhs; rw [h]
      simp
    have hmem : '/' ∈ b.Name.toList.takeWhile (· != '/') := by
      rw [← h2]; simpa using hc
    have key : ∀ (l : List Char), '/' ∉ l.takeWhile (· != '/') := by
      intro l
      induction l with
      | nil => simp
      | cons c cs ih =>
        simp only [List.takeWhile_cons]
        split
        · next hc' =>
          simp only [List.mem_cons, not_or]
          refine ⟨?_, ih⟩
          intro he
          rw [← he] at hc'
          simp at hc'
        · simp
    exact key _ hmem
  · rfl

end Influx.DBRP
