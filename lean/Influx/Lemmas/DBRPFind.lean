/-
  Lemmas.DBRPFind — what `FindMany` returns in a consistent state.
-/
import Influx.Lemmas.DBRPInv

namespace Influx.DBRP
open Influx.Spec.C43

/-- a stored mapping as `FindMany` reports it: `Default` recomputed from the defaults bucket -/
def dflt (s : St) (v : Mapping) : Mapping :=
  { v with Default := getDefault s v.OrganizationID v.Database == some v.ID }

theorem addAll_ok {s : St} (h : Inv s) (f : Filter) : ∀ (vs acc : List Mapping), (∀ v ∈ vs, v ∈ s.recs) →
    addAll s f acc vs = .ok (acc ++ (vs.map (dflt s)).filter (filterFunc · f)) := by
  intro vs
  induction vs with
  | nil => intro acc _; simp [addAll]
  | cons v vs ih =>
    intro acc hv
    have hvr := hv v (by simp)
    have hex := h.defEx v hvr
    cases hd : getDefault s v.OrganizationID v.Database with
    | none => simp [hd] at hex
    | some d =>
      have hdf : ({ v with Default := v.ID == d } : Mapping) = dflt s v := by
        simp only [dflt, hd]
        congr 1
        by_cases hc : v.ID = d
        · simp [hc]
        · have hc' : ¬d = v.ID := fun e => hc e.symm
          rw [beq_eq_false_iff_ne.mpr hc]
          symm
          simp [hc']
      simp only [addAll, hd, hdf, List.map_cons, List.filter_cons]
      rw [ih _ (fun x hx => hv x (by simp [hx]))]
      split <;> simp

theorem dflt_fields (s : St) (v : Mapping) : (dflt s v).ID = v.ID ∧ (dflt s v).Database = v.Database ∧
    (dflt s v).RetentionPolicy = v.RetentionPolicy ∧ (dflt s v).OrganizationID = v.OrganizationID ∧
    (dflt s v).Virtual = v.Virtual ∧ (dflt s v).BucketID = v.BucketID := ⟨rfl, rfl, rfl, rfl, rfl, rfl⟩

/-! ### lists with pairwise distinct ids -/

/-- stored mappings of one organization with distinct ids name each (db, rp) once -/
theorem pairsUnique_of_distinct {s : St} (h : Inv s) (org : Nat) : ∀ (l : List Mapping),
    (∀ v ∈ l, v ∈ s.recs ∧ v.OrganizationID = org) → l.Pairwise (fun a b => a.ID ≠ b.ID) →
    pairsUnique (l.map (dflt s)) = true := by
  intro l
  induction l with
  | nil => intro _ _; rfl
  | cons v vs ih =>
    intro hm hp
    rw [List.pairwise_cons] at hp
    simp only [List.map_cons, pairsUnique, Bool.and_eq_true, List.all_eq_true, List.mem_map, Bool.not_eq_true',
      Bool.and_eq_false_iff, beq_eq_false_iff_ne, forall_exists_index, and_imp, forall_apply_eq_imp_iff₂]
    refine ⟨?_, ih (fun x hx => hm x (by simp [hx])) hp.2⟩
    intro x hx
    by_cases hdb : x.Database = v.Database
    · right
      intro hrp
      have hv := hm v (by simp)
      have hx' := hm x (by simp [hx])
      have := h.uniq x hx'.1 v hv.1 (by rw [hx'.2, hv.2]) hdb hrp
      exact hp.1 x hx (by rw [this])
    · left; exact hdb

/-- number of mappings of `db` flagged default -/
def cnt (l : List Mapping) (db : String) : Nat := (l.filter fun m => m.Database == db && m.Default).length

theorem cnt_append (a b : List Mapping) (db : String) : cnt (a ++ b) db = cnt a db + cnt b db := by
  simp [cnt, List.filter_append]

/-- among stored mappings with distinct ids, those of `(org, db)` flagged default are exactly the
    one whose id is the database's default entry -/
theorem cnt_physical {s : St} (h : Inv s) (org : Nat) (db : String) : ∀ (l : List Mapping),
    (∀ v ∈ l, v ∈ s.recs ∧ v.OrganizationID = org) → l.Pairwise (fun a b => a.ID ≠ b.ID) →
    cnt (l.map (dflt s)) db ≤ 1 ∧
    (∀ v ∈ l, v.Database = db → getDefault s org db = some v.ID → cnt (l.map (dflt s)) db = 1) := by
  intro l
  induction l with
  | nil => intro _ _; simp [cnt]
  | cons v vs ih =>
    intro hm hp
    rw [List.pairwise_cons] at hp
    have hv := hm v (by simp)
    obtain ⟨ih1, ih2⟩ := ih (fun x hx => hm x (by simp [hx])) hp.2
    -- if `v` is the default of `db`, no later element is
    have hnone : v.Database = db → getDefault s org db = some v.ID → cnt (vs.map (dflt s)) db = 0 := by
      intro hdb hd
      simp only [cnt, List.length_eq_zero_iff, List.filter_eq_nil_iff, List.mem_map, Bool.and_eq_true, beq_iff_eq,
        not_and, Bool.not_eq_true, forall_exists_index, and_imp, forall_apply_eq_imp_iff₂]
      intro x hx hxdb
      have hx' := hm x (by simp [hx])
      simp only [dflt, hx'.2] at hxdb ⊢
      rw [hxdb, hd]
      simp only [beq_eq_false_iff_ne, ne_eq, Option.some.injEq]
      exact fun hc => hp.1 x hx hc
    have hcons : cnt ((v :: vs).map (dflt s)) db =
        (if (dflt s v).Database == db && (dflt s v).Default then 1 else 0) + cnt (vs.map (dflt s)) db := by
      simp only [cnt, List.map_cons, List.filter_cons]
      split <;> simp <;> omega
    rw [hcons]
    by_cases hvd : ((dflt s v).Database == db && (dflt s v).Default) = true
    · simp only [hvd, ↓reduceIte]
      simp only [dflt, Bool.and_eq_true, beq_iff_eq, hv.2] at hvd
      have hz := hnone hvd.1 (by rw [← hvd.1]; exact hvd.2)
      refine ⟨by omega, ?_⟩
      intro x _ _ _; omega
    · simp only [hvd, Bool.false_eq_true, ↓reduceIte, Nat.zero_add]
      refine ⟨ih1, ?_⟩
      intro x hx hxdb hxd
      rcases List.mem_cons.mp hx with rfl | hx
      · exfalso; apply hvd
        simp only [dflt, Bool.and_eq_true, beq_iff_eq, hv.2]
        exact ⟨hxdb, by rw [hxdb, hxd]⟩
      · exact ih2 x hx hxdb hxd

end Influx.DBRP

namespace Influx.DBRP
open Influx.Spec.C43

/-! ### the virtual merge -/

/-- `mergeOne` skips the virtual mapping exactly when an entry names its (db, rp) -/
theorem mergeOne_none_iff {nm : Mapping} (hv : nm.Virtual = true) (ms : List Mapping) :
    mergeOne nm ms = none ↔ ∃ m ∈ ms, m.Database = nm.Database ∧ m.RetentionPolicy = nm.RetentionPolicy := by
  induction ms generalizing nm with
  | nil => simp [mergeOne]
  | cons m ms ih =>
    simp only [mergeOne]
    split
    · next hdb =>
      simp only [beq_iff_eq] at hdb
      split
      · next hrp =>
        simp only [hv, Bool.true_and, beq_iff_eq] at hrp
        simp only [true_iff]
        exact ⟨m, by simp, hdb, hrp⟩
      · next hrp =>
        simp only [hv, Bool.true_and, beq_iff_eq] at hrp
        have := ih (nm := if (m.Default && nm.Default) = true then { nm with Default := false } else nm)
          (by split <;> simp [hv])
        rw [this]
        have e1 : (if (m.Default && nm.Default) = true then { nm with Default := false } else nm).Database = nm.Database := by
          split <;> rfl
        have e2 : (if (m.Default && nm.Default) = true then { nm with Default := false } else nm).RetentionPolicy = nm.RetentionPolicy := by
          split <;> rfl
        rw [e1, e2]
        constructor
        · rintro ⟨x, hx, h1, h2⟩; exact ⟨x, by simp [hx], h1, h2⟩
        · rintro ⟨x, hx, h1, h2⟩
          rcases List.mem_cons.mp hx with rfl | hx
          · exact absurd h2 hrp
          · exact ⟨x, hx, h1, h2⟩
    · next hdb =>
      simp only [beq_iff_eq] at hdb
      rw [ih hv]
      constructor
      · rintro ⟨x, hx, h1, h2⟩; exact ⟨x, by simp [hx], h1, h2⟩
      · rintro ⟨x, hx, h1, h2⟩
        rcases List.mem_cons.mp hx with rfl | hx
        · exact absurd h1 hdb
        · exact ⟨x, hx, h1, h2⟩

/-- the merge never lowers and never raises above one the number of defaults of a database -/
theorem mergeVirtual_cnt (f : Filter) (db : String) : ∀ (bs : List Bucket) (ms : List Mapping),
    cnt ms db ≤ 1 → cnt ms db ≤ cnt (mergeVirtual f ms bs) db ∧ cnt (mergeVirtual f ms bs) db ≤ 1 := by
  intro bs
  induction bs with
  | nil => intro ms h; simp [mergeVirtual, h]
  | cons b bs ih =>
    intro ms h
    simp only [mergeVirtual]
    split
    · exact ih ms h
    · next nm hm =>
      split
      · have hstep : cnt ms db ≤ cnt (ms ++ [nm]) db ∧ cnt (ms ++ [nm]) db ≤ 1 := by
          rw [cnt_append]
          by_cases hd : (nm.Database == db && nm.Default) = true
          · simp only [Bool.and_eq_true, beq_iff_eq] at hd
            have hz : cnt ms db = 0 := by
              simp only [cnt, List.length_eq_zero_iff, List.filter_eq_nil_iff, Bool.and_eq_true, beq_iff_eq, not_and,
                Bool.not_eq_true]
              intro x hx hxdb
              exact mergeOne_some_default hm hd.2 x hx (by rw [hxdb, ← hd.1, (mergeOne_some hm).1])
            have : cnt [nm] db = 1 := by simp [cnt, hd.1, hd.2]
            omega
          · have : cnt [nm] db = 0 := by simp [cnt, hd]
            omega
        have := ih (ms ++ [nm]) hstep.2
        omega
      · exact ih ms h

/-- what the merge appends comes from a bucket of the list -/
theorem mergeVirtual_from (f : Filter) : ∀ (bs : List Bucket) (ms : List Mapping) (x : Mapping),
    x ∈ mergeVirtual f ms bs → x ∈ ms ∨ (x.Virtual = true ∧ filterFunc x f = true ∧ ∃ b ∈ bs, x.ID = b.ID ∧ x.OrganizationID = b.OrgID ∧
      x.Database = (bucketToMapping b).Database ∧ x.RetentionPolicy = (bucketToMapping b).RetentionPolicy ∧
      (x.Default = true → (bucketToMapping b).Default = true)) := by
  intro bs
  induction bs with
  | nil => intro ms x h; exact Or.inl (by simpa [mergeVirtual] using h)
  | cons b bs ih =>
    intro ms x h
    simp only [mergeVirtual] at h
    split at h
    · rcases ih ms x h with h1 | ⟨hv, hf, b', hb', hh⟩
      · exact Or.inl h1
      · exact Or.inr ⟨hv, hf, b', by simp [hb'], hh⟩
    · next nm hm =>
      have hs := mergeOne_some hm
      split at h
      · next hflt =>
        rcases ih _ x h with h1 | ⟨hv, hf, b', hb', hh⟩
        · rcases List.mem_append.mp h1 with h1 | h1
          · exact Or.inl h1
          · simp only [List.mem_singleton] at h1
            subst h1
            exact Or.inr ⟨by rw [hs.2.2.2.2.1]; rfl, hflt, b, by simp, by rw [hs.2.2.1]; rfl, by rw [hs.2.2.2.1]; rfl,
              hs.1, hs.2.1, hs.2.2.2.2.2.2⟩
        · exact Or.inr ⟨hv, hf, b', by simp [hb'], hh⟩
      · rcases ih ms x h with h1 | ⟨hv, hf, b', hb', hh⟩
        · exact Or.inl h1
        · exact Or.inr ⟨hv, hf, b', by simp [hb'], hh⟩

/-- a virtual mapping flagged default comes from a bucket whose name has no slash: its retention
    policy is `autogen` -/
theorem default_virtual_autogen (b : Bucket) (h : (bucketToMapping b).Default = true) :
    (bucketToMapping b).RetentionPolicy = "autogen" := by
  simp only [bucketToMapping, parseDBRP] at h ⊢
  split
  · next hc =>
    exfalso
    simp only [hc, ↓reduceIte, beq_iff_eq] at h
    -- the name would equal its own prefix before the first slash
    have h2 : b.Name.toList = (b.Name.toList.takeWhile (· != '/')) := by
      conv => lhs; rw [h]
      simp
    have hmem : '/' ∈ b.Name.toList.takeWhile (· != '/') := by
      rw [← h2]; simpa using hc
    have key : ∀ (l : List Char), '/' ∉ l.takeWhile (· != '/') := by
      intro l
      induction l with
      | nil => simp
      | cons c cs ih =>
        simp only [List.takeWhile_cons]
        split
        · next hc' =>
          simp only [List.mem_cons, not_or]
          refine ⟨?_, ih⟩
          intro he
          rw [← he] at hc'
          simp at hc'
        · simp
    exact key _ hmem
  · rfl

end Influx.DBRP

namespace Influx.DBRP
open Influx.Spec.C43

/-! ### the listing of an organization -/

def orgFilter (org : Nat) : Filter := { OrgID := some org }

theorem filterFunc_org (m : Mapping) (org : Nat) : filterFunc m (orgFilter org) = decide (m.OrganizationID = org) := by
  rw [filterFunc_eq_spec]
  simp only [filterFuncSpec, orgFilter, Option.isNone_none, Bool.true_or, Bool.true_and, Option.isNone_some, Bool.false_or,
    Bool.and_true]
  by_cases h : m.OrganizationID = org
  · simp [h]
  · have h' : ¬org = m.OrganizationID := fun e => h e.symm
    simp [h, h']

/-- the stored part of the listing -/
def physOrg (s : St) (org : Nat) : List Mapping := (walkOrg s org).map (dflt s)

theorem findMany_listing {s : St} (h : Inv s) (org : Nat) :
    findMany s (orgFilter org) = .ok (mergeVirtual (orgFilter org) (physOrg s org) (findBuckets s (orgFilter org))) := by
  unfold findMany findPhysical
  simp only [orgFilter]
  rw [addAll_ok h _ _ _ (fun v hv => ((walkOrg_mem h).mp hv).1)]
  simp only [List.nil_append]
  have : ((walkOrg s org).map (dflt s)).filter (filterFunc · (orgFilter org)) = physOrg s org := by
    unfold physOrg
    apply List.filter_eq_self.mpr
    intro x hx
    simp only [List.mem_map] at hx
    obtain ⟨v, hv, rfl⟩ := hx
    rw [filterFunc_org]
    simp only [decide_eq_true_eq]
    exact ((walkOrg_mem h).mp hv).2
  simp only [orgFilter] at this
  rw [this]

theorem physOrg_mem {s : St} (h : Inv s) {org : Nat} {x : Mapping} (hx : x ∈ physOrg s org) :
    ∃ v ∈ s.recs, v.OrganizationID = org ∧ x = dflt s v := by
  simp only [physOrg, List.mem_map] at hx
  obtain ⟨v, hv, rfl⟩ := hx
  exact ⟨v, ((walkOrg_mem h).mp hv).1, ((walkOrg_mem h).mp hv).2, rfl⟩

/-- **the listing of an organization satisfies the statement** -/
theorem listing_ok {s : St} (h : Inv s) (org : Nat) :
    listingOK org (mergeVirtual (orgFilter org) (physOrg s org) (findBuckets s (orgFilter org))) = true := by
  have hwm : ∀ v ∈ walkOrg s org, v ∈ s.recs ∧ v.OrganizationID = org := fun v hv => (walkOrg_mem h).mp hv
  have hfrom := mergeVirtual_from (orgFilter org) (findBuckets s (orgFilter org)) (physOrg s org)
  simp only [listingOK, Bool.and_eq_true]
  refine ⟨⟨?_, ?_⟩, ?_⟩
  · simp only [List.all_eq_true, beq_iff_eq]
    intro x hx
    rcases hfrom x hx with h1 | ⟨_, hf, _⟩
    · obtain ⟨v, _, hvo, rfl⟩ := physOrg_mem h h1
      exact hvo
    · rw [filterFunc_org] at hf; simpa using hf
  · exact mergeVirtual_pairsUnique _ _ _ (pairsUnique_of_distinct h org _ hwm (walkOrg_nodup h org))
  · simp only [defaultsOK, List.all_eq_true]
    intro db _
    have hc := cnt_physical h org db (walkOrg s org) hwm (walkOrg_nodup h org)
    have hm := mergeVirtual_cnt (orgFilter org) db (findBuckets s (orgFilter org)) (physOrg s org) hc.1
    show (if (List.any _ fun (m : Mapping) => m.Database == db && !m.Virtual) = true then
      cnt (mergeVirtual (orgFilter org) (physOrg s org) (findBuckets s (orgFilter org))) db == 1
      else decide (cnt (mergeVirtual (orgFilter org) (physOrg s org) (findBuckets s (orgFilter org))) db ≤ 1)) = true
    split
    · next hany =>
      simp only [List.any_eq_true, Bool.and_eq_true, beq_iff_eq, Bool.not_eq_true'] at hany
      obtain ⟨x, hx, hxdb, hxv⟩ := hany
      rcases hfrom x hx with h1 | ⟨hv, _⟩
      · obtain ⟨v, hv, hvo, rfl⟩ := physOrg_mem h h1
        -- the database has a stored mapping, hence a default entry naming a stored mapping of it
        have hex := h.defEx v hv
        cases hd : getDefault s v.OrganizationID v.Database with
        | none => simp [hd] at hex
        | some d =>
          obtain ⟨y, hy, e1, e2, e3⟩ := h.defSome _ _ _ hd
          have hyw : y ∈ walkOrg s org := (walkOrg_mem h).mpr ⟨hy, by rw [e2, hvo]⟩
          have hvdb : v.Database = db := hxdb
          have := hc.2 y hyw (by rw [e3, hvdb]) (by rw [← hvo, ← hvdb, hd, e1])
          have hp : cnt (physOrg s org) db = 1 := this
          simp only [beq_iff_eq]
          omega
      · rw [hv] at hxv; cases hxv
    · simpa using hm.2

end Influx.DBRP

namespace Influx.DBRP
open Influx.Spec.C43

/-! ### small list facts -/

theorem length_le_one_of_eq {l : List Mapping} (hp : l.Pairwise (fun a b => a.ID ≠ b.ID))
    (he : ∀ x ∈ l, ∀ y ∈ l, x.ID = y.ID) : l.length ≤ 1 := by
  cases l with
  | nil => simp
  | cons a t =>
    cases t with
    | nil => simp
    | cons b t' =>
      rw [List.pairwise_cons] at hp
      exact absurd (he a (by simp) b (by simp)) (hp.1 b (by simp))

theorem eq_of_length_le_one {l l' : List Mapping} (h1 : l.length ≤ 1) (h2 : l'.length ≤ 1)
    (hm : ∀ x, x ∈ l ↔ x ∈ l') : l = l' := by
  cases l with
  | nil =>
    cases l' with
    | nil => rfl
    | cons b t => have := (hm b).mpr (by simp); simp at this
  | cons a t =>
    cases t with
    | cons _ _ => simp at h1
    | nil =>
      cases l' with
      | nil => have := (hm a).mp (by simp); simp at this
      | cons b t' =>
        cases t' with
        | cons _ _ => simp at h2
        | nil =>
          have := (hm a).mp (by simp)
          simp only [List.mem_singleton] at this
          rw [this]

theorem pairsUnique_of_length_le_one {l : List Mapping} (h : l.length ≤ 1) : pairsUnique l = true := by
  cases l with
  | nil => rfl
  | cons a t =>
    cases t with
    | nil => simp [pairsUnique]
    | cons _ _ => simp at h

/-- names of one pair occur at most once in a list with unique pairs -/
theorem length_le_one_of_pairsUnique {l : List Mapping} (hu : pairsUnique l = true) (db rp : String)
    (ht : ∀ x ∈ l, x.Database = db ∧ x.RetentionPolicy = rp) : l.length ≤ 1 := by
  cases l with
  | nil => simp
  | cons a t =>
    cases t with
    | nil => simp
    | cons b t' =>
      simp only [pairsUnique, Bool.and_eq_true, List.all_eq_true] at hu
      have := hu.1 b (by simp)
      have ha := ht a (by simp)
      have hb := ht b (by simp)
      simp [ha.1, ha.2, hb.1, hb.2] at this

theorem eq_singleton_of_mem {l : List Mapping} (h : l.length = 1) {x : Mapping} (hx : x ∈ l) : l = [x] := by
  cases l with
  | nil => simp at h
  | cons a t =>
    cases t with
    | nil => simp only [List.mem_singleton] at hx; rw [hx]
    | cons _ _ => simp at h

end Influx.DBRP

namespace Influx.DBRP
open Influx.Spec.C43

/-! ### lookup by (org, db, rp) -/

def resFilter (org : Nat) (db rp : String) : Filter :=
  { OrgID := some org, Database := some db, RetentionPolicy := some rp }

/-- the pair test of the statement -/
def isPair (db rp : String) (m : Mapping) : Bool := m.Database == db && m.RetentionPolicy == rp

theorem beq_swap {α : Type} [DecidableEq α] (a b : α) : (a == b) = (b == a) := by
  by_cases h : a = b
  · subst h; rfl
  · rw [beq_eq_false_iff_ne.mpr h, beq_eq_false_iff_ne.mpr (Ne.symm h)]

theorem filterFunc_res (m : Mapping) (org : Nat) (db rp : String) :
    filterFunc m (resFilter org db rp) = (decide (m.OrganizationID = org) && isPair db rp m) := by
  rw [filterFunc_eq_spec]
  simp only [filterFuncSpec, resFilter, isPair, Option.isNone_none, Bool.true_or, Bool.true_and, Option.isNone_some,
    Bool.false_or, Bool.and_true, Option.some_beq_some]
  rw [beq_swap org, beq_swap db, beq_swap rp, Bool.and_assoc]
  congr 1

theorem findBuckets_res (s : St) (org : Nat) (db rp : String) :
    findBuckets s (resFilter org db rp) = findBuckets s (orgFilter org) := rfl

theorem findBuckets_org {s : St} {org : Nat} {b : Bucket} (h : b ∈ findBuckets s (orgFilter org)) : b.OrgID = org := by
  simp only [findBuckets, orgFilter, List.mem_filter, Option.isNone_none, Bool.true_or, Option.isNone_some, Bool.false_or,
    Bool.true_and, beq_iff_eq, Option.some.injEq] at h
  exact h.2.symm

/-- relation between the accumulators of the listing merge and of the lookup merge -/
def Rel (db rp : String) (aL aR : List Mapping) : Prop :=
  ids (aL.filter (isPair db rp)) = ids aR ∧ ∀ y ∈ aR, isPair db rp y = true

theorem merge_sim (org : Nat) (db rp : String) : ∀ (bs : List Bucket) (aL aR : List Mapping),
    (∀ b ∈ bs, b.OrgID = org) → Rel db rp aL aR →
    Rel db rp (mergeVirtual (orgFilter org) aL bs) (mergeVirtual (resFilter org db rp) aR bs) := by
  intro bs
  induction bs with
  | nil => intro aL aR _ h; simpa [mergeVirtual] using h
  | cons b bs ih =>
    intro aL aR hb hrel
    have hbs : ∀ b' ∈ bs, b'.OrgID = org := fun b' hb' => hb b' (by simp [hb'])
    have hbo : (bucketToMapping b).OrganizationID = org := hb b (by simp)
    have hv := bucketToMapping_virtual b
    simp only [mergeVirtual]
    by_cases hT : isPair db rp (bucketToMapping b) = true
    · -- the bucket names the pair looked up: both merges skip it, or both append it
      have hTd : (bucketToMapping b).Database = db ∧ (bucketToMapping b).RetentionPolicy = rp := by
        simpa [isPair] using hT
      have hiff : mergeOne (bucketToMapping b) aL = none ↔ mergeOne (bucketToMapping b) aR = none := by
        rw [mergeOne_none_iff hv, mergeOne_none_iff hv, hTd.1, hTd.2]
        constructor
        · rintro ⟨m, hm, h1, h2⟩
          have hmf : m ∈ aL.filter (isPair db rp) := List.mem_filter.mpr ⟨hm, by simp [isPair, h1, h2]⟩
          have hne : ids aR ≠ [] := by
            rw [← hrel.1]; intro hc
            simp only [ids, List.map_eq_nil_iff] at hc
            rw [hc] at hmf; simp at hmf
          cases haR : aR with
          | nil => rw [haR] at hne; simp [ids] at hne
          | cons y t =>
            have := hrel.2 y (by rw [haR]; simp)
            simp only [isPair, Bool.and_eq_true, beq_iff_eq] at this
            exact ⟨y, by simp, this.1, this.2⟩
        · rintro ⟨m, hm, _, _⟩
          have hne : ids (aL.filter (isPair db rp)) ≠ [] := by
            rw [hrel.1]; intro hc
            simp only [ids, List.map_eq_nil_iff] at hc
            rw [hc] at hm; simp at hm
          cases haL : aL.filter (isPair db rp) with
          | nil => rw [haL] at hne; simp [ids] at hne
          | cons y t =>
            have hy : y ∈ aL.filter (isPair db rp) := by rw [haL]; simp
            have := List.mem_filter.mp hy
            simp only [isPair, Bool.and_eq_true, beq_iff_eq] at this
            exact ⟨y, this.1, this.2.1, this.2.2⟩
      cases hmL : mergeOne (bucketToMapping b) aL with
      | none =>
        rw [hiff.mp hmL]
        exact ih aL aR hbs hrel
      | some nmL =>
        cases hmR : mergeOne (bucketToMapping b) aR with
        | none => rw [hiff.mpr hmR] at hmL; cases hmL
        | some nmR =>
          have hsL := mergeOne_some hmL
          have hsR := mergeOne_some hmR
          have hfL : filterFunc nmL (orgFilter org) = true := by
            rw [filterFunc_org, hsL.2.2.2.1, hbo]; simp
          have hTR : isPair db rp nmR = true := by simp [isPair, hsR.1, hsR.2.1, hTd.1, hTd.2]
          have hTL : isPair db rp nmL = true := by simp [isPair, hsL.1, hsL.2.1, hTd.1, hTd.2]
          have hfR : filterFunc nmR (resFilter org db rp) = true := by
            rw [filterFunc_res, hsR.2.2.2.1, hbo, hTR]; simp
          simp only [hfL, hfR, ↓reduceIte]
          apply ih _ _ hbs
          refine ⟨?_, ?_⟩
          · simp only [List.filter_append, List.filter_cons, hTL, ↓reduceIte, List.filter_nil, ids, List.map_append,
              List.map_cons, List.map_nil]
            have := hrel.1
            simp only [ids] at this
            rw [this, hsL.2.2.1, hsR.2.2.1]
          · intro y hy
            rcases List.mem_append.mp hy with hy | hy
            · exact hrel.2 y hy
            · simp only [List.mem_singleton] at hy; rw [hy]; exact hTR
    · -- another pair: the lookup never appends it, the listing's filtered view is unchanged
      have hTf : isPair db rp (bucketToMapping b) = false := by simpa using hT
      cases hmR : mergeOne (bucketToMapping b) aR with
      | none =>
        cases hmL : mergeOne (bucketToMapping b) aL with
        | none => exact ih aL aR hbs hrel
        | some nmL =>
          have hsL := mergeOne_some hmL
          have hTL : isPair db rp nmL = false := by simp only [isPair, hsL.1, hsL.2.1]; exact hTf
          simp only
          split
          · apply ih _ _ hbs
            refine ⟨?_, hrel.2⟩
            simp only [List.filter_append, List.filter_cons, hTL, Bool.false_eq_true, ↓reduceIte, List.filter_nil,
              List.append_nil]
            exact hrel.1
          · exact ih aL aR hbs hrel
      | some nmR =>
        have hsR := mergeOne_some hmR
        have hfR : filterFunc nmR (resFilter org db rp) = false := by
          rw [filterFunc_res]
          have : isPair db rp nmR = false := by
            simp only [isPair, hsR.1, hsR.2.1]; exact hTf
          simp [this]
        simp only [hfR, Bool.false_eq_true, ↓reduceIte]
        cases hmL : mergeOne (bucketToMapping b) aL with
        | none => exact ih aL aR hbs hrel
        | some nmL =>
          have hsL := mergeOne_some hmL
          have hTL : isPair db rp nmL = false := by simp only [isPair, hsL.1, hsL.2.1]; exact hTf
          simp only
          split
          · apply ih _ _ hbs
            refine ⟨?_, hrel.2⟩
            simp only [List.filter_append, List.filter_cons, hTL, Bool.false_eq_true, ↓reduceIte, List.filter_nil,
              List.append_nil]
            exact hrel.1
          · exact ih aL aR hbs hrel

end Influx.DBRP

namespace Influx.DBRP
open Influx.Spec.C43

/-- the stored part of the lookup by (org, db, rp) -/
def physRes (s : St) (org : Nat) (db rp : String) : List Mapping :=
  ((walk s org db).map (dflt s)).filter (filterFunc · (resFilter org db rp))

theorem findMany_resolve {s : St} (h : Inv s) (org : Nat) (db rp : String) (hdb : db ≠ "") :
    findMany s (resFilter org db rp) =
      .ok (mergeVirtual (resFilter org db rp) (physRes s org db rp) (findBuckets s (orgFilter org))) := by
  unfold findMany findPhysical
  have hne : (db != "") = true := by simpa using hdb
  simp only [resFilter, hne, ↓reduceIte]
  have hnd : ((none : Option Bool) == some true) = false := rfl
  simp only [hnd, Bool.false_eq_true, ↓reduceIte]
  rw [addAll_ok h _ _ _ (fun v hv => ((walk_mem h).mp hv).1)]
  rfl

theorem pairwise_ids_map_dflt {s : St} {l : List Mapping} (hp : l.Pairwise (fun a b => a.ID ≠ b.ID)) :
    (l.map (dflt s)).Pairwise (fun a b => a.ID ≠ b.ID) := by
  rw [List.pairwise_map]; exact hp

/-- **lookup by (org, db, rp)**: at most one mapping, the one the listing shows for that pair -/
theorem resolve_ok {s : St} (h : Inv s) (org : Nat) (db rp : String) :
    let R := mergeVirtual (resFilter org db rp) (physRes s org db rp) (findBuckets s (orgFilter org))
    let L := mergeVirtual (orgFilter org) (physOrg s org) (findBuckets s (orgFilter org))
    R.length ≤ 1 ∧ ids R = ids (L.filter fun m => m.Database == db && m.RetentionPolicy == rp) := by
  intro R L
  -- both stored parts have at most one element and the same members
  have hA_mem : ∀ x, x ∈ (physOrg s org).filter (isPair db rp) ↔
      ∃ v ∈ s.recs, v.OrganizationID = org ∧ v.Database = db ∧ v.RetentionPolicy = rp ∧ x = dflt s v := by
    intro x
    simp only [List.mem_filter, physOrg, List.mem_map, isPair, Bool.and_eq_true, beq_iff_eq]
    constructor
    · rintro ⟨⟨v, hv, rfl⟩, h1, h2⟩
      have := (walkOrg_mem h).mp hv
      exact ⟨v, this.1, this.2, h1, h2, rfl⟩
    · rintro ⟨v, hv, ho, h1, h2, rfl⟩
      exact ⟨⟨v, (walkOrg_mem h).mpr ⟨hv, ho⟩, rfl⟩, h1, h2⟩
  have hB_mem : ∀ x, x ∈ physRes s org db rp ↔
      ∃ v ∈ s.recs, v.OrganizationID = org ∧ v.Database = db ∧ v.RetentionPolicy = rp ∧ x = dflt s v := by
    intro x
    simp only [physRes, List.mem_filter, List.mem_map, filterFunc_res, isPair, Bool.and_eq_true, decide_eq_true_eq,
      beq_iff_eq]
    constructor
    · rintro ⟨⟨v, hv, rfl⟩, _, h1, h2⟩
      have := (walk_mem h).mp hv
      exact ⟨v, this.1, this.2.1, this.2.2, h2, rfl⟩
    · rintro ⟨v, hv, ho, h1, h2, rfl⟩
      exact ⟨⟨v, (walk_mem h).mpr ⟨hv, ho, h1⟩, rfl⟩, ho, h1, h2⟩
  have hsame : ∀ x y, (∃ v ∈ s.recs, v.OrganizationID = org ∧ v.Database = db ∧ v.RetentionPolicy = rp ∧ x = dflt s v) →
      (∃ v ∈ s.recs, v.OrganizationID = org ∧ v.Database = db ∧ v.RetentionPolicy = rp ∧ y = dflt s v) → x.ID = y.ID := by
    rintro x y ⟨v, hv, h1, h2, h3, rfl⟩ ⟨w, hw, g1, g2, g3, rfl⟩
    rw [h.uniq v hv w hw (by rw [h1, g1]) (by rw [h2, g2]) (by rw [h3, g3])]
  have hA_len : ((physOrg s org).filter (isPair db rp)).length ≤ 1 :=
    length_le_one_of_eq ((pairwise_ids_map_dflt (walkOrg_nodup h org)).filter _)
      (fun x hx y hy => hsame x y ((hA_mem x).mp hx) ((hA_mem y).mp hy))
  have hB_len : (physRes s org db rp).length ≤ 1 :=
    length_le_one_of_eq ((pairwise_ids_map_dflt (walk_nodup h org db)).filter _)
      (fun x hx y hy => hsame x y ((hB_mem x).mp hx) ((hB_mem y).mp hy))
  have hAB : (physOrg s org).filter (isPair db rp) = physRes s org db rp :=
    eq_of_length_le_one hA_len hB_len (fun x => by rw [hA_mem, hB_mem])
  have hrel0 : Rel db rp (physOrg s org) (physRes s org db rp) := by
    refine ⟨by rw [hAB], ?_⟩
    intro y hy
    obtain ⟨v, _, _, h1, h2, rfl⟩ := (hB_mem y).mp hy
    simp [isPair, dflt, h1, h2]
  have hrel := merge_sim org db rp (findBuckets s (orgFilter org)) _ _ (fun b hb => findBuckets_org hb) hrel0
  refine ⟨?_, hrel.1.symm⟩
  have hu : pairsUnique R = true :=
    mergeVirtual_pairsUnique _ _ _ (pairsUnique_of_length_le_one hB_len)
  apply length_le_one_of_pairsUnique hu db rp
  intro x hx
  have := hrel.2 x hx
  simpa [isPair] using this

/-! ### lookup of the default (org, db, default = true) -/

def defFilter (org : Nat) (db : String) : Filter :=
  { OrgID := some org, Database := some db, Default := some true }

theorem filterFunc_def (m : Mapping) (org : Nat) (db : String) :
    filterFunc m (defFilter org db) = (decide (m.OrganizationID = org) && (m.Database == db && m.Default)) := by
  rw [filterFunc_eq_spec]
  simp only [filterFuncSpec, defFilter, Option.isNone_none, Bool.true_or, Bool.true_and, Option.isNone_some,
    Bool.false_or, Bool.and_true, Option.some_beq_some]
  rw [beq_swap org, beq_swap db, Bool.and_assoc]
  congr 1
  congr 1
  cases m.Default <;> rfl

/-- with a stored default in front, no virtual mapping passes the default filter -/
theorem merge_def_const (org : Nat) (db : String) (dv : Mapping) (hdb : dv.Database = db) (hd : dv.Default = true) :
    ∀ (bs : List Bucket), mergeVirtual (defFilter org db) [dv] bs = [dv] := by
  intro bs
  induction bs with
  | nil => rfl
  | cons b bs ih =>
    simp only [mergeVirtual]
    cases hm : mergeOne (bucketToMapping b) [dv] with
    | none => exact ih
    | some nm =>
      have hs := mergeOne_some hm
      have hflt : filterFunc nm (defFilter org db) = false := by
        rw [filterFunc_def]
        by_cases hnd : nm.Database = db
        · have hdef : nm.Default = false := by
            cases hnmd : nm.Default with
            | false => rfl
            | true =>
              have := mergeOne_some_default hm hnmd dv (by simp) (by rw [hdb, ← hnd, hs.1])
              rw [hd] at this; cases this
          simp [hdef]
        · have : (nm.Database == db) = false := by simpa using hnd
          simp [this]
      simp only [hflt, Bool.false_eq_true, ↓reduceIte]
      exact ih

end Influx.DBRP

namespace Influx.DBRP
open Influx.Spec.C43

theorem findMany_default {s : St} (h : Inv s) (org : Nat) (db : String) (hdb : db ≠ "") :
    (getDefault s org db = none ∧
      findMany s (defFilter org db) = .ok (mergeVirtual (defFilter org db) [] (findBuckets s (orgFilter org)))) ∨
    (∃ v ∈ s.recs, v.OrganizationID = org ∧ v.Database = db ∧ getDefault s org db = some v.ID ∧
      findMany s (defFilter org db) = .ok [dflt s v]) := by
  unfold findMany findPhysical
  have hne : (db != "") = true := by simpa using hdb
  have hnd : ((some true : Option Bool) == some true) = true := rfl
  simp only [defFilter, hne, ↓reduceIte, hnd]
  cases hd : getDefault s org db with
  | none => left; exact ⟨rfl, rfl⟩
  | some d =>
    right
    obtain ⟨v, hv, e1, e2, e3⟩ := h.defSome org db d hd
    have hget : getRec s d = some v := (getRec_iff h).mpr ⟨hv, e1⟩
    refine ⟨v, hv, e2, e3, by rw [e1], ?_⟩
    simp only [hget]
    rw [addAll_ok h _ _ _ (fun x hx => by simp only [List.mem_singleton] at hx; rw [hx]; exact hv)]
    have hpass : filterFunc (dflt s v) (defFilter org db) = true := by
      rw [filterFunc_def]
      simp [dflt, e2, e3, hd, e1]
    have hdv : (dflt s v).Database = db ∧ (dflt s v).Default = true := by simp [dflt, e2, e3, hd, e1]
    simp only [List.nil_append, List.map_cons, List.map_nil, List.filter_cons, defFilter] at hpass ⊢
    simp only [hpass, ↓reduceIte, List.filter_nil]
    have := merge_def_const org db (dflt s v) hdv.1 hdv.2 (findBuckets s (orgFilter org))
    simp only [defFilter] at this
    exact congrArg Except.ok this

/-- **lookup of the default**: at most one mapping; for a database with a stored mapping it is the
    one the listing flags default -/
theorem default_ok {s : St} (h : Inv s) (org : Nat) (db : String) (hdb : db ≠ "") :
    ∃ R, findMany s (defFilter org db) = .ok R ∧ R.length ≤ 1 ∧
      let L := mergeVirtual (orgFilter org) (physOrg s org) (findBuckets s (orgFilter org))
      ((L.any fun m => m.Database == db && !m.Virtual) = true →
        ids R = ids (L.filter fun m => m.Database == db && m.Default)) := by
  rcases findMany_default h org db hdb with ⟨hnone, hf⟩ | ⟨v, hv, ho, hvdb, hd, hf⟩
  · refine ⟨_, hf, ?_, ?_⟩
    · -- only virtual defaults of `db`: all named (db, autogen)
      have hu : pairsUnique (mergeVirtual (defFilter org db) [] (findBuckets s (orgFilter org))) = true :=
        mergeVirtual_pairsUnique _ _ _ rfl
      apply length_le_one_of_pairsUnique hu db "autogen"
      intro x hx
      rcases mergeVirtual_from _ _ _ x hx with h1 | ⟨_, hflt, b, _, _, _, e3, e4, e5⟩
      · simp at h1
      · rw [filterFunc_def] at hflt
        simp only [Bool.and_eq_true, decide_eq_true_eq, beq_iff_eq] at hflt
        exact ⟨hflt.2.1, by rw [e4]; exact default_virtual_autogen b (e5 hflt.2.2)⟩
    · intro L hany
      exfalso
      simp only [List.any_eq_true, Bool.and_eq_true, beq_iff_eq, Bool.not_eq_true'] at hany
      obtain ⟨x, hx, hxdb, hxv⟩ := hany
      rcases mergeVirtual_from _ _ _ x hx with h1 | ⟨hvirt, _⟩
      · obtain ⟨w, hw, hwo, rfl⟩ := physOrg_mem h h1
        have := h.defEx w hw
        rw [hwo, show w.Database = db from hxdb, hnone] at this
        simp at this
      · rw [hvirt] at hxv; cases hxv
  · refine ⟨_, hf, by simp, ?_⟩
    intro L _
    -- the listing flags exactly one mapping of `db` default, and it is `v`
    have hwm : ∀ v ∈ walkOrg s org, v ∈ s.recs ∧ v.OrganizationID = org := fun v hv => (walkOrg_mem h).mp hv
    have hc := cnt_physical h org db (walkOrg s org) hwm (walkOrg_nodup h org)
    have hvw : v ∈ walkOrg s org := (walkOrg_mem h).mpr ⟨hv, ho⟩
    have h1 : cnt (physOrg s org) db = 1 := hc.2 v hvw hvdb hd
    have hm := mergeVirtual_cnt (orgFilter org) db (findBuckets s (orgFilter org)) (physOrg s org) hc.1
    have hlen : (L.filter fun m => m.Database == db && m.Default).length = 1 := by
      have hL : cnt (physOrg s org) db ≤ cnt L db ∧ cnt L db ≤ 1 := hm
      have : cnt L db = 1 := by omega
      exact this
    have hmem : dflt s v ∈ L.filter fun m => m.Database == db && m.Default := by
      apply List.mem_filter.mpr
      refine ⟨?_, by simp [dflt, hvdb, ho, hd]⟩
      obtain ⟨vs, hvs, _⟩ := mergeVirtual_prefix (orgFilter org) (findBuckets s (orgFilter org)) (physOrg s org)
      show dflt s v ∈ mergeVirtual (orgFilter org) (physOrg s org) (findBuckets s (orgFilter org))
      rw [hvs]
      exact List.mem_append_left _ (List.mem_map_of_mem hvw)
    rw [eq_singleton_of_mem hlen hmem]

end Influx.DBRP
