/-
  Lemmas.TenantKV — association lists as finite maps: `get` after `put`/`del`,
  and the "no duplicate keys" well-formedness that makes list membership and `get` agree.
-/
import Influx.Model.Tenant

namespace Influx.Tenant.KV
variable {κ ν : Type} [DecidableEq κ]

@[simp] theorem get_nil (k : κ) : get ([] : List (κ × ν)) k = none := rfl

theorem get_cons (k' : κ) (v : ν) (r : List (κ × ν)) (k : κ) :
    get ((k', v) :: r) k = if k' = k then some v else get r k := rfl

theorem del_cons (k' : κ) (v : ν) (r : List (κ × ν)) (k : κ) :
    del ((k', v) :: r) k = if k' = k then del r k else (k', v) :: del r k := by
  by_cases h : k' = k <;> simp [del, List.filter_cons, h]

@[simp] theorem del_nil (k : κ) : del ([] : List (κ × ν)) k = [] := rfl

@[simp] theorem get_del_self (m : List (κ × ν)) (k : κ) : get (del m k) k = none := by
  induction m with
  | nil => rfl
  | cons p r ih =>
    obtain ⟨k', v⟩ := p
    rw [del_cons]
    by_cases h : k' = k
    · simp [h, ih]
    · simp [h, get_cons, ih]

theorem get_del_ne (m : List (κ × ν)) {k k' : κ} (h : k' ≠ k) : get (del m k') k = get m k := by
  induction m with
  | nil => rfl
  | cons p r ih =>
    obtain ⟨k₀, v⟩ := p
    rw [del_cons]
    by_cases h0 : k₀ = k'
    · subst h0; simp [get_cons, h, ih]
    · simp [h0, get_cons, ih]

theorem get_del (m : List (κ × ν)) (k k' : κ) : get (del m k') k = if k' = k then none else get m k := by
  by_cases h : k' = k
  · subst h; simp
  · simp [h, get_del_ne m h]

@[simp] theorem get_put_self (m : List (κ × ν)) (k : κ) (v : ν) : get (put m k v) k = some v := by
  simp [put, get_cons]

theorem get_put_ne (m : List (κ × ν)) {k k' : κ} (v : ν) (h : k' ≠ k) : get (put m k' v) k = get m k := by
  simp [put, get_cons, h, get_del_ne m h]

theorem get_put (m : List (κ × ν)) (k k' : κ) (v : ν) :
    get (put m k' v) k = if k' = k then some v else get m k := by
  by_cases h : k' = k
  · subst h; simp
  · simp [h, get_put_ne m v h]

theorem has_eq (m : List (κ × ν)) (k : κ) : has m k = (get m k).isSome := rfl

/-- no duplicate keys -/
def WF (m : List (κ × ν)) : Prop := (m.map Prod.fst).Nodup

omit [DecidableEq κ] in
theorem wf_nil : WF ([] : List (κ × ν)) := by simp [WF]

theorem mem_of_get {m : List (κ × ν)} {k : κ} {v : ν} (h : get m k = some v) : (k, v) ∈ m := by
  induction m with
  | nil => simp at h
  | cons p r ih =>
    obtain ⟨k', v'⟩ := p
    rw [get_cons] at h
    by_cases e : k' = k
    · simp [e] at h; simp [e, h]
    · simp [e] at h; exact List.mem_cons_of_mem _ (ih h)

omit [DecidableEq κ] in
theorem key_mem_of_mem {m : List (κ × ν)} {k : κ} {v : ν} (h : (k, v) ∈ m) : k ∈ m.map Prod.fst :=
  List.mem_map.mpr ⟨(k, v), h, rfl⟩

theorem get_of_mem {m : List (κ × ν)} (wf : WF m) {k : κ} {v : ν} (h : (k, v) ∈ m) : get m k = some v := by
  induction m with
  | nil => simp at h
  | cons p r ih =>
    obtain ⟨k', v'⟩ := p
    simp only [WF, List.map_cons, List.nodup_cons] at wf
    rw [get_cons]
    rcases List.mem_cons.mp h with e | e
    · cases e; simp
    · have hk : k ∈ r.map Prod.fst := key_mem_of_mem e
      have : k' ≠ k := fun c => wf.1 (c ▸ hk)
      simp [this]; exact ih wf.2 e

theorem mem_iff_get {m : List (κ × ν)} (wf : WF m) (k : κ) (v : ν) : (k, v) ∈ m ↔ get m k = some v :=
  ⟨get_of_mem wf, mem_of_get⟩

theorem wf_del {m : List (κ × ν)} (wf : WF m) (k : κ) : WF (del m k) := by
  unfold WF del at *
  induction m with
  | nil => simp
  | cons p r ih =>
    simp only [List.map_cons, List.nodup_cons] at wf
    simp only [List.filter_cons]
    split
    · simp only [List.map_cons, List.nodup_cons]
      refine ⟨fun h => wf.1 ?_, ih wf.2⟩
      obtain ⟨q, hq, e⟩ := List.mem_map.mp h
      exact List.mem_map.mpr ⟨q, (List.mem_filter.mp hq).1, e⟩
    · exact ih wf.2

theorem key_not_mem_del (m : List (κ × ν)) (k : κ) : k ∉ (del m k).map Prod.fst := by
  intro h
  obtain ⟨q, hq, e⟩ := List.mem_map.mp h
  have := (List.mem_filter.mp hq).2
  simp [e] at this

theorem wf_put {m : List (κ × ν)} (wf : WF m) (k : κ) (v : ν) : WF (put m k v) := by
  unfold put
  show ((k, v) :: del m k |>.map Prod.fst).Nodup
  simp only [List.map_cons, List.nodup_cons]
  exact ⟨key_not_mem_del m k, wf_del wf k⟩

theorem get_none_of_not_mem {m : List (κ × ν)} {k : κ} (h : k ∉ m.map Prod.fst) : get m k = none := by
  cases e : get m k with
  | none => rfl
  | some v => exact absurd (key_mem_of_mem (mem_of_get e)) h

end Influx.Tenant.KV
