/-
  Lemmas.KCAlgebra — the small algebra of timestamp-sorted value lists used by the C06 proofs:
  membership characterisations and sortedness of `exclude`, `include_`, `excludeTombs`, `merge`,
  and extensionality of strictly sorted lists.
-/
import Influx.Model.KeyCursor

namespace Influx.KC

variable {V : Type}

/-- strictly ascending timestamps -/
def SortedV (a : Vals V) : Prop := a.Pairwise fun p q => p.1 < q.1

/-- the timestamps of a list -/
def keys (a : Vals V) : List Int := a.map (·.1)

theorem mem_keys {a : Vals V} {ts : Int} : ts ∈ keys a ↔ ∃ v, (ts, v) ∈ a := by
  unfold keys
  constructor
  · intro h
    obtain ⟨p, hp, rfl⟩ := List.mem_map.1 h
    exact ⟨p.2, hp⟩
  · rintro ⟨v, hv⟩
    exact List.mem_map.2 ⟨(ts, v), hv, rfl⟩

theorem mem_keys_of_mem {a : Vals V} {p : Int × V} (h : p ∈ a) : p.1 ∈ keys a :=
  List.mem_map.2 ⟨p, h, rfl⟩

@[simp] theorem keys_nil : keys ([] : Vals V) = [] := rfl
@[simp] theorem keys_cons (x : Int × V) (a : Vals V) : keys (x :: a) = x.1 :: keys a := rfl

theorem SortedV.nil : SortedV ([] : Vals V) := List.Pairwise.nil

theorem sortedV_cons {x : Int × V} {a : Vals V} :
    SortedV (x :: a) ↔ (∀ p ∈ a, x.1 < p.1) ∧ SortedV a := List.pairwise_cons

theorem SortedV.tail {x : Int × V} {a : Vals V} (h : SortedV (x :: a)) : SortedV a :=
  (sortedV_cons.1 h).2

theorem SortedV.filter {a : Vals V} (f : Int × V → Bool) (h : SortedV a) : SortedV (a.filter f) :=
  List.Pairwise.filter f h

/-- a timestamp occurs once in a sorted list -/
theorem SortedV.unique {a : Vals V} (h : SortedV a) {p q : Int × V} (hp : p ∈ a) (hq : q ∈ a)
    (e : p.1 = q.1) : p = q := by
  induction a with
  | nil => cases hp
  | cons x a ih =>
    obtain ⟨hx, ha⟩ := sortedV_cons.1 h
    rcases List.mem_cons.1 hp with rfl | hp' <;> rcases List.mem_cons.1 hq with rfl | hq'
    · rfl
    · have := hx q hq'; omega
    · have := hx p hp'; omega
    · exact ih ha hp' hq'

/-- strictly sorted lists with the same elements are equal -/
theorem sorted_ext {a b : Vals V} (ha : SortedV a) (hb : SortedV b) (h : ∀ p, p ∈ a ↔ p ∈ b) : a = b := by
  induction a generalizing b with
  | nil =>
    cases b with
    | nil => rfl
    | cons y b => exact absurd ((h y).2 (List.mem_cons_self ..)) (by simp)
  | cons x a ih =>
    cases b with
    | nil => exact absurd ((h x).1 (List.mem_cons_self ..)) (by simp)
    | cons y b =>
      obtain ⟨hx, ha'⟩ := sortedV_cons.1 ha
      obtain ⟨hy, hb'⟩ := sortedV_cons.1 hb
      have hxy : x = y := by
        have h1 := (h x).1 (List.mem_cons_self ..)
        have h2 := (h y).2 (List.mem_cons_self ..)
        rcases List.mem_cons.1 h1 with e | h1
        · exact e
        · rcases List.mem_cons.1 h2 with e | h2
          · exact e.symm
          · have := hy x h1; have := hx y h2; omega
      subst hxy
      congr 1
      apply ih ha' hb'
      intro p
      constructor
      · intro hp
        rcases List.mem_cons.1 ((h p).1 (List.mem_cons_of_mem _ hp)) with e | hp'
        · subst e; have := hx p hp; omega
        · exact hp'
      · intro hp
        rcases List.mem_cons.1 ((h p).2 (List.mem_cons_of_mem _ hp)) with e | hp'
        · subst e; have := hy p hp; omega
        · exact hp'

/-! ### exclude / include -/

theorem mem_exclude {a : Vals V} {lo hi : Int} {p : Int × V} :
    p ∈ exclude a lo hi ↔ p ∈ a ∧ ¬ (lo ≤ p.1 ∧ p.1 ≤ hi) := by
  simp only [exclude, List.mem_filter, Bool.not_eq_true', Bool.and_eq_false_iff, decide_eq_false_iff_not,
    Bool.not_eq_eq_eq_not, Bool.not_true]
  constructor
  · rintro ⟨h, h'⟩; exact ⟨h, by omega⟩
  · rintro ⟨h, h'⟩; exact ⟨h, by omega⟩

theorem mem_include {a : Vals V} {lo hi : Int} {p : Int × V} :
    p ∈ include_ a lo hi ↔ p ∈ a ∧ lo ≤ p.1 ∧ p.1 ≤ hi := by
  simp [include_, List.mem_filter]

theorem SortedV.exclude {a : Vals V} (h : SortedV a) (lo hi : Int) : SortedV (exclude a lo hi) :=
  h.filter _

theorem SortedV.include {a : Vals V} (h : SortedV a) (lo hi : Int) : SortedV (include_ a lo hi) :=
  h.filter _

/-- a range is "covered" by a list of tombstones -/
def covered (ts : List TimeRange) (x : Int) : Prop := ∃ t ∈ ts, t.Min ≤ x ∧ x ≤ t.Max

theorem mem_excludeTombs {ts : List TimeRange} {a : Vals V} {p : Int × V} :
    p ∈ excludeTombs ts a ↔ p ∈ a ∧ ¬ covered ts p.1 := by
  unfold excludeTombs covered
  induction ts generalizing a with
  | nil => simp
  | cons t ts ih =>
    simp only [List.foldl_cons]
    rw [ih, mem_exclude]
    constructor
    · rintro ⟨⟨hp, h1⟩, h2⟩
      refine ⟨hp, ?_⟩
      rintro ⟨t', ht', h3⟩
      rcases List.mem_cons.1 ht' with rfl | ht'
      · exact h1 h3
      · exact h2 ⟨t', ht', h3⟩
    · rintro ⟨hp, h⟩
      refine ⟨⟨hp, fun h3 => h ⟨t, List.mem_cons_self .., h3⟩⟩, ?_⟩
      rintro ⟨t', ht', h3⟩
      exact h ⟨t', List.mem_cons_of_mem _ ht', h3⟩

theorem SortedV.excludeTombs {a : Vals V} (h : SortedV a) (ts : List TimeRange) :
    SortedV (excludeTombs ts a) := by
  unfold Influx.KC.excludeTombs
  induction ts generalizing a with
  | nil => simpa using h
  | cons t ts ih => simp only [List.foldl_cons]; exact ih (h.exclude _ _)

/-! ### merge -/

theorem mergeAux_spec : ∀ (k : Nat) (a b : Vals V), a.length + b.length ≤ k → SortedV a → SortedV b →
    (∀ p, p ∈ mergeAux k a b ↔ p ∈ b ∨ (p ∈ a ∧ p.1 ∉ keys b)) ∧ SortedV (mergeAux k a b) := by
  intro k
  induction k with
  | zero =>
    intro a b hk ha hb
    cases a with
    | nil => simp [mergeAux, hb]
    | cons x a =>
      cases b with
      | nil => simp [mergeAux, ha]
      | cons y b => simp at hk
  | succ k ih =>
    intro a b hk ha hb
    cases a with
    | nil => simp [mergeAux, hb]
    | cons x a =>
      cases b with
      | nil => simp [mergeAux, ha]
      | cons y b =>
        obtain ⟨hx, ha'⟩ := sortedV_cons.1 ha
        obtain ⟨hy, hb'⟩ := sortedV_cons.1 hb
        simp only [mergeAux]
        by_cases h1 : x.1 < y.1
        · simp only [h1, if_true]
          obtain ⟨m, s⟩ := ih a (y :: b) (by simp at hk ⊢; omega) ha' hb
          constructor
          · intro p
            simp only [List.mem_cons, m, keys_cons]
            constructor
            · rintro (rfl | h | ⟨h, h'⟩)
              · right
                refine ⟨Or.inl rfl, ?_⟩
                intro hk'
                rcases hk' with e | hk'
                · omega
                · obtain ⟨v, hv⟩ := mem_keys.1 hk'
                  have := hy _ hv
                  simp at this; omega
              · exact Or.inl h
              · exact Or.inr ⟨Or.inr h, h'⟩
            · rintro (h | ⟨rfl | h, h'⟩)
              · exact Or.inr (Or.inl h)
              · exact Or.inl rfl
              · exact Or.inr (Or.inr ⟨h, h'⟩)
          · refine sortedV_cons.2 ⟨?_, s⟩
            intro p hp
            rcases (m p).1 hp with h | ⟨h, _⟩
            · rcases List.mem_cons.1 h with rfl | h
              · exact h1
              · have := hy p h; omega
            · exact hx p h
        · simp only [h1, if_false]
          by_cases h2 : x.1 = y.1
          · simp only [h2, if_true]
            obtain ⟨m, s⟩ := ih a (y :: b) (by simp at hk ⊢; omega) ha' hb
            refine ⟨?_, s⟩
            intro p
            simp only [m, List.mem_cons, keys_cons]
            constructor
            · rintro (h | ⟨h, h'⟩)
              · exact Or.inl h
              · exact Or.inr ⟨Or.inr h, h'⟩
            · rintro (h | ⟨rfl | h, h'⟩)
              · exact Or.inl h
              · exact absurd (Or.inl h2) h'
              · exact Or.inr ⟨h, h'⟩
          · simp only [h2, if_false]
            have h3 : y.1 < x.1 := by omega
            obtain ⟨m, s⟩ := ih (x :: a) b (by simp at hk ⊢; omega) ha hb'
            constructor
            · intro p
              simp only [List.mem_cons, m, keys_cons]
              constructor
              · rintro (rfl | h | ⟨h, h'⟩)
                · exact Or.inl (Or.inl rfl)
                · exact Or.inl (Or.inr h)
                · right
                  refine ⟨h, ?_⟩
                  rintro (e | hk')
                  · rcases h with rfl | h
                    · omega
                    · have := hx p h; omega
                  · exact h' hk'
              · rintro ((rfl | h) | ⟨h, h'⟩)
                · exact Or.inl rfl
                · exact Or.inr (Or.inl h)
                · exact Or.inr (Or.inr ⟨h, fun hk' => h' (Or.inr hk')⟩)
            · refine sortedV_cons.2 ⟨?_, s⟩
              intro p hp
              rcases (m p).1 hp with h | ⟨h, _⟩
              · exact hy p h
              · rcases List.mem_cons.1 h with rfl | h
                · exact h3
                · have := hx p h; omega

theorem mem_merge {a b : Vals V} (ha : SortedV a) (hb : SortedV b) {p : Int × V} :
    p ∈ merge a b ↔ p ∈ b ∨ (p ∈ a ∧ p.1 ∉ keys b) :=
  (mergeAux_spec _ a b (Nat.le_refl _) ha hb).1 p

theorem SortedV.merge {a b : Vals V} (ha : SortedV a) (hb : SortedV b) : SortedV (merge a b) :=
  (mergeAux_spec _ a b (Nat.le_refl _) ha hb).2

theorem keys_merge {a b : Vals V} (ha : SortedV a) (hb : SortedV b) {ts : Int} :
    ts ∈ keys (merge a b) ↔ ts ∈ keys a ∨ ts ∈ keys b := by
  constructor
  · intro h
    obtain ⟨v, hv⟩ := mem_keys.1 h
    rcases (mem_merge ha hb).1 hv with h | ⟨h, _⟩
    · exact Or.inr (mem_keys_of_mem h)
    · exact Or.inl (mem_keys_of_mem h)
  · rintro (h | h)
    · by_cases hb' : ts ∈ keys b
      · obtain ⟨v, hv⟩ := mem_keys.1 hb'
        exact mem_keys_of_mem ((mem_merge ha hb).2 (Or.inl hv))
      · obtain ⟨v, hv⟩ := mem_keys.1 h
        exact mem_keys_of_mem ((mem_merge ha hb).2 (Or.inr ⟨hv, hb'⟩))
    · obtain ⟨v, hv⟩ := mem_keys.1 h
      exact mem_keys_of_mem ((mem_merge ha hb).2 (Or.inl hv))

@[simp] theorem merge_nil_left (b : Vals V) : merge [] b = b := by simp [merge, mergeAux]
@[simp] theorem merge_nil_right (a : Vals V) : merge a [] = a := by
  cases a <;> simp [merge, mergeAux]

/-! ### first / last timestamp of a sorted list -/

theorem minTime?_le {a : Vals V} (h : SortedV a) {lo : Int} (e : minTime? a = some lo) :
    lo ∈ keys a ∧ ∀ p ∈ a, lo ≤ p.1 := by
  cases a with
  | nil => simp [minTime?] at e
  | cons x a =>
    simp [minTime?] at e
    subst e
    refine ⟨by simp, ?_⟩
    intro p hp
    rcases List.mem_cons.1 hp with rfl | hp
    · exact Int.le_refl _
    · exact Int.le_of_lt ((sortedV_cons.1 h).1 p hp)

theorem le_maxTime? {a : Vals V} (h : SortedV a) {hi : Int} (e : maxTime? a = some hi) :
    hi ∈ keys a ∧ ∀ p ∈ a, p.1 ≤ hi := by
  unfold maxTime? at e
  cases hl : a.getLast? with
  | none => simp [hl] at e
  | some z =>
    simp [hl] at e
    subst e
    obtain ⟨ys, rfl⟩ := List.getLast?_eq_some_iff.1 hl
    refine ⟨mem_keys_of_mem (by simp), ?_⟩
    intro p hp
    rcases List.mem_append.1 hp with hp | hp
    · have := (List.pairwise_append.1 h).2.2 p hp z (by simp)
      exact Int.le_of_lt this
    · simp at hp; subst hp; exact Int.le_refl _

theorem minTime?_isSome {a : Vals V} (h : a ≠ []) : ∃ lo, minTime? a = some lo := by
  cases a with
  | nil => exact absurd rfl h
  | cons x a => exact ⟨x.1, rfl⟩

theorem maxTime?_isSome {a : Vals V} (h : a ≠ []) : ∃ hi, maxTime? a = some hi := by
  unfold maxTime?
  cases hl : a.getLast? with
  | none => exact absurd (List.getLast?_eq_none_iff.1 hl) h
  | some z => exact ⟨z.1, rfl⟩

end Influx.KC
