/-
  Lemmas.EngineSrc — provenance: every point the engine model holds anywhere (hot store, snapshot
  store, TSM files, tmp file, WAL records) was put there by a write operation.  Holds for EVERY
  operation of the model, without any hypothesis (also through F1/F18 histories, torn crashes,
  non-contiguous compactions): "nothing that was never written appears".
-/
import Influx.Lemmas.EngineCrash

namespace Influx.Model.Engine

def recEntries : WalEntry → Log
  | .write es => es
  | .delRange .. => []

def walEntries (segs : List Segment) : Log := (segRecs segs).flatMap recEntries

def filesData (fs : List TsmFile) : Log := fs.flatMap (·.data)

/-- every point stored anywhere in the state -/
def State.entries (s : State) : Log :=
  s.hot ++ s.snap ++ filesData s.files ++ filesData s.snapTmp.toList ++ walEntries s.wal

/-- all stored points come from `W` -/
def Src (s : State) (W : Log) : Prop := ∀ e ∈ s.entries, e ∈ W

theorem src_iff (s : State) (W : Log) :
    Src s W ↔ (∀ e ∈ s.hot, e ∈ W) ∧ (∀ e ∈ s.snap, e ∈ W) ∧ (∀ e ∈ filesData s.files, e ∈ W) ∧
      (∀ e ∈ filesData s.snapTmp.toList, e ∈ W) ∧ (∀ e ∈ walEntries s.wal, e ∈ W) := by
  simp only [Src, State.entries, List.mem_append]
  constructor
  · intro h
    exact ⟨fun e he => h e (Or.inl (Or.inl (Or.inl (Or.inl he)))),
      fun e he => h e (Or.inl (Or.inl (Or.inl (Or.inr he)))),
      fun e he => h e (Or.inl (Or.inl (Or.inr he))), fun e he => h e (Or.inl (Or.inr he)),
      fun e he => h e (Or.inr he)⟩
  · rintro ⟨h1, h2, h3, h4, h5⟩ e (((( he | he) | he) | he) | he)
    · exact h1 e he
    · exact h2 e he
    · exact h3 e he
    · exact h4 e he
    · exact h5 e he

theorem Src.mono {s : State} {W W' : Log} (h : Src s W) (hw : ∀ e ∈ W, e ∈ W') : Src s W' :=
  fun e he => hw e (h e he)

/-! ### where derived logs come from -/

theorem mem_canon {l : Log} {e : Entry} (h : e ∈ l.canon) : e ∈ l := by
  rw [Log.canon_eq, List.mem_flatMap] at h
  obtain ⟨k, _, hk⟩ := h
  simp only [chunk, List.mem_map] at hk
  obtain ⟨p, hp, rfl⟩ := hk
  have : (p.1, p.2) ∈ Log.values l k := hp
  exact Log.get_some_mem ((Log.mem_values l k p.1 p.2).mp this)

theorem mem_live {f : TsmFile} {e : Entry} (h : e ∈ f.live) : e ∈ f.data :=
  (List.mem_filter.mp h).1

theorem mem_filesLog {fs : List TsmFile} {e : Entry} (h : e ∈ filesLog fs) : e ∈ filesData fs := by
  simp only [filesLog, filesData, List.mem_flatMap] at h ⊢
  obtain ⟨f, hf, he⟩ := h
  exact ⟨f, hf, mem_live he⟩

theorem mem_filesData {fs : List TsmFile} {e : Entry} : e ∈ filesData fs ↔ ∃ f ∈ fs, e ∈ f.data := by
  simp [filesData, List.mem_flatMap]

theorem filesData_compactOut {grp : List TsmFile} {e : Entry} (h : e ∈ filesData (compactOut grp)) :
    e ∈ filesData grp := by
  unfold compactOut at h
  by_cases hc : (filesLog grp).canon.isEmpty = true
  · simp [hc, filesData] at h
  · simp only [hc, Bool.false_eq_true, if_false, filesData, List.flatMap_cons, List.flatMap_nil,
      List.append_nil] at h
    exact mem_filesLog (mem_canon h)

theorem filesData_sub {a b : List TsmFile} (h : ∀ f ∈ a, f ∈ b) {e : Entry} (he : e ∈ filesData a) :
    e ∈ filesData b := by
  obtain ⟨f, hf, hd⟩ := mem_filesData.mp he
  exact mem_filesData.mpr ⟨f, h f hf, hd⟩

theorem groupOf_sub (fs : List TsmFile) (i j : Nat) : ∀ f ∈ groupOf fs i j, f ∈ fs := fun f hf =>
  List.mem_of_mem_drop (List.mem_of_mem_take hf)

theorem filesData_append (a b : List TsmFile) : filesData (a ++ b) = filesData a ++ filesData b := by
  simp [filesData]

theorem filesData_compactFiles {fs : List TsmFile} {i j : Nat} {e : Entry}
    (h : e ∈ filesData (compactFiles fs i j)) : e ∈ filesData fs := by
  simp only [compactFiles, filesData_append, List.mem_append] at h
  rcases h with (h | h) | h
  · exact filesData_sub (fun f hf => List.mem_of_mem_take hf) h
  · exact filesData_sub (groupOf_sub fs i j) (filesData_compactOut h)
  · exact filesData_sub (fun f hf => List.mem_of_mem_drop hf) h

theorem filesData_compactCrashFiles {fs : List TsmFile} {i j : Nat} {pt : CPoint} {n : Nat} {e : Entry}
    (h : e ∈ filesData (compactCrashFiles fs i j pt n)) : e ∈ filesData fs := by
  have htake : ∀ {e}, e ∈ filesData (fs.take i) → e ∈ filesData fs :=
    fun h => filesData_sub (fun f hf => List.mem_of_mem_take hf) h
  have hdrop : ∀ {e}, e ∈ filesData (fs.drop (j + 1)) → e ∈ filesData fs :=
    fun h => filesData_sub (fun f hf => List.mem_of_mem_drop hf) h
  have hgrp : ∀ {e}, e ∈ filesData (groupOf fs i j) → e ∈ filesData fs :=
    fun h => filesData_sub (groupOf_sub fs i j) h
  unfold compactCrashFiles at h
  cases pt <;> simp only at h
  · split at h
    · exact h
    · exact filesData_compactFiles h
  · split at h
    · simp only [filesData_append, List.mem_append] at h
      rcases h with ((h | h) | h) | h
      · exact htake h
      · exact hgrp h
      · exact hgrp (filesData_compactOut h)
      · exact hdrop h
    · exact filesData_compactFiles h
  · split at h
    · simp only [filesData_append, List.mem_append] at h
      rcases h with ((h | h) | h) | h
      · exact htake h
      · exact hgrp (filesData_sub (fun f hf => List.mem_of_mem_drop hf) h)
      · exact hgrp (filesData_compactOut h)
      · exact hdrop h
    · exact filesData_compactFiles h

theorem filesData_compactSetFiles {fs : List TsmFile} {idxs : List Nat} {e : Entry}
    (h : e ∈ filesData (compactSetFiles fs idxs)) : e ∈ filesData fs := by
  unfold compactSetFiles at h
  simp only [filesData, List.mem_flatMap] at h
  obtain ⟨f, hf, he⟩ := h
  obtain ⟨p, hp, hfp⟩ := hf
  have hzip : ∀ q ∈ fs.zipIdx, q.1 ∈ fs := by
    intro q hq
    have := List.mem_map_of_mem (f := Prod.fst) hq
    simpa using this
  have hpmem : p.1 ∈ fs := hzip p hp
  split at hfp
  · have : e ∈ filesData (compactOut ((fs.zipIdx.filter fun p => idxs.contains p.2).map (·.1))) :=
      mem_filesData.mpr ⟨f, hfp, he⟩
    apply filesData_sub _ (filesData_compactOut this)
    intro g hg
    obtain ⟨q, hq, rfl⟩ := List.mem_map.mp hg
    exact hzip q (List.mem_filter.mp hq).1
  · split at hfp
    · cases hfp
    · simp only [List.mem_singleton] at hfp
      subst hfp
      exact mem_filesData.mpr ⟨p.1, hpmem, he⟩

theorem filesData_addTomb (ss : List Nat) (lo hi : Int) (fs : List TsmFile) :
    filesData (fs.map (addTomb ss lo hi)) = filesData fs := by
  induction fs with
  | nil => rfl
  | cons f fs ih =>
    simp only [filesData, List.map_cons, List.flatMap_cons] at ih ⊢
    rw [ih]
    congr 1
    unfold addTomb; split <;> rfl

/-! ### WAL -/

theorem walEntries_append (a b : List Segment) : walEntries (a ++ b) = walEntries a ++ walEntries b := by
  simp [walEntries, segRecs_append]

theorem mem_applyAll {c : Log} {rs : List WalEntry} {e : Entry} (h : e ∈ applyAll c rs) :
    e ∈ c ∨ e ∈ rs.flatMap recEntries := by
  induction rs generalizing c with
  | nil => exact Or.inl h
  | cons r rs ih =>
    have h' : e ∈ applyAll (applyWalEntry c r) rs := h
    rcases ih h' with h1 | h1
    · cases r with
      | write es =>
        simp only [applyWalEntry, List.mem_append] at h1
        rcases h1 with h1 | h1
        · exact Or.inl h1
        · exact Or.inr (by simp [recEntries, h1])
      | delRange keys lo hi =>
        simp only [applyWalEntry] at h1
        exact Or.inl (List.mem_filter.mp h1).1
    · exact Or.inr (by simp only [List.flatMap_cons, List.mem_append]; exact Or.inr h1)

theorem mem_replay {segs : List Segment} {e : Entry} (h : e ∈ replay segs) : e ∈ walEntries segs := by
  rcases mem_applyAll (c := []) h with h | h
  · cases h
  · exact h

theorem walEntries_sub {a b : List Segment} (h : ∀ g ∈ a, g ∈ b) {e : Entry} (he : e ∈ walEntries a) :
    e ∈ walEntries b := by
  simp only [walEntries, segRecs, List.mem_flatMap] at he ⊢
  obtain ⟨r, ⟨g, hg, hr⟩, her⟩ := he
  exact ⟨r, ⟨g, h g hg, hr⟩, her⟩

theorem segRecs_wal_walAppend (s : State) (r : WalEntry) :
    segRecs (walAppend s r).wal = segRecs s.wal ++ [r] := by
  simp only [State.wal, segRecs_append]
  have := curRecs_appendCur s.walCur s.nextSeg r
  simp only [curRecs] at this
  show segRecs s.walClosed ++ segRecs (some (appendCur s.walCur s.nextSeg r).1).toList = _
  rw [this, List.append_assoc]

theorem walEntries_walAppend (s : State) (r : WalEntry) :
    walEntries (walAppend s r).wal = walEntries s.wal ++ recEntries r := by
  simp [walEntries, segRecs_wal_walAppend]

theorem walEntries_walClose (s : State) : walEntries (walCloseSegment s).wal = walEntries s.wal := by
  rw [wal_walClose]
  split
  · simp [walEntries_append, walEntries, segRecs]
  · rfl

theorem walEntries_dropLastRec {closed : List Segment} {cur : Option Segment} {e : Entry}
    (h : e ∈ walEntries (closed ++ (dropLastRec cur).toList)) : e ∈ walEntries (closed ++ cur.toList) := by
  rw [walEntries_append, List.mem_append] at h ⊢
  rcases h with h | h
  · exact Or.inl h
  · right
    cases cur with
    | none => exact h
    | some c =>
      simp only [dropLastRec, Option.toList_some, walEntries, segRecs, List.flatMap_cons, List.flatMap_nil,
        List.append_nil, List.mem_flatMap] at h ⊢
      obtain ⟨r, hr, he⟩ := h
      exact ⟨r, (List.dropLast_sublist _).subset hr, he⟩

/-! ### every step keeps provenance -/

theorem src_openWith {s : State} {W : Log} (fs : List TsmFile) (segs : List Segment)
    (hf : ∀ e ∈ filesData fs, e ∈ W) (hw : ∀ e ∈ walEntries segs, e ∈ W) : Src (openWith s fs segs) W := by
  have hsub : ∀ e ∈ walEntries (segs.filter fun g => !g.recs.isEmpty), e ∈ W :=
    fun e he => hw e (walEntries_sub (fun g hg => (List.mem_filter.mp hg).1) he)
  rw [src_iff]
  refine ⟨fun e he => hsub e (mem_replay he), (fun e he => by cases he), hf, (fun e he => by cases he), ?_⟩
  intro e he
  have : (openWith s fs segs).wal = segs.filter fun g => !g.recs.isEmpty := by
    simp only [openWith, State.wal]; exact dropLast_append_getLast? _
  rw [this] at he
  exact hsub e he

theorem src_touch {s : State} {W : Log} (h : Src s W) : Src s.touch W := h

theorem src_stepSnapBegin {s : State} {W : Log} (h : Src s W) : Src (stepSnapBegin s).1 W := by
  obtain ⟨h1, h2, h3, h4, h5⟩ := (src_iff s W).mp h
  unfold stepSnapBegin
  cases s.phase <;> simp only
  · rw [src_iff]
    exact ⟨(fun e he => by cases he), h1, h3, h4, by rw [← walEntries_walClose s] at h5; exact h5⟩
  · rw [src_iff]
    exact ⟨h1, h2, h3, h4, by rw [← walEntries_walClose s] at h5; exact h5⟩
  · rw [src_iff]
    exact ⟨h1, h2, h3, h4, by rw [← walEntries_walClose s] at h5; exact h5⟩
  · exact h
  · exact h
  · rw [src_iff]
    exact ⟨h1, h2, h3, h4, by rw [← walEntries_walClose s] at h5; exact h5⟩

theorem src_stepSnapStep {s : State} {W : Log} (h : Src s W) : Src (stepSnapStep s) W := by
  obtain ⟨h1, h2, h3, h4, h5⟩ := (src_iff s W).mp h
  unfold stepSnapStep
  cases s.phase <;> simp only
  · exact h
  · split
    · rw [src_iff]; exact ⟨h1, h2, h3, h4, h5⟩
    · rw [src_iff]
      refine ⟨h1, h2, h3, ?_, h5⟩
      intro e he
      simp only [Option.toList_some, filesData, List.flatMap_cons, List.flatMap_nil, List.append_nil] at he
      exact h2 e (mem_canon he)
  · rw [src_iff]
    refine ⟨h1, h2, ?_, (fun e he => by cases he), h5⟩
    intro e he
    rw [filesData_append, List.mem_append] at he
    rcases he with he | he
    · exact h3 e he
    · exact h4 e he
  · rw [src_iff]; exact ⟨h1, (fun e he => by cases he), h3, h4, h5⟩
  · rw [src_iff]
    refine ⟨h1, h2, h3, h4, ?_⟩
    intro e he
    apply h5
    simp only [State.wal, walEntries_append, List.mem_append] at he ⊢
    rcases he with he | he
    · exact Or.inl (walEntries_sub (fun g hg => (List.mem_filter.mp hg).1) he)
    · exact Or.inr he
  · exact h

theorem src_stepSnapFail {s : State} {W : Log} (h : Src s W) : Src (stepSnapFail s).1 W := by
  rcases stepSnapFail_cases s with he | ⟨he, _, _⟩ | ⟨he, _⟩
  · rw [he]; exact h
  · rw [he]; exact src_stepSnapBegin h
  · rw [he]; exact src_stepSnapBegin h

theorem src_advance1 {s : State} {W : Log} (h : Src s W) (n : Nat) : Src (advance1 n s) W := by
  unfold advance1; split
  · exact src_stepSnapStep h
  · exact h

theorem src_files {s : State} {W : Log} (h : Src s W) (fs : List TsmFile)
    (hf : ∀ e ∈ filesData fs, e ∈ filesData s.files) :
    Src ({ s with files := fs, lastRec := false } : State) W := by
  obtain ⟨h1, h2, h3, h4, h5⟩ := (src_iff s W).mp h
  rw [src_iff]
  exact ⟨h1, h2, fun e he => h3 e (hf e he), h4, h5⟩

def delState (s : State) (ss : List Nat) (lo hi : Int) : State :=
  { s with files := s.files.map (addTomb ss lo hi),
           hot := s.hot.filter (fun e => !covered ss lo hi e.key e.ts) }

theorem walEntries_of_fields {a b : State} (h1 : a.walClosed = b.walClosed) (h2 : a.walCur = b.walCur) :
    walEntries a.wal = walEntries b.wal := by
  simp only [State.wal, h1, h2]

theorem walEntries_stepDelete {s : State} {ss : List Nat} {lo hi : Int} {e : Entry}
    (h : e ∈ walEntries (stepDelete s ss lo hi).wal) : e ∈ walEntries s.wal := by
  by_cases hk : (hotKeys s.hot ss).isEmpty = true
  · rw [stepDelete_eq_noKeys hk] at h; exact h
  · have hk' : (hotKeys s.hot ss).isEmpty = false := by simpa using hk
    rw [stepDelete_eq_keys hk'] at h
    have h2 : e ∈ walEntries (walAppend (delState s ss lo hi) (.delRange (hotKeys s.hot ss) lo hi)).wal := h
    rw [walEntries_walAppend] at h2
    simpa [recEntries, delState, State.wal] using h2

/-- **Provenance is preserved by every operation**; a write adds its batch. -/
theorem src_step {s : State} {W : Log} (h : Src s W) (op : Op) :
    Src (step s op).1 (W ++ (match op with | .write es => es | _ => [])) := by
  obtain ⟨h1, h2, h3, h4, h5⟩ := (src_iff s W).mp h
  cases op with
  | write es =>
    simp only [step, stepWrite]
    rw [src_iff]
    refine ⟨?_, fun e he => List.mem_append.mpr (Or.inl (h2 e he)),
      fun e he => List.mem_append.mpr (Or.inl (h3 e he)), fun e he => List.mem_append.mpr (Or.inl (h4 e he)), ?_⟩
    · intro e he
      have he' : e ∈ s.hot ++ es := he
      rcases List.mem_append.mp he' with he' | he'
      · exact List.mem_append.mpr (Or.inl (h1 e he'))
      · exact List.mem_append.mpr (Or.inr he')
    · intro e he
      have he' : e ∈ walEntries (walAppend { s with hot := s.hot ++ es } (.write es)).wal := he
      rw [walEntries_walAppend] at he'
      rcases List.mem_append.mp he' with he' | he'
      · exact List.mem_append.mpr (Or.inl (h5 e he'))
      · exact List.mem_append.mpr (Or.inr he')
  | delete ss lo hi =>
    simp only [step, List.append_nil]
    split
    · exact h
    · rw [src_iff]
      refine ⟨?_, ?_, ?_, ?_, ?_⟩
      · intro e he; rw [stepDelete_hot] at he; exact h1 e (List.mem_filter.mp he).1
      · rw [stepDelete_snap]; exact h2
      · intro e he; rw [stepDelete_files, filesData_addTomb] at he; exact h3 e he
      · rw [stepDelete_snapTmp]; exact h4
      · intro e he; exact h5 e (walEntries_stepDelete he)
  | snapBegin => simp only [step, List.append_nil]; exact src_stepSnapBegin h
  | snapFail => simp only [step, List.append_nil]; exact src_stepSnapFail h
  | snapStep => simp only [step, List.append_nil]; exact src_stepSnapStep h
  | snapTo p =>
    simp only [step, List.append_nil, stepSnapTo]
    exact src_advance1 (src_advance1 (src_advance1 (src_advance1 h _) _) _) _
  | compact i j =>
    simp only [step, List.append_nil]
    split
    · exact src_files h _ (fun e he => filesData_compactFiles he)
    · exact h
  | compactSet idxs =>
    simp only [step, List.append_nil]
    exact src_files h _ (fun e he => filesData_compactSetFiles he)
  | read k lo hi asc => simp only [step, List.append_nil]; exact h
  | files => simp only [step, List.append_nil]; exact h
  | crash tear =>
    simp only [step, List.append_nil, stepCrash]
    apply src_openWith _ _ h3
    intro e he
    split at he
    · exact h5 e (walEntries_dropLastRec he)
    · exact h5 e he
  | compactCrash i j pt n =>
    simp only [step, List.append_nil]
    apply src_openWith _ _ _ h5
    intro e he
    split at he
    · exact h3 e (filesData_compactCrashFiles he)
    · exact h3 e he
  | deleteCrash ss lo hi =>
    simp only [step, List.append_nil]
    split
    · exact h
    · apply src_openWith _ _ _ h5
      intro e he
      rw [filesData_addTomb] at he
      exact h3 e he

/-- a read row is a stored point -/
theorem read_row_stored (s : State) (k : Key) (lo hi : Int) (asc : Bool) (p : Pt)
    (hp : p ∈ s.read k lo hi asc) : (⟨k, p.1, p.2⟩ : Entry) ∈ s.entries := by
  have := ((s.mem_read k lo hi asc p).mp hp).2
  have hm := Log.get_some_mem this
  simp only [State.allLog, List.mem_append] at hm
  simp only [State.entries, List.mem_append]
  rcases hm with (hm | hm) | hm
  · exact Or.inl (Or.inl (Or.inr (mem_filesLog hm)))
  · exact Or.inl (Or.inl (Or.inl (Or.inr hm)))
  · exact Or.inl (Or.inl (Or.inl (Or.inl hm)))

end Influx.Model.Engine
