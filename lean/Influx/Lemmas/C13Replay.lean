/-
  Lemmas.C13Replay — what `SeriesIndex.Recover` (a left fold of `execEntry`) leaves in the
  in-memory maps, as a function of the replayed entries.
-/
import Influx.Lemmas.C13Bytes

namespace Influx.SF

def replay (p : Part) (l : List Entry) : Part := l.foldl Part.execEntry p

theorem replay_nil (p : Part) : replay p [] = p := rfl
theorem replay_cons (p : Part) (e : Entry) (l : List Entry) :
    replay p (e :: l) = replay (p.execEntry e) l := rfl
theorem replay_append (p : Part) (l1 l2 : List Entry) :
    replay p (l1 ++ l2) = replay (replay p l1) l2 := by simp [replay, List.foldl_append]

/-- the last entry of `l` satisfying `q` -/
def lastWith (q : Entry → Bool) (l : List Entry) : Option Entry := l.reverse.find? q

theorem lastWith_nil (q : Entry → Bool) : lastWith q [] = none := rfl
theorem lastWith_snoc (q : Entry → Bool) (l : List Entry) (e : Entry) :
    lastWith q (l ++ [e]) = if q e then some e else lastWith q l := by
  simp [lastWith, List.find?_cons]
  split <;> simp_all
theorem lastWith_cons (q : Entry → Bool) (l : List Entry) (e : Entry) :
    lastWith q (e :: l) = match lastWith q l with | some x => some x | none => if q e then some e else none := by
  simp only [lastWith, List.reverse_cons, List.find?_append]
  cases h : List.find? q l.reverse with
  | some x => simp
  | none => simp [List.find?_cons]; split <;> simp_all

theorem lastWith_some {q : Entry → Bool} {l : List Entry} {e : Entry} (h : lastWith q l = some e) :
    e ∈ l ∧ q e = true := by
  unfold lastWith at h
  exact ⟨by simpa using List.mem_of_find?_eq_some h, List.find?_some h⟩

theorem lastWith_none {q : Entry → Bool} {l : List Entry} (h : lastWith q l = none) :
    ∀ e ∈ l, q e = false := by
  unfold lastWith at h
  rw [List.find?_eq_none] at h
  intro e he
  have := h e (by simpa using he)
  simpa using this

/-! ### the fields `execEntry` does not touch -/

theorem execEntry_file (p : Part) (e : Entry) : (p.execEntry e).file = p.file := by
  unfold Part.execEntry; split <;> rfl
theorem execEntry_idxFile (p : Part) (e : Entry) : (p.execEntry e).idxFile = p.idxFile := by
  unfold Part.execEntry; split <;> rfl
theorem execEntry_seq (p : Part) (e : Entry) : (p.execEntry e).seq = p.seq := by
  unfold Part.execEntry; split <;> rfl
theorem execEntry_pid (p : Part) (e : Entry) : (p.execEntry e).pid = p.pid := by
  unfold Part.execEntry; split <;> rfl
theorem execEntry_threshold (p : Part) (e : Entry) : (p.execEntry e).threshold = p.threshold := by
  unfold Part.execEntry; split <;> rfl
theorem execEntry_ambiguous (p : Part) (e : Entry) : (p.execEntry e).ambiguous = p.ambiguous := by
  unfold Part.execEntry; split <;> rfl

theorem replay_file (p : Part) (l : List Entry) : (replay p l).file = p.file := by
  induction l generalizing p with
  | nil => rfl
  | cons e l ih => rw [replay_cons, ih, execEntry_file]
theorem replay_idxFile (p : Part) (l : List Entry) : (replay p l).idxFile = p.idxFile := by
  induction l generalizing p with
  | nil => rfl
  | cons e l ih => rw [replay_cons, ih, execEntry_idxFile]
theorem replay_seq (p : Part) (l : List Entry) : (replay p l).seq = p.seq := by
  induction l generalizing p with
  | nil => rfl
  | cons e l ih => rw [replay_cons, ih, execEntry_seq]
theorem replay_pid (p : Part) (l : List Entry) : (replay p l).pid = p.pid := by
  induction l generalizing p with
  | nil => rfl
  | cons e l ih => rw [replay_cons, ih, execEntry_pid]
theorem replay_threshold (p : Part) (l : List Entry) : (replay p l).threshold = p.threshold := by
  induction l generalizing p with
  | nil => rfl
  | cons e l ih => rw [replay_cons, ih, execEntry_threshold]

/-! ### the in-memory maps after a replay -/

/-- `idOffsetMap[id]` -/
def Part.memOff (p : Part) (id : Nat) : Option Nat := (p.memIDOff.find? (·.1 = id)).map (·.2)
/-- `keyIDMap.Get(key)` -/
def Part.memID (p : Part) (key : Bytes) : Option Nat := (p.memKeyID.find? (·.1 = key)).map (·.2)

theorem find?_cons_filter_ne {α β : Type} [DecidableEq α] (a : α) (b : β) (l : List (α × β)) (x : α) :
    (((a, b) :: l.filter (·.1 ≠ a)).find? (·.1 = x)).map (·.2) =
      if a = x then some b else (l.find? (·.1 = x)).map (·.2) := by
  by_cases h : a = x
  · simp [h]
  · simp only [List.find?_cons, h, decide_false, if_false]
    congr 1
    rw [List.find?_filter]
    congr 1
    funext y
    by_cases hx : y.1 = x
    · have : ¬ y.1 = a := fun h' => h (by rw [← h', hx])
      simp [hx, this]
      exact fun h' => h h'.symm
    · simp [hx]

theorem memOff_execEntry (p : Part) (e : Entry) (id : Nat) :
    (p.execEntry e).memOff id =
      if e.flag = insertFlag ∧ e.id = id then some e.off else p.memOff id := by
  unfold Part.execEntry Part.memOff
  by_cases hf : e.flag = insertFlag
  · simp only [hf, if_true, true_and]
    exact find?_cons_filter_ne e.id e.off p.memIDOff id
  · simp [hf]

theorem memID_execEntry (p : Part) (e : Entry) (key : Bytes) :
    (p.execEntry e).memID key =
      if e.flag = insertFlag ∧ e.key = key then some e.id else p.memID key := by
  unfold Part.execEntry Part.memID
  by_cases hf : e.flag = insertFlag
  · simp only [hf, if_true, true_and]
    exact find?_cons_filter_ne e.key e.id p.memKeyID key
  · simp [hf]

theorem tomb_execEntry (p : Part) (e : Entry) (id : Nat) :
    id ∈ (p.execEntry e).tomb ↔ (e.flag ≠ insertFlag ∧ e.id = id) ∨ id ∈ p.tomb := by
  unfold Part.execEntry
  by_cases hf : e.flag = insertFlag
  · simp [hf]
  · simp only [hf, if_false, ne_eq, not_false_eq_true, true_and]
    by_cases hc : p.tomb.contains e.id = true
    · rw [if_pos hc]
      constructor
      · exact Or.inr
      · rintro (rfl | h)
        · simpa using hc
        · exact h
    · rw [if_neg hc, List.mem_cons]
      constructor
      · rintro (h | h)
        · exact Or.inl h.symm
        · exact Or.inr h
      · rintro (h | h)
        · exact Or.inl h.symm
        · exact Or.inr h

/-- `idOffsetMap` after replaying `l`: the offset of the last insert entry of `l` with the id -/
theorem memOff_replay (p : Part) (l : List Entry) (id : Nat) :
    (replay p l).memOff id =
      match lastWith (fun e => decide (e.flag = insertFlag ∧ e.id = id)) l with
      | some e => some e.off
      | none => p.memOff id := by
  induction l generalizing p with
  | nil => rfl
  | cons e l ih =>
    rw [replay_cons, ih, lastWith_cons]
    cases h : lastWith (fun e => decide (e.flag = insertFlag ∧ e.id = id)) l with
    | some x => rfl
    | none =>
      simp only [memOff_execEntry]
      by_cases hq : e.flag = insertFlag ∧ e.id = id
      · simp [hq]
      · simp [hq]

theorem memID_replay (p : Part) (l : List Entry) (key : Bytes) :
    (replay p l).memID key =
      match lastWith (fun e => decide (e.flag = insertFlag ∧ e.key = key)) l with
      | some e => some e.id
      | none => p.memID key := by
  induction l generalizing p with
  | nil => rfl
  | cons e l ih =>
    rw [replay_cons, ih, lastWith_cons]
    cases h : lastWith (fun e => decide (e.flag = insertFlag ∧ e.key = key)) l with
    | some x => rfl
    | none =>
      simp only [memID_execEntry]
      by_cases hq : e.flag = insertFlag ∧ e.key = key
      · simp [hq]
      · simp [hq]

theorem tomb_replay (p : Part) (l : List Entry) (id : Nat) :
    id ∈ (replay p l).tomb ↔ (∃ t ∈ l, t.flag ≠ insertFlag ∧ t.id = id) ∨ id ∈ p.tomb := by
  induction l generalizing p with
  | nil => simp [replay_nil]
  | cons e l ih =>
    rw [replay_cons, ih, tomb_execEntry]
    constructor
    · rintro (⟨t, ht, h⟩ | h | h)
      · exact Or.inl ⟨t, by simp [ht], h⟩
      · exact Or.inl ⟨e, by simp, h⟩
      · exact Or.inr h
    · rintro (⟨t, ht, h⟩ | h)
      · rcases List.mem_cons.mp ht with rfl | ht
        · exact Or.inr (Or.inl h)
        · exact Or.inl ⟨t, ht, h⟩
      · exact Or.inr (Or.inr h)

/-- `maxOffset` only grows, and covers every replayed insert entry -/
theorem maxOffset_execEntry_ge (p : Part) (e : Entry) : p.maxOffset ≤ (p.execEntry e).maxOffset := by
  unfold Part.execEntry
  split
  · simp only; split <;> omega
  · exact Nat.le_refl _

theorem maxOffset_replay_ge (p : Part) (l : List Entry) : p.maxOffset ≤ (replay p l).maxOffset := by
  induction l generalizing p with
  | nil => exact Nat.le_refl _
  | cons e l ih => rw [replay_cons]; exact Nat.le_trans (maxOffset_execEntry_ge p e) (ih _)

theorem maxOffset_replay_mem (p : Part) (l : List Entry) :
    ∀ e ∈ l, e.flag = insertFlag → e.off ≤ (replay p l).maxOffset := by
  induction l generalizing p with
  | nil => intro e he; cases he
  | cons x l ih =>
    intro e he hf
    rw [replay_cons]
    rcases List.mem_cons.mp he with rfl | he
    · refine Nat.le_trans ?_ (maxOffset_replay_ge _ l)
      unfold Part.execEntry
      simp only [hf, if_true]
      split <;> omega
    · exact ih _ e he hf

/-- `maxOffset` is the bound it started from or the offset of a replayed insert entry -/
theorem maxOffset_replay_eq (p : Part) (l : List Entry) :
    (replay p l).maxOffset = p.maxOffset ∨
      ∃ e ∈ l, e.flag = insertFlag ∧ e.off = (replay p l).maxOffset := by
  induction l generalizing p with
  | nil => exact Or.inl rfl
  | cons x l ih =>
    rw [replay_cons]
    rcases ih (p.execEntry x) with h | ⟨e, he, hf, ho⟩
    · rw [h]
      unfold Part.execEntry
      by_cases hx : x.flag = insertFlag
      · simp only [hx, if_true]
        by_cases hgt : x.off > p.maxOffset
        · right
          refine ⟨x, by simp, hx, ?_⟩
          simp [hgt]
        · left; simp [hgt]
      · left; simp [hx]
    · exact Or.inr ⟨e, by simp [he], hf, ho⟩

end Influx.SF
