/-
  Lemmas.TagExprEval — the evaluator of Model.TagExpr selects exactly the series
  satisfying `Spec.C15.sem`, over ANY index-set views that are sound for a list
  of series (`Ctx.Sound`), by structural induction on the expression.
-/
import Influx.Lemmas.TagExprSets
import Influx.Spec.C15

namespace Influx.Model.TagExpr
open Influx.Spec.C15

/-- `S`: the series of one measurement held by the index set (any order, repeats
    allowed). Stored tag values are never empty; an id names one tag set. -/
structure SeriesWF (S : List Series) : Prop where
  vals : ∀ s ∈ S, ∀ k, lookupTag s.tags k ≠ some ""
  uniq : ∀ s ∈ S, ∀ t ∈ S, s.id = t.id → s.tags = t.tags

/-- The views the evaluator reads are those of `S`.  Nothing is assumed about
    which views are nil rather than empty, nor about the order/multiplicity of
    the tag values listed; `tagValues` only has to list every value in use. -/
structure Ctx.Sound (c : Ctx) (S : List Series) : Prop where
  asc_m : Asc c.mseries.ids
  mem_m : ∀ i, i ∈ c.mseries.ids ↔ ∃ s ∈ S, s.id = i
  asc_k : ∀ k, Asc (c.keySeries k).ids
  mem_k : ∀ k i, i ∈ (c.keySeries k).ids ↔ ∃ s ∈ S, s.id = i ∧ (lookupTag s.tags k).isSome
  asc_v : ∀ k v, Asc (c.valSeries k v).ids
  mem_v : ∀ k v i, i ∈ (c.valSeries k v).ids ↔ ∃ s ∈ S, s.id = i ∧ lookupTag s.tags k = some v
  vals_some : ∀ k vs, c.tagValues k = some vs → ∀ s ∈ S, ∀ v, lookupTag s.tags k = some v → v ∈ vs
  vals_none : ∀ k, c.tagValues k = none → ∀ s ∈ S, lookupTag s.tags k = none

section
variable {c : Ctx} {S : List Series}

/-- set difference against the measurement's series = negating a predicate on
    the tag set (needs: an id names one tag set). -/
theorem mem_and_not (hwf : SeriesWF S) (P : List (String × String) → Prop) (i : Nat) :
    ((∃ s ∈ S, s.id = i) ∧ ¬ ∃ s ∈ S, s.id = i ∧ P s.tags) ↔ ∃ s ∈ S, s.id = i ∧ ¬ P s.tags := by
  constructor
  · rintro ⟨⟨s, hs, rfl⟩, hn⟩
    exact ⟨s, hs, rfl, fun hp => hn ⟨s, hs, rfl, hp⟩⟩
  · rintro ⟨s, hs, rfl, hnp⟩
    refine ⟨⟨s, hs, rfl⟩, ?_⟩
    rintro ⟨t, ht, hid, hp⟩
    exact hnp (hwf.uniq t ht s hs hid ▸ hp)

theorem tagVal_of_some {tags : List (String × String)} {k v : String}
    (h : lookupTag tags k = some v) : tagVal tags k = v := by
  simp [tagVal, h]

theorem tagVal_of_none {tags : List (String × String)} {k : String}
    (h : lookupTag tags k = none) : tagVal tags k = "" := by
  simp [tagVal, h]

/-- `tagVal = v` for a non-empty `v` iff the tag is stored with that value. -/
theorem tagVal_eq_iff (hwf : SeriesWF S) {s : Series} (hs : s ∈ S) (k v : String) (hv : v ≠ "") :
    tagVal s.tags k = v ↔ lookupTag s.tags k = some v := by
  unfold tagVal
  cases h : lookupTag s.tags k with
  | none => simp; exact fun h' => hv h'
  | some w => simp

/-- `tagVal = ""` iff the key is absent. -/
theorem tagVal_empty_iff (hwf : SeriesWF S) {s : Series} (hs : s ∈ S) (k : String) :
    tagVal s.tags k = "" ↔ (lookupTag s.tags k).isSome = false := by
  unfold tagVal
  cases h : lookupTag s.tags k with
  | none => simp
  | some w =>
    have := hwf.vals s hs k
    simp [h] at this
    simp [this]

/-! #### string comparisons -/

theorem byString_eq_mem (hwf : SeriesWF S) (hc : c.Sound S) (k v : String) (i : Nat) :
    i ∈ (byString c k v .eq).ids ↔ ∃ s ∈ S, s.id = i ∧ refVal c.name s.tags k = v := by
  unfold byString refVal
  by_cases hk : k = "_name"
  · by_cases hv : v = c.name
    · simp [hk, hv, hc.mem_m]
    · have hv' : ¬ c.name = v := fun h => hv h.symm
      simp [hk, hv, hv', Itr.ids]
  · simp only [hk, if_false, if_true]
    by_cases hv : v = ""
    · subst hv
      simp only [ne_eq, not_true_eq_false, if_false]
      rw [mem_differenceItr hc.asc_m (hc.asc_k k), hc.mem_m, hc.mem_k]
      rw [mem_and_not hwf (fun tags => (lookupTag tags k).isSome = true)]
      constructor
      · rintro ⟨s, hs, hid, hn⟩
        exact ⟨s, hs, hid, (tagVal_empty_iff hwf hs k).mpr (by simpa using hn)⟩
      · rintro ⟨s, hs, hid, hn⟩
        exact ⟨s, hs, hid, by simpa using (tagVal_empty_iff hwf hs k).mp hn⟩
    · simp only [ne_eq, hv, not_false_eq_true, if_true]
      rw [hc.mem_v]
      constructor
      · rintro ⟨s, hs, hid, h⟩; exact ⟨s, hs, hid, (tagVal_eq_iff hwf hs k v hv).mpr h⟩
      · rintro ⟨s, hs, hid, h⟩; exact ⟨s, hs, hid, (tagVal_eq_iff hwf hs k v hv).mp h⟩

theorem byString_neq_mem (hwf : SeriesWF S) (hc : c.Sound S) (k v : String) (i : Nat) :
    i ∈ (byString c k v .neq).ids ↔ ∃ s ∈ S, s.id = i ∧ refVal c.name s.tags k ≠ v := by
  unfold byString refVal
  by_cases hk : k = "_name"
  · by_cases hv : v = c.name
    · simp [hk, hv, Itr.ids]
    · have hv' : ¬ c.name = v := fun h => hv h.symm
      simp [hk, hv, hv', hc.mem_m]
  · have hop : ¬ (Tok.neq = Tok.eq) := by decide
    simp only [hk, if_false, hop]
    by_cases hv : v = ""
    · subst hv
      simp only [ne_eq, not_true_eq_false, if_false]
      rw [hc.mem_k]
      constructor
      · rintro ⟨s, hs, hid, h⟩
        refine ⟨s, hs, hid, fun h' => ?_⟩
        have := (tagVal_empty_iff hwf hs k).mp h'
        simp [this] at h
      · rintro ⟨s, hs, hid, h⟩
        refine ⟨s, hs, hid, ?_⟩
        cases h' : (lookupTag s.tags k).isSome with
        | true => rfl
        | false => exact absurd ((tagVal_empty_iff hwf hs k).mpr h') h
    · simp only [ne_eq, hv, not_false_eq_true, if_true]
      rw [mem_differenceItr hc.asc_m (hc.asc_v k v), hc.mem_m, hc.mem_v]
      rw [mem_and_not hwf (fun tags => lookupTag tags k = some v)]
      constructor
      · rintro ⟨s, hs, hid, h⟩
        exact ⟨s, hs, hid, fun h' => h ((tagVal_eq_iff hwf hs k v hv).mp h')⟩
      · rintro ⟨s, hs, hid, h⟩
        exact ⟨s, hs, hid, fun h' => h ((tagVal_eq_iff hwf hs k v hv).mpr h')⟩

/-! #### regular expressions -/

theorem asc_valuesMerge (hc : c.Sound S) (k : String) (vs : List String) (sel : String → Bool) :
    Asc (valuesMerge c k vs sel).ids := by
  unfold valuesMerge
  apply asc_mergeNonNil_nonNil
  intro it hit
  obtain ⟨v, _, rfl⟩ := List.mem_map.mp hit
  exact hc.asc_v k v

theorem mem_valuesMerge (hc : c.Sound S) (k : String) (vs : List String) (sel : String → Bool)
    (i : Nat) :
    i ∈ (valuesMerge c k vs sel).ids ↔
      ∃ v ∈ vs, sel v = true ∧ ∃ s ∈ S, s.id = i ∧ lookupTag s.tags k = some v := by
  unfold valuesMerge
  rw [mem_mergeNonNil_nonNil]
  constructor
  · rintro ⟨it, hit, hi⟩
    obtain ⟨v, hv, rfl⟩ := List.mem_map.mp hit
    obtain ⟨hv1, hv2⟩ := List.mem_filter.mp hv
    exact ⟨v, hv1, hv2, (hc.mem_v k v i).mp hi⟩
  · rintro ⟨v, hv1, hv2, h⟩
    exact ⟨c.valSeries k v, List.mem_map.mpr ⟨v, List.mem_filter.mpr ⟨hv1, hv2⟩, rfl⟩,
      (hc.mem_v k v i).mpr h⟩

/-- the series having tag `k` with a stored value selected by `sel`. -/
theorem mem_valuesMerge' (hc : c.Sound S) (k : String) (vs : List String)
    (hvs : c.tagValues k = some vs) (sel : String → Bool) (i : Nat) :
    i ∈ (valuesMerge c k vs sel).ids ↔
      ∃ s ∈ S, s.id = i ∧ ∃ v, lookupTag s.tags k = some v ∧ sel v = true := by
  rw [mem_valuesMerge hc]
  constructor
  · rintro ⟨v, _, hsel, s, hs, hid, hl⟩; exact ⟨s, hs, hid, v, hl, hsel⟩
  · rintro ⟨s, hs, hid, v, hl, hsel⟩
    exact ⟨v, hc.vals_some k vs hvs s hs v hl, hsel, s, hs, hid, hl⟩

theorem asc_matchTagValue (hc : c.Sound S) (k : String) (re : String → Bool) (m : Bool) :
    Asc (matchTagValue c k re m).ids := by
  unfold matchTagValue
  cases m <;> cases re "" <;> simp only [Bool.false_eq_true, if_false, if_true] <;>
    split <;>
    first
      | exact hc.asc_m
      | exact asc_differenceItr hc.asc_m
      | exact asc_valuesMerge hc _ _ _
      | simp [Itr.ids]

theorem matchTagValue_mem (hwf : SeriesWF S) (hc : c.Sound S) (k : String) (re : String → Bool)
    (m : Bool) (i : Nat) :
    i ∈ (matchTagValue c k re m).ids ↔ ∃ s ∈ S, s.id = i ∧ re (tagVal s.tags k) = m := by
  unfold matchTagValue
  cases m <;> cases he : re "" <;> simp only [Bool.false_eq_true, if_false, if_true]
  · -- NotEqualNotEmpty: !~ re, re "" = false
    split
    · next hnone =>
      rw [hc.mem_m]
      constructor
      · rintro ⟨s, hs, hid⟩
        exact ⟨s, hs, hid, by rw [tagVal_of_none (hc.vals_none k hnone s hs)]; exact he⟩
      · rintro ⟨s, hs, hid, _⟩; exact ⟨s, hs, hid⟩
    · next vs hvs =>
      rw [mem_differenceItr hc.asc_m (asc_valuesMerge hc _ _ _), hc.mem_m,
        mem_valuesMerge' hc k vs hvs]
      rw [mem_and_not hwf (fun tags => ∃ v, lookupTag tags k = some v ∧ re v = true)]
      constructor
      · rintro ⟨s, hs, hid, hn⟩
        refine ⟨s, hs, hid, ?_⟩
        cases hl : lookupTag s.tags k with
        | none => rw [tagVal_of_none hl]; exact he
        | some v =>
          rw [tagVal_of_some hl]
          cases hr : re v with
          | false => rfl
          | true => exact absurd ⟨v, hl, hr⟩ hn
      · rintro ⟨s, hs, hid, h⟩
        refine ⟨s, hs, hid, ?_⟩
        rintro ⟨v, hl, hr⟩
        rw [tagVal_of_some hl, hr] at h
        exact absurd h (by decide)
  · -- NotEqualEmpty: !~ re, re "" = true
    split
    · next hnone =>
      simp only [Itr.ids, List.not_mem_nil, false_iff]
      rintro ⟨s, hs, _, h⟩
      rw [tagVal_of_none (hc.vals_none k hnone s hs), he] at h
      exact absurd h (by decide)
    · next vs hvs =>
      rw [mem_valuesMerge' hc k vs hvs]
      constructor
      · rintro ⟨s, hs, hid, v, hl, hr⟩
        exact ⟨s, hs, hid, by rw [tagVal_of_some hl]; simpa using hr⟩
      · rintro ⟨s, hs, hid, h⟩
        refine ⟨s, hs, hid, ?_⟩
        cases hl : lookupTag s.tags k with
        | none => rw [tagVal_of_none hl, he] at h; exact absurd h (by decide)
        | some v => rw [tagVal_of_some hl] at h; exact ⟨v, rfl, by simp [h]⟩
  · -- EqualNotEmpty: =~ re, re "" = false
    split
    · next hnone =>
      simp only [Itr.ids, List.not_mem_nil, false_iff]
      rintro ⟨s, hs, _, h⟩
      rw [tagVal_of_none (hc.vals_none k hnone s hs), he] at h
      exact absurd h (by decide)
    · next vs hvs =>
      rw [mem_valuesMerge' hc k vs hvs]
      constructor
      · rintro ⟨s, hs, hid, v, hl, hr⟩
        exact ⟨s, hs, hid, by rw [tagVal_of_some hl]; exact hr⟩
      · rintro ⟨s, hs, hid, h⟩
        refine ⟨s, hs, hid, ?_⟩
        cases hl : lookupTag s.tags k with
        | none => rw [tagVal_of_none hl, he] at h; exact absurd h (by decide)
        | some v => rw [tagVal_of_some hl] at h; exact ⟨v, rfl, h⟩
  · -- EqualEmpty: =~ re, re "" = true
    split
    · next hnone =>
      rw [hc.mem_m]
      constructor
      · rintro ⟨s, hs, hid⟩
        exact ⟨s, hs, hid, by rw [tagVal_of_none (hc.vals_none k hnone s hs)]; exact he⟩
      · rintro ⟨s, hs, hid, _⟩; exact ⟨s, hs, hid⟩
    · next vs hvs =>
      rw [mem_differenceItr hc.asc_m (asc_valuesMerge hc _ _ _), hc.mem_m,
        mem_valuesMerge' hc k vs hvs]
      rw [mem_and_not hwf (fun tags => ∃ v, lookupTag tags k = some v ∧ (!re v) = true)]
      constructor
      · rintro ⟨s, hs, hid, hn⟩
        refine ⟨s, hs, hid, ?_⟩
        cases hl : lookupTag s.tags k with
        | none => rw [tagVal_of_none hl]; exact he
        | some v =>
          rw [tagVal_of_some hl]
          cases hr : re v with
          | true => rfl
          | false => exact absurd ⟨v, hl, by simp [hr]⟩ hn
      · rintro ⟨s, hs, hid, h⟩
        refine ⟨s, hs, hid, ?_⟩
        rintro ⟨v, hl, hr⟩
        rw [tagVal_of_some hl] at h
        simp [h] at hr

theorem asc_byRegex (hc : c.Sound S) (k : String) (re : String → Bool) (op : Tok) :
    Asc (byRegex c k re op).ids := by
  unfold byRegex
  split
  · dsimp only
    split
    · exact hc.asc_m
    · simp [Itr.ids]
  · exact asc_matchTagValue hc _ _ _

theorem byRegex_eq_mem (hwf : SeriesWF S) (hc : c.Sound S) (k : String) (re : String → Bool)
    (i : Nat) :
    i ∈ (byRegex c k re .eqregex).ids ↔ ∃ s ∈ S, s.id = i ∧ re (refVal c.name s.tags k) = true := by
  unfold byRegex refVal
  by_cases hk : k = "_name"
  · cases hm : re c.name <;> simp [hk, hm, hc.mem_m, ids_none]
  · simp only [hk, if_false]
    simpa using matchTagValue_mem hwf hc k re true i

theorem byRegex_neq_mem (hwf : SeriesWF S) (hc : c.Sound S) (k : String) (re : String → Bool)
    (i : Nat) :
    i ∈ (byRegex c k re .neqregex).ids ↔ ∃ s ∈ S, s.id = i ∧ re (refVal c.name s.tags k) = false := by
  unfold byRegex refVal
  by_cases hk : k = "_name"
  · cases hm : re c.name <;> simp [hk, hm, hc.mem_m, ids_none]
  · simp only [hk, if_false]
    have hop : ¬ (Tok.neqregex = Tok.eqregex) := by decide
    simpa [hop] using matchTagValue_mem hwf hc k re false i

/-! #### ascending order, for every expression (also outside the grammar) -/

theorem asc_byString (hc : c.Sound S) (k v : String) (op : Tok) : Asc (byString c k v op).ids := by
  unfold byString
  repeat' split
  all_goals first
    | exact hc.asc_m
    | exact hc.asc_k _
    | exact hc.asc_v _ _
    | exact asc_differenceItr hc.asc_m
    | simp [Itr.ids]

theorem asc_byVarRef (hc : c.Sound S) (k v : String) (op : Tok) : Asc (byVarRef c k v op).ids := by
  unfold byVarRef
  split
  · exact asc_intersectItr (hc.asc_k _)
  · exact asc_differenceItr (hc.asc_k _)

theorem asc_byKeyValue (hc : c.Sound S) (op : Tok) (k : String) (t : VType) (value : Expr) :
    Asc (byKeyValue c op k t value).ids := by
  unfold byKeyValue
  split
  · exact hc.asc_m
  · split
    · split
      · exact hc.asc_m
      · exact asc_byVarRef hc _ _ _
    · exact asc_byString hc _ _ _
    · exact asc_byRegex hc _ _ _
    · exact hc.asc_m

theorem asc_byBinary (hc : c.Sound S) (op : Tok) (l r : Expr) : Asc (byBinary c op l r).ids := by
  unfold byBinary
  split
  · exact hc.asc_m
  · split
    · exact hc.asc_m
    · split
      · exact asc_byKeyValue hc _ _ _ _
      · split
        · exact asc_byKeyValue hc _ _ _ _
        · exact hc.asc_m

theorem asc_eval (hc : c.Sound S) (e : Expr) : Asc (eval c e).ids := by
  fun_induction eval c e with
  | case1 l r ihl ihr => exact asc_intersectItr ihl
  | case2 l r ihl ihr => exact asc_unionItr ihl ihr
  | case3 op l r h1 h2 => exact asc_byBinary hc op l r
  | case4 e ih => exact ih
  | case5 => exact hc.asc_m
  | case6 => simp [Itr.ids]
  | case7 => simp [Itr.ids]

/-! #### the main lemma -/

theorem isFieldRef_of_isTagRef {k : String} {t : VType} (h : isTagRef c.hasField k t = true) :
    isFieldRef c k t t = false := by
  unfold isTagRef at h
  unfold isFieldRef
  cases t <;> simp_all
  intro hk
  rcases h with h | h
  · exact absurd h hk
  · exact h

/-- **Main lemma.** Inside the property's grammar the evaluator delivers exactly
    the ids of the series of `S` that satisfy the expression. -/
theorem eval_mem (hwf : SeriesWF S) (hc : c.Sound S) (e : Expr)
    (hg : inGrammar c.hasField e = true) (i : Nat) :
    i ∈ (eval c e).ids ↔ ∃ s ∈ S, s.id = i ∧ sem c.name s.tags e = true := by
  fun_induction inGrammar c.hasField e with
  | case1 l r ihl ihr =>
    simp only [Bool.and_eq_true] at hg
    simp only [eval, sem, Bool.and_eq_true]
    rw [mem_intersectItr (asc_eval hc l) (asc_eval hc r), ihl hg.1, ihr hg.2]
    constructor
    · rintro ⟨⟨s, hs, hid, h1⟩, ⟨t, ht, hid', h2⟩⟩
      have htags : t.tags = s.tags := hwf.uniq t ht s hs (hid'.trans hid.symm)
      exact ⟨s, hs, hid, h1, htags ▸ h2⟩
    · rintro ⟨s, hs, hid, h1, h2⟩
      exact ⟨⟨s, hs, hid, h1⟩, ⟨s, hs, hid, h2⟩⟩
  | case2 l r ihl ihr =>
    simp only [Bool.and_eq_true] at hg
    simp only [eval, sem, Bool.or_eq_true]
    rw [mem_unionItr, ihl hg.1, ihr hg.2]
    constructor
    · rintro (⟨s, hs, hid, h⟩ | ⟨s, hs, hid, h⟩)
      · exact ⟨s, hs, hid, Or.inl h⟩
      · exact ⟨s, hs, hid, Or.inr h⟩
    · rintro ⟨s, hs, hid, h | h⟩
      · exact Or.inl ⟨s, hs, hid, h⟩
      · exact Or.inr ⟨s, hs, hid, h⟩
  | case3 e ih =>
    simp only [eval, sem]
    exact ih hg
  | case4 k t v =>
    simp only [eval, byBinary, Expr.isBin, byKeyValue, isFieldRef_of_isTagRef hg, sem,
      Bool.false_eq_true, if_false]
    simpa using byString_eq_mem hwf hc k v i
  | case5 k t v =>
    simp only [eval, byBinary, Expr.isBin, byKeyValue, isFieldRef_of_isTagRef hg, sem,
      Bool.false_eq_true, if_false]
    simpa using byString_neq_mem hwf hc k v i
  | case6 v k t =>
    simp only [eval, byBinary, Expr.isBin, byKeyValue, isFieldRef_of_isTagRef hg, sem,
      Bool.false_eq_true, if_false]
    rw [byString_eq_mem hwf hc k v i]
    simp only [beq_iff_eq]
    constructor <;> rintro ⟨s, hs, hid, h⟩ <;> exact ⟨s, hs, hid, h.symm⟩
  | case7 v k t =>
    simp only [eval, byBinary, Expr.isBin, byKeyValue, isFieldRef_of_isTagRef hg, sem,
      Bool.false_eq_true, if_false]
    rw [byString_neq_mem hwf hc k v i]
    simp only [bne_iff_ne]
    constructor <;> rintro ⟨s, hs, hid, h⟩ <;> exact ⟨s, hs, hid, Ne.symm h⟩
  | case8 k t re =>
    simp only [eval, byBinary, Expr.isBin, byKeyValue, isFieldRef_of_isTagRef hg, sem,
      Bool.false_eq_true, if_false]
    exact byRegex_eq_mem hwf hc k re i
  | case9 k t re =>
    simp only [eval, byBinary, Expr.isBin, byKeyValue, isFieldRef_of_isTagRef hg, sem,
      Bool.false_eq_true, if_false]
    simpa using byRegex_neq_mem hwf hc k re i
  | case10 e _ _ _ _ _ _ _ _ _ => exact absurd hg (by decide)

end

end Influx.Model.TagExpr
