/-
  Lemmas.ReducersDistinct — distinct of Model.Reducers against Spec.C23.distinctOK.
-/
import Influx.Lemmas.ReducersSort
import Influx.Spec.C23
open Influx.Reducers Influx.Spec.C23

namespace Influx.Reducers.Lemmas
variable {V F : Type}

/-- Go `==` on the value type is symmetric and transitive (it need not be reflexive: NaN) -/
structure EqLaws (A : Arith V F) : Prop where
  symm : ∀ a b, A.vo.eq a b = true → A.vo.eq b a = true
  trans : ∀ a b c, A.vo.eq a b = true → A.vo.eq b c = true → A.vo.eq a c = true

/-- the first occurrences, as the statement lists them -/
def firstsOf (A : Arith V F) (xs : List (Pt V)) : List (Pt V) :=
  (List.range xs.length).filterMap fun i =>
    match xs[i]? with
    | some p => if (xs.take i).any (fun q => A.vo.eq q.v p.v) then none else some p
    | none => none

theorem filterMap_congr'' {α β : Type} {f g : α → Option β} {l : List α} (h : ∀ x ∈ l, f x = g x) :
    l.filterMap f = l.filterMap g := by
  induction l with
  | nil => rfl
  | cons a l ih =>
    have ha := h a (by simp)
    have hl := ih (fun x hx => h x (by simp [hx]))
    simp only [List.filterMap_cons, ha, hl]

theorem firstsOf_snoc (A : Arith V F) (pre : List (Pt V)) (x : Pt V) :
    firstsOf A (pre ++ [x]) =
      if pre.any (fun q => A.vo.eq q.v x.v) then firstsOf A pre else firstsOf A pre ++ [x] := by
  unfold firstsOf
  simp only [List.length_append, List.length_cons, List.length_nil, Nat.zero_add, List.range_succ,
    List.filterMap_append, List.filterMap_cons, List.filterMap_nil]
  have h1 : (List.range pre.length).filterMap (fun i =>
      match (pre ++ [x])[i]? with
      | some p => if ((pre ++ [x]).take i).any (fun q => A.vo.eq q.v p.v) then none else some p
      | none => none) =
      (List.range pre.length).filterMap (fun i =>
      match pre[i]? with
      | some p => if (pre.take i).any (fun q => A.vo.eq q.v p.v) then none else some p
      | none => none) := by
    apply filterMap_congr''
    intro i hi
    have hi' : i < pre.length := List.mem_range.mp hi
    rw [List.getElem?_append_left hi', List.take_append_of_le_length (by omega)]
  rw [h1]
  have h2 : (pre ++ [x])[pre.length]? = some x := by simp
  have h3 : (pre ++ [x]).take pre.length = pre := by simp
  simp only [h2, h3]
  by_cases hx : pre.any (fun q => A.vo.eq q.v x.v) = true <;> simp [hx]

theorem firstsOf_any (A : Arith V F) (h : EqLaws A) (pre : List (Pt V)) : ∀ (v : V),
    (firstsOf A pre).any (fun q => A.vo.eq q.v v) = pre.any (fun q => A.vo.eq q.v v) := by
  generalize hn : pre.length = n
  induction n generalizing pre with
  | zero =>
    intro v
    have : pre = [] := List.length_eq_zero_iff.mp hn
    subst this
    simp [firstsOf]
  | succ n ih' =>
    intro v
    have hne : pre ≠ [] := by intro h; rw [h] at hn; simp at hn
    have hsplit := List.dropLast_concat_getLast hne
    have hlen : pre.dropLast.length = n := by simp [hn]
    have ih := ih' pre.dropLast hlen
    rw [← hsplit]
    generalize pre.getLast hne = x at *
    generalize pre.dropLast = pre at *
    rw [firstsOf_snoc]
    by_cases hx : pre.any (fun q => A.vo.eq q.v x.v) = true
    · simp only [hx, if_true, List.any_append, List.any_cons, List.any_nil, Bool.or_false, ih v]
      -- x already has a representative f with f == x; if x == v then f == v
      cases hxv : A.vo.eq x.v v with
      | false => simp
      | true =>
        simp only [Bool.or_true]
        rw [List.any_eq_true] at hx ⊢
        obtain ⟨f, hf, hfx⟩ := hx
        exact ⟨f, hf, h.trans _ _ _ hfx hxv⟩
    · simp only [hx, Bool.false_eq_true, if_false, List.any_append, List.any_cons, List.any_nil, Bool.or_false, ih v]

/-- the reducer's map holds exactly the first occurrences, in arrival order -/
theorem distinct_fold (A : Arith V F) (h : EqLaws A) (suf : List (Pt V)) : ∀ (pre : List (Pt V)),
    suf.foldl (distinctAgg A.vo) (firstsOf A pre) = firstsOf A (pre ++ suf) := by
  induction suf with
  | nil => intro pre; simp
  | cons x suf ih =>
    intro pre
    simp only [List.foldl_cons]
    have : distinctAgg A.vo (firstsOf A pre) x = firstsOf A (pre ++ [x]) := by
      rw [firstsOf_snoc, distinctAgg, firstsOf_any A h pre x.v]
    rw [this, ih (pre ++ [x])]
    simp

/-! ### `permBy` accepts permutations, `pairwiseB` is `Pairwise` -/

theorem permBy_of_perm {W : Type} (eqv : W → W → Bool) (hrefl : ∀ x, eqv x x = true)
    (hexact : ∀ a b, eqv a b = true → a = b) :
    ∀ (as bs : List (Pt W)), bs.Perm as → permBy eqv as bs = true := by
  intro as
  induction as with
  | nil => intro bs h; simp [permBy, h.eq_nil]
  | cons a as ih =>
    intro bs hperm
    have hmem : a ∈ bs := hperm.mem_iff.mpr (by simp)
    simp only [permBy]
    -- the first element matching `a` is `a` itself
    have hp : ∀ b : Pt W, (decide (a.t = b.t) && eqv a.v b.v) = true ↔ b = a := by
      intro b
      constructor
      · intro hb
        simp only [Bool.and_eq_true, decide_eq_true_eq] at hb
        have := hexact _ _ hb.2
        cases a; cases b; simp_all
      · rintro rfl; simp [hrefl]
    have hex : ∃ i, bs.findIdx? (fun b => decide (a.t = b.t) && eqv a.v b.v) = some i ∧ (bs.eraseIdx i).Perm as := by
      clear ih
      induction bs generalizing as with
      | nil => cases hmem
      | cons b bs ihb =>
        by_cases hb : b = a
        · subst hb
          refine ⟨0, by simp [List.findIdx?_cons, hrefl], ?_⟩
          simpa using hperm.cons_inv
        · have hpb : (decide (a.t = b.t) && eqv a.v b.v) = false := by
            cases hh : (decide (a.t = b.t) && eqv a.v b.v) with
            | false => rfl
            | true => exact absurd ((hp b).mp hh) hb
          have hmem' : a ∈ bs := by
            rcases List.mem_cons.mp hmem with h | h
            · exact absurd h.symm hb
            · exact h
          -- move a to the front of bs
          obtain ⟨l1, l2, hbs⟩ := List.append_of_mem hmem'
          have hp1 : (b :: bs).Perm (a :: b :: (l1 ++ l2)) := by
            rw [hbs]
            refine (List.Perm.cons b List.perm_middle).trans (List.Perm.swap a b _)
          have hrest : (b :: (l1 ++ l2)).Perm as := (hp1.symm.trans hperm).cons_inv
          have hbs' : bs.Perm (a :: (l1 ++ l2)) := by rw [hbs]; exact List.perm_middle
          obtain ⟨i, hi, hpi⟩ := ihb (l1 ++ l2) hbs' hmem'
          refine ⟨i + 1, by simp [List.findIdx?_cons, hpb, hi], ?_⟩
          simp only [List.eraseIdx_cons_succ]
          exact (List.Perm.cons b hpi).trans hrest
    obtain ⟨i, hi, hpi⟩ := hex
    simp only [hi]
    exact ih _ hpi

theorem pairwiseB_of_pairwise {α : Type} (r : α → α → Bool) (l : List α)
    (h : List.Pairwise (fun a b => r a b = true) l) : pairwiseB r l = true := by
  induction l with
  | nil => rfl
  | cons a l ih =>
    have ha := List.pairwise_cons.mp h
    simp only [pairwiseB, Bool.and_eq_true, List.all_eq_true]
    exact ⟨ha.1, ih ha.2⟩

/-- `integerPoints.Less`: by time, then by value — a strict weak order when the value
    order is one -/
theorem ptLess_strictWeak (A : Arith V F) (h : StrictWeak A.vo.lt) : StrictWeak (ptLess A.vo) where
  irrefl := by intro a; simp [ptLess, h.irrefl]
  trans := by
    intro a b c h1 h2
    simp only [ptLess] at *
    by_cases hab : a.t = b.t <;> by_cases hbc : b.t = c.t <;> by_cases hac : a.t = c.t <;>
      simp_all <;> first | omega | exact h.trans _ _ _ h1 h2
  negTrans := by
    intro a b c h1 h2
    simp only [ptLess] at *
    by_cases hab : a.t = b.t <;> by_cases hbc : b.t = c.t <;> by_cases hac : a.t = c.t <;>
      simp_all <;> first | omega | exact h.negTrans _ _ _ h1 h2

/-- **distinct**: each value once, represented by its first point, ordered by (time, value) -/
theorem distinct_ok (A : Arith V F) (hlt : StrictWeak A.vo.lt) (heq : EqLaws A)
    (hexact : ∀ a b, A.eqvV a b = true → a = b) (xs : List (Pt V)) :
    distinctOK A xs (distinct A.vo xs) = true := by
  have hfold : xs.foldl (distinctAgg A.vo) [] = firstsOf A xs := by
    have := distinct_fold A heq xs []
    simpa [firstsOf] using this
  unfold distinct distinctOK
  rw [hfold]
  have hperm := insertionSort_perm (ptLess A.vo) (firstsOf A xs)
  have hsorted := insertionSort_sorted (ptLess_strictWeak A hlt) (firstsOf A xs)
  rw [Bool.and_eq_true]
  refine ⟨permBy_of_perm A.eqvV A.eqvV_refl hexact _ _ hperm, ?_⟩
  apply pairwiseB_of_pairwise
  refine hsorted.imp ?_
  intro a b hba
  simp only [ptLess] at hba
  by_cases hab : a.t = b.t
  · have : ¬ (b.t ≠ a.t) := by simp [hab]
    simp only [this, if_false] at hba
    simp [hab, hba]
  · have hne : b.t ≠ a.t := fun h => hab h.symm
    simp only [hne, ne_eq, not_false_eq_true, if_true, decide_eq_false_iff_not] at hba
    have : a.t < b.t := by omega
    simp [this]

end Influx.Reducers.Lemmas
