/-
  Lemmas.ReplicationSim — the C27 model refines the statement checker
  `Spec.C27`: an invariant relating the model state to one checker state is
  preserved by every operation, and the model's answer is always accepted.
-/
import Influx.Lemmas.Replication
namespace Influx.Repl
open Influx.Spec.C27 Influx.Generated.Replication

abbrev r204 : Resp := { kind := 0, status := 204 }

/-- complete description of the scan loop (posted prefix, attempt counter, delay) -/
theorem sendLoop_full (drop : Bool) :
    ∀ (es : List Bytes) (script : List Resp) (failed : Nat) (posted : List Bytes),
      let res := sendLoop drop es script failed posted
      ∃ m, m ≤ es.length ∧ res.1 = posted ++ es.take m ∧
        (res.2.2 = none → m = es.length ∧ (es ≠ [] → res.2.1 = 0) ∧ (es = [] → res.2.1 = failed) ∧
            ∀ k, k < m → releases drop (script.getD k r204) = true) ∧
        (∀ w, res.2.2 = some w → m ≥ 1 ∧
            (∀ k, k < m - 1 → releases drop (script.getD k r204) = true) ∧
            releases drop (script.getD (m - 1) r204) = false ∧
            writeDecision drop (if m ≥ 2 then 0 else failed) (script.getD (m - 1) r204) = .fail w ∧
            res.2.1 = (if m ≥ 2 then 0 else failed) + 1) := by
  intro es
  induction es with
  | nil =>
    intro script failed posted
    exact ⟨0, by simp, by simp [sendLoop], by simp [sendLoop], by simp [sendLoop]⟩
  | cons e es ih =>
    intro script failed posted
    simp only [sendLoop]
    have hhd : script.headD r204 = script.getD 0 r204 := by cases script <;> rfl
    cases hd : writeDecision drop failed (script.headD r204) with
    | ok =>
      simp only []
      obtain ⟨m, hm, hpost, hnone, hsome⟩ := ih script.tail 0 (posted ++ [e])
      have hrel : releases drop (script.getD 0 r204) = true := by
        rw [← hhd]; exact (writeDecision_ok_iff _ _ _).mp hd
      have hget : ∀ k, script.getD (k + 1) r204 = script.tail.getD k r204 := by
        intro k; cases script <;> simp [List.getD]
      refine ⟨m + 1, by simp; omega, by rw [hpost]; simp, ?_, ?_⟩
      · intro h
        obtain ⟨h1, h2, h3, h4⟩ := hnone h
        refine ⟨by simp; omega, ?_, by simp, ?_⟩
        · intro _
          by_cases hes : es = []
          · exact h3 hes
          · exact h2 hes
        · intro k hk
          cases k with
          | zero => exact hrel
          | succ k => rw [hget]; exact h4 k (by omega)
      · intro w h
        obtain ⟨h1, h2, h3, h4, h5⟩ := hsome w h
        have hm1 : m + 1 - 1 = (m - 1) + 1 := by omega
        refine ⟨by omega, ?_, ?_, ?_, ?_⟩
        · intro k hk
          cases k with
          | zero => exact hrel
          | succ k => rw [hget]; exact h2 k (by omega)
        · rw [hm1, hget]; exact h3
        · rw [hm1, hget, if_pos (by omega)]
          by_cases hm2 : m ≥ 2
          · rw [if_pos hm2] at h4; exact h4
          · rw [if_neg hm2] at h4; exact h4
        · rw [if_pos (by omega)]
          by_cases hm2 : m ≥ 2
          · rw [if_pos hm2] at h5; exact h5
          · rw [if_neg hm2] at h5; exact h5
    | fail w =>
      simp only []
      refine ⟨1, by simp, by simp, by simp, ?_⟩
      intro w' hw'
      have hww : w = w' := by simpa using hw'
      subst hww
      refine ⟨by omega, by intro k hk; omega, ?_, ?_, by simp⟩
      · simp only [Nat.sub_self]
        rw [← hhd]
        cases hr : releases drop (script.headD r204) with
        | false => rfl
        | true => rw [(writeDecision_ok_iff _ failed _).mpr hr] at hd; cases hd
      · simp only [Nat.sub_self]
        rw [← hhd, if_neg (by omega)]; exact hd

theorem wrapI64_small (i : Int) (h0 : 0 ≤ i) (h1 : i < 2^63) : wrapI64 i = i := by
  unfold wrapI64; omega

theorem delayOk_of_fail (drop : Bool) (f : Nat) (r : Resp) (w : Int)
    (h : writeDecision drop f r = .fail w) : delayOk f r w = true := by
  have hb := backoff_eq_doc f
  have hb1 := backoff_eq_doc 1
  unfold writeDecision at h
  unfold delayOk
  by_cases hk : r.kind = 0
  · rw [if_neg (by simp [hk])] at h
    by_cases h204 : r.status = 204
    · simp [h204] at h
    rw [if_neg h204] at h
    by_cases h400 : r.status = 400 ∧ drop
    · simp [h400] at h
    rw [if_neg h400] at h
    by_cases h429 : r.status = 429
    · rw [if_pos h429] at h
      simp only [hk, h429, beq_self_eq_true, Bool.and_self, if_true]
      cases hra : r.retryAfter with
      | none =>
        simp only [hra, waitFromHeader] at h
        simp at h; simp [← h, hb]
      | some s =>
        simp only [hra, waitFromHeader] at h
        by_cases hs0 : s = "0"
        · subst hs0
          have hb10 : backoff 1 ≠ 0 := by decide
          simp [hb10] at h
          simp [← h, hb1]
        · have hs0' : (s == "0") = false := by simp [hs0]
          simp only [hs0', Bool.false_eq_true, if_false]
          by_cases hse : s = ""
          · subst hse
            simp at h
            have : atoi "" = none := by decide
            simp [this, ← h, hb]
          · rw [if_neg hse, if_neg hs0] at h
            cases hat : atoi s with
            | none => simp [hat] at h; simp [← h, hb]
            | some n =>
              simp only [hat] at h
              by_cases hn : n > 0
              · simp only [hn, if_true]
                by_cases hn9 : n ≤ 9000000000
                · simp only [hn9, if_true]
                  have hw : wrapI64 (n * 1000000000) = n * 1000000000 :=
                    wrapI64_small _ (by omega) (by omega)
                  rw [hw] at h
                  have : n * 1000000000 ≠ 0 := by omega
                  simp [this] at h
                  simp [← h]
                · simp [hn9]
              · simp only [hn, if_false]
                by_cases hn0 : n = 0
                · subst hn0
                  simp [wrapI64] at h
                  simp [← h, hb]
                · have : (n == 0) = false := by simp [hn0]
                  simp [this]
    · rw [if_neg h429] at h
      have : (r.kind == 0 && r.status == 429) = false := by simp [h429]
      simp only [this, Bool.false_eq_true, if_false]
      simp at h; simp [← h, hb]
  · rw [if_pos hk] at h
    have : (r.kind == 0 && r.status == 429) = false := by simp [hk]
    simp only [this, Bool.false_eq_true, if_false]
    simp at h; simp [← h, hb]


def entries (segs : List ASeg) : List Bytes := segs.flatMap ASeg.rest

@[simp] theorem entries_nil : entries [] = [] := rfl
@[simp] theorem entries_cons (h : ASeg) (t : List ASeg) : entries (h :: t) = h.rest ++ entries t := by
  simp [entries]
theorem entries_append (a b : List ASeg) : entries (a ++ b) = entries a ++ entries b := by
  simp [entries]

theorem remaining_eq (st : St) : st.remaining = entries st.segs := rfl

/-- entries of an old segment (and of everything before it) were enqueued before the last `age` -/
def OldOk : Nat → List ASeg → Nat → Prop
  | _, [], _ => True
  | g, h :: t, p => (h.old = true → g + h.rest.length ≤ p) ∧ OldOk (g + h.rest.length) t p

/-- shape of the segment list: never empty; only the head may be empty, and then it
    is the only segment and still takes the next entry -/
structure SegsOk (segs : List ASeg) (maxSeg : Nat) : Prop where
  ne : segs ≠ []
  tailNonempty : ∀ h t, segs = h :: t → ∀ x ∈ t, x.rest ≠ []
  headEmpty : ∀ h t, segs = h :: t → h.rest = [] → t = [] ∧ h.size ≤ h.maxSize
  maxSeg8 : 8 ≤ maxSeg

/-- the simulation invariant between a model state and a checker state -/
structure Inv (st : St) (s : SS) : Prop where
  split : ∃ pre, s.enq = pre ++ entries st.segs ∧ s.goneOk pre.length = true ∧
            pre.length ≤ max s.posted s.mayPurged ∧ OldOk pre.length st.segs s.purgeable
  fails : s.fails = st.failed
  drop : s.drop = st.drop
  accLen : s.acc.length = s.enq.length
  segs : SegsOk st.segs st.maxSeg

theorem goneOk_iff (s : SS) (g : Nat) :
    s.goneOk g = true ↔ ∀ i, i < g → (s.acc.getD i false = true ∨ i < s.mayPurged) := by
  simp [SS.goneOk, List.all_eq_true]


theorem OldOk_append (a b : List ASeg) (g p : Nat) :
    OldOk g (a ++ b) p ↔ OldOk g a p ∧ OldOk (g + (entries a).length) b p := by
  induction a generalizing g with
  | nil => simp [OldOk]
  | cons h t ih =>
    simp only [List.cons_append, OldOk, ih, entries_cons, List.length_append]
    constructor
    · rintro ⟨h1, h2, h3⟩; exact ⟨⟨h1, h2⟩, by rw [← Nat.add_assoc]; exact h3⟩
    · rintro ⟨⟨h1, h2⟩, h3⟩; exact ⟨h1, h2, by rw [Nat.add_assoc]; exact h3⟩

theorem split_last {α} : ∀ (l : List α) (t : α), l.getLast? = some t → l = l.dropLast ++ [t]
  | [], _, h => by simp at h
  | [a], t, h => by simp at h; simp [h]
  | a :: b :: l, t, h => by
    have := split_last (b :: l) t (by simpa using h)
    simp only [List.dropLast_cons_cons, List.cons_append]
    rw [← this]

theorem goneOk_mono {s s' : SS} {g : Nat} (h : s.goneOk g = true)
    (hacc : ∀ i, s.acc.getD i false = true → s'.acc.getD i false = true)
    (hp : s.mayPurged ≤ s'.mayPurged) : s'.goneOk g = true := by
  rw [goneOk_iff] at h ⊢
  intro i hi
  rcases h i hi with h1 | h1
  · exact Or.inl (hacc i h1)
  · exact Or.inr (by omega)

theorem getD_append_false (acc : List Bool) (i : Nat) (h : acc.getD i false = true) :
    (acc ++ [false]).getD i false = true := by
  by_cases hi : i < acc.length
  · simp [List.getD, List.getElem?_append_left hi] at h ⊢; exact h
  · simp [List.getD, List.getElem?_eq_none (by omega : acc.length ≤ i)] at h

theorem inv_enq {st : St} {s : SS} (h : Inv st s) (b : Bytes) :
    Inv (st.enq b) { s with enq := s.enq ++ [b], acc := s.acc ++ [false] } := by
  obtain ⟨pre, henq, hgone, hle, hold⟩ := h.split
  have hne := h.segs.ne
  obtain ⟨t, ht⟩ : ∃ t, st.segs.getLast? = some t := by
    cases hs : st.segs.getLast? with
    | none => exact absurd (List.getLast?_eq_none_iff.mp hs) hne
    | some t => exact ⟨t, rfl⟩
  have hsplit := split_last _ _ ht
  generalize hinit : st.segs.dropLast = ini at hsplit
  have hold' := hold
  rw [hsplit, OldOk_append] at hold'
  -- the two shapes of the new segment list
  have key : ∃ t', t'.rest ≠ [] ∧ t'.old = false ∧
      ((st.enq b).segs = ini ++ [t'] ∧ t'.rest = t.rest ++ [b] ∨
       (st.enq b).segs = ini ++ [t, t'] ∧ t'.rest = [b] ∧ t.size > t.maxSize) ∧
      (st.enq b).maxSeg = st.maxSeg ∧ (st.enq b).failed = st.failed ∧ (st.enq b).drop = st.drop := by
    unfold St.enq
    rw [ht]
    by_cases hfull : t.size > t.maxSize
    · refine ⟨(freshSeg st.maxSeg).put b, by simp [ASeg.put], rfl, Or.inr ⟨?_, by simp [ASeg.put, freshSeg], hfull⟩, ?_⟩
      · simp only [if_pos hfull]; rw [hsplit]; simp
      · simp [if_pos hfull]
    · refine ⟨t.put b, by simp [ASeg.put], rfl, Or.inl ⟨?_, rfl⟩, ?_⟩
      · simp only [if_neg hfull, hinit]
      · simp [if_neg hfull]
  obtain ⟨t', hne', hold_t', hshape, hms, hf, hd⟩ := key
  have hent : entries (st.enq b).segs = entries st.segs ++ [b] := by
    rcases hshape with ⟨hs, hr⟩ | ⟨hs, hr, _⟩
    · rw [hs, hsplit, entries_append, entries_append]; simp [hr]
    · rw [hs, hsplit, entries_append, entries_append]; simp [hr]
  refine ⟨⟨pre, ?_, ?_, hle, ?_⟩, by simp [h.fails, hf], by simp [h.drop, hd], by simp [h.accLen], ?_⟩
  · simp [henq, hent]
  · exact goneOk_mono hgone (fun i hi => getD_append_false _ i hi) (Nat.le_refl _)
  · rcases hshape with ⟨hs, hr⟩ | ⟨hs, hr, _⟩
    · rw [hs, OldOk_append]
      exact ⟨hold'.1, by simp [OldOk, hold_t']⟩
    · rw [hs, show ini ++ [t, t'] = (ini ++ [t]) ++ [t'] by simp, OldOk_append, ← hsplit]
      exact ⟨hold, by simp [OldOk, hold_t']⟩
  · have hso := h.segs
    rw [hms]
    rcases hshape with ⟨hs, hr⟩ | ⟨hs, hr, hfull⟩
    · rw [hs]
      refine ⟨by simp, ?_, ?_, hso.maxSeg8⟩
      · intro h0 t0 heq x hx
        cases ini with
        | nil => simp at heq; rw [heq.2] at hx; cases hx
        | cons i0 irest =>
          simp at heq
          rw [← heq.2] at hx
          rcases List.mem_append.mp hx with hx | hx
          · exact hso.tailNonempty i0 (irest ++ [t]) (by rw [hsplit]; simp) x (by simp [hx])
          · simp at hx; rw [hx]; exact hne'
      · intro h0 t0 heq h0e
        cases ini with
        | nil => simp at heq; rw [← heq.1] at h0e; exact absurd h0e hne'
        | cons i0 irest =>
          simp at heq
          have := hso.headEmpty i0 (irest ++ [t]) (by rw [hsplit]; simp) (by rw [heq.1]; exact h0e)
          simp at this
    · rw [hs]
      refine ⟨by simp, ?_, ?_, hso.maxSeg8⟩
      · intro h0 t0 heq x hx
        cases ini with
        | nil =>
          simp at heq; rw [← heq.2] at hx; simp at hx; rw [hx]; exact hne'
        | cons i0 irest =>
          simp at heq
          rw [← heq.2] at hx
          rcases List.mem_append.mp hx with hx | hx
          · exact hso.tailNonempty i0 (irest ++ [t]) (by rw [hsplit]; simp) x (by simp [hx])
          · simp at hx
            rcases hx with hx | hx
            · rw [hx]; exact hso.tailNonempty i0 (irest ++ [t]) (by rw [hsplit]; simp) t (by simp)
            · rw [hx]; exact hne'
      · intro h0 t0 heq h0e
        cases ini with
        | nil =>
          simp at heq
          have := hso.headEmpty t [] (by rw [hsplit]; rfl) (by rw [heq.1]; exact h0e)
          omega
        | cons i0 irest =>
          simp at heq
          have := hso.headEmpty i0 (irest ++ [t]) (by rw [hsplit]; simp) (by rw [heq.1]; exact h0e)
          simp at this



theorem entries_map_old (segs : List ASeg) :
    entries (segs.map fun s => { s with old := true }) = entries segs := by
  induction segs with
  | nil => rfl
  | cons h t ih => simp [ih]

theorem OldOk_all (segs : List ASeg) (g : Nat) (p : Nat) (h : g + (entries segs).length ≤ p) :
    OldOk g segs p := by
  induction segs generalizing g with
  | nil => trivial
  | cons a t ih =>
    simp only [entries_cons, List.length_append] at h
    exact ⟨fun _ => by omega, ih _ (by omega)⟩

theorem inv_age {st : St} {s : SS} (h : Inv st s) :
    Inv st.age { s with purgeable := s.enq.length } := by
  obtain ⟨pre, henq, hgone, hle, hold⟩ := h.split
  have hso := h.segs
  refine ⟨⟨pre, ?_, hgone, hle, ?_⟩, h.fails, h.drop, h.accLen, ?_⟩
  · simp [St.age, entries_map_old, henq]
  · apply OldOk_all
    simp [St.age, entries_map_old, henq]
  · simp only [St.age]
    refine ⟨by simp [hso.ne], ?_, ?_, hso.maxSeg8⟩
    · intro h0 t0 heq x hx
      cases hs : st.segs with
      | nil => exact absurd hs hso.ne
      | cons a t =>
        rw [hs] at heq; simp at heq
        rw [← heq.2] at hx
        obtain ⟨y, hy, rfl⟩ := List.mem_map.mp hx
        exact hso.tailNonempty a t hs y hy
    · intro h0 t0 heq h0e
      cases hs : st.segs with
      | nil => exact absurd hs hso.ne
      | cons a t =>
        rw [hs] at heq; simp at heq
        have := hso.headEmpty a t hs (by rw [← heq.1] at h0e; exact h0e)
        rw [← heq.2, ← heq.1]
        simp [this.1, this.2]

theorem inv_dump {st : St} {s : SS} (h : Inv st s) :
    s ∈ wstep s .dump (.dumped st.remaining) := by
  obtain ⟨pre, henq, hgone, hle, hold⟩ := h.split
  have hlen : s.enq.length - st.remaining.length = pre.length := by
    simp [henq, remaining_eq]
  simp only [wstep]
  rw [if_pos]
  · simp
  · refine ⟨by simp [henq, remaining_eq], ?_, by rw [hlen]; exact hgone⟩
    rw [hlen, henq, remaining_eq]; simp


theorem segsOk_fresh (ms : Nat) (h8 : 8 ≤ ms) : SegsOk [freshSeg ms] ms := by
  refine ⟨by simp, ?_, ?_, h8⟩
  · intro h0 t0 heq x hx; simp at heq; rw [heq.2] at hx; cases hx
  · intro h0 t0 heq _; simp at heq; rw [← heq.1]; exact ⟨heq.2, by simp [freshSeg]; exact h8⟩

theorem segsOk_tail {a b : ASeg} {t : List ASeg} {ms : Nat} (h : SegsOk (a :: b :: t) ms) :
    SegsOk (b :: t) ms := by
  refine ⟨by simp, ?_, ?_, h.maxSeg8⟩
  · intro h0 t0 heq x hx
    simp at heq; rw [← heq.2] at hx
    exact h.tailNonempty a (b :: t) rfl x (by simp [hx])
  · intro h0 t0 heq h0e
    simp at heq
    exact absurd (by rw [heq.1]; exact h0e) (h.tailNonempty a (b :: t) rfl b (by simp))

theorem purgeSegs_spec (ms : Nat) :
    ∀ (fuel : Nat) (segs : List ASeg) (g p : Nat), fuel > segs.length → SegsOk segs ms → OldOk g segs p →
      ∃ d, d ≤ (entries segs).length ∧
        entries (purgeSegs ms fuel segs) = (entries segs).drop d ∧
        (g + d ≤ max g p) ∧ OldOk (g + d) (purgeSegs ms fuel segs) p ∧
        SegsOk (purgeSegs ms fuel segs) ms := by
  intro fuel
  induction fuel with
  | zero => intro segs g p hf; omega
  | succ fuel ih =>
    intro segs g p hf hso hold
    cases segs with
    | nil => exact absurd rfl hso.ne
    | cons a t =>
      simp only [purgeSegs]
      by_cases hao : a.old = true
      · rw [if_pos hao]
        have ha := hold.1 hao
        cases t with
        | nil =>
          refine ⟨a.rest.length, by simp, by simp [freshSeg], by omega, ?_, segsOk_fresh ms hso.maxSeg8⟩
          simp [OldOk, freshSeg]
        | cons b t' =>
          simp only []
          obtain ⟨d, hd, hent, hle, hold', hso'⟩ :=
            ih (b :: t') (g + a.rest.length) p (by simp at hf ⊢; omega) (segsOk_tail hso) hold.2
          refine ⟨a.rest.length + d, by simp at hd ⊢; omega, ?_, by omega, ?_, hso'⟩
          · rw [hent]; simp [List.drop_append]
          · rw [← Nat.add_assoc]; exact hold'
      · rw [if_neg hao]
        exact ⟨0, by simp, by simp, by omega, by simpa using hold, hso⟩

theorem inv_purge {st : St} {s : SS} (h : Inv st s) :
    Inv st.purge { s with mayPurged := max s.mayPurged s.purgeable } := by
  obtain ⟨pre, henq, hgone, hle, hold⟩ := h.split
  have hmono : ({ s with mayPurged := max s.mayPurged s.purgeable } : SS).goneOk pre.length = true :=
    goneOk_mono hgone (fun i hi => hi) (by simp; omega)
  unfold St.purge
  by_cases hma : st.maxAge = 0
  · rw [if_pos hma]
    exact ⟨⟨pre, henq, hmono, by simp; omega, hold⟩, h.fails, h.drop, h.accLen, h.segs⟩
  · rw [if_neg hma]
    obtain ⟨d, hd, hent, hle', hold', hso'⟩ :=
      purgeSegs_spec st.maxSeg (st.segs.length + 1) st.segs pre.length s.purgeable (by omega) h.segs hold
    refine ⟨⟨pre ++ (entries st.segs).take d, ?_, ?_, ?_, ?_⟩, h.fails, h.drop, h.accLen, hso'⟩
    · simp only [hent, henq, List.append_assoc, List.take_append_drop]
    · rw [goneOk_iff]
      intro i hi
      by_cases hip : i < pre.length
      · exact (goneOk_iff _ _).mp hmono i hip
      · right
        simp only [List.length_append, List.length_take] at hi
        show i < max s.mayPurged s.purgeable
        omega
    · simp only [List.length_append, List.length_take]
      show pre.length + min d (entries st.segs).length ≤ max s.posted (max s.mayPurged s.purgeable)
      omega
    · simp only [List.length_append, List.length_take]
      rw [Nat.min_eq_left hd]
      exact hold'



def markRun (acc : List Bool) (j n : Nat) : List Bool :=
  (List.range n).foldl (fun a k => setTrue a (j + k)) acc

theorem setTrue_length (a : List Bool) (i : Nat) : (setTrue a i).length = a.length := by
  simp [setTrue]

theorem setTrue_getD (a : List Bool) (i k : Nat) :
    (setTrue a i).getD k false = if k = i ∧ i < a.length then true else a.getD k false := by
  simp only [setTrue, List.getD_eq_getElem?_getD, List.getElem?_set]
  by_cases hik : i = k
  · subst hik
    by_cases hl : i < a.length
    · simp [hl]
    · simp [hl]
  · have : ¬ (k = i ∧ i < a.length) := by intro h; exact hik h.1.symm
    simp [hik, this]

theorem markRun_length (acc : List Bool) (j n : Nat) : (markRun acc j n).length = acc.length := by
  induction n with
  | zero => rfl
  | succ n ih => simp [markRun, List.range_succ, List.foldl_append] at ih ⊢; rw [setTrue_length]; exact ih

theorem markRun_succ (acc : List Bool) (j n : Nat) :
    markRun acc j (n + 1) = setTrue (markRun acc j n) (j + n) := by
  simp [markRun, List.range_succ, List.foldl_append]

theorem markRun_mono (acc : List Bool) (j n i : Nat) (h : acc.getD i false = true) :
    (markRun acc j n).getD i false = true := by
  induction n with
  | zero => exact h
  | succ n ih =>
    rw [markRun_succ, setTrue_getD]
    split
    · rfl
    · exact ih

theorem markRun_set (acc : List Bool) (j n k : Nat) (hk : k < n) (hl : j + n ≤ acc.length) :
    (markRun acc j n).getD (j + k) false = true := by
  induction n with
  | zero => omega
  | succ n ih =>
    rw [markRun_succ, setTrue_getD]
    by_cases hkn : k = n
    · subst hkn; rw [if_pos ⟨rfl, by rw [markRun_length]; omega⟩]
    · rw [if_neg (by intro h; omega)]
      exact ih (by omega) (by omega)


theorem sendFrom_fail (s : SS) (script : List Resp) (j n : Nat) (w : Int) (failed : Nat) (_hn : n ≥ 1)
    (hall : ∀ k, k < n - 1 → releases s.drop (script.getD k r204) = true)
    (hlast : releases s.drop (script.getD (n - 1) r204) = false)
    (hdelay : delayOk (if n ≥ 2 then 0 else s.fails) (script.getD (n - 1) r204) w = true)
    (hfailed : failed = (if n ≥ 2 then 0 else s.fails) + 1) :
    sendFrom s script j n w true failed
      = some { s with acc := markRun s.acc j (n - 1), posted := max s.posted (j + n), fails := failed } := by
  have hab : ((List.range (n - 1)).all fun k => releases s.drop (respAt script k)) = true := by
    rw [List.all_eq_true]; intro k hk; exact hall k (List.mem_range.mp hk)
  unfold sendFrom
  simp only [hab, Bool.not_true, Bool.false_eq_true, if_false]
  have hl : releases s.drop (respAt script (n - 1)) = false := hlast
  simp only [hl, Bool.false_eq_true, if_false]
  have hd : delayOk (if n ≥ 2 then 0 else s.fails) (respAt script (n - 1)) w = true := hdelay
  rw [hd, hfailed]
  simp [markRun]

theorem sendFrom_ok (s : SS) (script : List Resp) (j n : Nat) (hn : n ≥ 1)
    (hall : ∀ k, k < n → releases s.drop (script.getD k r204) = true) :
    sendFrom s script j n 0 true 0
      = some { s with acc := markRun s.acc j n, posted := max s.posted (j + n), fails := 0 } := by
  have hab : ((List.range (n - 1)).all fun k => releases s.drop (respAt script k)) = true := by
    rw [List.all_eq_true]; intro k hk; exact hall k (by have := List.mem_range.mp hk; omega)
  have hl : releases s.drop (respAt script (n - 1)) = true := hall (n - 1) (by omega)
  unfold sendFrom
  simp only [hab, hl, Bool.not_true, Bool.false_eq_true, if_false, if_true]
  have : markRun s.acc j n = setTrue (markRun s.acc j (n - 1)) (j + n - 1) := by
    obtain ⟨m, rfl⟩ : ∃ m, n = m + 1 := ⟨n - 1, by omega⟩
    rw [markRun_succ]; simp
  rw [this]; simp [markRun]

theorem take_append_le {α} (a b : List α) (m : Nat) (h : m ≤ a.length) : (a ++ b).take m = a.take m := by
  rw [List.take_append]; simp [Nat.sub_eq_zero_of_le h]

theorem inv_send {st : St} {s : SS} (h : Inv st s) (script : List Resp) :
    ∃ s', s' ∈ wstep s (.send script)
        (.sent (st.send script).2.posted (st.send script).2.wait (st.send script).2.retry (st.send script).1.failed)
      ∧ Inv (st.send script).1 s' := by
  obtain ⟨pre, henq, hgone, hle, hold⟩ := h.split
  have hso := h.segs
  cases hsegs : st.segs with
  | nil => exact absurd hsegs hso.ne
  | cons a t =>
    rw [hsegs] at henq hold
    by_cases hae : a.rest = []
    · -- nothing to send
      have hsend : st.send script = (st, ⟨[], 0, false⟩) := by simp [St.send, hsegs, hae]
      obtain ⟨ht, _⟩ := hso.headEmpty a t hsegs hae
      subst ht
      rw [hsend]
      refine ⟨s, ?_, h⟩
      simp only [wstep, List.isEmpty_nil, if_true]
      have hg : s.goneOk s.enq.length = true := by
        have : s.enq.length = pre.length := by simp [henq, hae]
        rw [this]; exact hgone
      simp [h.fails, hg]
    · -- the scan
      obtain ⟨m, hm, hpost, hnone, hsome⟩ := sendLoop_full st.drop a.rest script st.failed []
      simp only [List.nil_append] at hpost
      have hjs : ∀ n, n ≤ a.rest.length →
          pre.length ∈ (List.range (s.enq.length + 1)).filter (fun j =>
            (s.enq.drop j).take n == a.rest.take n && s.goneOk j && decide (j ≤ max s.posted s.mayPurged)) := by
        intro n hn
        rw [List.mem_filter]
        refine ⟨List.mem_range.mpr (by simp [henq]; omega), ?_⟩
        have : (s.enq.drop pre.length).take n = a.rest.take n := by
          rw [henq, List.drop_left, entries_cons, take_append_le _ _ _ hn]
        simp [this, hgone, hle]
      cases hres : sendLoop st.drop a.rest script st.failed [] with
      | mk posted rest2 =>
        obtain ⟨failed', ow⟩ := rest2
        rw [hres] at hpost hnone hsome
        simp only at hpost hnone hsome
        cases ow with
        | some w =>
          obtain ⟨hm1, hall, hlast, hdec, hf'⟩ := hsome w rfl
          have hsend : st.send script = ({ st with failed := failed' }, ⟨posted, w, true⟩) := by
            simp [St.send, hsegs, hae, hres]
          rw [hsend]
          simp only
          have hdrop := h.drop
          have hfails := h.fails
          have hsf := sendFrom_fail s script pre.length m w failed' hm1
            (by rw [hdrop]; exact hall) (by rw [hdrop]; exact hlast)
            (by rw [hfails]; exact delayOk_of_fail _ _ _ _ hdec) (by rw [hfails]; exact hf')
          refine ⟨{ s with acc := markRun s.acc pre.length (m - 1), posted := max s.posted (pre.length + m),
                           fails := failed' }, ?_, ?_⟩
          · simp only [wstep]
            have hpe : posted.isEmpty = false := by
              rw [hpost]; cases har : a.rest with
              | nil => exact absurd har hae
              | cons x xs => obtain ⟨m', rfl⟩ : ∃ m', m = m' + 1 := ⟨m - 1, by omega⟩; simp
            simp only [hpe, Bool.false_eq_true, if_false]
            rw [List.mem_filterMap]
            have hlen : posted.length = m := by rw [hpost]; simp; omega
            refine ⟨pre.length, ?_, ?_⟩
            · rw [hlen, hpost]; exact hjs m hm
            · rw [hlen]; exact hsf
          · refine ⟨⟨pre, by simp [hsegs, henq], ?_, by simp; omega, by simp [hsegs]; exact hold⟩,
              rfl, h.drop, by simp [markRun_length, h.accLen], by simp; exact hso⟩
            exact goneOk_mono hgone (fun i hi => markRun_mono _ _ _ _ hi) (Nat.le_refl _)
        | none =>
          obtain ⟨hmeq, hf0, _, hall⟩ := hnone rfl
          subst hmeq
          have hf0' := hf0 hae
          have hposted : posted = a.rest := by rw [hpost]; simp
          have hsend : st.send script =
              ({ st with failed := failed',
                         segs := trimHead st.maxSeg ({ a with rest := [], old := false } :: t) },
               ⟨posted, 0, true⟩) := by
            simp [St.send, hsegs, hae, hres]
          rw [hsend]
          simp only
          have hn1 : a.rest.length ≥ 1 := by
            cases har : a.rest with
            | nil => exact absurd har hae
            | cons x xs => simp
          have hsf := sendFrom_ok s script pre.length a.rest.length hn1 (by rw [h.drop]; exact hall)
          refine ⟨{ s with acc := markRun s.acc pre.length a.rest.length,
                           posted := max s.posted (pre.length + a.rest.length), fails := 0 }, ?_, ?_⟩
          · simp only [wstep]
            have hpe : posted.isEmpty = false := by
              rw [hposted]; cases har : a.rest with
              | nil => exact absurd har hae
              | cons x xs => rfl
            simp only [hpe, Bool.false_eq_true, if_false]
            rw [List.mem_filterMap]
            refine ⟨pre.length, ?_, ?_⟩
            · have := hjs a.rest.length (Nat.le_refl _)
              rw [hposted]; simpa using this
            · rw [hposted, hf0']; exact hsf
          · -- invariant after the head segment is gone
            have hent' : entries (trimHead st.maxSeg ({ a with rest := [], old := false } :: t)) = entries t := by
              cases t with
              | nil => simp only [trimHead]; split <;> simp [freshSeg]
              | cons b t' => simp [trimHead]
            have hacc : s.acc.length = s.enq.length := h.accLen
            refine ⟨⟨pre ++ a.rest, ?_, ?_, ?_, ?_⟩, by simp [hf0'], h.drop,
              by simp [markRun_length, h.accLen], ?_⟩
            · simp [hent', henq]
            · rw [goneOk_iff]
              intro i hi
              by_cases hip : i < pre.length
              · rcases (goneOk_iff _ _).mp hgone i hip with h1 | h1
                · exact Or.inl (markRun_mono _ _ _ _ h1)
                · exact Or.inr h1
              · left
                simp only [List.length_append] at hi
                obtain ⟨k, rfl⟩ : ∃ k, i = pre.length + k := ⟨i - pre.length, by omega⟩
                exact markRun_set _ _ _ k (by omega) (by rw [hacc, henq]; simp)
            · simp only [List.length_append]; show _ ≤ max (max s.posted (pre.length + a.rest.length)) s.mayPurged
              omega
            · simp only [List.length_append]
              cases t with
              | nil => simp only [trimHead]; split <;> simp [OldOk, freshSeg]
              | cons b t' => simp only [trimHead]; exact hold.2
            · simp only
              cases t with
              | nil =>
                simp only [trimHead]
                split
                · exact segsOk_fresh _ hso.maxSeg8
                · next hsz =>
                  refine ⟨by simp, ?_, ?_, hso.maxSeg8⟩
                  · intro h0 t0 heq x hx; simp at heq; rw [heq.2] at hx; cases hx
                  · intro h0 t0 heq _; simp at heq; rw [← heq.1]; exact ⟨heq.2, by simp at hsz ⊢; omega⟩
              | cons b t' =>
                simp only [trimHead]
                rw [hsegs] at hso
                exact segsOk_tail hso



/-- the segment size handed to the durable queue leaves room for a footer
    (production always passes `durablequeue.DefaultSegmentSize`) -/
def ValidOp : Op → Prop
  | .init _ _ g => 8 ≤ g
  | _ => True

/-- model state and checker state agree -/
def Rel : State → SpecState → Prop
  | none, none => True
  | some st, some ws => ∃ s, s ∈ ws ∧ Inv st s
  | _, _ => False

theorem inv_init (d : Bool) (a : Int) (g : Nat) (h8 : 8 ≤ g) : Inv (initSt d a g) { drop := d } := by
  refine ⟨⟨[], by simp [initSt, freshSeg], by simp [SS.goneOk], by simp, by simp [initSt, OldOk, freshSeg]⟩,
    rfl, rfl, rfl, segsOk_fresh g h8⟩

theorem sim_step (ms : State) (ss : SpecState) (op : Op) (hr : Rel ms ss) (hv : ValidOp op) :
    Rel (step ms op).1 (sstep ss (op, (step ms op).2)) := by
  cases op with
  | backoff n =>
    have : step ms (.backoff n) = (ms, .dur (backoff n)) := by
      cases ms <;> rfl
    rw [this]
    simp only [sstep]
    rw [backoff_eq_doc]
    simpa using hr
  | init d a g =>
    cases ms with
    | none =>
      cases ss with
      | some ws => exact absurd hr (by simp [Rel])
      | none =>
        simp only [step, sstep]
        exact ⟨_, by simp, inv_init d a g hv⟩
    | some st =>
      cases ss with
      | none => exact absurd hr (by simp [Rel])
      | some ws =>
        obtain ⟨s, hs, hinv⟩ := hr
        simp only [step, sstep]
        exact ⟨s, List.mem_flatMap.mpr ⟨s, hs, by simp [wstep]⟩, hinv⟩
  | enq b =>
    cases ms with
    | none =>
      cases ss with
      | some ws => exact absurd hr (by simp [Rel])
      | none => simp [step, sstep, Rel]
    | some st =>
      cases ss with
      | none => exact absurd hr (by simp [Rel])
      | some ws =>
        obtain ⟨s, hs, hinv⟩ := hr
        simp only [step, sstep]
        exact ⟨_, List.mem_flatMap.mpr ⟨s, hs, by simp [wstep]⟩, inv_enq hinv b⟩
  | send script =>
    cases ms with
    | none =>
      cases ss with
      | some ws => exact absurd hr (by simp [Rel])
      | none => simp [step, sstep, Rel]
    | some st =>
      cases ss with
      | none => exact absurd hr (by simp [Rel])
      | some ws =>
        obtain ⟨s, hs, hinv⟩ := hr
        obtain ⟨s', hs', hinv'⟩ := inv_send hinv script
        simp only [step, sstep]
        exact ⟨s', List.mem_flatMap.mpr ⟨s, hs, hs'⟩, hinv'⟩
  | age =>
    cases ms with
    | none =>
      cases ss with
      | some ws => exact absurd hr (by simp [Rel])
      | none => simp [step, sstep, Rel]
    | some st =>
      cases ss with
      | none => exact absurd hr (by simp [Rel])
      | some ws =>
        obtain ⟨s, hs, hinv⟩ := hr
        simp only [step, sstep]
        exact ⟨_, List.mem_flatMap.mpr ⟨s, hs, by simp [wstep]⟩, inv_age hinv⟩
  | purge =>
    cases ms with
    | none =>
      cases ss with
      | some ws => exact absurd hr (by simp [Rel])
      | none => simp [step, sstep, Rel]
    | some st =>
      cases ss with
      | none => exact absurd hr (by simp [Rel])
      | some ws =>
        obtain ⟨s, hs, hinv⟩ := hr
        simp only [step, sstep]
        exact ⟨_, List.mem_flatMap.mpr ⟨s, hs, by simp [wstep]⟩, inv_purge hinv⟩
  | dump =>
    cases ms with
    | none =>
      cases ss with
      | some ws => exact absurd hr (by simp [Rel])
      | none => simp [step, sstep, Rel]
    | some st =>
      cases ss with
      | none => exact absurd hr (by simp [Rel])
      | some ws =>
        obtain ⟨s, hs, hinv⟩ := hr
        simp only [step, sstep]
        exact ⟨s, List.mem_flatMap.mpr ⟨s, hs, inv_dump hinv⟩, hinv⟩

theorem sim_trace (ops : List Op) : ∀ (ms : State) (ss : SpecState), Rel ms ss → (∀ op ∈ ops, ValidOp op) →
    ∃ ms', Rel ms' ((trace ms ops).foldl sstep ss) := by
  induction ops with
  | nil => intro ms ss hr _; exact ⟨ms, by simpa [trace] using hr⟩
  | cons op ops ih =>
    intro ms ss hr hv
    simp only [trace, List.foldl_cons]
    exact ih _ _ (sim_step ms ss op hr (hv op (by simp))) (fun o ho => hv o (by simp [ho]))


end Influx.Repl
