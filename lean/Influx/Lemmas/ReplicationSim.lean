/-
  Lemmas.ReplicationSim — the C27 model refines the statement checker
  `Spec.C27`: an invariant relating the model state to one checker state is
  preserved by every operation, and the model's answer is always accepted.
-/
import Influx.Lemmas.Replication
namespace Influx.Repl
open Influx.Spec.C27 Influx.Generated.Replication

abbrev r204 : Resp := { kind := 0, status := 204 }

/-- complete description of the scan loop (posted prefix, attempt counter, delay) -/
theorem sendLoop_full (drop : Bool) :
    ∀ (es : List Bytes) (script : List Resp) (failed : Nat) (posted : List Bytes),
      let res := sendLoop drop es script failed posted
      ∃ m, m ≤ es.length ∧ res.1 = posted ++ es.take m ∧
        (res.2.2 = none → m = es.length ∧ (es ≠ [] → res.2.1 = 0) ∧ (es = [] → res.2.1 = failed) ∧
            ∀ k, k < m → releases drop (script.getD k r204) = true) ∧
        (∀ w, res.2.2 = some w → m ≥ 1 ∧
            (∀ k, k < m - 1 → releases drop (script.getD k r204) = true) ∧
            releases drop (script.getD (m - 1) r204) = false ∧
            writeDecision drop (if m ≥ 2 then 0 else failed) (script.getD (m - 1) r204) = .fail w ∧
            res.2.1 = (if m ≥ 2 then 0 else failed) + 1) := by
  intro es
  induction es with
  | nil =>
    intro script failed posted
    exact ⟨0, by simp, by simp [sendLoop], by simp [sendLoop], by simp [sendLoop]⟩
  | cons e es ih =>
    intro script failed posted
    simp only [sendLoop]
    have hhd : script.headD r204 = script.getD 0 r204 := by cases script <;> rfl
    cases hd : writeDecision drop failed (script.headD r204) with
    | ok =>
      simp only []
      obtain ⟨m, hm, hpost, hnone, hsome⟩ := ih script.tail 0 (posted ++ [e])
      have hrel : releases drop (script.getD 0 r204) = true := by
        rw [← hhd]; exact (writeDecision_ok_iff _ _ _).mp hd
      have hget : ∀ k, script.getD (k + 1) r204 = script.tail.getD k r204 := by
        intro k; cases script <;> simp [List.getD]
      refine ⟨m + 1, by simp; omega, by rw [hpost]; simp, ?_, ?_⟩
      · intro h
        obtain ⟨h1, h2, h3, h4⟩ := hnone h
        refine ⟨by simp; omega, ?_, by simp, ?_⟩
        · intro _
          by_cases hes : es = []
          · exact h3 hes
          · exact h2 hes
        · intro k hk
          cases k with
          | zero => exact hrel
          | succ k => rw [hget]; exact h4 k (by omega)
      · intro w h
        obtain ⟨h1, h2, h3, h4, h5⟩ := hsome w h
        have hm1 : m + 1 - 1 = (m - 1) + 1 := by omega
        refine ⟨by omega, ?_, ?_, ?_, ?_⟩
        · intro k hk
          cases k with
          | zero => exact hrel
          | succ k => rw [hget]; exact h2 k (by omega)
        · rw [hm1, hget]; exact h3
        · rw [hm1, hget, if_pos (by omega)]
          by_cases hm2 : m ≥ 2
          · rw [if_pos hm2] at h4; exact h4
          · rw [if_neg hm2] at h4; exact h4
        · rw [if_pos (by omega)]
          by_cases hm2 : m ≥ 2
          · rw [if_pos hm2] at h5; exact h5
          · rw [if_neg hm2] at h5; exact h5
    | fail w =>
      simp only []
      refine ⟨1, by simp, by simp, by simp, ?_⟩
      intro w' hw'
      have hww : w = w' := by simpa using hw'
      subst hww
      refine ⟨by omega, by intro k hk; omega, ?_, ?_, by simp⟩
      · simp only [Nat.sub_self]
        rw [← hhd]
        cases hr : releases drop (script.headD r204) with
        | false => rfl
        | true => rw [(writeDecision_ok_iff _ failed _).mpr hr] at hd; cases hd
      · simp only [Nat.sub_self]
        rw [← hhd, if_neg (by omega)]; exact hd

theorem wrapI64_small (i : Int) (h0 : 0 ≤ i) (h1 : i < 2^63) : wrapI64 i = i := by
  unfold wrapI64; omega

theorem delayOk_of_fail (drop : Bool) (f : Nat) (r : Resp) (w : Int)
    (h : writeDecision drop f r = .fail w) : delayOk f r w = true := by
  have hb := backoff_eq_doc f
  have hb1 := backoff_eq_doc 1
  unfold writeDecision at h
  unfold delayOk
  by_cases hk : r.kind = 0
  · rw [if_neg (by simp [hk])] at h
    by_cases h204 : r.status = 204
    · simp [h204] at h
    rw [if_neg h204] at h
    by_cases h400 : r.status = 400 ∧ drop
    · simp [h400] at h
    rw [if_neg h400] at h
    by_cases h429 : r.status = 429
    · rw [if_pos h429] at h
      simp only [hk, h429, beq_self_eq_true, Bool.and_self, if_true]
      cases hra : r.retryAfter with
      | none =>
        simp only [hra, waitFromHeader] at h
        simp at h; simp [← h, hb]
      | some s =>
        simp only [hra, waitFromHeader] at h
        by_cases hs0 : s = "0"
        · subst hs0
          have hb10 : backoff 1 ≠ 0 := by decide
          simp [hb10] at h
          simp [← h, hb1]
        · have hs0' : (s == "0") = false := by simp [hs0]
          simp only [hs0', Bool.false_eq_true, if_false]
          by_cases hse : s = ""
          · subst hse
            simp at h
            have : atoi "" = none := by decide
            simp [this, ← h, hb]
          · rw [if_neg hse, if_neg hs0] at h
            cases hat : atoi s with
            | none => simp [hat] at h; simp [← h, hb]
            | some n =>
              simp only [hat] at h
              by_cases hn : n > 0
              · simp only [hn, if_true]
                by_cases hn9 : n ≤ 9000000000
                · simp only [hn9, if_true]
                  have hw : wrapI64 (n * 1000000000) = n * 1000000000 :=
                    wrapI64_small _ (by omega) (by omega)
                  rw [hw] at h
                  have : n * 1000000000 ≠ 0 := by omega
                  simp [this] at h
                  simp [← h]
                · simp [hn9]
              · simp only [hn, if_false]
                by_cases hn0 : n = 0
                · subst hn0
                  simp [wrapI64] at h
                  simp [← h, hb]
                · have : (n == 0) = false := by simp [hn0]
                  simp [this]
    · rw [if_neg h429] at h
      have : (r.kind == 0 && r.status == 429) = false := by simp [h429]
      simp only [this, Bool.false_eq_true, if_false]
      simp at h; simp [← h, hb]
  · rw [if_pos hk] at h
    have : (r.kind == 0 && r.status == 429) = false := by simp [hk]
    simp only [this, Bool.false_eq_true, if_false]
    simp at h; simp [← h, hb]


def entries (segs : List ASeg) : List Bytes := segs.flatMap ASeg.rest

@[simp] theorem entries_nil : entries [] = [] := rfl
@[simp] theorem entries_cons (h : ASeg) (t : List ASeg) : entries (h :: t) = h.rest ++ entries t := by
  simp [entries]
theorem entries_append (a b : List ASeg) : entries (a ++ b) = entries a ++ entries b := by
  simp [entries]

theorem remaining_eq (st : St) : st.remaining = entries st.segs := rfl

/-- entries of an old segment (and of everything before it) were enqueued before the last `age` -/
def OldOk : Nat → List ASeg → Nat → Prop
  | _, [], _ => True
  | g, h :: t, p => (h.old = true → g + h.rest.length ≤ p) ∧ OldOk (g + h.rest.length) t p

/-- shape of the segment list: never empty; only the head may be empty, and then it
    is the only segment and still takes the next entry -/
structure SegsOk (segs : List ASeg) (maxSeg : Nat) : Prop where
  ne : segs ≠ []
  tailNonempty : ∀ h t, segs = h :: t → ∀ x ∈ t, x.rest ≠ []
  headEmpty : ∀ h t, segs = h :: t → h.rest = [] → t = [] ∧ h.size ≤ h.maxSize
  maxSeg8 : 8 ≤ maxSeg

/-- the simulation invariant between a model state and a checker state -/
structure Inv (st : St) (s : SS) : Prop where
  split : ∃ pre, s.enq = pre ++ entries st.segs ∧ s.goneOk pre.length = true ∧
            pre.length ≤ max s.posted s.mayPurged ∧ OldOk pre.length st.segs s.purgeable
  fails : s.fails = st.failed
  drop : s.drop = st.drop
  accLen : s.acc.length = s.enq.length
  segs : SegsOk st.segs st.maxSeg

theorem goneOk_iff (s : SS) (g : Nat) :
    s.goneOk g = true ↔ ∀ i, i < g → (s.acc.getD i false = true ∨ i < s.mayPurged) := by
  simp [SS.goneOk, List.all_eq_true]


theorem OldOk_append (a b : List ASeg) (g p : Nat) :
    OldOk g (a ++ b) p ↔ OldOk g a p ∧ OldOk (g + (entries a).length) b p := by
  induction a generalizing g with
  | nil => simp [OldOk]
  | cons h t ih =>
    simp only [List.cons_append, OldOk, ih, entries_cons, List.length_append]
    constructor
    · rintro ⟨h1, h2, h3⟩; exact ⟨⟨h1, h2⟩, by rw [← Nat.add_assoc]; exact h3⟩
    · rintro ⟨⟨h1, h2⟩, h3⟩; exact ⟨h1, h2, by rw [Nat.add_assoc]; exact h3⟩

theorem split_last {α} : ∀ (l : List α) (t : α), l.getLast? = some t → l = l.dropLast ++ [t]
  | [], _, h => by simp at h
  | [a], t, h => by simp at h; simp [h]
  | a :: b :: l, t, h => by
    have := split_last (b :: l) t (by simpa using h)
    simp only [List.dropLast_cons_cons, List.cons_append]
    rw [← this]

theorem goneOk_mono {s s' : SS} {g : Nat} (h : s.goneOk g = true)
    (hacc : ∀ i, s.acc.getD i false = true → s'.acc.getD i false = true)
    (hp : s.mayPurged ≤ s'.mayPurged) : s'.goneOk g = true := by
  rw [goneOk_iff] at h ⊢
  intro i hi
  rcases h i hi with h1 | h1
  · exact Or.inl (hacc i h1)
  · exact Or.inr (by omega)

theorem getD_append_false (acc : List Bool) (i : Nat) (h : acc.getD i false = true) :
    (acc ++ [false]).getD i false = true := by
  by_cases hi : i < acc.length
  · simp [List.getD, List.getElem?_append_left hi] at h ⊢; exact h
  · simp [List.getD, List.getElem?_eq_none (by omega : acc.length ≤ i)] at h

theorem inv_enq {st : St} {s : SS} (h : Inv st s) (b : Bytes) :
    Inv (st.enq b) { s with enq := s.enq ++ [b], acc := s.acc ++ [false] } := by
  obtain ⟨pre, henq, hgone, hle, hold⟩ := h.split
  have hne := h.segs.ne
  obtain ⟨t, ht⟩ : ∃ t, st.segs.getLast? = some t := by
    cases hs : st.segs.getLast? with
    | none => exact absurd (List.getLast?_eq_none_iff.mp hs) hne
    | some t => exact ⟨t, rfl⟩
  have hsplit := split_last _ _ ht
  generalize hinit : st.segs.dropLast = ini at hsplit
  have hold' := hold
  rw [hsplit, OldOk_append] at hold'
  -- the two shapes of the new segment list
  have key : ∃ t', t'.rest ≠ [] ∧ t'.old = false ∧
      ((st.enq b).segs = ini ++ [t'] ∧ t'.rest = t.rest ++ [b] ∨
       (st.enq b).segs = ini ++ [t, t'] ∧ t'.rest = [b] ∧ t.size > t.maxSize) ∧
      (st.enq b).maxSeg = st.maxSeg ∧ (st.enq b).failed = st.failed ∧ (st.enq b).drop = st.drop := by
    unfold St.enq
    rw [ht]
    by_cases hfull : t.size > t.maxSize
    · refine ⟨(freshSeg st.maxSeg).put b, by simp [ASeg.put], rfl, Or.inr ⟨?_, by simp [ASeg.put, freshSeg], hfull⟩, ?_⟩
      · simp only [if_pos hfull]; rw [hsplit]; simp
      · simp [if_pos hfull]
    · refine ⟨t.put b, by simp [ASeg.put], rfl, Or.inl ⟨?_, rfl⟩, ?_⟩
      · simp only [if_neg hfull, hinit]
      · simp [if_neg hfull]
  obtain ⟨t', hne', hold_t', hshape, hms, hf, hd⟩ := key
  have hent : entries (st.enq b).segs = entries st.segs ++ [b] := by
    rcases hshape with ⟨hs, hr⟩ | ⟨hs, hr, _⟩
    · rw [hs, hsplit, entries_append, entries_append]; simp [hr]
    · rw [hs, hsplit, entries_append, entries_append]; simp [hr]
  refine ⟨⟨pre, ?_, ?_, hle, ?_⟩, by simp [h.fails, hf], by simp [h.drop, hd], by simp [h.accLen], ?_⟩
  · simp [henq, hent]
  · exact goneOk_mono hgone (fun i hi => getD_append_false _ i hi) (Nat.le_refl _)
  · rcases hshape with ⟨hs, hr⟩ | ⟨hs, hr, _⟩
    · rw [hs, OldOk_append]
      exact ⟨hold'.1, by simp [OldOk, hold_t']⟩
    · rw [hs, show ini ++ [t, t'] = (ini ++ [t]) ++ [t'] by simp, OldOk_append, ← hsplit]
      exact ⟨hold, by simp [OldOk, hold_t']⟩
  · have hso := h.segs
    rw [hms]
    rcases hshape with ⟨hs, hr⟩ | ⟨hs, hr, hfull⟩
    · rw [hs]
      refine ⟨by simp, ?_, ?_, hso.maxSeg8⟩
      · intro h0 t0 heq x hx
        cases ini with
        | nil => simp at heq; rw [heq.2] at hx; cases hx
        | cons i0 irest =>
          simp at heq
          rw [← heq.2] at hx
          rcases List.mem_append.mp hx with hx | hx
          · exact hso.tailNonempty i0 (irest ++ [t]) (by rw [hsplit]; simp) x (by simp [hx])
          · simp at hx; rw [hx]; exact hne'
      · intro h0 t0 heq h0e
        cases ini with
        | nil => simp at heq; rw [← heq.1] at h0e; exact absurd h0e hne'
        | cons i0 irest =>
          simp at heq
          have := hso.headEmpty i0 (irest ++ [t]) (by rw [hsplit]; simp) (by rw [heq.1]; exact h0e)
          simp at this
    · rw [hs]
      refine ⟨by simp, ?_, ?_, hso.maxSeg8⟩
      · intro h0 t0 heq x hx
        cases ini with
        | nil =>
          simp at heq; rw [← heq.2] at hx; simp at hx; rw [hx]; exact hne'
        | cons i0 irest =>
          simp at heq
          rw [← heq.2] at hx
          rcases List.mem_append.mp hx with hx | hx
          · exact hso.tailNonempty i0 (irest ++ [t]) (by rw [hsplit]; simp) x (by simp [hx])
          · simp at hx
            rcases hx with hx | hx
            · rw [hx]; exact hso.tailNonempty i0 (irest ++ [t]) (by rw [hsplit]; simp) t (by simp)
            · rw [hx]; exact hne'
      · intro h0 t0 heq h0e
        cases ini with
        | nil =>
          simp at heq
          have := hso.headEmpty t [] (by rw [hsplit]; rfl) (by rw [heq.1]; exact h0e)
          omega
        | cons i0 irest =>
          simp at heq
          have := hso.headEmpty i0 (irest ++ [t]) (by rw [hsplit]; simp) (by rw [heq.1]; exact h0e)
          simp at this



theorem entries_map_old (segs : List ASeg) :
    entries (segs.map fun s => { s with old := true }) = entries segs := by
  induction segs with
  | nil => rfl
  | cons h t ih => simp [ih]

theorem OldOk_all (segs : List ASeg) (g : Nat) (p : Nat) (h : g + (entries segs).length ≤ p) :
    OldOk g segs p := by
  induction segs generalizing g with
  | nil => trivial
  | cons a t ih =>
    simp only [entries_cons, List.length_append] at h
    exact ⟨fun _ => by omega, ih _ (by omega)⟩

theorem inv_age {st : St} {s : SS} (h : Inv st s) :
    Inv st.age { s with purgeable := s.enq.length } := by
  obtain ⟨pre, henq, hgone, hle, hold⟩ := h.split
  have hso := h.segs
  refine ⟨⟨pre, ?_, hgone, hle, ?_⟩, h.fails, h.drop, h.accLen, ?_⟩
  · simp [St.age, entries_map_old, henq]
  · apply OldOk_all
    simp [St.age, entries_map_old, henq]
  · simp only [St.age]
    refine ⟨by simp [hso.ne], ?_, ?_, hso.maxSeg8⟩
    · intro h0 t0 heq x hx
      cases hs : st.segs with
      | nil => exact absurd hs hso.ne
      | cons a t =>
        rw [hs] at heq; simp at heq
        rw [← heq.2] at hx
        obtain ⟨y, hy, rfl⟩ := List.mem_map.mp hx
        exact hso.tailNonempty a t hs y hy
    · intro h0 t0 heq h0e
      cases hs : st.segs with
      | nil => exact absurd hs hso.ne
      | cons a t =>
        rw [hs] at heq; simp at heq
        have := hso.headEmpty a t hs (by rw [← heq.1] at h0e; exact h0e)
        rw [← heq.2, ← heq.1]
        simp [this.1, this.2]

theorem inv_dump {st : St} {s : SS} (h : Inv st s) :
    s ∈ wstep s .dump (.dumped st.remaining) := by
  obtain ⟨pre, henq, hgone, hle, hold⟩ := h.split
  have hlen : s.enq.length - st.remaining.length = pre.length := by
    simp [henq, remaining_eq]
  simp only [wstep]
  rw [if_pos]
  · simp
  · refine ⟨by simp [henq, remaining_eq], ?_, by rw [hlen]; exact hgone⟩
    rw [hlen, henq, remaining_eq]; simp


theorem segsOk_fresh (ms : Nat) (h8 : 8 ≤ ms) : SegsOk [freshSeg ms] ms := by
  refine ⟨by simp, ?_, ?_, h8⟩
  · intro h0 t0 heq x hx; simp at heq; rw [heq.2] at hx; cases hx
  · intro h0 t0 heq _; simp at heq; rw [← heq.1]; exact ⟨heq.2, by simp [freshSeg]; exact h8⟩

theorem segsOk_tail {a b : ASeg} {t : List ASeg} {ms : Nat} (h : SegsOk (a :: b :: t) ms) :
    SegsOk (b :: t) ms := by
  refine ⟨by simp, ?_, ?_, h.maxSeg8⟩
  · intro h0 t0 heq x hx
    simp at heq; rw [← heq.2] at hx
    exact h.tailNonempty a (b :: t) rfl x (by simp [hx])
  · intro h0 t0 heq h0e
    simp at heq
    exact absurd (by rw [heq.1]; exact h0e) (h.tailNonempty a (b :: t) rfl b (by simp))

theorem purgeSegs_spec (ms : Nat) :
    ∀ (fuel : Nat) (segs : List ASeg) (g p : Nat), fuel > segs.length → SegsOk segs ms → OldOk g segs p →
      ∃ d, d ≤ (entries segs).length ∧
        entries (purgeSegs ms fuel segs) = (entries segs).drop d ∧
        (g + d ≤ max g p) ∧ OldOk (g + d) (purgeSegs ms fuel segs) p ∧
        SegsOk (purgeSegs ms fuel segs) ms := by
  intro fuel
  induction fuel with
  | zero => intro segs g p hf; omega
  | succ fuel ih =>
    intro segs g p hf hso hold
    cases segs with
    | nil => exact absurd rfl hso.ne
    | cons a t =>
      simp only [purgeSegs]
      by_cases hao : a.old = true
      · rw [if_pos hao]
        have ha := hold.1 hao
        cases t with
        | nil =>
          refine ⟨a.rest.length, by simp, by simp [freshSeg], by omega, ?_, segsOk_fresh ms hso.maxSeg8⟩
          simp [OldOk, freshSeg]
        | cons b t' =>
          simp only []
          obtain ⟨d, hd, hent, hle, hold', hso'⟩ :=
            ih (b :: t') (g + a.rest.length) p (by simp at hf ⊢; omega) (segsOk_tail hso) hold.2
          refine ⟨a.rest.length + d, by simp at hd ⊢; omega, ?_, by omega, ?_, hso'⟩
          · rw [hent]; simp [List.drop_append]
          · rw [← Nat.add_assoc]; exact hold'
      · rw [if_neg hao]
        exact ⟨0, by simp, by simp, by omega, by simpa using hold, hso⟩

theorem inv_purge {st : St} {s : SS} (h : Inv st s) :
    Inv st.purge { s with mayPurged := max s.mayPurged s.purgeable } := by
  obtain ⟨pre, henq, hgone, hle, hold⟩ := h.split
  have hmono : ({ s with mayPurged := max s.mayPurged s.purgeable } : SS).goneOk pre.length = true :=
    goneOk_mono hgone (fun i hi => hi) (by simp; omega)
  unfold St.purge
  by_cases hma : st.maxAge = 0
  · rw [if_pos hma]
    exact ⟨⟨pre, henq, hmono, by simp; omega, hold⟩, h.fails, h.drop, h.accLen, h.segs⟩
  · rw [if_neg hma]
    obtain ⟨d, hd, hent, hle', hold', hso'⟩ :=
      purgeSegs_spec st.maxSeg (st.segs.length + 1) st.segs pre.length s.purgeable (by omega) h.segs hold
    refine ⟨⟨pre ++ (entries st.segs).take d, ?_, ?_, ?_, ?_⟩, h.fails, h.drop, h.accLen, hso'⟩
    · simp only [hent, henq, List.append_assoc, List.take_append_drop]
    · rw [goneOk_iff]
      intro i hi
      by_cases hip : i < pre.length
      · exact (goneOk_iff _ _).mp hmono i hip
      · right
        simp only [List.length_append, List.length_take] at hi
        show i < max s.mayPurged s.purgeable
        omega
    · simp only [List.length_append, List.length_take]
      show pre.length + min d (entries st.segs).length ≤ max s.posted (max s.mayPurged s.purgeable)
      omega
    · simp only [List.length_append, List.length_take]
      rw [Nat.min_eq_left hd]
      exact hold'


end Influx.Repl
