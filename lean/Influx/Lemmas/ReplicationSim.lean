/-
  Lemmas.ReplicationSim — the C27 model refines the statement checker
  `Spec.C27`: an invariant relating the model state to one checker state is
  preserved by every operation, and the model's answer is always accepted.
-/
import Influx.Lemmas.Replication
namespace Influx.Repl
open Influx.Spec.C27 Influx.Generated.Replication

abbrev r204 : Resp := { kind := 0, status := 204 }

/-- complete description of the scan loop (posted prefix, attempt counter, delay) -/
theorem sendLoop_full (drop : Bool) :
    ∀ (es : List Bytes) (script : List Resp) (failed : Nat) (posted : List Bytes),
      let res := sendLoop drop es script failed posted
      ∃ m, m ≤ es.length ∧ res.1 = posted ++ es.take m ∧
        (res.2.2 = none → m = es.length ∧ (es ≠ [] → res.2.1 = 0) ∧ (es = [] → res.2.1 = failed) ∧
            ∀ k, k < m → releases drop (script.getD k r204) = true) ∧
        (∀ w, res.2.2 = some w → m ≥ 1 ∧
            (∀ k, k < m - 1 → releases drop (script.getD k r204) = true) ∧
            releases drop (script.getD (m - 1) r204) = false ∧
            writeDecision drop (if m ≥ 2 then 0 else failed) (script.getD (m - 1) r204) = .fail w ∧
            res.2.1 = (if m ≥ 2 then 0 else failed) + 1) := by
  intro es
  induction es with
  | nil =>
    intro script failed posted
    exact ⟨0, by simp, by simp [sendLoop], by simp [sendLoop], by simp [sendLoop]⟩
  | cons e es ih =>
    intro script failed posted
    simp only [sendLoop]
    have hhd : script.headD r204 = script.getD 0 r204 := by cases script <;> rfl
    cases hd : writeDecision drop failed (script.headD r204) with
    | ok =>
      simp only []
      obtain ⟨m, hm, hpost, hnone, hsome⟩ := ih script.tail 0 (posted ++ [e])
      have hrel : releases drop (script.getD 0 r204) = true := by
        rw [← hhd]; exact (writeDecision_ok_iff _ _ _).mp hd
      have hget : ∀ k, script.getD (k + 1) r204 = script.tail.getD k r204 := by
        intro k; cases script <;> simp [List.getD]
      refine ⟨m + 1, by simp; omega, by rw [hpost]; simp, ?_, ?_⟩
      · intro h
        obtain ⟨h1, h2, h3, h4⟩ := hnone h
        refine ⟨by simp; omega, ?_, by simp, ?_⟩
        · intro _
          by_cases hes : es = []
          · exact h3 hes
          · exact h2 hes
        · intro k hk
          cases k with
          | zero => exact hrel
          | succ k => rw [hget]; exact h4 k (by omega)
      · intro w h
        obtain ⟨h1, h2, h3, h4, h5⟩ := hsome w h
        have hm1 : m + 1 - 1 = (m - 1) + 1 := by omega
        refine ⟨by omega, ?_, ?_, ?_, ?_⟩
        · intro k hk
          cases k with
          | zero => exact hrel
          | succ k => rw [hget]; exact h2 k (by omega)
        · rw [hm1, hget]; exact h3
        · rw [hm1, hget, if_pos (by omega)]
          by_cases hm2 : m ≥ 2
          · rw [if_pos hm2] at h4; exact h4
          · rw [if_neg hm2] at h4; exact h4
        · rw [if_pos (by omega)]
          by_cases hm2 : m ≥ 2
          · rw [if_pos hm2] at h5; exact h5
          · rw [if_neg hm2] at h5; exact h5
    | fail w =>
      simp only []
      refine ⟨1, by simp, by simp, by simp, ?_⟩
      intro w' hw'
      have hww : w = w' := by simpa using hw'
      subst hww
      refine ⟨by omega, by intro k hk; omega, ?_, ?_, by simp⟩
      · simp only [Nat.sub_self]
        rw [← hhd]
        cases hr : releases drop (script.headD r204) with
        | false => rfl
        | true => rw [(writeDecision_ok_iff _ failed _).mpr hr] at hd; cases hd
      · simp only [Nat.sub_self]
        rw [← hhd, if_neg (by omega)]; exact hd

theorem wrapI64_small (i : Int) (h0 : 0 ≤ i) (h1 : i < 2^63) : wrapI64 i = i := by
  unfold wrapI64; omega

theorem delayOk_of_fail (drop : Bool) (f : Nat) (r : Resp) (w : Int)
    (h : writeDecision drop f r = .fail w) : delayOk f r w = true := by
  have hb := backoff_eq_doc f
  have hb1 := backoff_eq_doc 1
  unfold writeDecision at h
  unfold delayOk
  by_cases hk : r.kind = 0
  · rw [if_neg (by simp [hk])] at h
    by_cases h204 : r.status = 204
    · simp [h204] at h
    rw [if_neg h204] at h
    by_cases h400 : r.status = 400 ∧ drop
    · simp [h400] at h
    rw [if_neg h400] at h
    by_cases h429 : r.status = 429
    · rw [if_pos h429] at h
      simp only [hk, h429, beq_self_eq_true, Bool.and_self, if_true]
      cases hra : r.retryAfter with
      | none =>
        simp only [hra, waitFromHeader] at h
        simp at h; simp [← h, hb]
      | some s =>
        simp only [hra, waitFromHeader] at h
        by_cases hs0 : s = "0"
        · subst hs0
          have hb10 : backoff 1 ≠ 0 := by decide
          simp [hb10] at h
          simp [← h, hb1]
        · have hs0' : (s == "0") = false := by simp [hs0]
          simp only [hs0', Bool.false_eq_true, if_false]
          by_cases hse : s = ""
          · subst hse
            simp at h
            have : atoi "" = none := by decide
            simp [this, ← h, hb]
          · rw [if_neg hse, if_neg hs0] at h
            cases hat : atoi s with
            | none => simp [hat] at h; simp [← h, hb]
            | some n =>
              simp only [hat] at h
              by_cases hn : n > 0
              · simp only [hn, if_true]
                by_cases hn9 : n ≤ 9000000000
                · simp only [hn9, if_true]
                  have hw : wrapI64 (n * 1000000000) = n * 1000000000 :=
                    wrapI64_small _ (by omega) (by omega)
                  rw [hw] at h
                  have : n * 1000000000 ≠ 0 := by omega
                  simp [this] at h
                  simp [← h]
                · simp [hn9]
              · simp only [hn, if_false]
                by_cases hn0 : n = 0
                · subst hn0
                  simp [wrapI64] at h
                  simp [← h, hb]
                · have : (n == 0) = false := by simp [hn0]
                  simp [this]
    · rw [if_neg h429] at h
      have : (r.kind == 0 && r.status == 429) = false := by simp [h429]
      simp only [this, Bool.false_eq_true, if_false]
      simp at h; simp [← h, hb]
  · rw [if_pos hk] at h
    have : (r.kind == 0 && r.status == 429) = false := by simp [hk]
    simp only [this, Bool.false_eq_true, if_false]
    simp at h; simp [← h, hb]

end Influx.Repl
