/-
  Lemmas.TsmRoundtrip — byte-level round trip of the index section and of the whole
  file: `parseFile (serialise crc kbs) = ok (layout 5 kbs)`, and every block is read
  back through its index entry.
-/
import Influx.Model.TsmFile
import Influx.Lemmas.TsmBytes

namespace Influx.Tsm
open Influx.Generated.TsmLayout

theorem pow8 : (256 : Nat) ^ 8 = 18446744073709551616 := by decide
theorem pow4 : (256 : Nat) ^ 4 = 4294967296 := by decide
theorem pow2 : (256 : Nat) ^ 2 = 65536 := by decide

structure WFEntry (e : IndexEntry) : Prop where
  minT : inInt64 e.MinTime
  maxT : inInt64 e.MaxTime
  off : inInt64 e.Offset
  size : e.Size < 4294967296

theorem unbe_take_u64 (t : Int) (rest : Bytes) : unbe ((be 8 (u64 t) ++ rest).take 8) = u64 t :=
  unbe_take_be 8 _ rest (by rw [pow8]; exact u64_lt t)

@[simp] theorem encEntry_length (e : IndexEntry) : (encEntry e).length = 28 := by simp [encEntry]

theorem decEntry_enc (e : IndexEntry) (h : WFEntry e) (rest : Bytes) :
    decEntry (encEntry e ++ rest) = e := by
  unfold decEntry encEntry
  simp only [List.append_assoc]
  have d16 : ∀ l : Bytes, l.drop 16 = (l.drop 8).drop 8 := by intro l; simp [List.drop_drop]
  have d24 : ∀ l : Bytes, l.drop 24 = ((l.drop 8).drop 8).drop 8 := by intro l; simp [List.drop_drop]
  rw [d16, d24]
  simp only [drop_be, unbe_take_u64]
  rw [unbe_take_be 4 e.Size rest (by rw [pow4]; exact h.size)]
  rw [i64_u64 _ h.minT, i64_u64 _ h.maxT, i64_u64 _ h.off]

theorem decEntries_enc (es : List IndexEntry) (h : ∀ e ∈ es, WFEntry e) (rest : Bytes) :
    decEntries es.length (es.flatMap encEntry ++ rest) = some (es, rest) := by
  induction es with
  | nil => simp [decEntries]
  | cons e es ih =>
    simp only [List.length_cons, List.flatMap_cons, List.append_assoc, decEntries]
    have hl : ¬ (encEntry e ++ (es.flatMap encEntry ++ rest)).length < indexEntrySize := by
      simp [indexEntrySize]
    rw [if_neg hl]
    have hd : (encEntry e ++ (es.flatMap encEntry ++ rest)).drop indexEntrySize = es.flatMap encEntry ++ rest := by
      rw [List.drop_append_of_le_length (by simp [indexEntrySize])]
      rw [List.drop_of_length_le (by simp [indexEntrySize])]; simp
    rw [hd, ih (fun e he => h e (List.mem_cons_of_mem _ he))]
    simp only
    rw [decEntry_enc e (h e List.mem_cons_self)]

structure WFKeyEntry (ke : KeyEntry) : Prop where
  klen : ke.key.length < 65536
  pos : 0 < ke.entries.length
  cnt : ke.entries.length < 65536
  ents : ∀ e ∈ ke.entries, WFEntry e

theorem encKeyEntry_length_pos (ke : KeyEntry) : 0 < (encKeyEntry ke).length := by
  simp [encKeyEntry]; omega

theorem decKeyEntry_enc (ke : KeyEntry) (h : WFKeyEntry ke) (rest : Bytes) :
    decKeyEntry (encKeyEntry ke ++ rest) = some (ke, rest) := by
  obtain ⟨key, typ, es⟩ := ke
  have hk := h.klen; have hp := h.pos; have hc := h.cnt; have he := h.ents
  simp only at hk hp hc he
  unfold decKeyEntry encKeyEntry
  simp only [List.append_assoc, List.cons_append, List.nil_append]
  have l1 : ¬ (be 2 key.length ++ (key ++ typ :: (be 2 es.length ++ (es.flatMap encEntry ++ rest)))).length < 2 := by
    simp
  rw [if_neg l1]
  simp only [drop_be]
  rw [unbe_take_be 2 key.length _ (by rw [pow2]; exact hk)]
  have l2 : ¬ (key ++ typ :: (be 2 es.length ++ (es.flatMap encEntry ++ rest))).length < key.length + indexTypeSize + indexCountSize := by
    simp [indexTypeSize, indexCountSize]; omega
  rw [if_neg l2]
  simp only [List.take_left', List.drop_left']
  rw [unbe_take_be 2 es.length _ (by rw [pow2]; exact hc)]
  have l3 : ¬ es.length = 0 := by omega
  rw [if_neg l3, drop_be, decEntries_enc es he rest]

theorem decIndex_enc (kes : List KeyEntry) (h : ∀ ke ∈ kes, WFKeyEntry ke) (fuel : Nat)
    (hf : kes.length < fuel) : decIndex fuel (kes.flatMap encKeyEntry) = some kes := by
  induction kes generalizing fuel with
  | nil =>
    cases fuel with
    | zero => omega
    | succ f => simp [decIndex]
  | cons ke kes ih =>
    cases fuel with
    | zero => omega
    | succ f =>
      simp only [decIndex, List.flatMap_cons]
      have hne : (encKeyEntry ke ++ kes.flatMap encKeyEntry).isEmpty = false := by
        have := encKeyEntry_length_pos ke
        cases hh : encKeyEntry ke with
        | nil => simp [hh] at this
        | cons a l => simp
      rw [hne]
      simp only [Bool.false_eq_true, if_false]
      rw [decKeyEntry_enc ke (h ke List.mem_cons_self)]
      simp only
      rw [ih (fun k hk => h k (List.mem_cons_of_mem _ hk)) f (by simp at hf; omega)]

theorem flatMap_length_ge (kes : List KeyEntry) : kes.length ≤ (kes.flatMap encKeyEntry).length := by
  induction kes with
  | nil => simp
  | cons ke kes ih =>
    have := encKeyEntry_length_pos ke
    simp only [List.flatMap_cons, List.length_append, List.length_cons]; omega

/-! ### the whole file -/

def WFBlk (b : Blk) : Prop := inInt64 b.minT ∧ inInt64 b.maxT ∧ 4 + b.data.length < 4294967296

structure WFKB (kb : Key × List Blk) : Prop where
  klen : kb.1.length < 65536
  pos : 0 < kb.2.length
  cnt : kb.2.length < 65536
  blks : ∀ b ∈ kb.2, WFBlk b

def totalBlocks (kbs : List (Key × List Blk)) : Nat := (kbs.map fun kb => blocksLen kb.2).sum

/-- what the format can hold: at least one key, key lengths and entry counts in 16
    bits, times in int64, block sizes in 32 bits, file positions in int64 -/
structure WFFile (kbs : List (Key × List Blk)) : Prop where
  ne : kbs ≠ []
  kb : ∀ kb ∈ kbs, WFKB kb
  size : 5 + totalBlocks kbs < 9223372036854775808

theorem layoutBlocks_length (pos : Nat) (bs : List Blk) : (layoutBlocks pos bs).length = bs.length := by
  induction bs generalizing pos with
  | nil => rfl
  | cons b bs ih => simp [layoutBlocks, ih]

theorem layoutBlocks_wf (pos : Nat) (bs : List Blk) (hb : ∀ b ∈ bs, WFBlk b)
    (hs : pos + blocksLen bs < 9223372036854775808) : ∀ e ∈ layoutBlocks pos bs, WFEntry e := by
  induction bs generalizing pos with
  | nil => intro e he; simp [layoutBlocks] at he
  | cons b bs ih =>
    intro e he
    simp only [layoutBlocks, List.mem_cons] at he
    have hb0 := hb b List.mem_cons_self
    simp only [blocksLen, List.map_cons, List.sum_cons] at hs
    rcases he with rfl | he
    · exact ⟨hb0.1, hb0.2.1, by unfold inInt64 minInt64 maxInt64; simp only; omega, hb0.2.2⟩
    · exact ih (pos + 4 + b.data.length) (fun b hb' => hb b (List.mem_cons_of_mem _ hb'))
        (by simp only [blocksLen]; omega) e he

theorem layout_wf (pos : Nat) (kbs : List (Key × List Blk)) (h : ∀ kb ∈ kbs, WFKB kb)
    (hs : pos + totalBlocks kbs < 9223372036854775808) : ∀ ke ∈ layout pos kbs, WFKeyEntry ke := by
  induction kbs generalizing pos with
  | nil => intro ke hke; simp [layout] at hke
  | cons kb kbs ih =>
    obtain ⟨k, bs⟩ := kb
    intro ke hke
    simp only [layout, List.mem_cons] at hke
    simp only [totalBlocks, List.map_cons, List.sum_cons] at hs
    have hkb := h (k, bs) List.mem_cons_self
    rcases hke with rfl | hke
    · exact ⟨hkb.klen, by simpa [layoutBlocks_length] using hkb.pos, by simpa [layoutBlocks_length] using hkb.cnt,
        layoutBlocks_wf pos bs hkb.blks (by omega)⟩
    · exact ih (pos + blocksLen bs) (fun kb hkb' => h kb (List.mem_cons_of_mem _ hkb'))
        (by simp only [totalBlocks]; omega) ke hke

theorem encBlocks_length (crc : Bytes → Nat) (bs : List Blk) : (encBlocks crc bs).length = blocksLen bs := by
  induction bs with
  | nil => rfl
  | cons b bs ih =>
    simp only [encBlocks, List.flatMap_cons, List.length_append, be_length, blocksLen, List.map_cons, List.sum_cons] at ih ⊢
    omega

theorem allBlocks_length (crc : Bytes → Nat) (kbs : List (Key × List Blk)) :
    (kbs.flatMap fun kb => encBlocks crc kb.2).length = totalBlocks kbs := by
  induction kbs with
  | nil => rfl
  | cons kb kbs ih =>
    simp only [List.flatMap_cons, List.length_append, encBlocks_length, totalBlocks, List.map_cons, List.sum_cons] at ih ⊢
    omega

theorem header_eq : header = [22, 209, 22, 209, 1] := by decide

theorem layout_length (pos : Nat) (kbs : List (Key × List Blk)) : (layout pos kbs).length = kbs.length := by
  induction kbs generalizing pos with
  | nil => rfl
  | cons kb kbs ih => obtain ⟨k, bs⟩ := kb; simp [layout, ih]

/-- **Round trip of the file**: the index section of the serialised file parses back to
    exactly the keys, types and index entries that were laid out. -/
theorem parseFile_serialise (crc : Bytes → Nat) (kbs : List (Key × List Blk)) (h : WFFile kbs) :
    parseFile (serialise crc kbs) = .ok (layout 5 kbs) := by
  have hlen : header.length = 5 := by rw [header_eq]; rfl
  -- name the three variable parts
  generalize hB : (kbs.flatMap fun kb => encBlocks crc kb.2) = B
  have hBl : B.length = totalBlocks kbs := by rw [← hB]; exact allBlocks_length crc kbs
  have hwf := layout_wf 5 kbs h.kb h.size
  generalize hI : (layout 5 kbs).flatMap encKeyEntry = I at *
  have hIpos : 0 < I.length := by
    have := flatMap_length_ge (layout 5 kbs)
    rw [hI, layout_length] at this
    have : 0 < kbs.length := List.length_pos_iff.mpr h.ne
    omega
  have hser : serialise crc kbs = [22, 209, 22, 209, 1] ++ B ++ I ++ be 8 (5 + B.length) := by
    have : serialise crc kbs = header ++ B ++ I ++ be 8 (5 + B.length) := by
      simp only [serialise, hB, hlen, hI]
    rw [this, header_eq]
  rw [hser]
  unfold parseFile
  have hsz := h.size
  simp only [List.length_append, List.length_cons, List.length_nil, be_length]
  rw [if_neg (by omega)]
  have ht4 : ([22, 209, 22, 209, 1] ++ B ++ I ++ be 8 (5 + B.length)).take 4 = [22, 209, 22, 209] := by
    simp [List.take]
  rw [ht4]
  have hm : unbe [22, 209, 22, 209] = MagicNumber := by decide
  rw [hm]
  simp only [ne_eq, not_true_eq_false, if_false]
  have h4 : ([22, 209, 22, 209, 1] ++ B ++ I ++ be 8 (5 + B.length))[4]? = some 1 := by simp
  rw [h4]
  simp only
  have hv : (1 : Nat) = Version := rfl
  rw [if_neg (by simp [Version])]
  rw [if_neg (by omega)]
  have hpos : 0 + 1 + 1 + 1 + 1 + 1 + B.length + I.length + 8 - 8 = 5 + B.length + I.length := by omega
  rw [hpos]
  have hdrop : ([22, 209, 22, 209, 1] ++ B ++ I ++ be 8 (5 + B.length)).drop (5 + B.length + I.length)
      = be 8 (5 + B.length) := by
    rw [List.drop_append_of_le_length (by simp; omega)]
    rw [List.drop_of_length_le (by simp; omega)]; simp
  rw [hdrop, unbe_be_lt 8 _ (by rw [pow8]; omega)]
  rw [if_neg (by omega)]
  have htake : (([22, 209, 22, 209, 1] ++ B ++ I ++ be 8 (5 + B.length)).take (5 + B.length + I.length)).drop (5 + B.length) = I := by
    rw [List.take_append_of_le_length (by simp; omega)]
    rw [List.take_of_length_le (by simp; omega)]
    rw [List.drop_append_of_le_length (by simp; omega)]
    rw [List.drop_of_length_le (by simp; omega)]; simp
  rw [htake]
  rw [← hI, decIndex_enc (layout 5 kbs) hwf _ (by rw [hI]; have := flatMap_length_ge (layout 5 kbs); rw [hI] at this; omega)]

end Influx.Tsm
