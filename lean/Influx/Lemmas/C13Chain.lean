/-
  Lemmas.C13Chain — structure of a well-formed segment: offsets grow, every entry can be read
  back at its offset, appending an entry extends the chain.
-/
import Influx.Lemmas.C13Replay

namespace Influx.SF

theorem Chain.off_ge : ∀ (pos : Nat) (es : List Entry), Chain pos es → ∀ e ∈ es, pos ≤ e.off
  | _, [], _, e, he => by cases he
  | pos, x :: xs, h, e, he => by
    rcases List.mem_cons.mp he with rfl | he
    · exact Nat.le_of_eq h.1.symm
    · have := Chain.off_ge (pos + x.size) xs h.2.2 e he
      omega

theorem Chain.off_inc : ∀ (pos : Nat) (es : List Entry), Chain pos es →
    es.Pairwise (fun a b => a.off < b.off)
  | _, [], _ => List.Pairwise.nil
  | pos, x :: xs, h => by
    refine List.pairwise_cons.mpr ⟨?_, Chain.off_inc _ xs h.2.2⟩
    intro b hb
    have := Chain.off_ge (pos + x.size) xs h.2.2 b hb
    have := size_pos x
    rw [h.1]; omega

theorem Chain.wf_of_mem : ∀ (pos : Nat) (es : List Entry), Chain pos es → ∀ e ∈ es, e.wf
  | _, [], _, e, he => by cases he
  | pos, x :: xs, h, e, he => by
    rcases List.mem_cons.mp he with rfl | he
    · exact h.2.1
    · exact Chain.wf_of_mem _ xs h.2.2 e he

theorem Chain.snoc : ∀ (pos : Nat) (es : List Entry) (e : Entry), Chain pos es → e.wf →
    e.off = pos + (ser es).length → Chain pos (es ++ [e])
  | pos, [], e, _, hw, ho => by simpa [Chain, ser] using ⟨ho, hw⟩
  | pos, x :: xs, e, h, hw, ho => by
    refine ⟨h.1, h.2.1, Chain.snoc (pos + x.size) xs e h.2.2 hw ?_⟩
    rw [ho]; simp [ser, Entry.bytes_length h.2.1]; omega

theorem ser_append (a b : List Entry) : ser (a ++ b) = ser a ++ ser b := by simp [ser]

theorem fileOf_snoc (es : List Entry) (e : Entry) : fileOf (es ++ [e]) = fileOf es ++ e.bytes := by
  simp [fileOf, ser_append, ser]

theorem fileOf_length (es : List Entry) : (fileOf es).length = hdrSize + (ser es).length := by
  simp [fileOf, hdr_length]

/-- every entry of a chain sits at its offset: the file splits around it -/
theorem Chain.split : ∀ (pos : Nat) (es : List Entry), Chain pos es → ∀ e ∈ es,
    ∃ pre rest, ser es = pre ++ (e.bytes ++ rest) ∧ pos + pre.length = e.off
  | _, [], _, e, he => by cases he
  | pos, x :: xs, h, e, he => by
    rcases List.mem_cons.mp he with rfl | he
    · exact ⟨[], ser xs, by simp [ser], by simpa using h.1.symm⟩
    · obtain ⟨pre, rest, hs, hp⟩ := Chain.split (pos + x.size) xs h.2.2 e he
      refine ⟨x.bytes ++ pre, rest, ?_, ?_⟩
      · simp only [ser, List.flatMap_cons] at hs ⊢
        rw [hs]; simp
      · simp [Entry.bytes_length h.2.1]; omega

/-- reading the key of a stored insert entry back from the segment -/
theorem keyAt_fileOf (es : List Entry) (h : Chain hdrSize es) (e : Entry) (he : e ∈ es)
    (hf : e.flag = insertFlag) : readKey (fileOf es) (e.off + entryHdrSize) = some e.key := by
  obtain ⟨pre, rest, hs, hp⟩ := Chain.split hdrSize es h e he
  have hw := Chain.wf_of_mem hdrSize es h e he
  have hsk : shortKey e.key := by
    rcases hw.2 with ⟨_, hs⟩ | ⟨h2, _⟩
    · exact hs
    · rw [hf] at h2; simp [insertFlag, tombstoneFlag] at h2
  have := readKey_short (hdr ++ pre ++ e.flag :: be64Bytes e.id) e.key rest hsk
  have hlen : (hdr ++ pre ++ e.flag :: be64Bytes e.id).length = e.off + entryHdrSize := by
    simp [be64Bytes_length, entryHdrSize, hdr_length] at hp ⊢
    have : hdr.length = 5 := rfl
    omega
  rw [hlen] at this
  rw [← this]
  congr 1
  simp [fileOf, hs, Entry.bytes, entryBytes, hf, List.append_assoc]

/-- at most one element satisfies `q`: the last one is the one -/
theorem lastWith_unique {q : Entry → Bool} {l : List Entry} {e : Entry}
    (hu : ∀ a ∈ l, ∀ b ∈ l, q a = true → q b = true → a = b) (he : e ∈ l) (hq : q e = true) :
    lastWith q l = some e := by
  cases h : lastWith q l with
  | none => have := lastWith_none h e he; rw [hq] at this; cases this
  | some x =>
    obtain ⟨hx, hqx⟩ := lastWith_some h
    rw [hu x hx e he hqx hq]

theorem lastWith_filter_some {q r : Entry → Bool} {l : List Entry} {e : Entry}
    (h : lastWith q (l.filter r) = some e) : e ∈ l ∧ q e = true ∧ r e = true := by
  obtain ⟨hm, hq⟩ := lastWith_some h
  have := List.mem_filter.mp hm
  exact ⟨this.1, hq, this.2⟩

end Influx.SF
