/-
  Lemmas for the series-key round trip: the key scanners stop exactly at the
  delimiters written by `MakeKey` when no component ends in a backslash.
-/
import Influx.Lemmas.LineProtocolEscape

namespace Influx.LP

/-- is the byte just before the position after `s` a backslash (`pbs`: the one before `s`) -/
def lastIsBS : Bool → Bytes → Bool
  | pbs, [] => pbs
  | _, b :: r => lastIsBS (b == cBS) r

theorem lastIsBS_eq (pbs : Bool) (s : Bytes) :
    lastIsBS pbs s = match s.getLast? with | none => pbs | some l => l == cBS := by
  induction s generalizing pbs with
  | nil => rfl
  | cons b r ih =>
    simp only [lastIsBS, ih]
    cases r with
    | nil => simp
    | cons c r' =>
      rw [List.getLast?_cons_cons]
      cases h : (c :: r').getLast? with
      | none => simp at h
      | some l => rfl

theorem lastIsBS_of_getLast (pbs : Bool) (s : Bytes) (h : s.getLast? ≠ some cBS) (h0 : s = [] → pbs = false) :
    lastIsBS pbs s = false := by
  rw [lastIsBS_eq]
  cases hs : s.getLast? with
  | none =>
    have : s = [] := by simpa using hs
    simp [h0 this]
  | some l => rw [hs] at h; simp at h ⊢; exact h

theorem scanTagValue_eq : scanTagValue = scanTo cComma := by
  funext pbs s
  induction s generalizing pbs with
  | nil => rfl
  | cons b r ih => simp [scanTagValue, scanTo, ih]

/-- `scanTo` never stops inside escaped text -/
theorem scanTo_escBy_end (S : Nat → Bool) (stop : Nat) (hS : S stop = true) (hbs : S cBS = false)
    (s : Bytes) (pbs : Bool) : scanTo stop pbs (escBy S s) = (escBy S s, []) := by
  induction s generalizing pbs with
  | nil => rfl
  | cons b r ih =>
    simp only [escBy_cons]
    by_cases hb : S b = true
    · have hb92 : b ≠ cBS := by intro h; rw [h, hbs] at hb; cases hb
      have h92 : cBS ≠ stop := by intro h; rw [← h, hbs] at hS; cases hS
      simp [hb, scanTo, h92, ih]
    · have hbs' : b ≠ stop := by intro h; rw [h] at hb; exact hb hS
      simp [hb, scanTo, hbs', ih]

/-- … and stops at the first delimiter after it, unless the text ends in a backslash -/
theorem scanTo_escBy (S : Nat → Bool) (stop : Nat) (hS : S stop = true) (hbs : S cBS = false)
    (s : Bytes) (pbs : Bool) (rest : Bytes) (hl : lastIsBS pbs s = false) :
    scanTo stop pbs (escBy S s ++ stop :: rest) = (escBy S s, stop :: rest) := by
  induction s generalizing pbs with
  | nil => simp [lastIsBS] at hl; simp [scanTo, hl]
  | cons b r ih =>
    simp only [escBy_cons]
    simp only [lastIsBS] at hl
    by_cases hb : S b = true
    · have hb92 : b ≠ cBS := by intro h; rw [h, hbs] at hb; cases hb
      have h92 : cBS ≠ stop := by intro h; rw [← h, hbs] at hS; cases hS
      have hbeq : (b == cBS) = false := beq_eq_false_iff_ne.mpr hb92
      rw [hbeq] at hl
      simp [hb, scanTo, h92, hbeq, ih false hl]
    · have hbs' : b ≠ stop := by intro h; rw [h] at hb; exact hb hS
      simp [hb, scanTo, hbs', ih _ hl]

/-- `scanMeasAux` on an escaped name followed by the comma of the first tag -/
theorem scanMeasAux_escBy_comma (s : Bytes) (prev : Nat) (rest : Bytes)
    (hl : lastIsBS (prev == cBS) s = false) :
    scanMeasAux prev (escBy isMeasSpecial s ++ cComma :: rest) = (escBy isMeasSpecial s, .tags rest) := by
  induction s generalizing prev with
  | nil =>
    simp [lastIsBS] at hl
    simp [scanMeasAux, hl]
  | cons b r ih =>
    simp only [escBy_cons]
    simp only [lastIsBS] at hl
    by_cases hb : isMeasSpecial b = true
    · have hb92 : b ≠ cBS := by intro h; rw [h] at hb; revert hb; decide
      have hl' : lastIsBS (b == cBS) r = false := hl
      simp only [hb, if_true, List.cons_append]
      rw [scanMeasAux]
      have h1 : ¬ ((prev ≠ cBS) ∧ cBS = cComma) := by intro h; exact absurd h.2 (by decide)
      have h2 : ¬ ((prev ≠ cBS) ∧ cBS = cSpace) := by intro h; exact absurd h.2 (by decide)
      rw [if_neg h1, if_neg h2, scanMeasAux]
      simp [ih b hl']
    · have hbc : b ≠ cComma := by intro h; rw [h] at hb; exact hb (by decide)
      have hbsp : b ≠ cSpace := by intro h; rw [h] at hb; exact hb (by decide)
      simp only [hb, Bool.false_eq_true, if_false, List.cons_append]
      rw [scanMeasAux]
      simp [hbc, hbsp, ih b hl]

/-- `scanMeasAux` on an escaped name at the end of the buffer -/
theorem scanMeasAux_escBy_end (s : Bytes) (prev : Nat) :
    scanMeasAux prev (escBy isMeasSpecial s) = (escBy isMeasSpecial s, .eof) := by
  induction s generalizing prev with
  | nil => rfl
  | cons b r ih =>
    simp only [escBy_cons]
    by_cases hb : isMeasSpecial b = true
    · simp only [hb, if_true]
      rw [scanMeasAux]
      have h1 : ¬ ((prev ≠ cBS) ∧ cBS = cComma) := by intro h; exact absurd h.2 (by decide)
      have h2 : ¬ ((prev ≠ cBS) ∧ cBS = cSpace) := by intro h; exact absurd h.2 (by decide)
      rw [if_neg h1, if_neg h2, scanMeasAux]
      simp [ih b]
    · have hbc : b ≠ cComma := by intro h; rw [h] at hb; exact hb (by decide)
      have hbsp : b ≠ cSpace := by intro h; rw [h] at hb; exact hb (by decide)
      simp only [hb, Bool.false_eq_true, if_false]
      rw [scanMeasAux]
      simp [hbc, hbsp, ih b]

/-! ### the text `MakeKey` writes for the tags -/

def tagText (t : Tag) : Bytes := escBy isTagSpecial t.key ++ cEq :: escBy isTagSpecial t.value
def tagsText (ts : List Tag) : Bytes := ts.flatMap fun t => cComma :: tagText t

theorem tagsText_cons (t : Tag) (ts : List Tag) : tagsText (t :: ts) = cComma :: tagText t ++ tagsText ts := by
  simp [tagsText]

theorem escBy_id (S : Nat → Bool) (s : Bytes) (h : ∀ b ∈ s, S b = false) : escBy S s = s := by
  induction s with
  | nil => rfl
  | cons b r ih =>
    have hb := h b (by simp)
    simp only [escBy_cons, hb, Bool.false_eq_true, if_false]
    rw [ih (fun c hc => h c (by simp [hc]))]

theorem needsEscape_false (tags : List Tag) (h : needsEscape tags = false) :
    ∀ t ∈ tags, escBy isTagSpecial t.key = t.key ∧ escBy isTagSpecial t.value = t.value := by
  intro t ht
  have hb : ∀ b, (b ∈ t.key ∨ b ∈ t.value) → isTagSpecial b = false := by
    intro b hb
    cases hsp : isTagSpecial b with
    | false => rfl
    | true =>
      exfalso
      have : needsEscape tags = true := by
        unfold needsEscape
        refine List.any_eq_true.mpr ⟨t, ht, ?_⟩
        unfold tagEscapeCodes
        have hc : (b = cComma ∨ b = cSpace) ∨ b = cEq := by simpa [isTagSpecial] using hsp
        rcases hc with (rfl | rfl) | rfl <;> rcases hb with hb | hb <;> simp [hb]
      rw [h] at this; cases this
  exact ⟨escBy_id _ _ (fun b hm => hb b (Or.inl hm)), escBy_id _ _ (fun b hm => hb b (Or.inr hm))⟩

theorem isEmpty_escBy (S : Nat → Bool) (s : Bytes) : (escBy S s).isEmpty = s.isEmpty := by
  cases s with
  | nil => rfl
  | cons b r => simp only [escBy_cons]; split <;> rfl

/-- `AppendHashKey` writes `,k=v` with both sides escaped, for every tag with a value -/
theorem appendHashKey_eq (tags : List Tag) :
    appendHashKey tags = tagsText (tags.filter fun t => !t.value.isEmpty) := by
  have key : ∀ (l : List Tag),
      (l.map (fun t => (⟨escBy isTagSpecial t.key, escBy isTagSpecial t.value⟩ : Tag))).flatMap
        (fun t => if t.value.isEmpty then [] else cComma :: t.key ++ cEq :: t.value)
      = tagsText (l.filter fun t => !t.value.isEmpty) := by
    intro l
    induction l with
    | nil => rfl
    | cons t ts ih =>
      simp only [List.map_cons, List.flatMap_cons, ih, List.filter_cons, isEmpty_escBy]
      by_cases hv : t.value.isEmpty = true
      · simp [hv]
      · simp [hv, tagsText_cons, tagText]
  unfold appendHashKey
  by_cases hn : needsEscape tags = true
  · simp only [hn, if_true, escapeTag_eq]; exact key tags
  · have hn' : needsEscape tags = false := by simpa using hn
    have hid := needsEscape_false tags hn'
    simp only [hn', Bool.false_eq_true, if_false]
    rw [← key tags]
    congr 1
    rw [List.map_congr_left (g := id)]
    · simp
    · intro t ht
      obtain ⟨h1, h2⟩ := hid t ht
      simp [h1, h2]

theorem walkTagsLoop_nil (he : Bool) (fuel : Nat) : walkTagsLoop he fuel [] = [] := by
  cases fuel <;> rfl

theorem walkTagsLoop_succ (he : Bool) (fuel : Nat) (buf : Bytes) (h : buf ≠ []) :
    walkTagsLoop he (fuel + 1) buf =
      if (scanTagValue false ((scanTo cEq false buf).2.drop 1)).1.isEmpty then
        walkTagsLoop he fuel (scanTagValue false ((scanTo cEq false buf).2.drop 1)).2
      else
        (if he then ⟨unescapeTag (scanTo cEq false buf).1,
            unescapeTag (scanTagValue false ((scanTo cEq false buf).2.drop 1)).1⟩
         else ⟨(scanTo cEq false buf).1, (scanTagValue false ((scanTo cEq false buf).2.drop 1)).1⟩) ::
          walkTagsLoop he fuel ((scanTagValue false ((scanTo cEq false buf).2.drop 1)).2.drop 1) := by
  cases buf with
  | nil => exact absurd rfl h
  | cons b r => rfl

/-- a tag component that may sit in front of a delimiter -/
def noTB (s : Bytes) : Prop := s.getLast? ≠ some cBS

theorem lastIsBS_false_of_noTB (s : Bytes) (h : noTB s) : lastIsBS false s = false :=
  lastIsBS_of_getLast false s h (fun _ => rfl)

theorem walkTagsLoop_tagsText (he : Bool) (ts : List Tag) (fuel : Nat) (hf : ts.length ≤ fuel)
    (hv : ∀ t ∈ ts, t.value ≠ [] ∧ noTB t.key ∧ noTB t.value)
    (hhe : he = false → ∀ t ∈ ts, cBS ∉ escBy isTagSpecial t.key ∧ cBS ∉ escBy isTagSpecial t.value) :
    walkTagsLoop he fuel ((tagsText ts).drop 1) = ts := by
  induction ts generalizing fuel with
  | nil => simp [tagsText, walkTagsLoop_nil]
  | cons t ts ih =>
    obtain ⟨f, rfl⟩ : ∃ f, fuel = f + 1 := ⟨fuel - 1, by simp at hf; omega⟩
    obtain ⟨hvne, hk, hvl⟩ := hv t (by simp)
    have hts : ∀ u ∈ ts, u.value ≠ [] ∧ noTB u.key ∧ noTB u.value := fun u hu => hv u (by simp [hu])
    rw [tagsText_cons]
    simp only [List.cons_append, List.drop_succ_cons, List.drop_zero]
    have hne : tagText t ++ tagsText ts ≠ [] := by simp [tagText]
    rw [walkTagsLoop_succ _ _ _ hne]
    have hs1 : scanTo cEq false (tagText t ++ tagsText ts) =
        (escBy isTagSpecial t.key, cEq :: (escBy isTagSpecial t.value ++ tagsText ts)) := by
      have := scanTo_escBy isTagSpecial cEq (by decide) (by decide) t.key false
        (escBy isTagSpecial t.value ++ tagsText ts) (lastIsBS_false_of_noTB _ hk)
      simpa [tagText] using this
    have hs2 : scanTagValue false (escBy isTagSpecial t.value ++ tagsText ts) =
        (escBy isTagSpecial t.value, tagsText ts) := by
      rw [scanTagValue_eq]
      cases ts with
      | nil =>
        simpa [tagsText] using scanTo_escBy_end isTagSpecial cComma (by decide) (by decide) t.value false
      | cons u us =>
        rw [tagsText_cons]
        exact scanTo_escBy isTagSpecial cComma (by decide) (by decide) t.value false _
          (lastIsBS_false_of_noTB _ hvl)
    have hne2 : (escBy isTagSpecial t.value).isEmpty = false := by
      cases h : escBy isTagSpecial t.value with
      | nil => exact absurd ((escBy_eq_nil _ _).mp h) hvne
      | cons _ _ => rfl
    simp only [hs1, List.drop_succ_cons, List.drop_zero, hs2, hne2, Bool.false_eq_true, if_false]
    rw [ih f (by simp at hf; omega) hts (fun h u hu => hhe h u (by simp [hu]))]
    congr 1
    cases he with
    | true => simp [unescapeTag_escBy]
    | false =>
      obtain ⟨h1, h2⟩ := hhe rfl t (by simp)
      simp [escBy_no_bs _ _ h1, escBy_no_bs _ _ h2]

/-! ### `scanMeasurement`, `walkTags`, `ParseKeyBytes` on a key written by `MakeKey` -/

theorem scanMeasurement_escBy_end (name : Bytes) (hne : name ≠ []) :
    scanMeasurement (escBy isMeasSpecial name) = (escBy isMeasSpecial name, .eof) := by
  cases name with
  | nil => exact absurd rfl hne
  | cons b r =>
    simp only [escBy_cons]
    by_cases hb : isMeasSpecial b = true
    · simp only [hb, if_true]
      rw [scanMeasurement, if_neg (by decide), scanMeasAux]
      simp [scanMeasAux_escBy_end]
    · have hbc : b ≠ cComma := by intro h; rw [h] at hb; exact hb (by decide)
      simp only [hb, Bool.false_eq_true, if_false]
      rw [scanMeasurement, if_neg hbc]
      simp [scanMeasAux_escBy_end]

theorem scanMeasurement_escBy_comma (name rest : Bytes) (hne : name ≠ []) (hl : noTB name) :
    scanMeasurement (escBy isMeasSpecial name ++ cComma :: rest) = (escBy isMeasSpecial name, .tags rest) := by
  have hl' := lastIsBS_false_of_noTB name hl
  cases name with
  | nil => exact absurd rfl hne
  | cons b r =>
    simp only [lastIsBS] at hl'
    simp only [escBy_cons]
    by_cases hb : isMeasSpecial b = true
    · simp only [hb, if_true, List.cons_append]
      rw [scanMeasurement, if_neg (by decide), scanMeasAux]
      simp [scanMeasAux_escBy_comma _ _ _ hl']
    · have hbc : b ≠ cComma := by intro h; rw [h] at hb; exact hb (by decide)
      simp only [hb, Bool.false_eq_true, if_false, List.cons_append]
      rw [scanMeasurement, if_neg hbc]
      simp [scanMeasAux_escBy_comma _ _ _ hl']

theorem length_le_count_tagsText (ts : List Tag) : ts.length ≤ (tagsText ts).count cComma := by
  induction ts with
  | nil => simp [tagsText]
  | cons t ts ih =>
    rw [tagsText_cons]
    simp only [List.cons_append, List.count_cons_self, List.count_append, List.length_cons]
    omega

theorem mem_tagsText_key (ts : List Tag) (t : Tag) (ht : t ∈ ts) (b : Nat)
    (hb : b ∈ escBy isTagSpecial t.key ∨ b ∈ escBy isTagSpecial t.value) : b ∈ tagsText ts := by
  induction ts with
  | nil => cases ht
  | cons u us ih =>
    rw [tagsText_cons]
    rcases List.mem_cons.mp ht with rfl | h
    · simp only [tagText, List.cons_append, List.append_assoc, List.mem_cons, List.mem_append]
      rcases hb with hb | hb <;> simp [hb]
    · simp only [List.cons_append, List.mem_cons, List.mem_append]
      right; right; exact ih h

/-- `parseTags` on `name,k=v,…` as `MakeKey` writes it -/
theorem parseTags_tagsText (name : Bytes) (t : Tag) (ts' : List Tag) (hne : name ≠ []) (hl : noTB name)
    (hts' : ∀ u ∈ t :: ts', u.value ≠ [] ∧ noTB u.key ∧ noTB u.value) :
    parseTags (escBy isMeasSpecial name ++ cComma :: (tagText t ++ tagsText ts')) = some (t :: ts') := by
  have hE : escBy isMeasSpecial name ≠ [] := by simpa [escBy_eq_nil] using hne
  have hwalk : walkTags (escBy isMeasSpecial name ++ cComma :: (tagText t ++ tagsText ts')) = t :: ts' := by
    unfold walkTags
    have hs := scanTo_escBy isMeasSpecial cComma (by decide) (by decide) name false
      (tagText t ++ tagsText ts') (lastIsBS_false_of_noTB _ hl)
    have hemp : (escBy isMeasSpecial name ++ cComma :: (tagText t ++ tagsText ts')).isEmpty = false := by
      cases h : escBy isMeasSpecial name with
      | nil => exact absurd h hE
      | cons _ _ => rfl
    have hemp2 : (escBy isMeasSpecial name).isEmpty = false := by
      cases h : escBy isMeasSpecial name with
      | nil => exact absurd h hE
      | cons _ _ => rfl
    simp only [hemp, Bool.false_eq_true, if_false, hs, hemp2, List.drop_succ_cons, List.drop_zero]
    have := walkTagsLoop_tagsText
      ((escBy isMeasSpecial name ++ cComma :: (tagText t ++ tagsText ts')).contains cBS) (t :: ts')
      (escBy isMeasSpecial name ++ cComma :: (tagText t ++ tagsText ts')).length ?_ hts' ?_
    · rw [tagsText_cons] at this
      simpa using this
    · have h1 : (t :: ts').length ≤ (tagsText (t :: ts')).length :=
        Nat.le_trans (length_le_count_tagsText _) List.count_le_length
      rw [tagsText_cons] at h1
      simp only [List.length_append, List.length_cons, List.cons_append] at h1 ⊢
      omega
    · intro hc u hu
      have hc' : cBS ∉ escBy isMeasSpecial name ++ cComma :: (tagText t ++ tagsText ts') := by
        simpa using hc
      have hsub : ∀ b, b ∈ tagsText (t :: ts') → b ∈ escBy isMeasSpecial name ++ cComma :: (tagText t ++ tagsText ts') := by
        intro b hb
        simp only [tagsText_cons, List.cons_append, List.mem_append, List.mem_cons] at hb ⊢
        rcases hb with hb | hb | hb <;> simp [hb]
      exact ⟨fun h => hc' (hsub _ (mem_tagsText_key _ u hu _ (Or.inl h))),
             fun h => hc' (hsub _ (mem_tagsText_key _ u hu _ (Or.inr h)))⟩
  unfold parseTags
  simp only [hwalk]
  have hcount : (t :: ts').length ≤ (escBy isMeasSpecial name ++ cComma :: (tagText t ++ tagsText ts')).count cComma := by
    have h1 := length_le_count_tagsText (t :: ts')
    rw [tagsText_cons] at h1
    simp only [List.count_append, List.cons_append, List.count_cons_self] at h1 ⊢
    omega
  rw [if_pos hcount]

/-- `ParseKeyBytes(MakeKey(name, tags))` for a name and tags whose components do not end in a
    backslash and whose name is its own unescaped form: the name and the tags that have a
    value, in the order given. -/
theorem parseKeyBytes_makeKey (name : Bytes) (tags : List Tag)
    (hne : name ≠ []) (hl : noTB name) (hun : unescapeMeasurement name = name)
    (ht : ∀ t ∈ tags, t.value ≠ [] → noTB t.key ∧ noTB t.value) :
    parseKeyBytes (makeKey name tags) = some (name, tags.filter fun t => !t.value.isEmpty) := by
  unfold makeKey
  rw [hun, escapeMeasurement_eq, appendHashKey_eq]
  generalize hts : (tags.filter fun t => !t.value.isEmpty) = ts
  have hts' : ∀ t ∈ ts, t.value ≠ [] ∧ noTB t.key ∧ noTB t.value := by
    intro t h
    rw [← hts] at h
    obtain ⟨hm, hv⟩ := List.mem_filter.mp h
    have hv' : t.value ≠ [] := by intro e; simp [e] at hv
    exact ⟨hv', ht t hm hv'⟩
  unfold parseKeyBytes
  cases ts with
  | nil =>
    simp only [tagsText, List.flatMap_nil, List.append_nil]
    rw [scanMeasurement_escBy_end _ hne]
    simp [unescapeMeasurement_escBy]
  | cons t ts' =>
    rw [tagsText_cons, List.cons_append]
    rw [scanMeasurement_escBy_comma _ _ hne hl]
    simp only [unescapeMeasurement_escBy]
    rw [parseTags_tagsText name t ts' hne hl hts']
    rfl

end Influx.LP
