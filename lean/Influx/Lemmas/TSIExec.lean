/-
  Lemmas.TSIExec — what one log entry does to the views of a file (`LogFile.execEntry`),
  stated on the accessors `measFlag`, `keyElem`, `valElem`, `fileMeasSeries`, `fileValSeries`.
-/
import Influx.Lemmas.TSIBasic

namespace Influx.Model.TSI

/-- first value bound to `k` in a tag list. -/
def tagOf (tags : Tags) (k : String) : Option String :=
  match tags with
  | [] => none
  | (k', v) :: rest => if k' = k then some v else tagOf rest k

/-- `execSeriesEntry` on one tag value. -/
def updVal (isAdd : Bool) (id : Nat) (tv : TagValue) : TagValue :=
  if isAdd then { deleted := false, series := sadd tv.series id }
  else { tv with series := sdel tv.series id }

/-- `execSeriesEntry` on one tag key, for the series' value `v` of it. -/
def updKey (isAdd : Bool) (id : Nat) (tk : TagKey) (v : String) : TagKey :=
  { deleted := if isAdd then false else tk.deleted,
    values := aset tk.values v (updVal isAdd id ((alookup tk.values v).getD {})) }

theorem tagOf_cons (k₀ v₀ : String) (rest : Tags) (k : String) :
    tagOf ((k₀, v₀) :: rest) k = if k₀ = k then some v₀ else tagOf rest k := rfl

theorem setSeriesInTags_cons (isAdd : Bool) (id : Nat) (keys : List (String × TagKey))
    (k v : String) (rest : Tags) :
    setSeriesInTags isAdd id keys ((k, v) :: rest) =
      setSeriesInTags isAdd id (aset keys k (updKey isAdd id ((alookup keys k).getD {}) v)) rest := by
  simp only [setSeriesInTags, updKey, updVal]

/-- the key entries after the tag loop (tag keys of a series are distinct). -/
theorem alookup_setSeriesInTags (isAdd : Bool) (id : Nat) (tags : Tags)
    (hd : (tags.map (·.1)).Nodup) (keys : List (String × TagKey)) (k : String) :
    alookup (setSeriesInTags isAdd id keys tags) k =
      match tagOf tags k with
      | none => alookup keys k
      | some v => some (updKey isAdd id ((alookup keys k).getD {}) v) := by
  induction tags generalizing keys with
  | nil => simp [setSeriesInTags, tagOf]
  | cons kv rest ih =>
    obtain ⟨k₀, v₀⟩ := kv
    simp only [List.map_cons, List.nodup_cons] at hd
    rw [setSeriesInTags_cons, ih hd.2, tagOf_cons]
    by_cases h : k₀ = k
    · subst h
      have hnone : tagOf rest k₀ = none := by
        have hk := hd.1
        clear ih hd
        induction rest with
        | nil => rfl
        | cons kv' rest' ih' =>
          obtain ⟨k₁, v₁⟩ := kv'
          simp only [List.map_cons, List.mem_cons, not_or] at hk
          rw [tagOf_cons, if_neg (fun e => hk.1 e.symm)]
          exact ih' hk.2
      simp [hnone, alookup_aset_self]
    · simp only [h, if_false]
      have hne : k ≠ k₀ := fun e => h e.symm
      rw [alookup_aset_ne _ _ _ _ hne]

/-! #### accessors after `execSeries` -/

section
variable (sf : SFile) (d : FileData) (isAdd : Bool) (id : Nat) (s : SeriesInfo)

theorem execSeries_unknown (h : sf.find id = none) : execSeries sf d isAdd id = d := by
  simp [execSeries, h]

theorem execSeries_mms (h : sf.find id = some s) (n : String) :
    alookup (execSeries sf d isAdd id).mms n =
      if n = s.name then
        some { deleted := false,
               series := if isAdd then sadd (getMeas d s.name).series id else sdel (getMeas d s.name).series id,
               keys := setSeriesInTags isAdd id (getMeas d s.name).keys s.tags }
      else alookup d.mms n := by
  simp only [execSeries, h, alookup_aset]

theorem execSeries_measFlag (h : sf.find id = some s) (n : String) :
    measFlag n (execSeries sf d isAdd id) = if n = s.name then some false else measFlag n d := by
  unfold measFlag
  rw [execSeries_mms sf d isAdd id s h]
  split <;> rfl

theorem fileMeasSeries_getMeas (n : String) : fileMeasSeries n d = (getMeas d n).series := by
  unfold fileMeasSeries getMeas
  cases alookup d.mms n <;> rfl

theorem execSeries_fileMeasSeries (h : sf.find id = some s) (n : String) :
    fileMeasSeries n (execSeries sf d isAdd id) =
      if n = s.name then
        (if isAdd then sadd (fileMeasSeries n d) id else sdel (fileMeasSeries n d) id)
      else fileMeasSeries n d := by
  unfold fileMeasSeries
  rw [execSeries_mms sf d isAdd id s h]
  by_cases hn : n = s.name
  · subst hn
    simp only [if_true, Option.map_some, Option.getD_some]
    have := fileMeasSeries_getMeas d s.name
    unfold fileMeasSeries at this
    rw [this]
  · simp [hn]

theorem execSeries_keyElem (h : sf.find id = some s) (hd : (s.tags.map (·.1)).Nodup) (n k : String) :
    keyElem n k (execSeries sf d isAdd id) =
      if n = s.name then
        match tagOf s.tags k with
        | none => keyElem n k d
        | some v => some (updKey isAdd id ((keyElem n k d).getD {}) v)
      else keyElem n k d := by
  unfold keyElem
  rw [execSeries_mms sf d isAdd id s h]
  by_cases hn : n = s.name
  · subst hn
    simp only [if_true, Option.bind_some]
    rw [alookup_setSeriesInTags isAdd id s.tags hd]
    have hk : alookup (getMeas d s.name).keys k = (alookup d.mms s.name).bind (fun mm => alookup mm.keys k) := by
      unfold getMeas
      cases alookup d.mms s.name <;> simp [alookup]
    rw [hk]
  · simp [hn]

end

/-- `fileValSeries` in terms of `valElem`. -/
theorem fileValSeries_eq (n k v : String) (f : FileData) :
    fileValSeries n k v f = ((valElem n k v f).map (·.series)).getD [] := rfl

theorem mem_fileValSeries_valElem {n k v : String} {f : FileData} {x : Nat}
    (h : x ∈ fileValSeries n k v f) : ∃ tv, valElem n k v f = some tv ∧ x ∈ tv.series := by
  unfold fileValSeries at h
  cases hv : valElem n k v f with
  | none => simp [hv] at h
  | some tv => exact ⟨tv, rfl, by simpa [hv] using h⟩

theorem valElem_keyElem {n k v : String} {f : FileData} {tv : TagValue}
    (h : valElem n k v f = some tv) : ∃ tk, keyElem n k f = some tk ∧ alookup tk.values v = some tv := by
  unfold valElem at h
  cases hk : keyElem n k f with
  | none => simp [hk] at h
  | some tk => exact ⟨tk, rfl, by simpa [hk] using h⟩

theorem keyElem_meas {n k : String} {f : FileData} {tk : TagKey}
    (h : keyElem n k f = some tk) : ∃ mm, alookup f.mms n = some mm ∧ alookup mm.keys k = some tk := by
  unfold keyElem at h
  cases hm : alookup f.mms n with
  | none => simp [hm] at h
  | some mm => exact ⟨mm, rfl, by simpa [hm] using h⟩

section
variable (sf : SFile) (d : FileData) (isAdd : Bool) (id : Nat) (s : SeriesInfo)

theorem execSeries_valElem (h : sf.find id = some s) (hd : (s.tags.map (·.1)).Nodup) (n k v : String) :
    valElem n k v (execSeries sf d isAdd id) =
      if n = s.name ∧ tagOf s.tags k = some v then
        some (updVal isAdd id ((valElem n k v d).getD {}))
      else valElem n k v d := by
  unfold valElem
  rw [execSeries_keyElem sf d isAdd id s h hd]
  by_cases hn : n = s.name
  · subst hn
    simp only [if_true, true_and]
    cases ht : tagOf s.tags k with
    | none => simp
    | some v₀ =>
      simp only [Option.bind_some, updKey, alookup_aset]
      by_cases hv : v = v₀
      · subst hv
        simp only [if_true]
        cases hk : keyElem s.name k d with
        | none => simp [alookup]
        | some tk => simp
      · have hv' : ¬ v₀ = v := fun e => hv e.symm
        simp only [hv, if_false, Option.some.injEq, hv']
        cases hk : keyElem s.name k d with
        | none => simp [alookup]
        | some tk => simp
  · simp [hn]

theorem mem_updVal_series (tv : TagValue) (x : Nat) :
    x ∈ (updVal isAdd id tv).series ↔
      if isAdd then (x = id ∨ x ∈ tv.series) else (x ∈ tv.series ∧ x ≠ id) := by
  unfold updVal
  cases isAdd
  · simp [mem_sdel]
  · simp [mem_sadd]

/-- membership in a tag value's series after a series entry. -/
theorem execSeries_mem_fileValSeries (h : sf.find id = some s) (hd : (s.tags.map (·.1)).Nodup)
    (n k v : String) (x : Nat) :
    x ∈ fileValSeries n k v (execSeries sf d isAdd id) ↔
      if n = s.name ∧ tagOf s.tags k = some v then
        (if isAdd then (x = id ∨ x ∈ fileValSeries n k v d) else (x ∈ fileValSeries n k v d ∧ x ≠ id))
      else x ∈ fileValSeries n k v d := by
  rw [fileValSeries_eq, execSeries_valElem sf d isAdd id s h hd]
  split
  · simp only [Option.map_some, Option.getD_some, mem_updVal_series]
    rw [fileValSeries_eq]
    cases valElem n k v d <;> simp
  · rfl

theorem execSeries_mem_fileMeasSeries (h : sf.find id = some s) (n : String) (x : Nat) :
    x ∈ fileMeasSeries n (execSeries sf d isAdd id) ↔
      if n = s.name then
        (if isAdd then (x = id ∨ x ∈ fileMeasSeries n d) else (x ∈ fileMeasSeries n d ∧ x ≠ id))
      else x ∈ fileMeasSeries n d := by
  rw [execSeries_fileMeasSeries sf d isAdd id s h]
  split
  · cases isAdd
    · simp [mem_sdel]
    · simp [mem_sadd]
  · rfl

theorem execSeries_sset (h : sf.find id = some s) :
    (execSeries sf d isAdd id).sset = (if isAdd then sadd d.sset id else sdel d.sset id) ∧
    (execSeries sf d isAdd id).tomb = (if isAdd then sdel d.tomb id else sadd d.tomb id) := by
  simp [execSeries, h]

end

/-! #### the tombstone entries -/

theorem exec_delMeas_mms (sf : SFile) (d : FileData) (m n : String) :
    alookup (exec sf d (.delMeas m)).mms n =
      if n = m then some { deleted := true, series := [], keys := [] } else alookup d.mms n := by
  simp only [exec, alookup_aset]

/-- `execDeleteTagKeyEntry` on the measurement. -/
def delKeyMeas (mm : Meas) (key : String) : Meas :=
  let tk := (alookup mm.keys key).getD {}
  { mm with keys := aset mm.keys key { tk with deleted := true } }

/-- `execDeleteTagValueEntry` on the measurement. -/
def delValMeas (mm : Meas) (key value : String) : Meas :=
  let tk := (alookup mm.keys key).getD {}
  let tv := (alookup tk.values value).getD {}
  { mm with keys := aset mm.keys key { tk with values := aset tk.values value { tv with deleted := true } } }

theorem exec_delKey_mms (sf : SFile) (d : FileData) (m key n : String) :
    alookup (exec sf d (.delKey m key)).mms n =
      if n = m then some (delKeyMeas (getMeas d m) key) else alookup d.mms n := by
  simp only [exec, alookup_aset, delKeyMeas]

theorem exec_delVal_mms (sf : SFile) (d : FileData) (m key value n : String) :
    alookup (exec sf d (.delVal m key value)).mms n =
      if n = m then some (delValMeas (getMeas d m) key value) else alookup d.mms n := by
  simp only [exec, alookup_aset, delValMeas]

/-- entries other than series entries leave the series / tombstone id sets alone. -/
theorem exec_flags_sset (sf : SFile) (d : FileData) (e : Entry)
    (he : ∀ id, e ≠ .add id ∧ e ≠ .delSeries id) :
    (exec sf d e).sset = d.sset ∧ (exec sf d e).tomb = d.tomb := by
  cases e with
  | add id => exact absurd rfl (he id).1
  | delSeries id => exact absurd rfl (he id).2
  | delMeas m => simp [exec]
  | delKey m k => simp [exec]
  | delVal m k v => simp [exec]

/-- an entry about measurement `m` leaves every other measurement of the file alone. -/
theorem exec_other_meas (sf : SFile) (d : FileData) (e : Entry) (m n : String) (hn : n ≠ m)
    (he : e = .delMeas m ∨ (∃ k, e = .delKey m k) ∨ (∃ k v, e = .delVal m k v) ∨
      (∃ (id : Nat) (isAdd : Bool) (s : SeriesInfo), (e = if isAdd then .add id else .delSeries id) ∧ sf.find id = some s ∧ s.name = m) ∨
      (∃ id, (e = .add id ∨ e = .delSeries id) ∧ sf.find id = none)) :
    alookup (exec sf d e).mms n = alookup d.mms n := by
  rcases he with rfl | ⟨k, rfl⟩ | ⟨k, v, rfl⟩ | ⟨id, isAdd, s, he, hs, hm⟩ | ⟨id, he, hs⟩
  · rw [exec_delMeas_mms]; simp [hn]
  · rw [exec_delKey_mms]; simp [hn]
  · rw [exec_delVal_mms]; simp [hn]
  · subst hm
    cases isAdd
    · simp only [Bool.false_eq_true, if_false] at he; subst he
      simp only [exec]
      rw [execSeries_mms sf d false id s hs]; simp [hn]
    · simp only [if_true] at he; subst he
      simp only [exec]
      rw [execSeries_mms sf d true id s hs]; simp [hn]
  · rcases he with rfl | rfl <;> simp [exec, execSeries_unknown, hs]

end Influx.Model.TSI
