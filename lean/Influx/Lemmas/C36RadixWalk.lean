/-
  Lemmas.C36RadixWalk — iteration order: the association list of a node is strictly ascending
  in key order, and the pre-order walk (which reads the keys stored in the leaves) is that list.
-/
import Influx.Lemmas.C36RadixIns

namespace Influx.Radix
open Influx.RHH (keyLt keyLt_irrefl keyLt_trans)

abbrev SortedKV (l : List KV) : Prop := l.Pairwise (fun a b => keyLt a.1 b.1 = true)

theorem keyLt_append_left (pre a b : Key) : keyLt (pre ++ a) (pre ++ b) = keyLt a b := by
  induction pre with
  | nil => rfl
  | cons x xs ih => simp [keyLt, ih]

theorem keyLt_nil_cons (x : Nat) (xs : Key) : keyLt [] (x :: xs) = true := rfl

theorem keyLt_heads (x y : Nat) (xs ys : Key) (h : x < y) : keyLt (x :: xs) (y :: ys) = true := by
  simp [keyLt, h]

theorem sorted_map_prefix (pre : Key) (l : List KV) (h : SortedKV l) :
    SortedKV (l.map fun p => (pre ++ p.1, p.2)) := by
  refine List.pairwise_map.mpr (h.imp ?_)
  intro a b hab
  simpa [keyLt_append_left] using hab

mutual
theorem Node.rel_sorted : ∀ (n : Node), Node.SW n → SortedKV (Node.rel n)
  | .mk leaf pre edges, hsw => by
    have hE := Edges.rel_sorted edges hsw
    cases leaf with
    | none => simpa [Node.rel] using hE
    | some l =>
      simp only [Node.rel, List.singleton_append]
      refine List.pairwise_cons.mpr ⟨?_, hE⟩
      intro p hp
      obtain ⟨_, _, t, ht⟩ := Edges.rel_head edges hsw p hp
      rw [ht]; rfl
theorem Edges.rel_sorted : ∀ (es : Edges), Edges.SW es → SortedKV (Edges.rel es)
  | .nil, _ => by simp [Edges.rel]
  | .cons l c r, hsw => by
    obtain ⟨⟨t, ht⟩, hc, hr, hlt⟩ := hsw
    simp only [Edges.rel]
    refine List.pairwise_append.mpr ⟨sorted_map_prefix _ _ (Node.rel_sorted c hc), Edges.rel_sorted r hr, ?_⟩
    intro a ha b hb
    obtain ⟨q, _, rfl⟩ := List.mem_map.mp ha
    obtain ⟨l', hl', t', ht'⟩ := Edges.rel_head r hr b hb
    simp only [ht, ht', List.cons_append]
    exact keyLt_heads _ _ _ _ (hlt l' hl')
end

/-! ### the keys stored in the leaves -/

mutual
/-- every leaf stores the key of its position (`path` = key prefix consumed up to and including
    the node's own prefix) -/
def Node.LK : Key → Node → Prop
  | path, .mk leaf _ edges => (∀ l, leaf = some l → l.key = path) ∧ Edges.LK path edges
def Edges.LK : Key → Edges → Prop
  | _, .nil => True
  | path, .cons _ c r => Node.LK (path ++ c.pre) c ∧ Edges.LK path r
end

mutual
/-- **the walk is the association list**, with absolute keys -/
theorem Node.walk_rel : ∀ (n : Node) (path : Key), Node.LK path n →
    (Node.walk n).map (fun l => (l.key, l.val)) = (Node.rel n).map (fun p => (path ++ p.1, p.2))
  | .mk leaf pre edges, path, hlk => by
    obtain ⟨hl, hE⟩ := hlk
    have := Edges.walk_rel edges path hE
    cases leaf with
    | none => simpa [Node.walk, Node.rel] using this
    | some l => simp [Node.walk, Node.rel, this, hl l rfl]
theorem Edges.walk_rel : ∀ (es : Edges) (path : Key), Edges.LK path es →
    (Edges.walk es).map (fun l => (l.key, l.val)) = (Edges.rel es).map (fun p => (path ++ p.1, p.2))
  | .nil, _, _ => rfl
  | .cons l c r, path, hlk => by
    obtain ⟨hc, hr⟩ := hlk
    simp only [Edges.walk, Edges.rel, List.map_append, List.map_map, Node.walk_rel c _ hc,
      Edges.walk_rel r path hr]
    congr 1
    apply List.map_congr_left
    intro p _
    simp [List.append_assoc]
end

theorem walk_length (n : Node) (path : Key) (h : Node.LK path n) : (Node.walk n).length = (Node.rel n).length := by
  have := congrArg List.length (Node.walk_rel n path h)
  simpa using this

end Influx.Radix
