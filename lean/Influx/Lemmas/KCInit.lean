/-
  Lemmas.KCInit — newKeyCursor's state after `seek(t)` satisfies the invariants, and the whole
  read `runSeeks` for a list of well-formed locations in an OrderOK order.
-/
import Influx.Lemmas.KCDescRun
import Influx.Model.KCRun

namespace Influx.KC
open Influx.Generated.KeyCursor

variable {V : Type} {n : Nat}

theorem wrapDec_eq {t : Int} (h : minI64 < t) : wrapDec t = t - 1 := by
  unfold wrapDec; split <;> omega
theorem wrapInc_eq {t : Int} (h : t < maxI64) : wrapInc t = t + 1 := by
  unfold wrapInc; split <;> omega

theorem init_asc (B : Vector (Block V) n) (hwf : ∀ i : Fin n, BlockWF B[i]) {t : Int} (ht : minI64 < t) :
    (Cursor.init B t true).blocks = B ∧ (Cursor.init B t true).ascending = true ∧
    InvA B (Cursor.init B t true).rd (t - 1) (Cursor.init B t true).current ∧
    0 ≤ (Cursor.init B t true).pos ∧
    ∀ i ∈ (Cursor.init B t true).current, (Cursor.init B t true).pos ≤ (i.val : Int) := by
  have hrd : ∀ i : Fin n, (Vector.replicate n (initMark t true))[i] = (minI64, t - 1) := by
    intro i
    simp [initMark, wrapDec_eq ht]
  have hincr : ((List.finRange n).filter fun i => decide (t < B[i].entry.MinTime) || Contains B[i].entry t).Pairwise (· < ·) :=
    (List.pairwise_lt_finRange n).filter _
  simp only [Cursor.init, if_true]
  refine ⟨trivial, trivial, ?_, ?_, ?_⟩
  · refine { rmin := ?_, rmax := ?_, done := ?_, cover := ?_, incr := hincr }
    · intro i; rw [hrd i]
    · intro i; rw [hrd i]; exact Int.le_refl _
    · intro i p _ hp; rw [hrd i]; exact hp
    · intro i hi
      apply List.mem_filter.2
      refine ⟨List.mem_finRange i, ?_⟩
      obtain ⟨p, hp⟩ := List.exists_mem_of_ne_nil _ hi
      obtain ⟨hl, hn⟩ := mem_curVals.1 hp
      rw [hrd i] at hn
      have h1 := (hwf i).live_inEntry hl
      have h2 := (hwf i).lo
      simp only [Contains, Bool.or_eq_true, Bool.and_eq_true, decide_eq_true_eq]
      simp only [Fin.getElem_fin] at *
      omega
  · split
    · exact Int.le_refl _
    · exact Int.natCast_nonneg _
  · intro i hi
    split
    · rename_i h; rw [h] at hi; cases hi
    · rename_i j js h
      rw [h] at hi hincr
      rcases List.mem_cons.1 hi with rfl | hi
      · exact Int.le_refl _
      · have : j < i := (List.pairwise_cons.1 hincr).1 i hi
        have : j.val < i.val := this
        omega

theorem init_desc (B : Vector (Block V) n) (hwf : ∀ i : Fin n, BlockWF B[i]) {t : Int} (ht : t < maxI64) :
    (Cursor.init B t false).blocks = B ∧ (Cursor.init B t false).ascending = false ∧
    InvD B (Cursor.init B t false).rd (t + 1) (Cursor.init B t false).current ∧
    (Cursor.init B t false).pos ≤ n ∧
    ∀ i ∈ (Cursor.init B t false).current, (i.val : Int) ≤ (Cursor.init B t false).pos := by
  have hrd : ∀ i : Fin n, (Vector.replicate n (initMark t false))[i] = (t + 1, maxI64) := by
    intro i
    simp [initMark, wrapInc_eq ht]
  have hdecr : ((List.finRange n).reverse.filter fun i => decide (t > B[i].entry.MaxTime) || Contains B[i].entry t).Pairwise (· > ·) := by
    apply List.Pairwise.filter
    apply List.pairwise_reverse.2
    exact (List.pairwise_lt_finRange n).imp (fun h => h)
  simp only [Cursor.init, Bool.false_eq_true, if_false]
  refine ⟨trivial, trivial, ?_, ?_, ?_⟩
  · refine { rmax := ?_, rmin := ?_, done := ?_, cover := ?_, shape := ?_ }
    · intro i; rw [hrd i]
    · intro i; rw [hrd i]; exact Int.le_refl _
    · intro i p _ hp; rw [hrd i]; exact hp
    · intro i hi
      apply List.mem_filter.2
      refine ⟨List.mem_reverse.2 (List.mem_finRange i), ?_⟩
      obtain ⟨p, hp⟩ := List.exists_mem_of_ne_nil _ hi
      obtain ⟨hl, hn⟩ := mem_curVals.1 hp
      rw [hrd i] at hn
      have h1 := (hwf i).live_inEntry hl
      have h2 := (hwf i).hi
      simp only [Contains, Bool.or_eq_true, Bool.and_eq_true, decide_eq_true_eq]
      simp only [Fin.getElem_fin] at *
      omega
    · cases h : ((List.finRange n).reverse.filter fun i => decide (t > B[i].entry.MaxTime) || Contains B[i].entry t) with
      | nil => trivial
      | cons f rest =>
        rw [h] at hdecr
        obtain ⟨h1, h2⟩ := List.pairwise_cons.1 hdecr
        exact ⟨h2, fun b hb => Fin.le_of_lt (h1 b hb)⟩
  · split
    · exact Int.natCast_nonneg _
    · rename_i j js h
      have := j.isLt
      omega
  · intro i hi
    split
    · rename_i h; rw [h] at hi; cases hi
    · rename_i j js h
      rw [h] at hi hdecr
      rcases List.mem_cons.1 hi with rfl | hi
      · exact Int.le_refl _
      · have : j > i := (List.pairwise_cons.1 hdecr).1 i hi
        have : i.val < j.val := this
        omega

/-! ### lists of locations -/

/-- "newest file wins" over a list of locations -/
def WinnerL (seeks : List (Block V)) (p : Int × V) : Prop :=
  ∃ b ∈ seeks, p ∈ live b ∧ ∀ c ∈ seeks, p.1 ∈ keys (live c) → c.file ≤ b.file

theorem orderOK_iff (seeks : List (Block V)) :
    orderOK seeks = true ↔ seeks.Pairwise fun b c =>
      b.entry.MinTime ≤ c.entry.MaxTime → c.entry.MinTime ≤ b.entry.MaxTime → b.file < c.file := by
  induction seeks with
  | nil => simp [orderOK]
  | cons b rest ih =>
    simp only [orderOK, Bool.and_eq_true, List.all_eq_true, List.pairwise_cons, ih]
    constructor
    · rintro ⟨h1, h2⟩
      refine ⟨?_, h2⟩
      intro c hc o1 o2
      have := h1 c hc
      simp [OverlapsTimeRange] at this
      rcases this with h | h
      · omega
      · exact h
    · rintro ⟨h1, h2⟩
      refine ⟨?_, h2⟩
      intro c hc
      simp only [OverlapsTimeRange, Bool.or_eq_true, Bool.not_eq_true', Bool.and_eq_false_iff,
        decide_eq_false_iff_not, decide_eq_true_eq]
      by_cases o1 : b.entry.MinTime ≤ c.entry.MaxTime
      · by_cases o2 : c.entry.MinTime ≤ b.entry.MaxTime
        · exact Or.inr (h1 c hc o1 o2)
        · exact Or.inl (Or.inr (by omega))
      · exact Or.inl (Or.inl o1)

theorem finRange_map_getElem (l : List (Block V)) :
    (List.finRange l.length).map (fun i => l[i]) = l := by
  apply List.ext_getElem
  · simp
  · intro i h1 h2
    simp

theorem cntAbove_le (seeks : List (Block V)) (W : Int) :
    cntAbove (⟨seeks.toArray, by simp⟩ : Vector (Block V) seeks.length) W ≤ totalPoints seeks := by
  unfold cntAbove totalPoints
  refine Nat.le_trans List.countP_le_length ?_
  rw [List.length_flatMap]
  have : (List.finRange seeks.length).map (fun i => ((⟨seeks.toArray, by simp⟩ : Vector (Block V) seeks.length)[i]).vals.length)
      = seeks.map (·.vals.length) := by
    conv => rhs; rw [← finRange_map_getElem seeks]
    simp [List.map_map, Function.comp_def]
  rw [this]
  exact Nat.le_refl _

theorem cntBelow_le (seeks : List (Block V)) (W : Int) :
    cntBelow (⟨seeks.toArray, by simp⟩ : Vector (Block V) seeks.length) W ≤ totalPoints seeks := by
  unfold cntBelow totalPoints
  refine Nat.le_trans List.countP_le_length ?_
  rw [List.length_flatMap]
  have : (List.finRange seeks.length).map (fun i => ((⟨seeks.toArray, by simp⟩ : Vector (Block V) seeks.length)[i]).vals.length)
      = seeks.map (·.vals.length) := by
    conv => rhs; rw [← finRange_map_getElem seeks]
    simp [List.map_map, Function.comp_def]
  rw [this]
  exact Nat.le_refl _

section
variable (seeks : List (Block V))

/-- the vector `runSeeks` builds -/
def vecOf : Vector (Block V) seeks.length := ⟨seeks.toArray, by simp⟩

theorem vecOf_get (i : Fin seeks.length) : (vecOf seeks)[i] = seeks[i] := by
  simp [vecOf]

theorem vecOf_wf (hwf : ∀ b ∈ seeks, BlockWF b) (i : Fin seeks.length) : BlockWF (vecOf seeks)[i] := by
  rw [vecOf_get]; exact hwf _ (List.getElem_mem _)

theorem vecOf_order (hord : orderOK seeks = true) : OrderOKv (vecOf seeks) := by
  intro i j hij o1 o2
  rw [vecOf_get] at o1 o2 ⊢
  rw [vecOf_get] at o1 o2 ⊢
  have := List.pairwise_iff_getElem.1 ((orderOK_iff seeks).1 hord) i.val j.val i.isLt j.isLt hij
  exact this o1 o2

theorem isWinner_vecOf (p : Int × V) : IsWinner (vecOf seeks) p ↔ WinnerL seeks p := by
  constructor
  · rintro ⟨i, hl, hmax⟩
    rw [vecOf_get] at hl
    refine ⟨seeks[i], List.getElem_mem _, hl, ?_⟩
    intro c hc hk
    obtain ⟨k, hk', rfl⟩ := List.mem_iff_getElem.1 hc
    have := hmax ⟨k, hk'⟩ (by rw [vecOf_get]; exact hk)
    rwa [vecOf_get, vecOf_get] at this
  · rintro ⟨b, hb, hl, hmax⟩
    obtain ⟨k, hk', rfl⟩ := List.mem_iff_getElem.1 hb
    refine ⟨⟨k, hk'⟩, by rw [vecOf_get]; exact hl, ?_⟩
    intro j hj
    rw [vecOf_get] at hj
    have := hmax seeks[j] (List.getElem_mem _) hj
    rw [vecOf_get, vecOf_get]
    exact this

/-- the whole ascending read for well-formed locations in an OrderOK order -/
theorem runSeeks_asc (hwf : ∀ b ∈ seeks, BlockWF b) (hord : orderOK seeks = true) {t : Int} (ht : minI64 < t) :
    ∃ bs, runSeeks seeks t true = some bs ∧ SortedV bs.flatten ∧ (∀ b ∈ bs, b ≠ []) ∧
      ∀ p, p ∈ bs.flatten ↔ WinnerL seeks p ∧ t ≤ p.1 := by
  obtain ⟨h1, h2, h3, h4, h5⟩ := init_asc (vecOf seeks) (vecOf_wf seeks hwf) ht
  obtain ⟨bs, hd, hs, hne, hm⟩ := drain_asc (vecOf_wf seeks hwf) (vecOf_order seeks hord)
    (totalPoints seeks + 1) _ (t - 1) h1 h2 h3 h4 h5
    (Nat.lt_succ_of_le (cntAbove_le seeks (t - 1)))
  refine ⟨bs, hd, hs, hne, ?_⟩
  intro p
  rw [hm p, isWinner_vecOf]
  constructor
  · rintro ⟨a, b⟩; exact ⟨a, by omega⟩
  · rintro ⟨a, b⟩; exact ⟨a, by omega⟩

/-- the whole descending read -/
theorem runSeeks_desc (hwf : ∀ b ∈ seeks, BlockWF b) (hord : orderOK seeks = true) {t : Int} (ht : t < maxI64) :
    ∃ bs, runSeeks seeks t false = some bs ∧ SortedV bs.reverse.flatten ∧ (∀ b ∈ bs, b ≠ []) ∧
      ∀ p, p ∈ bs.reverse.flatten ↔ WinnerL seeks p ∧ p.1 ≤ t := by
  obtain ⟨h1, h2, h3, h4, h5⟩ := init_desc (vecOf seeks) (vecOf_wf seeks hwf) ht
  obtain ⟨bs, hd, hs, hne, hm⟩ := drain_desc (vecOf_wf seeks hwf) (vecOf_order seeks hord)
    (totalPoints seeks + 1) _ (t + 1) h1 h2 h3 h4 h5
    (Nat.lt_succ_of_le (cntBelow_le seeks (t + 1)))
  refine ⟨bs, hd, hs, hne, ?_⟩
  intro p
  rw [hm p, isWinner_vecOf]
  constructor
  · rintro ⟨a, b⟩; exact ⟨a, by omega⟩
  · rintro ⟨a, b⟩; exact ⟨a, by omega⟩

end

end Influx.KC
