/-
  Lemmas.C36RadixSim2 — one radix op: the statement accepts the model's answer and the
  relation between the tree and the abstract association list is kept.
-/
import Influx.Lemmas.C36RadixSim

namespace Influx.C36
open Influx.Radix Influx.Spec.C36

/-- tree vs. abstract association list -/
structure RTok (tr : Radix.Tree) (m : Assoc) (deleted : Bool) : Prop where
  sw : Node.SW tr.root
  lk : Node.LK [] tr.root
  pre : tr.root.pre = []
  ne : deleted = false → Node.NE tr.root
  size : tr.size = m.length
  nodup : NodupKeys m
  rel : Node.rel tr.root = m.sorted

def RT : Option Radix.Tree → TSpec → Prop
  | none, sp => sp.tree = none
  | some tr, sp => ∃ m, sp.tree = some m ∧ RTok tr m sp.deleted

/-- `Minimum`/`Maximum` are only claimed while no `DeletePrefix` has run (known finding) -/
def TOp.okAt (deleted : Bool) : TOp → Prop
  | .min => deleted = false
  | .max => deleted = false
  | _ => True

theorem walk_pairs {tr : Radix.Tree} {m : Assoc} {d : Bool} (h : RTok tr m d) :
    (Node.walk tr.root).map (fun l => (l.key, l.val)) = m.sorted := by
  rw [Node.walk_rel tr.root [] h.lk, h.rel]
  simp

theorem stepT_sim (t : Option Radix.Tree) (sp : TSpec) (op : TOp) (hR : RT t sp) (hok : TOp.okAt sp.deleted op) :
    (checkT sp op (stepT t op).2).2 = none ∧ RT (stepT t op).1 (checkT sp op (stepT t op).2).1 := by
  cases op with
  | new =>
    refine ⟨by simp [stepT, checkT, expect], ?_⟩
    simp only [stepT, checkT]
    exact ⟨[], rfl, by simp [Radix.Tree.empty, Node.SW, Edges.SW],
      ⟨fun l hl => (by cases hl), trivial⟩, rfl, fun _ => trivial, rfl, by simp [NodupKeys],
      by simp [Radix.Tree.empty, Node.rel, Edges.rel, Assoc.sorted]⟩
  | ins k v =>
    cases t with
    | none =>
      have : sp.tree = none := hR
      simp [stepT, checkT, this, expect, RT]
    | some tr =>
      obtain ⟨m, hm, h⟩ := hR
      obtain ⟨i1, i2, i3, i4⟩ := Node.insert_spec tr.root k k v h.sw
      have hlook : lookup k (Node.rel tr.root) = m.find k := by
        rw [h.rel]; exact lookup_sorted_eq_find m h.nodup k
      simp only [stepT, checkT, hm, Radix.Tree.insert]
      cases hf : m.find k with
      | some old =>
        have := i3 old (by rw [hlook, hf])
        simp only [this]
        exact ⟨by simp [expect], m, hm, h⟩
      | none =>
        obtain ⟨j1, j2⟩ := i4 (by rw [hlook, hf])
        simp only [j1]
        refine ⟨by simp [expect], (k, v) :: m, rfl, ?_⟩
        have hnd : NodupKeys ((k, v) :: m) :=
          (nodupKeys_cons _ _).mpr ⟨(find_none_iff m k).mp hf, h.nodup⟩
        refine ⟨i1, Node.insert_LK tr.root [] k k v h.lk rfl, by rw [Node.insert_spec_pre]; exact h.pre,
          fun hd => (Node.insert_NE tr.root k k v (h.ne hd)).1, by simp [h.size], hnd, ?_⟩
        apply sortedKV_ext _ _ (Node.rel_sorted _ i1) (sorted_sorted _ hnd)
        intro x
        rw [j2 x, mem_sorted, h.rel, mem_sorted]
        simp only [List.mem_cons]
        constructor
        · rintro (h1 | h1)
          · exact Or.inr h1
          · exact Or.inl h1
        · rintro (h1 | h1)
          · exact Or.inr h1
          · exact Or.inl h1
  | get k =>
    cases t with
    | none =>
      have : sp.tree = none := hR
      simp [stepT, checkT, this, expect, RT]
    | some tr =>
      obtain ⟨m, hm, h⟩ := hR
      have hlook : tr.get k = m.find k := by
        unfold Radix.Tree.get
        rw [Node.get_rel tr.root k h.sw, h.rel]
        exact lookup_sorted_eq_find m h.nodup k
      simp only [stepT, checkT, hm, hlook]
      cases hf : m.find k with
      | some v => exact ⟨by simp [expect], m, hm, h⟩
      | none => exact ⟨by simp [expect], m, hm, h⟩
  | del p =>
    cases t with
    | none =>
      have : sp.tree = none := hR
      simp [stepT, checkT, this, expect, RT]
    | some tr =>
      obtain ⟨m, hm, h⟩ := hR
      simp only [stepT, checkT, hm]
      have hpart : (m.filter (fun q => isPrefix p q.1)).length + (m.filter (fun q => !isPrefix p q.1)).length
          = m.length := length_filter_partition (fun q : KV => isPrefix p q.1) m
      cases p with
      | nil =>
        -- everything goes
        have hall : m.filter (fun q => isPrefix [] q.1) = m := by
          rw [List.filter_eq_self]; intro q _; simp [isPrefix]
        have hnone : m.filter (fun q => !isPrefix [] q.1) = [] := by
          rw [List.filter_eq_nil_iff]; intro q _; simp [isPrefix]
        have hcnt : (Node.walk tr.root).length = m.length := by
          rw [Node.walk_len, h.rel, length_sorted]
        simp only [Radix.Tree.deletePrefix, hall, hnone, hcnt]
        refine ⟨by simp [expect], [], rfl, ?_⟩
        refine ⟨by simp [Node.SW, Edges.SW], ⟨fun l hl => (by cases hl), trivial⟩, by rw [Node.pre_mk]; exact h.pre,
          fun hd => (by cases hd), by simp [h.size], by simp [NodupKeys],
          by simp [Node.rel, Edges.rel, Assoc.sorted]⟩
      | cons c rest =>
        obtain ⟨g1, g2, g3, _, _, g6, g7, _⟩ := Node.del_spec tr.root true c rest h.sw
        have hrel' : Node.rel (Node.del tr.root true (c :: rest)).1 =
            Assoc.sorted (m.filter (fun q => !isPrefix (c :: rest) q.1)) := by
          apply sortedKV_ext _ _ (Node.rel_sorted _ g1) (sorted_sorted _ (nodup_filter m _ h.nodup))
          intro x
          rw [g2, h.rel, mem_sorted, List.mem_filter, List.mem_filter, mem_sorted]
          simp [keep, isPrefix_eq_pfx]
        have hlen' : (Node.rel (Node.del tr.root true (c :: rest)).1).length =
            (m.filter (fun q => !isPrefix (c :: rest) q.1)).length := by
          rw [hrel', length_sorted]
        have hcnt : (Node.del tr.root true (c :: rest)).2 = (m.filter (fun q => isPrefix (c :: rest) q.1)).length := by
          have := g3
          rw [hlen', h.rel, length_sorted] at this
          omega
        simp only [Radix.Tree.deletePrefix, hcnt]
        refine ⟨by simp [expect], _, rfl, ?_⟩
        refine ⟨g1, g7 [] h.lk, by rw [g6 rfl]; exact h.pre, fun hd => (by cases hd), ?_,
          nodup_filter m _ h.nodup, hrel'⟩
        simp only
        rw [h.size]
        have : (m.length : Int) = ((m.filter (fun q => isPrefix (c :: rest) q.1)).length : Int) +
            ((m.filter (fun q => !isPrefix (c :: rest) q.1)).length : Int) := by
          exact_mod_cast hpart.symm
        omega
  | min =>
    cases t with
    | none =>
      have : sp.tree = none := hR
      simp [stepT, checkT, this, expect, RT]
    | some tr =>
      obtain ⟨m, hm, h⟩ := hR
      have hd : sp.deleted = false := hok
      have hmin := Node.min_eq tr.root (h.ne hd)
      have hw := walk_pairs h
      simp only [stepT, checkT, hm, hmin]
      refine ⟨?_, m, hm, h⟩
      cases hwk : Node.walk tr.root with
      | nil =>
        rw [hwk] at hw
        simp only [List.map_nil] at hw
        simp [← hw, leafObs, expect]
      | cons l ls =>
        rw [hwk] at hw
        simp only [List.map_cons] at hw
        simp [← hw, leafObs, expect]
  | max =>
    cases t with
    | none =>
      have : sp.tree = none := hR
      simp [stepT, checkT, this, expect, RT]
    | some tr =>
      obtain ⟨m, hm, h⟩ := hR
      have hd : sp.deleted = false := hok
      have hmax := Node.max_eq tr.root (h.ne hd)
      have hw := walk_pairs h
      simp only [stepT, checkT, hm, hmax]
      refine ⟨?_, m, hm, h⟩
      have hlast : (m.sorted).getLast? = ((Node.walk tr.root).getLast?).map (fun l => (l.key, l.val)) := by
        rw [← hw, List.getLast?_map]
      rw [hlast]
      cases (Node.walk tr.root).getLast? with
      | none => simp [leafObs, expect]
      | some l => simp [leafObs, expect]
  | len =>
    cases t with
    | none =>
      have : sp.tree = none := hR
      simp [stepT, checkT, this, expect, RT]
    | some tr =>
      obtain ⟨m, hm, h⟩ := hR
      simp only [stepT, checkT, hm]
      exact ⟨by simp [expect, h.size], m, hm, h⟩
  | walk =>
    cases t with
    | none =>
      have : sp.tree = none := hR
      simp [stepT, checkT, this, expect, RT]
    | some tr =>
      obtain ⟨m, hm, h⟩ := hR
      simp only [stepT, checkT, hm, walk_pairs h]
      exact ⟨by simp [expect], m, hm, h⟩
  | dump =>
    cases t with
    | none =>
      have : sp.tree = none := hR
      simp [stepT, checkT, this, expect, RT]
    | some tr =>
      obtain ⟨m, hm, h⟩ := hR
      simp only [stepT, checkT, hm]
      exact ⟨trivial, m, hm, h⟩

end Influx.C36
