/-
  Lemmas.C13Sim1 — lookups and creation of series against the statement's `observe`.
-/
import Influx.Lemmas.C13Global

namespace Influx.C13
open Influx.SF Influx.Spec.C13

variable {pf : Bytes → Nat} {ess : Nat → List Entry} {ps : List Part} {sp : SpecState}

/-- replace the entries of partition `j` -/
def upd (ess : Nat → List Entry) (j : Nat) (es : List Entry) : Nat → List Entry :=
  fun i => if i = j then es else ess i

theorem upd_same (ess : Nat → List Entry) (j : Nat) (es : List Entry) : upd ess j es j = es := by simp [upd]
theorem upd_other (ess : Nat → List Entry) (j i : Nat) (es : List Entry) (h : i ≠ j) : upd ess j es i = ess i := by
  simp [upd, h]

/-- a lookup of a key is accepted by the statement and teaches it nothing new -/
theorem observe_lookup (h : PartsInv ess ps) (hr : Rel0 pf ess sp) {k : Bytes × Nat} (hk : KeyOK pf k)
    {p : Part} (hp : ps[k.2]? = some p) :
    observe sp k.1 (p.findID k.1) false = (sp, none) := by
  obtain ⟨h1, h2⟩ := findID_global h hk hp
  unfold observe
  by_cases h0 : p.findID k.1 = 0
  · have := (idOf_none_iff h hr k.1).mpr (h2 h0)
    simp [this, h0]
  · have := (idOf_iff h hr k.1 _).mpr (h1 h0)
    simp [this]

theorem PartsInv.set (h : PartsInv ess ps) {j : Nat} (hj : j < partN) {q : Part} {es' : List Entry}
    (hpid : q.pid = j) (hinv : PInv2 q es') (hseq : q.seq < 2 ^ 64) :
    PartsInv (upd ess j es') (ps.set j q) := by
  refine ⟨by simp [h.len], ?_, ?_⟩
  · intro i p hp
    rw [List.getElem?_set] at hp
    by_cases hij : j = i
    · subst hij
      have hl : j < ps.length := by rw [h.len]; exact hj
      simp only [hl, if_true, Option.some.injEq] at hp
      subst hp
      rw [upd_same]
      exact ⟨hpid, hinv, hseq⟩
    · simp only [hij, if_false] at hp
      rw [upd_other _ _ _ _ (Ne.symm hij)]
      exact h.inv i p hp
  · intro i hi
    rw [upd_other _ _ _ _ (by omega)]
    exact h.out i hi

/-- swapping a partition for one with the same entries -/
theorem PartsInv.set_same (h : PartsInv ess ps) {j : Nat} (hj : j < partN) {q : Part}
    (hpid : q.pid = j) (hinv : PInv2 q (ess j)) (hseq : q.seq < 2 ^ 64) :
    PartsInv ess (ps.set j q) := by
  have := h.set hj hpid hinv hseq
  have hupd : upd ess j (ess j) = ess := by
    funext i; by_cases hi : i = j <;> simp [upd, hi]
  rw [hupd] at this; exact this

theorem live_snoc_insert {es : List Entry} {e : Entry} (hf : e.flag = insertFlag) (hnt : ¬ Tombed es e.id)
    (x : Entry) : Live (es ++ [e]) x ↔ Live es x ∨ x = e := by
  unfold Live
  constructor
  · rintro ⟨hm, hfx, hntx⟩
    rcases List.mem_append.mp hm with h1 | h1
    · exact Or.inl ⟨h1, hfx, fun ht => hntx ((tombed_snoc es e x.id).mpr (Or.inl ht))⟩
    · exact Or.inr (by simpa using h1)
  · rintro (⟨hm, hfx, hntx⟩ | rfl)
    · refine ⟨by simp [hm], hfx, fun ht => ?_⟩
      rcases (tombed_snoc es e x.id).mp ht with h1 | ⟨h1, _⟩
      · exact hntx h1
      · exact h1 hf
    · refine ⟨by simp, hf, fun ht => ?_⟩
      rcases (tombed_snoc es x x.id).mp ht with h1 | ⟨h1, _⟩
      · exact hnt h1
      · exact h1 hf

theorem live_snoc_tomb {es : List Entry} {t : Entry} (hf : t.flag ≠ insertFlag)
    (x : Entry) : Live (es ++ [t]) x ↔ Live es x ∧ x.id ≠ t.id := by
  unfold Live
  constructor
  · rintro ⟨hm, hfx, hntx⟩
    rcases List.mem_append.mp hm with h1 | h1
    · refine ⟨⟨h1, hfx, fun ht => hntx ((tombed_snoc es t x.id).mpr (Or.inl ht))⟩, fun hid => ?_⟩
      exact hntx ((tombed_snoc es t x.id).mpr (Or.inr ⟨hf, hid.symm⟩))
    · have : x = t := by simpa using h1
      subst this; exact absurd hfx hf
  · rintro ⟨⟨hm, hfx, hntx⟩, hne⟩
    refine ⟨by simp [hm], hfx, fun ht => ?_⟩
    rcases (tombed_snoc es t x.id).mp ht with h1 | ⟨_, h1⟩
    · exact hntx h1
    · exact hne h1.symm

/-- one key of a create batch -/
theorem createOne_sim (h : PartsInv ess ps) (hr : Rel0 pf ess sp) {k : Bytes × Nat} (hk : KeyOK pf k)
    {p : Part} (hp : ps[k.2]? = some p) (hsmall : (p.createOne k.1).2 < 2 ^ 63) :
    ∃ ess' sp', PartsInv ess' (ps.set k.2 (p.createOne k.1).1) ∧
      observe sp k.1 (p.createOne k.1).2 true = (sp', none) ∧ Rel0 pf ess' sp' ∧
      (p.createOne k.1).1.threshold = p.threshold := by
  obtain ⟨hpid, hinv, hseq⟩ := h.inv _ _ hp
  have hj := hk.lt
  by_cases hex : ∃ e, Live (ess k.2) e ∧ e.key = k.1
  · -- the series exists: same id, nothing changes
    obtain ⟨e, hl, hke⟩ := hex
    have hc := createOne_live hinv hl
    rw [hke] at hc
    rw [hc]
    have hgl : GLive pf ess k.1 e.id := ⟨e, by rw [← hk.part]; exact hl, hke, rfl⟩
    refine ⟨ess, sp, h.set_same hj hpid hinv hseq, ?_, hr, rfl⟩
    unfold observe
    simp [(idOf_iff h hr k.1 e.id).mpr hgl]
  · -- a new series
    have hno : ∀ e, Live (ess k.2) e → e.key ≠ k.1 := fun e hl hke => hex ⟨e, hl, hke⟩
    obtain ⟨hid, hinv', hseq', hpid', hthr⟩ := createOne_new hinv k.1 hk.short hno hseq
    rw [hid] at hsmall
    have hnone : sp.idOf k.1 = none := by
      apply (idOf_none_iff h hr k.1).mpr
      rintro id ⟨e, hl, hke, _⟩
      rw [← hk.part] at hl
      exact hno e hl hke
    obtain ⟨hmax, hpidle⟩ := seq_gt_max hinv
    have hx0 : p.seq ≠ 0 := by omega
    -- the new id was never handed out
    have hnew : ∀ i, i < partN → ∀ e ∈ ess i, e.flag = insertFlag → e.id ≠ p.seq := by
      intro i hi e he hf hid'
      obtain ⟨pi, hpi, hpidi, hinvi, _⟩ := h.get hi
      obtain ⟨_, hlt, hmod⟩ := hinvi.idPos e he hf
      have hsm := hinv.seqMod
      rw [hpidi, hid'] at hmod
      rw [hpid] at hsm
      have : i = k.2 := by simp only [partN] at hmod hsm hi hj; omega
      subst this
      rw [hp] at hpi
      cases hpi
      omega
    have hnused : sp.used.contains p.seq = false := by
      rw [Bool.eq_false_iff]
      intro hc
      obtain ⟨i, hi, e, he, hf, hid'⟩ := hr.used _ (by simpa using hc)
      exact hnew i hi e he hf hid'
    have hntomb : ¬ Tombed (ess k.2) (newEntry p k.1).id := by
      rintro ⟨t, ht, hft, hidt⟩
      obtain ⟨e, he, hfe, hide, _⟩ := hinv.tombAfter t ht hft
      exact hnew k.2 hj e he hfe (by rw [hide, hidt]; rfl)
    refine ⟨upd ess k.2 (ess k.2 ++ [newEntry p k.1]),
      { sp with live := (k.1, p.seq) :: sp.live, used := p.seq :: sp.used },
      h.set hj (by rw [hpid', hpid]) hinv' (by rw [hseq']; simp only [partN]; omega), ?_, ?_, hthr⟩
    · rw [hid]
      unfold observe
      have hnm : ¬ p.seq ∈ sp.used := by simpa using hnused
      simp [hnone, hx0, hnm]
    · refine ⟨?_, ?_, hr.c1, hr.c2, hr.c3, hr.c4⟩
      · intro k' id'
        simp only [List.mem_cons, Prod.mk.injEq]
        unfold GLive
        by_cases hpk : pf k' = k.2
        · rw [hpk, upd_same]
          constructor
          · rintro (⟨rfl, rfl⟩ | hm)
            · exact ⟨newEntry p k.1, (live_snoc_insert rfl hntomb _).mpr (Or.inr rfl), rfl, rfl⟩
            · obtain ⟨e, hl, hke, hide⟩ := (hr.live k' id').mp hm
              rw [hpk] at hl
              exact ⟨e, (live_snoc_insert rfl hntomb _).mpr (Or.inl hl), hke, hide⟩
          · rintro ⟨e, hl, hke, hide⟩
            rcases (live_snoc_insert rfl hntomb e).mp hl with h1 | h1
            · exact Or.inr ((hr.live k' id').mpr ⟨e, by rw [hpk]; exact h1, hke, hide⟩)
            · subst h1
              exact Or.inl ⟨hke.symm, hide.symm⟩
        · rw [upd_other _ _ _ _ hpk]
          constructor
          · rintro (⟨rfl, rfl⟩ | hm)
            · exact absurd hk.part.symm hpk
            · exact (hr.live k' id').mp hm
          · intro hg; exact Or.inr ((hr.live k' id').mpr hg)
      · intro id hm
        simp only [List.mem_cons] at hm
        rcases hm with rfl | hm
        · exact ⟨k.2, hj, newEntry p k.1, by rw [upd_same]; simp, rfl, rfl⟩
        · obtain ⟨i, hi, e, he, hf, hid'⟩ := hr.used id hm
          refine ⟨i, hi, e, ?_, hf, hid'⟩
          by_cases hik : i = k.2
          · subst hik; rw [upd_same]; simp [he]
          · rw [upd_other _ _ _ _ hik]; exact he

end Influx.C13
