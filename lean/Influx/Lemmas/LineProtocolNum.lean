/-
  Decimal rendering and the number scanners: what `strconv.AppendInt/AppendUint` write is
  accepted by `scanNumber` and read back by `ParseInt/ParseUint` as the same value.
-/
import Influx.Model.LineProtocolPoint

namespace Influx.LP
open Influx.Generated.LineProto

theorem digitsVal_append_single (ds : Bytes) (d : Nat) : digitsVal (ds ++ [d]) = 10 * digitsVal ds + (d - 48) := by
  simp [digitsVal, List.foldl_append]

theorem natDigitsAux_spec (f n : Nat) (acc : Bytes) (h : n < f) :
    ∃ ds, natDigitsAux f n acc = ds ++ acc ∧ ds ≠ [] ∧ (∀ b ∈ ds, isDigit b = true) ∧ digitsVal ds = n := by
  induction f generalizing n acc with
  | zero => omega
  | succ f ih =>
    unfold natDigitsAux
    by_cases hn : n < 10
    · refine ⟨[48 + n], by simp [hn], by simp, ?_, ?_⟩
      · intro b hb; simp at hb; subst hb; simp [isDigit]; omega
      · simp [digitsVal]
    · obtain ⟨ds, h1, h2, h3, h4⟩ := ih (n / 10) ((48 + n % 10) :: acc) (by omega)
      refine ⟨ds ++ [48 + n % 10], by simp [hn, h1], by simp, ?_, ?_⟩
      · intro b hb
        rcases List.mem_append.mp hb with hb | hb
        · exact h3 b hb
        · simp at hb; subst hb; simp [isDigit]; omega
      · rw [digitsVal_append_single, h4]; omega

theorem natDigits_spec (n : Nat) :
    natDigits n ≠ [] ∧ (∀ b ∈ natDigits n, isDigit b = true) ∧ digitsVal (natDigits n) = n := by
  obtain ⟨ds, h1, h2, h3, h4⟩ := natDigitsAux_spec (n + 1) n [] (by omega)
  unfold natDigits
  rw [h1]; simp only [List.append_nil]
  exact ⟨h2, h3, h4⟩

theorem all_isDigit_natDigits (n : Nat) : (natDigits n).all isDigit = true := by
  simp only [List.all_eq_true]; exact (natDigits_spec n).2.1

theorem natDigits_head (n : Nat) : ∃ d r, natDigits n = d :: r ∧ isDigit d = true := by
  obtain ⟨h1, h2, _⟩ := natDigits_spec n
  cases h : natDigits n with
  | nil => exact absurd h h1
  | cons d r => exact ⟨d, r, rfl, h2 d (by simp [h])⟩

theorem parseUintGo_natDigits (n : Nat) (h : n < 2 ^ 64) : parseUintGo (natDigits n) = .ok n := by
  obtain ⟨h1, _, h3⟩ := natDigits_spec n
  unfold parseUintGo
  have he : (natDigits n).isEmpty = false := by cases hh : natDigits n <;> simp_all
  simp [he, all_isDigit_natDigits, h3, h]

theorem isDigit_ne (d : Nat) (h : isDigit d = true) : d ≠ 45 ∧ d ≠ 43 ∧ d ≠ 105 ∧ d ≠ 117 ∧ d ≠ 46 ∧ d ≠ 101 ∧
    d ≠ 69 ∧ d ≠ 32 ∧ d ≠ 44 ∧ d ≠ 34 ∧ d ≠ 92 ∧ d ≠ 61 ∧ d ≠ 10 ∧ d ≠ 9 ∧ d ≠ 0 := by
  simp [isDigit] at h; omega

theorem parseIntGo_intDigits (i : Int) (h1 : -(2 ^ 63 : Int) ≤ i) (h2 : i < 2 ^ 63) :
    parseIntGo (intDigits i) = .ok i := by
  obtain ⟨d, r, hd, hdig⟩ := natDigits_head i.natAbs
  obtain ⟨hne, _, hval⟩ := natDigits_spec i.natAbs
  have hall := all_isDigit_natDigits i.natAbs
  have he : (natDigits i.natAbs).isEmpty = false := by rw [hd]; rfl
  unfold parseIntGo intDigits
  by_cases hneg : i < 0
  · simp only [hneg, if_true, List.head?_cons, List.drop_succ_cons, List.drop_zero, true_or, decide_true]
    simp only [he, hall, Bool.not_true, Bool.or_false, Bool.false_eq_true, if_false, hval]
    have : i.natAbs ≤ 2 ^ 63 := by omega
    simp [this]; omega
  · have hd45 := (isDigit_ne d hdig).1
    have hd43 := (isDigit_ne d hdig).2.1
    simp only [hneg, if_false, hd, List.head?_cons, Option.some.injEq, hd45, hd43, or_self, decide_false]
    rw [← hd]
    simp only [he, hall, Bool.not_true, Bool.or_false, Bool.false_eq_true, if_false, hval]
    have : i.natAbs < 2 ^ 63 := by omega
    simp [this]; omega

/-! ### `scanNumber` on rendered integers -/

theorem scanNumberLoop_digit (st : NumSt) (a : Bool) (p d : Nat) (rest : Bytes) (h : isDigit d = true) :
    scanNumberLoop st a p (d :: rest) = scanNumberLoop st false d rest := by
  obtain ⟨h45, h43, h105, h117, h46, h101, h69, _⟩ := isDigit_ne d h
  have hnum : isNumeric d = true := by simp [isNumeric, h]
  rw [scanNumberLoop]
  simp [h105, h117, h46, h101, h69, h45, h43, hnum]

theorem scanNumberLoop_digits (st : NumSt) (a : Bool) (p : Nat) (ds rest : Bytes)
    (hd : ∀ b ∈ ds, isDigit b = true) (hne : ds ≠ []) :
    ∃ p', scanNumberLoop st a p (ds ++ rest) = scanNumberLoop st false p' rest := by
  induction ds generalizing a p with
  | nil => exact absurd rfl hne
  | cons d ds ih =>
    rw [List.cons_append, scanNumberLoop_digit _ _ _ _ _ (hd d (by simp))]
    cases ds with
    | nil => exact ⟨d, rfl⟩
    | cons d' ds' => exact ih false d (fun b hb => hd b (by simp [hb])) (by simp)

theorem getLast?_append_single (l : Bytes) (x : Nat) : (l ++ [x]).getLast? = some x := by simp

theorem checkNumber_int (v : Int) (h1 : -(2 ^ 63 : Int) ≤ v) (h2 : v < 2 ^ 63) :
    checkNumber (intDigits v ++ [105]) = .ok () := by
  obtain ⟨d, r, hd, hdig⟩ := natDigits_head v.natAbs
  obtain ⟨hne, hall, _⟩ := natDigits_spec v.natAbs
  have hparse := parseIntGo_intDigits v h1 h2
  unfold checkNumber
  by_cases hneg : v < 0
  · have htok : intDigits v = 45 :: natDigits v.natAbs := by simp [intDigits, hneg]
    obtain ⟨p', hp'⟩ := scanNumberLoop_digits {} false 45 (natDigits v.natAbs) [105] hall hne
    simp only [htok, List.cons_append, List.head?_cons, List.drop_succ_cons, List.drop_zero, if_true,
      decide_true, Bool.not_true]
    rw [hp', scanNumberLoop]
    simp only [scanNumberLoop]
    simp only [List.length_cons, List.length_append, List.length_nil]
    have hlast : (45 :: (natDigits v.natAbs ++ [105])).getLast? = some 105 := by
      show ((45 :: natDigits v.natAbs) ++ [105]).getLast? = some 105
      exact getLast?_append_single _ _
    have hdl : (45 :: (natDigits v.natAbs ++ [105])).dropLast = 45 :: natDigits v.natAbs := by
      show ((45 :: natDigits v.natAbs) ++ [105]).dropLast = _
      exact List.dropLast_concat
    have hlen : 0 < (natDigits v.natAbs).length := by rw [hd]; simp
    simp [hlast, hdl, ← htok, hparse]
    omega
  · have htok : intDigits v = natDigits v.natAbs := by simp [intDigits, hneg]
    have hd45 := (isDigit_ne d hdig).1
    obtain ⟨p', hp'⟩ := scanNumberLoop_digits {} true cEq (natDigits v.natAbs) [105] hall hne
    have hhead : (natDigits v.natAbs ++ [105]).head? = some d := by rw [hd]; rfl
    simp only [htok, hhead, Option.some.injEq, hd45, decide_false, Bool.not_false, if_false,
      Bool.false_eq_true]
    rw [hp', scanNumberLoop]
    simp only [scanNumberLoop]
    have hlen : 0 < (natDigits v.natAbs).length := by rw [hd]; simp
    simp [← htok, hparse]
    rw [htok]; exact hne

theorem checkNumber_uint (v : Nat) (h : v < 2 ^ 64) : checkNumber (natDigits v ++ [117]) = .ok () := by
  obtain ⟨d, r, hd, hdig⟩ := natDigits_head v
  obtain ⟨hne, hall, _⟩ := natDigits_spec v
  have hparse := parseUintGo_natDigits v h
  have hd45 := (isDigit_ne d hdig).1
  obtain ⟨p', hp'⟩ := scanNumberLoop_digits {} true cEq (natDigits v) [117] hall hne
  have hhead : (natDigits v ++ [117]).head? = some d := by rw [hd]; rfl
  unfold checkNumber
  simp only [hhead, Option.some.injEq, hd45, decide_false, Bool.not_false, if_false, Bool.false_eq_true]
  rw [hp', scanNumberLoop]
  simp only [scanNumberLoop]
  have hlen : 0 < (natDigits v).length := by rw [hd]; simp
  simp [hparse]

end Influx.LP
