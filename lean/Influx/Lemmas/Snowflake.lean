/-
  Lemmas.Snowflake — arithmetic of the snowflake bit fields and the invariant of
  `Model.Snowflake.step` that the distinctness theorem of C31 rests on.
-/
import Influx.Model.Snowflake

namespace Influx.Lemmas.Snowflake
open Influx.Model.Snowflake Influx.Generated.IDGen

theorem mask_mod (x : Nat) : x &&& timeMask = x % 2 ^ 42 := Nat.and_two_pow_sub_one_eq_mod x 42
theorem seq_mod (x : Nat) : x &&& sequenceMask = x % 2 ^ 12 := Nat.and_two_pow_sub_one_eq_mod x 12
theorem srv_mod (x : Nat) : x &&& serverMax = x % 2 ^ 10 := Nat.and_two_pow_sub_one_eq_mod x 10

theorem tOf_lt (now : Nat) : tOf now < 2 ^ 42 := by
  unfold tOf; rw [mask_mod]; exact Nat.mod_lt _ (by decide)

theorem propose_spec (t cur : Nat) (ht : t < 2 ^ 42) (hc : cur < 2 ^ 64)
    (hclr : cur / 4096 % 1024 = 0) (hne : propose t cur ≠ 0) :
    cur < propose t cur ∧ propose t cur < 2 ^ 64 ∧ propose t cur / 4096 % 1024 = 0 := by
  unfold propose at hne ⊢
  simp only [mask_mod, seq_mod] at hne ⊢
  simp only [Nat.shiftRight_eq_div_pow, Nat.shiftLeft_eq, u64, timeShift, sequenceMask] at hne ⊢
  split
  · omega
  · rw [if_neg (by assumption)] at hne
    split
    · rw [if_pos (by assumption)] at hne
      omega
    · omega

theorem or_machine (s mid : Nat) (hclr : s / 4096 % 1024 = 0) (hmid : mid ≤ 1023) :
    s ||| (mid <<< 12) = s + mid * 4096 := by
  have h1 : s = (s / 2 ^ 22) <<< 22 + s % 4096 := by
    rw [Nat.shiftLeft_eq]; omega
  have hlo : s % 4096 < 2 ^ 12 := by omega
  have h2 : mid <<< 12 + s % 4096 < 2 ^ 22 := by rw [Nat.shiftLeft_eq]; omega
  calc s ||| (mid <<< 12)
      = ((s / 2 ^ 22) <<< 22 + s % 4096) ||| (mid <<< 12) := by rw [← h1]
    _ = ((s / 2 ^ 22) <<< 22 ||| s % 4096) ||| (mid <<< 12) := by
          rw [Nat.shiftLeft_add_eq_or_of_lt (by omega)]
    _ = (s / 2 ^ 22) <<< 22 ||| (mid <<< 12 ||| s % 4096) := by
          rw [Nat.or_assoc, Nat.or_comm (s % 4096)]
    _ = (s / 2 ^ 22) <<< 22 ||| (mid <<< 12 + s % 4096) := by
          rw [Nat.shiftLeft_add_eq_or_of_lt hlo]
    _ = (s / 2 ^ 22) <<< 22 + (mid <<< 12 + s % 4096) := by
          rw [Nat.shiftLeft_add_eq_or_of_lt h2]
    _ = s + mid * 4096 := by
          rw [Nat.shiftLeft_eq, Nat.shiftLeft_eq]; omega

/-- the fallback add from a word whose sequence field is not full -/
theorem add_spec (g : Nat) (hc : g < 2 ^ 64) (hclr : g / 4096 % 1024 = 0)
    (hseq : ¬ (g &&& sequenceMask = sequenceMask)) :
    g < u64 (g + 1) ∧ u64 (g + 1) < 2 ^ 64 ∧ u64 (g + 1) / 4096 % 1024 = 0 := by
  rw [seq_mod] at hseq
  simp only [sequenceMask, u64] at hseq ⊢
  omega

/-- What every reachable state satisfies as long as the ghost flag `bad` is clear. -/
structure Inv (s : Sys) : Prop where
  g_lt : s.g < 2 ^ 64
  g_clear : s.g / 4096 % 1024 = 0
  raw_le : ∀ r ∈ s.raw, r ≤ s.g
  raw_pos : ∀ r ∈ s.raw, 0 < r
  raw_clear : ∀ r ∈ s.raw, r / 4096 % 1024 = 0
  raw_sorted : s.raw.Pairwise (· < ·)
  out_eq : s.out = s.raw.map (· ||| s.machine)
  /-- locals hold masked clock readings -/
  t_lt : ∀ tid i t, s.pc tid = .gotT i t → t < 2 ^ 42
  t_lt' : ∀ tid i t cur, s.pc tid = .loaded i t cur → t < 2 ^ 42

theorem inv_init (g m : Nat) (hg : g < 2 ^ 64) (hclr : g / 4096 % 1024 = 0) : Inv (Sys.init g m) where
  g_lt := hg
  g_clear := hclr
  raw_le := by simp [Sys.init]
  raw_pos := by simp [Sys.init]
  raw_clear := by simp [Sys.init]
  raw_sorted := by simp [Sys.init]
  out_eq := by simp [Sys.init]
  t_lt := by simp [Sys.init]
  t_lt' := by simp [Sys.init]

theorem bad_sticky (s : Sys) (tid now : Nat) (h : (step s tid now).bad = false) : s.bad = false := by
  unfold step at h
  split at h
  · exact h
  · exact h
  · exact h
  · dsimp only at h
    split at h
    · split at h
      · simp at h
      · exact h
    · split at h <;> exact h
  · simp at h; exact h.1

theorem setPC_eq (pc : Nat → PC) (tid j : Nat) (p q : PC) (h : setPC pc tid p j = q) :
    (j = tid ∧ p = q) ∨ (j ≠ tid ∧ pc j = q) := by
  unfold setPC at h
  split at h
  · exact .inl ⟨by assumption, h⟩
  · exact .inr ⟨by assumption, h⟩

/-- appending a new, larger, positive, clear word keeps the `raw` clauses -/
theorem inv_emit (s : Sys) (st : Nat) (pc' : Nat → PC) (b : Bool) (hi : Inv s)
    (hgt : s.g < st) (hlt : st < 2 ^ 64) (hclr : st / 4096 % 1024 = 0)
    (hpc : ∀ j q, pc' j = q → q = .idle ∨ s.pc j = q) :
    Inv { s with g := st, pc := pc', out := s.out ++ [st ||| s.machine], raw := s.raw ++ [st], bad := b } where
  g_lt := hlt
  g_clear := hclr
  raw_le := by
    intro r hr
    simp only [List.mem_append, List.mem_singleton] at hr
    rcases hr with hr | rfl
    · have := hi.raw_le r hr; simp only; omega
    · exact Nat.le_refl _
  raw_pos := by
    intro r hr
    simp only [List.mem_append, List.mem_singleton] at hr
    rcases hr with hr | rfl
    · exact hi.raw_pos r hr
    · omega
  raw_clear := by
    intro r hr
    simp only [List.mem_append, List.mem_singleton] at hr
    rcases hr with hr | rfl
    · exact hi.raw_clear r hr
    · exact hclr
  raw_sorted := by
    simp only [List.pairwise_append, List.pairwise_cons, List.Pairwise.nil, List.mem_singleton]
    refine ⟨hi.raw_sorted, ⟨by simp, trivial⟩, ?_⟩
    intro a ha b hb; subst hb
    have := hi.raw_le a ha; omega
  out_eq := by simp [hi.out_eq]
  t_lt := by
    intro tid i t h
    rcases hpc _ _ h with h' | h'
    · cases h'
    · exact hi.t_lt tid i t h'
  t_lt' := by
    intro tid i t cur h
    rcases hpc _ _ h with h' | h'
    · cases h'
    · exact hi.t_lt' tid i t cur h'

/-- a step that only moves one caller's program counter -/
theorem inv_pc (s : Sys) (pc' : Nat → PC) (hi : Inv s)
    (h1 : ∀ tid i t, pc' tid = .gotT i t → t < 2 ^ 42)
    (h2 : ∀ tid i t cur, pc' tid = .loaded i t cur → t < 2 ^ 42) :
    Inv { s with pc := pc' } :=
  { hi with t_lt := h1, t_lt' := h2 }

theorem step_inv (s : Sys) (tid now : Nat) (hi : Inv s) (hb : (step s tid now).bad = false) :
    Inv (step s tid now) := by
  unfold step at hb ⊢
  split
  · -- idle: call and read the clock
    apply inv_pc _ _ hi
    · intro j i t h
      rcases setPC_eq _ _ _ _ _ h with ⟨_, h'⟩ | ⟨_, h'⟩
      · cases h'; exact tOf_lt now
      · exact hi.t_lt _ _ _ h'
    · intro j i t cur h
      rcases setPC_eq _ _ _ _ _ h with ⟨_, h'⟩ | ⟨_, h'⟩
      · cases h'
      · exact hi.t_lt' _ _ _ _ h'
  · -- loop head: read the clock
    apply inv_pc _ _ hi
    · intro j i t h
      rcases setPC_eq _ _ _ _ _ h with ⟨_, h'⟩ | ⟨_, h'⟩
      · cases h'; exact tOf_lt now
      · exact hi.t_lt _ _ _ h'
    · intro j i t cur h
      rcases setPC_eq _ _ _ _ _ h with ⟨_, h'⟩ | ⟨_, h'⟩
      · cases h'
      · exact hi.t_lt' _ _ _ _ h'
  · -- load
    next i t hpc =>
    apply inv_pc _ _ hi
    · intro j i' t' h
      rcases setPC_eq _ _ _ _ _ h with ⟨_, h'⟩ | ⟨_, h'⟩
      · cases h'
      · exact hi.t_lt _ _ _ h'
    · intro j i' t' cur h
      rcases setPC_eq _ _ _ _ _ h with ⟨_, h'⟩ | ⟨_, h'⟩
      · cases h'; exact hi.t_lt _ _ _ hpc
      · exact hi.t_lt' _ _ _ _ h'
  · -- CAS
    next i t cur hpc =>
    rw [hpc] at hb
    dsimp only at hb ⊢
    have ht := hi.t_lt' _ _ _ _ hpc
    split
    · next hg =>
      rw [if_pos hg] at hb
      split
      · next h0 => rw [if_pos h0] at hb; simp at hb
      · next h0 =>
        obtain ⟨p1, p2, p3⟩ := propose_spec t cur ht (hg ▸ hi.g_lt) (hg ▸ hi.g_clear) h0
        have := inv_emit s (propose t cur) (setPC s.pc tid .idle) s.bad hi (hg ▸ p1) p2 p3 (by
          intro j q h
          rcases setPC_eq _ _ _ _ _ h with ⟨_, h'⟩ | ⟨_, h'⟩
          · exact .inl h'.symm
          · exact .inr h')
        exact this
    · split
      · apply inv_pc _ _ hi
        · intro j i' t' h
          rcases setPC_eq _ _ _ _ _ h with ⟨_, h'⟩ | ⟨_, h'⟩
          · cases h'
          · exact hi.t_lt _ _ _ h'
        · intro j i' t' cur' h
          rcases setPC_eq _ _ _ _ _ h with ⟨_, h'⟩ | ⟨_, h'⟩
          · cases h'
          · exact hi.t_lt' _ _ _ _ h'
      · apply inv_pc _ _ hi
        · intro j i' t' h
          rcases setPC_eq _ _ _ _ _ h with ⟨_, h'⟩ | ⟨_, h'⟩
          · cases h'
          · exact hi.t_lt _ _ _ h'
        · intro j i' t' cur' h
          rcases setPC_eq _ _ _ _ _ h with ⟨_, h'⟩ | ⟨_, h'⟩
          · cases h'
          · exact hi.t_lt' _ _ _ _ h'
  · -- fallback add
    next hpc =>
    rw [hpc] at hb
    simp only [Bool.or_eq_false_iff, decide_eq_false_iff_not] at hb
    obtain ⟨p1, p2, p3⟩ := add_spec s.g hi.g_lt hi.g_clear hb.2
    exact inv_emit s (u64 (s.g + 1)) (setPC s.pc tid .idle) _ hi p1 p2 p3 (by
      intro j q h
      rcases setPC_eq _ _ _ _ _ h with ⟨_, h'⟩ | ⟨_, h'⟩
      · exact .inl h'.symm
      · exact .inr h')

theorem run_inv (sched : Sched) (s : Sys) (hi : Inv s) (hb : (run s sched).bad = false) :
    Inv (run s sched) ∧ s.bad = false := by
  induction sched generalizing s with
  | nil => exact ⟨hi, hb⟩
  | cons e rest ih =>
    obtain ⟨tid, now⟩ := e
    simp only [run] at hb ⊢
    have hstep : (step s tid now).bad = false := by
      by_cases h : (step s tid now).bad = false
      · exact h
      · -- `bad` is sticky along `run`, so the final flag would be set
        exfalso
        have hsticky : ∀ (sch : Sched) (x : Sys), (run x sch).bad = false → x.bad = false := by
          intro sch
          induction sch with
          | nil => intro x h; exact h
          | cons e r ihr =>
            intro x h
            obtain ⟨a, b⟩ := e
            exact bad_sticky x a b (ihr _ h)
        exact h (hsticky rest _ hb)
    obtain ⟨h1, _⟩ := ih (step s tid now) (step_inv s tid now hi hstep) hb
    exact ⟨h1, bad_sticky s tid now hstep⟩

theorem machine_unchanged (sched : Sched) (s : Sys) : (run s sched).machine = s.machine := by
  induction sched generalizing s with
  | nil => rfl
  | cons e rest ih =>
    obtain ⟨tid, now⟩ := e
    simp only [run, ih]
    unfold step
    split <;> try rfl
    · dsimp only; split
      · split <;> rfl
      · split <;> rfl

end Influx.Lemmas.Snowflake
