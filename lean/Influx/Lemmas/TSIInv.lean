/-
  Lemmas.TSIInv — the per-partition invariant of the tsi1 model and its preservation by
  appending log entries, rolling, compacting and reopening.
-/
import Influx.Lemmas.TSIFile

namespace Influx.Model.TSI

/-- `id` is live in the shard's index and belongs to tsi1 partition `i`. -/
def LiveIn (sf : SFile) (live : List Nat) (i : Nat) (id : Nat) : Prop :=
  id ∈ live ∧ ∃ s, sf.find id = some s ∧ s.part = i

/-- what holds of partition number `i` between operations, for the live set `live`.
    `exc` names the measurements that may be listed without a live series (only while a
    drop is in progress: between `DropSeries` and `DropMeasurementIfSeriesNotExist`). -/
structure PInvX (exc : String → Prop) (sf : SFile) (live : List Nat) (i : Nat) (p : Partition) : Prop where
  /-- the head of the file list is the active log file -/
  head : ∃ a rest, p.files = a :: rest ∧ a.isLog = true
  /-- the in-memory index of a log file is the fold of its entries -/
  loginv : ∀ f ∈ p.files, f.isLog = true → f.data = replay sf f.entries
  /-- series entries name known series -/
  eknown : ∀ f ∈ p.files, ∀ e ∈ f.entries, ∀ id, (e = .add id ∨ e = .delSeries id) → (sf.find id).isSome
  noflags : ∀ f ∈ p.files, NoFlags f.data
  sound : ∀ f ∈ p.files, Sound sf f.data
  /-- a live series is listed, in one file, under its measurement and each of its tag pairs -/
  comp : ∀ id s, id ∈ live → sf.find id = some s → s.part = i →
    ∃ f ∈ p.files, id ∈ fileMeasSeries s.name f.data ∧
      ∀ k v, tagOf s.tags k = some v → id ∈ fileValSeries s.name k v f.data
  /-- no file holds a tombstone of a live series; tombstoned ids are known -/
  notomb : ∀ f ∈ p.files, ∀ id ∈ live, id ∉ f.data.tomb
  tknown : ∀ f ∈ p.files, ∀ id ∈ f.data.tomb, (sf.find id).isSome
  sset : ∀ id, id ∈ p.sset ↔ LiveIn sf live i id
  stat : ∀ id, status id p.datas = some true ↔ LiveIn sf live i id
  mflive : ∀ id s, id ∈ live → sf.find id = some s → s.part = i →
    firstSome (measFlag s.name) p.datas = some false
  mfdead : ∀ n, firstSome (measFlag n) p.datas = some false →
    (∃ id ∈ live, ∃ s, sf.find id = some s ∧ s.name = n) ∨ exc n

abbrev PInv := PInvX (fun _ => False)

/-! #### the empty partition -/

theorem replay_nil (sf : SFile) : replay sf [] = {} := rfl

theorem pinv_init (sf : SFile) (i : Nat) : PInv sf [] i {} where
  head := ⟨newLog, [], rfl, rfl⟩
  loginv f hf _ := by
    have : f = newLog := by simpa using hf
    subst this; rfl
  eknown f hf e he := by
    have : f = newLog := by simpa using hf
    subst this; simp [newLog] at he
  noflags f hf := by
    have : f = newLog := by simpa using hf
    subst this; exact noflags_empty
  sound f hf := by
    have : f = newLog := by simpa using hf
    subst this; exact sound_empty sf
  comp id s h := by simp at h
  notomb f _ id h := by simp at h
  tknown f hf id h := by
    have : f = newLog := by simpa using hf
    subst this; simp [newLog] at h
  sset id := by simp [LiveIn]
  stat id := by simp [LiveIn, status, Partition.datas, newLog, firstSome]
  mflive id s h := by simp at h
  mfdead n h := by simp [Partition.datas, newLog, firstSome, measFlag, alookup] at h

/-! #### growing the series file by a fresh series -/

/-- `sf'` is `sf` with one more series whose id was unknown. -/
structure Extends (sf sf' : SFile) : Prop where
  find : ∀ id s, sf.find id = some s → sf'.find id = some s

theorem exec_extends {sf sf' : SFile} (h : Extends sf sf') (d : FileData) (e : Entry)
    (hk : ∀ id, (e = .add id ∨ e = .delSeries id) → (sf.find id).isSome) :
    exec sf' d e = exec sf d e := by
  cases e with
  | add id =>
    have := hk id (Or.inl rfl)
    cases hf : sf.find id with
    | none => simp [hf] at this
    | some s => simp [exec, execSeries, hf, h.find id s hf]
  | delSeries id =>
    have := hk id (Or.inr rfl)
    cases hf : sf.find id with
    | none => simp [hf] at this
    | some s => simp [exec, execSeries, hf, h.find id s hf]
  | delMeas m => rfl
  | delKey m k => rfl
  | delVal m k v => rfl

theorem replay_extends {sf sf' : SFile} (h : Extends sf sf') (es : List Entry)
    (hk : ∀ e ∈ es, ∀ id, (e = .add id ∨ e = .delSeries id) → (sf.find id).isSome) (d : FileData) :
    es.foldl (exec sf') d = es.foldl (exec sf) d := by
  induction es generalizing d with
  | nil => rfl
  | cons e rest ih =>
    simp only [List.foldl_cons]
    rw [exec_extends h d e (hk e (by simp))]
    exact ih (fun e' he' => hk e' (List.mem_cons_of_mem _ he')) _

theorem sound_extends {sf sf' : SFile} (h : Extends sf sf') {d : FileData} (hs : Sound sf d) :
    Sound sf' d where
  meas n x hx := by
    obtain ⟨s, hf, hn⟩ := hs.meas n x hx
    exact ⟨s, h.find x s hf, hn⟩
  val n k v x hx := by
    obtain ⟨s, hf, hn⟩ := hs.val n k v x hx
    exact ⟨s, h.find x s hf, hn⟩

/-- a partition's invariant survives the series file learning a new series, provided every
    live id was already known. -/
theorem pinv_extends {exc : String → Prop} {sf sf' : SFile} (h : Extends sf sf') {live : List Nat}
    {i : Nat} {p : Partition}
    (hlk : ∀ id ∈ live, (sf.find id).isSome) (hp : PInvX exc sf live i p) : PInvX exc sf' live i p := by
  have hfind : ∀ id ∈ live, sf'.find id = sf.find id := by
    intro id hid
    cases hf : sf.find id with
    | none => have := hlk id hid; simp [hf] at this
    | some s => exact h.find id s hf
  have hlive : ∀ id, LiveIn sf' live i id ↔ LiveIn sf live i id := by
    intro id
    unfold LiveIn
    constructor
    · rintro ⟨hm, s, hs, hpart⟩; exact ⟨hm, s, by rw [← hfind id hm]; exact hs, hpart⟩
    · rintro ⟨hm, s, hs, hpart⟩; exact ⟨hm, s, by rw [hfind id hm]; exact hs, hpart⟩
  exact {
    head := hp.head
    loginv := fun f hf hl => by
      rw [hp.loginv f hf hl]
      unfold replay
      exact (replay_extends h f.entries (hp.eknown f hf) {}).symm
    eknown := fun f hf e he id hid => by
      have := hp.eknown f hf e he id hid
      cases hs : sf.find id with
      | none => simp [hs] at this
      | some s => simp [h.find id s hs]
    noflags := hp.noflags
    sound := fun f hf => sound_extends h (hp.sound f hf)
    comp := fun id s hid hs hpart => hp.comp id s hid (by rw [← hfind id hid]; exact hs) hpart
    notomb := hp.notomb
    tknown := fun f hf id hid => by
      have := hp.tknown f hf id hid
      cases hs : sf.find id with
      | none => simp [hs] at this
      | some s => simp [h.find id s hs]
    sset := fun id => (hp.sset id).trans (hlive id).symm
    stat := fun id => (hp.stat id).trans (hlive id).symm
    mflive := fun id s hid hs hpart => hp.mflive id s hid (by rw [← hfind id hid]; exact hs) hpart
    mfdead := fun n hn => by
      rcases hp.mfdead n hn with ⟨id, hid, s, hs, hname⟩ | hx
      · exact Or.inl ⟨id, hid, s, h.find id s hs, hname⟩
      · exact Or.inr hx }

/-! #### appending to the active log -/

theorem append_files (sf : SFile) (p : Partition) (es : List Entry) (a : File) (rest : List File)
    (h : p.files = a :: rest) :
    (p.append sf es).files =
      { a with entries := a.entries ++ es, data := es.foldl (exec sf) a.data } :: rest := by
  unfold Partition.append
  simp [h]

theorem append_sset (sf : SFile) (p : Partition) (es : List Entry) : (p.append sf es).sset = p.sset := by
  unfold Partition.append
  cases p.files <;> rfl

theorem datas_cons (p : Partition) (a : File) (rest : List File) (h : p.files = a :: rest) :
    p.datas = a.data :: rest.map (·.data) := by
  unfold Partition.datas; rw [h]; rfl

theorem status_cons (id : Nat) (d : FileData) (ds : List FileData) :
    status id (d :: ds) =
      if id ∈ d.sset then some true else if id ∈ d.tomb then some false else status id ds := by
  unfold status
  rw [firstSome_cons]
  by_cases h1 : id ∈ d.sset
  · simp [h1]
  · by_cases h2 : id ∈ d.tomb <;> simp [h1, h2]

end Influx.Model.TSI
