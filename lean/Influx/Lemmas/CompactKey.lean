/-
  Lemmas.CompactKey — one key of `tsmBatchKeyIterator`: block well-formedness,
  the read frontier, the window of `combine(dedup = true)` and its decode pass.

  Frontier invariant (`BlockSt T b`): of every block exactly the points with
  timestamp ≤ T have been consumed (lie inside [readMin, readMax]).
-/
import Influx.Lemmas.CompactValues

namespace Influx.Model.Compact
open Influx.Generated

variable {V : Type}

/-! ### the generated leaf predicates, as arithmetic -/

theorem read_iff (b : Block V) :
    CompactBlock.read b = true ↔ (b.readMin ≤ b.minTime ∧ b.maxTime ≤ b.readMax) := by
  simp [CompactBlock.read]

theorem overlaps_iff (b : Block V) (lo hi : Int) :
    CompactBlock.overlapsTimeRange b lo hi = true ↔ (b.minTime ≤ hi ∧ lo ≤ b.maxTime) := by
  simp [CompactBlock.overlapsTimeRange]

theorem partiallyRead_false_iff (b : Block V) :
    CompactBlock.partiallyRead b = false ↔
      ((b.readMin = maxInt64 ∧ b.readMax = minInt64) ∨ (b.readMin = b.minTime ∧ b.readMax = b.maxTime)) := by
  unfold CompactBlock.partiallyRead int64
  by_cases h : b.readMin = maxInt64 ∧ b.readMax = minInt64
  · simp [h.1, h.2]
  · have : ((b.readMin == maxInt64) && (b.readMax == minInt64)) = false := by
      simp only [Bool.and_eq_false_iff, beq_eq_false_iff_ne, ne_eq]
      by_cases h1 : b.readMin = maxInt64
      · right; intro h2; exact h ⟨h1, h2⟩
      · left; exact h1
    simp only [this, Bool.false_eq_true, if_false, Bool.or_eq_false_iff, bne_eq_false_iff_eq]
    constructor
    · intro h'; exact Or.inr h'
    · rintro (h' | h')
      · exact absurd h' h
      · exact h'

/-! ### well-formed blocks -/

/-- timestamps strictly inside the `readMin/readMax` sentinels -/
def InR (t : Int) : Prop := minInt64 < t ∧ t < maxInt64

/-- a block as the reader delivers it: ascending non-empty values, index entry = first/last timestamp -/
structure BlockWF (b : Block V) : Prop where
  asc : Asc b.pts
  hmin : ∃ p, b.pts.head? = some p ∧ p.1 = b.minTime
  hmax : ∃ p, b.pts.getLast? = some p ∧ p.1 = b.maxTime
  inr : ∀ p ∈ b.pts, InR p.1

theorem asc_head_le {l : Pts V} (h : Asc l) {p : Int × V} (hp : l.head? = some p) :
    ∀ q ∈ l, p.1 ≤ q.1 := by
  cases l with
  | nil => simp at hp
  | cons x l =>
    simp at hp; subst hp
    intro q hq
    rcases List.mem_cons.mp hq with rfl | h1
    · exact Int.le_refl _
    · exact Int.le_of_lt ((asc_cons.mp h).1 q h1)

theorem asc_le_last {l : Pts V} (h : Asc l) {p : Int × V} (hp : l.getLast? = some p) :
    ∀ q ∈ l, q.1 ≤ p.1 := by
  obtain ⟨ys, rfl⟩ := List.getLast?_eq_some_iff.mp hp
  intro q hq
  rcases List.mem_append.mp hq with h1 | h1
  · exact Int.le_of_lt ((asc_append.mp h).2.2 q h1 p (by simp))
  · simp at h1; subst h1; exact Int.le_refl _

theorem BlockWF.mem_range {b : Block V} (w : BlockWF b) {p : Int × V} (hp : p ∈ b.pts) :
    b.minTime ≤ p.1 ∧ p.1 ≤ b.maxTime := by
  obtain ⟨a, ha, ha'⟩ := w.hmin
  obtain ⟨z, hz, hz'⟩ := w.hmax
  exact ⟨ha' ▸ asc_head_le w.asc ha p hp, hz' ▸ asc_le_last w.asc hz p hp⟩

theorem BlockWF.min_mem {b : Block V} (w : BlockWF b) : ∃ p ∈ b.pts, p.1 = b.minTime := by
  obtain ⟨a, ha, ha'⟩ := w.hmin
  exact ⟨a, List.mem_of_head? ha, ha'⟩

theorem BlockWF.max_mem {b : Block V} (w : BlockWF b) : ∃ p ∈ b.pts, p.1 = b.maxTime := by
  obtain ⟨z, hz, hz'⟩ := w.hmax
  exact ⟨z, List.mem_of_getLast? hz, hz'⟩

theorem BlockWF.min_le_max {b : Block V} (w : BlockWF b) : b.minTime ≤ b.maxTime := by
  obtain ⟨p, hp, hp'⟩ := w.min_mem
  exact hp' ▸ (w.mem_range hp).2

theorem BlockWF.ptsMax {b : Block V} (w : BlockWF b) : ptsMax b.pts = .ok b.maxTime := by
  obtain ⟨z, hz, hz'⟩ := w.hmax
  simp [Compact.ptsMax, hz, hz', pure, Except.pure]

theorem ptsMin_of_head {l : Pts V} {p : Int × V} (h : l.head? = some p) : ptsMin l = .ok p.1 := by
  simp [ptsMin, h, pure, Except.pure]

theorem ptsMax_of_last {l : Pts V} {p : Int × V} (h : l.getLast? = some p) : ptsMax l = .ok p.1 := by
  simp [ptsMax, h, pure, Except.pure]

/-! ### the read frontier -/

/-- exactly the points with timestamp ≤ T are inside the read range -/
structure BlockSt (T : Int) (b : Block V) : Prop where
  wf : BlockWF b
  cons : ∀ p ∈ b.pts, (p.1 ≤ T ↔ (b.readMin ≤ p.1 ∧ p.1 ≤ b.readMax))
  rmax : b.readMax ≤ T

/-- what the block still has to contribute -/
def unread (b : Block V) : Pts V := vExclude b.readMin b.readMax b.pts
def live (b : Block V) : Pts V := applyTombs b.tombstones (unread b)

theorem BlockSt.mem_unread {T : Int} {b : Block V} (s : BlockSt T b) {p : Int × V} :
    p ∈ unread b ↔ p ∈ b.pts ∧ T < p.1 := by
  unfold unread
  rw [mem_vExclude]
  constructor
  · rintro ⟨h1, h2⟩
    refine ⟨h1, ?_⟩
    have := s.cons p h1
    by_cases h3 : p.1 ≤ T
    · exact absurd (this.mp h3) h2
    · omega
  · rintro ⟨h1, h2⟩
    refine ⟨h1, ?_⟩
    intro h3
    have := (s.cons p h1).mpr h3
    omega

theorem BlockSt.read_iff' {T : Int} {b : Block V} (s : BlockSt T b) :
    CompactBlock.read b = true ↔ b.maxTime ≤ T := by
  rw [read_iff]
  obtain ⟨a, ha, ha'⟩ := s.wf.min_mem
  obtain ⟨z, hz, hz'⟩ := s.wf.max_mem
  constructor
  · rintro ⟨h1, h2⟩
    have := (s.cons z hz).mpr ⟨by have := s.wf.min_le_max; omega, by omega⟩
    omega
  · intro h
    have h1 := (s.cons a ha).mp (by have := s.wf.min_le_max; omega)
    have h2 := (s.cons z hz).mp (by omega)
    omega

theorem asc_unread {b : Block V} (w : BlockWF b) : Asc (unread b) := asc_vExclude w.asc _ _
theorem asc_live {b : Block V} (w : BlockWF b) : Asc (live b) := asc_applyTombs (asc_unread w) _

theorem BlockSt.mem_live {T : Int} {b : Block V} (s : BlockSt T b) {p : Int × V} :
    p ∈ live b ↔ p ∈ b.pts ∧ T < p.1 ∧ inTombs b.tombstones p.1 = false := by
  unfold live
  rw [mem_applyTombs, s.mem_unread]
  exact and_assoc

theorem BlockSt.lookup_live {T : Int} {b : Block V} (s : BlockSt T b) (t : Int) :
    lookup (live b) t = if T < t ∧ inTombs b.tombstones t = false then lookup b.pts t else none := by
  unfold live unread
  rw [lookup_applyTombs, lookup_vExclude]
  by_cases h1 : inTombs b.tombstones t = true
  · simp [h1]
  · have h1' : inTombs b.tombstones t = false := by simpa using h1
    simp only [h1', Bool.false_eq_true, if_false, and_true]
    by_cases h2 : T < t
    · simp only [h2, if_true]
      by_cases h3 : b.readMin ≤ t ∧ t ≤ b.readMax
      · simp only [h3, and_self, if_true]
        symm
        apply lookup_eq_none.mpr
        intro p hp heq
        have := (s.cons p hp).mpr (by omega)
        omega
      · simp [h3]
    · simp only [h2, if_false]
      by_cases h3 : b.readMin ≤ t ∧ t ≤ b.readMax
      · simp [h3]
      · simp only [h3, if_false]
        apply lookup_eq_none.mpr
        intro p hp heq
        have := (s.cons p hp).mp (by omega)
        omega

/-- a fresh block (nothing read) satisfies the frontier invariant at -∞ -/
theorem BlockSt.fresh {b : Block V} (w : BlockWF b) (h1 : b.readMin = maxInt64) (h2 : b.readMax = minInt64) :
    BlockSt minInt64 b := by
  refine ⟨w, ?_, by omega⟩
  intro p hp
  have := w.inr p hp
  unfold InR at this
  constructor
  · intro h; omega
  · rintro ⟨h, _⟩; omega

/-- newest-in-list-order wins: the map the remaining blocks still contribute -/
def restAt : List (Block V) → Int → Option V
  | [], _ => none
  | b :: L, t => (restAt L t).or (lookup (live b) t)

theorem restAt_none_le {T : Int} {L : List (Block V)} (h : ∀ b ∈ L, BlockSt T b) {t : Int} (ht : t ≤ T) :
    restAt L t = none := by
  induction L with
  | nil => rfl
  | cons b L ih =>
    simp only [restAt]
    rw [ih (fun b hb => h b (List.mem_cons_of_mem _ hb)), (h b (by simp)).lookup_live]
    have : ¬ T < t := by omega
    simp [this]

/-! ### the window scan -/

/-- consecutive blocks of the sorted list: the next one does not lie entirely before
    the previous one (`¬ blocks.Less(next, prev)`); `pm` = `minTime` of the previous block -/
def AdjFrom (pm : Int) : List (Block V) → Prop
  | [] => True
  | b :: L => pm ≤ b.maxTime ∧ AdjFrom b.minTime L

def AdjOK : List (Block V) → Prop
  | [] => True
  | b :: L => AdjFrom b.minTime L

theorem windowScan_spec {T : Int} :
    ∀ (L : List (Block V)) (pm lo hi : Int),
      (∀ b ∈ L, BlockSt T b) → AdjFrom pm L → (lo ≤ pm ∨ lo ≤ T) → T < hi → lo ≤ hi →
      ∀ m M, windowScan L lo hi = (m, M) →
        m ≤ lo ∧ M ≤ hi ∧ T < M ∧ m ≤ M ∧
        ∀ b ∈ L, CompactBlock.read b = false → (m ≤ b.minTime ∨ M < b.minTime) := by
  intro L
  induction L with
  | nil =>
    intro pm lo hi _ _ _ hT hle m M h
    simp [windowScan] at h
    obtain ⟨rfl, rfl⟩ := h
    exact ⟨Int.le_refl _, Int.le_refl _, hT, hle, by simp⟩
  | cons b L ih =>
    intro pm lo hi hst hadj hS hT hle m M h
    have sb := hst b (by simp)
    have hst' : ∀ b ∈ L, BlockSt T b := fun x hx => hst x (List.mem_cons_of_mem _ hx)
    obtain ⟨hpm, hadj'⟩ := hadj
    have hmm := sb.wf.min_le_max
    unfold windowScan at h
    by_cases hc : (CompactBlock.overlapsTimeRange b lo hi && !CompactBlock.read b) = true
    · rw [if_pos hc] at h
      dsimp only at h
      simp only [Bool.and_eq_true, Bool.not_eq_true', overlaps_iff] at hc
      obtain ⟨⟨ho1, ho2⟩, hr⟩ := hc
      have hnr : ¬ b.maxTime ≤ T := by
        intro hle'; have := sb.read_iff'.mpr hle'; simp [this] at hr
      -- the updated window
      generalize hlo' : (if b.minTime < lo then b.minTime else lo) = lo' at h
      generalize hhi' : (if b.maxTime > lo' ∧ b.maxTime < hi then b.maxTime else hi) = hi' at h
      have h1 : lo' ≤ lo ∧ lo' ≤ b.minTime := by subst hlo'; split <;> omega
      have h2 : hi' ≤ hi ∧ T < hi' ∧ lo' ≤ hi' := by
        subst hhi'; split
        · omega
        · omega
      obtain ⟨r1, r2, r3, r4, r5⟩ := ih b.minTime lo' hi' hst' hadj' (Or.inl h1.2) h2.2.1 h2.2.2 m M h
      refine ⟨by omega, by omega, r3, r4, ?_⟩
      intro x hx hxr
      rcases List.mem_cons.mp hx with rfl | hx'
      · left; omega
      · exact r5 x hx' hxr
    · rw [if_neg hc] at h
      -- S for the next block
      have hS' : lo ≤ b.minTime ∨ lo ≤ T := by
        by_cases hr : CompactBlock.read b = true
        · have := sb.read_iff'.mp hr
          right; rcases hS with h1 | h1 <;> omega
        · have hnr : ¬ b.maxTime ≤ T := fun hle' => hr (sb.read_iff'.mpr hle')
          have hno : ¬ (b.minTime ≤ hi ∧ lo ≤ b.maxTime) := by
            intro ho
            apply hc
            simp [overlaps_iff, ho, hr]
          left
          have : lo ≤ b.maxTime := by rcases hS with h1 | h1 <;> omega
          omega
      obtain ⟨r1, r2, r3, r4, r5⟩ := ih b.minTime lo hi hst' hadj' hS' hT hle m M h
      refine ⟨r1, r2, r3, r4, ?_⟩
      intro x hx hxr
      rcases List.mem_cons.mp hx with rfl | hx'
      · have hnr : ¬ x.maxTime ≤ T := by
          intro hle'; have := sb.read_iff'.mpr hle'; simp [this] at hxr
        have hno : ¬ (x.minTime ≤ hi ∧ lo ≤ x.maxTime) := by
          intro ho
          apply hc
          simp [overlaps_iff, ho, hxr]
        have : lo ≤ x.maxTime := by rcases hS with h1 | h1 <;> omega
        right; omega
      · exact r5 x hx' hxr

end Influx.Model.Compact
