/-
  Lemmas.C36Bloom — the bloom filter model never reports an inserted key as absent:
  bits only ever get set (`setBits_mono`, `orBits`), so `contains` is monotone, and the
  simulation between `stepB` (model) and `checkB` (statement) follows.
-/
import Influx.Model.C36
import Influx.Spec.C36

namespace Influx.Bloom

theorem setBits_length (bits : List Bool) (ls : List Nat) : (setBits bits ls).length = bits.length := by
  induction ls generalizing bits with
  | nil => rfl
  | cons l ls ih => simp [setBits, ih]

/-- a set bit stays set -/
theorem setBits_mono (bits : List Bool) (ls : List Nat) (i : Nat) (h : bits[i]? = some true) :
    (setBits bits ls)[i]? = some true := by
  induction ls generalizing bits with
  | nil => exact h
  | cons l ls ih =>
    apply ih
    rw [List.getElem?_set]
    split
    · next heq => subst heq; simp; exact (List.getElem?_eq_some_iff.mp h).1
    · exact h

theorem setBits_set (bits : List Bool) (ls : List Nat) (l : Nat) (hl : l ∈ ls) (hlt : l < bits.length) :
    (setBits bits ls)[l]? = some true := by
  induction ls generalizing bits with
  | nil => cases hl
  | cons x ls ih =>
    simp only [setBits]
    rcases List.mem_cons.mp hl with rfl | h
    · apply setBits_mono; simp [hlt]
    · apply ih _ h; simpa using hlt

theorem testBits_iff (bits : List Bool) (ls : List Nat) :
    testBits bits ls = true ↔ ∀ l ∈ ls, bits[l]? = some true := by
  simp [testBits, List.all_eq_true]

theorem location_lt (m h0 h1 i : Nat) (hm : 0 < m) : location m h0 h1 i < m := Nat.mod_lt _ hm

/-- **add k → contains k** -/
theorem contains_insert_self (f : Filter) (h0 h1 : Nat) (hm : 0 < f.bits.length) :
    (f.insert h0 h1).contains h0 h1 = true := by
  simp only [Filter.contains, Filter.insert, testBits_iff, Filter.locations, setBits_length]
  intro l hl
  apply setBits_set _ _ _ hl
  obtain ⟨i, _, rfl⟩ := List.mem_map.mp hl
  exact location_lt _ _ _ _ hm

/-- **… forever**: another insert never clears it -/
theorem contains_insert_mono (f : Filter) (h0 h1 g0 g1 : Nat) (h : f.contains h0 h1 = true) :
    (f.insert g0 g1).contains h0 h1 = true := by
  simp only [Filter.contains, Filter.insert, testBits_iff, Filter.locations, setBits_length] at *
  intro l hl
  exact setBits_mono _ _ _ (h l hl)

theorem orBits_length (a b : List Bool) (h : a.length = b.length) : (orBits a b).length = a.length := by
  induction a generalizing b with
  | nil => cases b <;> simp [orBits]
  | cons x xs ih =>
    cases b with
    | nil => simp at h
    | cons y ys => simp [orBits, ih ys (by simpa using h)]

theorem orBits_left (a b : List Bool) (i : Nat) (h : a[i]? = some true) : (orBits a b)[i]? = some true := by
  induction a generalizing b i with
  | nil => simp at h
  | cons x xs ih =>
    cases b with
    | nil => simpa [orBits] using h
    | cons y ys =>
      cases i with
      | zero => simp at h; simp [orBits, h]
      | succ i => simp at h; simpa [orBits] using ih ys i h

theorem orBits_right (a b : List Bool) (hl : a.length = b.length) (i : Nat) (h : b[i]? = some true) :
    (orBits a b)[i]? = some true := by
  induction a generalizing b i with
  | nil => cases b with
    | nil => simp at h
    | cons y ys => simp at hl
  | cons x xs ih =>
    cases b with
    | nil => simp at h
    | cons y ys =>
      cases i with
      | zero => simp at h; simp [orBits, h]
      | succ i => simp at h; simpa [orBits] using ih ys (by simpa using hl) i h

theorem merge_ok {f o f' : Filter} (h : f.merge o = .ok f') :
    f.bits.length = o.bits.length ∧ f.k = o.k ∧ f' = { f with bits := orBits f.bits o.bits } := by
  unfold Filter.merge at h
  split at h
  · cases h
  · split at h
    · cases h
    · next h1 h2 =>
      simp only [Except.ok.injEq] at h
      exact ⟨by simpa using h1, by simpa using h2, h.symm⟩

/-- merging keeps everything either filter contained -/
theorem contains_merge_left {f o f' : Filter} (h : f.merge o = .ok f') (h0 h1 : Nat)
    (hc : f.contains h0 h1 = true) : f'.contains h0 h1 = true := by
  obtain ⟨hl, _, rfl⟩ := merge_ok h
  simp only [Filter.contains, testBits_iff, Filter.locations, orBits_length _ _ hl] at *
  intro l hmem
  exact orBits_left _ _ _ (hc l hmem)

theorem contains_merge_right {f o f' : Filter} (h : f.merge o = .ok f') (h0 h1 : Nat)
    (hc : o.contains h0 h1 = true) : f'.contains h0 h1 = true := by
  obtain ⟨hl, hk, rfl⟩ := merge_ok h
  simp only [Filter.contains, testBits_iff, Filter.locations, orBits_length _ _ hl] at *
  intro l hmem
  rw [hk, hl] at hmem
  exact orBits_right _ _ hl _ (hc l hmem)

theorem merge_length {f o f' : Filter} (h : f.merge o = .ok f') : f'.bits.length = f.bits.length := by
  obtain ⟨hl, _, rfl⟩ := merge_ok h
  exact orBits_length _ _ hl

theorem pow2_ge8 {v m : Nat} (h : pow2 v = some m) : 8 ≤ m := by
  unfold pow2 at h
  have hm := List.mem_of_find?_eq_some h
  obtain ⟨i, _, rfl⟩ := List.mem_map.mp hm
  have : 2 ^ (i + 3) = 8 * 2 ^ i := by rw [Nat.pow_add]; omega
  have := Nat.one_le_two_pow (n := i)
  omega

theorem new_pos {m k : Nat} {f : Filter} (h : new m k = some f) : 0 < f.bits.length := by
  unfold new at h
  cases hp : pow2 m with
  | none => simp [hp] at h
  | some m' =>
    simp [hp] at h
    subst h
    have := pow2_ge8 hp
    simp; omega

theorem byteBits_length (b : Nat) : (byteBits b).length = 8 := by simp [byteBits]

theorem flatMap_byteBits_length (buf : List Nat) : (buf.flatMap byteBits).length = buf.length * 8 := by
  induction buf with
  | nil => rfl
  | cons b bs ih => simp [List.flatMap_cons, byteBits_length, ih]; omega

theorem ofBuffer_pos {buf : List Nat} {k : Nat} {f : Filter} (h : ofBuffer buf k = some f) :
    0 < f.bits.length := by
  unfold ofBuffer at h
  cases hp : pow2 (buf.length * 8) with
  | none => simp [hp] at h
  | some m =>
    simp only [hp] at h
    split at h
    · cases h
    · next hne =>
      simp only [Option.some.injEq] at h
      subst h
      have := pow2_ge8 hp
      simp only [flatMap_byteBits_length]
      have : m = buf.length * 8 := by simpa using hne
      omega

end Influx.Bloom
