/-
  Lemmas.C13Torn — the segment after a crash in the middle of the LAST append: for every
  cut, `ForEachEntry` returns the old entries unchanged, plus at most one entry that carries
  the NEW id (never a garbage id) and a key of the right length.
-/
import Influx.Lemmas.C13Bytes

namespace Influx.SF

theorem Chain.append : ∀ (pos : Nat) (es : List Entry) (e : Entry), Chain pos (es ++ [e]) →
    Chain pos es ∧ e.wf ∧ e.off = pos + (ser es).length
  | pos, [], e, h => by simpa [Chain, ser] using ⟨h.2.1, h.1⟩
  | pos, x :: xs, e, h => by
    obtain ⟨h1, h2, h3⟩ := h
    have ih := Chain.append (pos + x.size) xs e h3
    refine ⟨⟨h1, h2, ih.1⟩, ih.2.1, ?_⟩
    rw [ih.2.2]
    simp [ser, Entry.bytes_length h2]
    omega

/-- the torn tail: the first `c` bytes of the append, zeros for the rest -/
def tornTail (b : Bytes) (c : Nat) : Bytes := b.take c ++ List.replicate (b.length - c) 0

theorem byteAt_replicate_zero (n i : Nat) : byteAt (List.replicate n 0) i = 0 := by
  simp only [byteAt]
  by_cases h : i < n
  · simp [List.getElem?_replicate, h]
  · simp [List.getElem?_replicate, h]

theorem byteAt_tornTail_ge (b : Bytes) (c i : Nat) (h : c ≤ i) : byteAt (tornTail b c) i = 0 := by
  unfold tornTail
  by_cases hc : c ≤ b.length
  · have hl : (b.take c).length = c := by simp [hc]
    obtain ⟨j, rfl⟩ : ∃ j, i = (b.take c).length + j := ⟨i - c, by omega⟩
    rw [byteAt_append_right, byteAt_replicate_zero]
  · have : b.length - c = 0 := by omega
    rw [this]
    simp only [List.replicate_zero, List.append_nil]
    apply byteAt_ge
    simp; omega

theorem byteAt_tornTail_lt (b : Bytes) (c i : Nat) (h : i < c) : byteAt (tornTail b c) i = byteAt b i := by
  unfold tornTail
  by_cases hi : i < b.length
  · rw [byteAt_append_left _ _ _ (by simp; omega)]
    simp [byteAt, List.getElem?_take, h]
  · rw [byteAt_ge b i (by omega)]
    have : b.take c = b := List.take_of_length_le (by omega)
    rw [this]
    have : b.length - c = 0 := by omega
    simp [this, byteAt_ge b i (by omega)]

theorem tear_eq (a b : Bytes) (c : Nat) :
    tear (a ++ b) (a.length + c) (a.length + b.length) = a ++ tornTail b c := by
  apply List.ext_getElem?
  intro i
  simp only [tear, List.getElem?_map, List.getElem?_zipIdx]
  by_cases hi : i < a.length
  · simp [List.getElem?_append_left hi, List.getElem?_eq_getElem hi]
    omega
  · obtain ⟨j, rfl⟩ : ∃ j, i = a.length + j := ⟨i - a.length, by omega⟩
    simp only [List.getElem?_append_right (Nat.le_add_right _ _), Nat.add_sub_cancel_left, Nat.zero_add]
    by_cases hj : j < b.length
    · simp only [List.getElem?_eq_getElem hj, Option.map_some]
      by_cases hc : j < c
      · have : ¬ (a.length + c ≤ a.length + j ∧ a.length + j < a.length + b.length) := by omega
        simp only [this, if_false, tornTail]
        rw [List.getElem?_append_left (by simp; omega), List.getElem?_take]
        simp [hc, hj]
      · have : (a.length + c ≤ a.length + j ∧ a.length + j < a.length + b.length) := by omega
        simp only [this, if_true, tornTail]
        have hl : (b.take c).length = min c b.length := by simp
        rw [List.getElem?_append_right (by simp; omega), List.getElem?_replicate]
        simp; omega
    · have h1 : b[j]? = none := by simp; omega
      simp only [h1, Option.map_none]
      symm
      simp [tornTail]; omega

theorem take_entry_bytes (e : Entry) (hf : e.flag = insertFlag) (c : Nat) (hc : 9 ≤ c) :
    e.bytes.take c = e.flag :: (be64Bytes e.id ++ e.key.take (c - 9)) := by
  obtain ⟨d, rfl⟩ : ∃ d, c = 9 + d := ⟨c - 9, by omega⟩
  simp only [Entry.bytes, entryBytes, hf, if_true]
  rw [show 9 + d = (8 + d) + 1 by omega, List.cons_append, List.take_succ_cons]
  congr 1
  rw [List.take_append, be64Bytes_length]
  have : (be64Bytes e.id).take (8 + d) = be64Bytes e.id := List.take_of_length_le (by simp [be64Bytes_length])
  rw [this]
  simp

/-- what `ReadSeriesEntry` makes of a torn insert entry -/
theorem readEntry_torn (pre : Bytes) (e : Entry) (hwf : e.wf) (hf : e.flag = insertFlag)
    (hoff : e.off = pre.length) (c : Nat) :
    (c ≤ 9 → readEntry (pre ++ tornTail e.bytes c) pre.length = none) ∧
    (9 < c → ∃ key', key'.length = e.key.length ∧ (e.bytes.length ≤ c → key' = e.key) ∧
      readEntry (pre ++ tornTail e.bytes c) pre.length = some { e with key := key' }) := by
  obtain ⟨hid, hk⟩ := hwf
  have hs : shortKey e.key := by
    rcases hk with ⟨_, hs⟩ | ⟨h2, _⟩
    · exact hs
    · rw [hf] at h2; simp [insertFlag, tombstoneFlag] at h2
  have hblen : e.bytes.length = 9 + e.key.length := by
    simp [Entry.bytes, entryBytes, hf, be64Bytes_length]; omega
  obtain ⟨body, hkey, hb1, hb2⟩ := hs
  constructor
  · intro hc
    by_cases h0 : c = 0
    · apply readEntry_zero
      have := byteAt_append_right pre (tornTail e.bytes c) 0
      rw [Nat.add_zero] at this
      rw [this, byteAt_tornTail_ge _ _ _ (by omega)]
    · -- flag present, the key area is still zero: empty key, rejected
      have hflag : byteAt (pre ++ tornTail e.bytes c) pre.length = insertFlag := by
        have := byteAt_append_right pre (tornTail e.bytes c) 0
        rw [Nat.add_zero] at this
        rw [this, byteAt_tornTail_lt _ _ _ (by omega)]
        simp [Entry.bytes, entryBytes, byteAt_cons_zero, hf]
      have hk0 : byteAt (pre ++ tornTail e.bytes c) (pre.length + entryHdrSize) = 0 := by
        rw [byteAt_append_right, byteAt_tornTail_ge _ _ _ (by simp [entryHdrSize]; omega)]
      have hu := uvarint_single (pre ++ tornTail e.bytes c) (pre.length + entryHdrSize) (by rw [hk0]; omega)
      simp [readEntry, hflag, readKey, hu, hk0]
  · intro hc
    have htake := take_entry_bytes e hf c (by omega)
    have htail : tornTail e.bytes c =
        e.flag :: (be64Bytes e.id ++ (e.key.take (c - 9) ++ List.replicate (e.bytes.length - c) 0)) := by
      simp [tornTail, htake, List.append_assoc]
    have hflag : byteAt (pre ++ tornTail e.bytes c) pre.length = insertFlag := by
      have := byteAt_append_right pre (tornTail e.bytes c) 0
      rw [Nat.add_zero] at this
      rw [this, htail, byteAt_cons_zero, hf]
    have hbe : be64 (pre ++ tornTail e.bytes c) (pre.length + 1) = e.id := by
      have := be64_be64Bytes (pre ++ [e.flag]) (e.key.take (c - 9) ++ List.replicate (e.bytes.length - c) 0) e.id hid
      simpa [htail, List.append_assoc] using this
    -- the length prefix is on disk
    have hk0 : byteAt (pre ++ tornTail e.bytes c) (pre.length + entryHdrSize) = body.length := by
      rw [byteAt_append_right, byteAt_tornTail_lt _ _ _ (by simp [entryHdrSize]; omega)]
      have := byteAt_append_right (e.flag :: be64Bytes e.id) e.key 0
      simp only [List.length_cons, be64Bytes_length, Nat.add_zero] at this
      simp only [Entry.bytes, entryBytes, hf, if_true, entryHdrSize]
      rw [show (insertFlag :: be64Bytes e.id ++ e.key) = (insertFlag :: be64Bytes e.id) ++ e.key by simp]
      have h2 := byteAt_append_right (insertFlag :: be64Bytes e.id) e.key 0
      simp only [List.length_cons, be64Bytes_length, Nat.add_zero] at h2
      rw [h2, hkey, byteAt_cons_zero]
    have hu := uvarint_single (pre ++ tornTail e.bytes c) (pre.length + entryHdrSize) (by rw [hk0]; exact hb2)
    refine ⟨(List.range (body.length + 1)).map fun i =>
        byteAt (pre ++ tornTail e.bytes c) (pre.length + entryHdrSize + i), ?_, ?_, ?_⟩
    · rw [hkey]; simp
    · intro hfull
      -- nothing was lost
      rw [hkey]
      apply List.ext_getElem
      · simp
      · intro i hi1 hi2
        simp only [List.getElem_map, List.getElem_range]
        rw [Nat.add_assoc, byteAt_append_right, byteAt_tornTail_lt _ _ _ (by
          simp at hi1; simp [entryHdrSize]; rw [hblen, hkey] at hfull; simp at hfull; omega)]
        simp only [Entry.bytes, entryBytes, hf, if_true, entryHdrSize]
        rw [show (insertFlag :: be64Bytes e.id ++ e.key) = (insertFlag :: be64Bytes e.id) ++ e.key by simp]
        have h2 := byteAt_append_right (insertFlag :: be64Bytes e.id) e.key i
        simp only [List.length_cons, be64Bytes_length] at h2
        rw [show 9 + i = 8 + 1 + i by omega, h2, hkey]
        simp [byteAt, List.getElem?_eq_getElem hi2]
    · simp only [readEntry, hflag, if_true, readKey, hu, hk0, Option.map_some, hbe]
      have : ¬ ((List.range (body.length + 1)).map fun i =>
          byteAt (pre ++ tornTail e.bytes c) (pre.length + entryHdrSize + i)).length ≤ 1 := by
        simp only [List.length_map, List.length_range]; omega
      simp only [this, if_false, Option.some.injEq]
      cases e; simp_all

/-- **torn append**: every cut leaves the old entries as they were; what may be added carries
    the new id. -/
theorem entries_torn (es : List Entry) (e : Entry) (hch : Chain hdrSize (es ++ [e]))
    (hf : e.flag = insertFlag) (c : Nat) :
    let g := tear (fileOf es ++ e.bytes) ((fileOf es).length + c) ((fileOf es).length + e.bytes.length)
    (c ≤ 9 → entries g = es) ∧
    (9 < c → ∃ key', key'.length = e.key.length ∧ (e.bytes.length ≤ c → key' = e.key) ∧
      entries g = es ++ [{ e with key := key' }]) := by
  intro g
  obtain ⟨hces, hwf, hoff⟩ := Chain.append hdrSize es e hch
  have hg : g = hdr ++ (ser es ++ tornTail e.bytes c) := by
    simp only [g, tear_eq, fileOf, List.append_assoc]
  have hoff' : e.off = (hdr ++ ser es).length := by simp [hoff, hdr_length]
  have hlen := ser_length_ge hdrSize es hces
  have hblen : e.bytes.length = e.size := Entry.bytes_length hwf
  have htl : (tornTail e.bytes c).length = max c e.bytes.length ∨ True := Or.inr trivial
  -- fuel bookkeeping
  have hglen : g.length = hdr.length + (ser es).length + (tornTail e.bytes c).length := by
    simp [hg, List.append_assoc]; omega
  obtain ⟨fuel, hfuel⟩ : ∃ fuel, g.length + 1 = es.length + (fuel + 2) := by
    refine ⟨g.length + 1 - es.length - 2, ?_⟩
    have h9 := size_pos e
    have : (tornTail e.bytes c).length ≥ e.bytes.length := by
      simp [tornTail]; omega
    have hh : hdr.length = 5 := rfl
    omega
  have hscan := scan_ser es hdr (tornTail e.bytes c) (fuel + 2) hces
  have hre := readEntry_torn (hdr ++ ser es) e hwf hf hoff' c
  simp only [List.append_assoc] at hre
  have hpos : hdr.length + (ser es).length = (hdr ++ ser es).length := by simp
  constructor
  · intro hc
    unfold entries
    rw [hfuel, hg, show hdrSize = hdr.length from rfl, hscan]
    simp only [scan]
    rw [hpos, hre.1 hc]
    simp
  · intro hc
    obtain ⟨key', hkl, hfull, hr⟩ := hre.2 hc
    refine ⟨key', hkl, hfull, ?_⟩
    unfold entries
    rw [hfuel, hg, show hdrSize = hdr.length from rfl, hscan]
    simp only [scan]
    rw [hpos, hr]
    -- behind the (possibly garbled) entry everything is zero
    have hz : readEntry (hdr ++ (ser es ++ tornTail e.bytes c))
        ((hdr ++ ser es).length + ({ e with key := key' } : Entry).size) = none := by
      apply readEntry_zero
      have : ({ e with key := key' } : Entry).size = e.size := by simp [Entry.size, hkl]
      rw [this, ← List.append_assoc, byteAt_append_right]
      by_cases hcl : c ≤ e.bytes.length
      · apply byteAt_ge
        simp [tornTail]; omega
      · apply byteAt_ge
        simp [tornTail]; omega
    simp only [hz]

end Influx.SF
