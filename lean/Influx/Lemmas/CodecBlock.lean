/-
  Lemmas.CodecBlock — string codec over an abstract compressor; block framing.
-/
import Influx.Lemmas.CodecInt
namespace Influx.Codec
open Influx.Generated.Codec
open Influx.Spec.C07 (Vals)

/-! ### strings -/

theorem putUvarint_ne_nil (v : Nat) : putUvarint v ≠ [] := by
  unfold putUvarint; split <;> simp

theorem strParse_payload : ∀ (vs : List Bytes) (fuel : Nat), vs.length ≤ fuel → (∀ s ∈ vs, s.length < W) →
    strParse fuel (strPayload vs) = some vs := by
  intro vs
  induction vs with
  | nil => intro fuel _ _; cases fuel <;> simp [strParse, strPayload]
  | cons s ss ih =>
    intro fuel hf hlen
    cases fuel with
    | zero => simp at hf
    | succ f =>
      have hpl : strPayload (s :: ss) = putUvarint s.length ++ (s ++ strPayload ss) := by
        simp [strPayload, List.flatMap_cons, List.append_assoc]
      rw [hpl]
      have hne : (putUvarint s.length ++ (s ++ strPayload ss)).isEmpty = false := by
        cases h : putUvarint s.length with
        | nil => exact absurd h (putUvarint_ne_nil _)
        | cons a b => rfl
      simp only [strParse, hne, Bool.false_eq_true, if_false]
      rw [getUvarint_put _ (hlen s List.mem_cons_self)]
      simp only
      have hlt : ¬ ((s ++ strPayload ss).length < s.length) := by simp
      rw [if_neg hlt, List.drop_left, List.take_left]
      rw [ih f (by simp at hf; omega) (fun x hx => hlen x (List.mem_cons_of_mem _ hx))]

theorem strPayload_length_ge (vs : List Bytes) : vs.length ≤ (strPayload vs).length := by
  induction vs with
  | nil => simp [strPayload]
  | cons s ss ih =>
    have hpl : strPayload (s :: ss) = putUvarint s.length ++ (s ++ strPayload ss) := by
      simp [strPayload, List.flatMap_cons, List.append_assoc]
    rw [hpl]
    have : 1 ≤ (putUvarint s.length).length := by
      cases h : putUvarint s.length with
      | nil => exact absurd h (putUvarint_ne_nil _)
      | cons a b => simp
    simp only [List.length_append, List.length_cons]
    omega

/-- **string codec** over any compressor that decompresses what it compressed -/
theorem strDecode_strEncode (c : Compressor) (hc : ∀ x, c.decompress (c.compress x) = some x)
    (vs : List Bytes) (hlen : ∀ s ∈ vs, s.length < W) : strDecode c (strEncode c vs) = some vs := by
  unfold strEncode strDecode
  simp only [hc]
  exact strParse_payload vs _ (strPayload_length_ge vs) hlen

/-! ### block framing -/

theorem unpackBlock_pack (tb vb : Bytes) (h : tb.length < W) :
    unpackBlock (putUvarint tb.length ++ tb ++ vb) = some (tb, vb) := by
  unfold unpackBlock
  rw [List.append_assoc, getUvarint_put _ h]
  simp only
  have : ¬ (tb.length > (tb ++ vb).length) := by simp
  rw [if_neg this, List.take_left, List.drop_left]

end Influx.Codec
