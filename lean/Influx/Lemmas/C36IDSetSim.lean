/-
  Lemmas.C36IDSetSim — simulation between the id-set part of the model (`stepS`) and of the
  statement (`checkS`), for ids below 2^32.
-/
import Influx.Lemmas.C36IDSet
import Influx.Lemmas.C36BloomSim

namespace Influx.C36
open Influx.Spec.C36 Influx.IDSet

/-- every id an op mentions fits 32 bits -/
def SOp.WF : SOp → Prop
  | .new _ ids => ∀ id ∈ ids, id < 2 ^ 32
  | .add _ id => id < 2 ^ 32
  | .addMany _ ids => ∀ id ∈ ids, id < 2 ^ 32
  | .rem _ id => id < 2 ^ 32
  | .has _ id => id < 2 ^ 32
  | _ => True

def RS1 : Option IDSet.Set → Option (List Nat) → Prop
  | none, none => True
  | some m, some a => m = canon a
  | _, _ => False

structure RS (ss : List IDSet.Set) (sp : SSpec) : Prop where
  len : ss.length = nReg
  rel : ∀ j : Nat, RS1 ss[j]? sp.sets[j]?
  small : sp.big = false

theorem RS_init : RS (List.replicate nReg []) {} := by
  refine ⟨by simp, ?_, rfl⟩
  intro j
  by_cases h : j < nReg
  · simp [h, RS1, canon]
  · simp [h, RS1]

theorem RS.get_some {ss sp} (h : RS ss sp) {r : Nat} {m : IDSet.Set} (hm : ss[r]? = some m) :
    ∃ a, sp.sets[r]? = some a ∧ m = canon a ∧ r < nReg := by
  have hr := h.rel r
  rw [hm] at hr
  have hlt : r < nReg := by
    have := (List.getElem?_eq_some_iff.mp hm).1
    rw [h.len] at this; exact this
  cases ha : sp.sets[r]? with
  | none => rw [ha] at hr; simp [RS1] at hr
  | some a => rw [ha] at hr; exact ⟨a, rfl, hr, hlt⟩

theorem RS.get_none {ss sp} (h : RS ss sp) {r : Nat} (hm : ss[r]? = none) : sp.sets[r]? = none := by
  have hr := h.rel r
  rw [hm] at hr
  cases ha : sp.sets[r]? with
  | none => rfl
  | some a => rw [ha] at hr; simp [RS1] at hr

theorem RS.set {ss sp} (h : RS ss sp) (r : Nat) (m : IDSet.Set) (a : List Nat) (hma : m = canon a)
    (sp' : SSpec) (hs : sp'.sets = sp.sets.set r a) (hb : sp'.big = false) :
    RS (ss.set r m) sp' := by
  refine ⟨by simp [h.len], ?_, hb⟩
  rw [hs]
  apply rel_set RS1 _ _ ss sp.sets h.rel r m a hma
  · intro x; simp [RS1]
  · intro y; simp [RS1]

theorem RS.same {ss sp} (h : RS ss sp) (sp' : SSpec) (hs : sp'.sets = sp.sets) (hb : sp'.big = false) :
    RS ss sp' := ⟨h.len, by rw [hs]; exact h.rel, hb⟩

theorem anyBig_false {ids : List Nat} (h : ∀ id ∈ ids, id < 2 ^ 32) : ids.any big = false := by
  rw [List.any_eq_false]
  intro id hid
  have := h id hid
  simp [big]; omega

theorem big_false {id : Nat} (h : id < 2 ^ 32) : big id = false := by simp [big]; omega

/-- `Merge(others...)`: folding unions is the union with everything appended -/
theorem merge_canon (s : List Nat) (os : List (List Nat)) :
    IDSet.merge (canon s) (os.map canon) = canon (os.foldl (fun acc o => o ++ acc) s) := by
  induction os generalizing s with
  | nil => rfl
  | cons o os ih =>
    simp only [List.map_cons, IDSet.merge, List.foldl_cons]
    have : IDSet.union (canon s) (canon o) = canon (o ++ s) := by
      apply eq_canon _ _ (union_sorted _ _ (canon_sorted s))
      intro y; simp [mem_union, mem_canon, or_comm]
    rw [this]
    exact ih (o ++ s)

theorem mapM_rel {ss sp} (h : RS ss sp) (others : List Nat) (osm : List IDSet.Set)
    (hm : others.mapM (fun o => ss[o]?) = some osm) :
    ∃ osa, others.mapM (fun o => sp.sets[o]?) = some osa ∧ osm = osa.map canon := by
  induction others generalizing osm with
  | nil => simp at hm; subst hm; exact ⟨[], by simp, rfl⟩
  | cons o os ih =>
    rw [List.mapM_cons] at hm
    cases ho : ss[o]? with
    | none => simp [ho] at hm
    | some m =>
      cases hrest : os.mapM (fun o => ss[o]?) with
      | none => simp [ho, hrest] at hm
      | some rest =>
        simp [ho, hrest] at hm
        obtain ⟨a, ha, hma, _⟩ := h.get_some ho
        obtain ⟨osa, hosa, hrel⟩ := ih rest hrest
        refine ⟨a :: osa, ?_, ?_⟩
        · rw [List.mapM_cons]; simp [ha, hosa]
        · subst hm; simp [hma, hrel]

theorem mapM_none {ss sp} (h : RS ss sp) (others : List Nat)
    (hm : others.mapM (fun o => ss[o]?) = none) : others.mapM (fun o => sp.sets[o]?) = none := by
  induction others with
  | nil => simp at hm
  | cons o os ih =>
    rw [List.mapM_cons] at hm ⊢
    cases ho : ss[o]? with
    | none => simp [h.get_none ho]
    | some m =>
      obtain ⟨a, ha, _, _⟩ := h.get_some ho
      cases hrest : os.mapM (fun o => ss[o]?) with
      | none => simp [ha, ih hrest]
      | some rest => simp [ho, hrest] at hm

theorem filter_canon (a : List Nat) (p q : Nat → Bool) (hpq : ∀ x, p x = q x) :
    (canon a).filter p = canon (a.filter q) := by
  apply eq_canon _ _ ((canon_sorted a).filter _)
  intro y
  simp [List.mem_filter, mem_canon, hpq]

theorem contains_canon (a : List Nat) (x : Nat) : (canon a).contains x = a.contains x := by
  rw [Bool.eq_iff_iff]; simp [mem_canon]

theorem any_canon (a : List Nat) (p : Nat → Bool) : (canon a).any p = a.any p := by
  rw [Bool.eq_iff_iff]; simp [List.any_eq_true, mem_canon]

theorem stepS_sim (ss sp) (op : SOp) (hR : RS ss sp) (hwf : SOp.WF op) :
    (checkS sp op (stepS ss op).2).2 = none ∧ RS (stepS ss op).1 (checkS sp op (stepS ss op).2).1 := by
  have hb := hR.small
  cases op with
  | new r ids =>
    simp only [SOp.WF] at hwf
    simp only [stepS, checkS, updS, hb, anyBig_false hwf, Bool.or_false]
    by_cases hr : r < nReg
    · simp only [hr, if_true, expect]
      refine ⟨by simp, ?_⟩
      refine hR.set r (addMany [] ids) ids ?_ _ rfl (by simp)
      · apply eq_canon _ _ (addMany_sorted _ _ (by simp))
        intro y
        rw [mem_addMany]
        constructor
        · rintro (h | ⟨id, h1, rfl⟩)
          · cases h
          · rw [norm_small (hwf id h1)]; exact h1
        · intro h; exact Or.inr ⟨y, h, (norm_small (hwf y h)).symm⟩
    · simp only [hr, if_false]
      exact ⟨trivial, hR.same _ rfl (by simp)⟩
  | add r id =>
    simp only [SOp.WF] at hwf
    simp only [stepS, checkS, updS, hb, big_false hwf, Bool.or_false]
    cases hs : ss[r]? with
    | none => simp only [hR.get_none hs]; exact ⟨trivial, hR.same _ rfl (by simp)⟩
    | some m =>
      obtain ⟨a, ha, hma, hlt⟩ := hR.get_some hs
      simp only [ha, hlt, if_true, expect]
      refine ⟨by simp, ?_⟩
      exact hR.set r (IDSet.add m id) (id :: a) (by rw [canon_cons, hma, IDSet.add, norm_small hwf]) _ rfl (by simp)
  | addMany r ids =>
    simp only [SOp.WF] at hwf
    simp only [stepS, checkS, updS, hb, anyBig_false hwf, Bool.or_false]
    cases hs : ss[r]? with
    | none => simp only [hR.get_none hs]; exact ⟨trivial, hR.same _ rfl (by simp)⟩
    | some m =>
      obtain ⟨a, ha, hma, hlt⟩ := hR.get_some hs
      simp only [ha, hlt, if_true, expect]
      refine ⟨by simp, ?_⟩
      refine hR.set r (IDSet.addMany m ids) (ids ++ a) ?_ _ rfl (by simp)
      · apply eq_canon _ _ (addMany_sorted _ _ (hma ▸ canon_sorted a))
        intro y
        rw [mem_addMany, hma, mem_canon, List.mem_append]
        constructor
        · rintro (h | ⟨id, h1, rfl⟩)
          · exact Or.inr h
          · rw [norm_small (hwf id h1)]; exact Or.inl h1
        · rintro (h | h)
          · exact Or.inr ⟨y, h, (norm_small (hwf y h)).symm⟩
          · exact Or.inl h
  | rem r id =>
    simp only [SOp.WF] at hwf
    simp only [stepS, checkS, updS, hb, big_false hwf, Bool.or_false]
    cases hs : ss[r]? with
    | none => simp only [hR.get_none hs]; exact ⟨trivial, hR.same _ rfl (by simp)⟩
    | some m =>
      obtain ⟨a, ha, hma, hlt⟩ := hR.get_some hs
      simp only [ha, hlt, if_true, expect]
      refine ⟨by simp, ?_⟩
      refine hR.set r (IDSet.remove m id) (a.filter (· ≠ id)) ?_ _ rfl (by simp)
      · rw [IDSet.remove, hma, norm_small hwf]
        exact filter_canon a _ _ (fun _ => rfl)
  | has r id =>
    simp only [SOp.WF] at hwf
    simp only [stepS, checkS, hb, big_false hwf, Bool.or_false]
    cases hs : ss[r]? with
    | none => simp only [hR.get_none hs]; exact ⟨trivial, hR.same _ rfl (by simp)⟩
    | some m =>
      obtain ⟨a, ha, hma, hlt⟩ := hR.get_some hs
      simp only [ha, expect]
      refine ⟨?_, hR.same _ rfl (by simp)⟩
      simp [IDSet.contains, hma, norm_small hwf, mem_canon]
  | card r =>
    simp only [stepS, checkS]
    cases hs : ss[r]? with
    | none => simp only [hR.get_none hs]; exact ⟨trivial, hR⟩
    | some m =>
      obtain ⟨a, ha, hma, hlt⟩ := hR.get_some hs
      simp only [ha, expect]
      exact ⟨by simp [hma], hR⟩
  | merge r others =>
    simp only [stepS, checkS]
    cases hs : ss[r]? with
    | none =>
      simp only [hR.get_none hs]
      exact ⟨trivial, hR⟩
    | some m =>
      obtain ⟨a, ha, hma, hlt⟩ := hR.get_some hs
      cases hos : others.mapM (fun o => ss[o]?) with
      | none => simp only [ha, mapM_none hR others hos]; exact ⟨trivial, hR⟩
      | some osm =>
        obtain ⟨osa, hosa, hrel⟩ := mapM_rel hR others osm hos
        simp only [ha, hosa]
        by_cases hc : others.contains r = true
        · simp only [hc, if_true]; exact ⟨trivial, hR⟩
        · simp only [hc, updS, hlt, if_true, expect]
          refine ⟨by simp, ?_⟩
          refine hR.set _ _ _ ?_ _ rfl hb
          rw [hma, hrel]; exact merge_canon a osa
  | mergeIP r o =>
    simp only [stepS, checkS]
    cases hs : ss[r]? with
    | none =>
      simp only [hR.get_none hs]
      exact ⟨trivial, hR⟩
    | some m =>
      obtain ⟨a, ha, hma, hlt⟩ := hR.get_some hs
      cases ho : ss[o]? with
      | none => simp only [ha, hR.get_none ho]; exact ⟨trivial, hR⟩
      | some t =>
        obtain ⟨b, hb', htb, _⟩ := hR.get_some ho
        simp only [ha, hb', updS, hlt, if_true, expect]
        refine ⟨by simp, ?_⟩
        refine hR.set _ _ _ ?_ _ rfl hb
        rw [hma, htb]
        apply eq_canon _ _ (union_sorted _ _ (canon_sorted a))
        intro y; simp [mem_union, mem_canon, or_comm]
  | eq x y =>
    simp only [stepS, checkS]
    cases hs : ss[x]? with
    | none =>
      simp only [hR.get_none hs]
      exact ⟨trivial, hR⟩
    | some m =>
      obtain ⟨a, ha, hma, hlt⟩ := hR.get_some hs
      cases ho : ss[y]? with
      | none => simp only [ha, hR.get_none ho]; exact ⟨trivial, hR⟩
      | some t =>
        obtain ⟨b, hb', htb, _⟩ := hR.get_some ho
        simp only [ha, hb', expect]
        exact ⟨by simp [IDSet.equals, hma, htb], hR⟩
  | and x y dst =>
    simp only [stepS, checkS]
    cases hs : ss[x]? with
    | none =>
      simp only [hR.get_none hs]
      exact ⟨trivial, hR⟩
    | some m =>
      obtain ⟨a, ha, hma, hlt⟩ := hR.get_some hs
      cases ho : ss[y]? with
      | none => simp only [ha, hR.get_none ho]; exact ⟨trivial, hR⟩
      | some t =>
        obtain ⟨b, hb', htb, _⟩ := hR.get_some ho
        simp only [ha, hb', updS]
        by_cases hd : dst < nReg
        · simp only [hd, if_true, expect]
          refine ⟨by simp, ?_⟩
          refine hR.set _ _ _ ?_ _ rfl hb
          rw [IDSet.and, hma, htb]
          exact filter_canon a _ _ (fun z => contains_canon b z)
        · simp only [hd, if_false]; exact ⟨trivial, hR⟩
  | andNot x y dst =>
    simp only [stepS, checkS]
    cases hs : ss[x]? with
    | none =>
      simp only [hR.get_none hs]
      exact ⟨trivial, hR⟩
    | some m =>
      obtain ⟨a, ha, hma, hlt⟩ := hR.get_some hs
      cases ho : ss[y]? with
      | none => simp only [ha, hR.get_none ho]; exact ⟨trivial, hR⟩
      | some t =>
        obtain ⟨b, hb', htb, _⟩ := hR.get_some ho
        simp only [ha, hb', updS]
        by_cases hd : dst < nReg
        · simp only [hd, if_true, expect]
          refine ⟨by simp, ?_⟩
          refine hR.set _ _ _ ?_ _ rfl hb
          rw [IDSet.andNot, hma, htb]
          exact filter_canon a _ _ (fun z => by rw [contains_canon])
        · simp only [hd, if_false]; exact ⟨trivial, hR⟩
  | diff r o =>
    simp only [stepS, checkS]
    cases hs : ss[r]? with
    | none =>
      simp only [hR.get_none hs]
      exact ⟨trivial, hR⟩
    | some m =>
      obtain ⟨a, ha, hma, hlt⟩ := hR.get_some hs
      cases ho : ss[o]? with
      | none => simp only [ha, hR.get_none ho]; exact ⟨trivial, hR⟩
      | some t =>
        obtain ⟨b, hb', htb, _⟩ := hR.get_some ho
        simp only [ha, hb']
        by_cases hro : r = o
        · simp only [hro, if_true]; exact ⟨trivial, hR⟩
        · simp only [hro, if_false, updS, hlt, if_true, expect]
          refine ⟨by simp, ?_⟩
          refine hR.set _ _ _ ?_ _ rfl hb
          rw [IDSet.andNot, hma, htb]
          exact filter_canon a _ _ (fun z => by rw [contains_canon])
  | inter x y =>
    simp only [stepS, checkS]
    cases hs : ss[x]? with
    | none =>
      simp only [hR.get_none hs]
      exact ⟨trivial, hR⟩
    | some m =>
      obtain ⟨a, ha, hma, hlt⟩ := hR.get_some hs
      cases ho : ss[y]? with
      | none => simp only [ha, hR.get_none ho]; exact ⟨trivial, hR⟩
      | some t =>
        obtain ⟨b, hb', htb, _⟩ := hR.get_some ho
        simp only [ha, hb', expect]
        refine ⟨?_, hR⟩
        have : IDSet.intersects m t = a.any fun i => b.contains i := by
          rw [IDSet.intersects, hma, htb, any_canon]
          congr 1; funext z; exact contains_canon b z
        simp [this]
  | clone src dst =>
    simp only [stepS, checkS]
    cases hs : ss[src]? with
    | none => simp only [hR.get_none hs]; exact ⟨trivial, hR⟩
    | some m =>
      obtain ⟨a, ha, hma, hlt⟩ := hR.get_some hs
      simp only [ha, updS]
      by_cases hd : dst < nReg
      · simp only [hd, if_true, expect]
        exact ⟨by simp, hR.set _ _ _ hma _ rfl hb⟩
      · simp only [hd, if_false]; exact ⟨trivial, hR⟩
  | roundTrip src dst =>
    simp only [stepS, checkS]
    cases hs : ss[src]? with
    | none => simp only [hR.get_none hs]; exact ⟨trivial, hR⟩
    | some m =>
      obtain ⟨a, ha, hma, hlt⟩ := hR.get_some hs
      simp only [ha, updS]
      by_cases hd : dst < nReg
      · simp only [hd, if_true, expect]
        exact ⟨by simp, hR.set _ _ _ hma _ rfl hb⟩
      · simp only [hd, if_false]; exact ⟨trivial, hR⟩
  | clear r =>
    simp only [stepS, checkS]
    cases hs : ss[r]? with
    | none => simp only [hR.get_none hs]; exact ⟨trivial, hR⟩
    | some m =>
      obtain ⟨a, ha, hma, hlt⟩ := hR.get_some hs
      simp only [ha, updS, hlt, if_true, expect]
      exact ⟨by simp, hR.set _ _ _ (by simp [canon]) _ rfl hb⟩
  | slice r =>
    simp only [stepS, checkS]
    cases hs : ss[r]? with
    | none => simp only [hR.get_none hs]; exact ⟨trivial, hR⟩
    | some m =>
      obtain ⟨a, ha, hma, hlt⟩ := hR.get_some hs
      simp only [ha, expect]
      exact ⟨by simp [hma], hR⟩

end Influx.C36
