/-
  Lemmas.C36RHHOps — the public operations of `rhh.HashMap` (`NewHashMap`, `Put`, `Get`,
  `Grow`, `Reset`) on a map satisfying `Map.Inv`.
-/
import Influx.Lemmas.C36RHHMap

namespace Influx.RHH

/-- invariant of a hash map: robin-hood slots, `n` counts the occupied slots, and the load
    factor does not exceed 100 % (otherwise `put` can fill the table and `insert` spins) -/
structure Map.Inv (hf : Key → Nat) (m : Map) : Prop where
  wf : WF hf m.slots
  n_eq : m.n = count m.slots
  lf : m.lf ≤ 100

theorem Map.new_inv (hf : Key → Nat) {capacity lf : Nat} {m : Map} (h : Map.new capacity lf = some m)
    (hlf : lf ≤ 100) : m.Inv hf ∧ ∀ e, ¬ Mem m.slots e := by
  unfold Map.new at h
  cases hp : pow2 capacity with
  | none => simp [hp] at h
  | some c =>
    simp [hp] at h
    subst h
    have := (pow2_spec hp).2
    exact ⟨⟨wf_empty hf c (by omega), by simp [count_empty], hlf⟩, mem_empty c⟩

theorem Map.reset_inv {hf : Key → Nat} {m : Map} (h : m.Inv hf) :
    m.reset.Inv hf ∧ ∀ e, ¬ Mem m.reset.slots e := by
  unfold Map.reset
  exact ⟨⟨wf_empty hf _ (by simpa [Map.cap] using h.wf.pos), by simp [count_empty], h.lf⟩, mem_empty _⟩

/-- `Grow` keeps the contents (and `n`) -/
theorem Map.grow_spec {hf : Key → Nat} {m m' : Map} (h : m.Inv hf) {sz : Nat} (hg : m.grow sz = some m') :
    m'.Inv hf ∧ (∀ e, Mem m'.slots e ↔ Mem m.slots e) ∧ m'.n = m.n ∧ m.cap ≤ m'.cap ∧
      (∀ c, pow2 sz = some c → c ≤ m'.cap) := by
  unfold Map.grow at hg
  cases hp : pow2 sz with
  | none => simp [hp] at hg
  | some c =>
    simp only [hp] at hg
    by_cases hle : c ≤ m.cap
    · simp only [hle, if_true, Option.some.injEq] at hg
      subst hg
      exact ⟨h, fun _ => Iff.rfl, rfl, Nat.le_refl _, fun c' hc' => by cases hc'; exact hle⟩
    · simp only [hle, if_false] at hg
      have hc2 := (pow2_spec hp).2
      have hroom : count (List.replicate c (none : Option Entry)) + (occupied m.slots).length
          < (List.replicate c (none : Option Entry)).length := by
        rw [count_empty, ← count_eq_occupied]
        have := count_le m.slots
        simp [Map.cap] at hle ⊢; omega
      obtain ⟨s', hre, hw', hlen', hmem', hcnt'⟩ := reinsert_spec m.slots (List.replicate c none)
        (wf_empty hf c (by omega))
        (fun e he => by
          obtain ⟨i, hi⟩ := (mem_occupied m.slots e).mp he
          exact h.wf.hash i e hi)
        (occupied_pairwise h.wf)
        (fun e _ e' hm' => absurd hm' (mem_empty c e'))
        hroom
      rw [hre] at hg
      simp only [Option.map_some, Option.some.injEq] at hg
      subst hg
      refine ⟨⟨hw', ?_, h.lf⟩, ?_, rfl, ?_, ?_⟩
      · simp only; rw [hcnt', count_empty, ← count_eq_occupied, h.n_eq]; omega
      · intro e
        simp only
        rw [hmem' e, mem_occupied]
        constructor
        · rintro (hm | hm)
          · exact absurd hm (mem_empty c e)
          · exact hm
        · exact Or.inr
      · simp [Map.cap, hlen'] at hle ⊢; omega
      · intro c' hc'; cases hc'; simp [Map.cap, hlen']

theorem threshold_le {m : Map} (hlf : m.lf ≤ 100) : m.threshold ≤ m.cap := by
  unfold Map.threshold
  have : m.cap * m.lf ≤ m.cap * 100 := Nat.mul_le_mul_left _ hlf
  exact Nat.div_le_of_le_mul (by omega)

/-- **`Put` is a map update**: afterwards the key holds the new entry, every other stored
    entry is unchanged, `n` counts the keys, and the invariant holds again. -/
theorem Map.put_spec {hf : Key → Nat} {m m' : Map} (h : m.Inv hf) (k : Key) (v : Int)
    (hp : m.put (hf k) k v = some m') :
    m'.Inv hf ∧ (∀ e, Mem m'.slots e ↔ (Mem m.slots e ∧ e.key ≠ k) ∨ e = ⟨hf k, k, v⟩) ∧
      ((∃ e, Mem m.slots e ∧ e.key = k) → m'.n = m.n) ∧
      ((∀ e, Mem m.slots e → e.key ≠ k) → m'.n = m.n + 1) := by
  unfold Map.put at hp
  simp only at hp
  -- after the optional Grow
  have hstage : ∃ m1, (if m.threshold < m.n + 1 then m.grow (m.cap * 2) else some m) = some m1 ∧
      m1.Inv hf ∧ (∀ e, Mem m1.slots e ↔ Mem m.slots e) ∧ m1.n = m.n ∧
      ((∀ e, Mem m1.slots e → e.key ≠ k) → count m1.slots < m1.slots.length) := by
    by_cases hth : m.threshold < m.n + 1
    · simp only [hth, if_true] at hp ⊢
      cases hg : m.grow (m.cap * 2) with
      | none => simp [hg] at hp
      | some m1 =>
        obtain ⟨hI1, hmem1, hn1, _, hcap⟩ := Map.grow_spec h hg
        refine ⟨m1, rfl, hI1, hmem1, hn1, fun _ => ?_⟩
        -- the new capacity is at least twice the old one
        have hpow : ∃ c, pow2 (m.cap * 2) = some c := by
          unfold Map.grow at hg
          cases hp2 : pow2 (m.cap * 2) with
          | none => simp [hp2] at hg
          | some c => exact ⟨c, rfl⟩
        obtain ⟨c, hc⟩ := hpow
        have h1 := hcap c hc
        have h2 := (pow2_spec hc).1
        have h3 := count_le m.slots
        have h4 := h.wf.pos
        rw [← hI1.n_eq, hn1, h.n_eq]
        simp only [Map.cap] at h1 h2
        omega
    · simp only [hth, if_false] at hp ⊢
      refine ⟨m, rfl, h, fun _ => Iff.rfl, rfl, fun _ => ?_⟩
      have := threshold_le h.lf
      rw [← h.n_eq]
      simp only [Map.cap] at this
      omega
  obtain ⟨m1, hm1, hI1, hmem1, hn1, hroom⟩ := hstage
  rw [hm1] at hp
  simp only at hp
  obtain ⟨s', ow, hins, hw', hlen', hmem', how, hcnt'⟩ :=
    insert_spec hI1.wf ⟨hf k, k, v⟩ rfl hroom
  rw [hins] at hp
  simp only [Option.some.injEq] at hp
  subst hp
  have hex : (∃ e, Mem m.slots e ∧ e.key = k) ↔ ow = true := by
    rw [how]
    constructor
    · rintro ⟨e, hm, hk⟩; exact ⟨e, (hmem1 e).mpr hm, hk⟩
    · rintro ⟨e, hm, hk⟩; exact ⟨e, (hmem1 e).mp hm, hk⟩
  refine ⟨⟨hw', ?_, hI1.lf⟩, ?_, ?_, ?_⟩
  · simp only
    rw [hcnt', ← hI1.n_eq, hn1]
    cases ow <;> simp
  · intro e
    simp only
    rw [hmem' e, hmem1 e]
  · intro hh
    have := hex.mp hh
    subst this
    simp
  · intro hh
    have : ow = false := by
      cases ow with
      | false => rfl
      | true => obtain ⟨e, hm, hk⟩ := hex.mpr rfl; exact absurd hk (hh e hm)
    subst this
    simp

/-- `Put` returns as long as doubling the capacity stays within `pow2`'s range -/
theorem Map.put_total {hf : Key → Nat} {m : Map} (h : m.Inv hf) (k : Key) (v : Int)
    (hcap : m.cap * 2 ≤ 2 ^ 61) : ∃ m', m.put (hf k) k v = some m' := by
  unfold Map.put
  simp only
  have hstage : ∃ m1, (if m.threshold < m.n + 1 then m.grow (m.cap * 2) else some m) = some m1 ∧
      m1.Inv hf ∧ ((∀ e, Mem m1.slots e → e.key ≠ k) → count m1.slots < m1.slots.length) := by
    by_cases hth : m.threshold < m.n + 1
    · simp only [hth, if_true]
      obtain ⟨c, hc⟩ := pow2_some hcap
      have hc1 := (pow2_spec hc).1
      have hpos := h.wf.pos
      have hle : ¬ c ≤ m.cap := by simp only [Map.cap] at hc1 ⊢; omega
      have hroom : count (List.replicate c (none : Option Entry)) + (occupied m.slots).length
          < (List.replicate c (none : Option Entry)).length := by
        rw [count_empty, ← count_eq_occupied]
        have := count_le m.slots
        simp [Map.cap] at hle ⊢; omega
      obtain ⟨s', hre, _, hlen', _, hcnt'⟩ := reinsert_spec m.slots (List.replicate c none)
        (wf_empty hf c (by have := (pow2_spec hc).2; omega))
        (fun e he => by
          obtain ⟨i, hi⟩ := (mem_occupied m.slots e).mp he
          exact h.wf.hash i e hi)
        (occupied_pairwise h.wf)
        (fun e _ e' hm' => absurd hm' (mem_empty c e'))
        hroom
      have hg : m.grow (m.cap * 2) = some { m with slots := s' } := by
        unfold Map.grow; simp [hc, hle, hre]
      obtain ⟨hI1, _, _, _, _⟩ := Map.grow_spec h hg
      refine ⟨_, hg, hI1, fun _ => ?_⟩
      simp only
      rw [hcnt', hlen', count_empty, ← count_eq_occupied]
      have h3 := count_le m.slots
      simp [Map.cap] at hle ⊢
      omega
    · simp only [hth, if_false]
      refine ⟨m, rfl, h, fun _ => ?_⟩
      have := threshold_le h.lf
      rw [← h.n_eq]
      simp only [Map.cap] at this
      omega
  obtain ⟨m1, hm1, hI1, hroom⟩ := hstage
  rw [hm1]
  obtain ⟨s', ow, hins, _⟩ := insert_spec hI1.wf ⟨hf k, k, v⟩ rfl hroom
  simp [hins]

/-- **`Get` is the lookup of the abstract map** -/
theorem Map.get_spec {hf : Key → Nat} {m : Map} (h : m.Inv hf) (k : Key) (v : Int) :
    m.get (hf k) k = some v ↔ ∃ e, Mem m.slots e ∧ e.key = k ∧ e.val = v := by
  unfold Map.get
  constructor
  · intro hg
    cases hl : lookup m.slots (hf k) k with
    | none => simp [hl] at hg
    | some e =>
      simp [hl] at hg
      obtain ⟨hm, hk⟩ := (lookup_some_iff h.wf k e).mp hl
      exact ⟨e, hm, hk, hg⟩
  · rintro ⟨e, hm, hk, hv⟩
    have := (lookup_some_iff h.wf k e).mpr ⟨hm, hk⟩
    simp [this, hv]

theorem Map.get_none {hf : Key → Nat} {m : Map} (h : m.Inv hf) (k : Key) :
    m.get (hf k) k = none ↔ ∀ e, Mem m.slots e → e.key ≠ k := by
  unfold Map.get
  constructor
  · intro hg e hm hk
    have := (lookup_some_iff h.wf k e).mpr ⟨hm, hk⟩
    simp [this] at hg
  · intro habs
    simp [lookup_absent m.slots (hf k) k habs]

end Influx.RHH
