/-
  Lemmas.TSITrace — the statement checker of C14 accepts (up to stale tag listings) the
  model's trace of every history built from the engine's flows, rolls, compactions and reopen.
-/
import Influx.Lemmas.TSIQuery
import Influx.Spec.C14

namespace Influx.Model.TSI
open Influx.Spec.C14

/-- operations of the engine's flows (no index-only drop, no crash). -/
def Allowed : Op → Bool
  | .crash _ _ _ => false
  | .dropSeriesIndexOnly _ => false
  | .dropMeasurementIndexOnly _ => false
  | _ => true

theorem lookupTag_eq_tagOf (tags : Tags) (k : String) : Spec.C14.lookupTag tags k = tagOf tags k := by
  induction tags with
  | nil => rfl
  | cons kv rest ih =>
    obtain ⟨k₀, v₀⟩ := kv
    simp only [Spec.C14.lookupTag, tagOf_cons, ih]

theorem tagOf_isSome_of_key {tags : Tags} {k : String} (h : k ∈ tags.map (·.1)) : ∃ v, tagOf tags k = some v := by
  induction tags with
  | nil => simp at h
  | cons kv rest ih =>
    obtain ⟨k₀, v₀⟩ := kv
    rw [tagOf_cons]
    by_cases hk : k₀ = k
    · exact ⟨v₀, by simp [hk]⟩
    · simp only [hk, if_false]
      simp only [List.map_cons, List.mem_cons] at h
      rcases h with h | h
      · exact absurd h.symm hk
      · exact ih h

/-- the checker's world describes the live set of the model state. -/
structure WRel (w : World) (st : State) (live : List Nat) : Prop where
  sound : ∀ s ∈ w.live, s.id ∈ live ∧ ∃ t, st.sf.find s.id = some t ∧ t.name = s.name ∧ t.tags = s.tags
  complete : ∀ id ∈ live, ∃ s ∈ w.live, s.id = id

theorem subset_iff {α : Type} [BEq α] [LawfulBEq α] (a b : List α) :
    Spec.C14.subset a b = true ↔ ∀ x ∈ a, x ∈ b := by
  simp [Spec.C14.subset]

/-! #### grades of the answers -/

section
variable {w : World} {st : State} {live : List Nat}

theorem grade_measurements (h : GInv st live) (hw : WRel w st live) :
    grade w .measurements (.names (sortStr (st.parts.flatMap (fun p => fsMeasurements p.datas)))) = .exact := by
  simp only [grade, expected]
  have h1 : Spec.C14.subset (w.live.map (·.name)) (sortStr (st.parts.flatMap (fun p => fsMeasurements p.datas))) = true := by
    rw [subset_iff]
    intro n hn
    obtain ⟨s, hs, rfl⟩ := List.mem_map.mp hn
    obtain ⟨hl, t, ht, htn, _⟩ := hw.sound s hs
    exact (ans_measurements h s.name).mpr ⟨s.id, hl, t, ht, htn⟩
  have h2 : Spec.C14.subset (sortStr (st.parts.flatMap (fun p => fsMeasurements p.datas))) (w.live.map (·.name)) = true := by
    rw [subset_iff]
    intro n hn
    obtain ⟨x, hx, t, ht, htn⟩ := (ans_measurements h n).mp hn
    obtain ⟨s, hs, hsid⟩ := hw.complete x hx
    obtain ⟨_, t', ht', htn', _⟩ := hw.sound s hs
    rw [hsid, ht] at ht'
    simp only [Option.some.injEq] at ht'
    subst ht'
    exact List.mem_map.mpr ⟨s, hs, by rw [← htn', htn]⟩
  simp [h1, h2]

theorem grade_tagKeys (h : GInv st live) (hw : WRel w st live) (n : String) :
    (grade w (.tagKeys n) (.names (sortStr (st.parts.flatMap (fun p => fsTagKeys p.datas n))))).rank ≤ 1 := by
  simp only [grade, expected]
  have h1 : Spec.C14.subset ((w.live.filter (·.name = n)).flatMap (fun s => s.tags.map (·.1)))
      (sortStr (st.parts.flatMap (fun p => fsTagKeys p.datas n))) = true := by
    rw [subset_iff]
    intro k hk
    obtain ⟨s, hs, hks⟩ := List.mem_flatMap.mp hk
    obtain ⟨hs1, hs2⟩ := List.mem_filter.mp hs
    have hsn : s.name = n := by simpa using hs2
    obtain ⟨hl, t, ht, htn, htt⟩ := hw.sound s hs1
    obtain ⟨v, hv⟩ := tagOf_isSome_of_key hks
    exact ans_tagKeys_sup h n k hl ht (by rw [htn, hsn]) (by rw [htt]; exact hv)
  simp only [h1, Bool.not_true, Bool.false_eq_true, if_false, isTagListing, if_true]
  split <;> simp [Grade.rank]

theorem grade_tagValues (h : GInv st live) (hw : WRel w st live) (n k : String) :
    (grade w (.tagValues n k) (.names (sortStr (st.parts.flatMap (fun p => fsTagValues p.datas n k))))).rank ≤ 1 := by
  simp only [grade, expected]
  have h1 : Spec.C14.subset ((w.live.filter (·.name = n)).filterMap (fun s => Spec.C14.lookupTag s.tags k))
      (sortStr (st.parts.flatMap (fun p => fsTagValues p.datas n k))) = true := by
    rw [subset_iff]
    intro v hv
    obtain ⟨s, hs, hvs⟩ := List.mem_filterMap.mp hv
    obtain ⟨hs1, hs2⟩ := List.mem_filter.mp hs
    have hsn : s.name = n := by simpa using hs2
    obtain ⟨hl, t, ht, htn, htt⟩ := hw.sound s hs1
    rw [lookupTag_eq_tagOf] at hvs
    exact ans_tagValues_sup h n k hl ht (by rw [htn, hsn]) (by rw [htt]; exact hvs)
  simp only [h1, Bool.not_true, Bool.false_eq_true, if_false, isTagListing, if_true]
  split <;> simp [Grade.rank]

/-- ids answered = ids of the live series selected by `sel`. -/
theorem grade_ids_exact (hw : WRel w st live) (sel : Spec.C14.Series → Bool) (sel' : SeriesInfo → Prop)
    (hsel : ∀ s ∈ w.live, ∀ t, st.sf.find s.id = some t → (sel s = true ↔ sel' t))
    (ans : List Nat)
    (hans : ∀ x, x ∈ ans ↔ x ∈ live ∧ ∃ t, st.sf.find x = some t ∧ sel' t) :
    (Spec.C14.subset ((w.live.filter sel).map (·.id)) ans && Spec.C14.subset ans ((w.live.filter sel).map (·.id))) = true := by
  rw [Bool.and_eq_true, subset_iff, subset_iff]
  constructor
  · intro x hx
    obtain ⟨s, hs, rfl⟩ := List.mem_map.mp hx
    obtain ⟨hs1, hs2⟩ := List.mem_filter.mp hs
    obtain ⟨hl, t, ht, _, _⟩ := hw.sound s hs1
    exact (hans s.id).mpr ⟨hl, t, ht, (hsel s hs1 t ht).mp hs2⟩
  · intro x hx
    obtain ⟨hl, t, ht, hst⟩ := (hans x).mp hx
    obtain ⟨s, hs, hsid⟩ := hw.complete x hl
    refine List.mem_map.mpr ⟨s, List.mem_filter.mpr ⟨hs, ?_⟩, hsid⟩
    exact (hsel s hs t (by rw [hsid]; exact ht)).mpr hst

theorem grade_measSeries (h : GInv st live) (hw : WRel w st live) (n : String) :
    grade w (.measurementSeries n) (.ids (sortNat ((st.parts.flatMap (fun p => fsMeasSeries p.datas n)).filter
      (fun id => !st.sf.isDeleted id)))) = .exact := by
  simp only [grade, expected]
  have := grade_ids_exact hw (fun s => decide (s.name = n)) (fun t => t.name = n)
    (by
      intro s hs t ht
      obtain ⟨_, t', ht', htn, _⟩ := hw.sound s hs
      rw [ht] at ht'; simp only [Option.some.injEq] at ht'; subst ht'
      simp [htn])
    _ (ans_measSeries h n)
  rw [Bool.and_eq_true] at this
  simp [this.1, this.2]

theorem grade_keySeries (h : GInv st live) (hw : WRel w st live) (n k : String) :
    grade w (.tagKeySeries n k) (.ids (sortNat ((st.parts.flatMap (fun p => fsKeySeries p.datas n k)).filter
      (fun id => !st.sf.isDeleted id)))) = .exact := by
  simp only [grade, expected]
  have := grade_ids_exact hw (fun s => decide (s.name = n) && (Spec.C14.lookupTag s.tags k).isSome)
    (fun t => t.name = n ∧ (tagOf t.tags k).isSome)
    (by
      intro s hs t ht
      obtain ⟨_, t', ht', htn, htt⟩ := hw.sound s hs
      rw [ht] at ht'; simp only [Option.some.injEq] at ht'; subst ht'
      simp [htn, htt, lookupTag_eq_tagOf])
    _ (ans_keySeries h n k)
  rw [Bool.and_eq_true] at this
  simp [this.1, this.2]

theorem grade_valSeries (h : GInv st live) (hw : WRel w st live) (n k v : String) (ids : List Nat)
    (hc : CacheOK st.sf live ((n, k, v), ids)) :
    grade w (.tagValueSeries n k v) (.ids (sortNat (ids.filter (fun id => !st.sf.isDeleted id)))) = .exact := by
  simp only [grade, expected]
  have := grade_ids_exact hw (fun s => decide (s.name = n) && decide (Spec.C14.lookupTag s.tags k = some v))
    (fun t => t.name = n ∧ tagOf t.tags k = some v)
    (by
      intro s hs t ht
      obtain ⟨_, t', ht', htn, htt⟩ := hw.sound s hs
      rw [ht] at ht'; simp only [Option.some.injEq] at ht'; subst ht'
      simp [htn, htt, lookupTag_eq_tagOf])
    _ (ans_valSeries_of_cacheOK h n k v ids hc)
  rw [Bool.and_eq_true] at this
  simp [this.1, this.2]

end

/-! #### the checker's step on a single candidate -/

theorem rank_worse (a b : Grade) : (a.worse b).rank = max a.rank b.rank := by
  unfold Grade.worse
  split
  · next h => exact (Nat.max_eq_left h).symm
  · next h => exact (Nat.max_eq_right (Nat.le_of_lt (Nat.lt_of_not_ge h))).symm

theorem stepCheck_query (k : Cand) (op : Op) (o : Obs) (hq : isQuery op = true) :
    stepCheck ⟨[k]⟩ op o = ⟨[{ k with worst := k.worst.worse (grade k.w op o) }]⟩ := by
  simp [stepCheck, hq]

theorem stepCheck_nostage (k : Cand) (op : Op) (o : Obs) (hq : isQuery op = false)
    (hc : ∀ p q e, op ≠ .crash p q e) (hs : stages k.w op = none) :
    stepCheck ⟨[k]⟩ op o = ⟨[k]⟩ := by
  unfold stepCheck
  simp only [hq, Bool.false_eq_true, if_false]
  cases o <;> cases op <;> simp_all [stages]

theorem stepCheck_stage (k : Cand) (op : Op) (ws : List World) (hq : isQuery op = false)
    (hc : ∀ p q e, op ≠ .crash p q e) (hs : stages k.w op = some ws) :
    stepCheck ⟨[k]⟩ op .ok = ⟨[{ k with w := ws.getLastD k.w, during := k.w :: ws }]⟩ := by
  unfold stepCheck
  simp only [hq, Bool.false_eq_true, if_false]
  cases op <;> simp_all [stages]
  all_goals (subst hs; rfl)

theorem stepCheck_notok (k : Cand) (op : Op) (o : Obs) (hq : isQuery op = false) (ho : o ≠ .ok) :
    stepCheck ⟨[k]⟩ op o = ⟨[k]⟩ := by
  unfold stepCheck
  simp only [hq, Bool.false_eq_true, if_false]
  cases o <;> cases op <;> simp_all

/-! #### facts about what `step` does to the series file -/

theorem step_create_sf {st : State} (id part : Nat) (name : String) (tags : Tags) (hok : SFOK st.sf)
    (h : (step st (.create id part name tags)).2 = .ok) :
    (∀ x s, st.sf.find x = some s → (step st (.create id part name tags)).1.sf.find x = some s) ∧
    ∃ t, (step st (.create id part name tags)).1.sf.find id = some t ∧ t.name = name ∧ t.tags = tags := by
  cases hfk : st.sf.findKey name tags with
  | some s =>
    simp only [step, hfk] at h ⊢
    split
    · next hb => rw [if_pos hb] at h; simp at h
    · next hb =>
      rw [if_neg hb] at h
      split
      · next hb2 => rw [if_pos hb2] at h; simp at h
      · next hidok =>
        have hidok : s.id = id ∧ s.part = part := by simpa using hidok
        obtain ⟨hsk, hsn, hst, _⟩ := findKey_some hfk
        have hfind : st.sf.find id = some s := by rw [← hidok.1]; exact find_of_mem hok hsk
        simp only [hfind, Option.isSome_some, if_true]
        exact ⟨fun x t ht => ht, s, rfl, hsn, hst⟩
  | none =>
    simp only [step, hfk] at h ⊢
    split
    · next hb => rw [if_pos hb] at h; simp at h
    · next hb =>
      rw [if_neg hb] at h
      split
      · next hb2 => rw [if_pos hb2] at h; simp at h
      · next hidok =>
        have hfresh : st.sf.find id = none := by simpa using hidok
        simp only [hfresh, Option.isSome_none, Bool.false_eq_true, if_false]
        refine ⟨?_, ?_⟩
        · intro x t ht
          exact find_append_new st.sf _ x t ht
        · refine ⟨{ id := id, name := name, tags := tags, part := part }, ?_, rfl, rfl⟩
          rw [find_append_fresh st.sf _ hfresh]
          simp

theorem step_dropSeries_obs {st : State} (id : Nat) :
    (step st (.dropSeries id)).2 = .ok ↔ (st.sf.find id).isSome := by
  cases hf : st.sf.find id <;> simp [step, hf]

theorem step_dropSeries_find {st : State} (id x : Nat) :
    (step st (.dropSeries id)).1.sf.find x = st.sf.find x := by
  cases hf : st.sf.find id with
  | none => simp [step, hf]
  | some s =>
    simp only [step, hf]
    have : ∀ st' : State, (dropMeasurementIfNoSeries st' s.name).sf = st'.sf := by
      intro st'; unfold dropMeasurementIfNoSeries; split <;> rfl
    unfold SFile.find
    simp only [this, dropSeriesIndex_sf]

theorem step_dropMeasurement_find {st : State} (name : String) (x : Nat) :
    (step st (.dropMeasurement name)).1.sf.find x = st.sf.find x := by
  have hstep : (step st (.dropMeasurement name)).1 =
      (let st1 : State := { st with parts := markOpStart st.parts, configured := true }
       let st2 := (victims st name).foldl dropSeriesIndex st1
       let st3 := dropMeasurementIfNoSeries st2 name
       { st3 with sf := { st3.sf with deleted := (victims st name).foldl (fun d s => sadd d s.id) st3.sf.deleted } }) := rfl
  rw [hstep]
  have h1 : ∀ st' : State, (dropMeasurementIfNoSeries st' name).sf = st'.sf := by
    intro st'; unfold dropMeasurementIfNoSeries; split <;> rfl
  have h2 : ∀ (l : List SeriesInfo) (st' : State), (l.foldl dropSeriesIndex st').sf = st'.sf := by
    intro l
    induction l with
    | nil => intro st'; rfl
    | cons a rest ih => intro st'; simp only [List.foldl_cons]; rw [ih, dropSeriesIndex_sf]
  unfold SFile.find
  simp only [h1, h2]

/-! #### the Spec's measurement drop -/

theorem mem_insertById (s t : Spec.C14.Series) (l : List Spec.C14.Series) :
    t ∈ insertById s l ↔ t = s ∨ t ∈ l := by
  induction l with
  | nil => simp [insertById]
  | cons a rest ih =>
    unfold insertById
    split
    · simp
    · simp only [List.mem_cons, ih]
      constructor
      · rintro (h | h | h)
        · exact Or.inr (Or.inl h)
        · exact Or.inl h
        · exact Or.inr (Or.inr h)
      · rintro (h | h | h)
        · exact Or.inr (Or.inl h)
        · exact Or.inl h
        · exact Or.inr (Or.inr h)

theorem mem_foldr_insertById (l : List Spec.C14.Series) (t : Spec.C14.Series) :
    t ∈ l.foldr insertById [] ↔ t ∈ l := by
  induction l with
  | nil => simp
  | cons a rest ih => simp only [List.foldr_cons, mem_insertById, ih, List.mem_cons]

/-- the last stage of a fold that records every intermediate world. -/
theorem stages_fold_last (vs : List Spec.C14.Series) (w0 : World) (l0 : List World) :
    ((vs.foldl (fun (acc : World × List World) v =>
        let w' := acc.1.drop (·.id = v.id); (w', acc.2 ++ [w'])) (w0, l0 ++ [w0])).2).getLastD w0 =
      vs.foldl (fun w v => w.drop (·.id = v.id)) w0 := by
  induction vs generalizing w0 l0 with
  | nil => simp
  | cons v rest ih =>
    simp only [List.foldl_cons]
    have := ih (w0.drop (·.id = v.id)) (l0 ++ [w0])
    rw [List.getLastD_eq_getLast?] at this ⊢
    have hne : ∀ (acc : World × List World) (l : List Spec.C14.Series), acc.2 ≠ [] →
        (l.foldl (fun (acc : World × List World) v =>
          let w' := acc.1.drop (·.id = v.id); (w', acc.2 ++ [w'])) acc).2 ≠ [] := by
      intro acc l
      induction l generalizing acc with
      | nil => intro h; exact h
      | cons a r ihr => intro h; simp only [List.foldl_cons]; exact ihr _ (by simp)
    have hn := hne (w0.drop (·.id = v.id), l0 ++ [w0] ++ [w0.drop (·.id = v.id)]) rest (by simp)
    cases hg : ((rest.foldl (fun (acc : World × List World) v =>
          let w' := acc.1.drop (·.id = v.id); (w', acc.2 ++ [w'])) (w0.drop (·.id = v.id), l0 ++ [w0] ++ [w0.drop (·.id = v.id)])).2).getLast? with
    | none => exact absurd (List.getLast?_eq_none_iff.mp hg) hn
    | some x =>
      simp only [hg, Option.getD_some] at this ⊢
      exact this

theorem mem_drop (w : World) (p : Spec.C14.Series → Bool) (s : Spec.C14.Series) :
    s ∈ (w.drop p).live ↔ s ∈ w.live ∧ p s = false := by
  simp [World.drop]

theorem mem_drop_fold (vs : List Spec.C14.Series) (w0 : World) (s : Spec.C14.Series) :
    s ∈ (vs.foldl (fun w v => w.drop (·.id = v.id)) w0).live ↔ s ∈ w0.live ∧ ∀ v ∈ vs, s.id ≠ v.id := by
  induction vs generalizing w0 with
  | nil => simp
  | cons v rest ih =>
    rw [List.foldl_cons, ih, mem_drop]
    simp only [decide_eq_false_iff_not, List.mem_cons, forall_eq_or_imp, ne_eq]
    constructor
    · rintro ⟨⟨h1, h2⟩, h3⟩; exact ⟨h1, h2, h3⟩
    · rintro ⟨h1, h2, h3⟩; exact ⟨⟨h1, h2⟩, h3⟩

end Influx.Model.TSI
