/-
  Lemmas.HLLBits — bit-length arithmetic and the theorem that the sparse hash coding of
  `hll.Plus` (`encodeHash`/`decodeHash` at p′ = 25) yields exactly the dense `(index, rho)`.
-/
import Influx.Model.HLL

namespace Influx.Lemmas.HLLBits
open Influx.Model.HLL

theorem log2_eq (n k : Nat) (h1 : 2 ^ k ≤ n) (h2 : n < 2 ^ (k + 1)) : Nat.log2 n = k := by
  have hn : n ≠ 0 := by have := Nat.pow_pos (n := k) (by decide : 0 < 2); omega
  have a : Nat.log2 n < k + 1 := (Nat.log2_lt hn).mpr h2
  have b : ¬ Nat.log2 n < k := fun h => by have := (Nat.log2_lt hn).mp h; omega
  omega

theorem bitLen_zero : bitLen 0 = 0 := by simp [bitLen]

theorem bitLen_bounds (c : Nat) (hc : 0 < c) : 2 ^ (bitLen c - 1) ≤ c ∧ c < 2 ^ bitLen c ∧ 0 < bitLen c := by
  unfold bitLen
  rw [if_neg (by omega)]
  exact ⟨by simpa using Nat.log2_self_le (by omega), Nat.lt_log2_self, by omega⟩

/-- shifting a positive number left by `j` and filling the low bits adds `j` to its bit length -/
theorem bitLen_shift (c j d : Nat) (hc : 0 < c) (hd : d < 2 ^ j) : bitLen (c * 2 ^ j + d) = bitLen c + j := by
  obtain ⟨h1, h2, h3⟩ := bitLen_bounds c hc
  have hpj : 0 < 2 ^ j := Nat.pow_pos (by decide)
  have hpos : 0 < c * 2 ^ j + d := by
    have := Nat.mul_pos hc hpj; omega
  unfold bitLen at h1 h2 h3 ⊢
  rw [if_neg (by omega)] at h1 h2 h3 ⊢
  rw [if_neg (by omega)]
  simp only [Nat.add_sub_cancel] at h1
  have lo : 2 ^ (Nat.log2 c + j) ≤ c * 2 ^ j + d := by
    rw [Nat.pow_add]
    have := Nat.mul_le_mul_right (2 ^ j) h1
    omega
  have hi : c * 2 ^ j + d < 2 ^ (Nat.log2 c + j + 1) := by
    have e : 2 ^ (Nat.log2 c + j + 1) = 2 ^ (Nat.log2 c + 1) * 2 ^ j := by
      rw [← Nat.pow_add]; congr 1; omega
    rw [e]
    have h4 : (c + 1) * 2 ^ j ≤ 2 ^ (Nat.log2 c + 1) * 2 ^ j := Nat.mul_le_mul_right _ (by omega)
    rw [Nat.add_mul, Nat.one_mul] at h4
    omega
  have key : Nat.log2 (c * 2 ^ j + d) = Nat.log2 c + j := log2_eq _ _ lo hi
  omega

/-- `j` one-bits -/
theorem bitLen_ones (j : Nat) : bitLen (2 ^ j - 1) = j := by
  cases j with
  | zero => simp [bitLen]
  | succ j =>
    have hp := Nat.pow_pos (n := j) (by decide : 0 < 2)
    have : 2 ^ (j + 1) = 2 * 2 ^ j := by rw [Nat.pow_succ]; omega
    unfold bitLen
    rw [if_neg (by omega)]
    congr 1
    apply log2_eq <;> omega

/-- bit length of `c` shifted with all-ones fill, `c = 0` allowed -/
theorem bitLen_shift_ones (c j : Nat) : bitLen (c * 2 ^ j + (2 ^ j - 1)) = bitLen c + j := by
  have hp := Nat.pow_pos (n := j) (by decide : 0 < 2)
  by_cases hc : c = 0
  · subst hc; simp [bitLen_ones, bitLen_zero]
  · exact bitLen_shift c j _ (by omega) (by omega)

theorem bitLen_pow (j : Nat) : bitLen (2 ^ j) = j + 1 := by
  have := bitLen_shift 1 j 0 (by decide) (Nat.pow_pos (by decide))
  simpa [bitLen] using this

theorem bitLen_le (c k : Nat) (h : c < 2 ^ k) : bitLen c ≤ k := by
  by_cases hc : c = 0
  · subst hc; simp [bitLen]
  · obtain ⟨h1, _, h3⟩ := bitLen_bounds c (by omega)
    apply Decidable.byContradiction
    intro hgt
    have : 2 ^ k ≤ 2 ^ (bitLen c - 1) := Nat.pow_le_pow_right (by decide) (by omega)
    omega

theorem bextr_eq (v s l : Nat) : bextr v s l = v / 2 ^ s % 2 ^ l := by
  unfold bextr; rw [Nat.and_two_pow_sub_one_eq_mod, Nat.shiftRight_eq_div_pow]

theorem and_one (k : Nat) : k &&& 1 = k % 2 := Nat.and_two_pow_sub_one_eq_mod k 1

/-- `(a << k) | b = a·2^k + b` when `b` fits below the shift -/
theorem shl_or (a k b : Nat) (hb : b < 2 ^ k) : (a * 2 ^ k) ||| b = a * 2 ^ k + b := by
  rw [← Nat.shiftLeft_eq, Nat.shiftLeft_add_eq_or_of_lt hb]

/-- the dense `(index, rho)` in arithmetic form -/
theorem dense_arith (p x : Nat) (hp1 : 1 ≤ p) (hp : p ≤ 64) (hx : x < 2 ^ 64) :
    denseIdxRho p x = (x / 2 ^ (64 - p), (65 - p - bitLen (x % 2 ^ (64 - p))) % 256) := by
  unfold denseIdxRho
  simp only [bextr_eq]
  have hpp : 0 < 2 ^ (64 - p) := Nat.pow_pos (by decide)
  have hsplit : 2 ^ 64 = 2 ^ (64 - p) * 2 ^ p := by rw [← Nat.pow_add]; congr 1; omega
  have hi : x / 2 ^ (64 - p) < 2 ^ p := by
    apply (Nat.div_lt_iff_lt_mul hpp).mpr; rw [Nat.mul_comm, ← hsplit]; exact hx
  rw [Nat.mod_eq_of_lt hi]
  -- w = y * 2^p + 2^(p-1) with y = x % 2^(64-p)
  have hw : u64 (x <<< p) = (x % 2 ^ (64 - p)) * 2 ^ p := by
    unfold u64; rw [Nat.shiftLeft_eq, hsplit, Nat.mul_mod_mul_right]
  have hlt : 2 ^ (p - 1) < 2 ^ p := Nat.pow_lt_pow_right (by decide) (by omega)
  rw [hw, shl_or _ _ _ hlt]
  congr 1
  have hy : x % 2 ^ (64 - p) < 2 ^ (64 - p) := Nat.mod_lt _ hpp
  generalize x % 2 ^ (64 - p) = y at hy
  by_cases hy0 : y = 0
  · subst hy0
    have : bitLen (2 ^ (p - 1)) = p := by rw [bitLen_pow]; omega
    simp only [Nat.zero_mul, Nat.zero_add, this, bitLen_zero, clz64]; omega
  · unfold clz64
    rw [bitLen_shift y p _ (by omega) hlt]
    have := bitLen_le y (64 - p) hy
    omega

theorem pow_split (a b : Nat) : 2 ^ (a + b) = 2 ^ a * 2 ^ b := Nat.pow_add ..

/-- **`decodeHash ∘ encodeHash` is the dense `(index, rho)`**: the sparse coding at p′ = 25 loses
    nothing the dense registers need, for every precision 4..18 and every 64-bit hash. -/
theorem decode_encode (p x : Nat) (hp4 : 4 ≤ p) (hp18 : p ≤ 18) (hx : x < 2 ^ 64) :
    decodeHash p (encodeHash p x) = denseIdxRho p x := by
  rw [dense_arith p x (by omega) (by omega) hx]
  -- the pieces of x
  have h39 : 0 < 2 ^ 39 := by decide
  have hq : 0 < 2 ^ (25 - p) := Nat.pow_pos (by decide)
  have hpp : 0 < 2 ^ p := Nat.pow_pos (by decide)
  have ha : x / 2 ^ 39 < 2 ^ 25 := by omega
  have e64 : 2 ^ (64 - p) = 2 ^ 39 * 2 ^ (25 - p) := by rw [← pow_split]; congr 1; omega
  have e25 : 2 ^ 25 = 2 ^ (25 - p) * 2 ^ p := by rw [← pow_split]; congr 1; omega
  have hidx : x / 2 ^ (64 - p) = x / 2 ^ 39 / 2 ^ (25 - p) := by rw [e64, Nat.div_div_eq_div_mul]
  have hy : x % 2 ^ (64 - p) = x % 2 ^ 39 + 2 ^ 39 * (x / 2 ^ 39 % 2 ^ (25 - p)) := by rw [e64, Nat.mod_mul]
  rw [hidx, hy]
  generalize hA : x / 2 ^ 39 = a at ha
  have hlow : x % 2 ^ 39 < 2 ^ 39 := Nat.mod_lt _ h39
  generalize hL : x % 2 ^ 39 = low at hlow
  have hi : a / 2 ^ (25 - p) < 2 ^ p := by
    apply (Nat.div_lt_iff_lt_mul hq).mpr; rw [Nat.mul_comm, ← e25]; exact ha
  have hmid : a % 2 ^ (25 - p) < 2 ^ (25 - p) := Nat.mod_lt _ hq
  have hbl := bitLen_le low 39 hlow
  have hbm := bitLen_le (a % 2 ^ (25 - p)) (25 - p) hmid
  unfold encodeHash
  simp only [pp, bextr_eq, Nat.pow_zero, Nat.div_one, hA, hL]
  have hidx25 : u32 (a % 2 ^ 25) = a := by unfold u32; omega
  rw [hidx25]
  split
  · next hm0 =>
    -- the middle bits are zero: k = a·128 + zeros·2 + 1
    have hz : clz64 (u64 (low <<< 25) ||| (2 ^ 25 - 1)) + 1 = 40 - bitLen low := by
      have e1 : u64 (low <<< 25) = low * 2 ^ 25 := by unfold u64; rw [Nat.shiftLeft_eq]; omega
      unfold clz64
      rw [e1, shl_or _ _ _ (by decide), bitLen_shift_ones]
      omega
    rw [hz]
    generalize hzz : 40 - bitLen low = z
    have hz1 : 1 ≤ z ∧ z ≤ 40 := by omega
    have ek : u32 (a <<< 7) ||| u32 (z <<< 1) ||| 1 = a * 128 + z * 2 + 1 := by
      have e1 : u32 (a <<< 7) = a * 2 ^ 7 := by unfold u32; rw [Nat.shiftLeft_eq]; omega
      have e2 : u32 (z <<< 1) = z * 2 := by unfold u32; rw [Nat.shiftLeft_eq]; omega
      rw [e1, e2, shl_or _ _ _ (by omega)]
      have e3 : a * 2 ^ 7 + z * 2 = (a * 64 + z) * 2 ^ 1 := by omega
      rw [e3, shl_or _ _ _ (by decide)]
    rw [ek]
    unfold decodeHash getIndex
    simp only [pp, and_one, bextr_eq]
    have hodd : (a * 128 + z * 2 + 1) % 2 = 1 := by omega
    simp only [hodd, if_true]
    have e32 : 2 ^ (32 - p) = 2 ^ 7 * 2 ^ (25 - p) := by rw [← pow_split]; congr 1; omega
    have hdiv : (a * 128 + z * 2 + 1) / 2 ^ (32 - p) = a / 2 ^ (25 - p) := by
      rw [e32, ← Nat.div_div_eq_div_mul]; congr 1; omega
    rw [hdiv, Nat.mod_eq_of_lt hi, hm0]
    congr 1
    have : (a * 128 + z * 2 + 1) / 2 ^ 1 % 2 ^ 6 = z := by omega
    rw [this]
    simp only [Nat.mul_zero, Nat.add_zero]
    omega
  · next hm0 =>
    have ek : u32 (a <<< 1) = a * 2 := by unfold u32; rw [Nat.shiftLeft_eq]; omega
    rw [ek]
    unfold decodeHash getIndex
    simp only [pp, and_one, bextr_eq]
    have hev : (a * 2) % 2 ≠ 1 := by omega
    simp only [hev, if_false]
    have e26 : 2 ^ (25 - p + 1) = 2 ^ 1 * 2 ^ (25 - p) := by rw [← pow_split]; congr 1; omega
    have hdiv : a * 2 / 2 ^ (25 - p + 1) = a / 2 ^ (25 - p) := by
      rw [e26, ← Nat.div_div_eq_div_mul]; congr 1; omega
    rw [hdiv, Nat.mod_eq_of_lt hi]
    congr 1
    -- rho from the middle bits
    have esh : 32 - 25 + p - 1 = 6 + p := by omega
    have e32 : 2 ^ 32 = 2 ^ (25 - p) * 2 ^ (7 + p) := by rw [← pow_split]; congr 1; omega
    have e7 : a * 2 * 2 ^ (6 + p) = a * 2 ^ (7 + p) := by
      have : 2 ^ (7 + p) = 2 * 2 ^ (6 + p) := by rw [show 7 + p = (6 + p) + 1 by omega, Nat.pow_succ]; omega
      rw [this]; ac_rfl
    have earg : u32 ((a * 2) <<< (32 - 25 + p - 1)) = (a % 2 ^ (25 - p)) * 2 ^ (7 + p) + 0 := by
      unfold u32; rw [esh, Nat.shiftLeft_eq, e7, e32, Nat.mul_mod_mul_right]; omega
    have hmpos : 0 < a % 2 ^ (25 - p) := Nat.pos_of_ne_zero hm0
    rw [earg, clz32, bitLen_shift _ _ _ hmpos (Nat.pow_pos (by decide))]
    have ey : low + 2 ^ 39 * (a % 2 ^ (25 - p)) = (a % 2 ^ (25 - p)) * 2 ^ 39 + low := by
      rw [Nat.mul_comm]; omega
    rw [ey, bitLen_shift _ _ _ hmpos hlow]
    omega

end Influx.Lemmas.HLLBits
