/-
  Lemmas.TagExprTrace — the statement checker `Spec.C15.holdsFrom` accepts the
  model's trace from any well-formed state related to the checker's world.
-/
import Influx.Lemmas.TagExprState

namespace Influx.Model.TagExpr
open Influx.Spec.C15

/-- the checker's world describes the model state. -/
structure Rel (w : World) (st : State) : Prop where
  series : ∀ s, s ∈ w.series ↔ s ∈ st.allSeries
  deleted : w.deleted = st.deleted
  fields : w.fields = st.fields

theorem run_cons (st : State) (op : Op) (rest : List Op) :
    run st (op :: rest) = (op, (step st op).2) :: run (step st op).1 rest := rfl

theorem mem_expected (w : World) (name : String) (e : Expr) (i : Nat) :
    i ∈ expected w name e ↔
      ∃ s ∈ w.series, s.name = name ∧ s.id = i ∧ i ∉ w.deleted ∧ sem name s.tags e = true := by
  unfold expected
  simp only [List.mem_map, List.mem_filter, Bool.and_eq_true, decide_eq_true_eq,
    Bool.not_eq_true', List.contains_eq_mem, decide_eq_false_iff_not, Bool.decide_and,
    Bool.decide_eq_true]
  constructor
  · rintro ⟨s, ⟨h1, h2, h3, h4⟩, rfl⟩; exact ⟨s, h1, h2, rfl, h3, h4⟩
  · rintro ⟨s, h1, h2, rfl, h3, h4⟩; exact ⟨s, ⟨h1, h2, h3, h4⟩, rfl⟩

theorem checkQuery_model {w : World} {st : State} (h : st.WF) (r : Rel w st) (name : String)
    (e : Expr) : checkQuery w name e (.ids (st.query name e).ids) = true := by
  unfold checkQuery
  split
  · next hg =>
    rw [r.fields] at hg
    have key : ∀ i, i ∈ (st.query name e).ids ↔ i ∈ expected w name e := by
      intro i
      rw [query_mem h name e hg i, mem_expected, r.deleted]
      constructor
      · rintro ⟨s, h1, h2⟩; exact ⟨s, (r.series s).mpr h1, h2⟩
      · rintro ⟨s, h1, h2⟩; exact ⟨s, (r.series s).mp h1, h2⟩
    simp only [Bool.and_eq_true, List.all_eq_true, List.contains_eq_mem, decide_eq_true_eq]
    exact ⟨fun i hi => (key i).mp hi, fun i hi => (key i).mpr hi⟩
  · rfl

theorem step_checkOne {w : World} {st : State} (h : st.WF) (r : Rel w st) (op : Op) :
    checkOne w (op, (step st op).2) = true := by
  cases op with
  | query name e => exact checkQuery_model h r name e
  | _ => rfl

theorem step_rel {w : World} {st : State} (r : Rel w st) (op : Op) :
    Rel (advance w (op, (step st op).2)) (step st op).1 := by
  cases op with
  | addSeries i s =>
    simp only [step]
    split
    · refine ⟨?_, r.deleted, r.fields⟩
      intro t
      simp only [advance, State.allSeries, List.mem_cons]
      rw [mem_addToShard]
      constructor
      · rintro (h | h)
        · exact Or.inl h
        · exact Or.inr ((r.series t).mp h)
      · rintro (h | h)
        · exact Or.inl h
        · exact Or.inr ((r.series t).mpr h)
    · exact ⟨r.series, r.deleted, r.fields⟩
  | delSeries id =>
    exact ⟨r.series, by simp [advance, step, r.deleted], r.fields⟩
  | addField n f =>
    exact ⟨r.series, r.deleted, by simp [advance, step, r.fields]⟩
  | query name e => exact ⟨r.series, r.deleted, r.fields⟩

theorem holdsFrom_run (ops : List Op) : ∀ (st : State) (w : World), st.WF → Rel w st →
    holdsFrom w (run st ops) = true := by
  induction ops with
  | nil => intro st w _ _; rfl
  | cons op rest ih =>
    intro st w h r
    rw [run_cons]
    simp only [holdsFrom, Bool.and_eq_true]
    exact ⟨step_checkOne h r op, ih _ _ (WF_step h op) (step_rel r op)⟩

theorem rel_init : Rel {} {} :=
  ⟨fun s => by simp [State.allSeries], rfl, rfl⟩

/-- the state reached from `st` by a list of operations. -/
def runState : State → List Op → State
  | st, [] => st
  | st, op :: rest => runState (step st op).1 rest

theorem WF_runState (ops : List Op) : ∀ st : State, st.WF → (runState st ops).WF := by
  induction ops with
  | nil => intro st h; exact h
  | cons op rest ih => intro st h; exact ih _ (WF_step h op)

end Influx.Model.TagExpr
