/-
  Lemmas.ValuesSearch — binary search, FindRange, Exclude, Include of Model.Values
  on sorted arrays: positions split the array; Exclude/Include are filters.
-/
import Influx.Model.Values
namespace Influx.Values
variable {V : Type}

/-- nonstrict sortedness is enough for search -/
abbrev Sorted (a : List (Pt V)) : Prop := a.Pairwise (fun p q => p.1 ≤ q.1)
abbrev SSorted (a : List (Pt V)) : Prop := a.Pairwise (fun p q => p.1 < q.1)

theorem SSorted.sorted {a : List (Pt V)} (h : SSorted a) : Sorted a :=
  h.imp (fun h => Int.le_of_lt h)

theorem searchLoop_spec (a : List (Pt V)) (v : Int) (hs : Sorted a) (lo hi : Nat) (h : hi ≤ a.length)
    (hlo : ∀ i (hi' : i < a.length), i < lo → a[i].1 < v)
    (hhi : ∀ i (hi' : i < a.length), hi ≤ i → v ≤ a[i].1) (hle : lo ≤ hi) :
    let r := searchLoop a v lo hi h
    r ≤ a.length ∧ (∀ i (hi' : i < a.length), i < r → a[i].1 < v) ∧ (∀ i (hi' : i < a.length), r ≤ i → v ≤ a[i].1) := by
  fun_induction searchLoop a v lo hi h with
  | case1 lo hi h hlt mid hc ih =>
    apply ih
    · intro i hi' hi2
      have : a[i].1 ≤ a[mid].1 := by
        rcases Nat.lt_or_ge i mid with h1 | h1
        · exact List.pairwise_iff_getElem.mp hs i mid hi' (by omega) h1
        · have : i = mid := by omega
          subst this; exact Int.le_refl _
      exact Int.lt_of_le_of_lt this hc
    · exact hhi
    · omega
  | case2 lo hi h hlt mid hc ih =>
    apply ih
    · exact hlo
    · intro i hi' hi2
      have : a[mid].1 ≤ a[i].1 := by
        rcases Nat.lt_or_ge mid i with h1 | h1
        · exact List.pairwise_iff_getElem.mp hs mid i (by omega) hi' h1
        · have : i = mid := by omega
          subst this; exact Int.le_refl _
      exact Int.le_trans (Int.not_lt.mp hc) this
    · omega
  | case3 lo hi h hlt =>
    have : lo = hi := by omega
    subst this
    exact ⟨h, hlo, hhi⟩


theorem search_index_spec (a : List (Pt V)) (v : Int) (hs : Sorted a) :
    search a v ≤ a.length ∧ (∀ i (h : i < a.length), i < search a v → a[i].1 < v) ∧
      (∀ i (h : i < a.length), search a v ≤ i → v ≤ a[i].1) := by
  unfold search
  apply searchLoop_spec a v hs 0 a.length (Nat.le_refl _)
  · intro i _ h; omega
  · intro i h h'; omega
  · omega

theorem mem_take_of_index {α} {Q : α → Prop} (a : List α) (r : Nat)
    (h : ∀ i (h : i < a.length), i < r → Q a[i]) : ∀ p ∈ a.take r, Q p := by
  intro p hp
  obtain ⟨i, hi, rfl⟩ := List.mem_take_iff_getElem.mp hp
  exact h i (by omega) (by omega)

theorem mem_drop_of_index {α} {Q : α → Prop} (a : List α) (r : Nat)
    (h : ∀ i (h : i < a.length), r ≤ i → Q a[i]) : ∀ p ∈ a.drop r, Q p := by
  intro p hp
  obtain ⟨i, hi, rfl⟩ := List.mem_drop_iff_getElem.mp hp
  exact h (r + i) (by omega) (by omega)

/-- the insertion position of `v` in a sorted array splits it into `< v` and `≥ v`. -/
theorem search_spec (a : List (Pt V)) (v : Int) (hs : Sorted a) :
    search a v ≤ a.length ∧ (∀ p ∈ a.take (search a v), p.1 < v) ∧ (∀ p ∈ a.drop (search a v), v ≤ p.1) := by
  obtain ⟨h1, h2, h3⟩ := search_index_spec a v hs
  exact ⟨h1, mem_take_of_index a _ h2, mem_drop_of_index a _ h3⟩

theorem searchLoop_le (a : List (Pt V)) (v : Int) (lo hi : Nat) (h : hi ≤ a.length) (hle : lo ≤ hi) :
    searchLoop a v lo hi h ≤ hi := by
  fun_induction searchLoop a v lo hi h with
  | case1 lo hi h hlt mid hc ih => exact ih (by omega)
  | case2 lo hi h hlt mid hc ih => have := ih (by omega); omega
  | case3 lo hi h hlt => omega

theorem search_le_length (a : List (Pt V)) (v : Int) : search a v ≤ a.length :=
  searchLoop_le a v 0 a.length _ (Nat.zero_le _)

theorem bumpMax_index_spec (a : List (Pt V)) (mx : Int) (hs : SSorted a) (r : Nat)
    (hr : r = bumpMax a mx (search a mx)) :
    r ≤ a.length ∧ (∀ i (h : i < a.length), i < r → a[i].1 ≤ mx) ∧
      (∀ i (h : i < a.length), r ≤ i → mx < a[i].1) := by
  obtain ⟨h1, h2, h3⟩ := search_index_spec a mx hs.sorted
  unfold bumpMax at hr
  split at hr
  · next hlt =>
    split at hr
    · next heq =>
      subst hr
      refine ⟨by omega, ?_, ?_⟩
      · intro i h hi
        rcases Nat.lt_or_ge i (search a mx) with h' | h'
        · exact Int.le_of_lt (h2 i h h')
        · have : i = search a mx := by omega
          subst this; omega
      · intro i h hi
        have := List.pairwise_iff_getElem.mp hs (search a mx) i hlt h (by omega)
        omega
    · next hne =>
      subst hr
      refine ⟨by omega, fun i h hi => Int.le_of_lt (h2 i h hi), ?_⟩
      intro i h hi
      rcases Nat.lt_or_ge (search a mx) i with h' | h'
      · have := List.pairwise_iff_getElem.mp hs (search a mx) i hlt h h'
        have := h3 (search a mx) hlt (Nat.le_refl _)
        omega
      · have : i = search a mx := by omega
        subst this
        have := h3 (search a mx) hlt (Nat.le_refl _)
        omega
  · next hge =>
    subst hr
    refine ⟨h1, fun i h hi => Int.le_of_lt (h2 i h hi), ?_⟩
    intro i h hi; omega

/-- after the `rmax++` adjustment the position splits a strictly sorted array into `≤ mx` and `> mx`. -/
theorem bumpMax_spec (a : List (Pt V)) (mx : Int) (hs : SSorted a) :
    bumpMax a mx (search a mx) ≤ a.length ∧ (∀ p ∈ a.take (bumpMax a mx (search a mx)), p.1 ≤ mx) ∧
      (∀ p ∈ a.drop (bumpMax a mx (search a mx)), mx < p.1) := by
  have key := bumpMax_index_spec a mx hs _ rfl
  exact ⟨key.1, mem_take_of_index a _ key.2.1, mem_drop_of_index a _ key.2.2⟩

theorem sorted_le_getLast (a : List (Pt V)) (hs : Sorted a) (l : Pt V) (hl : a.getLast? = some l) :
    ∀ p ∈ a, p.1 ≤ l.1 := by
  intro p hp
  induction a with
  | nil => simp at hp
  | cons x r ih =>
    rcases r with _ | ⟨y, r'⟩
    · simp at hl hp; subst hl; subst hp; exact Int.le_refl _
    · have hl' : (y :: r').getLast? = some l := by simpa [List.getLast?_cons_cons] using hl
      rcases List.mem_cons.mp hp with rfl | hp'
      · have hmem : l ∈ y :: r' := List.mem_of_getLast? hl'
        exact (List.pairwise_cons.mp hs).1 l hmem
      · exact ih (List.pairwise_cons.mp hs).2 hl' hp'

theorem sorted_head_le (a : List (Pt V)) (hs : Sorted a) (f : Pt V) (hf : a.head? = some f) :
    ∀ p ∈ a, f.1 ≤ p.1 := by
  intro p hp
  cases a with
  | nil => simp at hp
  | cons x r =>
    simp at hf; subst hf
    rcases List.mem_cons.mp hp with rfl | hp'
    · exact Int.le_refl _
    · exact (List.pairwise_cons.mp hs).1 p hp'

/-- a three-way split of a list by positions `r1 ≤ r2`. -/
theorem split3 {α} (a : List α) (r1 r2 : Nat) (h : r1 ≤ r2) :
    a = a.take r1 ++ ((a.drop r1).take (r2 - r1) ++ a.drop r2) := by
  have h1 : a = a.take r1 ++ a.drop r1 := (List.take_append_drop r1 a).symm
  have h2 : a.drop r1 = (a.drop r1).take (r2 - r1) ++ (a.drop r1).drop (r2 - r1) :=
    (List.take_append_drop _ _).symm
  have h3 : (a.drop r1).drop (r2 - r1) = a.drop r2 := by
    rw [List.drop_drop]; congr 1; omega
  rw [h3] at h2
  rw [← h2]; exact h1

theorem mem_mid {α} (a : List α) (r1 r2 : Nat) (p : α) (hp : p ∈ (a.drop r1).take (r2 - r1)) :
    p ∈ a.drop r1 ∧ p ∈ a.take r2 := by
  refine ⟨List.mem_of_mem_take hp, ?_⟩
  rw [← List.drop_take] at hp
  exact List.mem_of_mem_drop hp

/-- `FindRange` answers `(-1,-1)` only when no point lies in `[mn, mx]`. -/
theorem findRange_none (a : List (Pt V)) (mn mx : Int) (hs : Sorted a) (h : findRange a mn mx = none) :
    ∀ p ∈ a, ¬ (mn ≤ p.1 ∧ p.1 ≤ mx) := by
  intro p hp
  unfold findRange at h
  split at h
  · next f l hf hl =>
    have h1 := sorted_le_getLast a hs l hl p hp
    have h2 := sorted_head_le a hs f hf p hp
    split at h
    · omega
    · split at h
      · omega
      · simp at h
  · next hnone =>
    cases a with
    | nil => simp at hp
    | cons x r =>
      exfalso
      have := hnone x ((x :: r).getLast (by simp))
      simp [List.getLast?_eq_some_getLast] at this

theorem findRange_some (a : List (Pt V)) (mn mx : Int) (rmin rmax : Nat)
    (h : findRange a mn mx = some (rmin, rmax)) :
    rmin = search a mn ∧ rmax = search a mx ∧ mn ≤ mx ∧ a ≠ [] := by
  unfold findRange at h
  split at h
  · next f l hf hl =>
    split at h
    · simp at h
    · split at h
      · simp at h
      · simp at h
        refine ⟨h.1.symm, h.2.symm, by omega, ?_⟩
        intro hnil; subst hnil; simp at hf
  · simp at h

/-- in a strictly sorted array the lower position never exceeds the adjusted upper one. -/
theorem rmin_le_rmax' (a : List (Pt V)) (mn mx : Int) (hs : SSorted a) (hle : mn ≤ mx) :
    search a mn ≤ bumpMax a mx (search a mx) := by
  obtain ⟨h1, h2, h3⟩ := search_index_spec a mn hs.sorted
  obtain ⟨k1, k2, k3⟩ := bumpMax_index_spec a mx hs _ rfl
  rcases Nat.lt_or_ge (bumpMax a mx (search a mx)) (search a mn) with hlt | hge
  · have hlen : bumpMax a mx (search a mx) < a.length := by omega
    have := h2 _ hlen hlt
    have := k3 _ hlen (Nat.le_refl _)
    omega
  · exact hge

/-- the result of the slice arithmetic in `Exclude`, whenever the positions are ordered. -/
theorem exclude_eq_take_drop (a : List (Pt V)) (mn mx : Int) (rmin rmax : Nat)
    (h : findRange a mn mx = some (rmin, rmax)) (hle : rmin ≤ bumpMax a mx rmax)
    (hlen : bumpMax a mx rmax ≤ a.length) :
    exclude a mn mx = some (a.take rmin ++ a.drop (bumpMax a mx rmax)) := by
  unfold exclude
  rw [h]
  simp only
  split
  · next hlt =>
    split
    · next hrest => rw [if_pos (by omega)]
    · next hrest =>
      have : a.drop (bumpMax a mx rmax) = [] := List.drop_eq_nil_of_le (by omega)
      rw [this, List.append_nil]
  · next hge =>
    have hb : bumpMax a mx rmax = rmax := by unfold bumpMax; rw [dif_neg hge]
    have : a.drop (bumpMax a mx rmax) = [] := List.drop_eq_nil_of_le (by omega)
    rw [this, List.append_nil]

theorem filter_all {α} (l : List α) (P : α → Bool) (h : ∀ p ∈ l, P p = true) : l.filter P = l :=
  List.filter_eq_self.mpr h
theorem filter_none {α} (l : List α) (P : α → Bool) (h : ∀ p ∈ l, P p = false) : l.filter P = [] :=
  List.filter_eq_nil_iff.mpr (by intro p hp; simp [h p hp])

/-- **Exclude removes exactly the points in `[mn, mx]`** (any `mn`, `mx`, also `mn > mx`). -/
theorem exclude_eq_filter (a : List (Pt V)) (mn mx : Int) (hs : SSorted a) :
    exclude a mn mx = some (a.filter (fun p => !(decide (mn ≤ p.1) && decide (p.1 ≤ mx)))) := by
  cases hfr : findRange a mn mx with
  | none =>
    have := findRange_none a mn mx hs.sorted hfr
    unfold exclude; rw [hfr]
    simp only
    rw [filter_all]
    intro p hp
    have := this p hp
    simp only [Bool.not_eq_true', Bool.and_eq_false_iff, decide_eq_false_iff_not]
    omega
  | some r =>
    obtain ⟨rmin, rmax⟩ := r
    obtain ⟨e1, e2, hle, _⟩ := findRange_some a mn mx rmin rmax hfr
    subst e1; subst e2
    obtain ⟨_, s2, s3⟩ := search_spec a mn hs.sorted
    obtain ⟨b1, b2, b3⟩ := bumpMax_spec a mx hs
    have hord := rmin_le_rmax' a mn mx hs hle
    rw [exclude_eq_take_drop a mn mx _ _ hfr hord b1]
    congr 1
    generalize search a mn = r1 at *
    generalize bumpMax a mx (search a mx) = r2 at *
    conv => rhs; rw [split3 a r1 r2 hord]
    rw [List.filter_append, List.filter_append]
    rw [filter_all _ _ (by
      intro p hp; have := s2 p hp
      simp only [Bool.not_eq_true', Bool.and_eq_false_iff, decide_eq_false_iff_not]; omega)]
    rw [filter_none _ _ (by
      intro p hp; obtain ⟨m1, m2⟩ := mem_mid a r1 r2 p hp
      have := s3 p m1; have := b2 p m2
      simp only [Bool.not_eq_false', Bool.and_eq_true, decide_eq_true_eq]; omega)]
    rw [filter_all _ _ (by
      intro p hp; have := b3 p hp
      simp only [Bool.not_eq_true', Bool.and_eq_false_iff, decide_eq_false_iff_not]; omega)]
    simp

/-- **Include keeps exactly the points in `[mn, mx]`**. -/
theorem include_eq_filter (a : List (Pt V)) (mn mx : Int) (hs : SSorted a) :
    «include» a mn mx = some (a.filter (fun p => decide (mn ≤ p.1) && decide (p.1 ≤ mx))) := by
  cases hfr : findRange a mn mx with
  | none =>
    have := findRange_none a mn mx hs.sorted hfr
    unfold «include»; rw [hfr]
    simp only
    rw [filter_none]
    intro p hp
    have := this p hp
    simp only [Bool.and_eq_false_iff, decide_eq_false_iff_not]
    omega
  | some r =>
    obtain ⟨rmin, rmax⟩ := r
    obtain ⟨e1, e2, hle, _⟩ := findRange_some a mn mx rmin rmax hfr
    subst e1; subst e2
    obtain ⟨_, s2, s3⟩ := search_spec a mn hs.sorted
    obtain ⟨b1, b2, b3⟩ := bumpMax_spec a mx hs
    have hord := rmin_le_rmax' a mn mx hs hle
    unfold «include»; rw [hfr]
    simp only
    rw [if_pos hord]
    congr 1
    generalize search a mn = r1 at *
    generalize bumpMax a mx (search a mx) = r2 at *
    conv => rhs; rw [split3 a r1 r2 hord]
    rw [List.filter_append, List.filter_append]
    rw [filter_none _ _ (by
      intro p hp; have := s2 p hp
      simp only [Bool.and_eq_false_iff, decide_eq_false_iff_not]; omega)]
    rw [filter_all _ _ (by
      intro p hp; obtain ⟨m1, m2⟩ := mem_mid a r1 r2 p hp
      have := s3 p m1; have := b2 p m2
      simp only [Bool.and_eq_true, decide_eq_true_eq]; omega)]
    rw [filter_none _ _ (by
      intro p hp; have := b3 p hp
      simp only [Bool.and_eq_false_iff, decide_eq_false_iff_not]; omega)]
    simp

/-- the insertion position is the number of smaller timestamps. -/
theorem search_eq_countP (a : List (Pt V)) (v : Int) (hs : Sorted a) :
    search a v = a.countP (fun p => decide (p.1 < v)) := by
  obtain ⟨h1, h2, h3⟩ := search_spec a v hs
  conv => rhs; rw [← List.take_append_drop (search a v) a]
  rw [List.countP_append]
  have e1 : (a.take (search a v)).countP (fun p => decide (p.1 < v)) = (a.take (search a v)).length :=
    List.countP_eq_length.mpr (by intro p hp; simpa using h2 p hp)
  have e2 : (a.drop (search a v)).countP (fun p => decide (p.1 < v)) = 0 :=
    List.countP_eq_zero.mpr (by intro p hp; have := h3 p hp; simp; omega)
  rw [e1, e2, List.length_take]; omega

end Influx.Values
